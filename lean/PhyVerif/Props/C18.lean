import PhyVerif.Model.C18
import PhyVerif.Model.C18b
import PhyVerif.Spec.C18
import PhyVerif.Lemmas.C18
/-!
# C18 — JSON, TSV/CSV and parameter-file serialisation round-trips values and types
Only property theorems + non-vacuity examples; proofs in `Lemmas/C18.lean`.
(`json`, `csv`, `base64`, number formatting and the Python parser are transport; the parameter-file
round trip is exercised by the correspondence run only.)
-/
namespace PhyVerif.C18

/-- Encoder + object hook round-trip every value (arbitrarily nested lists / dictionaries, arrays of
any dtype, rank and size, NumPy scalars): the loaded value is the canonical form of the saved one —
arrays keep dtype, shape and values, 1-D arrays of at most ten items come back as equal lists. -/
theorem value_roundtrip (v : PV) (h : WF v) : decode (encode v) = canon v :=
  Lemmas.value_roundtrip v h

/-- Arrays keep dtype, shape and values for every memory layout (1): an array that is not a short 1-D
non-complex one comes back as an array whose dtype string is the saved one (byte order included: it
is read from the marker's `dtype` entry), whose shape is the saved one (read from the `shape` entry),
C-contiguous, holding `np.ascontiguousarray` of the saved array.  The array is given as NumPy has it:
(shape, strides, offset, buffer) — C order, Fortran order, transposed, strided, reversed views are
particular strides/offsets. -/
theorem array_roundtrip (dtype : String) (shape : List Nat) (strides : List Int) (off : Int) (mem : List Int)
    (hbig : ∀ n, shape = [n] → (n ≤ 10 && !isComplexDtype dtype) = false) :
    decode (encode (.arr dtype shape strides off mem)) =
      .arr dtype shape (cStrides shape) 0 (gather mem shape strides off) :=
  Lemmas.array_roundtrip dtype shape strides off mem hbig

/-- Arrays keep … (2): element by element.  For every multi-index inside the shape, the element of
the array that comes back equals the element of the saved array at that multi-index, for every
(strides, offset) with one stride per axis.  (Both sides read the same buffer position of the saved
array, so no in-bounds hypothesis is needed; a real array's positions are in bounds.) -/
theorem array_elements_preserved (shape : List Nat) (strides : List Int) (off : Int) (mem : List Int)
    (idx : List Nat) (hl : strides.length = shape.length) (hi : IdxOK shape idx) :
    getAt (cStrides shape) 0 (gather mem shape strides off) idx = getAt strides off mem idx :=
  Lemmas.array_elements_preserved shape strides off mem idx hl hi

/-- One-dimensional arrays of at most ten items (non-complex dtype) come back as the list of their
elements in index order, whatever the stride (`a[::2]`, `a[::-1]`). -/
theorem small_array_roundtrip (dtype : String) (n : Nat) (s : Int) (off : Int) (mem : List Int)
    (hn : n ≤ 10) (hc : isComplexDtype dtype = false) :
    decode (encode (.arr dtype [n] [s] off mem)) =
      .list (ofInts ((List.range n).map fun (i : Nat) => getMem mem (off + (i : Int) * s))) :=
  Lemmas.small_array_roundtrip dtype n s off mem hn hc

/-- Integer top-level keys stay integers (negative ones included), other string keys stay strings. -/
theorem key_roundtrip (hs : IntStrOK) (k : Key) (hk : KeyOK k) : intifyKey (stringifyKey k) = k :=
  Lemmas.key_roundtrip hs k hk

/-- `save_json` followed by `load_json` on a whole dictionary. -/
theorem json_roundtrip (hs : IntStrOK) (d : List (Key × PV)) (hk : ∀ kv ∈ d, KeyOK kv.1 ∧ WF kv.2) :
    roundTrip d = d.map fun kv => (kv.1, canon kv.2) :=
  Lemmas.json_roundtrip hs d hk

/-- The integer formatting/parsing hypothesis holds for Lean's own `toString` on `Int` (the model's
`intToStr`), so the key and dictionary round trips hold unconditionally in the model. -/
theorem json_roundtrip_concrete (d : List (Key × PV)) (hk : ∀ kv ∈ d, KeyOK kv.1 ∧ WF kv.2) :
    roundTrip d = d.map fun kv => (kv.1, canon kv.2) :=
  Lemmas.json_roundtrip Lemmas.intStrOK d hk

/-- the concrete recogniser accepts the decimal form of every integer, negative ones included -/
theorem isIntString_neg_example : isIntString "-1" = true ∧ isIntString "12" = true ∧
    isIntString "1x" = false ∧ isIntString "-" = false ∧ isIntString "" = false :=
  Lemmas.isIntString_neg_example

/-- TSV/CSV: a table written by `write_tsv` reads back as the same rows — every (field, value)
pair of every row, absent fields omitted — for any renderer/parser pair with
`parse (render c) = c` and non-empty renderings. -/
theorem tsv_roundtrip (render : Cell → String) (parse : String → Cell)
    (hrt : ∀ c, parse (render c) = c) (hne : ∀ c, render c ≠ "")
    (rows : List (List (String × Cell))) (first : Option String)
    (hnodup : ∀ r ∈ rows, (r.map (·.1)).Nodup) (file : List String × List (List String))
    (hw : writeTsv render rows first = some file) :
    readTsv parse file = expectedRows file.1 rows ∧
    (∀ r ∈ rows, ∀ fc ∈ r, fc.1 ∈ file.1) ∧ file.1.Nodup :=
  Lemmas.tsv_roundtrip render parse hrt hne rows first hnodup file hw

/-- TSV/CSV round trip relative to a cell domain `D`: the renderer/parser pair only has to
round-trip (and render non-empty) the cells in `D`, and every cell of the table lies in `D`.
`tsv_roundtrip` is the instance `D := fun _ => True`; no renderer that writes text verbatim
satisfies that instance (`.text ""`, `.text "12"` vs `.int 12`), hence this form. -/
theorem tsv_roundtrip_on (D : Cell → Prop) (render : Cell → String) (parse : String → Cell)
    (hrt : ∀ c, D c → parse (render c) = c) (hne : ∀ c, D c → render c ≠ "")
    (rows : List (List (String × Cell))) (first : Option String)
    (hnodup : ∀ r ∈ rows, (r.map (·.1)).Nodup) (hD : ∀ r ∈ rows, ∀ fc ∈ r, D fc.2)
    (file : List String × List (List String))
    (hw : writeTsv render rows first = some file) :
    readTsv parse file = expectedRows file.1 rows ∧
    (∀ r ∈ rows, ∀ fc ∈ r, fc.1 ∈ file.1) ∧ file.1.Nodup :=
  Lemmas.tsv_roundtrip_on D render parse hrt hne rows first hnodup hD file hw

/-- The concrete (hypothesis-free) instance: `renderPy` models `str(value)` as written by
`write_tsv`, `parsePy` models `_try_make_number` of `read_tsv` on strings that are not float
literals (`int(s)` if it succeeds, else the string).  For tables whose cells are integers
(negative ones included) or non-empty alphabetic labels such as "good", "mua" (`CellPy`; floats are
outside this instance), the table written by `write_tsv` reads back as the same rows with the
same cell types. -/
theorem tsv_roundtrip_py (rows : List (List (String × Cell))) (first : Option String)
    (hnodup : ∀ r ∈ rows, (r.map (·.1)).Nodup) (hD : ∀ r ∈ rows, ∀ fc ∈ r, CellPy fc.2)
    (file : List String × List (List String))
    (hw : writeTsv renderPy rows first = some file) :
    readTsv parsePy file = expectedRows file.1 rows ∧
    (∀ r ∈ rows, ∀ fc ∈ r, fc.1 ∈ file.1) ∧ file.1.Nodup :=
  Lemmas.tsv_roundtrip_py rows first hnodup hD file hw

/-- The requested first column comes first. -/
theorem tsv_first_field_first (render : Cell → String) (rows : List (List (String × Cell))) (f : String)
    (hf : ∃ r ∈ rows, f ∈ r.map (·.1)) (file : List String × List (List String))
    (hw : writeTsv render rows (some f) = some file) : file.1.head? = some f :=
  Lemmas.tsv_first_field_first render rows f hf file hw

/-! Non-vacuity -/
example : decode (encode (.arr "int32" [3] [1] 0 [1, 2, 3])) = .list (.cons (.int 1) (.cons (.int 2) (.cons (.int 3) .nil))) := by
  rfl
-- a reversed view `a[::-1]` of a buffer of 3 items
example : decode (encode (.arr "int32" [3] [-1] 2 [1, 2, 3])) = .list (.cons (.int 3) (.cons (.int 2) (.cons (.int 1) .nil))) := by
  rfl
-- a Fortran-ordered 2x3 array (strides 1, 2) inside a list, big-endian dtype: comes back C-contiguous
-- with the same shape and dtype, elements in row-major order
example : decode (encode (.list (.cons (.arr ">f4" [2, 3] [1, 2] 0 [10, 20, 11, 21, 12, 22]) (.cons (.npScalar 7) .nil)))) =
    .list (.cons (.arr ">f4" [2, 3] [3, 1] 0 [10, 11, 12, 20, 21, 22]) (.cons (.int 7) .nil)) := by
  rfl
-- the hook reads dtype and shape from the marker: other entries give another array
example : decode (.dict (.cons "__ndarray__" (.payload "int16" [1, 2, 3, 4, 5, 6])
      (.cons "dtype" (.str "int16") (.cons "shape" (.list (ofNats [3, 2])) .nil)))) =
    .arr "int16" [3, 2] [2, 1] 0 [1, 2, 3, 4, 5, 6] := by rfl
example : IdxOK [2, 3] [1, 2] ∧ getAt [1, 2] 0 [10, 20, 11, 21, 12, 22] [1, 2] = 22 ∧
    getAt (cStrides [2, 3]) 0 (gather [10, 20, 11, 21, 12, 22] [2, 3] [1, 2] 0) [1, 2] = 22 :=
  ⟨by simp [IdxOK], by decide, by decide⟩
example : intifyKey (stringifyKey (.int (-1))) = .int (-1) := by decide
example : intifyKey (stringifyKey (.str "12")) = .int 12 := by decide     -- why digit strings are out of scope
example : writeTsv (fun (c : Cell) => match c with | .int i => toString i | .float t => s!"f{t}" | .text s => s)
    [[("id", .int 3), ("b", .text "x")], [("a", .float 1), ("id", .int 4)]] (some "id") =
    some (["id", "a", "b"], [["3", "", "x"], ["4", "f1", ""]]) := by decide
-- the concrete `str` / `_try_make_number` pair: int column + label column, some fields absent
example : (writeTsv renderPy
      [[("cluster_id", .int 0), ("group", .text "good")], [("cluster_id", .int (-3))],
       [("group", .text "mua"), ("cluster_id", .int 12)]] (some "cluster_id")).map (readTsv parsePy) =
    some (expectedRows ["cluster_id", "group"]
      [[("cluster_id", .int 0), ("group", .text "good")], [("cluster_id", .int (-3))],
       [("group", .text "mua"), ("cluster_id", .int 12)]]) := by decide
example : parsePy "12" = .int 12 ∧ parsePy "good" = .text "good" ∧ parsePy "-3" = .int (-3) := by decide

end PhyVerif.C18
