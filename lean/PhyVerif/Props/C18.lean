import PhyVerif.Model.C18
import PhyVerif.Model.C18b
import PhyVerif.Spec.C18
import PhyVerif.Lemmas.C18
/-!
# C18 — JSON, TSV/CSV and parameter-file serialisation round-trips values and types
Only property theorems + non-vacuity examples; proofs in `Lemmas/C18.lean`.
(`json`, `csv`, `base64`, number formatting and the Python parser are transport; the parameter-file
round trip is exercised by the correspondence run only.)
-/
namespace PhyVerif.C18

/-- Encoder + object hook round-trip every value (arbitrarily nested lists / dictionaries, arrays of
any dtype, rank and size, NumPy scalars): the loaded value is the canonical form of the saved one —
arrays keep dtype, shape and values, 1-D arrays of at most ten items come back as equal lists. -/
theorem value_roundtrip (v : PV) (h : WF v) : decode (encode v) = canon v :=
  Lemmas.value_roundtrip v h

/-- Integer top-level keys stay integers (negative ones included), other string keys stay strings. -/
theorem key_roundtrip (hs : IntStrOK) (k : Key) (hk : KeyOK k) : intifyKey (stringifyKey k) = k :=
  Lemmas.key_roundtrip hs k hk

/-- `save_json` followed by `load_json` on a whole dictionary. -/
theorem json_roundtrip (hs : IntStrOK) (d : List (Key × PV)) (hk : ∀ kv ∈ d, KeyOK kv.1 ∧ WF kv.2) :
    roundTrip d = d.map fun kv => (kv.1, canon kv.2) :=
  Lemmas.json_roundtrip hs d hk

/-- The integer formatting/parsing hypothesis holds for Lean's own `toString` on `Int` (the model's
`intToStr`), so the key and dictionary round trips hold unconditionally in the model. -/
theorem json_roundtrip_concrete (d : List (Key × PV)) (hk : ∀ kv ∈ d, KeyOK kv.1 ∧ WF kv.2) :
    roundTrip d = d.map fun kv => (kv.1, canon kv.2) :=
  Lemmas.json_roundtrip Lemmas.intStrOK d hk

/-- the concrete recogniser accepts the decimal form of every integer, negative ones included -/
theorem isIntString_neg_example : isIntString "-1" = true ∧ isIntString "12" = true ∧
    isIntString "1x" = false ∧ isIntString "-" = false ∧ isIntString "" = false :=
  Lemmas.isIntString_neg_example

/-- TSV/CSV: a table written by `write_tsv` reads back as the same rows — every (field, value)
pair of every row, absent fields omitted — for any renderer/parser pair with
`parse (render c) = c` and non-empty renderings. -/
theorem tsv_roundtrip (render : Cell → String) (parse : String → Cell)
    (hrt : ∀ c, parse (render c) = c) (hne : ∀ c, render c ≠ "")
    (rows : List (List (String × Cell))) (first : Option String)
    (hnodup : ∀ r ∈ rows, (r.map (·.1)).Nodup) (file : List String × List (List String))
    (hw : writeTsv render rows first = some file) :
    readTsv parse file = expectedRows file.1 rows ∧
    (∀ r ∈ rows, ∀ fc ∈ r, fc.1 ∈ file.1) ∧ file.1.Nodup :=
  Lemmas.tsv_roundtrip render parse hrt hne rows first hnodup file hw

/-- TSV/CSV round trip relative to a cell domain `D`: the renderer/parser pair only has to
round-trip (and render non-empty) the cells in `D`, and every cell of the table lies in `D`.
`tsv_roundtrip` is the instance `D := fun _ => True`; no renderer that writes text verbatim
satisfies that instance (`.text ""`, `.text "12"` vs `.int 12`), hence this form. -/
theorem tsv_roundtrip_on (D : Cell → Prop) (render : Cell → String) (parse : String → Cell)
    (hrt : ∀ c, D c → parse (render c) = c) (hne : ∀ c, D c → render c ≠ "")
    (rows : List (List (String × Cell))) (first : Option String)
    (hnodup : ∀ r ∈ rows, (r.map (·.1)).Nodup) (hD : ∀ r ∈ rows, ∀ fc ∈ r, D fc.2)
    (file : List String × List (List String))
    (hw : writeTsv render rows first = some file) :
    readTsv parse file = expectedRows file.1 rows ∧
    (∀ r ∈ rows, ∀ fc ∈ r, fc.1 ∈ file.1) ∧ file.1.Nodup :=
  Lemmas.tsv_roundtrip_on D render parse hrt hne rows first hnodup hD file hw

/-- The concrete (hypothesis-free) instance: `renderPy` models `str(value)` as written by
`write_tsv`, `parsePy` models `_try_make_number` of `read_tsv` on strings that are not float
literals (`int(s)` if it succeeds, else the string).  For tables whose cells are integers
(negative ones included) or non-empty alphabetic labels such as "good", "mua" (`CellPy`; floats are
outside this instance), the table written by `write_tsv` reads back as the same rows with the
same cell types. -/
theorem tsv_roundtrip_py (rows : List (List (String × Cell))) (first : Option String)
    (hnodup : ∀ r ∈ rows, (r.map (·.1)).Nodup) (hD : ∀ r ∈ rows, ∀ fc ∈ r, CellPy fc.2)
    (file : List String × List (List String))
    (hw : writeTsv renderPy rows first = some file) :
    readTsv parsePy file = expectedRows file.1 rows ∧
    (∀ r ∈ rows, ∀ fc ∈ r, fc.1 ∈ file.1) ∧ file.1.Nodup :=
  Lemmas.tsv_roundtrip_py rows first hnodup hD file hw

/-- The requested first column comes first. -/
theorem tsv_first_field_first (render : Cell → String) (rows : List (List (String × Cell))) (f : String)
    (hf : ∃ r ∈ rows, f ∈ r.map (·.1)) (file : List String × List (List String))
    (hw : writeTsv render rows (some f) = some file) : file.1.head? = some f :=
  Lemmas.tsv_first_field_first render rows f hf file hw

/-! Non-vacuity -/
example : decode (encode (.arr "int32" [3] [1, 2, 3])) = .list (.cons (.int 1) (.cons (.int 2) (.cons (.int 3) .nil))) := by
  have hc : isComplexDtype "int32" = false := by decide
  simp [encode, decode, decodeList, ofInts, hc]
example : decode (encode (.list (.cons (.arr ">f4" [2, 2] [1, 2, 3, 4]) (.cons (.npScalar 7) .nil)))) =
    .list (.cons (.arr ">f4" [2, 2] [1, 2, 3, 4]) (.cons (.int 7) .nil)) := by
  simp [encode, encodeList, decode, decodeList, marker, findArr]
example : intifyKey (stringifyKey (.int (-1))) = .int (-1) := by decide
example : intifyKey (stringifyKey (.str "12")) = .int 12 := by decide     -- why digit strings are out of scope
example : writeTsv (fun c => match c with | .int i => toString i | .float t => s!"f{t}" | .text s => s)
    [[("id", .int 3), ("b", .text "x")], [("a", .float 1), ("id", .int 4)]] (some "id") =
    some (["id", "a", "b"], [["3", "", "x"], ["4", "f1", ""]]) := by decide
-- the concrete `str` / `_try_make_number` pair: int column + label column, some fields absent
example : (writeTsv renderPy
      [[("cluster_id", .int 0), ("group", .text "good")], [("cluster_id", .int (-3))],
       [("group", .text "mua"), ("cluster_id", .int 12)]] (some "cluster_id")).map (readTsv parsePy) =
    some (expectedRows ["cluster_id", "group"]
      [[("cluster_id", .int 0), ("group", .text "good")], [("cluster_id", .int (-3))],
       [("group", .text "mua"), ("cluster_id", .int 12)]]) := by decide
example : parsePy "12" = .int 12 ∧ parsePy "good" = .text "good" ∧ parsePy "-3" = .int (-3) := by decide

end PhyVerif.C18
