import PhyVerif.Model.C18
import PhyVerif.Model.C18b
import PhyVerif.Model.C18c
import PhyVerif.Spec.C18
import PhyVerif.Spec.C18c
import PhyVerif.Lemmas.C18
import PhyVerif.Model.C18p
import PhyVerif.Spec.C18p
import PhyVerif.Lemmas.C18t
import PhyVerif.Lemmas.C18p
import PhyVerif.Lemmas.C18j
/-!
# C18 — JSON, TSV/CSV and parameter-file serialisation round-trips values and types
Only property theorems + non-vacuity examples; proofs in `Lemmas/C18.lean`.
(`json`, `base64` and float `repr` are transport.  The `csv` module, the text layer, `int()`/`float()`,
`'%.nf'` and the fragment of Python's parser that parameter files need are modelled in
`Model/C18c.lean`, `Model/C18p.lean` and tied to the real code by the correspondence run.  The TEXT written
for a str inside the JSON file - `ensure_ascii` escaping, the locale encoding of the file, the string
scanner - is modelled in `Model/C18j.lean`.)
-/
namespace PhyVerif.C18

/-- Encoder + object hook round-trip every value (arbitrarily nested lists / dictionaries, arrays of
any dtype, rank and size, NumPy scalars): the loaded value is the canonical form of the saved one —
arrays keep dtype, shape and values, 1-D arrays of at most ten items come back as equal lists. -/
theorem value_roundtrip (v : PV) (h : WF v) : decode (encode v) = canon v :=
  Lemmas.value_roundtrip v h

/-- Arrays keep dtype, shape and values for every memory layout (1): an array that is not a short 1-D
non-complex, non-long-double one comes back as an array whose dtype string is the saved one (byte order included: it
is read from the marker's `dtype` entry), whose shape is the saved one (read from the `shape` entry),
C-contiguous, holding `np.ascontiguousarray` of the saved array.  The array is given as NumPy has it:
(shape, strides, offset, buffer) — C order, Fortran order, transposed, strided, reversed views are
particular strides/offsets. -/
theorem array_roundtrip (dtype : String) (shape : List Nat) (strides : List Int) (off : Int) (mem : List Int)
    (hbig : ∀ n, shape = [n] → (n ≤ 10 && !noListDtype dtype) = false) :
    decode (encode (.arr dtype shape strides off mem)) =
      .arr dtype shape (cStrides shape) 0 (gather mem shape strides off) :=
  Lemmas.array_roundtrip dtype shape strides off mem hbig

/-- Arrays keep … (2): element by element.  For every multi-index inside the shape, the element of
the array that comes back equals the element of the saved array at that multi-index, for every
(strides, offset) with one stride per axis.  (Both sides read the same buffer position of the saved
array, so no in-bounds hypothesis is needed; a real array's positions are in bounds.) -/
theorem array_elements_preserved (shape : List Nat) (strides : List Int) (off : Int) (mem : List Int)
    (idx : List Nat) (hl : strides.length = shape.length) (hi : IdxOK shape idx) :
    getAt (cStrides shape) 0 (gather mem shape strides off) idx = getAt strides off mem idx :=
  Lemmas.array_elements_preserved shape strides off mem idx hl hi

/-- One-dimensional arrays of at most ten items (neither complex nor long double: `noListDtype`) come back as the list of their
elements in index order, whatever the stride (`a[::2]`, `a[::-1]`). -/
theorem small_array_roundtrip (dtype : String) (n : Nat) (s : Int) (off : Int) (mem : List Int)
    (hn : n ≤ 10) (hc : noListDtype dtype = false) :
    decode (encode (.arr dtype [n] [s] off mem)) =
      .list (ofInts ((List.range n).map fun (i : Nat) => getMem mem (off + (i : Int) * s))) :=
  Lemmas.small_array_roundtrip dtype n s off mem hn hc

/-- Integer top-level keys stay integers (negative ones included), other string keys stay strings. -/
theorem key_roundtrip (hs : IntStrOK) (k : Key) (hk : KeyOK k) : intifyKey (stringifyKey k) = k :=
  Lemmas.key_roundtrip hs k hk

/-- `save_json` followed by `load_json` on a whole dictionary. -/
theorem json_roundtrip (hs : IntStrOK) (d : List (Key × PV)) (hk : ∀ kv ∈ d, KeyOK kv.1 ∧ WF kv.2) :
    roundTrip d = d.map fun kv => (kv.1, canon kv.2) :=
  Lemmas.json_roundtrip hs d hk

/-- The integer formatting/parsing hypothesis holds for Lean's own `toString` on `Int` (the model's
`intToStr`), so the key and dictionary round trips hold unconditionally in the model. -/
theorem json_roundtrip_concrete (d : List (Key × PV)) (hk : ∀ kv ∈ d, KeyOK kv.1 ∧ WF kv.2) :
    roundTrip d = d.map fun kv => (kv.1, canon kv.2) :=
  Lemmas.json_roundtrip Lemmas.intStrOK d hk

/-- the concrete recogniser accepts the decimal form of every integer, negative ones included -/
theorem isIntString_neg_example : isIntString "-1" = true ∧ isIntString "12" = true ∧
    isIntString "1x" = false ∧ isIntString "-" = false ∧ isIntString "" = false :=
  Lemmas.isIntString_neg_example

/-- TSV/CSV: a table written by `write_tsv` reads back as the same rows — every (field, value)
pair of every row, absent fields omitted — for any renderer/parser pair with
`parse (render c) = c` and non-empty renderings. -/
theorem tsv_roundtrip (render : Cell → String) (parse : String → Cell)
    (hrt : ∀ c, parse (render c) = c) (hne : ∀ c, render c ≠ "")
    (rows : List (List (String × Cell))) (first : Option String)
    (hnodup : ∀ r ∈ rows, (r.map (·.1)).Nodup) (file : List String × List (List String))
    (hw : writeTsv render rows first = some file) :
    readTsv parse file = expectedRows file.1 rows ∧
    (∀ r ∈ rows, ∀ fc ∈ r, fc.1 ∈ file.1) ∧ file.1.Nodup :=
  Lemmas.tsv_roundtrip render parse hrt hne rows first hnodup file hw

/-- TSV/CSV round trip relative to a cell domain `D`: the renderer/parser pair only has to
round-trip (and render non-empty) the cells in `D`, and every cell of the table lies in `D`.
`tsv_roundtrip` is the instance `D := fun _ => True`; no renderer that writes text verbatim
satisfies that instance (`.text ""`, `.text "12"` vs `.int 12`), hence this form. -/
theorem tsv_roundtrip_on (D : Cell → Prop) (render : Cell → String) (parse : String → Cell)
    (hrt : ∀ c, D c → parse (render c) = c) (hne : ∀ c, D c → render c ≠ "")
    (rows : List (List (String × Cell))) (first : Option String)
    (hnodup : ∀ r ∈ rows, (r.map (·.1)).Nodup) (hD : ∀ r ∈ rows, ∀ fc ∈ r, D fc.2)
    (file : List String × List (List String))
    (hw : writeTsv render rows first = some file) :
    readTsv parse file = expectedRows file.1 rows ∧
    (∀ r ∈ rows, ∀ fc ∈ r, fc.1 ∈ file.1) ∧ file.1.Nodup :=
  Lemmas.tsv_roundtrip_on D render parse hrt hne rows first hnodup hD file hw

/-- The concrete (hypothesis-free) instance: `renderPy` models `str(value)` as written by
`write_tsv`, `parsePy` models `_try_make_number` of `read_tsv` on strings that are not float
literals (`int(s)` if it succeeds, else the string).  For tables whose cells are integers
(negative ones included) or non-empty alphabetic labels such as "good", "mua" (`CellPy`; floats are
outside this instance), the table written by `write_tsv` reads back as the same rows with the
same cell types. -/
theorem tsv_roundtrip_py (rows : List (List (String × Cell))) (first : Option String)
    (hnodup : ∀ r ∈ rows, (r.map (·.1)).Nodup) (hD : ∀ r ∈ rows, ∀ fc ∈ r, CellPy fc.2)
    (file : List String × List (List String))
    (hw : writeTsv renderPy rows first = some file) :
    readTsv parsePy file = expectedRows file.1 rows ∧
    (∀ r ∈ rows, ∀ fc ∈ r, fc.1 ∈ file.1) ∧ file.1.Nodup :=
  Lemmas.tsv_roundtrip_py rows first hnodup hD file hw

/-- The requested first column comes first. -/
theorem tsv_first_field_first (render : Cell → String) (rows : List (List (String × Cell))) (f : String)
    (hf : ∃ r ∈ rows, f ∈ r.map (·.1)) (file : List String × List (List String))
    (hw : writeTsv render rows (some f) = some file) : file.1.head? = some f :=
  Lemmas.tsv_first_field_first render rows f hf file hw

/-! ### table files at the character level (`Model/C18c.lean`) -/

/-- The csv transport contract, proved for the model of `csv.writer(f, delimiter=d)` /
`csv.reader(f, delimiter=d)` (QUOTE_MINIMAL, doubled quotes): a record is read back as the same
fields for ARBITRARY field strings — the other delimiter, quotes, spaces, empty fields, one single
empty field (written `""`), no field at all — provided the delimiter is not the quote character. -/
theorem csv_line_roundtrip (d : Char) (hd : d ≠ '"') (fs : List Str) :
    csvParseLine d (csvRow d fs) = fs :=
  Lemmas.csv_line_roundtrip d hd fs

/-- Whole files: records whose fields contain no line break, written with `\r\n` terminators into a
file opened with `newline=''` and read back line by line in universal-newline mode.  (A cell
containing `\r` is outside: the real reader turns it into `\n`, _misc.py:244 opens without
`newline=''`; a cell containing `\n` spans two physical lines, which the line-based reader model does
not follow.) -/
theorem csv_file_roundtrip (d : Char) (hq : d ≠ '"') (hd : d ≠ '\r' ∧ d ≠ '\n') (rows : List (List Str))
    (h : ∀ r ∈ rows, ∀ f ∈ r, NoBreak f) : csvRead d (csvWrite d rows) = rows :=
  Lemmas.csv_file_roundtrip d hq hd rows h

/-- `_try_make_number(str(i))` is the integer `i` (Python's `int()` grammar: whitespace, sign,
underscores between digits). -/
theorem try_make_number_int (i : Int) : tryMakeNumber (intToStr i) = .int i :=
  Lemmas.tryMakeNumber_intToStr i

/-- `_try_make_number('%.nf' % x)` (n ≥ 1, x a finite float ±m·2^e) is not an integer but the float
whose decimal text was written: sign of x, `scaled n x` = |x|·10^n rounded half-even, n digits after
the point. -/
theorem try_make_number_fixed (n : Nat) (hn : n ≠ 0) (x : Dbl) :
    tryMakeNumber (String.ofList (fmtFixed n x)) = .float x.neg (scaled n x) (-(n : Int)) :=
  Lemmas.tryMakeNumber_fmtFixed n hn x

/-- "float (to the written precision)": the decimal read back differs from |x| by at most half a unit
of the last written digit (exactly equal when x is an integer). -/
theorem written_precision (n : Nat) (x : Dbl) :
    (0 ≤ x.e → scaled n x = x.m * 10 ^ n * 2 ^ x.e.toNat) ∧
    (x.e < 0 →
      2 * (scaled n x * 2 ^ (-x.e).toNat) ≤ 2 * (x.m * 10 ^ n) + 2 ^ (-x.e).toNat ∧
      2 * (x.m * 10 ^ n) ≤ 2 * (scaled n x * 2 ^ (-x.e).toNat) + 2 ^ (-x.e).toNat) :=
  Lemmas.written_precision n x

/-- Cluster tables, end to end on the text of the file: `write_tsv` (`_pretty_floats` with n digits,
`str`, csv writer, `\r\n`) followed by `read_tsv` (universal newlines, delimiter sniffed from the
first line, csv reader, empty cells dropped, `_try_make_number`) returns, per written row, its
(field, value) pairs in header order with absent fields omitted — integers as the same integers, floats
as the written decimal, non-numeric strings (containing the other delimiter, quotes, …) as the same
strings.  Hypotheses = the property's quantifier: cells are integers, finite floats or non-empty strings
that `int()`/`float()` reject, without line break; field names without line break; for a `.tsv` file the
rows use at least two field names ("two or more columns": otherwise the header holds no tab and the
reader takes the file for comma-separated); for a `.csv` file no field name contains a tab (it would
flip the sniffed delimiter).  n = 4 in `write_tsv`. -/
theorem cluster_table_roundtrip (isTsv : Bool) (n : Nat) (hn : n ≠ 0) (rows : List (List (String × WCell)))
    (first : Option String) (hD : ∀ r ∈ rows, ∀ fc ∈ r, WCellOK fc.2)
    (hnames : ∀ f ∈ fieldsOf rows, NoBreak f.toList)
    (htsv : isTsv = true → TwoColumns rows)
    (hcsv : isTsv = false → ∀ f ∈ fieldsOf rows, '\t' ∉ f.toList)
    (text : Str) (hw : writeTsvFile isTsv (renderW n) rows first = some text) :
    ∃ file, writeTsv (renderW n) rows first = some file ∧
      readTsvFile tryMakeNumber text = some (expectedRows file.1 (obsRows (obsW n) rows)) :=
  Lemmas.cluster_table_roundtrip isTsv n hn rows first hD hnames htsv hcsv text hw

/-- The same for any renderer / parser pair (cells of a domain `D` are rendered non-empty, without line
break, and parsed to what `obs` says). -/
theorem table_file_roundtrip {γ δ : Type} (isTsv : Bool) (D : γ → Prop) (render : γ → String)
    (parse : String → δ) (obs : γ → δ)
    (hrt : ∀ c, D c → parse (render c) = obs c) (hne : ∀ c, D c → render c ≠ "")
    (hnb : ∀ c, D c → NoBreak (render c).toList)
    (rows : List (List (String × γ))) (first : Option String) (hD : ∀ r ∈ rows, ∀ fc ∈ r, D fc.2)
    (hnames : ∀ f ∈ fieldsOf rows, NoBreak f.toList)
    (htsv : isTsv = true → TwoColumns rows)
    (hcsv : isTsv = false → ∀ f ∈ fieldsOf rows, '\t' ∉ f.toList)
    (text : Str) (hw : writeTsvFile isTsv render rows first = some text) :
    ∃ file, writeTsv render rows first = some file ∧
      readTsvFile parse text = some (expectedRows file.1 (obsRows obs rows)) :=
  Lemmas.table_file_roundtrip isTsv D render parse obs hrt hne hnb rows first hD hnames htsv hcsv text hw

/-- Two-column cluster tables with arbitrary ids: `_write_tsv_simple` followed by `_read_tsv_simple`
returns the field name and the same dictionary (entries by increasing id; `sortById_perm`: a
permutation of the saved entries) — integer values as integers, floats as what `float(repr(x))` reads,
strings that are not numeric literals (the empty string included) as themselves.  Hypotheses: no line
break in the field name and the values; in a `.csv` file no tab in the field name. -/
theorem simple_table_roundtrip (isTsv : Bool) (field : String) (data : List (Int × SVal))
    (hfield : NoBreak field.toList) (hcsv : isTsv = false → '\t' ∉ field.toList)
    (hvals : ∀ p ∈ data, SValOK p.2) :
    readTsvSimple (writeTsvSimple isTsv field data) =
      some (field, (sortById data).map fun p => (p.1, obsS p.2)) :=
  Lemmas.simple_table_roundtrip isTsv field data hfield hcsv hvals

theorem sortById_perm {α : Type} (l : List (Int × α)) : (sortById l).Perm l :=
  Lemmas.sortById_perm l

/-- `save_metadata` (= `_write_tsv_simple`) followed by `load_metadata` (= the cluster-table reader
`read_tsv` + regrouping by field, phylib/io/model.py:118-141) returns {field: {cluster_id: value}} with
the saved entries.  Beyond the hypotheses of `simple_table_roundtrip`: the ids are distinct (a
dictionary), the field is not called `cluster_id`, and no value is the empty string — `read_tsv` drops
empty cells, so such an entry is lost (and a table holding only empty values loads as `{}`). -/
theorem metadata_roundtrip (isTsv : Bool) (field : String) (data : List (Int × SVal))
    (hfield : NoBreak field.toList) (hcsv : isTsv = false → '\t' ∉ field.toList) (hne : field ≠ "cluster_id")
    (hvals : ∀ p ∈ data, SValOK p.2 ∧ renderS p.2 ≠ "") (hids : (data.map (·.1)).Nodup) :
    loadMetadata (writeTsvSimple isTsv field data) =
      some (if data = [] then [] else [(field, (sortById data).map fun p => (Num.int p.1, obsS p.2))]) :=
  Lemmas.metadata_roundtrip isTsv field data hfield hcsv hne hvals hids

/-- Parameter files: `write_python` followed by `read_python` returns the dictionary that was written,
with the variable names lower-cased — None, booleans, integers, floats (as `float(repr(x))`), strings,
and lists / tuples (empty, one element `(x,)`, several) of those.  Hypotheses = the domain on which
the real code round-trips: names are ASCII identifiers that are not keywords and stay distinct when
lower-cased (real code: `{'Up': 1, 'up': 2}` reads back as `{'up': 2}`); a TOP-LEVEL string contains
no double quote, backslash or line break (it is written `"%s" % v`, not `repr`: real code raises
SyntaxError or returns another string); floats are finite (`inf`/`nan` are written as names: NameError).
Strings inside lists / tuples are arbitrary (quotes, backslashes, tabs, line breaks: `repr` escapes them). -/
theorem params_roundtrip (d : List (String × PVal)) (hk : ∀ kv ∈ d, ParamKeyOK kv.1)
    (hnd : (d.map fun kv => kv.1.toLower).Nodup) (hv : ∀ kv ∈ d, PValOK kv.2) :
    readPython (writePython d) = some (d.map fun kv => (kv.1.toLower, kv.2)) :=
  Lemmas.params_roundtrip d hk hnd hv

/-! Non-vacuity -/
-- a parameter file as phy writes it
example : writePython [("dat_path", .list [.str "a.dat", .str "it's"]), ("n_channels_dat", .scalar (.int 384)),
      ("dtype", .scalar (.str "int16")), ("sample_rate", .scalar (.float "30000.0")),
      ("hp_filtered", .scalar (.bool false)), ("Shape", .tuple [.int 1])] =
    "dat_path = ['a.dat', \"it's\"]\nn_channels_dat = 384\ndtype = \"int16\"\nsample_rate = 30000.0\nhp_filtered = False\nShape = (1,)\n".toList := by
  decide +kernel
example : readPython "dat_path = ['a.dat', \"it's\"]\nn_channels_dat = 384\ndtype = \"int16\"\nsample_rate = 30000.0\nhp_filtered = False\nShape = (1,)\n".toList =
    some [("dat_path", .list [.str "a.dat", .str "it's"]), ("n_channels_dat", .scalar (.int 384)),
      ("dtype", .scalar (.str "int16")), ("sample_rate", .scalar (.float "30000.0")),
      ("hp_filtered", .scalar (.bool false)), ("shape", .tuple [.int 1])] := by decide +kernel
example : PScalarOK (.float "30000.0") ∧ PScalarOK (.float "1e-05") ∧ PScalarOK (.float "-2.5") ∧
    ¬ PScalarOK (.float "inf") ∧ ParamKeyOK "n_channels_dat" ∧ ¬ ParamKeyOK "class" ∧ ¬ ParamKeyOK "2x" := by
  refine ⟨⟨by decide, by decide, by decide, by decide +kernel⟩, ⟨by decide, by decide, by decide, by decide +kernel⟩,
    ⟨by decide, by decide, by decide, by decide +kernel⟩, ?_, by decide +kernel, by decide +kernel, by decide +kernel⟩
  intro h; exact absurd h.2.2.2 (by decide +kernel)
-- what the hypotheses exclude: a top-level string with a backslash or a quote is not read back
example : readPython (writePython [("p", .scalar (.str "C:\\data"))]) = none ∧
    readPython (writePython [("p", .scalar (.str "say \"hi\""))]) = none := by decide +kernel
-- a .tsv cluster table: int / float / text with the other delimiter, quotes and a tab; an absent field
example : (writeTsvFile true (renderW 4)
      [[("cluster_id", .int 0), ("group", .text "good"), ("amp", .float ⟨true, 5404319552844595, -52⟩)],
       [("group", .text "a\tb, \"c\""), ("cluster_id", .int (-3))]] (some "cluster_id")) =
    some "cluster_id\tamp\tgroup\r\n0\t-1.2000\tgood\r\n-3\t\t\"a\tb, \"\"c\"\"\"\r\n".toList := by decide
example : readTsvFile tryMakeNumber
      "cluster_id\tamp\tgroup\r\n0\t-1.2000\tgood\r\n-3\t\t\"a\tb, \"\"c\"\"\"\r\n".toList =
    some [[("cluster_id", .int 0), ("amp", .float true 12000 (-4)), ("group", .text "good")],
          [("cluster_id", .int (-3)), ("group", .text "a\tb, \"c\"")]] := by decide +kernel
example : WCellOK (.text "a\tb, \"c\"") ∧ WCellOK (.text "good") ∧ WCellOK (.text "1e") ∧
    ¬ NonNumeric "1e5" ∧ ¬ NonNumeric " 12 " ∧ ¬ NonNumeric "nan" := by
  refine ⟨⟨⟨by decide, by decide⟩, by decide⟩, ⟨⟨by decide, by decide⟩, by decide⟩,
    ⟨⟨by decide, by decide⟩, by decide⟩, ?_, ?_, ?_⟩ <;> (intro h; exact absurd h.2 (by decide))
example : TwoColumns [[("cluster_id", WCell.int 0), ("group", .text "good")]] :=
  ⟨"cluster_id", "group", by decide, by simp [fieldsOf], by simp [fieldsOf]⟩
-- one column in a .tsv file: the header holds no tab, the file is read as comma-separated
example : (writeTsvFile true (renderW 4) [[("a", .text "x,y")]] none).bind (readTsvFile tryMakeNumber) =
    some [[("a", .text "x")]] := by decide
-- '%.4f': ties go to the even digit (0.03125 -> 0.0312, 0.09375 -> 0.0938), -0.0 keeps its sign
example : fmtFixed 4 ⟨false, 1, -5⟩ = "0.0312".toList ∧ fmtFixed 4 ⟨false, 3, -5⟩ = "0.0938".toList ∧
    fmtFixed 4 ⟨true, 0, 0⟩ = "-0.0000".toList ∧ fmtFixed 4 ⟨false, 123, 0⟩ = "123.0000".toList := by decide
-- a two-column .csv table
example : writeTsvSimple false "group" [(3, .text "a,b"), (-1, .int 5), (2, .float "0.25")] =
    "cluster_id,group\r\n-1,5\r\n2,0.25\r\n3,\"a,b\"\r\n".toList ∧
    readTsvSimple "cluster_id,group\r\n-1,5\r\n2,0.25\r\n3,\"a,b\"\r\n".toList =
      some ("group", [(-1, .int 5), (2, .float false 25 (-2)), (3, .text "a,b")]) := by decide
-- blank lines (between two rows, at the end, LF or CRLF) are not rows: skipped; a line with one or three fields, or a
-- blank FIRST line (no header), still makes the reader raise
example : readTsvSimple "cluster_id\tgroup\r\n1\tgood\r\n\r\n2\tmua\n\n\r\n".toList =
      some ("group", [(1, .text "good"), (2, .text "mua")]) ∧
    readTsvSimple "cluster_id\tgroup\n1\tgood\n7\n".toList = none ∧
    readTsvSimple "cluster_id\tgroup\n1\tgood\tx\n".toList = none ∧
    readTsvSimple "\ncluster_id\tgroup\n1\tgood\n".toList = none := by decide +kernel
example : loadMetadata (writeTsvSimple true "group" [(3, .text "good"), (-1, .text "mua"), (2, .text "")]) =
    some [("group", [(.int (-1), .text "mua"), (.int 3, .text "good")])] := by decide +kernel
example : FloatLit "30000.0" ∧ FloatLit "1e-05" ∧ FloatLit "-2.5" :=
  ⟨⟨false, 300000, -1, by decide⟩, ⟨false, 1, -5, by decide⟩, ⟨true, 25, -1, by decide⟩⟩
example : csvParseLine ',' (csvRow ',' ["a,b".toList, [], "q\"r".toList]) = ["a,b".toList, [], "q\"r".toList] ∧
    csvRow ',' [[]] = "\"\"".toList ∧ csvParseLine ',' [] = [] := by decide
example : decode (encode (.arr "int32" [3] [1] 0 [1, 2, 3])) = .list (.cons (.int 1) (.cons (.int 2) (.cons (.int 3) .nil))) := by
  rfl
-- a reversed view `a[::-1]` of a buffer of 3 items
example : decode (encode (.arr "int32" [3] [-1] 2 [1, 2, 3])) = .list (.cons (.int 3) (.cons (.int 2) (.cons (.int 1) .nil))) := by
  rfl
-- a Fortran-ordered 2x3 array (strides 1, 2) inside a list, big-endian dtype: comes back C-contiguous
-- with the same shape and dtype, elements in row-major order
example : decode (encode (.list (.cons (.arr ">f4" [2, 3] [1, 2] 0 [10, 20, 11, 21, 12, 22]) (.cons (.npScalar 7) .nil)))) =
    .list (.cons (.arr ">f4" [2, 3] [3, 1] 0 [10, 11, 12, 20, 21, 22]) (.cons (.int 7) .nil)) := by
  rfl
-- NumPy scalars without a JSON number form (long double, complex): written as the 0-d array, come back as a 0-d array
-- of the same dtype holding the value; a 3-item long double array is not written as a list of numbers
example : decode (encode (.npExotic "float128" 7)) = .arr "float128" [] [] 0 [7] ∧ canon (.npExotic "complex64" 7) = .arr "complex64" [] [] 0 [7] :=
  ⟨by rfl, by rfl⟩
example : decode (encode (.arr "float128" [3] [-1] 2 [1, 2, 3])) =
      .arr "float128" [3] (cStrides [3]) 0 (gather [1, 2, 3] [3] [-1] 2) ∧ gather [1, 2, 3] [3] [-1] 2 = [3, 2, 1] ∧
    noListDtype "float128" = true ∧ noListDtype "complex256" = true ∧ noListDtype "float64" = false :=
  ⟨array_roundtrip _ _ _ _ _ (by
      intro n _
      have : noListDtype "float128" = true := by decide +kernel
      simp [this]),
   by decide, by decide +kernel, by decide +kernel, by decide +kernel⟩
-- the hook reads dtype and shape from the marker: other entries give another array
example : decode (.dict (.cons "__ndarray__" (.payload "int16" [1, 2, 3, 4, 5, 6])
      (.cons "dtype" (.str "int16") (.cons "shape" (.list (ofNats [3, 2])) .nil)))) =
    .arr "int16" [3, 2] [2, 1] 0 [1, 2, 3, 4, 5, 6] := by rfl
example : IdxOK [2, 3] [1, 2] ∧ getAt [1, 2] 0 [10, 20, 11, 21, 12, 22] [1, 2] = 22 ∧
    getAt (cStrides [2, 3]) 0 (gather [10, 20, 11, 21, 12, 22] [2, 3] [1, 2] 0) [1, 2] = 22 :=
  ⟨by simp [IdxOK], by decide, by decide⟩
-- `int()` / `float()` convert Unicode decimal digits and white space first: Arabic-Indic "12", fullwidth "1.5", a
-- number between no-break spaces, a mathematical bold zero are numeric literals; superscript two, a circled one, a
-- zero-width space in front are not
example : tryMakeNumber "١٢" = .int 12 ∧ tryMakeNumber "１.５" = .float false 15 (-1) ∧
    tryMakeNumber " -7 " = .int (-7) ∧ tryMakeNumber "𝟎" = .int 0 ∧
    tryMakeNumber "²" = .text "²" ∧ tryMakeNumber "①" = .text "①" ∧
    tryMakeNumber "​12" = .text "​12" ∧ ¬ NonNumeric "١٢" := by
  refine ⟨by decide +kernel, by decide +kernel, by decide +kernel, by decide +kernel, by decide +kernel, by decide +kernel,
    by decide +kernel, ?_⟩
  intro h; exact absurd h.2 (by decide +kernel)
example : intifyKey (stringifyKey (.int (-1))) = .int (-1) := by decide
example : intifyKey (stringifyKey (.str "12")) = .int 12 := by decide     -- why digit strings are out of scope
example : writeTsv (fun (c : Cell) => match c with | .int i => toString i | .float t => s!"f{t}" | .text s => s)
    [[("id", .int 3), ("b", .text "x")], [("a", .float 1), ("id", .int 4)]] (some "id") =
    some (["id", "a", "b"], [["3", "", "x"], ["4", "f1", ""]]) := by decide
-- the concrete `str` / `_try_make_number` pair: int column + label column, some fields absent
example : (writeTsv renderPy
      [[("cluster_id", .int 0), ("group", .text "good")], [("cluster_id", .int (-3))],
       [("group", .text "mua"), ("cluster_id", .int 12)]] (some "cluster_id")).map (readTsv parsePy) =
    some (expectedRows ["cluster_id", "group"]
      [[("cluster_id", .int 0), ("group", .text "good")], [("cluster_id", .int (-3))],
       [("group", .text "mua"), ("cluster_id", .int 12)]]) := by decide
example : parsePy "12" = .int 12 ∧ parsePy "good" = .text "good" ∧ parsePy "-3" = .int (-3) := by decide

/-! ### strings inside the JSON file: text, file encoding, scanner (`Model/C18j.lean`) -/

/-- Whatever the code points of a str (controls, Latin-1, astral, LONE SURROGATES, even numbers that are
not code points), the literal `save_json` writes for it is printable ASCII.  No hypothesis on `s`. -/
theorem json_string_text_ascii (s : PyStr) : ∀ b ∈ strLiteral s, 32 ≤ b ∧ b ≤ 126 :=
  Lemmas.strLiteral_ascii s

/-- Hence the write cannot fail whatever encoding the locale gives the file (`path.open('w')` is text mode
with the locale encoding and `errors='strict'`): the strict `'ascii'` codec encodes the literal to itself,
and the `'utf-8'` codec - which refuses surrogates - accepts it. -/
theorem json_string_encodable (s : PyStr) :
    strictAscii (strLiteral s) = some (strLiteral s) ∧ strictUtf8Ok (strLiteral s) = true :=
  ⟨Lemmas.strictAscii_literal s, Lemmas.strictUtf8_literal s⟩

/-- Strings are preserved: scanning the text written for `s` (after the opening quote, up to the closing
one, whatever follows it) returns exactly `s` and the text after the closing quote - for every str
(`ValidStr`: code points up to U+10FFFF, lone surrogates included) in which no high surrogate is directly
followed by a low surrogate (`NoJoin`).  At the excluded point the REAL code does not round-trip either:
`save_json(p, {'k': '\ud83e\udde0'})` then `load_json(p)['k']` is the one character U+1F9E0 (the `json`
library joins the pair; `json_string_joined_example`, compared with the real code by the harness). -/
theorem json_string_roundtrip (s : PyStr) (rest : List Nat) (hv : ValidStr s) (hj : NoJoin s) :
    scan (escapeStr s ++ 34 :: rest) = some (s, rest) :=
  Lemmas.scan_escapeStr s rest hv hj

/-- The same through a file whose encoding is ASCII (a process under `LC_ALL=C` without UTF-8 mode): write
with the strict codec, read back, scan. -/
theorem json_string_roundtrip_ascii_file (s : PyStr) (hv : ValidStr s) (hj : NoJoin s) :
    strViaAsciiFile s = some (s, []) :=
  Lemmas.strViaAsciiFile_eq s hv hj

/-- what happens at the point `NoJoin` excludes: a high surrogate directly followed by a low one comes back
as ONE astral character -/
theorem json_string_joined_example :
    escapeStr [55358, 56800] = escapeStr [129504] ∧ ¬ NoJoin [55358, 56800] ∧
    scan (escapeStr [55358, 56800] ++ [34]) = some ([129504], []) :=
  ⟨by decide, by decide, json_string_roundtrip [129504] [] (by decide) (by decide)⟩

-- 'é', the undecodable byte 0xE9 of a file name (U+DCE9), an astral character, '"', a newline, DEL
example : escapeStr [233, 56553, 129504, 34, 10, 127] =
    [92, 117, 48, 48, 101, 57,  92, 117, 100, 99, 101, 57,  92, 117, 100, 56, 51, 101, 92, 117, 100, 100, 101, 48,
     92, 34,  92, 110,  92, 117, 48, 48, 55, 102] := by decide
example : ValidStr [114, 56553, 55358, 120, 56800, 1114111] ∧ NoJoin [114, 56553, 55358, 120, 56800, 1114111] := by decide
example : scan (escapeStr [114, 56553, 55358, 120, 56800, 1114111] ++ [34, 10, 125]) =
    some ([114, 56553, 55358, 120, 56800, 1114111], [10, 125]) :=
  json_string_roundtrip _ _ (by decide) (by decide)
-- a low surrogate FOLLOWED by a high one is fine
example : NoJoin [56800, 55358] := by decide
-- the strict codecs on raw (unescaped) text: what `ensure_ascii=False` would hand to the file
example : strictAscii [34, 233, 34] = none ∧ strictUtf8Ok [34, 233, 34] = true ∧ strictUtf8Ok [34, 56553, 34] = false := by decide

end PhyVerif.C18
