import PhyVerif.Model.C08
import PhyVerif.Spec.C08
import PhyVerif.Lemmas.C08
import PhyVerif.Model.C08b
import PhyVerif.Lemmas.C08b
/-!
# C08 — curated clusters get the right template provenance and waveforms
Only property theorems + non-vacuity examples; proofs in `Lemmas/C08.lean`.
-/
namespace PhyVerif.C08
open PhyVerif PhyVerif.C09

/-- After any merges / splits / reassignments: every cluster id from 0 to the maximum maps to
exactly the sorted set of templates its spikes came from, and the table has one entry per id. -/
theorem mergeMap_spec (st sc : List Nat) (hlen : st.length = sc.length) (c : Nat) :
    (mergeMap st sc).getD c [] = templatesOf st sc c ∧ (mergeMap st sc).length = sc.foldl max 0 + 1 :=
  Lemmas.mergeMap_spec st sc hlen c

/-- Ids without spikes are exactly the ones reported as empty. -/
theorem nanIdx_spec (st sc : List Nat) (hlen : st.length = sc.length) (c : Nat) :
    c ∈ nanIdx (mergeMap st sc) ↔ (c ≤ sc.foldl max 0 ∧ c ∉ sc) :=
  Lemmas.nanIdx_spec st sc hlen c

/-- A cluster stemming from a single template carries that template's waveform unchanged. -/
theorem single_template_unchanged (W : List Mat) (chans : List (List Nat)) (st sc : List Nat)
    (hlen : st.length = sc.length) (ns nc c t : Nat)
    (h1 : templatesOf st sc c = [t]) :
    (clusterWaveforms W chans st sc ns nc).getD c [] = W.getD t [] :=
  Lemmas.single_template_unchanged W chans st sc hlen ns nc c t h1

/-- A cluster stemming from several templates carries, on the channels of its dominant template,
the spike-count-weighted mean of its templates' channel-restricted waveforms (zero on the other
channels). -/
theorem multi_template_weighted_mean (W : List Mat) (chans : List (List Nat)) (st sc : List Nat)
    (hst : ∀ t ∈ st, t < W.length) (ns nc c : Nat)
    (hmulti : 2 ≤ (templatesOf st sc c).length)
    (hW : ∀ M ∈ W, M.length = ns ∧ ∀ row ∈ M, row.length = nc)
    (s ch : Nat) :
    (((clusterWaveforms W chans st sc ns nc).getD c []).getD s []).getD ch 0 =
      if (chans.getD (argmaxNat (templateCounts st sc W.length c)) []).contains ch
      then weightedMean W chans st sc c s ch else 0 :=
  Lemmas.multi_template_weighted_mean W chans st sc hst ns nc c hmulti hW s ch

/-- The dominant template is one with the largest spike count in the cluster (the first such). -/
theorem dominant_has_max_count (st sc : List Nat) (nt c : Nat) (hnt : 0 < nt) :
    let cnt := templateCounts st sc nt c
    argmaxNat cnt < nt ∧ ∀ t, t < nt → cnt.getD t 0 ≤ cnt.getD (argmaxNat cnt) 0 :=
  Lemmas.dominant_has_max_count st sc nt c hnt

/-- `np.argmax` rule: the dominant template is the FIRST (lowest-id) template with the maximal spike
count in the cluster — maximal among all, strictly above every lower-numbered template. -/
theorem dominant_is_first_max (st sc : List Nat) (nt c : Nat) (hnt : 0 < nt) :
    let cnt := templateCounts st sc nt c
    argmaxNat cnt < nt ∧ (∀ t, t < nt → cnt.getD t 0 ≤ cnt.getD (argmaxNat cnt) 0) ∧
      ∀ t, t < argmaxNat cnt → cnt.getD t 0 < cnt.getD (argmaxNat cnt) 0 :=
  Lemmas.dominant_is_first_max st sc nt c hnt

/-- `_get_template_from_spikes` (the `np.unique(..., return_counts=True)` + `np.argmax` route behind
`get_cluster_channels`, model.py:1178-1185, 1229-1232) applied to the spikes of a cluster picks the
SAME template as the dense histogram route of `get_cluster_mean_waveforms` (model.py:1242-1243): the
lowest-numbered template with the maximal count.  `hc`: a cluster without spikes makes the real
`np.argmax` raise ValueError (empty sequence); `hst`: template ids index the template array. -/
theorem clusterTemplate_eq_dominant (st sc : List Nat) (hlen : st.length = sc.length) (nt : Nat)
    (hst : ∀ t ∈ st, t < nt) (c : Nat) (hc : c ∈ sc) :
    clusterTemplate st sc c = argmaxNat (templateCounts st sc nt c) :=
  Lemmas.clusterTemplate_eq_dominant st sc hlen nt hst c hc

/-- The public accessor `get_cluster_mean_waveforms(c)` (model.py:1239-1261): the returned channel
list is the dominant template's, the returned block has `ns` rows of that width, and its entry
(sample `s`, k-th returned channel) is the spike-count-weighted mean — over the templates the
cluster's spikes came from, with a positive total weight — of the templates' values on that channel,
a template contributing ZERO where its own channel list does not contain the channel.
`hc`: for an id without spikes the real accessor raises ZeroDivisionError ("Weights sum to zero",
`np.average`) while the model divides by zero (`x / 0 = 0`) — excluded here, not claimed.
`_hch`: a listed channel ≥ nc makes the real code raise IndexError (`data[i][:, b.channel_ids]`). -/
theorem clusterMean_spec (W : List Mat) (chans : List (List Nat)) (st sc : List Nat)
    (hst : ∀ t ∈ st, t < W.length) (ns nc c : Nat)
    (hc : templatesOf st sc c ≠ [])
    (hW : ∀ M ∈ W, M.length = ns ∧ ∀ row ∈ M, row.length = nc)
    (_hch : ∀ l ∈ chans, ∀ ch ∈ l, ch < nc) :
    (clusterMean W chans st sc c).1 = chans.getD (argmaxNat (templateCounts st sc W.length c)) [] ∧
    (clusterMean W chans st sc c).2.length = ns ∧
    (∀ row ∈ (clusterMean W chans st sc c).2,
      row.length = (chans.getD (argmaxNat (templateCounts st sc W.length c)) []).length) ∧
    0 < ((templatesOf st sc c).map fun t => countOf st sc t c).sum ∧
    ∀ s k, s < ns → (hk : k < (chans.getD (argmaxNat (templateCounts st sc W.length c)) []).length) →
      (((clusterMean W chans st sc c).2).getD s []).getD k 0 =
        weightedMean W chans st sc c s
          ((chans.getD (argmaxNat (templateCounts st sc W.length c)) [])[k]) :=
  Lemmas.clusterMean_spec W chans st sc hst ns nc c hc hW

/-- When cluster and template assignments coincide the cluster waveforms are the template
waveforms and there are as many clusters as templates. -/
theorem uncurated_identity (W : List Mat) (chans : List (List Nat)) (st : List Nat) (ns nc : Nat) :
    loadClusters W chans st st ns nc = (W, W.length) :=
  Lemmas.uncurated_identity W chans st ns nc

/-- There are as many cluster waveform blocks as declared clusters: one per id up to the highest
when anything was curated, one per template otherwise. -/
theorem cluster_count_rule (W : List Mat) (chans : List (List Nat)) (st sc : List Nat) (ns nc : Nat) :
    (loadClusters W chans st sc ns nc).1.length = (loadClusters W chans st sc ns nc).2 ∧
    (loadClusters W chans st sc ns nc).2 = if sc = st then W.length else sc.foldl max 0 + 1 :=
  Lemmas.cluster_count_rule W chans st sc ns nc

/-! Non-vacuity -/
example : mergeMap [0, 0, 1, 2, 2, 1] [4, 0, 4, 2, 2, 4] = [[0], [], [2], [], [0, 1]] := by decide
example : nanIdx (mergeMap [0, 0, 1, 2, 2, 1] [4, 0, 4, 2, 2, 4]) = [1, 3] := by decide
example :
    clusterWaveforms [[[1, 2], [3, 4]], [[10, 20], [30, 40]], [[5, 5], [6, 6]]] [[0, 1], [1], [0, 1]]
      [0, 0, 1, 2, 2, 1] [4, 0, 4, 2, 2, 4] 2 2 =
    [[[1, 2], [3, 4]], [[0, 0], [0, 0]], [[5, 5], [6, 6]], [[0, 0], [0, 0]], [[0, 14], [0, 28]]] := by
  decide +kernel

-- count tie between templates 0 and 2 (two spikes each) in cluster 4: the lower id wins on both routes
example : templateCounts [0, 0, 1, 2, 2, 1] [4, 4, 4, 4, 4, 0] 3 4 = [2, 1, 2] := by decide
example : argmaxNat (templateCounts [0, 0, 1, 2, 2, 1] [4, 4, 4, 4, 4, 0] 3 4) = 0 := by decide
example : clusterTemplate [0, 0, 1, 2, 2, 1] [4, 4, 4, 4, 4, 0] 4 = 0 := by decide
example : clusterTemplate [2, 2, 1, 0, 0, 1] [4, 4, 4, 4, 4, 0] 4 = 0 := by decide
-- the public accessor: channels of the dominant template 1 (two of three spikes), template 0 does not
-- list channel 1 and contributes zero there: (1*0 + 2*20)/3, (1*1 + 2*10)/3
example :
    clusterMean [[[1, 2], [3, 4]], [[10, 20], [30, 40]]] [[0], [1, 0]] [0, 1, 1] [5, 5, 5] 5 =
      ([1, 0], [[40 / 3, 7], [80 / 3, 21]]) := by decide +kernel
example : templatesOf [0, 1, 1] [5, 5, 5] 5 ≠ [] := by decide

end PhyVerif.C08
