import PhyVerif.Model.C16
import PhyVerif.Spec.C16
import PhyVerif.Lemmas.C16
import PhyVerif.Lemmas.C16b
import PhyVerif.Model.C16c
import PhyVerif.Lemmas.C16c
import PhyVerif.Model.C16d
import PhyVerif.Lemmas.C16d
import PhyVerif.Model.C16e
import PhyVerif.Lemmas.C16e
/-!
# C16 — chunkings tile the sample axis exactly once

Only the property theorems and their non-vacuity examples live here; helper lemmas are in
`PhyVerif/Lemmas/C16.lean`.
-/
namespace PhyVerif.C16

/-- For every data (any cell type), chunk size > 0 and 0 ≤ overlap < chunk size, the kept parts
of successive chunks concatenate to exactly the whole data. -/
theorem chunkBounds_tile {α : Type} (data : List α) (cs ov : Int)
    (hcs : 0 < cs) (hov0 : 0 ≤ ov) (hov : ov < cs) :
    kept data (chunkBounds (data.length : Int) cs ov) = data :=
  Lemmas.chunkBounds_tile data cs ov hcs hov0 hov

/-- All three `chunk_bounds` clauses as the decidable predicate the correspondence run evaluates
on the real output: tiling, each kept part inside its chunk's data (as index sets after Python's
clamping), no chunk holds more than the chunk size. -/
theorem chunkBounds_tileOK (n cs ov : Nat) (hcs : 0 < cs) (hov : ov < cs) :
    tileOK n cs (chunkBounds n cs ov) = true :=
  Lemmas.chunkBounds_tileOK n cs ov hcs hov

/-- Reader chunk bounds: start at 0, end at the sample count, strictly increasing, contain every
file boundary, consecutive bounds at most one chunk length apart — for any number of files. -/
theorem getChunkBounds_ok (sizes : List Nat) (cs : Nat) (hcs : 0 < cs) (hne : sizes ≠ []) :
    boundsOK sizes cs (getChunkBounds sizes cs) = true :=
  Lemmas.getChunkBounds_ok sizes cs hcs hne

/-- The base chunk iterator over any strictly increasing bound list from 0 to n tiles [0, n). -/
theorem iterChunksBase_tile (b : List Nat) (n : Nat) (h0 : b.head? = some 0)
    (hl : b.getLast? = some n) (hs : strictInc b = true) :
    intervalsTile n (iterChunksBase b) = true :=
  Lemmas.iterChunksBase_tile b n h0 hl hs

/-- Corollary: a flat/array reader's chunk iterator tiles the recording. -/
theorem reader_iter_tile (sizes : List Nat) (cs : Nat) (hcs : 0 < cs) (hne : sizes ≠ []) :
    intervalsTile sizes.sum (iterChunksBase (getChunkBounds sizes cs)) = true :=
  Lemmas.reader_iter_tile sizes cs hcs hne

/-- The compressed reader's batch iterator (batch look-behind, trailing last chunk): its
non-empty intervals tile [0, n) in order, for every batch size ≥ 1 and chunk table.
`0 < bs`: the batch size is `mtscomp.Reader.batch_size` = the `n_threads` the reader was created with.  A reader
handed over as an object has the caller's `n_threads ≥ 1`; a compressed file given BY PATH is opened with
`mtscomp.Reader(n_threads=mp.cpu_count() // 2)` (traces.py:483) — 0 on a machine with ONE cpu.  At `bs = 0` the real
code never gets as far as the iterator: `reader.open` computes `n_batches = ceil(n_chunks / batch_size)` and
raises ZeroDivisionError (ran it with `mp.cpu_count` patched to 1), so there is no reader at all — a matter of the
environment, outside "thread/batch counts".  The total model yields nothing there and does NOT tile
(`iterChunksMts_bs_zero`). -/
theorem iterChunksMts_tile (bs : Nat) (hbs : 0 < bs) (cb : List Nat) (n : Nat)
    (h0 : cb.head? = some 0) (hl : cb.getLast? = some n) (hs : strictInc cb = true)
    (hlen : 2 ≤ cb.length) :
    intervalsTile n (iterChunksMts bs cb) = true :=
  Lemmas.iterChunksMts_tile bs hbs cb n h0 hl hs hlen

/-- The hypothesis `0 < bs` of `iterChunksMts_tile` is needed: at batch size 0 (`cpu_count() // 2` on a one-cpu
machine; the real `get_ephys_reader(<path>.cbin)` raises ZeroDivisionError while opening) the model's iterator is
empty and tiles nothing. -/
theorem iterChunksMts_bs_zero (cb : List Nat) (n : Nat) (hn : 0 < n) :
    iterChunksMts 0 cb = [] ∧ intervalsTile n (iterChunksMts 0 cb) = false :=
  ⟨Lemmas.iterChunksMts_bs_zero cb, Lemmas.iterChunksMts_bs_zero_not_tile cb n hn⟩

/-- Excerpts are in-bounds, disjoint, increasing, at most `k` and each at most `size` long. -/
theorem excerpts_ok (n k size : Int) (hn : 0 ≤ n) (hk : 2 ≤ k) (hs : 0 ≤ size) :
    excerptsOK n k size (excerpts n k size) = true :=
  Lemmas.excerpts_ok n k size hn hk hs

/-- `get_excerpts` returns the whole data when it is shorter than requested. -/
theorem getExcerpts_short {α : Type} (data : List α) (k size : Nat)
    (h : data.length < k * size) : getExcerpts data k size = data :=
  Lemmas.getExcerpts_short data k size h

/-- In every case `get_excerpts` returns an in-order sub-selection of the data of at most
`k * size` items. -/
theorem getExcerpts_sublist {α : Type} (data : List α) (k size : Nat) (hs : 0 < size)
    (hlen : k * size ≤ data.length) :
    (getExcerpts data k size).Sublist data ∧ (getExcerpts data k size).length ≤ k * size :=
  Lemmas.getExcerpts_sublist data k size hs hlen

/-- Composition with the reader model of C01: reading a recording made of any number of files
(empty ones included) chunk by chunk through the reader's own iterator (`reader[i0:i1]` for each yielded pair) and
stacking the chunks gives back exactly the concatenated recording — nothing lost at file or chunk
boundaries, nothing read twice.  (For `parts = []` the statement is about the total model only: the real
`_get_chunk_bounds([])` raises, and `np.memmap` refuses a 0-row file, so empty parts are outside what the
correspondence run can exercise.) -/
theorem read_by_chunks_eq_concat {α : Type} (parts : List (List α)) (cs : Nat) (hcs : 0 < cs) :
    readByChunks parts cs = some parts.flatten :=
  Lemmas.read_by_chunks_eq_concat parts cs hcs

/-! ### chunk bounds for data of any type; the chunk LENGTH; the compressed reader's table (`Model/C16c.lean`) -/

/-- The other two `chunk_bounds` clauses for data of ANY type (`chunkBounds_tileOK` states them on index
intervals of `range n`): for every chunk, `data_chunk(data, c)` — the kept part — is literally the piece
`[keep_start - s_start : keep_end - s_start]` of `data_chunk(data, c, with_overlap=True)` — the chunk's data —,
and the chunk's data is at most `chunk_size` long. -/
theorem chunkBounds_parts_ok {α : Type} (data : List α) (cs ov : Int)
    (hcs : 0 < cs) (hov0 : 0 ≤ ov) (hov : ov < cs) :
    ∀ c ∈ chunkBounds (data.length : Int) cs ov,
      pySlice data c.ks c.ke = pySlice (chunkData data c) (c.ks - c.s) (c.ke - c.s) ∧
      ((chunkData data c).length : Int) ≤ cs :=
  fun c hc => Lemmas.chunk_inside data cs hcs c
    (Lemmas.chunkBounds_good _ cs ov (Int.natCast_nonneg _) hcs hov0 hov c hc)

/-- ABOUT THE EXACT PRODUCT, not the code: `chunkSize` rounds the exact rational `600·rate`; the readers compute
the FLOAT product `600.0 * sample_rate` first (`chunkSizeFl`, `Model/C16d.lean`) and the two differ at rates whose
product lies within half an ulp of a `.5` tie (`chunkSizeFl_ne_chunkSize`; e.g. the doubles 0.0225 and the one
nearest to 1/1200).  The statement about the code is the twin `chunkSizeFl_close` / `chunkSizeFl_close_rel`; this one
is kept as the reference the float result is compared with (`chunkSizeFl_eq_chunkSize`, `chunkSizeFl_eq_of_far`).
`int(round(600 * sample_rate))` with Python's `round` on the exact product: within half a sample of 600 s worth of
samples, … -/
theorem chunkSize_close (rate : Rat) :
    600 * rate - 1/2 ≤ (chunkSize rate : Rat) ∧ (chunkSize rate : Rat) ≤ 600 * rate + 1/2 :=
  Lemmas.chunkSize_bounds rate

/-- … THE integer strictly closer than half a sample when there is one (EXACT product; for the code — float
product — the twin is `chunkSizeFl_eq_of_far`, which needs the margin `2^-53·|600·rate|` on both sides), … -/
theorem chunkSize_nearest (rate : Rat) (m : Int) (h1 : 600 * rate - 1/2 < m)
    (h2 : (m : Rat) < 600 * rate + 1/2) : chunkSize rate = m :=
  Lemmas.chunkSize_unique rate m h1 h2

/-- … and the EVEN neighbour when 600 s is exactly half-way between two sample counts (EXACT product; an exact tie
`k + 1/2` with `|k| < 2^52` is a double, so there `chunkSizeFl_eq_chunkSize` makes this a statement about the code
too — but the float product is ALSO a tie at rates whose exact product is not, e.g. the double 0.0225:
`chunkSizeFl_ne_chunkSize`). -/
theorem chunkSize_tie_even (rate : Rat) (k : Int) (h : 600 * rate = k + 1/2) :
    chunkSize rate % 2 = 0 ∧ (chunkSize rate = k ∨ chunkSize rate = k + 1) :=
  Lemmas.chunkSize_tie rate k h

/-- ABOUT THE EXACT PRODUCT, not the code (`readerChunkBounds` uses `chunkSize`): at the double 0.0225 and at the
double nearest to 1/1200 these are bounds the real reader does NOT have (chunk 13 here, 14 in the reader; accepted
here, AssertionError in the reader).  The statements about the code are the twins `readerChunkBoundsFl_ok` /
`readerChunkBoundsFl_rejects` with `chunkSizeFl_pos_iff`; the two coincide whenever the product is a double
(`Lemmas.readerChunkBoundsFl_eq`).
The reader clause with the chunk length tied to the sample rate: for every rate above 1/1200 Hz and any
number of files the constructor's bounds exist, start at 0, end at the sample count, increase strictly, contain
every file boundary, and are never further apart than `int(round(600·rate))`.  At and below 1/1200 Hz the
real constructors raise `AssertionError` (`assert chunk_size > 0`, traces.py:144; checked: 1/1200 → 0 by the
tie rule) — `readerChunkBounds_rejects`. -/
theorem readerChunkBounds_ok (sizes : List Nat) (rate : Rat) (hne : sizes ≠ []) (hr : 1/1200 < rate) :
    ∃ cb, readerChunkBounds sizes rate = some cb ∧ boundsOK sizes (chunkSize rate).toNat cb = true :=
  Lemmas.readerChunkBounds_ok sizes rate hne hr

/-- EXACT product (see `readerChunkBounds_ok`); the code's threshold is `600·rate ≤ 1/2 + 2^-54`
(`chunkSizeFl_pos_iff`, `readerChunkBoundsFl_rejects`), which lies ABOVE 1/1200. -/
theorem readerChunkBounds_rejects (sizes : List Nat) (rate : Rat) (hr : rate ≤ 1/1200) :
    readerChunkBounds sizes rate = none :=
  Lemmas.readerChunkBounds_none sizes rate hr

/-- Compressed reader (its `chunk_bounds` ARE the table stored in the `.ch` file, traces.py:371): the table
mtscomp writes for `n ≥ 1` samples and chunk length `cs ≥ 1` (`range(0, n, cs)` plus `n`) is the bound list
`_get_chunk_bounds` builds for one array of `n` rows, hence satisfies the reader clause with chunk length `cs`:
from 0 to `n`, strictly increasing, never further apart than `cs`.  (For `n = 0` mtscomp raises.)  For an
arbitrary table the clause is the decidable predicate `boundsOK [n] cs table`, evaluated on the real table by
the correspondence run.  (`mtsTable` models mtscomp's WRITER — third-party code, not phylib: this theorem says why the
clause can be expected of a table mtscomp wrote; what the property needs of the reader is only the clause on the
table it actually finds, and the comparison of the real table with `mtsTable` is a CORR matter.) -/
theorem cbin_table_ok (n cs : Nat) (hn : 1 ≤ n) (hcs : 0 < cs) :
    mtsTable n cs = some (getChunkBounds [n] cs) ∧ boundsOK [n] cs (getChunkBounds [n] cs) = true :=
  ⟨Lemmas.mtsTable_eq n cs hn hcs, getChunkBounds_ok [n] cs hcs (by simp)⟩

/-- … and the compressed reader's batch iterator, over any chunk table whose bounds are at most `cs` apart
(more than one bound), never hands out an interval longer than `batch_size` chunk lengths. -/
theorem iterChunksMts_len_le (bs cs : Nat) (hbs : 0 < bs) (cb : List Nat) (hg : gapsLe cs cb = true)
    (hlen : 2 ≤ cb.length) : ∀ p ∈ iterChunksMts bs cb, p.2 - p.1 ≤ bs * cs :=
  Lemmas.iterChunksMts_len_le bs cs hbs cb hg hlen

/-! Non-vacuity: concrete non-trivial inputs meet the hypotheses and exercise several chunks. -/
example : chunkBounds 20 7 2 = [⟨0,7,0,6⟩, ⟨5,12,6,11⟩, ⟨10,17,11,16⟩, ⟨15,20,16,20⟩] := by decide
example : kept [10,11,12,13,14,15,16] (chunkBounds 7 3 1) = [10,11,12,13,14,15,16] := by decide
example : getChunkBounds [3,5,2] 2 = [0,2,3,5,7,8,10] := by decide
example : iterChunksMts 2 [0,3,6,9,10] = [(0,3),(3,9),(9,10)] := by decide
example : readByChunks [[1,2,3],[4,5,6,7,8],[9,10]] 2 = some [1,2,3,4,5,6,7,8,9,10] := by decide
example : excerpts 20 3 4 = [(0,4),(8,12),(16,20)] := by decide
example : chunkSize (1/16) = 38 ∧ chunkSize (3/16) = 112 ∧ chunkSize (7/200) = 21 ∧ chunkSize (1/1200) = 0 := by
  decide +kernel
example : (600 : Rat) * (1/16) = (37 : Int) + 1/2 := by decide +kernel
example : readerChunkBounds [30, 55, 41] (1/16) = some [0, 30, 68, 85, 123, 126] := by decide +kernel
example : mtsTable 10 4 = some [0, 4, 8, 10] ∧ mtsTable 8 4 = some [0, 4, 8] ∧ mtsTable 0 4 = none := by decide
example : gapsLe 3 [0,3,6,9,10] = true ∧
    ((iterChunksMts 2 [0,3,6,9,10]).all fun p => decide (p.2 - p.1 ≤ 2 * 3)) = true := by decide
example : mtsChunkSize (1/4) 10 = 2 ∧ mtsChunkSize (5/2) 1 = 2 := by decide +kernel
example : (chunkBounds 7 3 1).map (fun c => (pySlice [10,11,12,13,14,15,16] c.ks c.ke, chunkData [10,11,12,13,14,15,16] c)) =
    [([10,11,12], [10,11,12]), ([13,14], [12,13,14]), ([15,16], [14,15,16])] := by decide

/-! ## The chunk length as the float unit computes it (`Model/C16d.lean`, `Model/Fl.lean`) -/

open PhyVerif.Fl in
/-- `chunk_size = int(round(600.0 * sample_rate))` with the FLOAT product (`Fl.roundDouble`: IEEE-754 binary64,
round to nearest even), `rate` = the exact value of the double handed to the reader: within half a sample PLUS
half an ulp of the product of 600 s worth of samples (`2^e` = unit in the last place of `600·rate`). -/
theorem chunkSizeFl_close (rate : Rat) (hr : rate ≠ 0) :
    600 * rate - 1 / 2 - pow2 (ulpExp (600 * rate) - 1) ≤ (chunkSizeFl rate : Rat) ∧
    (chunkSizeFl rate : Rat) ≤ 600 * rate + 1 / 2 + pow2 (ulpExp (600 * rate) - 1) :=
  Lemmas.chunkSizeFl_close rate hr

open PhyVerif.Fl in
/-- … in relative form for every rate: half an ulp is at most `2^-53·|600·rate|` -/
theorem chunkSizeFl_close_rel (rate : Rat) :
    600 * rate - 1 / 2 - pow2 (-53) * absR (600 * rate) ≤ (chunkSizeFl rate : Rat) ∧
    (chunkSizeFl rate : Rat) ≤ 600 * rate + 1 / 2 + pow2 (-53) * absR (600 * rate) :=
  Lemmas.chunkSizeFl_close_rel rate

open PhyVerif.Fl in
/-- When the exact product is a double (53 significant bits: every dyadic rate with a short significand, every
exact `.5` tie) the multiplication rounds nothing and the exact-rational model `chunkSize` IS the code. -/
theorem chunkSizeFl_eq_chunkSize (rate : Rat) (h : IsDouble (600 * rate)) : chunkSizeFl rate = chunkSize rate :=
  Lemmas.chunkSizeFl_eq_chunkSize rate h

open PhyVerif.Fl in
/-- Away from the ties — an integer closer than `1/2 − 2^-53·|600·rate|` to the exact product — both models give
that integer. -/
theorem chunkSizeFl_eq_of_far (rate : Rat) (m : Int)
    (h1 : 600 * rate - 1 / 2 + pow2 (-53) * absR (600 * rate) < m)
    (h2 : (m : Rat) < 600 * rate + 1 / 2 - pow2 (-53) * absR (600 * rate)) :
    chunkSizeFl rate = m ∧ chunkSizeFl rate = chunkSize rate :=
  ⟨Lemmas.chunkSizeFl_unique rate m h1 h2, Lemmas.chunkSizeFl_eq_of_far rate m h1 h2⟩

/-- The constructors' `assert chunk_size > 0` (traces.py:144) passes exactly when the exact product exceeds
`1/2 + 2^-54`: between `1/2` and that mid-point the float product is the tie `0.5` and `round(0.5) = 0`
(the exact-rational model accepts those rates: `chunkSize_pos_iff`). -/
theorem chunkSizeFl_pos_iff (rate : Rat) :
    0 < chunkSizeFl rate ↔ 1 / 2 + 1 / 18014398509481984 < 600 * rate :=
  Lemmas.chunkSizeFl_pos_iff_rate rate

/-- The reader clause with the chunk length the float unit computes: whenever the constructor accepts the rate,
for any number of files the bounds exist, start at 0, end at the sample count, increase strictly, contain every
file boundary, and are never further apart than `int(round(fl(600·rate)))`; otherwise `AssertionError`. -/
theorem readerChunkBoundsFl_ok (sizes : List Nat) (rate : Rat) (hne : sizes ≠ []) (hr : 0 < chunkSizeFl rate) :
    ∃ cb, readerChunkBoundsFl sizes rate = some cb ∧ boundsOK sizes (chunkSizeFl rate).toNat cb = true :=
  Lemmas.readerChunkBoundsFl_ok sizes rate hne hr

theorem readerChunkBoundsFl_rejects (sizes : List Nat) (rate : Rat) (hr : chunkSizeFl rate ≤ 0) :
    readerChunkBoundsFl sizes rate = none :=
  Lemmas.readerChunkBoundsFl_none sizes rate hr

open PhyVerif.Fl in
/-- mtscomp's `int(np.round(chunk_duration * sample_rate))` likewise: within `1/2 + 2^-53·|cd·rate|` of the exact
product, equal to the exact-rational model when the product is a double. -/
theorem mtsChunkSizeFl_close (cd rate : Rat) :
    (cd * rate - 1 / 2 - pow2 (-53) * absR (cd * rate) ≤ (mtsChunkSizeFl cd rate : Rat) ∧
     (mtsChunkSizeFl cd rate : Rat) ≤ cd * rate + 1 / 2 + pow2 (-53) * absR (cd * rate)) ∧
    (IsDouble (cd * rate) → mtsChunkSizeFl cd rate = mtsChunkSize cd rate) :=
  ⟨Lemmas.mtsChunkSizeFl_close cd rate, Lemmas.mtsChunkSizeFl_eq cd rate⟩

/-- The float product matters: at the double `0.0225 = 3242591731706757 / 2^57` the exact product `600·rate` is
just BELOW 13.5 (nearest integer 13) but the float product is exactly 13.5 and `round` takes the even neighbour 14 —
what the real reader computes (ran it: `chunk_bounds[:3] == [0, 14, 28]`).  So the exact-rational `chunkSize` /
`readerChunkBounds` are NOT the code at this rate. -/
theorem chunkSizeFl_ne_chunkSize :
    chunkSizeFl (3242591731706757 / 144115188075855872) = 14 ∧
    chunkSize (3242591731706757 / 144115188075855872) = 13 :=
  Lemmas.chunkSizeFl_ne_chunkSize_witness

/-! ## Sample rates that are not binary64 numbers (`Model/C16e.lean`) -/

open PhyVerif.Fl in
/-- `int(round(600.0 * sample_rate))` for a NumPy floating scalar of precision `p` (float16 / float32 / long double:
the product is computed in the precision of the scalar): whatever number `y` the multiplication returns, as long as it
is within the relative rounding error `2^-p` of the exact product — every correctly rounded format with `p`
significant bits is, in its normal range — the chunk length lies between `chunkSizeLo p rate` and
`chunkSizeHi p rate`, i.e. within `1/2 + 2^-p·|600·rate|` of 600 s worth of samples. -/
theorem chunkSize_in_envelope (p : Nat) (rate y : Rat)
    (h : absR (y - 600 * rate) ≤ pow2 (-(p : Int)) * absR (600 * rate)) :
    chunkSizeLo p rate ≤ pyRound y ∧ pyRound y ≤ chunkSizeHi p rate :=
  Lemmas.pyRound_in_envelope p rate y h

/-- … the binary64 model is the instance `p = 53`, and the envelope always contains the chunk length of the exact
product (it is never empty). -/
theorem chunkSizeFl_in_envelope (rate : Rat) :
    (chunkSizeLo 53 rate ≤ chunkSizeFl rate ∧ chunkSizeFl rate ≤ chunkSizeHi 53 rate) ∧
    ∀ p, chunkSizeLo p rate ≤ chunkSize rate ∧ chunkSize rate ≤ chunkSizeHi p rate :=
  ⟨Lemmas.chunkSizeFl_in_envelope rate, fun p => Lemmas.envelope_nonempty p rate⟩

open PhyVerif.Fl in
/-- … and it decides the constructor's `assert chunk_size > 0` at both ends: an envelope at or below 0 means
AssertionError, an envelope starting at 1 or more means the rate is accepted, whatever the rounding. -/
theorem envelope_decides (p : Nat) (rate y : Rat)
    (h : absR (y - 600 * rate) ≤ pow2 (-(p : Int)) * absR (600 * rate)) :
    (chunkSizeHi p rate ≤ 0 → pyRound y ≤ 0) ∧ (1 ≤ chunkSizeLo p rate → 0 < pyRound y) :=
  Lemmas.envelope_decides p rate y h

/-! Non-vacuity.  `1/16`: an exact tie, both models agree.  `np.float32(0.0375) = 5033165/2^27`: the float32 product
is the tie 22.5 → the real reader's chunk is 22 (ran it), the binary64 model at this rational says 23; both lie in the
envelope at 24 bits, which holds nothing else; at 53 bits only 23 is left. -/
example : (chunkSizeLo 24 (5033165 / 134217728), chunkSizeHi 24 (5033165 / 134217728)) = (22, 23) ∧
    (chunkSizeLo 53 (5033165 / 134217728), chunkSizeHi 53 (5033165 / 134217728)) = (23, 23) ∧
    chunkSizeFl (5033165 / 134217728) = 23 := by decide +kernel
example : PhyVerif.Fl.absR ((45 / 2 : Rat) - 600 * (5033165 / 134217728)) ≤
    PhyVerif.Fl.pow2 (-(24 : Int)) * PhyVerif.Fl.absR (600 * (5033165 / 134217728)) ∧ pyRound (45 / 2) = 22 := by
  decide +kernel
example : chunkSizeHi 24 (1 / 2048) = 0 ∧ chunkSizeLo 11 (1 / 16) = 37 ∧ chunkSizeHi 11 (1 / 16) = 38 ∧
    chunkSizeLo 24 (1 / 8) = 75 ∧ chunkSizeHi 24 (1 / 8) = 75 := by decide +kernel
example : iterChunksMts 0 [0, 3, 6] = [] ∧ iterChunksMts 1 [0, 3, 6] = [(0, 0), (0, 3), (3, 6)] := by decide
/-- … there the last place of the product is 2^-49 and the bound of `chunkSizeFl_close` is attained up to it:
`14 - 600·rate = 1/2 + (13.5 - 600·rate)` with `0 < 13.5 - 600·rate ≤ 2^-50` -/
example : PhyVerif.Fl.ulpExp (600 * (3242591731706757 / 144115188075855872)) = -49 ∧
    (14 : Rat) ≤ 600 * (3242591731706757 / 144115188075855872) + 1 / 2 + PhyVerif.Fl.pow2 (-50) := by decide +kernel
example : chunkSizeFl (1 / 16) = 38 ∧ chunkSizeFl 30000 = 18000000 ∧ chunkSizeFl (1 / 1200) = 0 := by decide +kernel
example : PhyVerif.Fl.IsDouble ((600 : Rat) * (1 / 16)) := ⟨75, -1, by decide, by decide +kernel⟩
example : readerChunkBoundsFl [30, 55, 41] (3242591731706757 / 144115188075855872) =
    some [0, 14, 28, 30, 44, 58, 72, 85, 99, 113, 126] := by decide +kernel
example : mtsChunkSizeFl (1 / 4) 10 = 2 ∧ mtsChunkSizeFl (3152519739159347 / 9007199254740992) 10 = 4 := by decide +kernel

end PhyVerif.C16
