import PhyVerif.Model.C17
import PhyVerif.Spec.C17
import PhyVerif.Lemmas.C17
import PhyVerif.Lemmas.C17b
import PhyVerif.Lemmas.C17c
import PhyVerif.Lemmas.C17d
/-!
# C17 — spike selection honours its cluster, chunk, subset and count constraints
Only property theorems + non-vacuity examples; proofs in `Lemmas/C17.lean`.
-/
namespace PhyVerif.C17
open PhyVerif

/-- Kept chunks: whole intervals of the grid at a regular stride starting with the first, never
more than the requested number — for every grid and every requested number ≥ 1. -/
theorem chunksKept_ok (bounds : List Int) (nKept : Nat) (hk : 1 ≤ nKept) :
    keptOK bounds nKept (chunksKept bounds nKept) = true :=
  Lemmas.chunksKept_ok bounds nKept hk

/-- The parity test in the flattened kept bounds (touching intervals `[a,b,b,c]` included) is
exactly membership in some kept interval `a ≤ t < b`. -/
theorem parity_iff_in_kept (bounds : List Int) (nKept : Nat) (hg : GridOK bounds)
    (t : Int) :
    timeInChunks (chunksKept bounds nKept) t = inKept bounds nKept t :=
  Lemmas.parity_iff_in_kept bounds nKept hg t

/-- Main theorem: for EVERY admissible random choice the selection satisfies all constraints:
strictly increasing; only spikes of requested clusters, inside kept chunks when asked, inside the
subset when given; per requested cluster all eligible spikes when they number at most the count
(or no positive count is given) and exactly `count` of them otherwise; unknown clusters nothing. -/
theorem selection_ok (choose : List Nat → Nat → List Nat) (hch : ChooseOK choose) (x : Inp)
    (hg : GridOK x.bounds) :
    SpecOK x (selectWith choose x) = true :=
  Lemmas.selection_ok choose hch x hg

/-- The kept-chunk clause in the statement's own words, with no reference to the code's stride formula: the
flattened kept bounds are the grid intervals at SOME regular stride ≥ 1 starting with the first, at most the
requested number of them.  (The statement says "never more than the requested number", NOT "as many as it allows":
`keptOKAny` accepts any coarser regular stride too, down to the first chunk alone — see its docstring and the example
below.  That the code takes the finest admissible stride is `stride_minimal`, a fact about the model, tied to the real
selector by the exact comparison of `chunks_kept`: a CORR verdict.) -/
theorem chunksKept_any_stride (bounds : List Int) (nKept : Nat) (hg : GridOK bounds) (hk : 1 ≤ nKept) :
    keptOKAny bounds nKept (chunksKept bounds nKept) = true :=
  Lemmas.chunksKept_any_stride bounds nKept hg hk

/-- Which stride the code takes: the SMALLEST regular stride that keeps at most `k` of the `n` chunks (so as
many chunks as the requested number allows are kept). -/
theorem stride_minimal (n k : Nat) (hk : 1 ≤ k) :
    (n + stride n k - 1) / stride n k ≤ k ∧
    ∀ s, 1 ≤ s → (n + s - 1) / s ≤ k → stride n k ≤ s :=
  Lemmas.stride_minimal n k hk

/-- Main theorem restated on the domain of the real selector and relative to the kept intervals READ BACK from
the selector's own `chunks_kept` attribute (this is the form the check evaluates on the real output: first
`keptOKAny` on the real `chunks_kept`, then `SpecOKIn` with the intervals read back from it). -/
theorem selection_ok_in (choose : List Nat → Nat → List Nat) (hch : ChooseOK choose) (x : Inp) (hd : Dom x) :
    keptOKAny x.bounds x.nKept (chunksKept x.bounds x.nKept) = true ∧
    SpecOKIn (pairsOf (chunksKept x.bounds x.nKept)) x (selectWith choose x) = true := by
  refine ⟨Lemmas.chunksKept_any_stride _ _ hd.grid hd.kept, ?_⟩
  rw [Lemmas.chunksKept_eq, ← flatOf, Lemmas.pairsOf_flatOf, ← Lemmas.specOK_eq_in]
  exact Lemmas.selection_ok choose hch x hd.grid

/-- Only the ORDER of spike times and chunk bounds matters, FOR INTEGER RE-TIMINGS: seen through any strictly increasing
map `f : Int → Int` of the time axis (`Inp.mapTimes`: times and bounds both mapped) the selection is the same list of
spike ids and the kept chunks are the images of the kept chunks — for every random choice and every input of the real
selector's domain (`Dom x`: a grid of ≥ 2 strictly increasing bounds, `1 ≤ nKept` — at `nKept = 0` the real constructor
raises ZeroDivisionError and there is nothing to compare —, one time per spike).  The statement is about `Int → Int`
only: it covers shifted, negative and rescaled INTEGER times and grids.  It does NOT by itself cover rational or
float-typed times; that such inputs behave as their integer order-images is an argument outside this theorem (each
finite set of rationals is the strictly increasing image of integers) and, for the real selector, is what the
correspondence run checks when it hands the real code `(t − shift)·scale` for the model's `t`. -/
theorem selection_order_invariant (choose : List Nat → Nat → List Nat) (f : Int → Int)
    (hf : ∀ a b, a < b → f a < f b) (x : Inp) (hdom : Dom x) :
    selectWith choose (x.mapTimes f) = selectWith choose x ∧
    chunksKept (x.mapTimes f).bounds x.nKept = (chunksKept x.bounds x.nKept).map f :=
  ⟨Lemmas.selectWith_mapTimes choose f hf x hdom.times, Lemmas.chunksKept_map f x.bounds x.nKept⟩

/-- Closed form, and determinism: when no positive count is given (`None`, `0`, negative) the selection does not depend on
the random choice at all and is EXACTLY the increasing list of spike ids whose cluster is requested, whose time lies in a
kept chunk (when chunk restriction is on) and which are in the subset (when one is given) — one filter over the spike
ids, no per-cluster bookkeeping.  No `ChooseOK` hypothesis: `choose` is arbitrary. -/
theorem selection_noCount_closed_form (choose : List Nat → Nat → List Nat) (x : Inp) (hg : GridOK x.bounds)
    (hn : NoCount x) : selectWith choose x = allEligible x :=
  Lemmas.selectWith_noCount choose x hg hn

/-- Two selectors with different random sources agree whenever no positive count is given. -/
theorem selection_noCount_deterministic (choose choose' : List Nat → Nat → List Nat) (x : Inp) (hg : GridOK x.bounds)
    (hn : NoCount x) : selectWith choose x = selectWith choose' x := by
  rw [Lemmas.selectWith_noCount choose x hg hn, Lemmas.selectWith_noCount choose' x hg hn]

/-- A count only REMOVES spikes: for every admissible random choice and every count, each returned spike is one the
uncounted selection returns (stated against the closed form, hence against every uncounted run). -/
theorem selection_sub_uncounted (choose choose' : List Nat → Nat → List Nat) (hch : ChooseOK choose) (x : Inp)
    (hg : GridOK x.bounds) (v : Nat) (h : v ∈ selectWith choose x) :
    v ∈ selectWith choose' { x with count := none } := by
  have hx : allEligible { x with count := none } = allEligible x := rfl
  rw [Lemmas.selectWith_noCount choose' { x with count := none } hg (by unfold NoCount; trivial), hx]
  exact Lemmas.selectWith_sub_allEligible choose hch x hg v h

/-- Link to C07: without count, chunk restriction and subset the selector IS `_spikes_in_clusters` of the cluster vector
(the model of C07, whose theorem `C07.spikesInClusters_eq_union` says it is the sorted union of the groups). -/
theorem selection_plain_eq_spikesInClusters (choose : List Nat → Nat → List Nat) (x : Inp) (hg : GridOK x.bounds)
    (hn : NoCount x) (hc : x.subsetChunks = false) (hs : x.subset = none) :
    selectWith choose x = C07.spikesInClusters x.clusters x.req := by
  rw [Lemmas.selectWith_noCount choose x hg hn, Lemmas.allEligible_plain x hc hs]

/-! Non-vacuity -/
example : chunksKept [0, 10, 20, 30, 40, 50] 2 = [0, 10, 30, 40] := by decide
example : keptOK [0, 10, 20, 30, 40, 50] 2 (chunksKept [0, 10, 20, 30, 40, 50] 2) = true := by decide
example : ChooseOK (fun l n => l.take n) := by
  intro l n hl hn
  refine ⟨hl.sublist (List.take_sublist _ _), by simp; omega, fun v hv => List.mem_of_mem_take hv⟩
example :
    let x : Inp := ⟨[1, 5, 12, 31, 33, 39, 45], [2, 2, 7, 2, 2, 2, 7], [0, 10, 20, 30, 40, 50], 2, some 2,
                    [7, 2, 9], true, none⟩
    selectWith (fun l n => l.take n) x = [0, 1] ∧ SpecOK x [0, 1] = true ∧ SpecOK x [1, 4] = true ∧
      SpecOK x [0, 1, 3] = false := by decide
example : keptOKAny [0, 10, 20, 30, 40, 50] 2 [0, 10, 30, 40] = true ∧   -- the code's stride 3
    keptOKAny [0, 10, 20, 30, 40, 50] 2 [0, 10, 40, 50] = true ∧          -- stride 4: another admissible answer
    keptOKAny [0, 10, 20, 30, 40, 50] 2 [0, 10, 20, 30, 40, 50] = false ∧ -- stride 2 keeps three chunks
    keptOKAny [0, 10, 20, 30, 40, 50] 2 [10, 20, 40, 50] = false := by decide  -- does not start with the first
example : stride 5 2 = 3 ∧ stride 7 3 = 3 ∧ stride 4 9 = 1 := by decide
-- "never more than the requested number" is all the statement asks: the first chunk alone passes for 3 requested
example : keptOKAny [0, 10, 20, 30] 3 [0, 10] = true ∧ chunksKept [0, 10, 20, 30] 3 = [0, 10, 10, 20, 20, 30] := by decide
example :
    let x : Inp := ⟨[1, 5, 12, 31, 33, 39, 45], [2, 2, 7, 2, 2, 2, 7], [0, 10, 20, 30, 40, 50], 2, some 2,
                    [7, 2, 9], true, none⟩
    (x.mapTimes (fun t => 3 * t - 100)).times = [-97, -85, -64, -7, -1, 17, 35] ∧
    (x.mapTimes (fun t => 3 * t - 100)).bounds = [-100, -70, -40, -10, 20, 50] ∧
    selectWith (fun l n => l.take n) (x.mapTimes (fun t => 3 * t - 100)) = [0, 1] ∧
    chunksKept (x.mapTimes (fun t => 3 * t - 100)).bounds 2 = [-100, -70, -10, 20] := by decide
-- the input of the re-timing example above is in the domain, and `t ↦ 3t − 100` is strictly increasing
example : Dom ⟨[1, 5, 12, 31, 33, 39, 45], [2, 2, 7, 2, 2, 2, 7], [0, 10, 20, 30, 40, 50], 2, some 2, [7, 2, 9], true, none⟩ :=
  ⟨⟨by decide, by decide⟩, by decide, by decide⟩
example : ∀ a b : Int, a < b → 3 * a - 100 < 3 * b - 100 := by intro a b h; omega
example : Dom ⟨[1, 5, 12], [2, 2, 7], [0, 10, 20], 1, some 2, [7, 2], true, none⟩ :=
  ⟨⟨by decide, by decide⟩, by decide, by decide⟩

-- closed form: an input with count 0 (no effect), chunk restriction on; a reversed "random" choice changes nothing
example :
    let x : Inp := ⟨[1, 5, 12, 31, 33, 39, 45], [2, 2, 7, 2, 2, 2, 7], [0, 10, 20, 30, 40, 50], 2, some 0,
                    [7, 2, 9], true, none⟩
    NoCount x ∧ allEligible x = [0, 1, 3, 4, 5] ∧ selectWith (fun l n => l.reverse.take n) x = [0, 1, 3, 4, 5] := by
  refine ⟨by simp [NoCount], by decide, by decide⟩
-- with a count of 2 the selection [0, 1] is inside it; plain selection = `_spikes_in_clusters`
example :
    let x : Inp := ⟨[1, 5, 12, 31, 33, 39, 45], [2, 2, 7, 2, 2, 2, 7], [0, 10, 20, 30, 40, 50], 2, none,
                    [7, 2, 9], false, none⟩
    NoCount x ∧ selectWith (fun l n => l.take n) x = [0, 1, 2, 3, 4, 5, 6] ∧
      C07.spikesInClusters x.clusters x.req = [0, 1, 2, 3, 4, 5, 6] := by
  refine ⟨by simp [NoCount], by decide, by decide⟩

end PhyVerif.C17
