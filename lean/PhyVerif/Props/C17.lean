import PhyVerif.Model.C17
import PhyVerif.Spec.C17
import PhyVerif.Lemmas.C17
/-!
# C17 — spike selection honours its cluster, chunk, subset and count constraints
Only property theorems + non-vacuity examples; proofs in `Lemmas/C17.lean`.
-/
namespace PhyVerif.C17
open PhyVerif

/-- Kept chunks: whole intervals of the grid at a regular stride starting with the first, never
more than the requested number — for every grid and every requested number ≥ 1. -/
theorem chunksKept_ok (bounds : List Int) (nKept : Nat) (hk : 1 ≤ nKept) :
    keptOK bounds nKept (chunksKept bounds nKept) = true :=
  Lemmas.chunksKept_ok bounds nKept hk

/-- The parity test in the flattened kept bounds (touching intervals `[a,b,b,c]` included) is
exactly membership in some kept interval `a ≤ t < b`. -/
theorem parity_iff_in_kept (bounds : List Int) (nKept : Nat) (hg : GridOK bounds)
    (t : Int) :
    timeInChunks (chunksKept bounds nKept) t = inKept bounds nKept t :=
  Lemmas.parity_iff_in_kept bounds nKept hg t

/-- Main theorem: for EVERY admissible random choice the selection satisfies all constraints:
strictly increasing; only spikes of requested clusters, inside kept chunks when asked, inside the
subset when given; per requested cluster all eligible spikes when they number at most the count
(or no positive count is given) and exactly `count` of them otherwise; unknown clusters nothing. -/
theorem selection_ok (choose : List Nat → Nat → List Nat) (hch : ChooseOK choose) (x : Inp)
    (hg : GridOK x.bounds) :
    SpecOK x (selectWith choose x) = true :=
  Lemmas.selection_ok choose hch x hg

/-! Non-vacuity -/
example : chunksKept [0, 10, 20, 30, 40, 50] 2 = [0, 10, 30, 40] := by decide
example : keptOK [0, 10, 20, 30, 40, 50] 2 (chunksKept [0, 10, 20, 30, 40, 50] 2) = true := by decide
example : ChooseOK (fun l n => l.take n) := by
  intro l n hl hn
  refine ⟨hl.sublist (List.take_sublist _ _), by simp; omega, fun v hv => List.mem_of_mem_take hv⟩
example :
    let x : Inp := ⟨[1, 5, 12, 31, 33, 39, 45], [2, 2, 7, 2, 2, 2, 7], [0, 10, 20, 30, 40, 50], 2, some 2,
                    [7, 2, 9], true, none⟩
    selectWith (fun l n => l.take n) x = [0, 1] ∧ SpecOK x [0, 1] = true ∧ SpecOK x [1, 4] = true ∧
      SpecOK x [0, 1, 3] = false := by decide

end PhyVerif.C17
