import PhyVerif.Model.C20
import PhyVerif.Lemmas.C20
/-!
# C20 — no download is reported successful with a file failing its published checksum
Only property theorems + non-vacuity examples; proofs in `Lemmas/C20.lean`.
-/
namespace PhyVerif.C20

/-- For every hash function, prior file state and pair of server scripts (any length): if the
call returns normally (early or after downloading) and the last checksum fetch of the call was
answered, the file left behind hashes to that published checksum. -/
theorem ok_implies_checksum_matches (hash : Nat → Nat) (prior : Option Nat)
    (ds : List DataResp) (ss : List SumResp) (h : Nat)
    (hret : (download hash (start prior ds ss)).2 = .skipped ∨ (download hash (start prior ds ss)).2 = .done)
    (hlast : lastSum (download hash (start prior ds ss)).1.log = some (.avail h)) :
    ∃ b, (download hash (start prior ds ss)).1.file = some b ∧ hash b = h :=
  Lemmas.ok_implies_checksum_matches hash prior ds ss h hret hlast

/-- A valid existing file is not downloaded again (no data request, file untouched). -/
theorem valid_existing_not_refetched (hash : Nat → Nat) (b : Nat) (ds : List DataResp)
    (ss : List SumResp) :
    let r := download hash (start (some b) ds (.avail (hash b) :: ss))
    r.2 = .skipped ∧ nData r.1.log = 0 ∧ r.1.file = some b :=
  Lemmas.valid_existing_not_refetched hash b ds ss

/-- Never more than two data requests (one retry at most). -/
theorem at_most_one_retry (hash : Nat → Nat) (prior : Option Nat) (ds : List DataResp)
    (ss : List SumResp) : nData (download hash (start prior ds ss)).1.log ≤ 2 :=
  Lemmas.at_most_one_retry hash prior ds ss

/-- A mismatch after the first download triggers exactly one retry: the second data request
happens iff the first post-download verification answered "mismatch". Stated for an absent
prior file, where the first checksum answer is the first verification. -/
theorem mismatch_triggers_retry (hash : Nat → Nat) (b : Nat) (ds : List DataResp) (h : Nat)
    (ss : List SumResp) (hm : hash b ≠ h) :
    nData (download hash (start none (.body b :: ds) (.avail h :: ss))).1.log = 2 :=
  Lemmas.mismatch_triggers_retry hash b ds h ss hm

/-- A persistent mismatch raises instead of returning. -/
theorem persistent_mismatch_raises (hash : Nat → Nat) (b1 b2 h1 h2 : Nat) (ds : List DataResp)
    (ss : List SumResp) (hm1 : hash b1 ≠ h1) (hm2 : hash b2 ≠ h2) :
    (download hash (start none (.body b1 :: .body b2 :: ds) (.avail h1 :: .avail h2 :: ss))).2 = .mismatch :=
  Lemmas.persistent_mismatch_raises hash b1 b2 h1 h2 ds ss hm1 hm2

/-- An HTTP error on a data request that is actually made raises (never a normal return):
whenever the result is a normal return, every data request made was answered with a body. -/
theorem http_error_raises (hash : Nat → Nat) (prior : Option Nat) (ds : List DataResp)
    (ss : List SumResp)
    (hret : (download hash (start prior ds ss)).2 = .skipped ∨ (download hash (start prior ds ss)).2 = .done) :
    ∀ r ∈ ds.take (nData (download hash (start prior ds ss)).1.log), r ≠ .httpError :=
  Lemmas.http_error_raises hash prior ds ss hret

/-- The property under its own quantifier — a checksum URL whose behaviour is fixed for the scenario and
that always answers `h`: whenever the call returns normally, whatever the prior file and the data
script, the file left behind hashes to `h` (no assumption on which request was answered last). -/
theorem ok_with_fixed_checksum (hash : Nat → Nat) (prior : Option Nat) (ds : List DataResp) (h n : Nat)
    (hn : 3 ≤ n)
    (hret : (download hash (start prior ds (List.replicate n (.avail h)))).2 = .skipped ∨
            (download hash (start prior ds (List.replicate n (.avail h)))).2 = .done) :
    ∃ b, (download hash (start prior ds (List.replicate n (.avail h)))).1.file = some b ∧ hash b = h :=
  Lemmas.ok_with_fixed_checksum hash prior ds h n hn hret

/-- Exactly when: with no prior file, a second data request is made if and only if the first
verification was answered with a checksum the downloaded body does not match (no retry when the
checksum is unavailable or matches). -/
theorem retry_iff (hash : Nat → Nat) (b : Nat) (ds : List DataResp) (a : SumResp) (ss : List SumResp) :
    nData (download hash (start none (.body b :: ds) (a :: ss))).1.log = 2 ↔ ∃ h, a = .avail h ∧ hash b ≠ h :=
  Lemmas.retry_iff hash b ds a ss

/-- Exactly when the call raises the checksum error, for a checksum URL that always answers `h`: the
prior file (if any) is invalid and both downloaded bodies fail the checksum. -/
theorem raises_iff (hash : Nat → Nat) (prior : Option Nat) (ds : List DataResp) (h n : Nat) (hn : 3 ≤ n) :
    (download hash (start prior ds (List.replicate n (.avail h)))).2 = .mismatch ↔
      (∀ b, prior = some b → hash b ≠ h) ∧
      ∃ b1 b2 rest, ds = .body b1 :: .body b2 :: rest ∧ hash b1 ≠ h ∧ hash b2 ≠ h :=
  Lemmas.raises_iff hash prior ds h n hn

/-! Non-vacuity (hash = identity) -/
example : (download id (start none [.body 2, .body 1] [.avail 1, .avail 1])).2 = .done := by decide
example : (download id (start none [.body 2, .body 1] [.avail 1, .avail 1])).1.file = some 1 := by decide
example : (download id (start (some 2) [.body 2, .httpError] [.avail 1, .avail 1])).2 = .httpError := by decide
example : (download id (start (some 1) [] [.avail 1])).2 = .skipped := by decide
example : (download id (start none [.body 2, .body 2] [.avail 1, .avail 1])).2 = .mismatch := by decide

/-! ### The text of the checksum file (`text.split()[0]`, phylib/io/datasets.py:86)

"Checksum file correct / wrong" of the statement is about the checksum the file PUBLISHES, not about its layout:
the code documents (datasets.py:85) the md5sum line `<md5>  <name>` or a bare `<md5>`, and reads the first
whitespace-separated field. -/

/-- Every layout of a checksum file - any whitespace before the digest (indentation, blank lines), and after
the digest either nothing or a whitespace character followed by anything (separator and file name, binary
marker, CR/LF, further lines) - publishes the digest: the parse returns exactly `tok`.  The hypotheses are what
makes `tok` a field (non-empty, no whitespace inside); a hexadecimal digest satisfies them. -/
theorem first_field_of_layout (lead tok rest : List Nat) (hl : ∀ c ∈ lead, isWhite c = true)
    (hne : tok ≠ []) (ht : ∀ c ∈ tok, isWhite c = false)
    (hr : rest = [] ∨ ∃ w r, rest = w :: r ∧ isWhite w = true) :
    firstField (lead ++ (tok ++ rest)) = some tok :=
  Lemmas.first_field_of_layout lead tok rest hl hne ht hr

/-- Hence the answer `_check_md5_of_url` works with (available with which checksum / unavailable) is the same for
every layout as for the bare digest - and with it, everything the theorems above say about `download`. -/
theorem checksum_layout_irrelevant (render : List (Nat × List Nat)) (other : Nat) (lead tok rest : List Nat)
    (hl : ∀ c ∈ lead, isWhite c = true) (hne : tok ≠ []) (ht : ∀ c ∈ tok, isWhite c = false)
    (hr : rest = [] ∨ ∃ w r, rest = w :: r ∧ isWhite w = true) :
    parseSum render other (.text (lead ++ (tok ++ rest))) = parseSum render other (.text tok) :=
  Lemmas.parse_layout_irrelevant render other lead tok rest hl hne ht hr

/-- A checksum file that holds no field at all (empty, or whitespace only) is "checksum unavailable"
(`[][0]` raises IndexError inside the `try`), never a mismatch. -/
theorem blank_checksum_unavailable (render : List (Nat × List Nat)) (other : Nat) (ws : List Nat)
    (h : ∀ c ∈ ws, isWhite c = true) : parseSum render other (.text ws) = .missing :=
  Lemmas.parse_blank_missing render other ws h

/-! Non-vacuity: `" ab\t*x\r\n"` (indented, TAB separator, binary marker, CRLF) publishes `ab`; hash value 1
renders as `ab`, so the answer is `.avail 1`; a whitespace-only file is `.missing`; an unknown field is `other`. -/
example : firstField [32, 97, 98, 9, 42, 120, 13, 10] = some [97, 98] := by decide
example : parseSum [(1, [97, 98]), (2, [99, 100])] 9 (.text [32, 97, 98, 9, 42, 120, 13, 10]) = .avail 1 := by decide
example : parseSum [(1, [97, 98]), (2, [99, 100])] 9 (.text [10, 99, 100]) = .avail 2 := by decide
example : parseSum [(1, [97, 98])] 9 (.text [32, 10]) = .missing := by decide
example : parseSum [(1, [97, 98])] 9 (.text [97, 98, 99]) = .avail 9 := by decide
example : parseSum [(1, [97, 98])] 9 .error = .missing := by decide
example : (download id (start none [.body 2, .body 1]
    ([.text [32, 97, 98, 10], .text [9, 97, 98]].map (parseSum [(1, [97, 98])] 9)))).2 = .done := by decide

/-! ### Every prior state of the target file; the textual comparison of the digests -/

/-- "A mismatch triggers exactly one retry" with an EXISTING target file that the pre-check did not accept (the
first checksum answer `a0` is anything but the file's own checksum: wrong file, or checksum unavailable): the second
data request is made if and only if the NEXT checksum answer - the first verification of the downloaded body - is
available and differs from the body's hash.  (`retry_iff` is the same statement for an absent file, where no
answer is consumed by a pre-check; an accepted existing file makes no data request at all:
`valid_existing_not_refetched`.) -/
theorem retry_iff_existing (hash : Nat → Nat) (p b : Nat) (ds : List DataResp) (a0 : SumResp) (ss : List SumResp)
    (hinv : a0 ≠ .avail (hash p)) :
    nData (download hash (start (some p) (.body b :: ds) (a0 :: ss))).1.log = 2 ↔
      ∃ h, ss.head? = some (.avail h) ∧ hash b ≠ h :=
  Lemmas.retry_iff_existing hash p b ds a0 ss hinv

/-- "Exactly": for every prior state and all scripts whose first data answer is a body, a call that does not skip
makes one data request or two (so "no second request" in `retry_iff` / `retry_iff_existing` means exactly one). -/
theorem one_request_or_one_retry (hash : Nat → Nat) (prior : Option Nat) (b : Nat) (ds : List DataResp)
    (ss : List SumResp) (hskip : (download hash (start prior (.body b :: ds) ss)).2 ≠ .skipped) :
    nData (download hash (start prior (.body b :: ds) ss)).1.log = 1 ∨
    nData (download hash (start prior (.body b :: ds) ss)).1.log = 2 :=
  Lemmas.no_retry_one_request hash prior b ds ss hskip

/-- Every documented form of the checksum file publishes the digest: `<md5>`, `<md5>\n`, `<md5>  <name>\n`
(datasets.py:85), in any whitespace layout and in either letter case: when the lower-cased field `tok` is the rendering of
hash value `h`, the answer is `.avail h`. -/
theorem checksum_text_publishes (render : List (Nat × List Nat)) (other h : Nat) (lead tok rest : List Nat)
    (hl : ∀ c ∈ lead, isWhite c = true) (hne : tok ≠ []) (ht : ∀ c ∈ tok, isWhite c = false)
    (hr : rest = [] ∨ ∃ w r, rest = w :: r ∧ isWhite w = true)
    (hd : render.find? (fun r => r.2 == tok.map lowerAscii) = some (h, tok.map lowerAscii)) :
    parseSum render other (.text (lead ++ (tok ++ rest))) = .avail h :=
  Lemmas.parse_publishes render other h lead tok rest hl hne ht hr hd

/-- `valid_existing_not_refetched` without presupposing the equality of tokens: the server sends a TEXT; if its first
field, lower-cased, is the rendering of the existing file's hash, the file is not downloaded again. -/
theorem valid_existing_not_refetched_text (hash : Nat → Nat) (b : Nat) (ds : List DataResp) (ss : List SumResp)
    (render : List (Nat × List Nat)) (other : Nat) (lead tok rest : List Nat)
    (hl : ∀ c ∈ lead, isWhite c = true) (hne : tok ≠ []) (ht : ∀ c ∈ tok, isWhite c = false)
    (hr : rest = [] ∨ ∃ w r, rest = w :: r ∧ isWhite w = true)
    (hd : render.find? (fun r => r.2 == tok.map lowerAscii) = some (hash b, tok.map lowerAscii)) :
    let r := download hash (start (some b) ds (parseSum render other (.text (lead ++ (tok ++ rest))) :: ss))
    r.2 = .skipped ∧ nData r.1.log = 0 ∧ r.1.file = some b :=
  Lemmas.valid_existing_not_refetched_text hash b ds ss render other lead tok rest hl hne ht hr hd

/-! Non-vacuity: existing corrupt file 2, checksum 1 published: body 2 then body 1 = one retry, done; the three
documented forms and the upper-case digest `AB` of a table that renders hash value 1 as `ab`. -/
example : nData (download id (start (some 2) [.body 2, .body 1] [.avail 1, .avail 1, .avail 1])).1.log = 2 := by decide
example : nData (download id (start (some 2) [.body 1] [.missing, .avail 1])).1.log = 1 := by decide
example : parseSum [(1, [97, 98])] 9 (.text [97, 98]) = .avail 1 := by decide
example : parseSum [(1, [97, 98])] 9 (.text [97, 98, 10]) = .avail 1 := by decide
example : parseSum [(1, [97, 98])] 9 (.text [97, 98, 32, 32, 120, 46, 121, 10]) = .avail 1 := by decide
example : parseSum [(1, [97, 98])] 9 (.text [65, 66, 32, 32, 120, 10]) = .avail 1 := by decide
example : (download id (start (some 1) [] [parseSum [(1, [97, 98])] 9 (.text [65, 98, 13, 10])])).2 = .skipped := by decide

/-! ### "HTTP error" is every 4xx / 5xx status, on either URL (`_download`, phylib/io/datasets.py:53-59) -/

/-- A data request answered with ANY client or server error status (400 ≤ status < 600: 400, 401, 403, 404, 410, 429,
500, 502, 503, ...) raises, whatever the error page holds: whenever the call returns normally, every data request
that was made got a status outside 4xx / 5xx.  The data script is given as what the server sends, (status, body). -/
theorem http_error_status_raises (hash : Nat → Nat) (prior : Option Nat) (ds : List (Nat × Nat))
    (ss : List SumResp)
    (hret : (download hash (start prior (ds.map fun a => dataOfStatus a.1 a.2) ss)).2 = .skipped ∨
            (download hash (start prior (ds.map fun a => dataOfStatus a.1 a.2) ss)).2 = .done) :
    ∀ a ∈ ds.take (nData (download hash (start prior (ds.map fun a => dataOfStatus a.1 a.2) ss)).1.log),
      isHttpError a.1 = false :=
  Lemmas.http_error_status_raises hash prior ds ss hret

/-- The checksum URL answering with any 4xx / 5xx status is "checksum unavailable", whatever the error page holds
(its text is never parsed: not a mismatch, not a checksum). -/
theorem error_status_checksum_unavailable (render : List (Nat × List Nat)) (other status : Nat) (t : List Nat)
    (h : isHttpError status = true) : parseSum render other (sumOfStatus status t) = .missing :=
  Lemmas.sum_of_error_status render other status t h

/-! Non-vacuity: 400 / 503 on the first data request, 429 on the retry; 200 hands the body on; an error page on the
checksum URL whose text is the digest of the file is still "unavailable". -/
example : (download id (start none ([(400, 7), (200, 1)].map fun a => dataOfStatus a.1 a.2) [])).2 = .httpError := by decide
example : (download id (start (some 2) ([(503, 7)].map fun a => dataOfStatus a.1 a.2) [.missing])).2 = .httpError := by decide
example : (download id (start none ([(200, 2), (429, 7)].map fun a => dataOfStatus a.1 a.2) [.avail 1])).2 = .httpError := by decide
example : (download id (start none ([(200, 1)].map fun a => dataOfStatus a.1 a.2) [.avail 1])).2 = .done := by decide
example : isHttpError 400 = true ∧ isHttpError 599 = true ∧ isHttpError 399 = false ∧ isHttpError 600 = false := by decide
example : parseSum [(1, [97, 98])] 9 (sumOfStatus 400 [97, 98]) = .missing := by decide
example : parseSum [(1, [97, 98])] 9 (sumOfStatus 200 [97, 98]) = .avail 1 := by decide

/-- Two calls in a row (a history of calls, the file left by the first being the prior state of the second): after ANY call
that returned normally with its last checksum fetch answered `h` — whatever the server did before, whatever file was there
before —, a second call against a server that still publishes `h` returns early, makes NO data request and leaves the file
as it is, whatever the data URL would now answer (`ds'` arbitrary, errors and corrupted bodies included).  Corollary of
`ok_implies_checksum_matches` and `valid_existing_not_refetched`; it is the statement a caller relies on when it calls
`download_file` unconditionally at every start-up. -/
theorem second_call_is_noop (hash : Nat → Nat) (prior : Option Nat) (ds ds' : List DataResp)
    (ss ss' : List SumResp) (h : Nat)
    (hret : (download hash (start prior ds ss)).2 = .skipped ∨ (download hash (start prior ds ss)).2 = .done)
    (hlast : lastSum (download hash (start prior ds ss)).1.log = some (.avail h)) :
    let r2 := download hash (start (download hash (start prior ds ss)).1.file ds' (.avail h :: ss'))
    r2.2 = .skipped ∧ nData r2.1.log = 0 ∧ r2.1.file = (download hash (start prior ds ss)).1.file := by
  obtain ⟨b, hb, hh⟩ := Lemmas.ok_implies_checksum_matches hash prior ds ss h hret hlast
  rw [hb]
  subst hh
  exact Lemmas.valid_existing_not_refetched hash b ds' ss'

/-! Non-vacuity: first call — corrupted body, then the right one on the retry; second call — the data URL is now down. -/
example :
    let r1 := download id (start (some 5) [.body 2, .body 1] [.avail 1, .avail 1, .avail 1])
    r1.2 = .done ∧ lastSum r1.1.log = some (.avail 1) ∧ nData r1.1.log = 2 ∧
    (download id (start r1.1.file [.httpError] [.avail 1])).2 = .skipped := by decide

/-- A corrupt prior file — ANY content whose hash differs from the published one, whatever its size or age — is not
vouched for by anything: against a server that publishes `hash b` and serves `b`, the call downloads exactly once, returns
normally and leaves `b`.  (This is the model fact behind the "third call" of the correspondence run, where the real file is
overwritten between two calls of one process by a body of the same size and timestamps.) -/
theorem corrupt_prior_is_replaced (hash : Nat → Nat) (bad b : Nat) (ds : List DataResp) (ss : List SumResp)
    (hbad : hash bad ≠ hash b) :
    let r := download hash (start (some bad) (.body b :: ds) (.avail (hash b) :: .avail (hash b) :: ss))
    r.2 = .done ∧ r.1.file = some b ∧ nData r.1.log = 1 := by
  have h1 : (hash bad == hash b) = false := by simpa using hbad
  simp [download, start, checkSum, fetch, h1, nData]

example : (download id (start (some 7) [.body 1] [.avail 1, .avail 1])).2 = .done ∧ (7 : Nat) ≠ 1 := by decide

end PhyVerif.C20
