import PhyVerif.Model.C01
import PhyVerif.Spec.C01
import PhyVerif.Lemmas.C01
/-!
# C01 — reader indexing equals NumPy indexing of the concatenated recording
Only property theorems + non-vacuity examples; proofs in `Lemmas/C01.lean`.
-/
namespace PhyVerif.C01
open PhyVerif

/-- Main theorem: for every layout (any number of parts of any lengths — the proof does not even
need them to be non-empty —, rows of any type) and every in-domain index expression (integer in [-n, n), unit-step slice with bounds in
[-n, n] ∪ {None} selecting ≥ 1 row, non-empty strictly increasing index list within [0, n)),
splitting the index over the parts, reading each part and stacking returns exactly what NumPy
indexing returns on the concatenation. -/
theorem getRows_eq_concat {α : Type} (parts : List (List α)) (it : Item)
    (hd : InDom parts.flatten.length it) :
    getRows parts it = npRows parts.flatten it :=
  Lemmas.getRows_eq_concat' parts it hd

/-- … and in-domain NumPy indexing does not raise and selects at least one row
(so the equality above is not `none = none`). -/
theorem npRows_some {α : Type} (A : List α) (it : Item) (hd : InDom A.length it) :
    ∃ rows, npRows A it = some rows ∧ rows ≠ [] :=
  Lemmas.npRows_some A it hd

/-- With a channel selector: the rows NumPy returns, each restricted to the selected columns
(outer indexing `A[item][:, cols]`). -/
theorem getItem_eq_concat {β : Type} (parts : List (List (List β))) (it : Item) (c : ColSel)
    (hd : InDom parts.flatten.length it) :
    getItem parts it c = (npRows parts.flatten it).map fun rows => rows.map (selCols c) := by
  unfold getItem
  rw [Lemmas.getRows_eq_concat' parts it hd]

/-- the reader's sample count is the length of the concatenation -/
theorem nSamples_eq {α : Type} (parts : List (List α)) :
    (bounds parts).getLast? = some parts.flatten.length :=
  Lemmas.nSamples_eq parts

/-- a flat file holding a header and `rows` full rows yields exactly `rows` samples -/
theorem memmapRows_exact (off isz nch rows : Nat) (h1 : 0 < isz) (h2 : 0 < nch) :
    memmapRows (off + rows * nch * isz) off isz nch = rows :=
  Lemmas.memmapRows_exact off isz nch rows h1 h2

/-! Non-vacuity -/
example : getRows [[10, 11], [12], [13, 14, 15]] (.slice (some (-4)) none) = some [12, 13, 14, 15] := by decide
example : InDom 6 (.slice (some (-4)) none) := by
  unfold InDom; refine ⟨?_, ?_, ?_⟩ <;> decide
example : getRows [[10, 11], [12], [13, 14, 15]] (.list [1, 2, 5]) = some [11, 12, 15] := by decide
example : getRows [[10, 11], [12], [13, 14, 15]] (.int (-1)) = some [15] := by decide
example : getRows [[10, 11], [12], [13, 14, 15]] (.slice (some 2) (some 2)) = none := by decide

end PhyVerif.C01
