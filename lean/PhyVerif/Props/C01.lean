import PhyVerif.Model.C01
import PhyVerif.Spec.C01
import PhyVerif.Lemmas.C01
import PhyVerif.Model.C01b
import PhyVerif.Spec.C01b
import PhyVerif.Lemmas.C01b
/-!
# C01 — reader indexing equals NumPy indexing of the concatenated recording
Only property theorems + non-vacuity examples; proofs in `Lemmas/C01.lean`.
-/
namespace PhyVerif.C01
open PhyVerif

/-- Main theorem: for every layout (any number of parts of any lengths — the proof does not even
need them to be non-empty —, rows of any type) and every in-domain index expression (integer in [-n, n), unit-step slice with bounds in
[-n, n] ∪ {None} selecting ≥ 1 row, non-empty strictly increasing index list within [0, n)),
splitting the index over the parts, reading each part and stacking returns exactly what NumPy
indexing returns on the concatenation. -/
theorem getRows_eq_concat {α : Type} (parts : List (List α)) (it : Item)
    (hd : InDom parts.flatten.length it) :
    getRows parts it = npRows parts.flatten it :=
  Lemmas.getRows_eq_concat' parts it hd

/-- … and in-domain NumPy indexing does not raise and selects at least one row
(so the equality above is not `none = none`). -/
theorem npRows_some {α : Type} (A : List α) (it : Item) (hd : InDom A.length it) :
    ∃ rows, npRows A it = some rows ∧ rows ≠ [] :=
  Lemmas.npRows_some A it hd

/-- With a channel selector: the rows NumPy returns, each restricted to the selected columns
(outer indexing `A[item][:, cols]`). -/
theorem getItem_eq_concat {β : Type} (parts : List (List (List β))) (it : Item) (c : ColSel)
    (hd : InDom parts.flatten.length it) :
    getItem parts it c = (npRows parts.flatten it).map fun rows => rows.map (selCols c) := by
  unfold getItem
  rw [Lemmas.getRows_eq_concat' parts it hd]

/-- the reader's sample count is the length of the concatenation -/
theorem nSamples_eq {α : Type} (parts : List (List α)) :
    (bounds parts).getLast? = some parts.flatten.length :=
  Lemmas.nSamples_eq parts

/-- a flat file holding a header and `rows` full rows yields exactly `rows` samples -/
theorem memmapRows_exact (off isz nch rows : Nat) (h1 : 0 < isz) (h2 : 0 < nch) :
    memmapRows (off + rows * nch * isz) off isz nch = rows :=
  Lemmas.memmapRows_exact off isz nch rows h1 h2

/-! ### Reader objects: attributes and backends (`Model/C01b.lean`) -/

/-- "The reader's shape, sample count, channel count, dtype and duration are those of that concatenated
array", for every backend and the attributes computed the way the code computes them: the constructor of a
well-formed recording (`SrcOK`: flat files = header ++ rows, one npy / compressed file, the decoder's chunk
table ending at the row count, a rate the constructor accepts — `RateOK`: `1/2 + 2^-54 < 600·rate < 2^1024 - 2^970`
for the exact value of the float rate) succeeds, and
`n_samples` — the LAST CHUNK BOUND (`_get_chunk_bounds` over the per-file row counts obtained from the file
sizes, with chunk length `int(round(fl(600.0·rate)))`, the float product as in C16: `C16.readerChunkBoundsFl`;
the stored table for compressed files) — is the number of rows
of the concatenation; `shape = (n_samples, n_channels)`; `duration = n_samples / rate`; the stored
`part_bounds` are the cumulative part lengths and the stored parts concatenate to the recording.
Outside `SrcOK` the real constructors raise (no file, `n_channels = 0`, a file shorter than its header, a rate
with `600·rate ≤ 1/2 + 2^-54` — among them the double nearest to 1/1200, although it exceeds 1/1200 —:
AssertionError, `reader_rate_rejected`; a float product that overflows: OverflowError; ≠ 1 npy path: ValueError)
or — several compressed files — keep only the first (open known finding). -/
theorem reader_attrs_eq_concat {α : Type} (src : Source α) (h : SrcOK src) :
    ∃ r, build src = some r ∧
      r.backend = src.backend ∧
      r.nSamples = some src.concat.length ∧
      r.shape = some (src.concat.length, src.width) ∧
      r.nChannels = src.width ∧ r.dtype = src.dtype ∧
      r.duration = some ((src.concat.length : Rat) / src.rate) ∧
      r.partBounds = bounds r.store ∧ r.store.flatten = src.concat :=
  Lemmas.reader_attrs src h

/-- The lower bound of `RateOK` is sharp: the constructor of a flat / in-memory / npy reader (model: `build`)
refuses every rate at or below it, whatever the files — the constructor's `assert chunk_size > 0` on the chunk
length computed from the FLOAT product (`600.0 * rate` is then at most the tie 0.5, and `round(0.5) = 0`). -/
theorem reader_rate_rejected {α : Type} (src : Source α) (hbe : src.backend ≠ .cbin)
    (h : 600 * src.rate ≤ 1/2 + 1/18014398509481984) : build src = none :=
  Lemmas.build_none_of_rate src hbe h

/-- Indexing the constructed reader of any backend (its `__getitem__` reads the STORED `part_bounds`) with an
in-domain index expression the backend offers — everything except an index list/array on a compressed file —
and a channel selector returns NumPy's rows of the concatenation (at least one), each restricted to the
selected columns. -/
theorem reader_getitem_eq_concat {β : Type} (src : Source (List β)) (h : SrcOK src) (r : Reader (List β))
    (hr : build src = some r) (it : Item) (hd : InDom src.concat.length it) (c : ColSel)
    (hoff : src.backend = .cbin → it.isList = false) :
    ∃ rows, npRows src.concat it = some rows ∧ rows ≠ [] ∧
      getItemB r it c = .ok (rows.map (selCols c)) :=
  Lemmas.getItemB_eq src h r hr it hd c hoff

/-- What an index-list channel selector selects (the column semantics `selCols` gives the theorems above):
for entries within `[-w, w)` of a row of width `w`, exactly one cell per entry, in the order written, negative
entries counting from the end — NumPy's `row[l]`.  (Outside the range NumPy and the real reader raise
IndexError; the totalised `selCols` would drop the entry, which is why the hypothesis is there.) -/
theorem selCols_idx_eq {β : Type} (l : List Int) (row : List β)
    (hl : ∀ i ∈ l, -(row.length : Int) ≤ i ∧ i < row.length) (d : β) :
    selCols (.idx l) row =
      l.map fun i => (row[(if i < 0 then i + (row.length : Int) else i).toNat]?).getD d :=
  Lemmas.selCols_idx l row hl d

/-- Derived readers: `reader[:, c1][:, c2]…[item, c]` — successive deferred channel selections followed by
an index with (or without) a further selector — returns NumPy's rows of the concatenation with the selections
applied IN THE ORDER WRITTEN (`A[item][:, c1][:, c2]…[:, c]`, which is `A[:, c1][:, c2]…[item][:, c]`: row
and column selection commute, two column selections do not). -/
theorem reader_getitem_ops_eq_concat {β : Type} (src : Source (List β)) (h : SrcOK src)
    (r : Reader (List β)) (hr : build src = some r) (it : Item) (hd : InDom src.concat.length it)
    (ops : List ColSel) (hoff : src.backend = .cbin → it.isList = false) :
    ∃ rows, npRows src.concat it = some rows ∧ rows ≠ [] ∧
      getItemOps r it ops = .ok (rows.map (applyCols ops)) :=
  Lemmas.getItemOps_eq src h r hr it hd ops hoff

/-- "except on compressed files whose decoder does not offer it": an in-domain index list/array on a
compressed file is REFUSED (the decoder's `NotImplementedError`, raised by the first `_get_part` call after
`_get_subitems` has accepted the list) … -/
theorem reader_cbin_list_refused {β : Type} (src : Source (List β)) (h : SrcOK src) (r : Reader (List β))
    (hr : build src = some r) (hbe : src.backend = .cbin) (l : List Int)
    (hd : InDom src.concat.length (.list l)) (c : ColSel) :
    getItemB r (.list l) c = .refused :=
  Lemmas.getItemB_refused src h r hr hbe l hd c

/-- … and never answered wrongly: on every backend, whenever an in-domain index expression is answered at
all, the answer is NumPy's on the concatenation. -/
theorem reader_never_wrong {β : Type} (src : Source (List β)) (h : SrcOK src) (r : Reader (List β))
    (hr : build src = some r) (it : Item) (hd : InDom src.concat.length it) (c : ColSel)
    (v : List (List β)) (hv : getItemB r it c = .ok v) :
    ∃ rows, npRows src.concat it = some rows ∧ v = rows.map (selCols c) :=
  Lemmas.getItemB_sound src h r hr it hd c v hv

/-! Non-vacuity -/
example : getRows [[10, 11], [12], [13, 14, 15]] (.slice (some (-4)) none) = some [12, 13, 14, 15] := by decide
example : InDom 6 (.slice (some (-4)) none) := by
  unfold InDom; refine ⟨?_, ?_, ?_⟩ <;> decide
example : getRows [[10, 11], [12], [13, 14, 15]] (.list [1, 2, 5]) = some [11, 12, 15] := by decide
example : getRows [[10, 11], [12], [13, 14, 15]] (.int (-1)) = some [15] := by decide
example : getRows [[10, 11], [12], [13, 14, 15]] (.slice (some 2) (some 2)) = none := by decide

/-! `exFlat`: two flat files (header 5 bytes, int16, 2 channels, 2 + 1 rows) at 1/400 Hz; `exCbin`: one
compressed file of 3 rows (`Spec/C01b.lean`) -/

example : SrcOK exFlat := by
  refine ⟨by decide, by decide, by decide, ?_, by decide +kernel, by decide +kernel⟩
  intro f hf
  simp only [List.mem_cons, List.not_mem_nil, or_false] at hf
  rcases hf with rfl | rfl <;> rfl
example : (build exFlat).map (fun r => (r.nSamples, r.shape, r.duration, r.partBounds, r.chunkBounds)) =
    some (some 3, some (3, 2), some 1200, [0, 2, 3], [0, 2, 3]) := by decide +kernel
example : (build exFlat).map (fun r => getItemB r (.slice (some (-2)) none) (.idx [1, 0])) =
    some (.ok [[4, 3], [6, 5]]) := by decide +kernel
/-- the boundary of the rate domain: the double nearest to 1/1200 is above 1/1200 but outside `RateOK`, and the
constructor refuses it (the real one raises AssertionError; the exact-rational chunk length would be 1); the next
double is inside, the chunk length is 1 and every row is a chunk -/
example : (1 : Rat) / 1200 < rate1200 ∧ ¬ RateOK rate1200 ∧ build (exArr rate1200) = none ∧
    C16.chunkSize rate1200 = 1 := by
  refine ⟨by decide +kernel, ?_, by decide +kernel, by decide +kernel⟩
  intro h; exact absurd h.1 (by decide +kernel)
example : SrcOK (exArr rate1200up) := ⟨by decide +kernel, by decide +kernel⟩
example : (build (exArr rate1200up)).map (fun r => (r.nSamples, r.chunkBounds)) = some (some 3, [0, 1, 2, 3]) := by
  decide +kernel
/-- 0.0225 Hz (the double): float product 13.5, chunk length 14 (the exact product is below 13.5: 13) -/
example : (build (.array ⟨List.replicate 20 [0], 1, "int16"⟩ (3242591731706757 / 144115188075855872))).map
    (fun r => r.chunkBounds) = some [0, 14, 20] := by decide +kernel
example : SrcOK exCbin := by
  refine ⟨rfl, ?_⟩
  intro md hmd
  simp only [List.mem_cons, List.not_mem_nil, or_false] at hmd
  subst hmd
  exact ⟨rfl, by decide +kernel⟩
example : (build exCbin).map (fun r => getItemB r (.list [0, 2]) .all) = some .refused := by decide +kernel
example : (build exCbin).map (fun r => getItemB r (.int (-1)) .all) = some (.ok [[5, 6]]) := by decide +kernel
example : selCols (.idx [-1, 0, 2]) [10, 11, 12] = [12, 10, 12] := by decide
/-- two successive channel selections do not commute: `[:, [1, 0]]` then `[:, [0]]` keeps channel 1 -/
example : (build exFlat).map (fun r => getItemOps r (.int 0) [.idx [1, 0], .idx [0]]) = some (.ok [[2]]) ∧
    (build exFlat).map (fun r => getItemOps r (.int 0) [.idx [0], .idx [1, 0]]) = some (.ok [[1]]) := by
  decide +kernel
/-- the open known finding, as the model has it: of two compressed files only the first is kept -/
example : (build (.cbin [(⟨1, "int16", 10, [0, 2]⟩, [[1], [2]]), (⟨1, "int16", 10, [0, 1]⟩, [[3]])])).map
    (fun r => r.nSamples) = some (some 2) := by decide +kernel

end PhyVerif.C01
