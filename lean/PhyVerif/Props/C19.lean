import PhyVerif.Model.C19
import PhyVerif.Spec.C19
import PhyVerif.Lemmas.C19
/-!
# C19 — event dispatch follows registration order, sender filters and silencing;
#        a progress reporter announces completion exactly once per crossing
Only property theorems + non-vacuity examples; proofs in `Lemmas/C19.lean`.
-/
namespace PhyVerif.C19

/-- For every history of connect / unconnect (by callback, by sender, by owner object) / reset /
set_silent / nested silent contexts / emit: every emit's calls and returned value are exactly
what the specification derives from the history *before* it — the currently registered callbacks
for that event whose sender filter is absent or equal, in registration order with `last` ones
after all others, results in call order (first result after a single call with `single`), and
nothing at all (returning None) while silenced, at any nesting depth. -/
theorem emit_outcomes (ops : List EOp) (h : WellNested ops 0) :
    erun EState.init ops = emitsSpec [] ops :=
  Lemmas.emit_outcomes ops h

/-- After any well-nested history the emitter is silenced iff a silent context is still open or
the last `set_silent` said so (leaving the contexts restores the previous state). -/
theorem silent_restores (ops : List EOp) (h : WellNested ops 0) :
    (erunState EState.init ops).silent = (decide ((depthFlag ops).1 > 0) || (depthFlag ops).2) :=
  Lemmas.silent_restores ops h

/-- A silenced emit calls nothing and returns None, whatever is registered. -/
theorem silenced_emit_none (st : EState) (e s : Nat) (single : Bool) (h : st.silent = true) :
    emit st e s single = ⟨[], .none⟩ :=
  Lemmas.silenced_emit_none st e s single h

/-- An un-silenced emit equals the specification on the registered list (order, filter, `last`,
`single`). -/
theorem emit_eq_spec (st : EState) (e s : Nat) (single : Bool) (h : st.silent = false) :
    emit st e s single = emitSpec st.cbs e s single :=
  Lemmas.emit_eq_spec st e s single h

/-- Progress reporter: for every history over {increment, set value, set maximum, set_complete,
reset}, a completion is announced at a step exactly when that step is a value update reaching the
maximum and no completion has been announced since the value was last set below the maximum or the
maximum was last raised. -/
theorem reporter_announce_ok (ops : List ROp) :
    announceOK [] ((rrun RState.init ops).map obsOf) = true :=
  Lemmas.reporter_announce_ok ops

/-! Non-vacuity -/
example : erun EState.init
    [.connect ⟨0, none, 1, none, true⟩, .connect ⟨0, some 5, 2, none, false⟩, .connect ⟨0, some 6, 3, none, false⟩,
     .emit 0 5 false, .enterSilent, .enterSilent, .emit 0 5 false, .exitSilent, .emit 0 5 false, .exitSilent,
     .unconnect [.obj 5], .emit 0 5 true]
    = [⟨[2, 1], .list [2, 1]⟩, ⟨[], .none⟩, ⟨[], .none⟩, ⟨[1], .one 1⟩] := by decide
example : WellNested [.enterSilent, .enterSilent, .emit 0 5 false, .exitSilent, .exitSilent] 0 := by
  simp [WellNested]
example : (rrun RState.init [.setMax 1, .increment, .reset none, .increment]).map (·.2.2.2.complete)
    = [false, true, false, true] := by decide

end PhyVerif.C19
