import PhyVerif.Model.C19
import PhyVerif.Spec.C19
import PhyVerif.Lemmas.C19
import PhyVerif.Lemmas.C19b
import PhyVerif.Lemmas.C19c
/-!
# C19 — event dispatch follows registration order, sender filters and silencing;
#        a progress reporter announces completion exactly once per crossing
Only property theorems + non-vacuity examples; proofs in `Lemmas/C19.lean`.
`result : Call → Nat` is the behaviour of the callbacks (what a callback returns, as a function of
its identity and of what it received); every theorem holds for every such behaviour.
-/
namespace PhyVerif.C19

/-- For every history of connect / unconnect (by callback, by sender, by owner object) / reset /
set_silent / nested silent contexts / emit: every emit's invocations and returned value are exactly
what the specification derives from the history *before* it — the currently registered callbacks
for that event whose sender filter is absent or equal, in registration order with `last` ones
after all others, each invoked with (sender, args, kwargs minus `single`), results in call order
(first result after a single call with `single`), and nothing at all (returning None) while
silenced, at any nesting depth.  (`set_silent` outside contexts; see `emit_outcomes_any_nesting`.) -/
theorem emit_outcomes (result : Call → Nat) (ops : List EOp) (h : WellNested ops 0) :
    erun result EState.init ops = emitsSpec result [] ops :=
  Lemmas.emit_outcomes result ops h

/-- The same for EVERY history Python can produce (`set_silent` also inside `silent()` contexts;
the only hypothesis is that a context is left after it was entered — the real code cannot do
otherwise, a context manager's exit follows its enter): an emit is silenced exactly when
`silencedAfter` says so — the flag is what the most recent of {`set_silent(b)` ↦ b, enter ↦ True,
exit ↦ the value just before the matching enter} assigned.  In particular
`[connect c, enter, set_silent False, emit]` DOES call `c` (event.py:51, 127) and the exit then
restores the value saved at the enter. -/
theorem emit_outcomes_any_nesting (result : Call → Nat) (ops : List EOp) (h : ExitsMatched ops 0) :
    erun result EState.init ops = emitsSpecG result [] ops :=
  Lemmas.emit_outcomes_any_nesting result ops h

/-- "The currently registered callbacks", independently of the code's filter: after ANY history the
emitter's callback list consists, in history order, of the registrations of exactly those `connect`s that did
not raise and that no later `reset` and no later `unconnect` hit — an `unconnect(*items)` hits a registration
when one of the items is its callback (equal, not necessarily identical: `obj.on_x` evaluated again), its sender
filter, or the object its bound-method callback belongs to (`hits`, written item by item; the code's
`f not in items and sender not in items and f.__self__ not in items`, event.py:110-116, is `keeps`).
No hypothesis on the nesting of silent contexts. -/
theorem state_registered (result : Call → Nat) (ops : List EOp) :
    (erunState result EState.init ops).cbs = registeredFwd ops :=
  Lemmas.state_registered result ops

/-- the fold used by `emit_outcomes` / `emit_outcomes_any_nesting` is that list -/
theorem registered_forward (ops : List EOp) : registered ops = registeredFwd ops :=
  Lemmas.registered_eq_fwd ops

/-- one `unconnect(*items)` removes exactly the registrations an item hits, keeping the order (and the
multiplicity) of the others -/
theorem unconnect_removes_exactly_hit (result : Call → Nat) (st : EState) (items : List UItem) :
    (estep result st (.unconnect items)).1.cbs = st.cbs.filter (fun c => !hits items c) :=
  Lemmas.unconnect_cbs result st items

/-- `emit_outcomes_any_nesting` with the registered callbacks read off the history by `registeredFwd`: the
statement the correspondence run uses (`spec` of the driver). -/
theorem emit_outcomes_forward (result : Call → Nat) (ops : List EOp) (h : ExitsMatched ops 0) :
    erun result EState.init ops = emitsSpecF result [] ops :=
  Lemmas.emit_outcomes_forward result ops h

/-- `connect` returns the function it was given (event.py:108; same value through the decorator form with
arguments, event.py:98-99) exactly when it registers it — as the LAST entry of the callback list —, so that
decorator use leaves the name bound to the function; when it raises, nothing changes. -/
theorem connect_returns_registered (result : Call → Nat) (st : EState) (r : ConnReq) :
    (∀ i, connectRet r = some i →
      i = r.id ∧ ∃ c, c.id = i ∧ (estep result st (.connect r)).1.cbs = st.cbs ++ [c]) ∧
    (connectRet r = none → (estep result st (.connect r)).1 = st) :=
  Lemmas.connect_returns result st r

/-- the silence flag after any such history -/
theorem silent_flag_any_nesting (result : Call → Nat) (ops : List EOp) (h : ExitsMatched ops 0) :
    (erunState result EState.init ops).silent = silencedAfter ops :=
  Lemmas.silent_flag_any_nesting result ops h

/-- After any well-nested history the emitter is silenced iff a silent context is still open or
the last `set_silent` said so (leaving the contexts restores the previous state). -/
theorem silent_restores (result : Call → Nat) (ops : List EOp) (h : WellNested ops 0) :
    (erunState result EState.init ops).silent = (decide ((depthFlag ops).1 > 0) || (depthFlag ops).2) :=
  Lemmas.silent_restores result ops h

/-- A silenced emit calls nothing and returns None, whatever is registered. -/
theorem silenced_emit_none (result : Call → Nat) (st : EState) (e : String) (s : Nat) (a : List Nat)
    (kw : Kwargs) (h : st.silent = true) :
    emit result st e s a kw = ⟨[], .none⟩ :=
  Lemmas.silenced_emit_none result st e s a kw h

/-- An un-silenced emit equals the specification on the registered list (order, filter, `last`,
`single`, arguments, results). -/
theorem emit_eq_spec (result : Call → Nat) (st : EState) (e : String) (s : Nat) (a : List Nat)
    (kw : Kwargs) (h : st.silent = false) :
    emit result st e s a kw = emitSpec result st.cbs e s a kw :=
  Lemmas.emit_eq_spec result st e s a kw h

/-- "passes the sender and arguments through unchanged": in every state, every invocation made by an
emit carries the emit's sender, its positional arguments, and its keyword arguments minus the
`single` entry (which `emit` pops, event.py:130). -/
theorem emit_args_through (result : Call → Nat) (st : EState) (e : String) (s : Nat) (a : List Nat)
    (kw : Kwargs) :
    ∀ c ∈ (emit result st e s a kw).calls, c.sender = s ∧ c.args = a ∧ c.kwargs = forwarded kw :=
  Lemmas.emit_args_through result st e s a kw

/-- "returns the callbacks' results in call order (only the first result, after a single call, when a
single result is requested)".  In the model the call log (`calls`: what each callback received) and
the result list (`res.append(f(...))`) are separate accumulators of the loop; the theorem says they
agree position by position, for every behaviour `result` of the callbacks. -/
theorem emit_results_in_call_order (result : Call → Nat) (st : EState) (e : String) (s : Nat)
    (a : List Nat) (kw : Kwargs) (h : st.silent = false) :
    (wantsSingle kw = false →
      (emit result st e s a kw).ret = .list ((emit result st e s a kw).calls.map result)) ∧
    (wantsSingle kw = true →
      ((emit result st e s a kw).calls = [] ∧ (emit result st e s a kw).ret = .list []) ∨
      (∃ c, (emit result st e s a kw).calls = [c] ∧ (emit result st e s a kw).ret = .one (result c))) :=
  Lemmas.emit_results_in_call_order result st e s a kw h

/-- `connect(f)` without `event=`: a function called `on_<e>` (`e` non-empty, no newline) is
registered for the event `e` (event.py:57-65, 101-103). -/
theorem connect_event_from_name (r : ConnReq) (e : String) (h : r.event = none)
    (hf : r.fname = "on_" ++ e) (hne : e ≠ "") (hnl : e.toList.all (· != '\n') = true) :
    connectCb r = some ⟨e, r.sender, r.id, r.owner, r.last⟩ :=
  Lemmas.connectCb_byname r e h hf hne hnl

/-- `connect(f, event=e)`: the explicit event name wins, whatever the function is called. -/
theorem connect_event_explicit (r : ConnReq) (e : String) (h : r.event = some e) :
    connectCb r = some ⟨e, r.sender, r.id, r.owner, r.last⟩ :=
  Lemmas.connectCb_explicit r e h

/-- Conversely the derived event name is never empty and the function name is `on_` + the event name
(+ possibly one trailing newline, which `$` tolerates); any other name makes `connect` raise
(`connectCb = none`) and register nothing. -/
theorem connect_name_shape (f e : String) (h : getOnName f = some e) :
    e ≠ "" ∧ ∃ rest, f.toList = 'o' :: 'n' :: '_' :: (e.toList ++ rest) ∧ (rest = [] ∨ rest = ['\n']) :=
  Lemmas.getOnName_some f e h

/-- Progress reporter: for every history over {increment, set value, set maximum, set_complete,
reset}, a completion is announced at a step exactly when that step is a value update reaching the
maximum and no completion has been announced since the value was last set below the maximum or the
maximum was last raised. -/
theorem reporter_announce_ok (ops : List ROp) :
    announceOK [] ((rrun RState.init ops).map obsOf) = true :=
  Lemmas.reporter_announce_ok ops

/-- `is_complete()` (value ≥ maximum) holds right after every announcement, and at every step after which the
completion flag is still set (the flag that suppresses a second announcement is never set below the
maximum). -/
theorem reporter_is_complete (ops : List ROp) :
    ∀ t ∈ rrun RState.init ops,
      (t.2.2.1.completed = true → isComplete t.2.2.1 = true) ∧
      (t.2.2.2.complete = true → isComplete t.2.2.1 = true) :=
  Lemmas.reporter_is_complete ops

/-- A REPORTER WITH MESSAGES, along every history from the initial state.  At each step `t = (pre, op, post, out)` of
`rrun RState.init ops` (so `out` is an output a step really produces — the statement is not about arbitrary `ROut`
records), with `valueSet pre op` the value the operation hands to `_set_value` (`increment`: `pre.value + 1`, the
`value` setter: its argument, `set_complete`: `pre.max`; `value_max` setter and `reset`: none):
* the progress message `(v, m)` is printed exactly when the operation is a value update to `v`, `m` is the maximum of
  the PRE-state, `m ≠ 0` and `v ≤ m` (`_default_on_progress`, event.py:174-182);
* `complete` is announced exactly when the operation is a value update to some `v ≥ pre.max` while the completion flag
  of the pre-state is not set (with `reporter_announce_ok`: exactly once per crossing), and the completion message is
  printed once for an announcement and not at all otherwise;
* a value update emits `progress(v, pre.max)` FIRST and `complete` after it; an operation that is not a value update
  emits nothing; the printed messages come in the order of the events. -/
theorem reporter_messages (ops : List ROp) :
    ∀ t ∈ rrun RState.init ops,
      (∀ v m, REv.progress v m ∈ t.2.2.2.printed ↔
        (valueSet t.1 t.2.1 = some v ∧ m = t.1.max ∧ m ≠ 0 ∧ v ≤ m)) ∧
      (t.2.2.2.complete = true ↔ ∃ v, valueSet t.1 t.2.1 = some v ∧ t.1.max ≤ v ∧ t.1.completed = false) ∧
      t.2.2.2.printed.count REv.complete = (if t.2.2.2.complete then 1 else 0) ∧
      (∀ v, valueSet t.1 t.2.1 = some v →
        t.2.2.2.events = REv.progress v t.1.max :: (if t.2.2.2.complete then [REv.complete] else [])) ∧
      (valueSet t.1 t.2.1 = none → t.2.2.2.events = []) ∧
      t.2.2.2.printed.Sublist t.2.2.2.events :=
  Lemmas.reporter_messages ops

/-! Non-vacuity -/
example : erun stubResult EState.init
    [.connect ⟨"on_e0", none, none, 1, none, true⟩, .connect ⟨"f", some "e0", some 5, 2, none, false⟩,
     .connect ⟨"g", some "e0", some 6, 3, none, false⟩,
     .emit "e0" 5 [7, 8] [("key", 4)], .enterSilent, .enterSilent, .emit "e0" 5 [] [], .exitSilent,
     .emit "e0" 5 [] [], .exitSilent,
     .unconnect [.obj 5], .emit "e0" 5 [9] [("single", 1), ("key", 3)]]
    = [⟨[⟨2, 5, [7, 8], [("key", 4)]⟩, ⟨1, 5, [7, 8], [("key", 4)]⟩], .list [2052, 1052]⟩, ⟨[], .none⟩, ⟨[], .none⟩,
       ⟨[⟨1, 5, [9], [("key", 3)]⟩], .one 1051⟩] := by decide
example : WellNested [.enterSilent, .enterSilent, .emit "e0" 5 [] [], .exitSilent, .exitSilent] 0 := by
  simp [WellNested]
-- `set_silent(False)` inside a context un-silences; the exit restores the value saved at the enter
example : ExitsMatched [.setSilent true, .enterSilent, .setSilent false, .emit "e" 0 [] [], .exitSilent,
      .emit "e" 0 [] []] 0 ∧
    erun stubResult EState.init [.connect ⟨"on_e", none, none, 1, none, false⟩, .setSilent true, .enterSilent,
      .setSilent false, .emit "e" 0 [] [], .exitSilent, .emit "e" 0 [] []] =
      [⟨[⟨1, 0, [], []⟩], .list [1000]⟩, ⟨[], .none⟩] := by
  refine ⟨by simp [ExitsMatched], by decide⟩
example : silencedAfter [.enterSilent, .setSilent false] = false ∧
    silencedAfter [.setSilent true, .enterSilent, .setSilent false, .exitSilent] = true ∧
    silencedAfter [.enterSilent, .enterSilent, .exitSilent] = true ∧
    silencedAfter [.enterSilent, .enterSilent, .exitSilent, .exitSilent] = false := by decide
-- a connect whose function name does not start with `on_` raises and registers nothing
example : connectCb ⟨"spam", none, none, 1, none, false⟩ = none ∧
    connectCb ⟨"on_", none, none, 1, none, false⟩ = none ∧
    connectCb ⟨"on_my_event", none, some 2, 1, none, true⟩ = some ⟨"my_event", some 2, 1, none, true⟩ := by decide
example : (rrun RState.init [.setMax 1, .increment, .reset none, .increment]).map (·.2.2.2.complete)
    = [false, true, false, true] := by decide
-- unconnect by callback removes every registration of that callback (plain and bound method), by object the
-- registrations filtered on it and the bound methods of it; a reset in between forgets everything before
example : registeredFwd
    [.connect ⟨"on_e0", none, none, 0, none, false⟩, .connect ⟨"cb1", some "e0", some 0, 1, none, false⟩,
     .connect ⟨"on_e0", none, some 1, 1, some 8, true⟩, .connect ⟨"cb2", some "e0", none, 2, some 7, true⟩,
     .unconnect [.cb 1], .connect ⟨"spam", none, none, 0, none, false⟩, .unconnect [.obj 7],
     .connect ⟨"cb1", some "e1", some 0, 1, none, false⟩]
    = [⟨"e0", none, 0, none, false⟩, ⟨"e1", some 0, 1, none, false⟩] ∧
  registeredFwd [.connect ⟨"on_e0", none, none, 0, none, false⟩, .reset,
     .connect ⟨"cb1", some "e0", some 0, 1, none, false⟩, .unconnect [.obj 0]] = [] ∧
  hits [.obj 7, .cb 1] ⟨"e0", none, 2, some 7, true⟩ = true ∧
  hits [.obj 7, .cb 1] ⟨"e0", some 1, 0, none, false⟩ = false := by decide
example : connectRets [.connect ⟨"on_e0", none, none, 3, none, false⟩, .reset,
    .connect ⟨"spam", none, none, 4, none, false⟩, .connect ⟨"spam", some "e", none, 4, none, true⟩]
    = [some 3, none, some 4] := by decide
-- a fresh reporter "is complete" (0 ≥ 0) without ever having announced; lowering the maximum keeps the flag
example : (rrun RState.init [.setMax 2, .increment, .increment, .setMax 1, .setValue 0]).map
      (fun t => (t.2.2.1.completed, isComplete t.2.2.1, t.2.2.2.printed))
    = [(false, false, []), (false, false, [.progress 1 2]), (true, true, [.progress 2 2, .complete]),
       (true, true, []), (false, false, [.progress 0 1])] ∧
  (rrun RState.init [.setMax 2, .increment, .increment, .setMax 1, .setValue 0]).map (fun t => valueSet t.1 t.2.1)
    = [none, some 1, some 2, none, some 0] ∧
  isComplete RState.init = true ∧ progressFrac RState.init = none ∧
  (rstep RState.init (.setValue 3)).2.printed = [.complete] ∧
  progressFrac (rstep ⟨0, 2, false⟩ (.setValue 3)).1 = some (3, 2) := by decide

/-- Connecting a callback that is not registered yet and unconnecting it again (by callback) restores the emitter state
EXACTLY — registrations of every event in their order, silence flag, open `silent()` frames —, whether the `connect`
registered it or raised `ValueError`; every later history therefore runs as if the pair had not happened
(`connect_unconnect_invisible`).  The freshness hypothesis is needed: `unconnect(f)` removes EVERY registration of `f`,
so with an earlier registration of the same function the pair removes that one too (example below). -/
theorem connect_unconnect_inverse (result : Call → Nat) (st : EState) (r : ConnReq)
    (hfresh : ∀ c ∈ st.cbs, c.id ≠ r.id) :
    (estep result (estep result st (.connect r)).1 (.unconnect [.cb r.id])).1 = st :=
  Lemmas.connect_unconnect_inverse result st r hfresh

/-- … and so the pair is invisible to every continuation: same emit outcomes for every later history. -/
theorem connect_unconnect_invisible (result : Call → Nat) (st : EState) (r : ConnReq) (ops : List EOp)
    (hfresh : ∀ c ∈ st.cbs, c.id ≠ r.id) :
    erun result st (.connect r :: .unconnect [.cb r.id] :: ops) = erun result st ops := by
  have h := Lemmas.connect_unconnect_inverse result st r hfresh
  cases hc : connectCb r <;> simp only [erun, estep, hc] at h ⊢ <;> rw [h]

/-! Non-vacuity: a fresh callback; and why freshness is needed -/
example :
    let st : EState := ⟨[⟨"a", none, 1, none, false⟩, ⟨"b", some 4, 2, none, true⟩], true, [false]⟩
    (estep (fun _ => 0) (estep (fun _ => 0) st (.connect ⟨"on_a", none, none, 3, none, false⟩)).1 (.unconnect [.cb 3])).1.cbs
      = st.cbs ∧
    (estep (fun _ => 0) (estep (fun _ => 0) st (.connect ⟨"on_a", none, none, 1, none, false⟩)).1 (.unconnect [.cb 1])).1.cbs
      = [⟨"b", some 4, 2, none, true⟩] := by decide

end PhyVerif.C19
