import PhyVerif.Model.C05
import PhyVerif.Model.C05b
import PhyVerif.Spec.C05
import PhyVerif.Lemmas.C05
import PhyVerif.Lemmas.C05b
import PhyVerif.Spec.C09b
/-!
# C05 — template records are aligned with their channel list (dense and sparse storage)
Only property theorems + non-vacuity examples; proofs in `Lemmas/C05.lean`.
-/
namespace PhyVerif.C05
open PhyVerif PhyVerif.C09

/-- Dense storage, automatic channel selection: the record lists distinct channels in order of
non-increasing peak-to-peak amplitude, the first one (and the reported best channel) attaining the
maximum; column j is the waveform on listed channel j and amplitude j its peak-to-peak; a channel
is listed iff it reaches the threshold fraction of the peak, lies on the best channel's shank and
is among the nearest channels of the best channel (determined whenever there is no distance tie
exactly at the cut; with a tie, `nearCountOK`: the listed channels are the eligible ones of a set of EXACTLY
`n_closest` nearest channels — not more of the tied channels than such a set holds, and no eligible one left
out that every such set would have to hold). -/
theorem dense_record_ok (g : Geometry) (T : Mat) (thr : Rat) (hwf : DenseWF g T)
    (h0 : 0 ≤ thr) (h1 : thr ≤ 1) :
    let (ids, amp, best) := findBestChannels g T thr
    denseOK g T thr ⟨T.map fun row => ids.map fun c => row.getD c 0, ids, amp, best⟩ = true :=
  Lemmas.dense_record_ok g T thr hwf h0 h1

/-- `get_template` on dense storage, automatic channel selection, exact arithmetic (`_get_template_dense`, model.py:898-925): the record
RETURNED by `_get_template_dense` for the (optionally unwhitened) waveform satisfies the C05 predicate `denseOK` of
that waveform (the composition of `dense_record_ok` with the definition of `getTemplateDense`; the unfolding itself
is `Lemmas.getTemplateDense_auto`).  `hwf`: shape of the waveform the record is built from (`unwhiten_entry` says
what its entries are). -/
theorem getTemplateDense_auto (g : Geometry) (wmi : Mat) (sc : Rat) (Tw : Mat) (thr : Rat) (unwh : Bool)
    (hwf : DenseWF g (if unwh then unwhiten wmi sc Tw none else Tw)) (h0 : 0 ≤ thr) (h1 : thr ≤ 1) :
    denseOK g (if unwh then unwhiten wmi sc Tw none else Tw) thr
      (getTemplateDense g wmi sc Tw none thr unwh) = true := by
  rw [Lemmas.getTemplateDense_auto]
  exact Lemmas.dense_record_ok g _ thr hwf h0 h1

/-- What "unwhitened" means, entry by entry (model.py:753-760): sample `s`, channel `j` of the unwhitened waveform
is `(Σ_k x[s, k] · wmi[k, j]) · template_scaling` (`template_scaling` of params.py, 1 when absent).  `hrow`: a
row of `x` whose length is not the number of rows of `wmi` makes the real code raise (AssertionError,
model.py:758). -/
theorem unwhiten_entry (wmi : Mat) (sc : Rat) (x : Mat) (s j : Nat) (hs : s < x.length)
    (hj : j < ncols wmi) (hrow : (x.getD s []).length = wmi.length) :
    entry (unwhiten wmi sc x none) s j = (sumTo wmi.length fun k => entry x s k * entry wmi k j) * sc :=
  Lemmas.unwhiten_entry wmi sc x s j hs hj hrow

/-- Sparse storage unwhitens on the sub-matrix of the kept channels `ch`: column `j` of the result belongs to
channel `ch[j]` and `unwhiten(x, ch)[s, j] = (Σ_k x[s, k] · wmi[ch[k], ch[j]]) · template_scaling`.
`hch`: every kept channel indexes a row and a column of the inverse whitening matrix — with a channel id beyond it
the real `wmi[np.ix_(ch, ch)]` raises IndexError (model.py:767), while the totalised `entry` of the model would read 0. -/
theorem unwhiten_entry_sub (wmi : Mat) (sc : Rat) (x : Mat) (ch : List Nat) (s j : Nat) (hs : s < x.length)
    (hj : j < ch.length) (hrow : (x.getD s []).length = ch.length)
    (_hch : ∀ c ∈ ch, c < wmi.length ∧ c < ncols wmi) :
    entry (unwhiten wmi sc x (some ch)) s j =
      (sumTo ch.length fun k => entry x s k * entry wmi (ch.getD k 0) (ch.getD j 0)) * sc :=
  Lemmas.unwhiten_entry_sub wmi sc x ch s j hs hj hrow

/-- Dense storage, caller's explicit channel list (any list, the empty one included): returned list = caller's
list, column j the waveform on listed channel j, amplitude j that column's peak-to-peak. -/
theorem dense_explicit_ok (g : Geometry) (wmi : Mat) (sc : Rat) (Tw : Mat) (l : List Nat) (thr : Rat) (unwh : Bool)
    (hwf : DenseWF g (if unwh then unwhiten wmi sc Tw none else Tw))
    (hl : ∀ c ∈ l, c < ncols (if unwh then unwhiten wmi sc Tw none else Tw)) :
    denseExplicitOK (if unwh then unwhiten wmi sc Tw none else Tw) l
      (getTemplateDense g wmi sc Tw (some l) thr unwh) = true :=
  Lemmas.dense_explicit_ok g wmi sc Tw l thr unwh hwf hl

/-- Sparse storage: listed channels are the stored ones minus unused and signal-free ones (`keptCols`, spelled out
in `sparse_listed_iff`), ordered by non-increasing amplitude, peak first, columns and amplitudes aligned with
them; the waveform is unwhitened on the kept sub-matrix.  `m` is the table's "−1" (`minusOne`: −1 in a signed
table, the all-ones value in an unsigned one).  `hdist`: a channel stored twice in one row is outside the
property (which column would be "the template on that channel"?); the real code then lists it twice.
`hk`: at least one stored column is in use and carries signal.  Otherwise there is NO record: the real code raises
ValueError (`template_max.max()` of an empty array when no column is in use, model.py:944; `np.argmax` of an empty
amplitude vector when every column in use is all-zero, model.py:956), while the model would return the empty record
with `best = 0` (`sparse_raises_of_no_signal` says which inputs these are; `sparseRaises`, driver field `raises`,
compared with the real outcome by the harness).
Arithmetic: the model is exact (`Rat`), the real code casts the waveform (`template.astype(np.float32)`, model.py:951)
and subtracts in single precision (`max − min`, model.py:955).  `hf`: the kept (unwhitened) waveform consists of float32
values (the cast is the identity on it); `hp`: every kept column's exact peak-to-peak is a float32 value — then the
model's amplitude vector IS the rounded one (second conjunct: every reported amplitude is a float32 value).  Outside
`hf`/`hp` the statement says nothing about the real record (same gap as `dense_f32_record_ok`, where the cast is
modelled); the harness generates sparse datasets inside them (small integers × dyadic gains). -/
theorem sparse_record_ok (wmi : Mat) (sc : Rat) (Tw : Mat) (cols : List Int) (m : Int) (unwh : Bool)
    (hrect : ∀ row ∈ Tw, row.length = cols.length) (hT : Tw ≠ [])
    (hcols : ∀ c ∈ cols, c = m ∨ 0 ≤ c) (hdist : (cols.filter (· ≠ m)).Nodup)
    (_hk : keptCols Tw cols m ≠ [])
    (_hf : let keep := keptCols Tw cols m
           let ch := keep.map fun j => (cols.getD j 0).toNat
           let sub : Mat := Tw.map fun row => keep.map fun j => row.getD j 0
           castF 24 (if unwh then unwhiten wmi sc sub (some ch) else sub)
             = (if unwh then unwhiten wmi sc sub (some ch) else sub))
    (hp : ∀ j, j < (keptCols Tw cols m).length →
      roundNE 24 (ptp (col (if unwh then unwhiten wmi sc
          (Tw.map fun row => (keptCols Tw cols m).map fun j => row.getD j 0)
          (some ((keptCols Tw cols m).map fun j => (cols.getD j 0).toNat))
        else Tw.map fun row => (keptCols Tw cols m).map fun j => row.getD j 0) j))
      = ptp (col (if unwh then unwhiten wmi sc
          (Tw.map fun row => (keptCols Tw cols m).map fun j => row.getD j 0)
          (some ((keptCols Tw cols m).map fun j => (cols.getD j 0).toNat))
        else Tw.map fun row => (keptCols Tw cols m).map fun j => row.getD j 0) j)) :
    (let keep := keptCols Tw cols m
     let ch := keep.map fun j => (cols.getD j 0).toNat
     let sub : Mat := Tw.map fun row => keep.map fun j => row.getD j 0
     sparseOK ch (if unwh then unwhiten wmi sc sub (some ch) else sub)
       (getTemplateSparse wmi sc Tw cols m unwh) = true) ∧
    ∀ a ∈ (getTemplateSparse wmi sc Tw cols m unwh).amplitude, roundNE 24 a = a :=
  ⟨Lemmas.sparse_record_ok wmi sc Tw cols m unwh hrect hT hcols hdist,
   Lemmas.sparse_amp_exact wmi sc Tw cols m unwh 24 hp⟩

/-- Sparse storage, "the stored channels minus unused (−1) and signal-free ones": channel `c` is listed iff some
stored column `j` holds it, is in use (`cols[j] ≠ m`) and carries signal — its largest absolute value exceeds
`1e-6` of the largest absolute value over the columns IN USE (`usedMax_spec`: that reference value is attained on a
used column and bounds every used column; what an unused column holds does not enter).  `hk`: some column is kept
(otherwise the real code raises and lists nothing, see `sparse_record_ok`). -/
theorem sparse_listed_iff (wmi : Mat) (sc : Rat) (Tw : Mat) (cols : List Int) (m : Int) (unwh : Bool) (c : Nat)
    (_hk : keptCols Tw cols m ≠ []) :
    c ∈ (getTemplateSparse wmi sc Tw cols m unwh).channels ↔
      ∃ j, j < cols.length ∧ (cols.getD j 0).toNat = c ∧ cols.getD j 0 ≠ m ∧
        colAbsMax Tw j > listMax ((usedCols cols m).map (colAbsMax Tw)) * (1 / 1000000) :=
  Lemmas.sparse_listed_iff wmi sc Tw cols m unwh c

/-- The inputs on which `_get_template_sparse` has no record (the real code raises ValueError, see `sparse_record_ok`):
no stored column is kept iff every column IN USE is all-zero (in particular when no column is in use). -/
theorem sparse_raises_of_no_signal (Tw : Mat) (cols : List Int) (m : Int) :
    sparseRaises Tw cols m = true ↔ ∀ j ∈ usedCols cols m, colAbsMax Tw j = 0 :=
  Lemmas.sparse_raises_of_no_signal Tw cols m

theorem usedMax_spec (Tw : Mat) (cols : List Int) (m : Int) (h : usedCols cols m ≠ []) :
    (∃ j ∈ usedCols cols m, colAbsMax Tw j = listMax ((usedCols cols m).map (colAbsMax Tw))) ∧
    ∀ j ∈ usedCols cols m, colAbsMax Tw j ≤ listMax ((usedCols cols m).map (colAbsMax Tw)) :=
  Lemmas.usedMax_spec Tw cols m h

/-- Floating-point path of an unwhitened dense request (model.py:908, `self._unwhiten(template_w).astype(np.float32)`):
the record is the C05 record OF THE SINGLE PRECISION WAVEFORM `denseF32Input` — listed channels, their order, the
amplitude vector and the columns all refer to the rounded waveform that is returned (not to the double precision
product).  `hwf`: shape of the rounded waveform (the cast keeps the shape of the stored template).
`hp`: the model's amplitude vector is the EXACT peak-to-peak of the float32 values, the real one the ROUNDED float32
subtraction `template.max(axis=0) - template.min(axis=0)` (model.py:858, 915); they are the same vector exactly when every
channel's exact peak-to-peak is a float32 value (`ptpExactF 24`).  Outside `hp` (e.g. the waveform `[[16777216], [-1]]`:
exact 16777217, NumPy 16777216) the statement says nothing about the real record, and the harness gives no verdict
(driver field `ptp_exact`).  Second conjunct: under `hp` every reported amplitude is a float32 value. -/
theorem dense_f32_record_ok (g : Geometry) (wmi : Mat) (sc : Rat) (Tw : Mat) (thr : Rat)
    (hwf : DenseWF g (denseF32Input wmi sc Tw)) (h0 : 0 ≤ thr) (h1 : thr ≤ 1)
    (hp : ptpExactF 24 (denseF32Input wmi sc Tw) = true) :
    denseOK g (denseF32Input wmi sc Tw) thr (getTemplateDenseF32 g wmi sc Tw none thr) = true ∧
    ∀ a ∈ (getTemplateDenseF32 g wmi sc Tw none thr).amplitude, roundNE 24 a = a := by
  have h := Lemmas.dense_record_ok g (denseF32Input wmi sc Tw) thr hwf h0 h1
  unfold getTemplateDenseF32
  rw [Lemmas.getTemplateDense_auto]
  exact ⟨h, Lemmas.findBest_amp_exact g (denseF32Input wmi sc Tw) thr 24 hp⟩

/-- the same with the caller's explicit channel list (`hp` as in `dense_f32_record_ok`) -/
theorem dense_f32_explicit_ok (g : Geometry) (wmi : Mat) (sc : Rat) (Tw : Mat) (l : List Nat) (thr : Rat)
    (hwf : DenseWF g (denseF32Input wmi sc Tw)) (hl : ∀ c ∈ l, c < ncols (denseF32Input wmi sc Tw))
    (hp : ptpExactF 24 (denseF32Input wmi sc Tw) = true) :
    denseExplicitOK (denseF32Input wmi sc Tw) l (getTemplateDenseF32 g wmi sc Tw (some l) thr) = true ∧
    ∀ a ∈ (getTemplateDenseF32 g wmi sc Tw (some l) thr).amplitude, roundNE 24 a = a :=
  ⟨Lemmas.dense_explicit_ok g wmi sc (denseF32Input wmi sc Tw) l thr false hwf hl,
   Lemmas.explicit_amp_exact g wmi sc (denseF32Input wmi sc Tw) l thr 24 hwf hl hp⟩

/-- the casts keep the shape -/
theorem castF_shape (p : Nat) (M : Mat) :
    (castF p M).length = M.length ∧ ∀ i, ((castF p M).getD i []).length = (M.getD i []).length := by
  constructor
  · simp [castF]
  · intro i
    simp only [castF, List.getD_eq_getElem?_getD, List.getElem?_map]
    cases M[i]? <;> simp

/-! Non-vacuity -/
-- float32(1/3), float64(1/10), ties to even at 2^24 + 1 and 2^24 + 3, a negative value, an exactly representable one
example : roundNE 24 (1/3) = 11184811 / 33554432 ∧ roundNE 53 (1/10) = 3602879701896397 / 36028797018963968 ∧
    roundNE 24 16777217 = 16777216 ∧ roundNE 24 16777219 = 16777220 ∧ roundNE 24 (-16777219) = -16777220 ∧
    roundNE 24 (5/8) = 5/8 ∧ roundNE 24 0 = 0 ∧ roundNE 24 33554435 = 33554436 := by decide +kernel
-- inverse whitening 1/0.7 (as a double): the double precision products of channels 0 and 1 have peak-to-peak
-- 8.9085708345... > 8.9085704939..., their single precision roundings 8.90857029 < 8.90857124: the record lists
-- channel 1 BEFORE channel 0 (order of the returned columns), after the peak channel 2
example :
    let w : Rat := 6433713753386423 / 4503599627370496
    let g : Geometry := ⟨[(0, 0), (0, 20), (0, 41)], none, 3⟩
    let Tw : Mat := [[14416054 / 4194304, 12173928 / 4194304, 8], [-11739624 / 4194304, -13981749 / 4194304, -8]]
    (getTemplateDenseF32 g [[w, 0, 0], [0, w, 0], [0, 0, w]] 1 Tw none 0).channels = [2, 1, 0] ∧
    (getTemplateDense g [[w, 0, 0], [0, w, 0], [0, 0, w]] 1 Tw none 0 true).channels = [2, 0, 1] := by decide +kernel
-- item: the hypotheses of `dense_f32_record_ok` on a non-dyadic gain (hp holds), and the reviewer's waveform where hp fails
example :
    let w : Rat := 6433713753386423 / 4503599627370496
    ptpExactF 24 (denseF32Input [[w, 0], [0, w]] 1 [[3, 4], [-3, -4], [1, 0]]) = true ∧
    ptpExactF 24 (denseF32Input [[1]] 1 [[16777216], [-1]]) = false ∧
    (getTemplateDenseF32 ⟨[(0, 0)], none, 1⟩ [[1]] 1 [[16777216], [-1]] none 0).amplitude = [16777217] := by decide +kernel
-- sparse: a record exists (hk) / does not exist (no column in use; every column in use all-zero)
example : keptCols [[1, 6, 0, 3], [-1, 0, 0, 3]] [2, 0, -1, 1] (-1) = [0, 1, 3] ∧
    sparseRaises [[1, 6, 0, 3], [-1, 0, 0, 3]] [2, 0, -1, 1] (-1) = false ∧
    sparseRaises [[1, 2], [0, 0]] [-1, -1] (-1) = true ∧ sparseRaises [[0, 0, 7], [0, 0, 7]] [3, 4, -1] (-1) = true := by
  decide +kernel
-- the hypotheses `hk`, `hf`, `hp` of `sparse_record_ok` on the unwhitened example record below (gains 1, 2, 4)
example :
    let Tk := unwhiten [[1, 0, 0], [0, 2, 0], [0, 0, 4]] 1 [[1, 6, 3], [-1, 0, 3]] (some [2, 0, 1])
    keptCols [[1, 6, 0, 3], [-1, 0, 0, 3]] [2, 0, -1, 1] (-1) = [0, 1, 3] ∧ castF 24 Tk = Tk ∧
    Tk = [[4, 6, 6], [-4, 0, 6]] ∧ ∀ j, j < 3 → roundNE 24 (ptp (col Tk j)) = ptp (col Tk j) := by decide +kernel
-- unwhiten on kept channels [2, 0] of a 3x3 inverse (hch: 2 < 3): [[1, 1]] · [[4, 0], [0, 1]] · 10
example : unwhiten [[1, 0, 0], [0, 2, 0], [0, 0, 4]] 10 [[1, 1]] (some [2, 0]) = [[40, 10]] := by decide +kernel
example : oneTermCols [[2, 0], [0, 1/3]] = true ∧ oneTermCols [[1, 1], [0, 1]] = false ∧
    ptpExactF 24 [[16777217], [0]] = false ∧ ptpExactF 24 [[16777216], [0]] = true := by decide +kernel

example :
    -- two shanks: the peak channel 2 is alone on its shank, so only it is listed …
    let g : Geometry := ⟨[(0, 0), (0, 20), (0, 40), (0, 60), (10, 10)], some [0, 0, 1, 0, 0], 3⟩
    let T : Mat := [[1, 5, 9, 0, 2], [0, -3, -9, 1, 2]]
    findBestChannels g T (1/4) = ([2], [18], 2) := by decide +kernel
example :
    -- … and with channel 3 on the other shank instead, channel 1 (amplitude 8 ≥ 18/4, among the 3 nearest) joins it
    let g : Geometry := ⟨[(0, 0), (0, 20), (0, 40), (0, 60), (10, 10)], some [0, 0, 0, 1, 0], 3⟩
    let T : Mat := [[1, 5, 9, 0, 2], [0, -3, -9, 1, 2]]
    findBestChannels g T (1/4) = ([2, 1], [18, 8], 2) := by decide +kernel
example :
    let g : Geometry := ⟨[(0, 0), (0, 20), (0, 40), (0, 60)], none, 3⟩
    let T : Mat := [[1, 5, 9, 0], [0, -3, -9, 1]]
    let r := findBestChannels g T (1/4)
    r = ([2, 1], [18, 8], 2) ∧
    denseOK g T (1/4) ⟨T.map fun row => r.1.map fun c => row.getD c 0, r.1, r.2.1, r.2.2⟩ = true := by
  decide +kernel
example : (getTemplateSparse [[1, 0, 0], [0, 2, 0], [0, 0, 4]] 1 [[1, 6, 0, 3], [-1, 0, 0, 3]] [2, 0, -1, 1] (-1) true).channels
    = [2, 0, 1] := by decide +kernel
-- a distance tie at the cut (channels 1 and 3 both 20 away from the peak channel 2, n_closest = 2): a record may
-- hold either of them, not both and not neither
example :
    let g : Geometry := ⟨[(0, 0), (0, 20), (0, 40), (0, 60)], none, 2⟩
    let T : Mat := [[1, 5, 9, 4], [0, 0, 0, 0]]
    let rec_ (l : List Nat) : Record := ⟨T.map fun row => l.map fun c => row.getD c 0, l, l.map fun c => ptp (col T c), 2⟩
    denseOK g T 0 (rec_ [2, 1]) = true ∧ denseOK g T 0 (rec_ [2, 3]) = true ∧
    denseOK g T 0 (rec_ [2, 1, 3]) = false ∧ denseOK g T 0 (rec_ [2]) = false ∧
    denseBaseOK g T 0 (rec_ [2, 1, 3]) = true ∧ denseBaseOK g T 0 (rec_ [2]) = true := by decide +kernel
-- template_scaling 20, whitening inverse diag(1/2, 2): [[2, 3]] -> [[2*1/2*20, 3*2*20]]
example : unwhiten [[1/2, 0], [0, 2]] 20 [[2, 3]] none = [[20, 120]] := by decide +kernel
-- sparse: an unused column holding a large value does not make channel 5 (1/100000 of the largest USED column) signal-free;
-- channel 7 (1/10000000 of it) is; the unsigned all-ones value is the "-1" of a uint32 table
example : (getTemplateSparse [] 1 [[100, 1 / 100000, 1, 1 / 10000000], [0, 0, -1, 0]] [-1, 5, 6, 7] (-1) false).channels
    = [6, 5] := by decide +kernel
example : minusOne true 32 = 4294967295 ∧ minusOne false 32 = -1 := by decide
example : (getTemplateSparse [] 1 [[100, 3, 1], [0, 0, -1]] [4294967295, 5, 6] (minusOne true 32) false).channels
    = [5, 6] := by decide +kernel

end PhyVerif.C05
