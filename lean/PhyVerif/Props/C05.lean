import PhyVerif.Model.C05
import PhyVerif.Spec.C05
import PhyVerif.Lemmas.C05
/-!
# C05 — template records are aligned with their channel list (dense and sparse storage)
Only property theorems + non-vacuity examples; proofs in `Lemmas/C05.lean`.
-/
namespace PhyVerif.C05
open PhyVerif PhyVerif.C09

/-- Dense storage, automatic channel selection: the record lists distinct channels in order of
non-increasing peak-to-peak amplitude, the first one (and the reported best channel) attaining the
maximum; column j is the waveform on listed channel j and amplitude j its peak-to-peak; a channel
is listed iff it reaches the threshold fraction of the peak, lies on the best channel's shank and
is among the nearest channels of the best channel (determined whenever there is no distance tie
exactly at the cut). -/
theorem dense_record_ok (g : Geometry) (T : Mat) (thr : Rat) (hwf : DenseWF g T)
    (h0 : 0 ≤ thr) (h1 : thr ≤ 1) :
    let (ids, amp, best) := findBestChannels g T thr
    denseOK g T thr ⟨T.map fun row => ids.map fun c => row.getD c 0, ids, amp, best⟩ = true :=
  Lemmas.dense_record_ok g T thr hwf h0 h1

/-- `get_template` on dense storage returns that record for the (optionally unwhitened) waveform. -/
theorem getTemplateDense_auto (g : Geometry) (wmi Tw : Mat) (thr : Rat) (unwh : Bool) :
    getTemplateDense g wmi Tw none thr unwh =
      (let T := if unwh then unwhiten wmi Tw none else Tw
       let r := findBestChannels g T thr
       ⟨T.map fun row => r.1.map fun c => row.getD c 0, r.1, r.2.1, r.2.2⟩) :=
  Lemmas.getTemplateDense_auto g wmi Tw thr unwh

/-- Dense storage, caller's explicit channel list: returned list = caller's list, column j the
waveform on listed channel j, amplitude j that column's peak-to-peak. -/
theorem dense_explicit_ok (g : Geometry) (wmi Tw : Mat) (l : List Nat) (thr : Rat) (unwh : Bool)
    (hwf : DenseWF g (if unwh then unwhiten wmi Tw none else Tw))
    (hl : ∀ c ∈ l, c < ncols (if unwh then unwhiten wmi Tw none else Tw)) :
    denseExplicitOK (if unwh then unwhiten wmi Tw none else Tw) l
      (getTemplateDense g wmi Tw (some l) thr unwh) = true :=
  Lemmas.dense_explicit_ok g wmi Tw l thr unwh hwf hl

/-- Sparse storage: listed channels are the stored ones minus unused (−1) and signal-free ones,
ordered by non-increasing amplitude, peak first, columns and amplitudes aligned with them; the
waveform is unwhitened on the kept sub-matrix. -/
theorem sparse_record_ok (wmi Tw : Mat) (cols : List Int) (unwh : Bool)
    (hrect : ∀ row ∈ Tw, row.length = cols.length) (hT : Tw ≠ [])
    (hcols : ∀ c ∈ cols, c = -1 ∨ 0 ≤ c) (hdist : (cols.filter (· ≠ -1)).Nodup) :
    let k := cols.length
    let tmax := (List.range k).map fun j => listMax ((col Tw j).map fun x => if x < 0 then -x else x)
    let keep := (List.range k).filter fun j =>
      decide (tmax.getD j 0 > listMax tmax * (1 / 1000000)) && cols.getD j 0 != -1
    let ch := keep.map fun j => (cols.getD j 0).toNat
    let sub : Mat := Tw.map fun row => keep.map fun j => row.getD j 0
    sparseOK ch (if unwh then unwhiten wmi sub (some ch) else sub)
      (getTemplateSparse wmi Tw cols unwh) = true :=
  Lemmas.sparse_record_ok wmi Tw cols unwh hrect hT hcols hdist

/-! Non-vacuity -/
example :
    -- two shanks: the peak channel 2 is alone on its shank, so only it is listed …
    let g : Geometry := ⟨[(0, 0), (0, 20), (0, 40), (0, 60), (10, 10)], some [0, 0, 1, 0, 0], 3⟩
    let T : Mat := [[1, 5, 9, 0, 2], [0, -3, -9, 1, 2]]
    findBestChannels g T (1/4) = ([2], [18], 2) := by decide +kernel
example :
    -- … and with channel 3 on the other shank instead, channel 1 (amplitude 8 ≥ 18/4, among the 3 nearest) joins it
    let g : Geometry := ⟨[(0, 0), (0, 20), (0, 40), (0, 60), (10, 10)], some [0, 0, 0, 1, 0], 3⟩
    let T : Mat := [[1, 5, 9, 0, 2], [0, -3, -9, 1, 2]]
    findBestChannels g T (1/4) = ([2, 1], [18, 8], 2) := by decide +kernel
example :
    let g : Geometry := ⟨[(0, 0), (0, 20), (0, 40), (0, 60)], none, 3⟩
    let T : Mat := [[1, 5, 9, 0], [0, -3, -9, 1]]
    let r := findBestChannels g T (1/4)
    r = ([2, 1], [18, 8], 2) ∧
    denseOK g T (1/4) ⟨T.map fun row => r.1.map fun c => row.getD c 0, r.1, r.2.1, r.2.2⟩ = true := by
  decide +kernel
example : (getTemplateSparse [[1, 0, 0], [0, 2, 0], [0, 0, 4]] [[1, 6, 0, 3], [-1, 0, 0, 3]] [2, 0, -1, 1] true).channels
    = [2, 0, 1] := by decide +kernel

end PhyVerif.C05
