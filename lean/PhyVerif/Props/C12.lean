import PhyVerif.Model.C12
import PhyVerif.Spec.C12
import PhyVerif.Lemmas.C12
import PhyVerif.Model.C12b
import PhyVerif.Lemmas.C12b
import PhyVerif.Model.C12c
import PhyVerif.Lemmas.C12c
/-!
# C12 — merged channel and template arrays are block-structured by probe
Only property theorems + non-vacuity examples; proofs in `Lemmas/C12.lean`.
-/
namespace PhyVerif.C12
open PhyVerif

variable {α : Type} [Zero α]

/-- For any number of probes whose channel maps are permutations of `0..nc_k-1`, the running
channel offsets are the summed channel counts of the previous probes. -/
theorem chanOffsets_eq_prefix (maps : List (List Nat)) (h : MapsOK maps) (k : Nat)
    (hk : k < maps.length) :
    (chanOffsets maps).getD k 0 = prefixSum (maps.map List.length) k :=
  Lemmas.chanOffsets_eq_prefix maps h k hk

/-- The channels of probe k form one contiguous block in input order: merged position
`prefix_k + i` holds probe k's map entry i shifted by the block offset, and is labelled k. -/
theorem channels_block (maps : List (List Nat)) (h : MapsOK maps) (k i : Nat)
    (hi : i < (maps.getD k []).length) :
    (mergeChannelMaps maps).getD (prefixSum (maps.map List.length) k + i) 0 =
        (maps.getD k []).getD i 0 + prefixSum (maps.map List.length) k ∧
    (channelProbes maps).getD (prefixSum (maps.map List.length) k + i) maps.length = k ∧
    (mergeChannelMaps maps).length = (maps.map List.length).sum ∧
    (channelProbes maps).length = (maps.map List.length).sum :=
  Lemmas.channels_block maps h k i hi

/-- The same block layout for ARBITRARY channel maps (gaps, dead channels, any raw indices; `MapsOK` not
needed): the channels of probe k are the contiguous block `[prefix_k, prefix_k + nc_k)` of the merged
channel arrays in input order, entry i holding probe k's raw index i shifted by the probe's raw offset
`chanOffsets k` (merge.py:207-214: 0 for the first probe, then 1 + the largest shifted raw index of the
previous probe), labelled k; both merged arrays have one row per input channel. -/
theorem channels_block_gapped (maps : List (List Nat)) (k i : Nat)
    (hi : i < (maps.getD k []).length) :
    (mergeChannelMaps maps).getD (prefixSum (maps.map List.length) k + i) 0 =
        (maps.getD k []).getD i 0 + (chanOffsets maps).getD k 0 ∧
    (channelProbes maps).getD (prefixSum (maps.map List.length) k + i) maps.length = k ∧
    (mergeChannelMaps maps).length = (maps.map List.length).sum ∧
    (channelProbes maps).length = (maps.map List.length).sum :=
  Lemmas.channels_block_gapped maps k i hi

/-- … and the merged raw indices of different probes are distinct, for arbitrary (gapped) maps: every
merged raw index of an earlier probe is strictly below every merged raw index of a later probe.
Hypothesis `hne` (every probe has at least one channel): the real code raises `ValueError` at
`array.max()` (merge.py:213) for a probe with an empty `channel_map.npy` (run: 3 probes, the middle one
with 0 channels → ValueError, inputs untouched); the model totalises that maximum as 0, and without `hne`
the statement is false in the model (second example below). -/
theorem raw_indices_apart (maps : List (List Nat)) (hne : ∀ m ∈ maps, m ≠ []) (k l i j : Nat) (hkl : k < l)
    (hi : i < (maps.getD k []).length) (hj : j < (maps.getD l []).length) :
    (mergeChannelMaps maps).getD (prefixSum (maps.map List.length) k + i) 0 <
      (mergeChannelMaps maps).getD (prefixSum (maps.map List.length) l + j) 0 :=
  Lemmas.raw_indices_apart maps hne k l i j hkl hi hj

/-- Consequently, when no probe lists a raw channel twice, no raw index occurs twice in the merged
`channel_map.npy` — whatever gaps the maps have. -/
theorem merged_channel_map_nodup (maps : List (List Nat)) (hne : ∀ m ∈ maps, m ≠ [])
    (hnd : ∀ m ∈ maps, m.Nodup) : (mergeChannelMaps maps).Nodup :=
  Lemmas.merged_channel_map_nodup maps hne hnd

/-- Geometry: every probe keeps its positions up to a translation along x … -/
theorem positions_translated (pos : List (List (Int × Int))) (k : Nat) :
    ∃ dx : Int, (shiftPositionsFrom 0 pos).getD k [] = (pos.getD k []).map fun xy => (xy.1 + dx, xy.2) :=
  Lemmas.positions_translated pos k

/-- … that keeps different probes apart: every channel of an earlier probe lies strictly to the
left of every channel of a later probe. -/
theorem positions_apart (pos : List (List (Int × Int))) (h : PosOK pos) (k l : Nat) (hkl : k < l) :
    ∀ a ∈ (shiftPositionsFrom 0 pos).getD k [], ∀ b ∈ (shiftPositionsFrom 0 pos).getD l [], a.1 < b.1 :=
  Lemmas.positions_apart pos h k l hkl

/-- Templates: template t of probe k appears at index `toff_k + t` (toff = summed template counts)
with its waveform on probe k's channel block and zeros on all other channels — for any number of
probes with any channel and template counts. -/
theorem templates_block (ts : List (List (List (List α)))) (ns : Nat) (ncs : List Nat)
    (hok : ∀ k (hk : k < ts.length), TmplOK (ts[k]'hk) ns (ncs.getD k 0))
    (k t s c : Nat) (hk : k < ts.length) (ht : t < (ts[k]'hk).length) :
    get3 (mergeTemplates ts) (prefixSum (ts.map List.length) k + t) s c =
      if prefixSum ncs k ≤ c ∧ c < prefixSum ncs k + ncs.getD k 0
      then get3 (ts[k]'hk) t s (c - prefixSum ncs k) else 0 :=
  Lemmas.templates_block ts ns ncs hok k t s c hk ht

/-- Index tables are shifted by the per-probe offsets and concatenated in probe order. -/
theorem tables_shifted (tables : List (List (List Nat))) (offsets : List Nat)
    (hlen : offsets.length = tables.length) (k r c : Nat)
    (hr : r < (tables.getD k []).length) :
    ((shiftTables tables offsets).getD (prefixSum (tables.map List.length) k + r) []).getD c 0 =
      if c < ((tables.getD k []).getD r []).length
      then ((tables.getD k []).getD r []).getD c 0 + offsets.getD k 0 else 0 :=
  Lemmas.tables_shifted tables offsets hlen k r c hr

/-- Channel-index tables (`pc_feature_ind`) land in the merged channel numbering for ANY channel maps
(gaps, arbitrary raw indices): entry `c` of a row of probe `k` that names one of the probe's
channels (`c < |map k|`) becomes a row of the merged channel table that is labelled with probe `k`
and holds exactly the (shifted) raw channel the entry named. -/
theorem pc_ind_in_block (maps : List (List Nat)) (tables : List (List (List Nat))) (k r j : Nat)
    (hk : k < maps.length) (hlen : tables.length = maps.length)
    (hr : r < (tables.getD k []).length) (hj : j < ((tables.getD k []).getD r []).length)
    (hc : ((tables.getD k []).getD r []).getD j 0 < (maps.getD k []).length) :
    let c := ((tables.getD k []).getD r []).getD j 0
    let c' := ((mergePcInd maps tables).getD (prefixSum (tables.map List.length) k + r) []).getD j 0
    c' = prefixSum (maps.map List.length) k + c ∧
    (channelProbes maps).getD c' maps.length = k ∧
    (mergeChannelMaps maps).getD c' 0 = (maps.getD k []).getD c 0 + (chanOffsets maps).getD k 0 :=
  Lemmas.pc_ind_in_block maps tables k r j hk hlen hr hj hc

/-- Template-index tables (`template_feature_ind`) land in the merged template numbering, with the
merger's own template offsets (C11): an entry naming template `c` of probe `k` becomes `c + offset_k`,
which lies in probe `k`'s block of merged template ids and in no other probe's block. -/
theorem tf_ind_in_block (ids : List (List Nat)) (counts : List Nat) (tables : List (List (List Nat)))
    (k r j : Nat) (hk : k < ids.length) (hlenc : counts.length = ids.length) (hlent : tables.length = ids.length)
    (hr : r < (tables.getD k []).length) (hj : j < ((tables.getD k []).getD r []).length)
    (hc : ((tables.getD k []).getD r []).getD j 0 < (C11.templateSizes ids counts).getD k 0) :
    let c := ((tables.getD k []).getD r []).getD j 0
    let c' := ((mergeTfInd ids counts tables).getD (prefixSum (tables.map List.length) k + r) []).getD j 0
    let off := fun i => (C11.templateOffsets ids counts).getD i 0
    let size := fun i => (C11.templateSizes ids counts).getD i 0
    c' = c + off k ∧ off k ≤ c' ∧ c' < off k + size k ∧
    ∀ l, l < ids.length → l ≠ k → ¬ (off l ≤ c' ∧ c' < off l + size l) :=
  Lemmas.tf_ind_in_block ids counts tables k r j hk hlenc hlent hr hj hc

/-- Whitening / similarity matrices: block-diagonal with the per-probe matrices as blocks. -/
theorem blockDiag_entries (ms : List (List (List α))) (hsq : ∀ m ∈ ms, ∀ row ∈ m, row.length = m.length)
    (k i j : Nat) (hi : i < (ms.getD k []).length) :
    get2 (blockDiag ms) (prefixSum (ms.map List.length) k + i) j =
      if prefixSum (ms.map List.length) k ≤ j ∧ j < prefixSum (ms.map List.length) k + (ms.getD k []).length
      then get2 (ms.getD k []) i (j - prefixSum (ms.map List.length) k) else 0 :=
  Lemmas.blockDiag_entries ms hsq k i j hi

/-- Optional matrices (`similar_templates.npy`, `whitening_mat.npy`, `whitening_mat_inv.npy`,
merge.py:272-283) present in only SOME probes: the merged file is skipped exactly when at least one probe
lacks the file (`none` = no such file in that probe's directory) … -/
theorem optional_skipped_iff (ms : List (Option (List (List α)))) :
    mergeOptional ms = none ↔ none ∈ ms :=
  Lemmas.optional_skipped_iff ms

/-- … and it is written exactly when every probe has it, as the block-diagonal matrix of the per-probe
matrices in probe order (entries: `blockDiag_entries`). -/
theorem optional_written (ms : List (Option (List (List α)))) (M : List (List α)) :
    mergeOptional ms = some M ↔ ∃ l, ms = l.map some ∧ M = blockDiag l :=
  Lemmas.optional_written ms M

/-- Merged parameters keep the (first probe's) sampling rate and declare the summed raw channel
count. -/
theorem params_ok (p : Nat × Nat) (rest : List (Nat × Nat)) :
    mergeParams (p :: rest) = some (p.1, p.2 + (rest.map (·.2)).sum) :=
  Lemmas.params_ok p rest

/-! Non-vacuity -/
example : chanOffsets [[2, 0, 3, 1], [1, 0, 2, 5, 4, 3], [0, 4, 1, 3, 2]] = [0, 4, 10] := by decide
example : mergeChannelMaps [[2, 0, 3, 1], [1, 0], [0, 2, 1]] = [2, 0, 3, 1, 5, 4, 6, 8, 7] := by decide
example : MapsOK [[2, 0, 3, 1], [1, 0], [0, 2, 1]] := by
  intro m hm; simp at hm; rcases hm with rfl | rfl | rfl <;> exact ⟨by decide, by decide⟩
example : mergePositions [[(0, 0), (10, 5)], [(0, 0), (10, 5)], [(5, 1), (7, 2)]] =
    [(0, 0), (10, 5), (20, 0), (30, 5), (45, 1), (47, 2)] := by decide
-- the model's coordinates are `Int`s of any size: site coordinates in nanometres (beyond the 24 bits of single
-- precision, what an integer `channel_positions.npy` holds exactly) are translated exactly, y untouched
example : mergePositions [[(11000007, 2000000013), (59000009, 2020000041)], [(27000031, 2000000005), (43000002, 2040000047)]] =
    [(11000007, 2000000013), (59000009, 2020000041), (134000042, 2000000005), (150000013, 2040000047)] := by decide
-- the hypothesis `PosOK` (two distinct x per probe) of `positions_apart` cannot be dropped: probes whose
-- channels share one x are NOT kept apart (open known finding PF-C12e, replayed on the real code)
example : mergePositions [[(0, 0), (0, 20)], [(0, 0), (0, 20)]] = [(0, 0), (0, 20), (0, 0), (0, 20)] := by decide
example : mergeTemplates [[[[1, 2]], [[3, 4]]], [[[5, 6, 7]]]] =
    ([[[1, 2, 0, 0, 0]], [[3, 4, 0, 0, 0]], [[0, 0, 5, 6, 7]]] : List (List (List Int))) := by decide
example : blockDiag [[[1, 2], [3, 4]], [[5]]] = ([[1, 2, 0], [3, 4, 0], [0, 0, 5]] : List (List Int)) := by decide

-- maps with gaps: blocks in input order, raw indices apart
example : mergeChannelMaps [[1, 3, 0], [7, 2], [5, 0, 9]] = [1, 3, 0, 11, 6, 17, 12, 21] ∧
    chanOffsets [[1, 3, 0], [7, 2], [5, 0, 9]] = [0, 4, 12] := by decide
-- `hne` of `raw_indices_apart` cannot be dropped: an (unloadable) probe without channels resets the offset
example : mergeChannelMaps [[0, 1], [], [0]] = [0, 1, 1] := by decide
example : mergeOptional [some [[1, 2], [3, 4]], some [[5]]] = some ([[1, 2, 0], [3, 4, 0], [0, 0, 5]] : List (List Int)) := by decide
example : mergeOptional [some [[1, 2], [3, 4]], none, some [[5]]] = (none : Option (List (List Int))) := by decide

example : mergePcInd [[1, 3, 0], [3, 1, 2]] [[[0, 2], [2, 1]], [[2, 0], [1, 0]]] = [[0, 2], [2, 1], [5, 3], [4, 3]] := by decide
example : chanOffsets [[1, 3, 0], [3, 1, 2]] = [0, 4] ∧ chanIndexOffsets [[1, 3, 0], [3, 1, 2]] = [0, 3] := by decide

end PhyVerif.C12
