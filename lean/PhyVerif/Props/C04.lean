import PhyVerif.Model.C04
import PhyVerif.Lemmas.C04
import PhyVerif.Model.C04b
import PhyVerif.Lemmas.C04b
import PhyVerif.Model.C04c
import PhyVerif.Spec.C04
import PhyVerif.Spec.C04b
import PhyVerif.Lemmas.C04c
import PhyVerif.Lemmas.C04d
import PhyVerif.Lemmas.C04e
import PhyVerif.Model.C04f
import PhyVerif.Lemmas.C04f
import PhyVerif.Lemmas.C04g
import PhyVerif.Model.C04h
import PhyVerif.Lemmas.C04h
/-!
# C04 — loading a dataset reproduces its files under every supported layout
Only property theorems + non-vacuity examples; proofs in `Lemmas/C04*.lean`.

* `Model/C04.lean` `load`: the array files (`_load_data` up to the similarity matrix);
  `Model/C04c.lean` `loadFull`: the rest (numeric samples/times, shape assertions, positions,
  concrete defaults, extra per-spike attributes, raw traces through the C01/C02 reader models, duration);
  `Model/C04f.lean` `loadFeatures`, `loadTemplateFeatures`: the feature tables.
* `Spec/C04.lean`, `Spec/C04b.lean`: the declarative table of DESIGN §5 C04 (which file wins, which
  transform, which default), written without `findPath`/`readFile`/`load`.
* `load_values` … `load_duration` below: every successful load satisfies the table, attribute by
  attribute, for every directory, in both layouts.
-/
namespace PhyVerif.C04

/-- First matching name wins: the returned file matches some pattern of the list and no earlier
pattern matches any file of the directory. -/
theorem findPath_first_match (d : Dir) (names : List String) (f : String) (h : findPath d names = some f) :
    ∃ i, ∃ hi : i < names.length, globMatch (names[i]'hi) f = true ∧ f ∈ d.map (·.1) ∧
      ∀ j (hj : j < names.length), j < i → ∀ g ∈ d.map (·.1), globMatch (names[j]'hj) g = false :=
  Lemmas.findPath_first_match d names f h

/-- … and when nothing is returned no pattern matches any file. -/
theorem findPath_none (d : Dir) (names : List String) (h : findPath d names = none) :
    ∀ p ∈ names, ∀ g ∈ d.map (·.1), globMatch p g = false :=
  Lemmas.findPath_none d names h

/-- Frame: a successful load leaves every pre-existing file as it was and creates nothing except
the spike-cluster copy and the inverse whitening matrix, each exactly when it was missing. -/
theorem load_frame (inv : Arr → Arr) {one : Cell} (d : Dir) (v : View) (d' : Dir) (h : load inv d one = .ok (v, d')) :
    (∀ name a, d.lookup name = some a → d'.lookup name = some a) ∧
    (∀ name ∈ d'.map (·.1), name ∈ d.map (·.1) ∨ name = "spike_clusters.npy" ∨ name = "whitening_mat_inv.npy") ∧
    (("spike_clusters.npy" ∈ d'.map (·.1) ∧ "spike_clusters.npy" ∉ d.map (·.1)) ↔
      findPath d ["spike_clusters.npy", "spikes.clusters*.npy"] = none) ∧
    (d'.length = d.length +
      (if findPath d ["spike_clusters.npy", "spikes.clusters*.npy"] = none then 1 else 0) +
      (if d.lookup "whitening_mat_inv.npy" = none then 1 else 0)) :=
  Lemmas.load_frame inv d v d' h

/-- Loading rejects non-monotonic spike times (KiloSort layout). -/
theorem load_rejects_nonmonotone (inv : Arr → Arr) {one : Cell} (d : Dir) (s : Arr) (hs : d.lookup "spike_times.npy" = some s)
    (hm : monotone (scrub s).data = false) : load inv d one = .error .nonMonotone :=
  Lemmas.load_rejects_nonmonotone inv d s hs hm

/-- A directory holding both a KiloSort-named and an ALF-named spike-cluster file is not loaded (the
loader accepts only one). -/
theorem load_rejects_two_cluster_files (inv : Arr → Arr) {one : Cell} (d : Dir)
    (h1 : (findPath d ["spike_clusters.npy"]).isSome) (h2 : (findPath d ["spikes.clusters*.npy"]).isSome)
    (v : View) (d' : Dir) : load inv d one ≠ .ok (v, d') :=
  Lemmas.load_rejects_two_cluster_files inv d h1 h2 v d'

/-- NaN/inf are replaced by zero in fully loaded arrays, finite cells and the shape are kept. -/
theorem scrub_spec (a : Arr) :
    (scrub a).shape = a.shape ∧ (scrub a).data.length = a.data.length ∧
    ∀ i (hi : i < a.data.length), (scrub a).data.getD i .nan =
      (match a.data[i]'hi with | .num v => .num v | _ => .num 0) :=
  Lemmas.scrub_spec a

/-- When no spike-cluster file exists the loaded clusters are the loaded templates, and the file
created is a byte copy of the spike-template file. -/
theorem clusters_default (inv : Arr → Arr) {one : Cell} (d : Dir) (v : View) (d' : Dir) (h : load inv d one = .ok (v, d'))
    (hn : findPath d ["spike_clusters.npy", "spikes.clusters*.npy"] = none) :
    v.spikeClusters = v.spikeTemplates ∧
    ∃ f, findPath d ["spike_templates.npy", "spikes.templates*.npy"] = some f ∧
      d'.lookup "spike_clusters.npy" = d.lookup f :=
  Lemmas.clusters_default inv d v d' h hn

/-- **wmi_default** ("the whitening matrix and its inverse … the documented default substituted"; `np.linalg.inv` is
the parameter `inv`, `one` the cell standing for 1.0): when the directory holds no `whitening_mat_inv.npy` the view
carries no stored inverse and the file the loader writes holds exactly what `inv` returned on the whitening matrix WITH
ITS DEFAULT — the matrix the view shows, or `np.eye(nc)` when there is no `whitening_mat.npy` (model.py:438-442,
`nc = channel_map.shape[0]`, model.py:383; `_compute_wmi`, model.py:756-761, returns the same array it writes).  So a
dataset without whitening matrix leaves `inv (eye one nc)` (for the real `inv`: the identity), and the NEXT session
loads it as a stored `(nc, nc)` inverse (examples after `exShow`; the general statement `load_idempotent` is not proved).  (The real code asserts `wm.shape == (nc, nc)` BEFORE it
computes the inverse, model.py:443; `load` does not check shapes — `loadFull` does, and returns no directory then.) -/
theorem wmi_default (inv : Arr → Arr) (one : Cell) (d : Dir) (v : View) (d' : Dir) (h : load inv d one = .ok (v, d'))
    (hn : d.lookup "whitening_mat_inv.npy" = none) :
    v.wmi = none ∧
    d'.lookup "whitening_mat_inv.npy" = some (inv (v.wm.getD (eye one (v.channelMap.shape.headD 0)))) :=
  Lemmas.wmi_default inv d v d' h hn

/-- … and a stored inverse is shown as it is stored (at least 2-D, squeezed, scrubbed); by `load_frame` nothing is
written for it. -/
theorem wmi_stored (inv : Arr → Arr) {one : Cell} (d : Dir) (v : View) (d' : Dir) (h : load inv d one = .ok (v, d'))
    (a : Arr) (ha : d.lookup "whitening_mat_inv.npy" = some a) :
    v.wmi = some (atleast 2 (squeeze (scrub a))) :=
  Lemmas.wmi_stored inv d v d' h a ha

/-- Layout independence: a directory holding only KiloSort/phy-named arrays
and the ALF-named directory holding the same arrays (plus any non-decreasing spike times in seconds)
load to the same samples, amplitudes, templates, clusters, channel tables, waveforms and matrices;
only the time source differs (stored seconds instead of samples over rate). -/
theorem load_layout_independent (inv : Arr → Arr) {one : Cell} (d : Dir) (t : Arr)
    (hks : ∀ n ∈ d.map (·.1), n ∈ ksNames)
    (ht : monotone (scrub t).data = true)
    (v : View) (d' : Dir) (h : load inv d one = .ok (v, d')) :
    ∃ v' d'', load inv (toALF d t) one = .ok (v', d'') ∧
      v'.times = .stored (squeeze (scrub t)) ∧ v'.samples = v.samples ∧
      v'.amplitudes = v.amplitudes ∧ v'.spikeTemplates = v.spikeTemplates ∧
      v'.spikeClusters = v.spikeClusters ∧ v'.channelMap = v.channelMap ∧
      v'.channelPositions = v.channelPositions ∧ v'.channelShanks = v.channelShanks ∧
      v'.channelProbes = v.channelProbes ∧ v'.templates = v.templates ∧
      v'.templateCols = v.templateCols ∧ v'.wm = v.wm ∧ v'.wmi = v.wmi ∧ v'.similar = v.similar :=
  Lemmas.load_layout_independent inv d t hks ht v d' h

/-! ## The declarative table (DESIGN §5 C04) -/

/-- **load_values.**  Every successful load satisfies the table, attribute by attribute: for each of
amplitudes, spike templates, spike clusters, channel map, positions, shanks, probes, template
waveforms, template column table, whitening matrix, its inverse and the similarity matrix, the value
shown is the transform (column "transform") of a file that WINS the first-match search over the
attribute's patterns (column "files, in order") in the ORIGINAL directory `d` — not in the directory
grown by the files the loader creates on the way —, and it is `none` (the documented default is in
force) exactly when no pattern matches any file.  Spike clusters without a cluster file are the
transform of the winning spike-template file; template columns are only looked for when templates
exist.  Holds for every directory (any file names, any number of candidates, both layouts mixed). -/
theorem load_values (inv : Arr → Arr) {one : Cell} (d : Dir) (v : View) (d' : Dir) (h : load inv d one = .ok (v, d')) :
    ∀ a : Attr, Expected d a (v.attr a) :=
  Lemmas.load_values inv d v d' h

/-- The first two rows of the table: spike samples / times come from `spike_times.npy` when it exists
(times = samples over rate), otherwise from the winning `spikes.times*.npy` (seconds as stored) with
the samples of the winning `spikes.samples*.npy` or, without such a file, the rounded times. -/
theorem load_time_sources (inv : Arr → Arr) {one : Cell} (d : Dir) (v : View) (d' : Dir) (h : load inv d one = .ok (v, d')) :
    ExpectedTimes d v.times v.samples :=
  Lemmas.load_times inv d v d' h

/-- `Wins` determines the file as soon as every pattern matches at most one file (the condition
DESIGN §5 puts on well-formed directories: otherwise `glob` order decides in the real loader). -/
theorem wins_unique (d : Dir) (pats : List String) (f g : String) (hu : GlobUnique d pats)
    (hf : Wins d pats f) (hg : Wins d pats g) : f = g :=
  Lemmas.wins_unique d pats f g hu hf hg

/-- Column "when absent = error": a directory without spike templates, channel map or channel
positions (under either name) is not loaded. -/
theorem load_requires_mandatory (inv : Arr → Arr) {one : Cell} (d : Dir) (a : Attr) (hm : a.mandatory = true)
    (ha : Absent d a.files) (v : View) (d' : Dir) : load inv d one ≠ .ok (v, d') :=
  Lemmas.load_requires_mandatory inv d a hm ha v d'

/-! ## Rejection of non-monotonic spike times, ALF layout -/

/-- Loading rejects non-monotonic spike times in the ALF layout too: no `spike_times.npy`, `f` the
(only) file matching `spikes.times*.npy`, its scrubbed seconds not non-decreasing ⇒ `ValueError`.
(The real code raises the same error; a NaN among the seconds is scrubbed to 0 first, so
`[1, NaN, 2]` is rejected as `[1, 0, 2]`.) -/
theorem load_rejects_nonmonotone_alf (inv : Arr → Arr) {one : Cell} (d : Dir) (f : String) (t : Arr)
    (hks : "spike_times.npy" ∉ names d) (hu : GlobUnique d ["spikes.times*.npy"])
    (hw : Wins d ["spikes.times*.npy"] f) (hl : d.lookup f = some t)
    (hm : monotone (scrub t).data = false) : load inv d one = .error .nonMonotone :=
  Lemmas.load_rejects_nonmonotone_alf inv d f t hks hu hw hl hm

/-- what the loader's test `np.all(np.diff(x) >= 0)` decides, on numeric cells -/
theorem monotone_spec (l : List Int) : monotone (l.map Cell.num) = true ↔ NonDecreasing l :=
  Lemmas.monotone_spec l

/-! ## `np.round`: samples recovered from seconds -/

/-- `roundHalfEven q` is within 1/2 of `q` and even whenever `q` lies exactly between two integers -/
theorem roundHalfEven_spec (q : Rat) : IsRoundHalfEven q (roundHalfEven q) :=
  Lemmas.roundHalfEven_spec q

/-- … and it is the only such integer -/
theorem roundHalfEven_unique (q : Rat) (z : Int) (hz : IsRoundHalfEven q z) : roundHalfEven q = z :=
  Lemmas.roundHalfEven_unique q z hz

/-- "samples recovered by rounding": the seconds of sample `s` at any positive rate round back to `s` -/
theorem samples_recovered (rate : Rat) (hr : 0 < rate) (s : Int) :
    roundHalfEven ((s : Rat) / rate * rate) = s :=
  Lemmas.samples_recovered rate hr s

/-- **samples_recovered_of_stored** — "samples recovered by rounding" for the STORED seconds (`samples_recovered`
above is the special case of seconds stored exactly, where the product IS the integer): whenever the stored time `t`
— any rounding of `s / rate` to the stored precision — lies less than half a sample period from sample `s`
(`|t·rate − s| < 1/2`), rounding `t · rate` gives `s`.  For float64 seconds of a recording of any practical length the
hypothesis holds (relative error 2⁻⁵³); for float32 seconds late in a recording it does NOT (spacing 2⁻¹² s = 7 sample
periods at 30 kHz past 512 s): then the samples are the stored seconds times the rate, rounded, which is what
`load_samples_times` states and what the correspondence checks exactly (the product of a float32 and the rate is exact
in double precision; /repo HEAD forms it in single precision: PF-C04c). -/
theorem samples_recovered_of_stored (rate t : Rat) (s : Int)
    (h1 : (s : Rat) - 1 / 2 < t * rate) (h2 : t * rate < (s : Rat) + 1 / 2) :
    roundHalfEven (t * rate) = s :=
  Lemmas.samples_recovered_of_stored rate t s h1 h2

/-- 600.000244140625 s (float32 of 18000007 / 30000) is 0.32 sample periods from sample 18000007 -/
example : roundHalfEven ((600000244140625 : Rat) / 1000000000000 * 30000) = 18000007 := by
  apply samples_recovered_of_stored <;> decide +kernel

/-! ## The full loader `loadFull` -/
section Full
variable {β : Type} (inv : Arr → Arr) (rate : Rat) (tden ncd : Nat) (one : Cell)
  (raw : Option (List (List (List β)))) (d : Dir) (fv : FullView β) (d' : Dir)

/-- the array part of a full load is a `load`: `load_frame`, `load_values`, `clusters_default`, …
apply to `fv.base` and `d'` -/
theorem loadFull_base (h : loadFull inv rate tden ncd one raw d = .ok (fv, d')) :
    load inv d one = .ok (fv.base, d') :=
  Lemmas.loadFull_base inv rate tden ncd one raw d fv d' h

/-- Numeric spike samples and times.  KiloSort layout: the samples are the (scrubbed) cells of
`spike_times.npy` and every time is its sample divided by the rate.  ALF layout: the times are the
stored seconds (token / `tden`); the samples are those of the winning `spikes.samples*.npy` or,
without it, each time multiplied by the rate and rounded half-to-even (`roundHalfEven_spec`). -/
theorem load_samples_times (h : loadFull inv rate tden ncd one raw d = .ok (fv, d')) :
    (∀ s, d.lookup "spike_times.npy" = some s →
      fv.spikeSamples = (scrub s).data.map cellInt ∧
      fv.spikeTimes = fv.spikeSamples.map fun (k : Int) => (k : Rat) / rate) ∧
    ("spike_times.npy" ∉ names d → ∃ f t, Wins d ["spikes.times*.npy"] f ∧ d.lookup f = some t ∧
      fv.spikeTimes = (scrub t).data.map (fun c => (cellInt c : Rat) / (tden : Rat)) ∧
      ((∃ g s, Wins d ["spikes.samples*.npy"] g ∧ d.lookup g = some s ∧
          fv.spikeSamples = (scrub s).data.map cellInt) ∨
       (Absent d ["spikes.samples*.npy"] ∧
          fv.spikeSamples = fv.spikeTimes.map fun x => roundHalfEven (x * rate)))) :=
  Lemmas.loadFull_times inv rate tden ncd one raw d fv d' h

/-- The contrapositive of the rejection, on values: the spike times of every loaded model are
non-decreasing (both layouts).  `rate > 0`: the real constructor asserts it (model.py:338: a negative
`sample_rate` raises AssertionError, `0` / `None` is replaced by 1.0 with a warning); `tden > 0` is
the denominator of the model's seconds tokens. -/
theorem load_times_sorted (h : loadFull inv rate tden ncd one raw d = .ok (fv, d'))
    (hr : 0 < rate) (htd : 0 < tden) :
    ∀ i (hi : i + 1 < fv.spikeTimes.length), fv.spikeTimes[i] ≤ fv.spikeTimes[i + 1] :=
  Lemmas.loadFull_times_sorted inv rate tden ncd one raw d fv d' h hr htd

/-- **load_wmi** (the inverse whitening matrix of a loaded model, with its default — `fv.wmi`, model.py:444-447): a stored
`whitening_mat_inv.npy` is shown as stored (at least 2-D, squeezed, scrubbed) and is left in place; without one the
model holds what `inv` returned on THE WHITENING MATRIX THE MODEL SHOWS (`fv.wm`: the stored matrix or, `load_defaults`,
the identity `(nc, nc)`), and the same array is what the loader wrote to `whitening_mat_inv.npy` — for the real
`np.linalg.inv` and no whitening matrix that is the identity, which the next session reads back as a stored inverse. -/
theorem load_wmi (h : loadFull inv rate tden ncd one raw d = .ok (fv, d')) :
    (∀ a, d.lookup "whitening_mat_inv.npy" = some a →
      fv.wmi = atleast 2 (squeeze (scrub a)) ∧ d'.lookup "whitening_mat_inv.npy" = some a) ∧
    (d.lookup "whitening_mat_inv.npy" = none →
      fv.wmi = inv fv.wm ∧ d'.lookup "whitening_mat_inv.npy" = some (inv fv.wm)) :=
  Lemmas.loadFull_wmi inv rate tden ncd one raw d fv d' h

/-- Rows with a concrete default: shanks and probes are the winning file or zeros `(nc,)`, the
whitening matrix the file or the identity `(nc, nc)`, the similarity matrix the file or zeros
`(nt, nt)` — the default exactly when no pattern matches any file. -/
theorem load_defaults (h : loadFull inv rate tden ncd one raw d = .ok (fv, d')) :
    RowP d Attr.channelShanks.files Attr.channelShanks.transform (IsZeros [fv.nChannels]) fv.channelShanks ∧
    RowP d Attr.channelProbes.files Attr.channelProbes.transform (IsZeros [fv.nChannels]) fv.channelProbes ∧
    RowP d Attr.wm.files Attr.wm.transform (IsEye one fv.nChannels) fv.wm ∧
    RowP d Attr.similar.files Attr.similar.transform (IsZeros [fv.nTemplates, fv.nTemplates]) fv.similar :=
  Lemmas.loadFull_defaults inv rate tden ncd one raw d fv d' h

/-- Channel positions: the winning file when its rows are pairwise distinct, the linear layout
otherwise (model.py:390-393). -/
theorem load_positions (h : loadFull inv rate tden ncd one raw d = .ok (fv, d')) :
    ExpectedPositions d fv.nChannels fv.positions :=
  Lemmas.loadFull_positions inv rate tden ncd one raw d fv d' h

/-- Every loaded array has the documented shape (the `assert`s of `_load_data`): per-spike vectors
`(ns,)`, per-channel tables `(nc,)`, positions `(nc, 2)`, channel ids below `n_channels_dat`,
templates `(nt, nsw, nloc)` with a column table `(nt, nloc)`, matrices `(nc, nc)` / `(nt, nt)`.
A directory violating one of them is not loaded (real code: AssertionError). -/
theorem load_shapes (h : loadFull inv rate tden ncd one raw d = .ok (fv, d')) :
    fv.base.times.arr.shape = [fv.nSpikes] ∧
    fv.base.samples.arr.shape.length = 1 ∧
    (∀ a, fv.base.amplitudes = some a → a.shape = [fv.nSpikes]) ∧
    fv.base.spikeTemplates.shape = [fv.nSpikes] ∧
    fv.base.spikeClusters.shape = [fv.nSpikes] ∧
    fv.base.channelMap.shape = [fv.nChannels] ∧
    (ncd ≠ 0 → ∀ c ∈ fv.base.channelMap.data, cellInt c ≤ (ncd : Int) - 1) ∧
    fv.base.channelPositions.shape = [fv.nChannels, 2] ∧
    fv.channelShanks.shape = [fv.nChannels] ∧
    fv.channelProbes.shape = [fv.nChannels] ∧
    (∀ t, fv.base.templates = some t → ∃ nsw nloc, t.shape = [fv.nTemplates, nsw, nloc] ∧
      ∀ c, fv.templateCols = some c → c.shape = [fv.nTemplates, nloc]) ∧
    fv.wm.shape = [fv.nChannels, fv.nChannels] ∧
    (∀ w, fv.base.wmi = some w → w.shape = [fv.nChannels, fv.nChannels]) ∧
    fv.similar.shape = [fv.nTemplates, fv.nTemplates] :=
  Lemmas.loadFull_shapes inv rate tden ncd one raw d fv d' h

/-- Extra per-spike attributes: attribute `n` with value `x` is shown exactly when the ORIGINAL
directory holds `spike_<n>.npy`, `n` is not a reserved name, `x` is that file scrubbed and squeezed
and its first dimension is the number of spikes (the files created by the loader add nothing).
A `spike_<n>.npy` that squeezes to a 0-d array (one stored value) has no first dimension: it is not shown and
does not stop the load (the loader at /repo HEAD fails there with an uncaught IndexError: PF-C04c). -/
theorem load_spike_attributes (h : loadFull inv rate tden ncd one raw d = .ok (fv, d')) (n : String) (x : Arr) :
    (n, x) ∈ fv.spikeAttributes ↔ IsSpikeAttr d fv.nSpikes n x :=
  Lemmas.loadFull_spike_attributes inv rate tden ncd one raw d fv d' h n x

/-- **load_traces_permuted** (composition with the reader models of C01 and C02):
`model.traces[rows] = raw[rows][:, channel_map]`.  For raw files of `n_channels_dat` columns each
(any number of files of any lengths) and every in-domain row index of C01, indexing the loaded
model's traces returns the rows NumPy returns on the concatenated files, each restricted to the
columns listed by the loaded channel map, in that order: row `r` becomes
`[r[cm[0]], r[cm[1]], …]`, all lookups in range.
Hypotheses: `n_channels_dat` given (`ncd ≠ 0`; with `n_channels_dat = 0` and raw files the real
loader raises AssertionError in `_memmap_flat`, with `None` a TypeError), rectangular raw files (what
`np.memmap` with a shape gives), non-negative channel ids (the real code accepts negative ids too —
they wrap like NumPy indices, `-1` reads the last column of the file — which no dataset writer
produces). -/
theorem load_traces_permuted (parts : List (List (List β)))
    (h : loadFull inv rate tden ncd one (some parts) d = .ok (fv, d')) (hncd : ncd ≠ 0)
    (hrect : ∀ p ∈ parts, ∀ row ∈ p, row.length = ncd)
    (hnn : ∀ c ∈ fv.base.channelMap.data, 0 ≤ cellInt c) (it : C01.Item)
    (hd : C01.InDom parts.flatten.length it) :
    ∃ tr, fv.traces = some tr ∧
      tracesGet parts tr it =
        ((C01.npRows parts.flatten it).map fun rows => rows.map fun row =>
          Np.take row (Lemmas.chans fv.base.channelMap)) ∧
      (∀ c ∈ Lemmas.chans fv.base.channelMap, c < ncd) ∧
      ∀ rows, C01.npRows parts.flatten it = some rows → ∀ row ∈ rows,
        (Np.take row (Lemmas.chans fv.base.channelMap)).length = (Lemmas.chans fv.base.channelMap).length ∧
        ∀ k (hk : k < (Lemmas.chans fv.base.channelMap).length),
          (Np.take row (Lemmas.chans fv.base.channelMap))[k]? = row[(Lemmas.chans fv.base.channelMap)[k]]? :=
  Lemmas.loadFull_traces inv rate tden ncd one d fv d' parts h hncd hrect hnn it hd

/-- A dataset without any template file is loaded only un-curated: the loaded clusters are the loaded
templates.  (With curated clusters the real loader fails — `self.sparse_templates.cols` on `None`,
AttributeError at model.py:419; datasets without templates are outside C04's quantifier.) -/
theorem load_without_templates (h : loadFull inv rate tden ncd one raw d = .ok (fv, d'))
    (ht : fv.base.templates = none) : fv.base.spikeClusters.data = fv.base.spikeTemplates.data :=
  Lemmas.loadFull_uncurated_without_templates inv rate tden ncd one raw d fv d' h ht

/-- Sample count and duration: with raw data the number of rows of the concatenated files and that
number over the rate; without, no traces and the last spike time. -/
theorem load_duration (h : loadFull inv rate tden ncd one raw d = .ok (fv, d')) :
    (∀ parts, raw = some parts → fv.nSamples = some parts.flatten.length ∧
      fv.duration = (parts.flatten.length : Rat) / rate) ∧
    (raw = none → fv.nSamples = none ∧ fv.duration = fv.spikeTimes.getLast?.getD 0) :=
  Lemmas.loadFull_duration inv rate tden ncd one raw d fv d' h

end Full

/-! ## Feature tables (`_load_features`, `_load_template_features`) -/

/-- exchanging the last two axes: entry `(i, k, j)` of the shown array is entry `(i, j, k)` of the
stored one (C order; the stored array has `n · p · q` cells) -/
theorem transpose021_spec (a : Arr) (n p q : Nat) (hs : a.shape = [n, p, q]) (hl : a.data.length = n * (p * q)) :
    (transpose021 a).shape = [n, q, p] ∧ (transpose021 a).data.length = n * (q * p) ∧
    ∀ i j k, i < n → j < p → k < q →
      (transpose021 a).data[i * (q * p) + (k * p + j)]? = a.data[i * (p * q) + (j * q + k)]? :=
  Lemmas.transpose021_spec a n p q hs hl

/-- Principal-component features: shown iff `pc_features.npy` exists; the data are the stored array
(squeezed, NOT scrubbed — it is memory-mapped) with its last two axes exchanged; the column table is
`pc_feature_ind.npy` (not scrubbed either) of shape `(nt, nloc)` or absent (dense), the row table
`pc_feature_spike_ids.npy` (scrubbed) of one entry per stored row or absent (all spikes). -/
theorem load_features (d : Dir) (nt : Nat) (s : Sparse) (h : loadFeatures d nt = .ok (some s)) :
    ∃ a, d.lookup "pc_features.npy" = some a ∧ (feat3 a).shape.length = 3 ∧
      s.data = transpose021 (feat3 a) ∧
      Row d ["pc_feature_ind.npy"] featCols s.cols ∧
      (∀ c, s.cols = some c → c.shape = [nt, (s.data.shape.drop 1).headD 0]) ∧
      Row d ["pc_feature_spike_ids.npy"] (fun r => squeeze (scrub r)) s.rows ∧
      (∀ r, s.rows = some r → r.shape = [s.data.shape.headD 0]) :=
  Lemmas.loadFeatures_some d nt s h

/-- **load_features_entries**: WHAT is shown, by entries and without the model's helpers: for a stored
`pc_features.npy` of shape `(n_spikes, n_pcs, n_loc)` the shown array has shape `(n_spikes, n_loc, n_pcs)` and
`data[s][c][k] = file[s][k][c]`.
Hypothesis: no stored dimension has size 1 (DESIGN §5 C04 "well-formed").  It is NEEDED: with ONE component per
channel (`(n, 1, q)`) the loader — and `loadFeatures`, which mirrors it — squeezes the file to `(n, q)`, appends the
axis at the END (`(n, q, 1)`, model.py:776-778 "Deal with npcs = 1") and exchanges: the result has shape `(n, 1, q)`,
i.e. channels and components are exchanged (the real code then fails on `pc_feature_ind.npy`, AssertionError
model.py:793, or shows `get_features` rows with the channels as components).  The `example` after this theorem shows
that shape; `load_features` alone (its right-hand side is `transpose021 (feat3 a)`) does not tell. -/
theorem load_features_entries (d : Dir) (nt : Nat) (s : Sparse) (h : loadFeatures d nt = .ok (some s))
    (a : Arr) (ha : d.lookup "pc_features.npy" = some a) (n p q : Nat) (hs : a.shape = [n, p, q])
    (hn : n ≠ 1) (hp : p ≠ 1) (hq : q ≠ 1) (hl : a.data.length = n * (p * q)) :
    s.data.shape = [n, q, p] ∧
    ∀ i j k, i < n → j < p → k < q →
      s.data.data[i * (q * p) + (k * p + j)]? = a.data[i * (p * q) + (j * q + k)]? :=
  Lemmas.loadFeatures_entries d nt s h a ha n p q hs hn hp hq hl

/-- the hypotheses are met by a `(2, 2, 3)` file … -/
example : (match loadFeatures [("pc_features.npy", ⟨[2, 2, 3], (List.range 12).map fun (i : Nat) => .num (i : Int)⟩)] 2 with
    | .ok (some s) => (s.data.shape, s.data.data.map cellInt) | _ => ([], [])) =
    ([2, 3, 2], [0, 3, 1, 4, 2, 5, 6, 9, 7, 10, 8, 11]) := by decide
/-- … and NOT by one component per channel: a `(4, 1, 2)` file is shown with shape `(4, 1, 2)`, not `(4, 2, 1)`
(excluded by `hp`; what the code at model.py:776-778 does, not what the table says) -/
example : (match loadFeatures [("pc_features.npy", ⟨[4, 1, 2], (List.range 8).map fun (i : Nat) => .num (i : Int)⟩)] 2 with
    | .ok (some s) => s.data.shape | _ => []) = [4, 1, 2] := by decide

/-- … and no features are shown only when the file is absent -/
theorem load_features_absent (d : Dir) (nt : Nat) (h : loadFeatures d nt = .ok none) :
    "pc_features.npy" ∉ names d :=
  Lemmas.loadFeatures_none d nt h

/-- Template features: `template_features.npy` squeezed (memory-mapped, not scrubbed), 2-D, with the
optional tables `template_feature_ind.npy` `(nt, nloc)` and `template_feature_spike_ids.npy`. -/
theorem load_template_features (d : Dir) (nt : Nat) (s : Sparse) (h : loadTemplateFeatures d nt = .ok (some s)) :
    ∃ a, d.lookup "template_features.npy" = some a ∧ (squeeze a).shape.length = 2 ∧
      s.data = squeeze a ∧
      Row d ["template_feature_ind.npy"] (fun c => squeeze (scrub c)) s.cols ∧
      (∀ c, s.cols = some c → c.shape = [nt, (s.data.shape.drop 1).headD 0]) ∧
      Row d ["template_feature_spike_ids.npy"] (fun r => squeeze (scrub r)) s.rows ∧
      (∀ r, s.rows = some r → r.shape = [s.data.shape.headD 0]) :=
  Lemmas.loadTemplateFeatures_some d nt s h

/-- the files created while loading do not change what the feature tables are read from: any
literal name other than the two created ones reads the same in `d'` as in `d` -/
theorem features_frame (inv : Arr → Arr) {one : Cell} (d : Dir) (v : View) (d' : Dir) (h : load inv d one = .ok (v, d'))
    (name : String) (hn : ∀ g ∈ Lemmas.createdNames, globMatch name g = false) :
    readFile d' [name] = readFile d [name] :=
  Lemmas.readFile_features_frame inv d v d' h name hn

/-! Non-vacuity -/
example :
    let d : Dir := [("spike_times.npy", ⟨[3, 1], [.num 1, .num 4, .num 4]⟩), ("spike_templates.npy", ⟨[3], [.num 0, .num 1, .num 0]⟩),
                    ("channel_map.npy", ⟨[2], [.num 0, .num 1]⟩), ("channel_positions.npy", ⟨[2, 2], [.num 0, .num 0, .num 0, .num 1]⟩),
                    ("amplitudes.npy", ⟨[3, 1], [.num 1, .nan, .inf]⟩)]
    (match load id d with
     | .ok (v, d') => (v.amplitudes, d'.map (·.1), v.spikeClusters == v.spikeTemplates)
     | .error _ => (none, [], false)) =
    (some ⟨[3], [.num 1, .num 0, .num 0]⟩,
     ["spike_times.npy", "spike_templates.npy", "channel_map.npy", "channel_positions.npy", "amplitudes.npy",
      "spike_clusters.npy", "whitening_mat_inv.npy"], true) := by decide
example : findPath [("spikes.amps.npy", ⟨[], []⟩), ("amplitudes.npy", ⟨[], []⟩)] ["amplitudes.npy", "spikes.amps*.npy"]
    = some "amplitudes.npy" := by decide
example :
    load id [("spike_times.npy", ⟨[2], [.num 1, .num 4]⟩), ("spike_templates.npy", ⟨[2], [.num 0, .num 1]⟩),
             ("spikes.clusters.npy", ⟨[2], [.num 0, .num 1]⟩), ("spike_clusters.npy", ⟨[2], [.num 0, .num 1]⟩),
             ("channel_map.npy", ⟨[1], [.num 0]⟩), ("channel_positions.npy", ⟨[1, 2], [.num 0, .num 0]⟩)]
      = .error (.conflict "spike clusters") := by rfl

/-! Non-vacuity of the table theorems and of `loadFull` -/

/-- an ALF-named directory with a label, two candidates for the amplitudes, one extra attribute -/
def exAlf : Dir :=
  [("spikes.times.p0.npy", ⟨[3, 1], [.num 1, .num 3, .num 5]⟩),           -- seconds · 2 (tden = 2)
   ("spikes.templates.p0.npy", ⟨[3], [.num 0, .num 1, .num 0]⟩),
   ("spikes.amps.p0.npy", ⟨[3], [.num 9, .num 9, .num 9]⟩),
   ("amplitudes.npy", ⟨[3, 1], [.num 1, .nan, .inf]⟩),
   ("channels.rawInd.npy", ⟨[2], [.num 2, .num 0]⟩),
   ("channels.localCoordinates.npy", ⟨[2, 2], [.num 0, .num 0, .num 0, .num 0]⟩),
   ("templates.waveforms.p0.npy", ⟨[2, 2, 2], [.nan, .nan, .nan, .nan, .num 1, .nan, .num 3, .num 4]⟩),
   ("spike_depth.npy", ⟨[3, 1], [.num 7, .inf, .num 8]⟩),
   ("spike_wrong.npy", ⟨[4], [.num 7, .num 7, .num 7, .num 7]⟩)]

def exRaw : List (List (List Nat)) := [[[0, 1, 2], [10, 11, 12]], [[20, 21, 22]]]

example : Wins exAlf Attr.amplitudes.files "amplitudes.npy" :=
  ⟨0, by decide, by decide, by decide, fun j _ hj => absurd hj (by omega)⟩
example : Wins exAlf Attr.templates.files "templates.waveforms.p0.npy" :=
  ⟨2, by decide, by decide, by decide, by decide⟩
example : Absent exAlf Attr.wm.files := by decide
example : GlobUnique exAlf ["spikes.times*.npy"] := by decide

/-- what a projection of the loaded view shows on `exAlf` (1000 Hz, seconds tokens over 2, three raw
columns, `4` standing for 1.0, two raw files) -/
def exShow {α : Type} (f : FullView Nat × Dir → α) : Option α :=
  match loadFull (β := Nat) id 1000 2 3 (.num 4) (some exRaw) exAlf with
  | .ok r => some (f r)
  | .error _ => none

example : exShow (fun r => (r.1.spikeTimes, r.1.spikeSamples, r.1.base.amplitudes, r.1.base.templates.map (·.data))) =
    some ([1/2, 3/2, 5/2], [500, 1500, 2500], some ⟨[3], [.num 1, .num 0, .num 0]⟩,
          some [.num 0, .num 0, .num 0, .num 0, .num 1, .nan, .num 3, .num 4]) := by decide +kernel
example : exShow (fun r => (r.1.positions, r.1.wm.data, r.1.spikeAttributes)) =
    some (.linear 2, [.num 4, .num 0, .num 0, .num 4], [("depth", ⟨[3], [.num 7, .num 0, .num 8]⟩)]) := by
  decide +kernel
example : exShow (fun r => (r.1.nSamples, r.1.duration,
      r.1.traces.bind fun tr => tracesGet exRaw tr (.slice (some 1) none))) =
    some (some 3, 3/1000, some [[12, 10], [22, 20]]) := by decide +kernel
example : exShow (fun r => r.2.map (·.1)) =
    some (["spikes.times.p0.npy", "spikes.templates.p0.npy", "spikes.amps.p0.npy", "amplitudes.npy",
       "channels.rawInd.npy", "channels.localCoordinates.npy", "templates.waveforms.p0.npy",
       "spike_depth.npy", "spike_wrong.npy", "spike_clusters.npy", "whitening_mat_inv.npy"]) := by
  decide +kernel

-- `wmi_default` / `load_wmi` on `exAlf` (no whitening matrix, no inverse, two channels, `inv := id` as the inverse of the
-- identity): the model holds and WRITES the identity `(2, 2)` …
example : Attr.wmi.files = ["whitening_mat_inv.npy"] ∧ exAlf.lookup "whitening_mat_inv.npy" = none := by decide
example : exShow (fun r => (r.1.base.wmi, r.1.wmi, r.2.lookup "whitening_mat_inv.npy")) =
    some (none, ⟨[2, 2], [.num 4, .num 0, .num 0, .num 4]⟩, some ⟨[2, 2], [.num 4, .num 0, .num 0, .num 4]⟩) := by
  decide +kernel
-- … and a SECOND session on the directory the first one left loads (the `(nc, nc)` check passes on the written file),
-- shows the same inverse as a stored one, and creates nothing more
example : (exShow fun r => match loadFull (β := Nat) id 1000 2 3 (.num 4) (some exRaw) r.2 with
      | .ok r2 => some (r2.1.base.wmi, r2.1.wmi == r.1.wmi, r2.2 == r.2, r2.1.spikeTimes == r.1.spikeTimes)
      | .error _ => none) =
    some (some (some ⟨[2, 2], [.num 4, .num 0, .num 0, .num 4]⟩, true, true, true)) := by decide +kernel

example : [1/2, 3/2, 5/2, 7/2, -1/2, -3/2, 7/4, 2].map roundHalfEven = [0, 2, 2, 4, 0, -2, 2, 2] := by
  decide +kernel
example : linearPositions 3 = [[0, 0], [0, 1/2], [0, 1]] := by decide +kernel

/-- hypotheses of `load_rejects_nonmonotone_alf` on a concrete directory -/
example :
    let d : Dir := [("spikes.times.npy", ⟨[3], [.num 1, .nan, .num 2]⟩), ("spikes.templates.npy", ⟨[3], [.num 0, .num 1, .num 0]⟩)]
    "spike_times.npy" ∉ names d ∧ GlobUnique d ["spikes.times*.npy"] ∧
    d.lookup "spikes.times.npy" = some ⟨[3], [.num 1, .nan, .num 2]⟩ ∧
    monotone (scrub ⟨[3], [.num 1, .nan, .num 2]⟩).data = false ∧
    (match load id d with | .error .nonMonotone => true | _ => false) = true := by
  decide
example : Wins [("spikes.times.npy", ⟨[3], [.num 1, .nan, .num 2]⟩)] ["spikes.times*.npy"] "spikes.times.npy" :=
  ⟨0, by decide, by decide, by decide, fun j _ hj => absurd hj (by omega)⟩
example : C01.InDom exRaw.flatten.length (.slice (some 1) none) := by
  unfold C01.InDom; refine ⟨?_, ?_, ?_⟩ <;> decide
/-- an extra attribute file holding ONE value (0-d after the squeeze) is an attribute of the wrong length: not shown,
the others are -/
example : (match loadSpikeAttributes 3 [("spike_x.npy", ⟨[1], [.num 5]⟩), ("spike_y.npy", ⟨[1, 1], [.num 5]⟩),
      ("spike_z.npy", ⟨[3, 1], [.num 5, .num 6, .num 7]⟩)] with
    | .ok l => l.map (·.1) | _ => ["?"]) = ["z"] := by decide
/-- only the EXACT reserved names are the loader's own files (`n in SKIP_SPIKE_ATTRS`, model.py:527): a name that
extends a reserved name (`times_sec`), is a proper prefix of one (`time`) or ends with one (`raw_samples`) is an
attribute like any other; `spike_times_reordered.npy` and `spike_samples.npy` are not -/
example : (match loadSpikeAttributes 2 [("spike_times_sec.npy", ⟨[2], [.num 1, .num 2]⟩),
      ("spike_times_reordered.npy", ⟨[2], [.num 3, .num 4]⟩), ("spike_time.npy", ⟨[2, 1], [.num 5, .num 6]⟩),
      ("spike_samples.npy", ⟨[2], [.num 7, .num 8]⟩), ("spike_raw_samples.npy", ⟨[2], [.num 9, .nan]⟩)] with
    | .ok l => l.map (fun p => (p.1, p.2.data)) | _ => []) =
    [("times_sec", [.num 1, .num 2]), ("time", [.num 5, .num 6]), ("raw_samples", [.num 9, .num 0])] := by decide
example : "times_sec" ∉ skipSpikeAttrs ∧ "time" ∉ skipSpikeAttrs ∧ "times_reordered" ∈ skipSpikeAttrs := by decide

example : transpose021 ⟨[1, 2, 3], [.num 0, .num 1, .num 2, .num 3, .num 4, .num 5]⟩ =
    ⟨[1, 3, 2], [.num 0, .num 3, .num 1, .num 4, .num 2, .num 5]⟩ := by decide
example :
    (match loadFeatures [("pc_features.npy", ⟨[2, 2, 3], [.num 0, .nan, .num 2, .num 3, .num 4, .num 5,
                                                          .num 6, .num 7, .num 8, .num 9, .inf, .num 11]⟩),
                         ("pc_feature_ind.npy", ⟨[2, 3], [.num 0, .num 1, .num 2, .num 2, .num 1, .num 0]⟩),
                         ("pc_feature_spike_ids.npy", ⟨[2, 1], [.num 4, .num 9]⟩)] 2 with
     | .ok (some s) => some (s.data, s.cols.map (·.shape), s.rows)
     | _ => none) =
    some (⟨[2, 3, 2], [.num 0, .num 3, .nan, .num 4, .num 2, .num 5, .num 6, .num 9, .num 7, .inf, .num 8, .num 11]⟩,
          some [2, 3], some ⟨[2], [.num 4, .num 9]⟩) := by decide

/-- hypotheses of `load_requires_mandatory`: a directory without any channel map -/
example : Attr.channelMap.mandatory = true ∧ Absent exAlf Attr.spikeClusters.files ∧
    Absent [("spike_times.npy", (⟨[2], [.num 1, .num 2]⟩ : Arr)), ("spike_templates.npy", ⟨[2], [.num 0, .num 1]⟩)]
      Attr.channelMap.files := by decide
example : NonDecreasing [1, 3, 3, 7] ∧ monotone ([1, 3, 3, 7].map Cell.num) = true ∧
    monotone ([1, 3, 2].map Cell.num) = false :=
  ⟨(monotone_spec [1, 3, 3, 7]).1 (by decide), by decide, by decide⟩
example : roundHalfEven ((62 : Int) / (1000 : Rat) * 1000) = 62 ∧ roundHalfEven ((1 : Rat) / 16 * 1000) = 62 := by
  decide +kernel
/-- a dataset without templates (and without curation) loads; `n_templates` is the highest id + 1 -/
example :
    (match loadFull (β := Nat) id 1000 1 0 (.num 4) none
        [("spike_times.npy", ⟨[3], [.num 1, .num 2, .num 5]⟩), ("spike_templates.npy", ⟨[3], [.num 0, .num 2, .num 0]⟩),
         ("channel_map.npy", ⟨[2], [.num 0, .num 1]⟩), ("channel_positions.npy", ⟨[2, 2], [.num 0, .num 0, .num 0, .num 1]⟩)] with
     | .ok (fv, _) => some (fv.base.templates, fv.nTemplates, fv.similar.shape, fv.duration)
     | .error _ => none) = some (none, 3, [3, 3], 5 / 1000) := by decide +kernel
example :
    (match loadTemplateFeatures [("template_features.npy", ⟨[2, 2], [.num 1, .nan, .num 3, .num 4]⟩),
                                 ("template_feature_spike_ids.npy", ⟨[2], [.num 0, .num 5]⟩)] 3 with
     | .ok (some s) => some (s.data.data, s.cols, s.rows)
     | _ => none) = some ([.num 1, .nan, .num 3, .num 4], none, some ⟨[2], [.num 0, .num 5]⟩) := by decide
/-- `wmi_default` on a concrete directory: a load with `inv` = "double every cell" writes the doubled matrix the view shows -/
example :
    (match load (fun w => ⟨w.shape, w.data.map fun c => match c with | .num i => .num (2 * i) | c => c⟩)
        [("spike_times.npy", ⟨[3], [.num 1, .num 2, .num 5]⟩), ("spike_templates.npy", ⟨[3], [.num 0, .num 1, .num 0]⟩),
         ("channel_map.npy", ⟨[2], [.num 0, .num 1]⟩), ("channel_positions.npy", ⟨[2, 2], [.num 0, .num 0, .num 0, .num 1]⟩),
         ("whitening_mat.npy", ⟨[2, 2], [.num 4, .nan, .num 0, .num 8]⟩)] with
     | .ok (v, d') => some (v.wmi, v.wm.map (·.data), (d'.lookup "whitening_mat_inv.npy").map (·.data))
     | .error _ => none) =
    some (none, some [.num 4, .num 0, .num 0, .num 8], some [.num 8, .num 0, .num 0, .num 16]) := by decide +kernel
/-- hypothesis of `features_frame` for the six feature files -/
example : ∀ name ∈ ["pc_features.npy", "pc_feature_ind.npy", "pc_feature_spike_ids.npy", "template_features.npy",
      "template_feature_ind.npy", "template_feature_spike_ids.npy"],
    ∀ g ∈ Lemmas.createdNames, globMatch name g = false := by decide

/-! ## The directory in EVERY outcome (`loadAny`), derived ids, entry-level helpers -/

/-- **load_frame_any_outcome** ("leaves every pre-existing file byte-identical, and creates nothing except the
spike-cluster copy and the inverse whitening matrix when those are missing" — ALSO when the load rejects or fails): for
every directory, every set of refused dtypes and whatever the outcome of `loadAny` (success, non-monotonic times, two
cluster files, missing file, empty train, refused dtype), with `d'` the directory it leaves: every pre-existing file is
unchanged; every name of `d'` is a name of `d` or one of the two; a `spike_clusters.npy` that appeared was missing under
both names and holds the contents of the winning spike-template file; `whitening_mat_inv.npy` is new or as it was; and at
most one file per missing name was added. -/
theorem load_frame_any_outcome (inv : Arr → Arr) (bad : List String) (d : Dir) :
    let d' := (loadAny inv bad d one).2
    (∀ name a, d.lookup name = some a → d'.lookup name = some a) ∧
    (∀ name ∈ d'.map (·.1), name ∈ d.map (·.1) ∨ name = "spike_clusters.npy" ∨ name = "whitening_mat_inv.npy") ∧
    ("spike_clusters.npy" ∉ d.map (·.1) → "spike_clusters.npy" ∈ d'.map (·.1) →
      findPath d ["spike_clusters.npy", "spikes.clusters*.npy"] = none ∧
      ∃ f, findPath d ["spike_templates.npy", "spikes.templates*.npy"] = some f ∧
        d'.lookup "spike_clusters.npy" = d.lookup f) ∧
    ("whitening_mat_inv.npy" ∉ d.map (·.1) ∨ d'.lookup "whitening_mat_inv.npy" = d.lookup "whitening_mat_inv.npy") ∧
    d'.length ≤ d.length +
      (if findPath d ["spike_clusters.npy", "spikes.clusters*.npy"] = none then 1 else 0) +
      (if d.lookup "whitening_mat_inv.npy" = none then 1 else 0) :=
  Lemmas.frame_of_added d _ (Lemmas.loadAny_added inv bad d)

/-- **load_rejection_leaves_directory**: the rejections the statement names (non-monotonic spike times) and every other
failure that `_load_data` raises before model.py:372 (no spike-time / spike-template file, two cluster files, an empty
spike train, a refused spike-template dtype) leave the directory EXACTLY as it was (nothing created at all).  A missing
channel map / positions file and a refused channel-map / template dtype are detected after `_load_spike_clusters` has
made its copy: `load_frame_any_outcome` applies, the `example` below shows the copy left behind (real code: the same). -/
theorem load_rejection_leaves_directory (inv : Arr → Arr) {one : Cell} (bad : List String) (d : Dir) (e : AnyErr)
    (h : (loadAny inv bad d one).1 = .error e) (he : e.early = true) : (loadAny inv bad d one).2 = d :=
  Lemmas.loadAny_early_unchanged inv bad d e h he

/-- **loadAny_is_load**: a successful `loadAny` IS a successful `load` with the same view and directory (all theorems about
`load` / `loadFull` apply to it), and it has at least one spike (the loader refuses an empty spike train: `np.max` of an
empty array, model.py:608, ValueError — so `spike_times[-1]` of `load_duration` exists). -/
theorem loadAny_is_load (inv : Arr → Arr) {one : Cell} (bad : List String) (d : Dir) (v : View) (d' : Dir)
    (h : loadAny inv bad d one = (.ok v, d')) : load inv d one = .ok (v, d') ∧ v.spikeTemplates.data ≠ [] :=
  Lemmas.loadAny_ok inv bad d v d' h

example : AnyErr.early (.load .nonMonotone) = true ∧ AnyErr.early (.load (.conflict "spike clusters")) = true ∧
    AnyErr.early (.load (.missing "channel map")) = false ∧ AnyErr.early (.dtype "channel map") = false := by decide

/-- the error (if any) and the names of the directory a load leaves -/
def exAny (bad : List String) (d : Dir) : Option AnyErr × List String :=
  let r := loadAny id bad d
  (match r.1 with | .error e => some e | .ok _ => none, r.2.map (·.1))

def exBase : Dir := [("spike_templates.npy", ⟨[2], [.num 0, .num 1]⟩), ("channel_map.npy", ⟨[1], [.num 0]⟩)]

/-- non-monotonic → directory untouched; missing channel positions → the cluster copy is left behind; a refused channel-map
dtype likewise; an empty train is refused before anything is created -/
example : exAny [] (("spike_times.npy", ⟨[2], [.num 4, .num 1]⟩) :: exBase) =
    (some (.load .nonMonotone), ["spike_times.npy", "spike_templates.npy", "channel_map.npy"]) := by decide
example : exAny [] (("spike_times.npy", ⟨[2], [.num 1, .num 4]⟩) :: exBase) =
    (some (.load (.missing "channel positions")),
     ["spike_times.npy", "spike_templates.npy", "channel_map.npy", "spike_clusters.npy"]) := by decide
example : exAny ["channel_map"] (("spike_times.npy", ⟨[2], [.num 1, .num 4]⟩) :: exBase) =
    (some (.dtype "channel map"), ["spike_times.npy", "spike_templates.npy", "channel_map.npy", "spike_clusters.npy"]) := by
  decide
example : exAny [] [("spike_times.npy", ⟨[0], []⟩), ("spike_templates.npy", ⟨[0], []⟩)] =
    (some .emptyTrain, ["spike_times.npy", "spike_templates.npy"]) := by decide

/-- **load_ids** (`template_ids`, `cluster_ids`, `probes`, `n_probes` — attributes `_load_data` derives with `np.unique`
from loaded arrays, model.py:369, 376, 404-405; composition with C07's `unique_spec`), for a LOADED model `fv`: each list
is strictly increasing and an integer is listed iff it occurs in the loaded spike templates / spike clusters / channel
probes — the probes WITH their default (zeros `(nc,)`, model.py:563, when no file exists: third conjunct).
`hnn`: the ids are non-negative (the model's `uniqueIds` lists only the non-negative values, the real `np.unique` lists a
negative one as well: outside `hnn` the two differ; real datasets count ids from 0 or store them unsigned).
`n_probes = len(probes)` (model.py:405) is the definition `FullView.nProbes` and is not restated. -/
theorem load_ids {β : Type} (inv : Arr → Arr) (rate : Rat) (tden ncd : Nat) (one : Cell)
    (raw : Option (List (List (List β)))) (d : Dir) (fv : FullView β) (d' : Dir)
    (h : loadFull inv rate tden ncd one raw d = .ok (fv, d'))
    (hnn : ∀ c ∈ fv.base.spikeTemplates.data ++ fv.base.spikeClusters.data ++ fv.channelProbes.data, 0 ≤ cellInt c) :
    IsIdSetOf fv.base.templateIds fv.base.spikeTemplates.data ∧
    IsIdSetOf fv.base.clusterIds fv.base.spikeClusters.data ∧
    fv.channelProbes = fv.base.channelProbes.getD (zerosVec (fv.base.channelMap.shape.headD 0)) ∧
    IsIdSetOf fv.probes fv.channelProbes.data :=
  Lemmas.loadFull_ids inv rate tden ncd one raw d fv d' h hnn

-- `exAlf` (loaded by `exShow`) meets `hnn`, has no probe file (default zeros) and two templates
example : exShow (fun r => ((r.1.base.spikeTemplates.data ++ r.1.base.spikeClusters.data ++ r.1.channelProbes.data).all
      (fun c => decide (0 ≤ cellInt c)), r.1.base.templateIds, r.1.base.clusterIds, r.1.probes, r.1.nProbes)) =
    some (true, [0, 1], [0, 1], [0], 1) := by decide +kernel
-- outside `hnn` the model's list is not `np.unique` (which returns [-2, 0, 3]): the hypothesis is needed
example : uniqueIds ⟨[3], [.num 3, .num (-2), .num 0]⟩ = [0, 3] := by decide
example : uniqueIds ⟨[5], [.num 3, .num 0, .num 3, .num 7, .num 0]⟩ = [0, 3, 7] := by decide

/-- **load_duration_last** (`load_duration` without its `getD` default): without raw data the duration of a loaded model
with at least one spike is its LAST spike time … -/
theorem load_duration_last {β : Type} (inv : Arr → Arr) (rate : Rat) (tden ncd : Nat) (one : Cell)
    (d : Dir) (fv : FullView β) (d' : Dir)
    (h : loadFull inv rate tden ncd one none d = .ok (fv, d')) (hne : fv.spikeTimes ≠ []) :
    fv.duration = fv.spikeTimes.getLast hne :=
  Lemmas.loadFull_duration_last inv rate tden ncd one d fv d' h hne

/-- … and a model loaded by `loadAny` HAS at least one spike time: the loader refuses an empty train (model.py:608) before
it reaches `self.spike_times[-1]` (model.py:456).  `hwf`: the spike-time and spike-template vectors hold as many cells as
each other (both have shape `(ns,)` by `load_shapes`; a NumPy array holds as many cells as its shape says). -/
theorem load_times_nonempty {β : Type} (inv : Arr → Arr) (bad : List String) (rate : Rat) (tden ncd : Nat) (one : Cell)
    (raw : Option (List (List (List β)))) (d : Dir) (fv : FullView β) (d' : Dir)
    (h : loadFull inv rate tden ncd one raw d = .ok (fv, d'))
    (hany : loadAny inv bad d one = (.ok fv.base, d'))
    (hwf : fv.base.times.arr.data.length = fv.base.spikeTemplates.data.length) : fv.spikeTimes ≠ [] :=
  Lemmas.loadAny_nonempty_times inv bad rate tden ncd one raw d fv d' h hany hwf

/-! ### what the helpers on the right-hand sides of `load_values` / `load_features` do, by entries -/

/-- `np.atleast_1d/2d/3d`: the cells are kept; dimensions other than 1 are kept in order; an array that already has `k`
dimensions is unchanged; a vector becomes a ROW `(1, n)` (2d) or `(1, n, 1)` (3d), a matrix `(m, n)` becomes `(m, n, 1)`
(templates with one local channel), a 0-d array `(1,)`, `(1, 1)`, `(1, 1, 1)`. -/
theorem atleast_spec (k : Nat) (a : Arr) :
    (atleast k a).data = a.data ∧
    ((atleast k a).shape.filter (· != 1) = a.shape.filter (· != 1)) ∧
    (k ≤ a.shape.length → atleast k a = a) ∧
    (a.shape = [] → (atleast 1 a).shape = [1] ∧ (atleast 2 a).shape = [1, 1] ∧ (atleast 3 a).shape = [1, 1, 1]) ∧
    (∀ n, a.shape = [n] → (atleast 2 a).shape = [1, n] ∧ (atleast 3 a).shape = [1, n, 1]) ∧
    (∀ m n, a.shape = [m, n] → (atleast 3 a).shape = [m, n, 1]) :=
  ⟨Lemmas.atleast_data k a, Lemmas.atleast_shape k a⟩

/-- `cols = np.atleast_2d(cols).T` for a column table that is not 2-D (model.py:728-729): cells kept, a vector `(n,)`
becomes a COLUMN `(n, 1)` (entry `(i, 0)` is cell `i`), a 2-D table is unchanged -/
theorem colsFix_spec (a : Arr) :
    (colsFix a).data = a.data ∧ (∀ n, a.shape = [n] → (colsFix a).shape = [n, 1]) ∧
    (a.shape.length = 2 → colsFix a = a) ∧ (colsFix a).shape.filter (· != 1) = a.shape.filter (· != 1) :=
  Lemmas.colsFix_spec a

/-- the feature column table (model.py:791-795): cells kept; a stored `(nt, nloc)` table without a size-1 dimension is
shown as stored; a stored `(nt,)` or `(nt, 1)` table (one local channel) as the column `(nt, 1)` -/
theorem featCols_spec (c : Arr) :
    (featCols c).data = c.data ∧
    (∀ nt nloc, c.shape = [nt, nloc] → nt ≠ 1 → nloc ≠ 1 → featCols c = c) ∧
    (∀ nt, nt ≠ 1 → (c.shape = [nt] ∨ c.shape = [nt, 1]) → (featCols c).shape = [nt, 1]) :=
  Lemmas.featCols_spec c

/-- `data[empty_templates, ...] = 0` (model.py:714-715) by entries: cell `j` of template `t` is shown as 0 when EVERY cell
of template `t` is NaN, and as stored otherwise (a template with a single finite cell keeps all its NaNs; the array is
memory-mapped, nothing else is scrubbed) -/
theorem zeroNanTemplates_spec (a : Arr) (nt ns nc : Nat) (hs : a.shape = [nt, ns, nc])
    (hl : a.data.length = nt * (ns * nc)) :
    (zeroNanTemplates a).shape = a.shape ∧
    ∀ t j, t < nt → j < ns * nc →
      (zeroNanTemplates a).data[t * (ns * nc) + j]? =
        if (∀ j', j' < ns * nc → a.data[t * (ns * nc) + j']? = some Cell.nan) then some (.num 0)
        else a.data[t * (ns * nc) + j]? :=
  Lemmas.zeroNanTemplates_spec a nt ns nc hs hl

example : (zeroNanTemplates ⟨[2, 1, 2], [.nan, .nan, .nan, .num 3]⟩).data = [.num 0, .num 0, .nan, .num 3] := by decide
example : (atleast 3 ⟨[2, 3], []⟩).shape = [2, 3, 1] ∧ (colsFix ⟨[3], []⟩).shape = [3, 1] ∧
    (featCols ⟨[3, 1], []⟩).shape = [3, 1] ∧ featCols ⟨[3, 2], []⟩ = ⟨[3, 2], []⟩ := by decide

end PhyVerif.C04
