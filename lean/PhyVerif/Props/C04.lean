import PhyVerif.Model.C04
import PhyVerif.Lemmas.C04
import PhyVerif.Model.C04b
import PhyVerif.Lemmas.C04b
/-!
# C04 — loading a dataset reproduces its files under every supported layout
Only property theorems + non-vacuity examples; proofs in `Lemmas/C04.lean`.
The attribute-by-attribute table (which file, which transform, which default) is the definition of
`load` itself and is tied to the real loader by the correspondence run; the theorems below are the
parts that quantify over all directories.
-/
namespace PhyVerif.C04

/-- First matching name wins: the returned file matches some pattern of the list and no earlier
pattern matches any file of the directory. -/
theorem findPath_first_match (d : Dir) (names : List String) (f : String) (h : findPath d names = some f) :
    ∃ i, ∃ hi : i < names.length, globMatch (names[i]'hi) f = true ∧ f ∈ d.map (·.1) ∧
      ∀ j (hj : j < names.length), j < i → ∀ g ∈ d.map (·.1), globMatch (names[j]'hj) g = false :=
  Lemmas.findPath_first_match d names f h

/-- … and when nothing is returned no pattern matches any file. -/
theorem findPath_none (d : Dir) (names : List String) (h : findPath d names = none) :
    ∀ p ∈ names, ∀ g ∈ d.map (·.1), globMatch p g = false :=
  Lemmas.findPath_none d names h

/-- Frame: a successful load leaves every pre-existing file as it was and creates nothing except
the spike-cluster copy and the inverse whitening matrix, each exactly when it was missing. -/
theorem load_frame (inv : Arr → Arr) (d : Dir) (v : View) (d' : Dir) (h : load inv d = .ok (v, d')) :
    (∀ name a, d.lookup name = some a → d'.lookup name = some a) ∧
    (∀ name ∈ d'.map (·.1), name ∈ d.map (·.1) ∨ name = "spike_clusters.npy" ∨ name = "whitening_mat_inv.npy") ∧
    (("spike_clusters.npy" ∈ d'.map (·.1) ∧ "spike_clusters.npy" ∉ d.map (·.1)) ↔
      findPath d ["spike_clusters.npy", "spikes.clusters*.npy"] = none) ∧
    (d'.length = d.length +
      (if findPath d ["spike_clusters.npy", "spikes.clusters*.npy"] = none then 1 else 0) +
      (if d.lookup "whitening_mat_inv.npy" = none then 1 else 0)) :=
  Lemmas.load_frame inv d v d' h

/-- Loading rejects non-monotonic spike times (KiloSort layout). -/
theorem load_rejects_nonmonotone (inv : Arr → Arr) (d : Dir) (s : Arr) (hs : d.lookup "spike_times.npy" = some s)
    (hm : monotone (scrub s).data = false) : load inv d = .error .nonMonotone :=
  Lemmas.load_rejects_nonmonotone inv d s hs hm

/-- A directory holding both a KiloSort-named and an ALF-named spike-cluster file is not loaded (the
loader accepts only one). -/
theorem load_rejects_two_cluster_files (inv : Arr → Arr) (d : Dir)
    (h1 : (findPath d ["spike_clusters.npy"]).isSome) (h2 : (findPath d ["spikes.clusters*.npy"]).isSome)
    (v : View) (d' : Dir) : load inv d ≠ .ok (v, d') :=
  Lemmas.load_rejects_two_cluster_files inv d h1 h2 v d'

/-- NaN/inf are replaced by zero in fully loaded arrays, finite cells and the shape are kept. -/
theorem scrub_spec (a : Arr) :
    (scrub a).shape = a.shape ∧ (scrub a).data.length = a.data.length ∧
    ∀ i (hi : i < a.data.length), (scrub a).data.getD i .nan =
      (match a.data[i]'hi with | .num v => .num v | _ => .num 0) :=
  Lemmas.scrub_spec a

/-- When no spike-cluster file exists the loaded clusters are the loaded templates, and the file
created is a byte copy of the spike-template file. -/
theorem clusters_default (inv : Arr → Arr) (d : Dir) (v : View) (d' : Dir) (h : load inv d = .ok (v, d'))
    (hn : findPath d ["spike_clusters.npy", "spikes.clusters*.npy"] = none) :
    v.spikeClusters = v.spikeTemplates ∧
    ∃ f, findPath d ["spike_templates.npy", "spikes.templates*.npy"] = some f ∧
      d'.lookup "spike_clusters.npy" = d.lookup f :=
  Lemmas.clusters_default inv d v d' h hn

/-- Layout independence: a directory holding only KiloSort/phy-named arrays
and the ALF-named directory holding the same arrays (plus any non-decreasing spike times in seconds)
load to the same samples, amplitudes, templates, clusters, channel tables, waveforms and matrices;
only the time source differs (stored seconds instead of samples over rate). -/
theorem load_layout_independent (inv : Arr → Arr) (d : Dir) (t : Arr)
    (hks : ∀ n ∈ d.map (·.1), n ∈ ksNames)
    (ht : monotone (scrub t).data = true)
    (v : View) (d' : Dir) (h : load inv d = .ok (v, d')) :
    ∃ v' d'', load inv (toALF d t) = .ok (v', d'') ∧
      v'.times = .stored (squeeze (scrub t)) ∧ v'.samples = v.samples ∧
      v'.amplitudes = v.amplitudes ∧ v'.spikeTemplates = v.spikeTemplates ∧
      v'.spikeClusters = v.spikeClusters ∧ v'.channelMap = v.channelMap ∧
      v'.channelPositions = v.channelPositions ∧ v'.channelShanks = v.channelShanks ∧
      v'.channelProbes = v.channelProbes ∧ v'.templates = v.templates ∧
      v'.templateCols = v.templateCols ∧ v'.wm = v.wm ∧ v'.wmi = v.wmi ∧ v'.similar = v.similar :=
  Lemmas.load_layout_independent inv d t hks ht v d' h

/-! Non-vacuity -/
example :
    let d : Dir := [("spike_times.npy", ⟨[3, 1], [.num 1, .num 4, .num 4]⟩), ("spike_templates.npy", ⟨[3], [.num 0, .num 1, .num 0]⟩),
                    ("channel_map.npy", ⟨[2], [.num 0, .num 1]⟩), ("channel_positions.npy", ⟨[2, 2], [.num 0, .num 0, .num 0, .num 1]⟩),
                    ("amplitudes.npy", ⟨[3, 1], [.num 1, .nan, .inf]⟩)]
    (match load id d with
     | .ok (v, d') => (v.amplitudes, d'.map (·.1), v.spikeClusters == v.spikeTemplates)
     | .error _ => (none, [], false)) =
    (some ⟨[3], [.num 1, .num 0, .num 0]⟩,
     ["spike_times.npy", "spike_templates.npy", "channel_map.npy", "channel_positions.npy", "amplitudes.npy",
      "spike_clusters.npy", "whitening_mat_inv.npy"], true) := by decide
example : findPath [("spikes.amps.npy", ⟨[], []⟩), ("amplitudes.npy", ⟨[], []⟩)] ["amplitudes.npy", "spikes.amps*.npy"]
    = some "amplitudes.npy" := by decide
example :
    load id [("spike_times.npy", ⟨[2], [.num 1, .num 4]⟩), ("spike_templates.npy", ⟨[2], [.num 0, .num 1]⟩),
             ("spikes.clusters.npy", ⟨[2], [.num 0, .num 1]⟩), ("spike_clusters.npy", ⟨[2], [.num 0, .num 1]⟩),
             ("channel_map.npy", ⟨[1], [.num 0]⟩), ("channel_positions.npy", ⟨[1, 2], [.num 0, .num 0]⟩)]
      = .error (.conflict "spike clusters") := by rfl

end PhyVerif.C04
