import PhyVerif.Model.C06
import PhyVerif.Spec.C06
import PhyVerif.Lemmas.C06
/-!
# C06 — sparse feature storage is densified exactly
Only property theorems + non-vacuity examples; proofs in `Lemmas/C06.lean`.
-/
namespace PhyVerif.C06
open PhyVerif

variable {β : Type}

/-- `from_sparse`: for all data (cells of any type, i.e. any trailing dimensions), column tables
with distinct real entries and repeated −1, and any list of distinct requested channels (unknown
ones included): entry (i, j) is the stored value whose column index names channel j, else zero. -/
theorem fromSparse_spec (zero : β) (data : List (List β)) (cols : List (List Int)) (chans : List Nat)
    (hc : chans.Nodup) (hlen : data.length = cols.length)
    (hrow : ∀ p ∈ data.zip cols, p.1.length = p.2.length) (hcols : ColsOK cols) :
    fromSparse zero data cols chans =
      some ((data.zip cols).map fun p => chans.map fun c => denseEntry zero p.1 p.2 c) :=
  Lemmas.fromSparse_spec zero data cols chans hc hlen hrow hcols

/-- independence of the order of the requested channels: the value found for a channel does not
depend on where (or next to which other channels) it is requested -/
theorem fromSparse_order_independent (zero : β) (data : List (List β)) (cols : List (List Int))
    (chans chans' : List Nat)
    (out out' : List (List β)) (ho : fromSparse zero data cols chans = some out)
    (ho' : fromSparse zero data cols chans' = some out') (i j j' : Nat) (hj : j < chans.length)
    (hj' : j' < chans'.length) (heq : chans[j]'hj = chans'[j']'hj') :
    (out.getD i []).getD j zero = (out'.getD i []).getD j' zero :=
  Lemmas.fromSparse_order_independent zero data cols chans chans' out out' ho ho'
    i j j' hj hj' heq

/-- `get_features` / `get_template_features`: for every request of distinct spikes in ANY order
and every list of distinct channels, with or without a row (spike id) table, the row returned at
the position of a STORED spike is the densification of that spike's stored row with the column
table row of that spike's template (all-channel `arange` when there is no column table). -/
theorem getFeatures_spec (zero nan : β) (sf : Sparse β) (nloc nSpikes nTemplates : Nat)
    (spikeTemplates : List Nat) (hst : StoreOK sf nloc nSpikes nTemplates spikeTemplates)
    (spikeIds chans : List Nat) (hs : spikeIds.Nodup) (hsr : ∀ q ∈ spikeIds, q < nSpikes)
    (hc : chans.Nodup) :
    ∃ out, getFeatures zero nan sf nloc spikeTemplates spikeIds chans = some out ∧
      out.length = spikeIds.length ∧
      ∀ i (hi : i < spikeIds.length) row, storedRow sf (spikeIds[i]'hi) = some row →
        out.getD i [] = chans.map fun c =>
          denseEntry zero row (colsRow sf nloc spikeTemplates (spikeIds[i]'hi)) c :=
  Lemmas.getFeatures_spec zero nan sf nloc nSpikes nTemplates spikeTemplates hst spikeIds chans hs hsr hc

/-- template features: same statement over all templates `0 .. nTemplates-1` -/
theorem getTemplateFeatures_spec (zero nan : β) (tf : Sparse β) (nloc nSpikes nTemplates : Nat)
    (spikeTemplates : List Nat) (hst : StoreOK tf nloc nSpikes nTemplates spikeTemplates)
    (spikeIds : List Nat) (hs : spikeIds.Nodup) (hsr : ∀ q ∈ spikeIds, q < nSpikes) :
    ∃ out, getTemplateFeatures zero nan tf nloc spikeTemplates nTemplates spikeIds = some out ∧
      out.length = spikeIds.length ∧
      ∀ i (hi : i < spikeIds.length) row, storedRow tf (spikeIds[i]'hi) = some row →
        out.getD i [] = (List.range nTemplates).map fun c =>
          denseEntry zero row (colsRow tf nloc spikeTemplates (spikeIds[i]'hi)) c :=
  Lemmas.getTemplateFeatures_spec zero nan tf nloc nSpikes nTemplates spikeTemplates hst spikeIds hs hsr

/-! Non-vacuity (cells are integers, nan = -99) -/
example : fromSparse (0 : Int) [[10, 11, 12], [20, 21, 22]] [[4, 2, -1], [-1, 0, -1]] [2, 9, 0, 4] =
    some [[11, 0, 0, 10], [0, 0, 21, 0]] := by decide
example :
    let sf : Sparse Int := ⟨[[10, 11], [20, 21], [30, 31]], some [[0, 2], [1, -1]], some [7, 2, 5]⟩
    getFeatures 0 (-99) sf 2 [0, 0, 1, 0, 0, 1, 0, 0] [5, 3, 7] [2, 1, 0] =
      some [[0, 30, 0], [-99, 0, -99], [11, 0, 10]] := by decide
example : ColsOK [[4, 2, -1], [-1, 0, -1]] := by unfold ColsOK; decide

end PhyVerif.C06
