import PhyVerif.Model.C06
import PhyVerif.Spec.C06
import PhyVerif.Lemmas.C06
import PhyVerif.Model.C06b
import PhyVerif.Spec.C06b
import PhyVerif.Lemmas.C06b
/-!
# C06 — sparse feature storage is densified exactly
Only property theorems + non-vacuity examples; proofs in `Lemmas/C06.lean`.
-/
namespace PhyVerif.C06
open PhyVerif

variable {β : Type}

/-- `from_sparse`: for all data (cells of any type, i.e. any trailing dimensions), column tables
with distinct real entries and repeated −1, and any list of distinct requested channels (unknown
ones included): entry (i, j) is the stored value whose column index names channel j, else zero. -/
theorem fromSparse_spec (zero : β) (data : List (List β)) (cols : List (List Int)) (chans : List Nat)
    (hc : chans.Nodup) (hlen : data.length = cols.length)
    (hrow : ∀ p ∈ data.zip cols, p.1.length = p.2.length) (hcols : ColsOK cols) :
    fromSparse zero data cols chans =
      some ((data.zip cols).map fun p => chans.map fun c => denseEntry zero p.1 p.2 c) :=
  Lemmas.fromSparse_spec zero data cols chans hc hlen hrow hcols

/-- independence of the order of the requested channels: the value found for a channel does not
depend on where (or next to which other channels) it is requested -/
theorem fromSparse_order_independent (zero : β) (data : List (List β)) (cols : List (List Int))
    (chans chans' : List Nat)
    (out out' : List (List β)) (ho : fromSparse zero data cols chans = some out)
    (ho' : fromSparse zero data cols chans' = some out') (i j j' : Nat) (hj : j < chans.length)
    (hj' : j' < chans'.length) (heq : chans[j]'hj = chans'[j']'hj') :
    (out.getD i []).getD j zero = (out'.getD i []).getD j' zero :=
  Lemmas.fromSparse_order_independent zero data cols chans chans' out out' ho ho'
    i j j' hj hj' heq

/-- `get_features` / `get_template_features`: for every request of spikes in ANY order and every
list of distinct channels, with or without a row (spike id) table, the row returned at the position
of a STORED spike is the densification of that spike's stored row with the column table row of that
spike's template (all-channel `arange` when there is no column table).
`hs`: without a row table the requested spikes may repeat; WITH a row table they must be distinct —
there the real code (and the model) is wrong for a repeated STORED spike: `_index_of(s, spike_ids)`
(model.py:1036/1067) keeps only the last position of a repeated id, so every earlier occurrence stays
an all-NaN row (row table [1,3,5,6]: `get_features([3,3], …)` → row 0 NaN, row 1 data;
`get_template_features([5,1,5])` → first row NaN).  `hsr`: an id ≥ n_spikes raises IndexError. -/
theorem getFeatures_spec (zero nan : β) (sf : Sparse β) (nloc nSpikes nTemplates : Nat)
    (spikeTemplates : List Nat) (hst : StoreOK sf nloc nSpikes nTemplates spikeTemplates)
    (spikeIds chans : List Nat) (hs : sf.rows ≠ none → spikeIds.Nodup)
    (hsr : ∀ q ∈ spikeIds, q < nSpikes) (hc : chans.Nodup) :
    ∃ out, getFeatures zero nan sf nloc spikeTemplates spikeIds chans = some out ∧
      out.length = spikeIds.length ∧
      ∀ i (hi : i < spikeIds.length) row, storedRow sf (spikeIds[i]'hi) = some row →
        out.getD i [] = chans.map fun c =>
          denseEntry zero row (colsRow sf nloc spikeTemplates (spikeIds[i]'hi)) c :=
  Lemmas.getFeatures_spec zero nan sf nloc nSpikes nTemplates spikeTemplates hst spikeIds chans hs hsr hc

/-- template features: same statement over all templates `0 .. nTemplates-1` -/
theorem getTemplateFeatures_spec (zero nan : β) (tf : Sparse β) (nloc nSpikes nTemplates : Nat)
    (spikeTemplates : List Nat) (hst : StoreOK tf nloc nSpikes nTemplates spikeTemplates)
    (spikeIds : List Nat) (hs : tf.rows ≠ none → spikeIds.Nodup) (hsr : ∀ q ∈ spikeIds, q < nSpikes) :
    ∃ out, getTemplateFeatures zero nan tf nloc spikeTemplates nTemplates spikeIds = some out ∧
      out.length = spikeIds.length ∧
      ∀ i (hi : i < spikeIds.length) row, storedRow tf (spikeIds[i]'hi) = some row →
        out.getD i [] = (List.range nTemplates).map fun c =>
          denseEntry zero row (colsRow tf nloc spikeTemplates (spikeIds[i]'hi)) c :=
  Lemmas.getTemplateFeatures_spec zero nan tf nloc nSpikes nTemplates spikeTemplates hst spikeIds hs hsr

/-- shape of `from_sparse`: whenever the conversion succeeds there is one output row per data row
and every row has one column per requested channel (the discard column is gone). -/
theorem fromSparse_shape (zero : β) (data : List (List β)) (cols : List (List Int)) (chans : List Nat)
    (out : List (List β)) (ho : fromSparse zero data cols chans = some out) :
    out.length = data.length ∧ ∀ r ∈ out, r.length = chans.length :=
  Lemmas.fromSparse_shape zero data cols chans out ho

/-- shape of `get_features` / `get_template_features`: one row per requested spike (stored or not),
one column per requested channel. -/
theorem getFeatures_shape (zero nan : β) (sf : Sparse β) (nloc : Nat) (spikeTemplates : List Nat)
    (spikeIds chans : List Nat) (out : List (List β))
    (h : getFeatures zero nan sf nloc spikeTemplates spikeIds chans = some out) :
    out.length = spikeIds.length ∧ ∀ r ∈ out, r.length = chans.length :=
  Lemmas.getFeatures_shape zero nan sf nloc spikeTemplates spikeIds chans out h

/-- order independence at the `get_features` level: for the same spikes, the value returned for a
channel — on EVERY row, NaN rows of unstored spikes included — does not depend on where, or next to
which other channels, the channel is requested. -/
theorem getFeatures_order_independent (zero nan : β) (sf : Sparse β) (nloc : Nat)
    (spikeTemplates : List Nat) (spikeIds chans chans' : List Nat) (out out' : List (List β))
    (ho : getFeatures zero nan sf nloc spikeTemplates spikeIds chans = some out)
    (ho' : getFeatures zero nan sf nloc spikeTemplates spikeIds chans' = some out')
    (i j j' : Nat) (hj : j < chans.length) (hj' : j' < chans'.length)
    (heq : chans[j]'hj = chans'[j']'hj') :
    (out.getD i []).getD j zero = (out'.getD i []).getD j' zero :=
  Lemmas.getFeatures_order_independent zero nan sf nloc spikeTemplates spikeIds chans chans' out out'
    ho ho' i j j' hj hj' heq

/-- The PCA route (no feature file, a store of extracted spike waveforms): `get_features` returns an
`(n_spikes, n_channels, 3)` block whose entry (spike, channel j, component k) is, for a spike the
store holds, the projection `Σ_t waveform[spike, t, channel] · pcs[k, t, j]` of the spike's stored
waveform on that channel (ZERO samples where the spike's channel row does not list the channel; no
mean is subtracted) onto the k-th of the three components of that channel, and 0 for a spike the store
does not hold.  The components are `pcsOf` (= `_compute_pcs(·, 3)`, opaque) of the waveforms of the
requested spikes that are stored, taken in increasing spike-id order, on the requested channels.
Hypotheses = the domain of the real code: `hs` distinct requested spikes (a repeated stored spike
gets zeros at all but its last position — `_index_of(spike_ids_exist, spike_ids)`, model.py:1014 —,
same defect as with a row table); `hne` an empty channel list raises ValueError (`np.dstack` of
nothing); `hnsw`/`hpcs`: with fewer than 3 samples per waveform `_compute_pcs` returns fewer than 3
components and `compute_features` raises AssertionError. -/
theorem getFeaturesPca_spec (pcsOf : List Wav → List Wav) (sw : WStore) (nsw : Nat)
    (hsw : WStoreOK sw nsw) (hnsw : 0 < nsw) (spikeIds chans : List Nat) (hs : spikeIds.Nodup)
    (hc : chans.Nodup) (hne : chans ≠ [])
    (hpcs : (pcsOf (pcaBlock sw nsw spikeIds chans)).length = 3) :
    ∃ out, getFeaturesPca pcsOf sw nsw spikeIds chans = some out ∧ out.length = spikeIds.length ∧
      ∀ i (hi : i < spikeIds.length),
        (out.getD i []).length = chans.length ∧ (∀ r ∈ out.getD i [], r.length = 3) ∧
        ∀ j (hj : j < chans.length) k, k < 3 →
          ((out.getD i []).getD j []).getD k 0 =
            if spikeIds[i] ∈ sw.spikeIds then
              projection sw nsw (pcsOf (pcaBlock sw nsw spikeIds chans)) spikeIds[i] (chans[j]'hj) j k
            else 0 :=
  Lemmas.getFeaturesPca_spec pcsOf sw nsw hsw hnsw spikeIds chans hs hc hne hpcs

/-! Non-vacuity (cells are integers, nan = -99) -/
example : fromSparse (0 : Int) [[10, 11, 12], [20, 21, 22]] [[4, 2, -1], [-1, 0, -1]] [2, 9, 0, 4] =
    some [[11, 0, 0, 10], [0, 0, 21, 0]] := by decide
example :
    let sf : Sparse Int := ⟨[[10, 11], [20, 21], [30, 31]], some [[0, 2], [1, -1]], some [7, 2, 5]⟩
    getFeatures 0 (-99) sf 2 [0, 0, 1, 0, 0, 1, 0, 0] [5, 3, 7] [2, 1, 0] =
      some [[0, 30, 0], [-99, 0, -99], [11, 0, 10]] := by decide
example : ColsOK [[4, 2, -1], [-1, 0, -1]] := by unfold ColsOK; decide
-- two spikes of one template (the column row REPEATS) and a probe-wide request of 13 channels that leaves the stored
-- channel 5 out: it is discarded in BOTH rows (corpus/C06/sc_repeated_column_rows_probe_wide_request.json)
example : fromSparse (0 : Int) [[1, 2], [3, 4]] [[5, 10], [5, 10]] [0, 10, 20, 30, 40, 50, 60, 70, 80, 90, 100, 110, 120] =
    some [[0, 2, 0, 0, 0, 0, 0, 0, 0, 0, 0, 0, 0], [0, 4, 0, 0, 0, 0, 0, 0, 0, 0, 0, 0, 0]] := by decide +kernel
example : ColsOK [[5, 10], [5, 10]] ∧ [0, 10, 20, 30, 40, 50, 60, 70, 80, 90, 100, 110, 120].Nodup := by
  unfold ColsOK; decide
-- a store that LISTS ONE spike (a subset of one spike is a subset): spike 2 is served, spike 0 is not stored
example :
    let sf : Sparse Int := ⟨[[10, 11]], some [[0, 1], [1, 2]], some [2]⟩
    getFeatures 0 (-99) sf 2 [0, 1, 0, 1] [2, 0] [1, 0] = some [[11, 10], [-99, -99]] := by decide
example : StoreOK (⟨[[10, 11]], some [[0, 1], [1, 2]], some [2]⟩ : Sparse Int) 2 4 2 [0, 1, 0, 1] := by
  unfold StoreOK ColsOK; decide
-- without a row table a repeated request is served at both positions
example :
    let sf : Sparse Int := ⟨[[10, 11], [20, 21], [30, 31]], some [[0, 2], [1, -1]], none⟩
    getFeatures 0 (-99) sf 2 [0, 1, 0] [2, 2] [2, 1, 0] = some [[31, 0, 30], [31, 0, 30]] := by decide
-- with a row table a repeated STORED spike is NOT (all but the last occurrence read NaN): excluded by `hs`
example :
    let sf : Sparse Int := ⟨[[10, 11], [20, 21], [30, 31]], some [[0, 2], [1, -1]], some [7, 2, 5]⟩
    getFeatures 0 (-99) sf 2 [0, 0, 1, 0, 0, 1, 0, 0] [5, 5] [2, 1, 0] =
      some [[0, -99, 0], [0, 30, 0]] := by decide

/-! the PCA route: spikes 4 and 7 stored (rows padded with −1), 2 samples, requested channels 0 and 1,
spike 3 not stored -/
example : getFeaturesPca (fun _ => [[[1, 0], [0, 1]], [[1, 1], [1, 1]], [[0, 2], [1, 0]]])
      (⟨[4, 7], [[2, 0, -1], [1, -1, -1]], [[[1, 2, 0], [3, 4, 0]], [[5, 0, 0], [6, 0, 0]]]⟩ : WStore) 2 [7, 3, 4] [0, 1] =
    some [[[0, 0, 0], [6, 11, 10]], [[0, 0, 0], [0, 0, 0]], [[2, 6, 4], [0, 0, 0]]] := by decide +kernel
example : pcaBlock (⟨[4, 7], [[2, 0, -1], [1, -1, -1]], [[[1, 2, 0], [3, 4, 0]], [[5, 0, 0], [6, 0, 0]]]⟩ : WStore)
    2 [7, 3, 4] [0, 1] = [[[2, 0], [4, 0]], [[0, 5], [0, 6]]] := by decide +kernel
example : projection (⟨[4, 7], [[2, 0, -1], [1, -1, -1]], [[[1, 2, 0], [3, 4, 0]], [[5, 0, 0], [6, 0, 0]]]⟩ : WStore)
    2 [[[1, 0], [0, 1]], [[1, 1], [1, 1]], [[0, 2], [1, 0]]] 7 1 1 2 = 10 := by decide +kernel
example : WStoreOK (⟨[4, 7], [[2, 0, -1], [1, -1, -1]], [[[1, 2, 0], [3, 4, 0]], [[5, 0, 0], [6, 0, 0]]]⟩ : WStore) 2 := by
  unfold WStoreOK RowOK; decide
example : indexOfI [0, 2] [2, 0, -1, -1] = some [1, 0] := by decide
/-! a store in a layout the exporter does not write: stored spikes in decreasing order, −1 BEFORE a channel in a row -/
example : getFeaturesPca (fun _ => [[[1, 0], [0, 1]], [[1, 1], [1, 1]], [[0, 2], [1, 0]]])
      (⟨[7, 4], [[-1, 1, -1], [-1, 0, 2]], [[[0, 5, 0], [0, 6, 0]], [[0, 2, 1], [0, 4, 3]]]⟩ : WStore) 2 [7, 3, 4] [0, 1] =
    some [[[0, 0, 0], [6, 11, 10]], [[0, 0, 0], [0, 0, 0]], [[2, 6, 4], [0, 0, 0]]] := by decide +kernel
example : WStoreOK (⟨[7, 4], [[-1, 1, -1], [-1, 0, 2]], [[[0, 5, 0], [0, 6, 0]], [[0, 2, 1], [0, 4, 3]]]⟩ : WStore) 2 := by
  unfold WStoreOK RowOK; decide
example : indexOfI [0, 2] [-1, 0, 2] = some [1, 2] := by decide

end PhyVerif.C06
