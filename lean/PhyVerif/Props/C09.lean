import PhyVerif.Model.C09
import PhyVerif.Spec.C09
import PhyVerif.Lemmas.C09
/-!
# C09 — amplitude, depth, duration and peak-channel summaries follow their definitions
Only property theorems + non-vacuity examples; proofs in `Lemmas/C09.lean`.  Exact arithmetic.
-/
namespace PhyVerif.C09
open PhyVerif

/-- Scaled spike amplitude = stored amplitude × largest channel peak-to-peak of the spike's
unwhitened template. -/
theorem spikeAmp_eq (d : Data) (i : Nat) (hi : i < d.spikes.length) (ha : d.amplitudes.length = d.spikes.length) :
    (spikeAmps d).getD i 0 =
      listMax (chAmps (matMul (d.wfsW.getD (d.spikes.getD i 0) []) d.wmi)) * d.amplitudes.getD i 0 ∨
    d.wfsW.length ≤ d.spikes.getD i 0 :=
  Lemmas.spikeAmp_eq d i hi ha

/-- Per-id amplitude = mean of the scaled spike amplitudes over the member spikes, NaN for ids
without spikes — for EVERY id below the number of waveforms, including the highest. -/
theorem ampsV_eq_mean (d : Data) (ha : d.amplitudes.length = d.spikes.length) (t : Nat)
    (ht : t < d.wfsW.length) :
    (ampsV d).getD t none = meanOver d.spikes (spikeAmps d) t ∧ (ampsV d).length = d.wfsW.length :=
  Lemmas.ampsV_eq_mean d ha t ht

/-- `np.max`/`np.min` by folding: the fold result is an element of a non-empty list and bounds
every element. -/
theorem listMax_spec (l : List Rat) (h : l ≠ []) : listMax l ∈ l ∧ ∀ x ∈ l, x ≤ listMax l :=
  Lemmas.listMax_spec l h
theorem listMin_spec (l : List Rat) (h : l ≠ []) : listMin l ∈ l ∧ ∀ x ∈ l, listMin l ≤ x :=
  Lemmas.listMin_spec l h

/-- Scaling a sample vector by a non-negative factor scales its peak-to-peak amplitude. -/
theorem ptp_scale (v : List Rat) (c : Rat) (hc : 0 ≤ c) : ptp (v.map (· * c)) = ptp v * c :=
  Lemmas.ptp_scale v c hc

/-- The rescaled waveform of an id with spikes has exactly its mean spike amplitude as peak
amplitude (amplitudes ≥ 0, non-flat waveform, rectangular with ≥ 1 channel). -/
theorem rescaled_peak (d : Data) (ha : d.amplitudes.length = d.spikes.length)
    (hnn : ∀ a ∈ d.amplitudes, 0 ≤ a) (t : Nat) (ht : t < d.wfsW.length) (v : Rat)
    (hv : (ampsV d).getD t none = some v) (hau : 0 < (ampsAu d).getD t 0)
    (hrect : ∀ row ∈ (unwhitened d).getD t [], row.length = ncols ((unwhitened d).getD t []))
    (hcols : 0 < ncols ((unwhitened d).getD t [])) :
    ∃ W, (rescaled d).getD t none = some W ∧ listMax (chAmps W) = v :=
  Lemmas.rescaled_peak d ha hnn t ht v hv hau hrect hcols

/-- `_amplitudes`: one entry per id present, in increasing order, holding the mean stored
amplitude of its spikes. -/
theorem meanAmps_eq (ids : List Nat) (amps : List Rat) (h : amps.length = ids.length) :
    meanAmps ids amps = (Np.unique (ids.map Int.ofNat)).map fun t =>
      (t, ((membersOf ids t).map fun i => amps.getD i 0).sum / ((membersOf ids t).length : Nat)) :=
  Lemmas.meanAmps_eq ids amps h

/-- `np.argmax` / `np.argmin` as used for peak channels and peak/trough samples: the first
position of the maximum / minimum. -/
theorem argmaxFirst_spec (l : List Rat) (h : l ≠ []) : IsFirstMax l (argmaxFirst l) :=
  Lemmas.argmaxFirst_spec l h
theorem argminFirst_spec (l : List Rat) (h : l ≠ []) : IsFirstMin l (argminFirst l) :=
  Lemmas.argminFirst_spec l h

/-- Depth of a spike: feature-weighted mean of the depths of its template's channels (weights =
squared positive part of the first component), NaN when the positive part vanishes. -/
theorem depths_eq (feat0 : List (List Rat)) (cols : List (List Nat)) (ys : List Rat)
    (st : List Nat) (i : Nat) (hi : i < feat0.length) (hl : st.length = feat0.length) :
    (depths feat0 cols ys st).getD i none =
      (let f := (feat0.getD i []).map fun x => (max x 0) * (max x 0)
       let y := (cols.getD (st.getD i 0) []).map fun c => ys.getD c 0
       if f.sum = 0 then none else some (dot y f / f.sum)) :=
  Lemmas.depths_eq feat0 cols ys st i hi hl

/-! Non-vacuity -/
example :
    let d : Data := ⟨[[[1, 0], [-1, 2]], [[0, 3], [0, -3]], [[5, 5], [1, 1]]], [[2, 0], [0, 1/2]],
                     [1, 2, 1/2], [0, 0, 1]⟩
    ampsAu d = [4, 3, 8] ∧ spikeAmps d = [4, 8, 3/2] ∧ ampsV d = [some 6, some (3/2), none] := by
  decide +kernel
example : durations [[[1, 0], [-1, 2], [3, 1]]] = [1] ∧ peakChannels [[[1, 0], [-1, 2], [3, 1]]] = [0] := by
  decide +kernel
example : depths [[1, -2, 2]] [[0, 1, 2]] [10, 20, 40] [0] = [some 34] := by decide +kernel

end PhyVerif.C09
