import PhyVerif.Model.C09
import PhyVerif.Spec.C09
import PhyVerif.Lemmas.C09
import PhyVerif.Lemmas.C09b
import PhyVerif.Lemmas.C09c
/-!
# C09 — amplitude, depth, duration and peak-channel summaries follow their definitions
Only property theorems + non-vacuity examples; proofs in `Lemmas/C09.lean`.  Exact arithmetic.
-/
namespace PhyVerif.C09
open PhyVerif

/-- Scaled spike amplitude = stored amplitude × largest channel peak-to-peak of the spike's
unwhitened template. -/
theorem spikeAmp_eq (d : Data) (i : Nat) (hi : i < d.spikes.length) (ha : d.amplitudes.length = d.spikes.length) :
    (spikeAmps d).getD i 0 =
      listMax (chAmps (matMul (d.wfsW.getD (d.spikes.getD i 0) []) d.wmi)) * d.amplitudes.getD i 0 ∨
    d.wfsW.length ≤ d.spikes.getD i 0 :=
  Lemmas.spikeAmp_eq d i hi ha

/-- Per-id amplitude = mean of the scaled spike amplitudes over the member spikes, NaN for ids
without spikes — for EVERY id below the number of waveforms, including the highest. -/
theorem ampsV_eq_mean (d : Data) (ha : d.amplitudes.length = d.spikes.length) (t : Nat)
    (ht : t < d.wfsW.length) :
    (ampsV d).getD t none = meanOver d.spikes (spikeAmps d) t ∧ (ampsV d).length = d.wfsW.length :=
  Lemmas.ampsV_eq_mean d ha t ht

/-- `np.max`/`np.min` by folding: the fold result is an element of a non-empty list and bounds
every element. -/
theorem listMax_spec (l : List Rat) (h : l ≠ []) : listMax l ∈ l ∧ ∀ x ∈ l, x ≤ listMax l :=
  Lemmas.listMax_spec l h
theorem listMin_spec (l : List Rat) (h : l ≠ []) : listMin l ∈ l ∧ ∀ x ∈ l, listMin l ≤ x :=
  Lemmas.listMin_spec l h

/-- Scaling a sample vector by a non-negative factor scales its peak-to-peak amplitude. -/
theorem ptp_scale (v : List Rat) (c : Rat) (hc : 0 ≤ c) : ptp (v.map (· * c)) = ptp v * c :=
  Lemmas.ptp_scale v c hc

/-- The rescaled waveform of an id with spikes has exactly its mean spike amplitude as peak
amplitude (amplitudes ≥ 0, non-flat waveform, rectangular with ≥ 1 channel). -/
theorem rescaled_peak (d : Data) (ha : d.amplitudes.length = d.spikes.length)
    (hnn : ∀ a ∈ d.amplitudes, 0 ≤ a) (t : Nat) (ht : t < d.wfsW.length) (v : Rat)
    (hv : (ampsV d).getD t none = some v) (hau : 0 < (ampsAu d).getD t 0)
    (hrect : ∀ row ∈ (unwhitened d).getD t [], row.length = ncols ((unwhitened d).getD t []))
    (hcols : 0 < ncols ((unwhitened d).getD t [])) :
    ∃ W, (rescaled d).getD t none = some W ∧ listMax (chAmps W) = v :=
  Lemmas.rescaled_peak d ha hnn t ht v hv hau hrect hcols

/-- `_amplitudes`: one entry per id present, in increasing order, holding the mean stored
amplitude of its spikes. -/
theorem meanAmps_eq (ids : List Nat) (amps : List Rat) (h : amps.length = ids.length) :
    meanAmps ids amps = (Np.unique (ids.map Int.ofNat)).map fun t =>
      (t, ((membersOf ids t).map fun i => amps.getD i 0).sum / ((membersOf ids t).length : Nat)) :=
  Lemmas.meanAmps_eq ids amps h

/-- `np.argmax` / `np.argmin` as used for peak channels and peak/trough samples: the first
position of the maximum / minimum. -/
theorem argmaxFirst_spec (l : List Rat) (h : l ≠ []) : IsFirstMax l (argmaxFirst l) :=
  Lemmas.argmaxFirst_spec l h
theorem argminFirst_spec (l : List Rat) (h : l ≠ []) : IsFirstMin l (argminFirst l) :=
  Lemmas.argminFirst_spec l h

/-- Depth of a spike: feature-weighted mean of the depths of its template's channels (weights =
squared positive part of the first component), NaN when the positive part vanishes. -/
theorem depths_eq (feat0 : List (List Rat)) (cols : List (List Nat)) (ys : List Rat)
    (st : List Nat) (i : Nat) (hi : i < feat0.length) (hl : st.length = feat0.length) :
    (depths feat0 cols ys st).getD i none =
      (let f := (feat0.getD i []).map fun x => (max x 0) * (max x 0)
       let y := (cols.getD (st.getD i 0) []).map fun c => ys.getD c 0
       if f.sum = 0 then none else some (dot y f / f.sum)) :=
  Lemmas.depths_eq feat0 cols ys st i hi hl

/-! ## Second part: the unit factor, peak channels, durations in milliseconds, explicit sums
(model: `Model/C09b.lean`, entry-level specification: `Spec/C09b.lean`, proofs: `Lemmas/C09b.lean`) -/

/-- RETURNED spike amplitude (`get_amplitudes_true(...)[0]`) = stored amplitude × largest channel
peak-to-peak of the spike's unwhitened template × unit factor, for every spike whose id is below the number
of waveforms (otherwise the real code raises `IndexError` at model.py:1158; with amplitudes and spikes of
different length it raises `ValueError`).  What "largest channel peak-to-peak" and the matrix product are in
terms of entries: `peakAmp_spec`, `matMul_entry`. -/
theorem spikeAmpUnit_eq (d : Data) (f : Rat) (i : Nat) (hi : i < d.spikes.length)
    (ha : d.amplitudes.length = d.spikes.length) (hs : d.spikes.getD i 0 < d.wfsW.length) :
    (spikeAmpsUnit d f).getD i 0 =
      d.amplitudes.getD i 0 *
        listMax (chAmps (matMul (d.wfsW.getD (d.spikes.getD i 0) []) d.wmi)) * f ∧
    (spikeAmpsUnit d f).length = d.spikes.length :=
  Lemmas.spikeAmpUnit_eq d f i hi ha hs

/-- `listMax (chAmps W)` IS the largest channel peak-to-peak of a rectangular `(ns, nc)` waveform with at
least one sample and one channel, stated on entries only: some channel has it as (largest sample − smallest
sample), and no channel has more.  (Zero samples / zero channels: the real code raises `ValueError`, reduction
over an empty axis.) -/
theorem peakAmp_spec (W : Mat) (ns nc : Nat) (h : Rect W ns nc) (hns : 0 < ns) (hnc : 0 < nc) :
    IsPeakAmp W nc (listMax (chAmps W)) :=
  Lemmas.peakAmp_spec W ns nc h hns hnc

/-- Entry of the unwhitened waveform `np.matmul(W, wmi)`: `Σ_k W[s,k] · M[k,j]` (row of `W` as long as `M` has
rows; a shape mismatch makes the real `matmul` raise). -/
theorem matMul_entry (W M : Mat) (s j : Nat) (hs : s < W.length) (hj : j < ncols M)
    (hrow : (W.getD s []).length = M.length) :
    entry (matMul W M) s j = sumTo M.length fun k => entry W s k * entry M k j :=
  Lemmas.matMul_entry W M s j hs hj hrow

/-- RETURNED per-id amplitude (`[2]`) = mean of the RETURNED spike amplitudes (`[0]`) over the member spikes,
NaN for ids without spikes — for every id below the number of waveforms, any unit factor. -/
theorem ampsVUnit_eq_mean (d : Data) (f : Rat) (ha : d.amplitudes.length = d.spikes.length) (t : Nat)
    (ht : t < d.wfsW.length) :
    (ampsVUnit d f).getD t none = meanOver d.spikes (spikeAmpsUnit d f) t ∧
    (ampsVUnit d f).length = d.wfsW.length :=
  Lemmas.ampsVUnit_eq_mean d f ha t ht

/-- Scaling a sample vector by ANY factor scales its peak-to-peak amplitude by the absolute value. -/
theorem ptp_scale_abs (v : List Rat) (c : Rat) : ptp (v.map (· * c)) = ptp v * |c| :=
  Lemmas.ptp_scale_abs v c

/-- The RETURNED waveform (`[1]`) of an id with spikes has exactly the RETURNED per-id amplitude `v` (`[2]`) as
its peak amplitude (largest channel peak-to-peak, on entries), for stored amplitudes ≥ 0 and a unit factor
≥ 0; non-flat unwhitened waveform (`hau`; a flat one divides by zero: NaN/inf in the real code, `none` here),
rectangular with ≥ 1 sample and ≥ 1 channel.  Entry by entry it is the unwhitened waveform × (returned amplitude /
arbitrary-unit amplitude). -/
theorem rescaledUnit_peak (d : Data) (f : Rat) (hnn : ∀ a ∈ d.amplitudes, 0 ≤ a) (hf : 0 ≤ f)
    (t : Nat) (ht : t < d.wfsW.length) (v : Rat)
    (hv : (ampsVUnit d f).getD t none = some v) (hau : 0 < (ampsAu d).getD t 0) (ns nc : Nat)
    (hns : 0 < ns) (hnc : 0 < nc) (hrect : Rect ((unwhitened d).getD t []) ns nc) :
    ∃ W, (rescaledUnit d f).getD t none = some W ∧ Rect W ns nc ∧ IsPeakAmp W nc v ∧
      ∀ s j, entry W s j = entry ((unwhitened d).getD t []) s j * (v / (ampsAu d).getD t 0) :=
  Lemmas.rescaledUnit_peak_nonneg d f hnn hf t ht v hv hau ns nc hns hnc hrect

/-- What holds WITHOUT any sign condition (negative stored amplitudes, negative unit factor): the peak amplitude
of the returned waveform is the ABSOLUTE VALUE of the returned per-id amplitude.  So for a negative factor (or a
negative mean amplitude) the clause "exactly that peak amplitude" is false in the real code by a sign — a
peak-to-peak is never negative (real code run with factor −2.5: returned amplitudes [−21.875, −28.125], peak
amplitudes of the returned waveforms [+21.875, +28.125]). -/
theorem rescaledUnit_peak_abs (d : Data) (f : Rat) (t : Nat) (ht : t < d.wfsW.length) (v : Rat)
    (hv : (ampsVUnit d f).getD t none = some v) (hau : 0 < (ampsAu d).getD t 0) (ns nc : Nat)
    (hns : 0 < ns) (hnc : 0 < nc) (hrect : Rect ((unwhitened d).getD t []) ns nc) :
    ∃ W, (rescaledUnit d f).getD t none = some W ∧ Rect W ns nc ∧ IsPeakAmp W nc |v| ∧
      ∀ s j, entry W s j = entry ((unwhitened d).getD t []) s j * (v / (ampsAu d).getD t 0) :=
  Lemmas.rescaledUnit_peak_full d f t ht v hv hau ns nc hns hnc hrect

/-- Factor ≤ 0 with stored amplitudes ≥ 0: the peak amplitude is MINUS the returned per-id amplitude. -/
theorem rescaledUnit_peak_neg (d : Data) (f : Rat) (hnn : ∀ a ∈ d.amplitudes, 0 ≤ a) (hf : f ≤ 0)
    (t : Nat) (ht : t < d.wfsW.length) (v : Rat)
    (hv : (ampsVUnit d f).getD t none = some v) (hau : 0 < (ampsAu d).getD t 0) (ns nc : Nat)
    (hns : 0 < ns) (hnc : 0 < nc) (hrect : Rect ((unwhitened d).getD t []) ns nc) :
    ∃ W, (rescaledUnit d f).getD t none = some W ∧ Rect W ns nc ∧ IsPeakAmp W nc (-v) ∧
      ∀ s j, entry W s j = entry ((unwhitened d).getD t []) s j * (v / (ampsAu d).getD t 0) :=
  Lemmas.rescaledUnit_peak_nonpos d f hnn hf t ht v hv hau ns nc hns hnc hrect

/-- `_channels` (dense) / `templates_channels` / `clusters_channels`: entry `t` is THE peak channel of waveform
`t` — the FIRST channel attaining the largest peak-to-peak (largest − smallest sample) — for a rectangular
waveform with ≥ 1 sample and ≥ 1 channel; one entry per waveform. -/
theorem peakChannels_spec (wfs : List Mat) (t ns nc : Nat) (ht : t < wfs.length)
    (hrect : Rect (wfs.getD t []) ns nc) (hns : 0 < ns) (hnc : 0 < nc) :
    IsPeakChannel (wfs.getD t []) nc ((peakChannels wfs).getD t 0) ∧
    (peakChannels wfs).length = wfs.length :=
  Lemmas.peakChannels_spec wfs t ns nc ht hrect hns hnc

/-- `_waveform_durations` in MILLISECONDS, direct formula: for THE peak channel `p` of waveform `t`, THE first
position `iM` of the maximum and THE first position `im` of the minimum along time on that channel, entry `t`
is `(iM − im) · 1000 / rate`, i.e. entry × rate = samples × 1000 (this second form is FALSE at rate 0, where the
model's `x / 0 = 0` would make the first one hold for the wrong reason: `hr` is needed); one entry per waveform.
All waveforms are `(ns, nc)` slices of one array, ≥ 1 sample, ≥ 1 channel.  `hr : 0 < rate` is the real domain:
`TemplateModel.__init__` asserts `self.sample_rate > 0` (model.py:338), a dataset with rate ≤ 0 does not load.
That `p`, `iM`, `im` exist (and are unique): `duration_objects_exist`. -/
theorem duration_ms_spec (wfs : List Mat) (rate : Rat) (hr : 0 < rate) (ns nc : Nat) (hns : 0 < ns)
    (hnc : 0 < nc) (hrect : ∀ W ∈ wfs, Rect W ns nc) (t : Nat) (ht : t < wfs.length) (p iM im : Nat)
    (hp : IsPeakChannel (wfs.getD t []) nc p) (hM : IsFirstMax (chan (wfs.getD t []) p) iM)
    (hm : IsFirstMin (chan (wfs.getD t []) p) im) :
    (waveformDurations wfs rate).getD t 0 = (((iM : Int) - (im : Int) : Int) : Rat) * 1000 / rate ∧
    (waveformDurations wfs rate).getD t 0 * rate = (((iM : Int) - (im : Int) : Int) : Rat) * 1000 ∧
    (waveformDurations wfs rate).length = wfs.length :=
  ⟨Lemmas.duration_ms_spec wfs rate ns nc hns hnc hrect t ht p iM im hp hM hm,
   Lemmas.duration_times_rate _ _ rate hr (Lemmas.duration_ms_spec wfs rate ns nc hns hnc hrect t ht p iM im hp hM hm),
   Lemmas.waveformDurations_length wfs rate⟩

/-- The peak channel and the first arg-max / arg-min along time that `duration_ms_spec` quantifies over exist. -/
theorem duration_objects_exist (W : Mat) (ns nc : Nat) (h : Rect W ns nc) (hns : 0 < ns) (hnc : 0 < nc) :
    ∃ p iM im, IsPeakChannel W nc p ∧ IsFirstMax (chan W p) iM ∧ IsFirstMin (chan W p) im :=
  Lemmas.duration_objects_exist W ns nc h hns hnc

/-- `get_depths` entry `i` as an explicit finite sum over the `nloc` local channels `c_k` of the spike's
template: `Σ_k y(c_k)·w_k / Σ_k w_k` with `w_k = max(feature_k, 0)²`, NaN when all weights vanish.  Index bounds
as in the real arrays (a template id beyond the channel table or a channel beyond the positions raises
`IndexError`; `-1` padding in `pc_feature_ind` does too — outside the quantifier). -/
theorem depth_direct (feat0 : List (List Rat)) (cols : List (List Nat)) (ys : List Rat) (st : List Nat)
    (i nloc : Nat) (hi : i < feat0.length) (hl : st.length = feat0.length)
    (hf : (feat0.getD i []).length = nloc) (hst : st.getD i 0 < cols.length)
    (hc : (cols.getD (st.getD i 0) []).length = nloc)
    (hb : ∀ c ∈ cols.getD (st.getD i 0) [], c < ys.length) :
    (depths feat0 cols ys st).getD i none =
      (let w := fun k => max ((feat0.getD i []).getD k 0) 0 * max ((feat0.getD i []).getD k 0) 0
       let y := fun k => ys.getD ((cols.getD (st.getD i 0) []).getD k 0) 0
       if sumTo nloc w = 0 then none else some (sumTo nloc (fun k => y k * w k) / sumTo nloc w)) :=
  Lemmas.depth_direct feat0 cols ys st i nloc hi hl hf hst hc hb

/-! ## Third part: WHICH stored arrays each summary is computed from (model: `Model/C09c.lean`,
specification: `Spec/C09c.lean`, proofs: `Lemmas/C09c.lean`).  `Stored` holds the files of the dataset; nothing is
read back from a loaded model. -/

/-- The id space of `get_amplitudes_true(use=…)`, `*_channels`, `*_waveforms_durations`: the per-cluster summaries
(`clusters = true`) are indexed by `spike_clusters` and have one entry per id from 0 to the HIGHEST cluster id once
anything was curated, one entry per TEMPLATE otherwise (cluster ids are then template ids, including the ids of
templates — the highest one too — that no spike uses); the per-template ones are indexed by `spike_templates`, one
per template.  The waveform array, the declared count `n_wav` and this number agree.
The content is the PER-CLUSTER case (the array and the count come out of `C08.loadClusters`); the per-template case
holds by definition of `useArrays` and is stated separately as `useArrays_templates_def`. -/
theorem useArrays_clusters_spec (s : Stored) :
    (useArrays s true).1.length = (if s.sc ≠ s.st then s.sc.foldl max 0 + 1 else s.templates.length) ∧
    (useArrays s true).2.2 = (if s.sc ≠ s.st then s.sc.foldl max 0 + 1 else s.templates.length) ∧
    (useArrays s true).2.1 = s.sc ∧
    idCount s true = (if s.sc ≠ s.st then s.sc.foldl max 0 + 1 else s.templates.length) :=
  Lemmas.useArrays_clusters_spec s

/-- Per template, BY DEFINITION of the model (`rfl`; no content beyond `useArrays` mirroring model.py:1140-1147): the
stored templates, `spike_templates`, one id per template. -/
theorem useArrays_templates_def (s : Stored) :
    useArrays s false = (s.templates, s.st, s.templates.length) ∧ idCount s false = s.templates.length ∧
    assignment s false = s.st :=
  ⟨rfl, by simp [idCount], rfl⟩

/-- `get_amplitudes_true` never fails on the count mismatch (`n_wav` vs. the waveform array) in either id space.
`hin`: every spike's id is below the number of ids of the space — otherwise `templates_amps_au[spikes]`
(model.py:1164) raises IndexError and there is no result (`amplitudesTrueUse_none`; the model used to read 0 through
`getD` there).  On a dataset that loads `hin` holds (`assignment_lt_idCount`). -/
theorem amplitudesTrueUse_defined (s : Stored) (clusters : Bool) (f : Rat)
    (hin : ∀ t ∈ assignment s clusters, t < idCount s clusters) :
    amplitudesTrueUse s clusters f = some (amplitudesTrue (useData s clusters) f) :=
  Lemmas.amplitudesTrueUse_defined s clusters f hin

/-- A spike whose id is beyond the id space: no result (real code: IndexError at model.py:1164). -/
theorem amplitudesTrueUse_none (s : Stored) (clusters : Bool) (f : Rat)
    (hout : ∃ t ∈ assignment s clusters, idCount s clusters ≤ t) : amplitudesTrueUse s clusters f = none :=
  Lemmas.amplitudesTrueUse_none s clusters f hout

/-- `hin` holds in both id spaces as soon as every spike's TEMPLATE exists (`hst`; the loader fails otherwise):
cluster ids are below `max(spike_clusters) + 1` after curation and are the template ids before. -/
theorem assignment_lt_idCount (s : Stored) (clusters : Bool) (hst : ∀ t ∈ s.st, t < s.templates.length) :
    ∀ t ∈ assignment s clusters, t < idCount s clusters :=
  Lemmas.assignment_lt_idCount s clusters hst

/-- THE NaN CLAUSE on the stored arrays, both id spaces, any unit factor: for every id `t` below the number of ids
of the space (so also the highest one) the returned per-id amplitude is the mean of the returned spike amplitudes
over the member spikes; it is NaN EXACTLY when `t` does not occur in the STORED assignment (the set of spike-less
ids is computed from `spike_templates.npy` / `spike_clusters.npy`, not taken from the loaded model's `nan_idx`),
and then the returned waveform is NaN too.  The defaults `some 0` / `some []` show that index `t` exists.
(`ha`: amplitudes and assignment of different length make the real code raise ValueError.  `hin`: a spike id beyond the
id space makes it raise IndexError, see `amplitudesTrueUse_defined`.) -/
theorem ampsUse_spec (s : Stored) (clusters : Bool) (f : Rat)
    (ha : s.amplitudes.length = (assignment s clusters).length)
    (hin : ∀ t ∈ assignment s clusters, t < idCount s clusters) (t : Nat) (ht : t < idCount s clusters) :
    ∃ sa resc av, amplitudesTrueUse s clusters f = some (sa, resc, av) ∧
      sa.length = (assignment s clusters).length ∧ resc.length = idCount s clusters ∧
      av.length = idCount s clusters ∧
      av.getD t none = meanOver (assignment s clusters) sa t ∧
      (av.getD t (some 0) = none ↔ t ∉ assignment s clusters) ∧
      (t ∉ assignment s clusters → resc.getD t (some []) = none) :=
  Lemmas.ampsUse_spec s clusters f ha hin t ht

/-- The same at `Data` level: NaN exactly for the ids without a spike. -/
theorem ampsVUnit_none_iff (d : Data) (f : Rat) (ha : d.amplitudes.length = d.spikes.length) (t : Nat)
    (ht : t < d.wfsW.length) : (ampsVUnit d f).getD t none = none ↔ t ∉ d.spikes :=
  Lemmas.ampsVUnit_none_iff d f ha t ht

/-- Peak channels and durations (ms) of either id space are the direct formulas on ITS waveforms — the stored
templates, or the cluster waveforms of C08 (`C08.loadClusters`: template waveform / count-weighted mean / zeros for
a curated id without spikes / the template array itself when nothing was curated) — one entry per id, also for ids
without spikes (no NaN there: the statement's NaN clause is about amplitudes).  `hst`: a spike of a template beyond
the template array makes the real loader fail.  `hr : 0 < rate` as in `duration_ms_spec` (`TemplateModel.__init__`
asserts `sample_rate > 0`): the last conjunct, entry × rate = samples × 1000, is false at rate 0, where the model's
`x / 0 = 0` would make the `/ rate` form hold for the wrong reason. -/
theorem summariesUse_spec (s : Stored) (clusters : Bool) (rate : Rat) (hr : 0 < rate)
    (hst : ∀ t ∈ s.st, t < s.templates.length) (hW : ∀ M ∈ s.templates, Rect M s.ns s.nc)
    (hns : 0 < s.ns) (hnc : 0 < s.nc) (t : Nat) (ht : t < idCount s clusters) :
    (channelsUse s clusters).length = idCount s clusters ∧
    (durationsUse s clusters rate).length = idCount s clusters ∧
    ∃ p iM im, IsPeakChannel ((useArrays s clusters).1.getD t []) s.nc p ∧
      IsFirstMax (chan ((useArrays s clusters).1.getD t []) p) iM ∧
      IsFirstMin (chan ((useArrays s clusters).1.getD t []) p) im ∧
      (channelsUse s clusters).getD t 0 = p ∧
      (durationsUse s clusters rate).getD t 0 = (((iM : Int) - (im : Int) : Int) : Rat) * 1000 / rate ∧
      (durationsUse s clusters rate).getD t 0 * rate = (((iM : Int) - (im : Int) : Int) : Rat) * 1000 :=
  Lemmas.summariesUse_spec s clusters rate hr hst hW hns hnc t ht

/-- Bookkeeping, true by unfolding (`rfl`) — NOT a statement about the code: the one-pass evaluation used by the driver
is, component by component, the definitions the theorems above are about. -/
theorem summariesUse_unfold (s : Stored) (clusters : Bool) (f rate : Rat) :
    summariesUse s clusters f rate =
      (useArrays s clusters, amplitudesTrueUse s clusters f, channelsUse s clusters, durationsUse s clusters rate) :=
  rfl

/-- `templates_probes`: entry `t` is the stored probe of THE peak channel of template `t`; one per template. -/
theorem templatesProbes_spec (probes : List Int) (templates : List Mat) (t ns nc : Nat)
    (ht : t < templates.length) (hrect : Rect (templates.getD t []) ns nc) (hns : 0 < ns) (hnc : 0 < nc)
    (hp : probes.length = nc) :
    (templatesProbes probes templates).length = templates.length ∧
    ∃ p, IsPeakChannel (templates.getD t []) nc p ∧ p < probes.length ∧
      (templatesProbes probes templates).getD t 0 = probes.getD p 0 :=
  Lemmas.templatesProbes_spec probes templates t ns nc ht hrect hns hnc hp

/-- `templates_amplitudes` / `clusters_amplitudes` AS RETURNED (a bare vector): one entry per id PRESENT, position
`k` belongs to the `k`-th smallest present id (`Np.unique`: strictly increasing, exactly the ids present —
`C07.unique_spec`) and holds the mean stored amplitude of that id's spikes (a non-empty set).  Ids without spikes
have NO entry here, unlike in `get_amplitudes_true`. -/
theorem amplitudesVec_spec (ids : List Nat) (amps : List Rat) (h : amps.length = ids.length) :
    (amplitudesVec ids amps).length = (Np.unique (ids.map Int.ofNat)).length ∧
    ∀ k, k < (Np.unique (ids.map Int.ofNat)).length →
      (Np.unique (ids.map Int.ofNat)).getD k 0 ∈ ids ∧
      0 < (membersOf ids ((Np.unique (ids.map Int.ofNat)).getD k 0)).length ∧
      (amplitudesVec ids amps).getD k 0 =
        ((membersOf ids ((Np.unique (ids.map Int.ofNat)).getD k 0)).map fun i => amps.getD i 0).sum /
          ((membersOf ids ((Np.unique (ids.map Int.ofNat)).getD k 0)).length : Nat) :=
  Lemmas.amplitudesVec_spec ids amps h

/-- "UNWHITENED": when the inverse whitening matrix really inverts the whitening matrix (`wm · wmi = 1`, both
`nc × nc`), multiplying the STORED (whitened) waveform `U · wm` by `wmi` — what `get_amplitudes_true` does before
taking peak-to-peak amplitudes — gives back the physical waveform `U`, entry by entry.  (A dataset that stores only
`whitening_mat_inv.npy` has `wm = 1` in the real model while `wmi` is the stored file: there "unwhitened" just means
"times the stored inverse" and this hypothesis does not hold.) -/
theorem unwhiten_whitened (U wm wmi : Mat) (ns nc : Nat) (hU : Rect U ns nc) (hnc : 0 < nc)
    (hinv : Unwhitens wm wmi nc) (s j : Nat) (hs : s < ns) (hj : j < nc) :
    entry (matMul (matMul U wm) wmi) s j = entry U s j :=
  Lemmas.unwhiten_whitened U wm wmi ns nc hU hnc hinv s j hs hj

/-! Non-vacuity -/
example :
    let d : Data := ⟨[[[1, 0], [-1, 2]], [[0, 3], [0, -3]], [[5, 5], [1, 1]]], [[2, 0], [0, 1/2]],
                     [1, 2, 1/2], [0, 0, 1]⟩
    amplitudesTrue d (5/2) =
      ([10, 20, 15/4],
       [some [[15/2, 0], [-15/2, 15/4]], some [[0, 15/8], [0, -15/8]], none],
       [some 15, some (15/4), none]) ∧
    (ampsAu d).getD 0 0 = 4 ∧ (unwhitened d).getD 0 [] = [[2, 0], [-2, 1]] := by
  decide +kernel
/-- negative factor: returned amplitude −15, peak amplitude of the returned waveform +15 -/
example :
    let d : Data := ⟨[[[1, 0], [-1, 2]]], [[2, 0], [0, 1/2]], [1, 2], [0, 0]⟩
    ampsVUnit d (-5/2) = [some (-15)] ∧
    (rescaledUnit d (-5/2)).map (fun o => o.map fun W => listMax (chAmps W)) = [some 15] := by
  decide +kernel
/-- two channels tie on the largest peak-to-peak (4): the first one is the peak channel; the duration is taken on it -/
example :
    let wfs : List Mat := [[[1, 0, 4], [-1, 2, 0], [3, 1, 2]], [[0, 0, 1], [0, 5, 0], [0, -1, 0]]]
    peakChannels wfs = [0, 1] ∧ durTable wfs = [[1, 1, -1], [0, -1, -1]] ∧ ravelIndex 3 (peakChannels wfs) = [0, 4] ∧
    waveformDurations wfs 30000 = [1/30, -1/30] ∧ waveformDurations wfs (390625/16) = [128/3125, -128/3125] := by
  decide +kernel
example : Rect [[1, 0, 4], [-1, 2, 0], [3, 1, 2]] 3 3 := ⟨rfl, by decide⟩

/-! The hypotheses of the new theorems are met by concrete inputs (each theorem applied to one). -/
section Instances
def exD : Data := ⟨[[[1, 0], [-1, 2]], [[0, 3], [0, -3]], [[5, 5], [1, 1]]], [[2, 0], [0, 1/2]], [1, 2, 1/2], [0, 0, 1]⟩
def exW : List Mat := [[[1, 0, 4], [-1, 2, 0], [3, 1, 2]], [[0, 0, 1], [0, 5, 0], [0, -1, 0]]]

example : (spikeAmpsUnit exD (5/2)).getD 1 0 = 2 * 4 * (5/2) := by
  have h := (spikeAmpUnit_eq exD (5/2) 1 (by decide) (by decide) (by decide)).1
  rwa [show listMax (chAmps (matMul (exD.wfsW.getD (exD.spikes.getD 1 0) []) exD.wmi)) = 4 by decide +kernel,
    show exD.amplitudes.getD 1 0 = 2 by decide +kernel] at h
example : (ampsVUnit exD (5/2)).getD 0 none = meanOver exD.spikes (spikeAmpsUnit exD (5/2)) 0 :=
  (ampsVUnit_eq_mean exD (5/2) (by decide) 0 (by decide)).1
example : meanOver exD.spikes (spikeAmpsUnit exD (5/2)) 0 = some 15 ∧
    meanOver exD.spikes (spikeAmpsUnit exD (5/2)) 2 = none := by decide +kernel
example : ∃ W, (rescaledUnit exD (5/2)).getD 0 none = some W ∧ Rect W 2 2 ∧ IsPeakAmp W 2 15 ∧
    ∀ s j, entry W s j = entry ((unwhitened exD).getD 0 []) s j * (15 / (ampsAu exD).getD 0 0) :=
  rescaledUnit_peak exD (5/2) (by decide +kernel) (by decide +kernel) 0 (by decide) 15 (by decide +kernel)
    (by decide +kernel) 2 2 (by decide) (by decide) ⟨by decide +kernel, by decide +kernel⟩
example : ∃ W, (rescaledUnit exD (-5/2)).getD 0 none = some W ∧ Rect W 2 2 ∧ IsPeakAmp W 2 (-(-15)) ∧
    ∀ s j, entry W s j = entry ((unwhitened exD).getD 0 []) s j * (-15 / (ampsAu exD).getD 0 0) :=
  rescaledUnit_peak_neg exD (-5/2) (by decide +kernel) (by decide +kernel) 0 (by decide) (-15) (by decide +kernel)
    (by decide +kernel) 2 2 (by decide) (by decide) ⟨by decide +kernel, by decide +kernel⟩
example : IsPeakChannel (exW.getD 0 []) 3 0 := by
  have h := (peakChannels_spec exW 0 3 3 (by decide) ⟨by decide, by decide⟩ (by decide) (by decide)).1
  rwa [show (peakChannels exW).getD 0 0 = 0 by decide +kernel] at h
example : (waveformDurations exW 30000).getD 0 0 = (((2 : Nat) : Int) - ((1 : Nat) : Int) : Int) * 1000 / 30000 := by
  have hp : IsPeakChannel (exW.getD 0 []) 3 0 := by
    have h := (peakChannels_spec exW 0 3 3 (by decide) ⟨by decide, by decide⟩ (by decide) (by decide)).1
    rwa [show (peakChannels exW).getD 0 0 = 0 by decide +kernel] at h
  have hM : IsFirstMax (chan (exW.getD 0 []) 0) 2 := by unfold IsFirstMax; decide +kernel
  have hm : IsFirstMin (chan (exW.getD 0 []) 0) 1 := by unfold IsFirstMin; decide +kernel
  exact (duration_ms_spec exW 30000 (by decide +kernel) 3 3 (by decide) (by decide) (by decide) 0 (by decide)
    0 2 1 hp hM hm).1
example : entry (matMul [[1, 2], [3, 4]] [[2, 0], [1, 1/2]]) 1 0 = sumTo 2 fun k => entry [[1, 2], [3, 4]] 1 k * entry [[2, 0], [1, 1/2]] k 0 :=
  matMul_entry _ _ 1 0 (by decide) (by decide) (by decide)
example : (sumTo 2 fun k => entry [[1, 2], [3, 4]] 1 k * entry [[2, 0], [1, 1/2]] k 0) = 10 := by decide +kernel
example : (depths [[1, -2, 2, 3]] [[2, 0, 1, 2]] [10, 20, 40] [0]).getD 0 none = some (240/7) := by
  rw [depth_direct [[1, -2, 2, 3]] [[2, 0, 1, 2]] [10, 20, 40] [0] 0 4 (by decide) (by decide) (by decide) (by decide)
    (by decide) (by decide)]
  decide +kernel
end Instances
/-! Third part: concrete inputs for the id-space theorems. -/
section InstancesC
/-- un-curated, the HIGHEST template (2) has no spike -/
def exS : Stored := ⟨[[[1, 0], [-1, 2]], [[0, 3], [0, -3]], [[5, 5], [1, 1]]], [[0, 1], [1], [0, 1]], [0, 0, 1], [0, 0, 1],
  2, 2, [[2, 0], [0, 1/2]], [1, 2, 1/2]⟩
/-- curated: cluster 4 = templates 0 and 1, cluster 0 = template 0, ids 1, 2, 3 without spikes -/
def exC : Stored := { exS with sc := [4, 0, 4] }

example : idCount exS true = 3 ∧ idCount exS false = 3 ∧ idCount exC true = 5 ∧ idCount exC false = 3 := by decide
example : amplitudesTrueUse exS true (5/2) =
    some ([10, 20, 15/4], [some [[15/2, 0], [-15/2, 15/4]], some [[0, 15/8], [0, -15/8]], none],
          [some 15, some (15/4), none]) := by decide +kernel
-- the same dataset, per cluster after curation: 5 ids, NaN at 1, 2, 3; cluster 4 is the mean of templates 0 (1 spike)
-- and 1 (1 spike, channel 1 only)
example : (useArrays exC true).1 = [[[1, 0], [-1, 2]], [[0, 0], [0, 0]], [[0, 0], [0, 0]], [[0, 0], [0, 0]],
    [[1/2, 3/2], [-1/2, -1/2]]] := by decide +kernel
example : (amplitudesTrueUse exC true 1).map (·.2.2) = some [some 8, none, none, none, some (3/2)] := by decide +kernel
example : channelsUse exC true = [0, 0, 0, 0, 1] ∧ durationsUse exC true 1000 = [-1, 0, 0, 0, -1] ∧
    channelsUse exS true = [0, 1, 0] ∧ durationsUse exS true 1000 = [-1, -1, -1] := by decide +kernel
example : ∃ sa resc av, amplitudesTrueUse exS true (5/2) = some (sa, resc, av) ∧
      sa.length = (assignment exS true).length ∧ resc.length = idCount exS true ∧ av.length = idCount exS true ∧
      av.getD 2 none = meanOver (assignment exS true) sa 2 ∧
      (av.getD 2 (some 0) = none ↔ 2 ∉ assignment exS true) ∧
      (2 ∉ assignment exS true → resc.getD 2 (some []) = none) :=
  ampsUse_spec exS true (5/2) (by decide) (by decide) 2 (by decide)
-- a spike of id 7 with 3 templates: no result (the real code raises IndexError); `hin` on the loadable datasets
example : amplitudesTrueUse { exS with st := [0, 0, 7], sc := [0, 0, 7] } false 1 = none ∧
    (∀ t ∈ assignment exC true, t < idCount exC true) ∧ (∀ t ∈ assignment exS false, t < idCount exS false) := by
  decide +kernel
example : (useArrays exC true).1.length = 5 ∧ (useArrays exC true).2.2 = 5 ∧ (useArrays exS true).1.length = 3 := by
  decide +kernel
-- entry × rate = samples × 1000 at 30 kHz (hr): template 0 of exS, arg-max 0, arg-min 1
example : (durationsUse exS false 30000).getD 0 0 * 30000 = ((0 - 1 : Int) : Rat) * 1000 := by decide +kernel
example : 2 ∉ assignment exS true ∧ 3 ∉ assignment exC true ∧ 4 ∈ assignment exC true := by decide
example : (channelsUse exC true).length = idCount exC true :=
  (summariesUse_spec exC true 1000 (by decide) (by decide) (by decide) (by decide) (by decide) 4 (by decide)).1
example : templatesProbes [0, 7] exS.templates = [0, 7, 0] := by decide +kernel
example : (templatesProbes [0, 7] exS.templates).length = exS.templates.length :=
  (templatesProbes_spec [0, 7] exS.templates 1 2 2 (by decide) ⟨by decide, by decide⟩ (by decide) (by decide) rfl).1
example : amplitudesVec [3, 0, 3, 5] [1, 2, 4, 1/2] = [2, 5/2, 1/2] ∧ Np.unique ([3, 0, 3, 5].map Int.ofNat) = [0, 3, 5] := by
  decide +kernel
example : (amplitudesVec [3, 0, 3, 5] [1, 2, 4, 1/2]).length = 3 :=
  (amplitudesVec_spec [3, 0, 3, 5] [1, 2, 4, 1/2] rfl).1
example : Unwhitens [[2, 0], [1, 1]] [[1/2, 0], [-1/2, 1]] 2 := by decide +kernel
example : ¬ Unwhitens [[1, 0], [0, 1]] [[1/2, 0], [-1/2, 1]] 2 := by decide +kernel
example : entry (matMul (matMul [[1, 2], [3, 4]] [[2, 0], [1, 1]]) [[1/2, 0], [-1/2, 1]]) 1 0 = 3 := by
  rw [unwhiten_whitened [[1, 2], [3, 4]] [[2, 0], [1, 1]] [[1/2, 0], [-1/2, 1]] 2 2 ⟨by decide, by decide⟩ (by decide)
    (by decide +kernel) 1 0 (by decide) (by decide)]
  decide +kernel
end InstancesC
example : depths [[1, -2, 2, 3]] [[2, 0, 1, 2]] [10, 20, 40] [0] = [some (240/7)] := by
  decide +kernel
example :
    let d : Data := ⟨[[[1, 0], [-1, 2]], [[0, 3], [0, -3]], [[5, 5], [1, 1]]], [[2, 0], [0, 1/2]],
                     [1, 2, 1/2], [0, 0, 1]⟩
    ampsAu d = [4, 3, 8] ∧ spikeAmps d = [4, 8, 3/2] ∧ ampsV d = [some 6, some (3/2), none] := by
  decide +kernel
example : durations [[[1, 0], [-1, 2], [3, 1]]] = [1] ∧ peakChannels [[[1, 0], [-1, 2], [3, 1]]] = [0] := by
  decide +kernel
example : depths [[1, -2, 2]] [[0, 1, 2]] [10, 20, 40] [0] = [some 34] := by decide +kernel

end PhyVerif.C09
