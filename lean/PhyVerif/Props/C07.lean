import PhyVerif.Model.C07
import PhyVerif.Spec.C07
import PhyVerif.Lemmas.C07
import PhyVerif.Lemmas.C07b
import PhyVerif.Lemmas.C07c
/-!
# C07 — spike-cluster index utilities partition the spikes
Only property theorems + non-vacuity examples; proofs in `Lemmas/C07.lean`.
-/
namespace PhyVerif.C07
open PhyVerif

/-- Grouping (stable argsort + boundaries from first differences computed *in the dtype*) yields,
for each cluster id present and no other, in increasing id order, exactly the increasing spike
indices (or supplied spike ids) carrying that id — for every length, every signed/unsigned width. -/
theorem groups_eq_spec (w : Nat) (signed : Bool) (sc : List Nat) (ids : Option (List Nat))
    (hw : 0 < w) (hfit : FitsDtype w signed sc)
    (hids : ∀ l, ids = some l → l.length = sc.length) :
    spikesPerCluster w signed sc ids = specGroups sc ids :=
  Lemmas.groups_eq_spec w signed sc ids hw hfit hids

/-- The groups partition all spikes: keys strictly increasing (so distinct) and the groups
together are a permutation of all spike indices. -/
theorem groups_partition (sc : List Nat) :
    ((specGroups sc none).map (·.1)).Pairwise (· < ·) ∧
    ((specGroups sc none).map (·.2)).flatten.Perm (List.range sc.length) :=
  Lemmas.groups_partition sc

/-- "exactly the INCREASING array of spike indices (or supplied spike ids)": every group is strictly
increasing — for spike indices always, for supplied spike ids when the supplied ids are increasing
(`_spikes_per_cluster` never sorts the ids: `abs_spikes = spike_ids[rel_spikes]`, array.py:344). -/
theorem groups_increasing (w : Nat) (signed : Bool) (sc : List Nat) (ids : Option (List Nat))
    (hw : 0 < w) (hfit : FitsDtype w signed sc)
    (hids : ∀ l, ids = some l → l.length = sc.length ∧ l.Pairwise (· < ·)) :
    ∀ p ∈ spikesPerCluster w signed sc ids, p.2.Pairwise (· < ·) :=
  Lemmas.groups_increasing w signed sc ids hw hfit hids

/-- What holds exactly for ARBITRARY supplied ids (any order, repetitions): each group lists the ids
in the order of their positions (`groups_eq_spec`), hence all groups are increasing if and only if
the supplied ids increase inside every cluster.  The real helper behaves the same on unsorted ids
(`_spikes_per_cluster([1,0,1], [30,20,10])` gives `{0: [20], 1: [30, 10]}`; compared by the
correspondence on unsorted and repeated supplied ids).  Ids shorter than the assignment vector are
rejected by the real code (IndexError), longer ones have their tail ignored: `hids` is its domain. -/
theorem groups_increasing_iff (w : Nat) (signed : Bool) (sc : List Nat) (ids : Option (List Nat))
    (hw : 0 < w) (hfit : FitsDtype w signed sc)
    (hids : ∀ l, ids = some l → l.length = sc.length) :
    (∀ p ∈ spikesPerCluster w signed sc ids, p.2.Pairwise (· < ·)) ↔
      ∀ l, ids = some l → ∀ i j, i < j → j < sc.length → sc.getD i 0 = sc.getD j 0 →
        l.getD i 0 < l.getD j 0 :=
  Lemmas.groups_increasing_iff w signed sc ids hw hfit hids

/-- With supplied spike ids the groups partition the SUPPLIED ids (keys strictly increasing, the
groups together a permutation of the supplied vector), whatever their order. -/
theorem groups_partition_ids (sc l : List Nat) (hlen : l.length = sc.length) :
    ((specGroups sc (some l)).map (·.1)).Pairwise (· < ·) ∧
    ((specGroups sc (some l)).map (·.2)).flatten.Perm l :=
  Lemmas.groups_partition_ids sc l hlen

/-- Differences of a sorted id vector never wrap, signed or unsigned. -/
theorem diff_no_wrap (w : Nat) (signed : Bool) (a b : Nat) (hw : 0 < w) (hab : a ≤ b)
    (hb : (b : Int) < (if signed then 2 ^ (w - 1) else 2 ^ w)) :
    (wrapDiff w signed a b > 0 ↔ a < b) :=
  Lemmas.diff_no_wrap w signed a b hw hab hb

/-- Selecting the spikes of any set of clusters (unsorted, partly absent) is the sorted union
of their groups. -/
theorem spikesInClusters_eq_union (sc cl : List Nat) :
    IsSortedSetOf (spikesInClusters sc cl) (fun i => ∃ c ∈ cl, i ∈ members sc none c) :=
  Lemmas.spikesInClusters_eq_union sc cl

/-- `_unique`: strictly increasing, exactly the non-negative values present. -/
theorem unique_spec (l : List Int) :
    IsSortedSetOf (Np.unique l) (fun v => Int.ofNat v ∈ l) :=
  Lemmas.unique_spec l

/-- `_index_of` on any (unsorted) duplicate-free lookup, ids of any magnitude: position of each element
IN THE LOOKUP AS GIVEN (`positionsIn`, not the rank among the sorted lookup values). -/
theorem indexOf_spec (arr : List Int) (lookup : List Nat) (hl : lookup.Nodup)
    (ha : ∀ a ∈ arr, 0 ≤ a ∧ a.toNat ∈ lookup) :
    Np.indexOf arr lookup = some (positionsIn arr lookup) :=
  Lemmas.indexOf_spec arr lookup hl ha

/-- `_flatten_per_cluster`: sorted union of the groups.  (The real helper raises `ValueError` on an
empty dictionary — `np.concatenate` of nothing —, where the model returns `[]`: the hypothesis
states the domain, the proof does not need it; the harness checks the empty case separately.) -/
theorem flatten_spec (d : List (Nat × List Nat)) (_hd : d ≠ []) :
    IsSortedSetOf (flattenPerCluster d) (fun v => ∃ p ∈ d, v ∈ p.2) :=
  Lemmas.flatten_spec d

/-- `grouped_mean`: per sorted distinct cluster, (sum over members, member count). -/
theorem groupedMean_spec (arr : List Int) (sc : List Nat) (h : arr.length = sc.length) :
    groupedMean arr sc = some (groupedSums arr sc) :=
  Lemmas.groupedMean_spec arr sc h

/-- `grouped_mean` as returned (the quotients `t / spike_counts`, array.py:387): per sorted distinct
cluster the exact quotient sum / count, every count being positive (no `x / 0 = 0` involved). -/
theorem groupedMeanQ_spec (arr : List Int) (sc : List Nat) (h : arr.length = sc.length) :
    groupedMeanQ arr sc = some ((groupedSums arr sc).map fun p => (p.1 : Rat) / (p.2 : Rat)) ∧
    ∀ p ∈ groupedSums arr sc, 0 < p.2 :=
  Lemmas.groupedMeanQ_spec arr sc h

/-- per-cluster / per-template spike queries are the member lists -/
theorem clusterSpikes_eq_members (sc : List Nat) (c : Nat) :
    spikesInClusters sc [c] = members sc none c :=
  Lemmas.clusterSpikes_eq_members sc c

/-- per-cluster template histogram: entry t counts the spikes of cluster c with template t -/
theorem templateCounts_spec (sc st : List Nat) (nt c : Nat) (hlen : st.length = sc.length)
    (hst : ∀ t ∈ st, t < nt) :
    (templateCounts sc st nt c).length = nt ∧
    ∀ t, t < nt → (templateCounts sc st nt c).getD t 0 =
      ((List.range sc.length).filter fun i => sc.getD i 0 == c && st.getD i 0 == t).length :=
  Lemmas.templateCounts_spec sc st nt c hlen hst

/-! Non-vacuity -/
example : spikesPerCluster 16 false [7, 2, 7, 0, 2, 7] none = [(0, [3]), (2, [1, 4]), (7, [0, 2, 5])] := by
  decide
example : specGroups [7, 2, 7, 0, 2, 7] none = [(0, [3]), (2, [1, 4]), (7, [0, 2, 5])] := by decide
example : FitsDtype 16 false [7, 2, 7, 0, 2, 7] := by unfold FitsDtype; decide
example : wrapDiff 8 false 200 100 = 156 := by decide   -- unsigned differences DO wrap when unsorted
example : groupedMean [10, 20, 30, 40] [3, 1, 3, 1] = some [(60, 2), (40, 2)] := by decide
example : groupedMeanQ [10, 20, 31, 40] [3, 1, 3, 1] = some [30, 41 / 2] := by decide +kernel
-- unsorted lookups: the position in the lookup as given, not the rank of the value; large sparse ids
example : Np.indexOf [7, 2, 7, 0] [7, 0, 2] = some [0, 2, 0, 1] := by decide
example : positionsIn [7, 2, 7, 0] [7, 0, 2] = [0, 2, 0, 1] := by decide
example : positionsIn [1000000, 0, 16777221] [1000000, 16777221, 0] = [0, 2, 1] := by decide
example : [1000000, 16777221, 0].Nodup := by decide
-- supplied ids: increasing ids give increasing groups, unsorted ids do not (and are not sorted)
example : spikesPerCluster 32 true [1, 0, 1] (some [10, 20, 30]) = [(0, [20]), (1, [10, 30])] := by decide
example : spikesPerCluster 32 true [1, 0, 1] (some [30, 20, 10]) = [(0, [20]), (1, [30, 10])] := by decide
example : [10, 20, 30].Pairwise (· < ·) := by decide
example : ((specGroups [1, 0, 1] (some [30, 20, 10])).map (·.2)).flatten = [20, 30, 10] := by decide

/-- The per-cluster template histogram CONSERVES the cluster's spikes: its entries sum to the number of spikes of the
cluster (no spike of the cluster is dropped or counted twice, whatever the templates are) — the whole-histogram
companion of the entry-wise `templateCounts_spec`. -/
theorem templateCounts_sum (sc st : List Nat) (nt c : Nat) (hlen : st.length = sc.length)
    (hst : ∀ t ∈ st, t < nt) :
    (templateCounts sc st nt c).sum = (spikesInClusters sc [c]).length :=
  Lemmas.templateCounts_sum sc st nt c hlen hst

example : templateCounts [3, 5, 3, 3, 5] [0, 2, 2, 0, 1] 4 3 = [2, 0, 1, 0] ∧
    ([2, 0, 1, 0] : List Nat).sum = 3 ∧ spikesInClusters [3, 5, 3, 3, 5] [3] = [0, 2, 3] := by decide

/-- Selecting the spikes of ALL clusters present (the sorted distinct ids of the assignment vector — what `_unique`
returns) gives every spike exactly once, in order: the union of all groups is `0..n-1`. -/
theorem spikesInClusters_all (sc : List Nat) :
    spikesInClusters sc (distinctSorted sc) = List.range sc.length :=
  Lemmas.spikesInClusters_all sc

example : distinctSorted [3, 5, 3, 3, 5] = [3, 5] ∧ spikesInClusters [3, 5, 3, 3, 5] [3, 5] = [0, 1, 2, 3, 4] := by decide

end PhyVerif.C07
