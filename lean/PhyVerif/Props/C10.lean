import PhyVerif.Model.C10
import PhyVerif.Spec.C10
import PhyVerif.Lemmas.C10
/-!
# C10 — saved curation state survives any save/reload history
Only property theorems + non-vacuity examples; proofs in `Lemmas/C10.lean`.
-/
namespace PhyVerif.C10
open PhyVerif.C18 (Cell)

/-- For every history of saves / subset exports / close / reload, a reload shows exactly the last
saved spike-cluster assignments. -/
theorem clusters_last_saved (render : Cell → String) (d : Disk) (ops : List Op) :
    (run render d ops).clusters = (absRun ⟨d.clusters, []⟩ ops).clusters :=
  Lemmas.clusters_last_saved render d ops

/-- … and, for every metadata field ever saved, exactly the last saved mapping of that field
(None entries dropped, ids ascending), whatever was saved before or for other fields —
refinement of the directory to the abstract "last write wins" state, for any renderer/parser pair
that round-trips values and integers — and whatever legacy `.csv` files (any names, any content,
also ones carrying the same field) are present: the saved `.tsv` wins. -/
theorem metadata_last_saved (render : Cell → String) (parse : String → Cell)
    (hrt : ∀ c, parse (render c) = c) (hne : ∀ c, render c ≠ "")
    (hid : ∀ n : Nat, parse (toString n) = .int n)
    (csvs : List (FName × File)) (hcsv : ∀ p ∈ csvs, p.1.2 = false)   -- any legacy CSV files, any content
    (ops : List Op) (hown : OwnOps ops) (field : String) (vals : List (Nat × Cell))
    (hf : (absRun ⟨[], []⟩ ops).fields.lookup field = some vals)
    (hinfo : field ≠ "info")     -- `cluster_info.tsv` is deliberately ignored on load
    (hvals : vals ≠ []) :
    fieldView parse (run render ⟨[], csvs, false⟩ ops) field =
      some (vals.map fun p => (Cell.int p.1, p.2)) :=
  Lemmas.metadata_last_saved render parse hrt hne hid csvs hcsv ops hown field vals hf hinfo hvals

/-- Malformed or empty metadata files never prevent loading and never change what is shown for
the other files: an unreadable file contributes nothing. -/
theorem unreadable_ignored (parse : String → Cell) (files : List (FName × File)) (name : FName) :
    metadataView parse (putFile files name .unreadable) =
      metadataView parse (files.filter fun p => p.1 != name) :=
  Lemmas.unreadable_ignored parse files name

/-- `cluster_info` is never read as metadata. -/
theorem cluster_info_excluded (parse : String → Cell) (files : List (FName × File)) (tsv : Bool) (f : File) :
    metadataView parse (putFile files ("cluster_info", tsv) f) =
      metadataView parse (files.filter fun p => p.1 != ("cluster_info", tsv)) :=
  Lemmas.cluster_info_excluded parse files tsv f

/-- Saving metadata, exporting the subset, closing and reloading never touch the assignments or
any other file (frame). -/
theorem step_frame (render : Cell → String) (d : Disk) (op : Op) (name : FName)
    (hs : match op with
      | .saveMeta field _ => name ≠ ("cluster_" ++ field, true)
      | .writeFile s _ => name ≠ s
      | _ => True) :
    (step render d op).files.lookup name = d.files.lookup name :=
  Lemmas.step_frame render d op name hs

/-! Non-vacuity -/
example :
    let render : Cell → String := fun c => match c with | .int i => toString i | .float t => s!"F{t}" | .text s => s
    (run render ⟨[0, 1], [], false⟩
      [.saveMeta "group" [(3, some (.text "good")), (1, some (.text "mua")), (2, none)],
       .saveClusters [1, 1], .reload, .saveMeta "group" [(1, some (.text "noise"))], .close, .reload]).files =
      [(("cluster_group", true), .table ["cluster_id", "group"] [["1", "noise"]])] := by decide
-- a legacy CSV carrying the same field does not hide the saved mapping
example :
    let render : Cell → String := fun c => match c with | .int i => toString i | .float t => s!"F{t}" | .text s => s
    let parse : String → Cell := fun s => if s == "1" then .int 1 else .text s
    fieldView parse (run render ⟨[], [(("cluster_groups", false), .table ["cluster_id", "group"] [["1", "unsorted"]])], false⟩
      [.saveMeta "group" [(1, some (.text "good"))]]) "group" = some [(.int 1, .text "good")] := by decide
example : cleanMeta [(3, some (.int 5)), (1, some (.int 7)), (3, none), (2, some (.int 1))] =
    [(1, .int 7), (2, .int 1)] := by decide

end PhyVerif.C10
