import PhyVerif.Model.C10
import PhyVerif.Spec.C10
import PhyVerif.Lemmas.C10
/-!
# C10 — saved curation state survives any save/reload history
Only property theorems + non-vacuity examples; proofs in `Lemmas/C10.lean`.
-/
namespace PhyVerif.C10
open PhyVerif.C18 (Cell)

/-- For every history of saves / subset exports / close / reload, a reload shows exactly the last
saved spike-cluster assignments. -/
theorem clusters_last_saved (render : Cell → String) (d : Disk) (ops : List Op) :
    (run render d ops).clusters = (absRun ⟨d.clusters, []⟩ ops).clusters :=
  Lemmas.clusters_last_saved render d ops

/-- … and, for every metadata field ever saved, exactly the last saved mapping of that field
(None entries dropped, ids ascending), whatever was saved before or for other fields —
refinement of the directory to the abstract "last write wins" state, for any renderer/parser pair
that round-trips values and integers. -/
theorem metadata_last_saved (render : Cell → String) (parse : String → Cell)
    (hrt : ∀ c, parse (render c) = c) (hne : ∀ c, render c ≠ "")
    (hid : ∀ n : Nat, parse (toString n) = .int n)
    (ops : List Op) (hown : OwnOps ops) (field : String) (vals : List (Nat × Cell))
    (hf : (absRun ⟨[], []⟩ ops).fields.lookup field = some vals)
    (hinfo : field ≠ "info") :   -- `cluster_info.tsv` is deliberately ignored on load
    fieldView parse (run render ⟨[], [], false⟩ ops) field =
      some (vals.map fun p => (Cell.int p.1, p.2)) ∨ vals = [] :=
  Lemmas.metadata_last_saved render parse hrt hne hid ops hown field vals hf hinfo

/-- Malformed or empty metadata files never prevent loading and never change what is shown for
the other files: an unreadable file contributes nothing. -/
theorem unreadable_ignored (parse : String → Cell) (files : List (String × File)) (stem : String) :
    metadataView parse (putFile files stem .unreadable) =
      metadataView parse (files.filter fun p => p.1 != stem) :=
  Lemmas.unreadable_ignored parse files stem

/-- `cluster_info` is never read as metadata. -/
theorem cluster_info_excluded (parse : String → Cell) (files : List (String × File)) (f : File) :
    metadataView parse (putFile files "cluster_info" f) =
      metadataView parse (files.filter fun p => p.1 != "cluster_info") :=
  Lemmas.cluster_info_excluded parse files f

/-- Saving metadata, exporting the subset, closing and reloading never touch the assignments or
any other file (frame). -/
theorem step_frame (render : Cell → String) (d : Disk) (op : Op) (stem : String)
    (hs : match op with
      | .saveMeta field _ => stem ≠ "cluster_" ++ field
      | .writeFile s _ => stem ≠ s
      | _ => True) :
    (step render d op).files.lookup stem = d.files.lookup stem :=
  Lemmas.step_frame render d op stem hs

/-! Non-vacuity -/
example :
    let render : Cell → String := fun c => match c with | .int i => toString i | .float t => s!"F{t}" | .text s => s
    (run render ⟨[0, 1], [], false⟩
      [.saveMeta "group" [(3, some (.text "good")), (1, some (.text "mua")), (2, none)],
       .saveClusters [1, 1], .reload, .saveMeta "group" [(1, some (.text "noise"))], .close, .reload]).files =
      [("cluster_group", .table ["cluster_id", "group"] [["1", "noise"]])] := by decide
example : cleanMeta [(3, some (.int 5)), (1, some (.int 7)), (3, none), (2, some (.int 1))] =
    [(1, .int 7), (2, .int 1)] := by decide

end PhyVerif.C10
