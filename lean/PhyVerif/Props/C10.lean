import PhyVerif.Model.C10
import PhyVerif.Spec.C10
import PhyVerif.Lemmas.C10
import PhyVerif.Lemmas.C10b
/-!
# C10 — saved curation state survives any save/reload history
Only property theorems + non-vacuity examples; proofs in `Lemmas/C10.lean`.
-/
namespace PhyVerif.C10
open PhyVerif.C18 (Cell)

variable {α : Type} [Zero α]

/-- For every history of saves / subset exports / close / reload, a reload shows exactly the last
saved spike-cluster assignments. -/
theorem clusters_last_saved (render : Cell → String) (scale : α → α) (d : Disk α) (ops : List Op) :
    (run render scale d ops).clusters = (absRun ⟨d.clusters, []⟩ ops).clusters :=
  Lemmas.clusters_last_saved render scale d ops

/-- … and, for every metadata field ever saved, exactly the last saved mapping of that field
(None entries dropped, ids ascending), whatever was saved before or for other fields —
refinement of the directory to the abstract "last write wins" state, for any renderer/parser pair
that round-trips values and integers — and whatever legacy `.csv` files (any names, any content,
also ones carrying the same field) are present: the saved `.tsv` wins. -/
theorem metadata_last_saved (render : Cell → String) (parse : String → Cell)
    (hrt : ∀ c, parse (render c) = c) (hne : ∀ c, render c ≠ "")
    (hid : ∀ n : Nat, parse (toString n) = .int n) (scale : α → α)
    (d : Disk α) (hcsv : ∀ p ∈ d.files, p.1.2 = false)   -- any legacy CSV files, any content
    (ops : List Op) (hown : OwnOps ops) (field : String) (vals : List (Nat × Cell))
    (hf : (absRun ⟨[], []⟩ ops).fields.lookup field = some vals)
    (hinfo : field ≠ "info")     -- `cluster_info.tsv` is deliberately ignored on load
    (hvals : vals ≠ []) :
    fieldView parse (run render scale d ops) field =
      some (vals.map fun p => (Cell.int p.1, p.2)) :=
  Lemmas.metadata_last_saved render parse hrt hne hid scale d hcsv ops hown field vals hf hinfo hvals

/-- The loader, for ANY list of files in ANY visiting order: a field shows exactly what the LAST visited file that
says anything about it says (`fileField`: a readable file other than `cluster_info.*` with a row giving the
field a value next to a `cluster_id`); `none` when no file does. This is the rule that decides which file wins
when a foreign TSV/CSV and a saved file carry the same field. -/
theorem view_field_eq_last (parse : String → Cell) (visit : List (FName × File)) (field : String) :
    (metadataViewIn parse visit).lookup field = visit.reverse.findSome? (fileField parse field) :=
  Lemmas.view_field_eq_last parse visit field

/-- "… the last saved mapping of every metadata field next to metadata found in other TSV/CSV files", widened to
foreign files of BOTH kinds, present before or written at any point of the history (`writeFile` ops are allowed
everywhere; only `cluster_<field>.tsv` itself must not be overwritten after the save, and the save must be the
last of that field — `KeepsSaved`), for ANY initial directory and ANY order `order` in which the directory lists
its files (`glob` does not specify it; the loader visits all `.csv` of that order, then all `.tsv`): a reload
shows exactly the last saved mapping of the field, provided no OTHER `.tsv` file in the final directory says
anything about the field (`hother`; legacy `.csv` files may — the saved `.tsv` wins because it is visited later).
When another `.tsv` does carry the field, which of the two is shown is decided by `view_field_eq_last`: the one the
directory order visits last — the real `glob` order; not determined by the code.
`hvals`: a field emptied by the last save is written as a header-only file that says nothing. -/
theorem metadata_last_saved_among_files (render : Cell → String) (parse : String → Cell)
    (hrt : ∀ c, parse (render c) = c) (hne : ∀ c, render c ≠ "")
    (hid : ∀ n : Nat, parse (toString n) = .int n) (scale : α → α)
    (d : Disk α) (pre post : List Op) (field : String) (m : List (Nat × Option Cell))
    (hkeep : KeepsSaved field post)
    (hfield : field ≠ "cluster_id") (hinfo : field ≠ "info") (hvals : cleanMeta m ≠ [])
    (order : List (FName × File))
    (hperm : order.Perm (run render scale d (pre ++ .saveMeta field m :: post)).files)
    (hother : ∀ p ∈ (run render scale d (pre ++ .saveMeta field m :: post)).files,
      p.1.2 = true → p.1 ≠ ("cluster_" ++ field, true) → fileField parse field p = none) :
    (metadataView parse order).lookup field =
      some ((cleanMeta m).map fun p => (Cell.int p.1, p.2)) :=
  Lemmas.metadata_last_saved_among_files render parse hrt hne hid scale d pre post field m hkeep hfield
    hinfo hvals order hperm hother

/-- "unchanged spike templates and times": no operation of any history writes `spike_templates.npy`,
`spike_times.npy`, the raw data or the template files; a reload shows them as they were. -/
theorem templates_times_unchanged (render : Cell → String) (scale : α → α) (d : Disk α) (ops : List Op) :
    (run render scale d ops).fixed.spikeTemplates = d.fixed.spikeTemplates ∧
    (run render scale d ops).fixed.spikeSamples = d.fixed.spikeSamples ∧
    (run render scale d ops).fixed = d.fixed :=
  Lemmas.templates_times_unchanged render scale d ops

/-- "subset-store waveforms equal to those read from the raw data", for EVERY history (induction over the
operations; composition with the C03 model): whatever was saved, written, exported, closed and reloaded, if a
reload finds a subset store then every lookup of stored spikes (any order, any non-empty query channel list, the
dataset's window length) returns, on each query channel stored for the spike, the unit factor times the
zero-padded raw window of THAT spike — its unchanged sample in the unchanged recording — and zeros on the other
channels; and the stored channel row of every stored spike is the first `nc` channels of its template's channel
order, filled up with −1. In scope: datasets `load_model` accepts (`FixedOK`), a directory without a store at the
start, selections as `SpikeSelector` returns them (`SelOK`). -/
theorem subset_eq_raw (render : Cell → String) (scale : α → α) (nch : Nat) (d : Disk α)
    (hfx : FixedOK nch d.fixed) (hinit : d.subset = none) (ops : List Op) (hsel : SelOK d.fixed ops)
    (st : C03.Store α) (hst : storeView (run render scale d ops) = some st)
    (query : List Nat) (hq : ∀ q ∈ query, q ∈ st.spikeIds) (chq : List Nat) (hchq : chq ≠ [])
    (_hchqd : chq.Nodup) :
    C03.getSpikeWaveforms st query chq d.fixed.nsw =
      some (query.map fun q =>
        C03.lookupSpec scale d.fixed.raw (d.fixed.spikeSamples.getD q 0) d.fixed.nsw
          (st.spikeChannels.getD (st.spikeIds.idxOf q) []) chq) ∧
    ∃ nc, 0 < nc ∧ st.spikeChannels = st.spikeIds.map fun i =>
      C03.templateNChannels true (d.fixed.orders.getD (d.fixed.spikeTemplates.getD i 0) []) nc :=
  Lemmas.subset_eq_raw render scale nch d hfx hinit ops hsel st hst query hq chq hchq

/-- … and once the subset has been exported anywhere in the history, every later reload does find a store (the
written files load as an array of the declared shape). -/
theorem subset_present (render : Cell → String) (scale : α → α) (nch : Nat) (d : Disk α)
    (hfx : FixedOK nch d.fixed) (hinit : d.subset = none) (a b : List Op) (sel : List Nat) (maxN : Nat)
    (hsel : SelOK d.fixed (a ++ .saveSubset sel maxN :: b)) :
    (storeView (run render scale d (a ++ .saveSubset sel maxN :: b))).isSome :=
  Lemmas.subset_present render scale nch d hfx hinit a b sel maxN hsel

/-- Malformed or empty metadata files never prevent loading and never change what is shown for
the other files: an unreadable file contributes nothing. -/
theorem unreadable_ignored (parse : String → Cell) (files : List (FName × File)) (name : FName) :
    metadataView parse (putFile files name .unreadable) =
      metadataView parse (files.filter fun p => p.1 != name) :=
  Lemmas.unreadable_ignored parse files name

/-- `cluster_info` is never read as metadata. -/
theorem cluster_info_excluded (parse : String → Cell) (files : List (FName × File)) (tsv : Bool) (f : File) :
    metadataView parse (putFile files ("cluster_info", tsv) f) =
      metadataView parse (files.filter fun p => p.1 != ("cluster_info", tsv)) :=
  Lemmas.cluster_info_excluded parse files tsv f

/-- Saving metadata, exporting the subset, closing and reloading never touch the assignments or
any other file (frame). -/
theorem step_frame (render : Cell → String) (scale : α → α) (d : Disk α) (op : Op) (name : FName)
    (hs : match op with
      | .saveMeta field _ => name ≠ ("cluster_" ++ field, true)
      | .writeFile s _ => name ≠ s
      | _ => True) :
    (step render scale d op).files.lookup name = d.files.lookup name :=
  Lemmas.step_frame render scale d op name hs

/-! Non-vacuity (cells of the recording are integers) -/
-- fixtures `exFixed` (4 samples × 3 channels, 4 spikes of templates 1,0,1,0) and `exRender`: `Lemmas/C10b.lean`
example :
    (run exRender (fun x => 2 * x) ⟨[0, 1], [], none, exFixed⟩
      [.saveMeta "group" [(3, some (.text "good")), (1, some (.text "mua")), (2, none)],
       .saveClusters [1, 1], .reload, .saveMeta "group" [(1, some (.text "noise"))], .close, .reload]).files =
      [(("cluster_group", true), .table ["cluster_id", "group"] [["1", "noise"]])] := by decide
-- a legacy CSV carrying the same field does not hide the saved mapping
example :
    let parse : String → Cell := fun s => if s == "1" then .int 1 else .text s
    fieldView parse (run exRender (fun x => x)
      ⟨[], [(("cluster_groups", false), .table ["cluster_id", "group"] [["1", "unsorted"]])], none, exFixed⟩
      [.saveMeta "group" [(1, some (.text "good"))]]) "group" = some [(.int 1, .text "good")] := by decide
example : cleanMeta [(3, some (.int 5)), (1, some (.int 7)), (3, none), (2, some (.int 1))] =
    [(1, .int 7), (2, .int 1)] := by decide
-- a foreign TSV with the same field, written during the history: the directory order decides
example :
    let parse : String → Cell := fun s => if s == "1" then .int 1 else .text s
    let foreign : FName × File := (("zz", true), .table ["cluster_id", "group"] [["1", "theirs"]])
    let saved : FName × File := (("cluster_group", true), .table ["cluster_id", "group"] [["1", "ours"]])
    (run exRender (fun x => x) ⟨[], [], none, exFixed⟩
        [.writeFile foreign.1 foreign.2, .saveMeta "group" [(1, some (.text "ours"))]]).files = [foreign, saved] ∧
    (metadataViewIn parse [foreign, saved]).lookup "group" = some [(.int 1, .text "ours")] ∧
    (metadataViewIn parse [saved, foreign]).lookup "group" = some [(.int 1, .text "theirs")] ∧
    fileField parse "group" foreign = some [(.int 1, .text "theirs")] ∧
    fileField parse "quality" foreign = none := by decide
-- a repeated `cluster_id` column: the last non-empty cell is the id (dict semantics of read_tsv)
example :
    let parse : String → Cell := fun s => if s == "1" then .int 1 else if s == "2" then .int 2 else .text s
    loadMetadata parse (.table ["cluster_id", "zz", "cluster_id"] [["1", "A", "2"], ["1", "B", ""]]) =
      some [("zz", [(.int 2, .text "A"), (.int 1, .text "B")])] := by decide
-- the subset store after a history with an export (factor 2, spikes 1 and 2 selected, width max(0 or 2, 2) = 2)
example : KeepsSaved "group" [.saveSubset [1, 2] 0, .writeFile ("zz", true) .unreadable, .saveMeta "quality" [], .reload] := by
  intro op hop
  simp only [List.mem_cons, List.mem_nil_iff, or_false] at hop
  rcases hop with rfl | rfl | rfl | rfl <;> simp
example :
    (storeView (run exRender (fun x => 2 * x) ⟨[0, 1, 0, 1], [], none, exFixed⟩
      [.saveSubset [1, 2] 0, .saveClusters [3, 3, 3, 3], .close, .reload])).bind
      (fun st => C03.getSpikeWaveforms st [2, 1] [1, 2] 2) =
    some [[[16, 0], [22, 0]], [[0, 6], [0, 12]]] := by decide
example : PhyVerif.C16.intervalsTile exFixed.raw.length exFixed.chunks = true := by decide
-- the hypotheses of `subset_eq_raw` hold for that dataset and history
example : FixedOK 3 exFixed :=
  { rect := by simp [C03.Rect, exFixed], tile := by decide, sorted := by decide, inrange := by decide,
    tlen := by decide, tbound := by decide,
    ord := by
      intro o ho
      simp only [exFixed, List.mem_cons, List.mem_nil_iff, or_false] at ho
      rcases ho with rfl | rfl <;> intro c hc <;>
        simp only [List.mem_cons, List.mem_nil_iff, or_false] at hc <;> omega,
    nsw := by decide, closest := by decide }
example : SelOK exFixed [.saveSubset [1, 2] 0, .saveClusters [3, 3, 3, 3], .close, .reload] := by
  intro op hop
  simp only [List.mem_cons, List.mem_nil_iff, or_false] at hop
  rcases hop with rfl | rfl | rfl | rfl <;> simp [exFixed]

end PhyVerif.C10
