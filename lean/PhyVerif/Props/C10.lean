import PhyVerif.Model.C10
import PhyVerif.Spec.C10
import PhyVerif.Lemmas.C10
import PhyVerif.Lemmas.C10b
/-!
# C10 — saved curation state survives any save/reload history
Only property theorems + non-vacuity examples; proofs in `Lemmas/C10.lean`.
-/
namespace PhyVerif.C10
open PhyVerif.C18 (Cell)

variable {α : Type} [Zero α]

/-- For every history of saves / subset exports / foreign writes / close / reload run by a session (a `TemplateModel`
exists only after a load, which leaves an assignment file: `hfile`, see `first_load`), a fresh load shows exactly the
last saved spike-cluster assignments — or, when nothing was saved, what the opening load showed — and that array is one
the load ACCEPTS (`AssignOK`: one id per spike, ids below 2^31). The assignment file is
kept BY NAME (`spike_clusters.npy`, `spikes.clusters.npy`, a labelled `spikes.clusters.probe00.npy`): `shown` reads the
file the loader's `_find_path` resolves, `saveClusters` writes the file the save's `_find_path` resolves, and the
theorem holds because the two resolve the same file (`findAssign_write`). `_hnc`: a directory in which BOTH name
patterns match is rejected by the loader (IOError, `multiple_ok=False`) — out of scope, and by `assign_stays_loadable`
no history creates one.
Domain (`hinit`, `hsaves`): the file the session opened with and every array handed to `save_spike_clusters` have one
id per spike (`ns = spike_times.shape[0]`) and ids below 2^31. `save_spike_clusters` checks neither and `np.save`s what it
is given; outside the domain the real reload does NOT show the saved array: a wrong length fails
`assert self.spike_clusters.shape == (ns,)` (model.py l. 374, the dataset no longer loads), an id ≥ 2^31 is wrapped by
`astype(np.int32)` (l. 628). The model's `shown` has neither check, which is why the hypotheses are needed for the
statement to be about the real load. -/
theorem clusters_last_saved (render : Cell → String) (scale : α → α) (d : Disk α)
    (hfile : (findAssign d.assign).isSome) (_hnc : ¬ Conflict d.assign)
    (hinit : AssignOK d.fixed.spikeSamples.length (shown d)) (ops : List Op)
    (hsaves : SavesOK d.fixed.spikeSamples.length ops) :
    shown (run render scale d ops) = (absRun ⟨shown d, []⟩ ops).clusters ∧
    AssignOK d.fixed.spikeSamples.length (shown (run render scale d ops)) :=
  Lemmas.clusters_last_saved_ok render scale d hfile hinit ops hsaves

/-- … and every later load of the history finds its file, no name conflict arises, and the array in the file is one
the load accepts (length = number of spikes of the — unchanged — spike times, ids below 2^31); same domain as
`clusters_last_saved` (a single save of a wrong-length array makes every later `load_model` raise AssertionError). -/
theorem assign_stays_loadable (render : Cell → String) (scale : α → α) (d : Disk α)
    (hfile : (findAssign d.assign).isSome) (hnc : ¬ Conflict d.assign)
    (hinit : AssignOK d.fixed.spikeSamples.length (shown d)) (ops : List Op)
    (hsaves : SavesOK d.fixed.spikeSamples.length ops) :
    (findAssign (run render scale d ops).assign).isSome ∧ ¬ Conflict (run render scale d ops).assign ∧
    AssignOK (run render scale d ops).fixed.spikeSamples.length (shown (run render scale d ops)) :=
  Lemmas.assign_stays_loadable_ok render scale d hfile hnc hinit ops hsaves

/-- The load that opens a session, on any directory the loader accepts (`hnc`: when BOTH `spike_clusters.npy` and a
`spikes.clusters*.npy` exist, `_find_path(..., multiple_ok=False)` raises IOError and there is no session — the model's
`findAssign` would pick the first pattern there): afterwards an assignment file is found, there is still no conflict,
and the file shows what this load showed; a directory that has one is left untouched; a directory with none gets
`spike_clusters.npy` holding the spike templates (the only file of this model a load ever writes) and nothing else
changes. -/
theorem first_load (render : Cell → String) (scale : α → α) (d : Disk α) (hnc : ¬ Conflict d.assign) :
    (findAssign (step render scale d .reload).assign).isSome ∧
    ¬ Conflict (step render scale d .reload).assign ∧
    shown (step render scale d .reload) = shown d ∧
    ((findAssign d.assign).isSome → step render scale d .reload = d) ∧
    (findAssign d.assign = none →
      (step render scale d .reload).assign = [(none, d.fixed.spikeTemplates)]) ∧
    (step render scale d .reload).files = d.files ∧ (step render scale d .reload).subset = d.subset ∧
    (step render scale d .reload).fixed = d.fixed :=
  Lemmas.first_load_nc render scale d hnc

/-- … and, for every metadata field ever saved, exactly the last saved mapping of that field
(None entries dropped, ids ascending), whatever was saved before or for other fields —
refinement of the directory to the abstract "last write wins" state — for ANY initial directory in which no
`.tsv` file other than `cluster_<field>.tsv` itself says anything about the field (`hinit`): KiloSort's own
`cluster_KSLabel.tsv`, `cluster_Amplitude.tsv`, `cluster_ContamPct.tsv`, a `cluster_group.tsv` that is saved over, and
legacy `.csv` files of any names and content (also ones carrying the same field: the saved `.tsv` wins) are all allowed.
The codec hypotheses `hrt`, `hne` are about the SAVED CELLS only (integers, floats, and strings that are no numerals and
not empty: `str` / csv quoting and `_try_make_number` satisfy them; a string like "5" does not, and is outside the
property's "non-numeric strings"); `hid`: a plain decimal id reads back as that integer.
When another `.tsv` does carry the field, or foreign files are written during the history:
`metadata_last_saved_among_files`. -/
theorem metadata_last_saved (render : Cell → String) (parse : String → Cell) (fnum : Nat → Option Int)
    (scale : α → α) (d : Disk α) (ops : List Op) (hown : OwnOps ops) (field : String) (vals : List (Nat × Cell))
    (hrt : ∀ p ∈ vals, parse (render p.2) = p.2) (hne : ∀ p ∈ vals, render p.2 ≠ "")
    (hid : ∀ n : Nat, parse (toString n) = .int n)
    (hinit : ∀ p ∈ d.files, p.1.2 = true → p.1 ≠ ("cluster_" ++ field, true) → fileField parse fnum field p = none)
    (hf : (absRun ⟨[], []⟩ ops).fields.lookup field = some vals)
    (hinfo : field ≠ "info")     -- `cluster_info.tsv` is deliberately ignored on load
    (hvals : vals ≠ []) :
    fieldView parse fnum (run render scale d ops) field =
      some (vals.map fun p => (Cell.int p.1, p.2)) :=
  Lemmas.metadata_last_saved render parse fnum scale d ops hown field vals hrt hne hid hinit hf hinfo hvals

/-- The loader, for ANY list of files in ANY visiting order: a field shows exactly what the LAST visited file that
says anything about it says (`fileField`: a readable file other than `cluster_info.*` with a row giving the
field a value next to a `cluster_id`); `none` when no file does. This is the rule that decides which file wins
when a foreign TSV/CSV and a saved file carry the same field. -/
theorem view_field_eq_last (parse : String → Cell) (fnum : Nat → Option Int) (visit : List (FName × File))
    (field : String) :
    (metadataViewIn parse fnum visit).lookup field = visit.reverse.findSome? (fileField parse fnum field) :=
  Lemmas.view_field_eq_last parse fnum visit field

/-- "… the last saved mapping of every metadata field next to metadata found in other TSV/CSV files", widened to
foreign files of BOTH kinds, present before or written at any point of the history (`writeFile` ops are allowed
everywhere; only `cluster_<field>.tsv` itself must not be overwritten after the save, and the save must be the
last of that field — `KeepsSaved`), for ANY initial directory and ANY order `order` in which the directory lists
its files (`glob` does not specify it; the loader visits all `.csv` of that order, then all `.tsv`): a reload
shows exactly the last saved mapping of the field, provided no OTHER `.tsv` file in the final directory says
anything about the field (`hother`; legacy `.csv` files may — the saved `.tsv` wins because it is visited later).
When another `.tsv` does carry the field, which of the two is shown is decided by `view_field_eq_last`: the one the
directory order visits last — the real `glob` order; not determined by the code.
`hvals`: a field emptied by the last save is written as a header-only file that says nothing. Codec hypotheses on the
saved cells only, as in `metadata_last_saved`. -/
theorem metadata_last_saved_among_files (render : Cell → String) (parse : String → Cell) (fnum : Nat → Option Int)
    (scale : α → α)
    (d : Disk α) (pre post : List Op) (field : String) (m : List (Nat × Option Cell))
    (hrt : ∀ p ∈ cleanMeta m, parse (render p.2) = p.2) (hne : ∀ p ∈ cleanMeta m, render p.2 ≠ "")
    (hid : ∀ n : Nat, parse (toString n) = .int n)
    (hkeep : KeepsSaved field post)
    (hfield : field ≠ "cluster_id") (hinfo : field ≠ "info") (hvals : cleanMeta m ≠ [])
    (order : List (FName × File))
    (hperm : order.Perm (run render scale d (pre ++ .saveMeta field m :: post)).files)
    (hother : ∀ p ∈ (run render scale d (pre ++ .saveMeta field m :: post)).files,
      p.1.2 = true → p.1 ≠ ("cluster_" ++ field, true) → fileField parse fnum field p = none) :
    (metadataView parse fnum order).lookup field =
      some ((cleanMeta m).map fun p => (Cell.int p.1, p.2)) :=
  Lemmas.metadata_last_saved_among_files render parse fnum scale d pre post field m hrt hne hid hkeep hfield
    hinfo hvals order hperm hother

/-- "metadata found in other TSV/CSV files": a readable two-column file `cluster_id, f` with non-empty cells shows ONE
field whose entries are keyed by the PARSED id value, as the Python dict is (`1`, `01`, `1.0`, `1e0` are one key): the
ids shown are pairwise different as keys, and for every key class `κ` the value shown is the one of the LAST row whose id
is in the class, under the key object of the FIRST such row. -/
theorem two_column_file_by_id_value (parse : String → Cell) (fnum : Nat → Option Int)
    (f : String) (hf : f ≠ "cluster_id") (rows : List (String × String))
    (hne : ∀ r ∈ rows, r.1 ≠ "" ∧ r.2 ≠ "") (hrows : rows ≠ []) :
    ∃ dict, loadMetadata parse fnum (.table ["cluster_id", f] (rows.map fun r => [r.1, r.2])) = some [(f, dict)] ∧
      (dict.map fun q => keyOf fnum q.1).Nodup ∧
      ∀ κ, (dictGet fnum dict κ).map (·.2) =
          (((rows.map fun r => (parse r.1, parse r.2)).reverse.find? fun r => keyOf fnum r.1 == κ).map (·.2)) ∧
        (dictGet fnum dict κ).map (·.1) =
          (((rows.map fun r => (parse r.1, parse r.2)).find? fun r => keyOf fnum r.1 == κ).map (·.1)) :=
  Lemmas.two_column_file parse fnum f hf rows hne hrows

/-- "unchanged spike templates and times" — the MODEL side. What this establishes: the disk model every other theorem
of this file runs on never rewrites `spike_templates.npy`, `spike_times.npy`, the raw data or the template files, so
those theorems may speak of `d.fixed` after any history. What it does NOT establish: it holds by construction of `step`
(every branch is a record update of `assign`, `files` or `subset`; `step_writes_only` is the full frame statement), so
by itself it says nothing about the real functions. That the real `save_*` / `close` / `load_model` leave these files
alone is checked by the correspondence: after EVERY step of every generated history the bytes of every file in the
directory are compared with the bytes before the step, and only the files `touched` names may differ (a change of
`spike_templates.npy` / `spike_times.npy` / `spikes.times.npy` is a SPEC verdict); each reload also compares the
loaded `spike_templates` / `spike_samples` with the generated ones. -/
theorem templates_times_unchanged (render : Cell → String) (scale : α → α) (d : Disk α) (ops : List Op) :
    (run render scale d ops).fixed.spikeTemplates = d.fixed.spikeTemplates ∧
    (run render scale d ops).fixed.spikeSamples = d.fixed.spikeSamples ∧
    (run render scale d ops).fixed = d.fixed :=
  Lemmas.templates_times_unchanged render scale d ops

/-- The frame of every operation: `touched d op` names the only files `step` may change — the resolved assignment
file for a save of clusters, `cluster_<field>.tsv` for a save of metadata, the three subset files for an export with
raw data (nothing without), `spike_clusters.npy` for a load that finds no assignment file, nothing for `close` and for
any other load. The driver reports `touched` for every step of a history and the harness compares it with the files
whose bytes really changed. -/
theorem step_writes_only (render : Cell → String) (scale : α → α) (d : Disk α) (op : Op) :
    (step render scale d op).fixed = d.fixed ∧
    (Target.subsetStore ∉ touched d op → (step render scale d op).subset = d.subset) ∧
    (∀ n, Target.assign n ∉ touched d op → (step render scale d op).assign.lookup n = d.assign.lookup n) ∧
    (∀ n, Target.table n ∉ touched d op → (step render scale d op).files.lookup n = d.files.lookup n) :=
  Lemmas.step_writes_only render scale d op

/-- "subset-store waveforms equal to those read from the raw data", for EVERY history (induction over the
operations; composition with the C03 model): whatever was saved, written, exported, closed and reloaded, if a
reload finds a subset store then every lookup of stored spikes (any order, any non-empty query channel list, the
dataset's window length) returns, on each query channel stored for the spike, the unit factor times the
zero-padded raw window of THAT spike — its unchanged sample in the unchanged recording — and zeros on the other
channels; and the stored channel row of every stored spike is the first `nc` channels of its template's channel
order, filled up with −1. In scope: datasets `load_model` accepts, with raw data (`FixedOK`), a directory that starts
without a store or with the store an earlier session's export wrote (`SubsetFromExport`), selections as
`SpikeSelector` returns them (`SelOK`). -/
theorem subset_eq_raw (render : Cell → String) (scale : α → α) (nch : Nat) (d : Disk α)
    (hfx : FixedOK nch d.fixed) (hinit : SubsetFromExport scale d.fixed d.subset) (ops : List Op)
    (hsel : SelOK d.fixed ops)
    (st : C03.Store α) (hst : storeView (run render scale d ops) = some st)
    (query : List Nat) (hq : ∀ q ∈ query, q ∈ st.spikeIds) (chq : List Nat) (hchq : chq ≠ [])
    (_hchqd : chq.Nodup) :
    C03.getSpikeWaveforms st query chq d.fixed.nsw =
      some (query.map fun q =>
        C03.lookupSpec scale d.fixed.raw (d.fixed.spikeSamples.getD q 0) d.fixed.nsw
          (st.spikeChannels.getD (st.spikeIds.idxOf q) []) chq) ∧
    ∃ nc, 0 < nc ∧ st.spikeChannels = st.spikeIds.map fun i =>
      C03.templateNChannels true (d.fixed.orders.getD (d.fixed.spikeTemplates.getD i 0) []) nc :=
  Lemmas.subset_eq_raw render scale nch d hfx hinit ops hsel st hst query hq chq hchq

/-- … the same with NO assumption on the subset files the history starts with (stale, foreign, of another unit factor),
once the history itself contains an export: the store a later reload finds is the one of the last export. `_hchqd` as
in `subset_eq_raw` and C03 `routes_agree`: the query channels are distinct — the real lookup fills a repeated query
channel only at its LAST position, the model's `getSpikeWaveforms` at every position, so outside `Nodup` the model
equation is not a statement about the code. -/
theorem subset_eq_raw_after_export (render : Cell → String) (scale : α → α) (nch : Nat) (d : Disk α)
    (hfx : FixedOK nch d.fixed) (a b : List Op) (sel : List Nat) (maxN : Nat)
    (hsel : SelOK d.fixed (a ++ .saveSubset sel maxN :: b))
    (st : C03.Store α) (hst : storeView (run render scale d (a ++ .saveSubset sel maxN :: b)) = some st)
    (query : List Nat) (hq : ∀ q ∈ query, q ∈ st.spikeIds) (chq : List Nat) (hchq : chq ≠ [])
    (_hchqd : chq.Nodup) :
    C03.getSpikeWaveforms st query chq d.fixed.nsw =
      some (query.map fun q =>
        C03.lookupSpec scale d.fixed.raw (d.fixed.spikeSamples.getD q 0) d.fixed.nsw
          (st.spikeChannels.getD (st.spikeIds.idxOf q) []) chq) ∧
    ∃ nc, 0 < nc ∧ st.spikeChannels = st.spikeIds.map fun i =>
      C03.templateNChannels true (d.fixed.orders.getD (d.fixed.spikeTemplates.getD i 0) []) nc :=
  Lemmas.subset_eq_raw_after_export render scale nch d hfx a b sel maxN hsel st hst query hq chq hchq

/-- … and once the subset has been exported anywhere in the history (dataset with raw data), every later reload DOES
find a store (the written files load as an array of the declared shape) — whatever subset files were there before.
The harness judges it: a reload after an export that shows no store is a SPEC verdict. -/
theorem subset_present (render : Cell → String) (scale : α → α) (nch : Nat) (d : Disk α)
    (hfx : FixedOK nch d.fixed) (a b : List Op) (sel : List Nat) (maxN : Nat)
    (hsel : SelOK d.fixed (a ++ .saveSubset sel maxN :: b)) :
    (storeView (run render scale d (a ++ .saveSubset sel maxN :: b))).isSome :=
  Lemmas.subset_present render scale nch d hfx a b sel maxN hsel

/-- Without raw data (`model.traces is None`) `save_spikes_subset_waveforms` warns and returns (model.py l. 1401-1404): no
history writes or removes subset files. -/
theorem export_needs_raw (render : Cell → String) (scale : α → α) (ops : List Op) (d : Disk α)
    (hraw : d.fixed.hasRaw = false) : (run render scale d ops).subset = d.subset :=
  Lemmas.export_needs_raw render scale ops d hraw

/-- Malformed or empty metadata files never prevent loading and never change what is shown for
the other files: an unreadable file contributes nothing. -/
theorem unreadable_ignored (parse : String → Cell) (fnum : Nat → Option Int) (files : List (FName × File))
    (name : FName) :
    metadataView parse fnum (putFile files name .unreadable) =
      metadataView parse fnum (files.filter fun p => p.1 != name) :=
  Lemmas.unreadable_ignored parse fnum files name

/-- `cluster_info` is never read as metadata. -/
theorem cluster_info_excluded (parse : String → Cell) (fnum : Nat → Option Int) (files : List (FName × File))
    (tsv : Bool) (f : File) :
    metadataView parse fnum (putFile files ("cluster_info", tsv) f) =
      metadataView parse fnum (files.filter fun p => p.1 != ("cluster_info", tsv)) :=
  Lemmas.cluster_info_excluded parse fnum files tsv f

/-- Saving clusters or metadata, exporting the subset, closing and reloading never touch any other metadata file
(frame of the tables; the whole frame: `step_writes_only`). -/
theorem step_frame (render : Cell → String) (scale : α → α) (d : Disk α) (op : Op) (name : FName)
    (hs : match op with
      | .saveMeta field _ => name ≠ ("cluster_" ++ field, true)
      | .writeFile s _ => name ≠ s
      | _ => True) :
    (step render scale d op).files.lookup name = d.files.lookup name :=
  Lemmas.step_frame render scale d op name hs

/-! Non-vacuity (cells of the recording are integers) -/
-- fixtures `exFixed` (4 samples × 3 channels, 4 spikes of templates 1,0,1,0, raw data present) and `exRender`:
-- `Lemmas/C10b.lean`; `noF`: no float token is integral
example :
    (run exRender (fun x => 2 * x) ⟨[(none, [0, 1])], [], none, exFixed⟩
      [.saveMeta "group" [(3, some (.text "good")), (1, some (.text "mua")), (2, none)],
       .saveClusters [1, 1], .reload, .saveMeta "group" [(1, some (.text "noise"))], .close, .reload]).files =
      [(("cluster_group", true), .table ["cluster_id", "group"] [["1", "noise"]])] := by decide
-- the assignments live in a LABELLED ALF file: loaded, saved to that same file, shown by the next load
example :
    let d : Disk Int := ⟨[(some ".probe00", [3, 0, 3, 0])], [], none, exFixed⟩
    (findAssign d.assign).isSome ∧ shown d = [3, 0, 3, 0] ∧
    (run exRender (fun x => x) d [.reload, .saveClusters [5, 5, 6, 6], .close, .reload]).assign =
      [(some ".probe00", [5, 5, 6, 6])] ∧
    shown (run exRender (fun x => x) d [.reload, .saveClusters [5, 5, 6, 6], .close, .reload]) = [5, 5, 6, 6] ∧
    touched d (.saveClusters [5, 5, 6, 6]) = [.assign (some ".probe00")] := by decide
example : ¬ Conflict [((some ".probe00" : CName), [3, 0, 3, 0])] := by
  intro ⟨⟨p, hp, h⟩, _⟩
  simp only [List.mem_singleton] at hp
  subst hp
  cases h
-- the hypotheses of `clusters_last_saved` / `assign_stays_loadable` on that session (4 spikes): the opened file and the
-- saved array have one id per spike and small ids; a one-entry array or an id 2^31 is outside `SavesOK`
example :
    let d : Disk Int := ⟨[(some ".probe00", [3, 0, 3, 0])], [], none, exFixed⟩
    AssignOK d.fixed.spikeSamples.length (shown d) ∧
    SavesOK d.fixed.spikeSamples.length [.reload, .saveClusters [5, 5, 6, 6], .close, .reload] ∧
    ¬ SavesOK d.fixed.spikeSamples.length [.saveClusters [7]] ∧
    ¬ SavesOK d.fixed.spikeSamples.length [.saveClusters [2147483648, 0, 0, 0]] := by
  refine ⟨⟨rfl, by decide, by decide⟩, ?_, fun h => ?_, fun h => ?_⟩
  · intro op hop
    simp only [List.mem_cons, List.mem_nil_iff, or_false] at hop
    rcases hop with rfl | rfl | rfl | rfl <;> first | trivial | exact ⟨rfl, by decide, by decide⟩
  · exact absurd (h _ List.mem_cons_self).1 (by decide)
  · exact absurd ((h _ List.mem_cons_self).2.2 2147483648 List.mem_cons_self) (by decide)
-- a directory with BOTH `spike_clusters.npy` and `spikes.clusters.npy` is outside `first_load` (the real load raises IOError)
example : Conflict [((none : CName), [0, 1, 0, 1]), (some "", [1, 1, 1, 1])] :=
  ⟨⟨_, List.mem_cons_self, rfl⟩, ⟨_, List.mem_cons_of_mem _ List.mem_cons_self, rfl⟩⟩
example : ¬ Conflict ([] : List (CName × List Nat)) := fun ⟨⟨_, hp, _⟩, _⟩ => by cases hp
-- no assignment file at all (a fresh KiloSort output): the opening load creates `spike_clusters.npy` from the templates
example :
    let d : Disk Int := ⟨[], [], none, exFixed⟩
    findAssign d.assign = none ∧ shown d = [1, 0, 1, 0] ∧
    (step exRender (fun x => x) d .reload).assign = [(none, [1, 0, 1, 0])] ∧
    touched d .reload = [.assign none] ∧
    touched (step exRender (fun x => x) d .reload) .reload = [] := by decide
-- a legacy CSV carrying the same field does not hide the saved mapping
example :
    let parse : String → Cell := fun s => if s == "1" then .int 1 else .text s
    fieldView parse noF (run exRender (fun x => x)
      ⟨[], [(("cluster_groups", false), .table ["cluster_id", "group"] [["1", "unsorted"]])], none, exFixed⟩
      [.saveMeta "group" [(1, some (.text "good"))]]) "group" = some [(.int 1, .text "good")] := by decide
-- a KiloSort output directory (`cluster_KSLabel.tsv`, `cluster_group.tsv` already there): `group` is saved over,
-- `KSLabel` stays next to it; the hypothesis `hinit` of `metadata_last_saved` holds for `group`
example :
    let parse : String → Cell := fun s => if s == "1" then .int 1 else if s == "2" then .int 2 else .text s
    let d : Disk Int := ⟨[], [(("cluster_KSLabel", true), .table ["cluster_id", "KSLabel"] [["1", "good"], ["2", "mua"]]),
      (("cluster_group", true), .table ["cluster_id", "group"] [["1", "good"], ["2", "mua"]])], none, exFixed⟩
    (∀ p ∈ d.files, p.1.2 = true → p.1 ≠ ("cluster_" ++ "group", true) → fileField parse noF "group" p = none) ∧
    fieldView parse noF (run exRender (fun x => x) d [.saveMeta "group" [(2, some (.text "noise"))]]) "group" =
      some [(.int 2, .text "noise")] ∧
    fieldView parse noF (run exRender (fun x => x) d [.saveMeta "group" [(2, some (.text "noise"))]]) "KSLabel" =
      some [(.int 1, .text "good"), (.int 2, .text "mua")] := by decide
example : OwnOps [.saveMeta "group" [(2, some (.text "noise"))], .saveClusters [1], .reload] := by
  intro op hop
  simp only [List.mem_cons, List.mem_nil_iff, or_false] at hop
  rcases hop with rfl | rfl | rfl <;> simp
example : cleanMeta [(3, some (.int 5)), (1, some (.int 7)), (3, none), (2, some (.int 1))] =
    [(1, .int 7), (2, .int 1)] := by decide
-- a foreign TSV with the same field, written during the history: the directory order decides
example :
    let parse : String → Cell := fun s => if s == "1" then .int 1 else .text s
    let foreign : FName × File := (("zz", true), .table ["cluster_id", "group"] [["1", "theirs"]])
    let saved : FName × File := (("cluster_group", true), .table ["cluster_id", "group"] [["1", "ours"]])
    (run exRender (fun x => x) ⟨[], [], none, exFixed⟩
        [.writeFile foreign.1 foreign.2, .saveMeta "group" [(1, some (.text "ours"))]]).files = [foreign, saved] ∧
    (metadataViewIn parse noF [foreign, saved]).lookup "group" = some [(.int 1, .text "ours")] ∧
    (metadataViewIn parse noF [saved, foreign]).lookup "group" = some [(.int 1, .text "theirs")] ∧
    fileField parse noF "group" foreign = some [(.int 1, .text "theirs")] ∧
    fileField parse noF "quality" foreign = none := by decide
-- `metadata_last_saved_among_files` with foreign writes BEFORE and AFTER the save (a `.tsv` about another field, an
-- unreadable `.tsv`, a legacy `.csv` carrying the SAME field): `hkeep` and `hother` hold for the final directory, and
-- the reload shows the saved mapping in the directory order and in the reversed one (`hperm`)
example :
    let parse : String → Cell := fun s => if s == "1" then .int 1 else .text s
    let d : Disk Int := ⟨[], [(("cluster_groups", false), .table ["cluster_id", "group"] [["1", "unsorted"]])], none, exFixed⟩
    let pre : List Op := [.writeFile ("zz", true) (.table ["cluster_id", "quality"] [["1", "x"]])]
    let post : List Op := [.writeFile ("cluster_notes", true) (.table ["cluster_id", "note"] [["1", "hello"]]),
      .writeFile ("old", false) (.table ["cluster_id", "group"] [["1", "theirs"]]),
      .writeFile ("bad", true) .unreadable, .reload]
    let fin := (run exRender (fun x => x) d (pre ++ .saveMeta "group" [(1, some (.text "ours"))] :: post)).files
    fin.length = 6 ∧
    (∀ p ∈ fin, p.1.2 = true → p.1 ≠ ("cluster_" ++ "group", true) → fileField parse noF "group" p = none) ∧
    fileField parse noF "group" (("old", false), .table ["cluster_id", "group"] [["1", "theirs"]]) =
      some [(.int 1, .text "theirs")] ∧
    fin.reverse.Perm fin ∧
    (metadataView parse noF fin).lookup "group" = some [(.int 1, .text "ours")] ∧
    (metadataView parse noF fin.reverse).lookup "group" = some [(.int 1, .text "ours")] ∧
    (metadataView parse noF fin).lookup "note" = some [(.int 1, .text "hello")] :=
  ⟨by decide, by decide, by decide, List.reverse_perm _, by decide, by decide, by decide⟩
example : KeepsSaved "group" [.writeFile ("cluster_notes", true) (.table ["cluster_id", "note"] [["1", "hello"]]),
    .writeFile ("old", false) (.table ["cluster_id", "group"] [["1", "theirs"]]),
    .writeFile ("bad", true) .unreadable, .reload] := by
  intro op hop
  simp only [List.mem_cons, List.mem_nil_iff, or_false] at hop
  rcases hop with rfl | rfl | rfl | rfl <;> simp
-- a repeated `cluster_id` column: the last non-empty cell is the id (dict semantics of read_tsv)
example :
    let parse : String → Cell := fun s => if s == "1" then .int 1 else if s == "2" then .int 2 else .text s
    loadMetadata parse noF (.table ["cluster_id", "zz", "cluster_id"] [["1", "A", "2"], ["1", "B", ""]]) =
      some [("zz", [(.int 2, .text "A"), (.int 1, .text "B")])] := by decide
-- ids written differently but numerically equal are ONE key (real code: `{1: 'B', 2: 'D', 1.5: 'E'}`): the first row's
-- key object, the last row's value; `1.5` and the text id `x` are keys of their own
example :
    let parse : String → Cell := fun s =>
      if s == "1" || s == "01" then .int 1 else if s == "1.0" then .float 10 else if s == "2e0" then .float 20
      else if s == "2" then .int 2 else if s == "1.5" then .float 15 else .text s
    let fnum : Nat → Option Int := fun t => if t == 10 then some 1 else if t == 20 then some 2 else none
    loadMetadata parse fnum (.table ["cluster_id", "ffa"]
        [["1", "A"], ["2e0", "C"], ["1.0", "B"], ["1.5", "E"], ["2", "D"], ["x", "F"], ["01", "G"]]) =
      some [("ffa", [(.int 1, .text "G"), (.float 20, .text "D"), (.float 15, .text "E"), (.text "x", .text "F")])] ∧
    keyOf fnum (.float 10) = keyOf fnum (.int 1) ∧ keyOf fnum (.float 15) ≠ keyOf fnum (.int 1) := by decide
-- the subset store after a history with an export (factor 2, spikes 1 and 2 selected, width max(0 or 2, 2) = 2)
example : KeepsSaved "group" [.saveSubset [1, 2] 0, .writeFile ("zz", true) .unreadable, .saveMeta "quality" [], .reload] := by
  intro op hop
  simp only [List.mem_cons, List.mem_nil_iff, or_false] at hop
  rcases hop with rfl | rfl | rfl | rfl <;> simp
example :
    (storeView (run exRender (fun x => 2 * x) ⟨[(none, [0, 1, 0, 1])], [], none, exFixed⟩
      [.saveSubset [1, 2] 0, .saveClusters [3, 3, 3, 3], .close, .reload])).bind
      (fun st => C03.getSpikeWaveforms st [2, 1] [1, 2] 2) =
    some [[[16, 0], [22, 0]], [[0, 6], [0, 12]]] := by decide
example : ([1, 2] : List Nat).Nodup ∧ ([1, 2] : List Nat) ≠ [] := by decide   -- `_hchqd`, `hchq` of the lookup above
-- an export over SEVERAL chunks (`exFixed.chunks = [(0, 3), (3, 4)]`): spike 1 lies in the first chunk, spikes 2 and 3 in the
-- second one, where their positions in the chunk (0, 1) are not their rows in the selection (1, 2) and the rows of the
-- channel table differ (template 0: channels 2, 0; template 1: channel 1 and a −1 column): every stored window is cut on
-- the channel row of ITS spike (`iter_waveforms` restricts the channel table to the chunk, traces.py:653)
example :
    (storeView (run exRender (fun x => x) ⟨[(none, [0, 1, 0, 1])], [], none, exFixed⟩ [.saveSubset [1, 2, 3] 0, .reload])).map
      (fun st => (st.spikeChannels, st.waveforms)) =
    some ([[2, 0], [1, -1], [2, 0]], [[[3, 1], [6, 4]], [[8, 0], [11, 0]], [[9, 7], [12, 10]]]) := by decide
-- a session that STARTS with the store of an earlier session's export (`SubsetFromExport`), and an export over it
example :
    let old := C03.saveSubset (fun x : Int => 2 * x) exFixed.raw exFixed.chunks exFixed.spikeSamples
      exFixed.spikeTemplates exFixed.orders [1, 2] exFixed.nsw (C03.subsetWidth 0 exFixed.nClosest)
    SubsetFromExport (fun x : Int => 2 * x) exFixed (some old) ∧
    (storeView (run exRender (fun x => 2 * x) ⟨[(none, [0, 1, 0, 1])], [], some old, exFixed⟩ [.close, .reload])).bind
      (fun st => C03.getSpikeWaveforms st [2, 1] [1, 2] 2) = some [[[16, 0], [22, 0]], [[0, 6], [0, 12]]] ∧
    ((storeView (run exRender (fun x => 2 * x) ⟨[(none, [0, 1, 0, 1])], [], some old, exFixed⟩
      [.saveSubset [0, 3] 0, .reload])).map (·.spikeIds)) = some [0, 3] :=
  ⟨Or.inr ⟨[1, 2], 0, by decide, by decide, rfl⟩, by decide, by decide⟩
-- no raw data: the export writes nothing
example :
    (run exRender (fun x => 2 * x) ⟨[(none, [0, 1, 0, 1])], [], none, { exFixed with hasRaw := false }⟩
      [.saveSubset [1, 2] 0, .reload]).subset = none ∧
    touched (⟨[], [], none, { exFixed with hasRaw := false }⟩ : Disk Int) (.saveSubset [1, 2] 0) = [] ∧
    touched (⟨[], [], none, exFixed⟩ : Disk Int) (.saveSubset [1, 2] 0) = [.subsetStore] := by decide
example : PhyVerif.C16.intervalsTile exFixed.raw.length exFixed.chunks = true := by decide
-- the hypotheses of `subset_eq_raw` hold for that dataset and history
example : FixedOK 3 exFixed :=
  { raw := rfl, rect := by simp [C03.Rect, exFixed], tile := by decide, sorted := by decide, inrange := by decide,
    tlen := by decide, tbound := by decide,
    ord := by
      intro o ho
      simp only [exFixed, List.mem_cons, List.mem_nil_iff, or_false] at ho
      rcases ho with rfl | rfl <;> intro c hc <;>
        simp only [List.mem_cons, List.mem_nil_iff, or_false] at hc <;> omega,
    nsw := by decide, closest := by decide }
example : SelOK exFixed [.saveSubset [1, 2] 0, .saveClusters [3, 3, 3, 3], .close, .reload] := by
  intro op hop
  simp only [List.mem_cons, List.mem_nil_iff, or_false] at hop
  rcases hop with rfl | rfl | rfl | rfl <;> simp [exFixed]

end PhyVerif.C10
