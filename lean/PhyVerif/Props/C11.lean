import PhyVerif.Model.C11
import PhyVerif.Spec.C11
import PhyVerif.Lemmas.C11
import PhyVerif.Lemmas.C11b
import PhyVerif.Model.C11b
import PhyVerif.Lemmas.C11c
import PhyVerif.Lemmas.C11d
import PhyVerif.Model.C11e
import PhyVerif.Spec.C11e
import PhyVerif.Lemmas.C11e
import PhyVerif.Lemmas.C11i
import PhyVerif.Lemmas.C11k
import PhyVerif.Model.C11l
import PhyVerif.Lemmas.C11l
/-!
# C11 — merging probes conserves every spike and renumbers ids disjointly
Only property theorems + non-vacuity examples; proofs in `Lemmas/C11.lean`.
-/
namespace PhyVerif.C11
open PhyVerif

/-- The merged dataset contains each input spike exactly once: the merged origins are a
permutation of all (probe, index) pairs — for any number of probes and spikes. -/
theorem merged_perm (times : List (List Int)) :
    (mergedOrigins times).Perm (origins times) :=
  Lemmas.merged_perm times

/-- Merged spike times are non-decreasing. -/
theorem merged_sorted (times : List (List Int)) :
    (mergedTimes times).Pairwise (· ≤ ·) :=
  Lemmas.merged_sorted times

/-- Each merged spike keeps its time (and, by the same gather, its amplitude). -/
theorem merged_keeps_time (times : List (List Int)) :
    mergedTimes times = (mergedOrigins times).map (timeOf times) :=
  Lemmas.merged_keeps_time times

/-- Stability: among simultaneous spikes the original order is kept within a probe and spikes of
different probes are ordered by probe — i.e. the merged origins are sorted lexicographically by
(time, probe, index). -/
theorem merged_stable (times : List (List Int)) :
    (mergedOrigins times).Pairwise fun a b =>
      timeOf times a < timeOf times b ∨ (timeOf times a = timeOf times b ∧ originLt a b) :=
  Lemmas.merged_stable times

/-- Any per-spike array (amplitudes, shifted ids) is gathered with the same order: the merged
value of a spike is the value it had in its probe. -/
theorem gather_by_origin {α : Type} (times : List (List Int)) (arrays : List (List α))
    (hs : SameShape times arrays) (d : α) :
    gather arrays (spikeOrder times) =
      (mergedOrigins times).map fun o => (arrays.getD o.1 []).getD o.2 d :=
  Lemmas.gather_by_origin times arrays hs d

/-- Ids are shifted by a per-probe offset … -/
theorem ids_shifted (ids : List (List Nat)) (k i : Nat)
    (hi : i < (ids.getD k []).length) :
    ((shiftIds ids).getD k []).getD i 0 = (ids.getD k []).getD i 0 + (idOffsets ids).getD k 0 :=
  Lemmas.ids_shifted ids k i hi

/-- … such that ids of different probes never collide: all shifted ids of probe k lie in
`[offset_k, offset_{k+1})` and the offsets increase. -/
theorem ids_disjoint (ids : List (List Nat)) (k l : Nat) (hkl : k < l) :
    ∀ a ∈ (shiftIds ids).getD k [], ∀ b ∈ (shiftIds ids).getD l [], a < b :=
  Lemmas.ids_disjoint ids k l hkl

/-- Template ids use offsets that count each probe's templates (rows of templates.npy, at least
max id + 1): the merged template id of a spike is its original id plus the probe's offset … -/
theorem template_ids_shifted (ids : List (List Nat)) (counts : List Nat) (hlen : counts.length = ids.length)
    (k i : Nat) (hi : i < (ids.getD k []).length) :
    ((shiftBy ids (templateOffsets ids counts)).getD k []).getD i 0 =
      (ids.getD k []).getD i 0 + (templateOffsets ids counts).getD k 0 :=
  Lemmas.shiftBy_getD ids (templateOffsets ids counts)
    (by unfold templateOffsets templateSizes
        have h : ∀ (off : Nat) (l : List Nat), (sizeOffsetsFrom off l).length = l.length := by
          intro off l; induction l generalizing off with
          | nil => rfl
          | cons a t ih => simp [sizeOffsetsFrom, ih]
        rw [h]; simp [hlen]) k i hi

/-- … ids of different probes never collide … -/
theorem template_ids_disjoint (ids : List (List Nat)) (counts : List Nat)
    (k l : Nat) (hkl : k < l) :
    ∀ a ∈ (shiftBy ids (templateOffsets ids counts)).getD k [],
      ∀ b ∈ (shiftBy ids (templateOffsets ids counts)).getD l [], a < b :=
  Lemmas.template_ids_disjoint ids counts k l hkl

/-- … and when every template id is below its probe's template count the offsets are the summed
template counts of the previous probes, i.e. the row offsets of the merged templates (C12). -/
theorem templateOffsets_eq_counts (ids : List (List Nat)) (counts : List Nat) (hlen : counts.length = ids.length)
    (hlt : ∀ k, ∀ a ∈ ids.getD k [], a < counts.getD k 0) (hpos : ∀ c ∈ counts, 0 < c)
    (k : Nat) (hk : k < ids.length) :
    (templateOffsets ids counts).getD k 0 = (counts.take k).sum :=
  Lemmas.templateOffsets_eq_counts ids counts hlen hlt hpos k hk

/-- The per-cluster probe table points back to the originating probe: entry c is k exactly for
the merged ids of probe k's range; its length is the total number of merged cluster ids. -/
theorem clusterProbes_ok (ids : List (List Nat)) (k : Nat) (hk : k < ids.length) (c : Nat)
    (hc : c ≤ (ids.getD k []).foldl max 0) :
    (clusterProbes ids).getD (c + (idOffsets ids).getD k 0) (ids.length) = k :=
  Lemmas.clusterProbes_ok ids k hk c hc

/-- Size of the probe table: it has exactly one row per merged cluster id — `Σ_k (max(spike_clusters_k) + 1)`
rows, which is the largest merged cluster id plus one (the equality the code asserts at merge.py:161).
Hypotheses: the cluster arrays have as many entries in total as there are spikes (the code asserts it,
merge.py:50), there is at least one probe (`assert subdirs`), and `hne`: every probe has a spike. For a probe
WITHOUT spikes the real code raises `ValueError` at `np.max(sc)` (merge.py:147; run: 2 probes, the second or the
first one spike-less → "zero-size array to reduction operation maximum which has no identity", inputs
untouched, no merged dataset) while the model totalises that maximum as 0: without `hne` the first equality is
false in the model (second example below). -/
theorem clusterProbes_length (times : List (List Int)) (ids : List (List Nat))
    (hlen : ids.flatten.length = times.flatten.length) (hne : NonEmpty ids) (h0 : ids ≠ []) :
    (clusterProbes ids).length = (mergedIds times ids).foldl max 0 + 1 ∧
    (clusterProbes ids).length = (ids.map fun a => a.foldl max 0 + 1).sum :=
  Lemmas.clusterProbes_length times ids hlen hne h0

/-- … and every row of the table belongs to exactly one probe's id range: row K is `c + offset_k` for an
original id `c ≤ max(spike_clusters_k)` of the probe `k` the row names (with `clusterProbes_ok` and
`ids_disjoint`: the table is completely determined). -/
theorem clusterProbes_cover (ids : List (List Nat)) (K : Nat) (hK : K < (clusterProbes ids).length) :
    ∃ k c, k < ids.length ∧ c ≤ (ids.getD k []).foldl max 0 ∧ K = c + (idOffsets ids).getD k 0 ∧
      (clusterProbes ids).getD K ids.length = k :=
  Lemmas.clusterProbes_cover ids K hK

/-- Renumbered metadata: the entry of original cluster c of probe k is found under key
c + offset_k, with its value unchanged. -/
theorem metadata_renumbered {β : Type} (md : List (Option (List (Nat × β)))) (offsets : List Nat)
    (k : Nat) (l : List (Nat × β)) (hk : md[k]? = some (some l)) (hlen : offsets.length = md.length)
    (c : Nat) (v : β) (hcv : (c, v) ∈ l) :
    (c + offsets.getD k 0, v) ∈ mergeMetadata md offsets :=
  Lemmas.metadata_renumbered md offsets k l hk hlen c v hcv

/-- Renumbered per-cluster metadata with the merger's own offsets point back to the originating
probe and original id: every merged row (K, v) comes from exactly one probe k and original id c
with K = c + offset_k, the probe table sends K to k, every row of an id in the probe's range is
kept with its value, and — when each probe's file has one row per id — no two merged rows share a
key (nothing is overwritten in the merged dictionary). -/
theorem metadata_points_back {β : Type} (md : List (Option (List (Nat × β)))) (ids : List (List Nat))
    (hlen : md.length = ids.length) :
    (∀ K v, (K, v) ∈ mergeClusterData md ids →
      ∃ k c l, md[k]? = some (some l) ∧ (c, v) ∈ l ∧ c ≤ (ids.getD k []).foldl max 0 ∧
        K = c + (idOffsets ids).getD k 0 ∧ (clusterProbes ids).getD K ids.length = k) ∧
    (∀ k l c v, md[k]? = some (some l) → (c, v) ∈ l → c ≤ (ids.getD k []).foldl max 0 →
      (c + (idOffsets ids).getD k 0, v) ∈ mergeClusterData md ids) ∧
    ((∀ l, some l ∈ md → (l.map (·.1)).Nodup) → ((mergeClusterData md ids).map (·.1)).Nodup) :=
  Lemmas.metadata_points_back md ids hlen

/-! Non-vacuity -/
example : mergeClusterData [some [(0, "good"), (2, "mua")], some [(0, "good")]] [[0, 1, 1], [0, 0]]
    = [(0, "good"), (2, "good")] := by decide     -- row 2 of probe 0 (no spike, beyond its id range) is not renumbered onto probe 1's id 0
example : spikeOrder [[3, 5, 5], [1, 5], [5, 9]] = [3, 0, 1, 2, 4, 5, 6] := by decide
example : mergedOrigins [[3, 5, 5], [1, 5], [5, 9]] = [(1,0), (0,0), (0,1), (0,2), (1,1), (2,0), (2,1)] := by decide
example : mergedIds [[3, 5, 5], [1, 5], [5, 9]] [[0, 2, 2], [4, 0], [1, 1]] = [7, 0, 2, 2, 3, 9, 9] := by decide
example : templateOffsets [[0, 1, 1], [0, 0]] [3, 2] = [0, 3] := by decide   -- last template of probe 0 has no spike
example : clusterProbes [[0, 2, 2], [4, 0], [1, 1]] = [0, 0, 0, 1, 1, 1, 1, 1, 2, 2] := by decide

/-- Composition with the loader model of C04 (the last step of `merge()` is to load what it wrote):
for ANY probes the merged directory loads — its spike times are non-decreasing by `merged_sorted`, so
the loader's monotonicity check never rejects a merge — and the loaded model shows exactly the merged
samples, amplitudes, cluster and template ids (C11) and the merged channel map, probe labels and
positions (C12). -/
theorem merged_dataset_loads (inv : C04.Arr → C04.Arr) (p : Probes) (h : ProbesOK p) :
    ∃ v d', C04.load inv (mergedDir p) = .ok (v, d') ∧
      v.samples = .file (intVec (mergedTimes p.times)) ∧
      v.amplitudes = some (intVec (gather p.amps (spikeOrder p.times))) ∧
      v.spikeClusters = natVec (mergedIds p.times p.clusters) ∧
      v.spikeTemplates = natVec (mergedTemplateIds p.times p.templates p.ntemplates) ∧
      v.channelMap = natVec (C12.mergeChannelMaps p.maps) ∧
      v.channelProbes = some (natVec (C12.channelProbes p.maps)) ∧
      v.channelPositions = posArr (C12.mergePositions p.positions) :=
  Lemmas.merged_dataset_loads inv p h

/-! ## The merge as a function on directories (`Model/C11e.lean`) -/

/-- The input directories are left byte-identical: whatever `Merger(subdirs, out).merge()` does — return or
raise, at any step — every file of every probe directory reads as before and no file appears in a probe
directory; indeed no path outside the output directory changes, and inside the output directory only the
merger's own file names (`outputNames`). Hypothesis `hout`: the output directory is not one of the probe
directories. The real constructor does not check it: with `out = subdirs[0]` the real merge overwrites
`spike_times.npy`, `amplitudes.npy`, `spike_templates.npy`, `params.py` of that probe and then fails with
`AssertionError` (merge.py:51) — as the model does (`example` below). What `load_model` may create
(`spike_clusters.npy`, `whitening_mat_inv.npy`, C04 `load_frame`) is created in the OUTPUT directory only: the
merger never loads a probe directory as a model, it reads single files (`np.load`, `read_python`,
`_read_tsv_simple`). -/
theorem inputs_untouched (fs : FS) (subdirs : List String) (out : String) (hout : out ∉ subdirs) :
    (∀ d ∈ subdirs, ∀ name, (merge fs subdirs out).1.1.read (d, name) = fs.read (d, name)) ∧
    (∀ d name, d ≠ out → (merge fs subdirs out).1.1.read (d, name) = fs.read (d, name)) ∧
    (∀ name, name ∉ outputNames → (merge fs subdirs out).1.1.read (out, name) = fs.read (out, name)) :=
  Lemmas.inputs_untouched fs subdirs out hout

/-- A merge that returns (no exception) has read `I` from the probe directories, `I` is in the domain where
the real code does not raise (`InDomain`: ≥ 1 probe, every probe has spikes — `Spec.NonEmpty` — and not exactly
one, every probe has channels, per-spike arrays of equal total length, templates of one waveform length, index tables
of one row width per family — `sameWidth`), and — merging into an empty output
directory — the output directory then holds exactly the files of the table `expectedOut`, i.e. the values of
the pure functions all other C11 / C12 theorems are about (the spike order and the offsets the merger keeps on
`self` between its `write_*` methods are those functions of the inputs; `spike_templates.npy`, written twice,
ends shifted; the per-cluster TSVs appear exactly when a row is kept; an optional matrix exactly when every
probe has it; `whitening_mat_inv.npy` always: merged, or computed by the final `load_model`). -/
theorem merge_ok_contents (fs : FS) (subdirs : List String) (out : String) (fs' : FS) (reg' : Reg)
    (h : merge fs subdirs out = ((fs', reg'), none)) (hout : out ∉ subdirs) :
    ∃ I, Loaded fs subdirs I ∧ InDomain subdirs I ∧
      ((∀ n, fs.read (out, n) = none) → ∀ name, fs'.read (out, name) = expectedOut subdirs I name) :=
  Lemmas.merge_ok fs subdirs out fs' reg' h hout

/-- Conversely, probe directories in that domain are merged without any exception: the merger's own
assertions (merge.py:50 equal lengths, merge.py:161 "largest merged cluster id + 1 = size of the probe table" —
which is `clusterProbes_length`) can never fire on them. With `merge_ok_contents`: among the file systems whose
output directory is not a probe directory, the merge returns EXACTLY on the loadable inputs of `InDomain`. -/
theorem merge_returns_iff (fs : FS) (subdirs : List String) (out : String) (hout : out ∉ subdirs) :
    (merge fs subdirs out).2 = none ↔ ∃ I, Loaded fs subdirs I ∧ InDomain subdirs I :=
  Lemmas.merge_returns_iff fs subdirs out hout

/-- Probes whose `pc_feature_ind.npy` (or `template_feature_ind.npy`) tables have different row widths — e.g. a probe with
2 channels next to one with 4 when the sorter lists `min(3, n)` channels per template — make the merge raise: the
model of the `ValueError` of `np.concatenate` in `_concat` (merge.py:30, called at merge.py:285; run: tables 2 and 3 wide →
"all the input array dimensions except for the concatenation axis must match exactly"), after every other file has been
written; by `inputs_untouched` nothing outside the output directory has changed. With `merge_returns_iff`: `sameWidth`
of both families is part of `InDomain`, i.e. NECESSARY for the merge to return. (The real code refuses these probes
although the property quantifies over any channel and template counts: open known finding of C12.)
`hne`: EVERY PROBE'S TABLE HAS A ROW.  A `.table` of the model is a list of rows and cannot carry the width of a table
WITHOUT rows: `sameWidth` reads an empty FIRST table as width 0 (`sameWidth [[], [[0,1]]] = false`, but
`sameWidth [[[0,1]], []] = true`), whereas the real `np.concatenate([zeros((0,2)), zeros((1,2))])` succeeds in either
order.  On a probe with an empty index table (a probe without templates — outside the property's quantifier, which has
every probe sorted into at least one template) the model's verdict may therefore differ from the code's and depends on
the probe order; the theorem claims the raise only where every table has a row, where `sameWidth` is exactly the
condition of `np.concatenate` (all rows of all tables equally long). -/
theorem merge_raises_of_ragged_tables (fs : FS) (subdirs : List String) (out : String) (hout : out ∉ subdirs)
    (name : String) (hname : name = "pc_feature_ind.npy" ∨ name = "template_feature_ind.npy")
    (tables : List (List (List Nat))) (hl : loadEach (readTable fs name) subdirs = .ok tables)
    (hne : ∀ t ∈ tables, t ≠ [])
    (hr : sameWidth tables = false) : (merge fs subdirs out).2 ≠ none :=
  Lemmas.merge_raises_of_ragged_tables fs subdirs out hout name hname tables hl hne hr

/-- A probe without spikes (or with exactly one) makes the merge raise — the model of the `ValueError`s of
`np.max` (merge.py:147) and of `np.concatenate` on a squeezed one-element array (merge.py:30) — and by
`inputs_untouched` nothing outside the output directory has changed. -/
theorem merge_raises_of_few_spikes (fs : FS) (subdirs : List String) (out : String) (hout : out ∉ subdirs)
    (d : String) (hd : d ∈ subdirs) (v : List Nat) (hv : fs.read (d, "spike_clusters.npy") = some (.nats v))
    (hfew : v.length ≤ 1) : (merge fs subdirs out).2 ≠ none :=
  Lemmas.merge_raises_of_few_spikes fs subdirs out hout d hd v hv hfew

/-- A `Merger` that has been used before merges as a fresh one: whatever its registers (`spike_order`,
`cluster_offsets` / `cluster_counts`, `template_offsets`, `channel_index_offsets`) hold when `merge()` starts — the
complete lists of an earlier merge, or the half-filled lists left by a `merge()` that RAISED inside a per-probe
loop (e.g. `templates.npy` of a later probe not there yet, merge.py:150) — the call writes the same files and
raises the same exception as `Merger(subdirs, out).merge()` of a new object on the same directories. Hence a
merge retried on the same object after the input was repaired satisfies every other theorem of C11 / C12
(`merge_ok_contents`, `inputs_untouched`, …) as the first merge of a new object does. No hypothesis on `reg0`,
`fs`, `subdirs`, `out`. (The proof uses that `write_spike_clusters` and `write_channel_data` re-create their lists,
merge.py:140-142, 199-203: `Lemmas.cSpikeClusters_sim`, `Lemmas.cChannelData_sim`.)
WHAT THIS RESTS ON.  The statement is true because every step of the MODEL that uses a register first replaces it
(`merge = mergeFrom {}` is `rfl`): it is a faithful reading of merge.py:144-146, 203-207, and says no more than that
reading.  That the REAL `Merger` object behaves so on its second `merge()` is not proved here; it is what the
correspondence run of the harness checks (driver op `mergeRetry`: a real `Merger` whose first `merge()` raised is called
again after the input was repaired, and its output is compared file by file with the model's). -/
theorem merge_again_as_fresh (reg0 : Reg) (fs : FS) (subdirs : List String) (out : String) :
    (mergeFrom reg0 fs subdirs out).1.1 = (merge fs subdirs out).1.1 ∧
    (mergeFrom reg0 fs subdirs out).2 = (merge fs subdirs out).2 :=
  Lemmas.mergeFrom_as_fresh reg0 fs subdirs out

/-! Non-vacuity of the later theorems -/
example : (clusterProbes [[0, 2, 2], [4, 0], [1, 1]]).length = 10 ∧
    (mergedIds [[3, 5, 5], [1, 5], [5, 9]] [[0, 2, 2], [4, 0], [1, 1]]).foldl max 0 + 1 = 10 := by decide
-- `hne` of `clusterProbes_length` cannot be dropped: a spike-less last probe still takes a row of the model's table
example : (clusterProbes [[2], []]).length = 4 ∧ (mergedIds [[7], []] [[2], []]).foldl max 0 + 1 = 3 := by decide

example : (merge exampleFS ["a", "b"] "out").2 = none ∧
    (merge exampleFS ["a", "b"] "out").1.1.names "out" =
      ["whitening_mat_inv.npy", "template_feature_ind.npy", "pc_feature_ind.npy", "templates.npy",
       "channel_positions.npy", "channel_probe.npy", "channel_map.npy", "cluster_KSLabel.tsv", "cluster_probes.npy",
       "spike_templates.npy", "spike_clusters.npy", "amplitudes.npy", "spike_times.npy", "probes.description.tsv",
       "params.py"] ∧
    (merge exampleFS ["a", "b"] "out").1.1.read ("out", "spike_clusters.npy") = some (.nats [1, 3, 0, 2]) ∧
    (merge exampleFS ["a", "b"] "out").1.1.read ("out", "whitening_mat_inv.npy") = some (.computedInv none) ∧
    (merge exampleFS ["a", "b"] "out").1.1.names "a" = exampleFS.names "a" := by decide +kernel
-- the output directory is one of the probe directories (`hout` fails): the probe's files are overwritten and
-- the merge raises the assertion of merge.py:51, as the real code does
example : (merge exampleFS ["a", "b"] "a").2 = some (.shape "spike_templates.npy") ∧
    (merge exampleFS ["a", "b"] "a").1.1.read ("a", "spike_times.npy") = some (.ints [3, 4, 5, 5]) := by decide +kernel
-- `templates.npy` of probe "b" is not there yet: the merge raises inside the loop of `write_spike_clusters`; the file is
-- copied in and the SAME Merger merges again: the files of a fresh merge of the repaired directories
example :
    let broken := exampleFS.filter fun e => !(e.1 == ("b", "templates.npy"))
    let r := mergeRetry broken [(("b", "templates.npy"), .tmpl [[[5, 6]]])] ["a", "b"] "out"
    r.1.2 = some (.notFound "b" "templates.npy") ∧
    r.1.1.1.names "out" = ["spike_templates.npy", "amplitudes.npy", "spike_times.npy", "probes.description.tsv", "params.py"] ∧
    r.2.2 = none ∧
    (∀ n ∈ outputNames, r.2.1.1.read ("out", n) = (merge exampleFS ["a", "b"] "out").1.1.read ("out", n)) ∧
    r.2.1.1.read ("out", "cluster_KSLabel.tsv") = some (.tsv [(0, 7)]) := by decide +kernel
-- stale registers of any shape (here: probe lists of another length) are dropped
example : (mergeFrom { order := [9, 9], clusters := [[5], [5], [5]], templateOffsets := [7, 7, 7], chanIndexOffsets := [3] }
      exampleFS ["a", "b"] "out").1.1.read ("out", "template_feature_ind.npy") = some (.table [[0], [1]]) := by decide +kernel
-- index tables of different widths: `ValueError` of `np.concatenate`, after templates.npy was written
example : (merge (exampleFS.write ("b", "pc_feature_ind.npy") (.table [[0]])) ["a", "b"] "out").2 = some (.ragged "pc_feature_ind.npy") ∧
    ((merge (exampleFS.write ("b", "pc_feature_ind.npy") (.table [[0]])) ["a", "b"] "out").1.1.read ("out", "templates.npy")).isSome ∧
    sameWidth [[[0, 1]], [[0]]] = false ∧ (∀ t ∈ [[[0, 1]], [[0]]], t ≠ ([] : List (List Nat))) := by decide +kernel
-- why `hne`: a table without rows has no width in the model; the verdict of `sameWidth` then depends on the probe order
example : sameWidth [[], [[0, 1]]] = false ∧ sameWidth [[[0, 1]], []] = true := by decide +kernel
-- a spike-less probe: `ValueError` of `np.max`
example : (merge (exampleProbe "a" [3, 5] [] ++ [(("b", "params.py"), .params 30000 2), (("b", "spike_times.npy"), .ints []),
      (("b", "amplitudes.npy"), .ints []), (("b", "spike_templates.npy"), .nats []), (("b", "spike_clusters.npy"), .nats [])])
    ["a", "b"] "out").2 = some (.emptyMax "spike_clusters.npy") := by decide +kernel

end PhyVerif.C11
