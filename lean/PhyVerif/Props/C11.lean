import PhyVerif.Model.C11
import PhyVerif.Spec.C11
import PhyVerif.Lemmas.C11
import PhyVerif.Lemmas.C11b
import PhyVerif.Model.C11b
import PhyVerif.Lemmas.C11c
/-!
# C11 — merging probes conserves every spike and renumbers ids disjointly
Only property theorems + non-vacuity examples; proofs in `Lemmas/C11.lean`.
-/
namespace PhyVerif.C11
open PhyVerif

/-- The merged dataset contains each input spike exactly once: the merged origins are a
permutation of all (probe, index) pairs — for any number of probes and spikes. -/
theorem merged_perm (times : List (List Int)) :
    (mergedOrigins times).Perm (origins times) :=
  Lemmas.merged_perm times

/-- Merged spike times are non-decreasing. -/
theorem merged_sorted (times : List (List Int)) :
    (mergedTimes times).Pairwise (· ≤ ·) :=
  Lemmas.merged_sorted times

/-- Each merged spike keeps its time (and, by the same gather, its amplitude). -/
theorem merged_keeps_time (times : List (List Int)) :
    mergedTimes times = (mergedOrigins times).map (timeOf times) :=
  Lemmas.merged_keeps_time times

/-- Stability: among simultaneous spikes the original order is kept within a probe and spikes of
different probes are ordered by probe — i.e. the merged origins are sorted lexicographically by
(time, probe, index). -/
theorem merged_stable (times : List (List Int)) :
    (mergedOrigins times).Pairwise fun a b =>
      timeOf times a < timeOf times b ∨ (timeOf times a = timeOf times b ∧ originLt a b) :=
  Lemmas.merged_stable times

/-- Any per-spike array (amplitudes, shifted ids) is gathered with the same order: the merged
value of a spike is the value it had in its probe. -/
theorem gather_by_origin {α : Type} (times : List (List Int)) (arrays : List (List α))
    (hs : SameShape times arrays) (d : α) :
    gather arrays (spikeOrder times) =
      (mergedOrigins times).map fun o => (arrays.getD o.1 []).getD o.2 d :=
  Lemmas.gather_by_origin times arrays hs d

/-- Ids are shifted by a per-probe offset … -/
theorem ids_shifted (ids : List (List Nat)) (k i : Nat)
    (hi : i < (ids.getD k []).length) :
    ((shiftIds ids).getD k []).getD i 0 = (ids.getD k []).getD i 0 + (idOffsets ids).getD k 0 :=
  Lemmas.ids_shifted ids k i hi

/-- … such that ids of different probes never collide: all shifted ids of probe k lie in
`[offset_k, offset_{k+1})` and the offsets increase. -/
theorem ids_disjoint (ids : List (List Nat)) (k l : Nat) (hkl : k < l) :
    ∀ a ∈ (shiftIds ids).getD k [], ∀ b ∈ (shiftIds ids).getD l [], a < b :=
  Lemmas.ids_disjoint ids k l hkl

/-- Template ids use offsets that count each probe's templates (rows of templates.npy, at least
max id + 1): the merged template id of a spike is its original id plus the probe's offset … -/
theorem template_ids_shifted (ids : List (List Nat)) (counts : List Nat) (hlen : counts.length = ids.length)
    (k i : Nat) (hi : i < (ids.getD k []).length) :
    ((shiftBy ids (templateOffsets ids counts)).getD k []).getD i 0 =
      (ids.getD k []).getD i 0 + (templateOffsets ids counts).getD k 0 :=
  Lemmas.shiftBy_getD ids (templateOffsets ids counts)
    (by unfold templateOffsets templateSizes
        have h : ∀ (off : Nat) (l : List Nat), (sizeOffsetsFrom off l).length = l.length := by
          intro off l; induction l generalizing off with
          | nil => rfl
          | cons a t ih => simp [sizeOffsetsFrom, ih]
        rw [h]; simp [hlen]) k i hi

/-- … ids of different probes never collide … -/
theorem template_ids_disjoint (ids : List (List Nat)) (counts : List Nat)
    (k l : Nat) (hkl : k < l) :
    ∀ a ∈ (shiftBy ids (templateOffsets ids counts)).getD k [],
      ∀ b ∈ (shiftBy ids (templateOffsets ids counts)).getD l [], a < b :=
  Lemmas.template_ids_disjoint ids counts k l hkl

/-- … and when every template id is below its probe's template count the offsets are the summed
template counts of the previous probes, i.e. the row offsets of the merged templates (C12). -/
theorem templateOffsets_eq_counts (ids : List (List Nat)) (counts : List Nat) (hlen : counts.length = ids.length)
    (hlt : ∀ k, ∀ a ∈ ids.getD k [], a < counts.getD k 0) (hpos : ∀ c ∈ counts, 0 < c)
    (k : Nat) (hk : k < ids.length) :
    (templateOffsets ids counts).getD k 0 = (counts.take k).sum :=
  Lemmas.templateOffsets_eq_counts ids counts hlen hlt hpos k hk

/-- The per-cluster probe table points back to the originating probe: entry c is k exactly for
the merged ids of probe k's range; its length is the total number of merged cluster ids. -/
theorem clusterProbes_ok (ids : List (List Nat)) (k : Nat) (hk : k < ids.length) (c : Nat)
    (hc : c ≤ (ids.getD k []).foldl max 0) :
    (clusterProbes ids).getD (c + (idOffsets ids).getD k 0) (ids.length) = k :=
  Lemmas.clusterProbes_ok ids k hk c hc

/-- Renumbered metadata: the entry of original cluster c of probe k is found under key
c + offset_k, with its value unchanged. -/
theorem metadata_renumbered {β : Type} (md : List (Option (List (Nat × β)))) (offsets : List Nat)
    (k : Nat) (l : List (Nat × β)) (hk : md[k]? = some (some l)) (hlen : offsets.length = md.length)
    (c : Nat) (v : β) (hcv : (c, v) ∈ l) :
    (c + offsets.getD k 0, v) ∈ mergeMetadata md offsets :=
  Lemmas.metadata_renumbered md offsets k l hk hlen c v hcv

/-- Renumbered per-cluster metadata with the merger's own offsets point back to the originating
probe and original id: every merged row (K, v) comes from exactly one probe k and original id c
with K = c + offset_k, the probe table sends K to k, every row of an id in the probe's range is
kept with its value, and — when each probe's file has one row per id — no two merged rows share a
key (nothing is overwritten in the merged dictionary). -/
theorem metadata_points_back {β : Type} (md : List (Option (List (Nat × β)))) (ids : List (List Nat))
    (hlen : md.length = ids.length) :
    (∀ K v, (K, v) ∈ mergeClusterData md ids →
      ∃ k c l, md[k]? = some (some l) ∧ (c, v) ∈ l ∧ c ≤ (ids.getD k []).foldl max 0 ∧
        K = c + (idOffsets ids).getD k 0 ∧ (clusterProbes ids).getD K ids.length = k) ∧
    (∀ k l c v, md[k]? = some (some l) → (c, v) ∈ l → c ≤ (ids.getD k []).foldl max 0 →
      (c + (idOffsets ids).getD k 0, v) ∈ mergeClusterData md ids) ∧
    ((∀ l, some l ∈ md → (l.map (·.1)).Nodup) → ((mergeClusterData md ids).map (·.1)).Nodup) :=
  Lemmas.metadata_points_back md ids hlen

/-! Non-vacuity -/
example : mergeClusterData [some [(0, "good"), (2, "mua")], some [(0, "good")]] [[0, 1, 1], [0, 0]]
    = [(0, "good"), (2, "good")] := by decide     -- row 2 of probe 0 (no spike, beyond its id range) is not renumbered onto probe 1's id 0
example : spikeOrder [[3, 5, 5], [1, 5], [5, 9]] = [3, 0, 1, 2, 4, 5, 6] := by decide
example : mergedOrigins [[3, 5, 5], [1, 5], [5, 9]] = [(1,0), (0,0), (0,1), (0,2), (1,1), (2,0), (2,1)] := by decide
example : mergedIds [[3, 5, 5], [1, 5], [5, 9]] [[0, 2, 2], [4, 0], [1, 1]] = [7, 0, 2, 2, 3, 9, 9] := by decide
example : templateOffsets [[0, 1, 1], [0, 0]] [3, 2] = [0, 3] := by decide   -- last template of probe 0 has no spike
example : clusterProbes [[0, 2, 2], [4, 0], [1, 1]] = [0, 0, 0, 1, 1, 1, 1, 1, 2, 2] := by decide

/-- Composition with the loader model of C04 (the last step of `merge()` is to load what it wrote):
for ANY probes the merged directory loads — its spike times are non-decreasing by `merged_sorted`, so
the loader's monotonicity check never rejects a merge — and the loaded model shows exactly the merged
samples, amplitudes, cluster and template ids (C11) and the merged channel map, probe labels and
positions (C12). -/
theorem merged_dataset_loads (inv : C04.Arr → C04.Arr) (p : Probes) (h : ProbesOK p) :
    ∃ v d', C04.load inv (mergedDir p) = .ok (v, d') ∧
      v.samples = .file (intVec (mergedTimes p.times)) ∧
      v.amplitudes = some (intVec (gather p.amps (spikeOrder p.times))) ∧
      v.spikeClusters = natVec (mergedIds p.times p.clusters) ∧
      v.spikeTemplates = natVec (mergedTemplateIds p.times p.templates p.ntemplates) ∧
      v.channelMap = natVec (C12.mergeChannelMaps p.maps) ∧
      v.channelProbes = some (natVec (C12.channelProbes p.maps)) ∧
      v.channelPositions = posArr (C12.mergePositions p.positions) :=
  Lemmas.merged_dataset_loads inv p h

end PhyVerif.C11
