import PhyVerif.Model.C13
import PhyVerif.Model.C13b
import PhyVerif.Lemmas.C13
import PhyVerif.Model.C08
import PhyVerif.Lemmas.C08
/-!
# C13 — ALF export writes consistent object tables that load back to the same spikes
Only property theorems + non-vacuity examples; proofs in `Lemmas/C13.lean`.
The round trip through `load_model` and the byte-identity of the source are established by the
correspondence run (they are statements about files, composed with the loader of C04).
-/
namespace PhyVerif.C13

/-- Every object file written has, as first dimension, the number of spikes / clusters / templates
/ channels of its family — with or without a label. -/
theorem export_row_counts (src out label : String) (s : Sizes) (files : List (Name × Nat))
    (h : convert src out label s = some files) :
    ∀ f ∈ files, expectedRows s f.1 = some f.2 :=
  Lemmas.export_row_counts src out label s files h

/-- The label is inserted before the extension of every such file (and of no other part). -/
theorem label_before_extension (label : String) (stem : List String) (ext : String) :
    withLabel label (stem ++ [ext]) = stem ++ [label, ext] :=
  Lemmas.label_before_extension label stem ext

/-- With a non-empty label every object file carries it as its last-but-one part; with an empty
label names are unchanged. -/
theorem labels_applied (src out label : String) (s : Sizes) (files : List (Name × Nat))
    (h : convert src out label s = some files) :
    (label = "" → files = objectTables s) ∧
    (label ≠ "" → ∀ f ∈ files, f.1.reverse.tail.head? = some label ∧ f.1.length = 4) :=
  Lemmas.labels_applied src out label s files h

/-- Conversion refuses to write into the source directory. -/
theorem refuses_same_dir (src label : String) (s : Sizes) : convert src src label s = none :=
  Lemmas.refuses_same_dir src label s

/-- One cluster identifier row per cluster. -/
theorem uuid_rows (src out label : String) (s : Sizes) (files : List (Name × Nat))
    (h : convert src out label s = some files) (n : Name) (k : Nat) (hm : (n, k) ∈ files)
    (hu : n.take 2 = ["clusters", "uuids"]) : k = s.nClusters :=
  Lemmas.uuid_rows src out label s files h n k hm hu

/-! Non-vacuity -/
example : withLabel "probe00" ["spikes", "times", "npy"] = ["spikes", "times", "probe00", "npy"] := by decide
example : (convert "a" "b" "p0" ⟨5, 3, 2, 4⟩).map (·.length) = some 18 := by decide

end PhyVerif.C13

namespace PhyVerif.C13
open PhyVerif.C04

/-- The number of rows of every `clusters.*` table is the number of cluster waveform blocks of the
source model (C08's `loadClusters`): one per id up to the highest when anything was curated, one per
template otherwise. -/
theorem cluster_count_rule (W : List C09.Mat) (chans : List (List Nat)) (st sc : List Nat) (ns nc : Nat) :
    (C08.loadClusters W chans st sc ns nc).1.length = (C08.loadClusters W chans st sc ns nc).2 ∧
    (C08.loadClusters W chans st sc ns nc).2 = if sc = st then W.length else sc.foldl max 0 + 1 :=
  C08.Lemmas.cluster_count_rule W chans st sc ns nc

/-- Round trip (composition with the loader model of C04): loading the directory written by the
export — with ANY label, even one containing `*` or `.npy` — succeeds and shows the source's spike times, samples, clusters,
templates, amplitudes, channel map and positions. -/
theorem reload_eq_source (inv : Arr → Arr) (label : String) (s : Source) (h : SourceOK s) :
    ∃ v d', load inv (exportDir label s) = .ok (v, d') ∧
      v.times = .stored (vec s.times) ∧ v.samples = .file (vec s.samples) ∧
      v.spikeClusters = vec s.clusters ∧ v.spikeTemplates = vec s.templates ∧
      v.amplitudes = some (vec s.amps) ∧ v.channelMap = vec s.channelMap ∧
      v.channelPositions = ⟨[s.channelMap.length, 2], s.positions.map Cell.num⟩ :=
  Lemmas.reload_eq_source inv label s h

/-- … and the reloaded template waveforms are the exported ones (all-NaN templates zeroed, as the
loader does) on the exported per-template channel lists, again for any label: the labelled
`templates.waveforms` file is found by the dotted wildcard, never confused with
`templates.waveformsChannels`. -/
theorem reload_templates (inv : Arr → Arr) (label : String) (s : Source) (h : SourceOK s) :
    ∃ v d', load inv (exportDir label s) = .ok (v, d') ∧
      v.templates = some (zeroNanTemplates (atleast 3 (squeeze s.waveforms))) ∧
      v.templateCols = some (squeeze (scrub s.waveformChannels)) :=
  Lemmas.reload_templates inv label s h

example : labelled "probe00" "spikes.times" = "spikes.times.probe00.npy" := by decide
example : globMatch "spikes.times*.npy" (labelled "probe00" "spikes.times") = true := by decide
example : globMatch "templates.waveforms.*.npy" (labelled "p" "templates.waveformsChannels") = false := by decide

end PhyVerif.C13
