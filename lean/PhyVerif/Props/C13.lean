import PhyVerif.Model.C13
import PhyVerif.Model.C13b
import PhyVerif.Lemmas.C13
import PhyVerif.Model.C08
import PhyVerif.Lemmas.C08
import PhyVerif.Model.C13c
import PhyVerif.Spec.C13c
import PhyVerif.Lemmas.C13c
import PhyVerif.Model.C13d
import PhyVerif.Lemmas.C13d
import PhyVerif.Model.C14
/-!
# C13 — ALF export writes consistent object tables that load back to the same spikes
Only property theorems + non-vacuity examples; proofs in `Lemmas/C13.lean`.
The round trip through `load_model` and the byte-identity of the source are established by the
correspondence run (they are statements about files, composed with the loader of C04).
-/
namespace PhyVerif.C13

/-- Every object file written has, as first dimension, the number of spikes / clusters / templates
/ channels of its family — with or without a label. -/
theorem export_row_counts (src out label : String) (s : Sizes) (files : List (Name × Nat))
    (h : convert src out label s = some files) :
    ∀ f ∈ files, expectedRows s f.1 = some f.2 :=
  Lemmas.export_row_counts src out label s files h

/-- The label is inserted before the extension of every such file (and of no other part). -/
theorem label_before_extension (label : String) (stem : List String) (ext : String) :
    withLabel label (stem ++ [ext]) = stem ++ [label, ext] :=
  Lemmas.label_before_extension label stem ext

/-- With a non-empty label every object file carries it as its last-but-one part; with an empty
label names are unchanged. -/
theorem labels_applied (src out label : String) (s : Sizes) (files : List (Name × Nat))
    (h : convert src out label s = some files) :
    (label = "" → files = objectTables s) ∧
    (label ≠ "" → ∀ f ∈ files, f.1.reverse.tail.head? = some label ∧ f.1.length = 4) :=
  Lemmas.labels_applied src out label s files h

/-- Conversion refuses to write into the source directory. -/
theorem refuses_same_dir (src label : String) (s : Sizes) : convert src src label s = none :=
  Lemmas.refuses_same_dir src label s

/-- One cluster identifier row per cluster. -/
theorem uuid_rows (src out label : String) (s : Sizes) (files : List (Name × Nat))
    (h : convert src out label s = some files) (n : Name) (k : Nat) (hm : (n, k) ∈ files)
    (hu : n.take 2 = ["clusters", "uuids"]) : k = s.nClusters :=
  Lemmas.uuid_rows src out label s files h n k hm hu

/-! Non-vacuity -/
example : withLabel "probe00" ["spikes", "times", "npy"] = ["spikes", "times", "probe00", "npy"] := by decide
example : (convert "a" "b" "p0" ⟨5, 3, 2, 4⟩).map (·.length) = some 18 := by decide

end PhyVerif.C13

namespace PhyVerif.C13
open PhyVerif.C04

/-- The number of rows of every `clusters.*` table is the number of cluster waveform blocks of the
source model (C08's `loadClusters`): one per id up to the highest when anything was curated, one per
template otherwise. -/
theorem cluster_count_rule (W : List C09.Mat) (chans : List (List Nat)) (st sc : List Nat) (ns nc : Nat) :
    (C08.loadClusters W chans st sc ns nc).1.length = (C08.loadClusters W chans st sc ns nc).2 ∧
    (C08.loadClusters W chans st sc ns nc).2 = if sc = st then W.length else sc.foldl max 0 + 1 :=
  C08.Lemmas.cluster_count_rule W chans st sc ns nc

/-- Round trip (composition with the loader model of C04): loading the directory written by the
export — with ANY label, even one containing `*` or `.npy` — succeeds and shows the source's spike times, samples, clusters,
templates, amplitudes, channel map and positions. -/
theorem reload_eq_source (inv : Arr → Arr) (label : String) (s : Source) (h : SourceOK s) :
    ∃ v d', load inv (exportDir label s) = .ok (v, d') ∧
      v.times = .stored (vec s.times) ∧ v.samples = .file (vec s.samples) ∧
      v.spikeClusters = vec s.clusters ∧ v.spikeTemplates = vec s.templates ∧
      v.amplitudes = some (vec s.amps) ∧ v.channelMap = vec s.channelMap ∧
      v.channelPositions = ⟨[s.channelMap.length, 2], s.positions.map Cell.num⟩ :=
  Lemmas.reload_eq_source inv label s h

/-- … and the reloaded template waveforms are the exported ones (all-NaN templates zeroed, as the
loader does) on the exported per-template channel lists, again for any label: the labelled
`templates.waveforms` file is found by the dotted wildcard, never confused with
`templates.waveformsChannels`. -/
theorem reload_templates (inv : Arr → Arr) (label : String) (s : Source) (h : SourceOK s) :
    ∃ v d', load inv (exportDir label s) = .ok (v, d') ∧
      v.templates = some (zeroNanTemplates (atleast 3 (squeeze s.waveforms))) ∧
      v.templateCols = some (squeeze (scrub s.waveformChannels)) :=
  Lemmas.reload_templates inv label s h

example : labelled "probe00" "spikes.times" = "spikes.times.probe00.npy" := by decide
example : globMatch "spikes.times*.npy" (labelled "probe00" "spikes.times") = true := by decide
example : globMatch "templates.waveforms.*.npy" (labelled "p" "templates.waveformsChannels") = false := by decide

end PhyVerif.C13

/-! ## The conversion as a function on directories (`Model/C13c.lean`)

`convertFS cfg v gen ⟨src, out⟩` mirrors `EphysAlfCreator.convert` (alf.py:112-147) step by step on the pair
(source directory, output directory); every array it writes is computed from the source view `v`.  The theorems
below are about ALL views, directories, labels, generators. -/
namespace PhyVerif.C13

/-- FIRST DIMENSIONS, every file of every object, with or without label.  For every source view whose
per-spike / per-channel vectors have one length (`ViewOK`: asserted by the loader, model.py:351-403), every
source directory whose copied tables have the model's row counts (`SrcOK`: asserted by the loader for
`spike_clusters.npy`, `spike_templates.npy`, `channel_positions.npy`; the optional `channel_probe.npy`,
`channel_labels.npy`, `cluster_probes.npy`, `cluster_shanks.npy` are copied verbatim, so an inconsistent one is
exported inconsistent) and every output directory that is consistent beforehand (e.g. empty): whatever `convert`
does (return or raise), every `spikes.* / clusters.* / templates.* / channels.*` file of the output directory has
as first dimension `len(spike_samples)` / `n_clusters v` (one per id up to the highest, or one per template when
nothing was curated) / `n_templates` / `len(channel_mapping)`.  The counts are COMPUTED by the model from `v`
(`sizesOf`), the rows of each file are the rows of the array the step writes. -/
theorem export_first_dims (cfg : Cfg) (v : View) (gen : Nat → String) (fs : FS)
    (hv : ViewOK v) (hs : SrcOK v fs.src) (ho : RowsOK v fs.out) :
    RowsOK v (convertFS cfg v gen fs).fs.out :=
  Lemmas.export_first_dims cfg v gen fs hv hs ho

/-- A conversion in the domain (`Convertible`: target ≠ source, a Kilosort/phy source without ALF cluster
tables) returns normally.  Outside: target = source raises IOError (`refusal_frame`); a source that already
holds `clusters.channels.npy` makes the real code raise FileNotFoundError at alf.py:224 (reproduced,
see the harness tally `out-of-domain`), which the model mirrors as `Err.noClusterChannels`; a label containing
`/` makes `Path.with_suffix` raise ValueError at alf.py:303 (reproduced; `Err.badLabel`). -/
theorem export_succeeds (cfg : Cfg) (v : View) (gen : Nat → String) (fs : FS) (h : Convertible cfg fs) :
    (convertFS cfg v gen fs).err = none :=
  Lemmas.export_succeeds cfg v gen fs h

/-- The file table of `Model/C13.lean` (`convert`, 18 tables) is written by the directory-level model: every
row `(name, k)` of it is a file of the output directory whose first dimension is `k`, the sizes being those
computed from the source view. -/
theorem export_table_written (cfg : Cfg) (v : View) (gen : Nat → String) (fs : FS) (hc : Convertible cfg fs)
    (hv : ViewOK v) (hs : SrcOK v fs.src) (ho : RowsOK v fs.out) (src out : String)
    (files : List (Name × Nat)) (h : convert src out cfg.label (sizesOf v) = some files) :
    ∀ f ∈ files, ∃ e, (f.1, e) ∈ (convertFS cfg v gen fs).fs.out ∧ firstDim f.1 e = f.2 :=
  Lemmas.export_table_written cfg v gen fs hc hv hs ho src out files h

/-- The count of clusters the export uses is the number of cluster waveform blocks of C08's loader model. -/
theorem nClusters_eq_loadClusters (v : View) (W : List C09.Mat) (chans : List (List Nat)) (ns nc : Nat)
    (hW : W.length = v.nTemplates) :
    nClusters v = (C08.loadClusters W chans v.spikeTemplates v.spikeClusters ns nc).2 :=
  Lemmas.nClusters_eq_loadClusters v W chans ns nc hW

/-- ONE UNIQUE IDENTIFIER PER CLUSTER.  The generator is a parameter (`gen k` = value of the k-th `uuid4()`
call); under its contract — the first `n_clusters` calls return distinct values — the identifier file, under
its labelled name, holds the header line followed by exactly `n_clusters v` pairwise distinct identifiers. -/
theorem export_uuids (cfg : Cfg) (v : View) (gen : Nat → String) (fs : FS) (h : Convertible cfg fs)
    (hg : GenDistinct gen (nClusters v)) :
    ∃ lines, (convertFS cfg v gen fs).fs.out.lookup (labelled' cfg.label ["clusters", "uuids", "csv"]) =
        some (fresh (lines.map Row.s)) ∧ UuidOK (nClusters v) lines :=
  Lemmas.export_uuids cfg v gen fs h hg

/-- the executable check the driver applies to the lines of the REAL identifier file decides `UuidOK` -/
theorem uuid_check_sound (n : Nat) (lines : List String) : uuidOKb n lines = true ↔ UuidOK n lines :=
  Lemmas.uuidOKb_iff n lines

/-- FRAME, for the whole conversion and every outcome (return or raise): every source file other than the
temporary whitened-data file and the three spike-waveform subset files is the same entry (same bytes) before
and after, and no other file appears; after a normal return `temp_wh.dat` is gone; without raw data nothing
but `temp_wh.dat` changes at all; with raw data (and a target ≠ source) the three subset files exist. -/
theorem export_frame (cfg : Cfg) (v : View) (gen : Nat → String) (fs : FS) :
    (∀ n, n ∉ subsetFiles → n ≠ ["temp_wh", "dat"] →
        (convertFS cfg v gen fs).fs.src.lookup n = fs.src.lookup n) ∧
    ((convertFS cfg v gen fs).err = none → (convertFS cfg v gen fs).fs.src.has ["temp_wh", "dat"] = false) ∧
    (cfg.hasTraces = false → ∀ n, n ≠ ["temp_wh", "dat"] →
        (convertFS cfg v gen fs).fs.src.lookup n = fs.src.lookup n) ∧
    (cfg.hasTraces = true → cfg.sameDir = false → ∀ n ∈ subsetFiles, (convertFS cfg v gen fs).fs.src.has n = true) :=
  Lemmas.export_frame cfg v gen fs

/-- the same clause as the decidable predicate the driver evaluates on two REAL listings of the source
directory (`frameOKb`): it holds between the source before and after every conversion that returns -/
theorem export_frame_decided (cfg : Cfg) (v : View) (gen : Nat → String) (fs : FS) (hn : fs.src.keys.Nodup)
    (he : (convertFS cfg v gen fs).err = none) :
    frameOKb fs.src (convertFS cfg v gen fs).fs.src = true :=
  Lemmas.export_frame_decided cfg v gen fs hn he

/-- REFUSAL: when the target resolves to the source directory the conversion raises before touching anything:
both directories are exactly what they were. -/
theorem refusal_frame (cfg : Cfg) (v : View) (gen : Nat → String) (fs : FS) (h : cfg.sameDir = true) :
    convertFS cfg v gen fs = ⟨fs, some .sameDir⟩ :=
  Lemmas.refusal_frame cfg v gen fs h

/-- TIMES IN SECONDS: `times = samples / rate` over the rationals: as many times as samples, and each time
multiplied by the sampling rate is the sample.  (`rate ≠ 0`: the loader reads `sample_rate` from params.py;
a zero rate makes the real division produce inf/nan with a RuntimeWarning.) -/
theorem times_in_seconds (rate : Rat) (samples : List Int) (hr : rate ≠ 0) :
    (timesOf rate samples).length = samples.length ∧
    ∀ (i : Nat) (_ : i < samples.length),
      (timesOf rate samples).getD i 0 * rate = (samples.getD i 0 : Int) :=
  Lemmas.times_in_seconds rate samples hr

/-- THE TWO LAYOUTS of the source's spike times (`_load_spike_samples`, model.py:644-662).  From `spike_times.npy`
(in samples) the view's times are `samples / rate`; from `spikes.times*.npy` (in seconds) the view's times are the
file's values VERBATIM — never recomputed from the samples — and the samples are the stored ones or, when there is
no `spikes.samples*.npy`, `round(times * rate)` to the nearest integer with ties to even. -/
theorem load_layouts (rate : Rat) :
    (∀ s, loadSpikeSamples rate (.inSamples s) = (s, timesOf rate s)) ∧
    (∀ t s, (loadSpikeSamples rate (.inSeconds t s)).2 = t) ∧
    (∀ t s, (loadSpikeSamples rate (.inSeconds t (some s))).1 = s) ∧
    (∀ t, (loadSpikeSamples rate (.inSeconds t none)).1 = t.map fun x => roundHalfEven (x * rate)) :=
  Lemmas.load_layouts rate

/-- `np.round`: within half a unit of its argument, and even at an exact tie -/
theorem roundHalfEven_spec (q : Rat) :
    ((roundHalfEven q : Int) : Rat) - q ≤ 1 / 2 ∧ q - ((roundHalfEven q : Int) : Rat) ≤ 1 / 2 ∧
    (q - (q.floor : Rat) = 1 / 2 → roundHalfEven q % 2 = 0) :=
  Lemmas.roundHalfEven_spec q

/-- … and the view's times (seconds) and samples are the arrays the conversion leaves in
`spikes.times[.label].npy` and `spikes.samples[.label].npy`: the export writes `model.spike_times` itself, it does
not recompute the times from the samples (for a source given in seconds with sub-sample precision the two differ). -/
theorem export_times_samples (cfg : Cfg) (v : View) (gen : Nat → String) (fs : FS) (h : Convertible cfg fs) :
    (convertFS cfg v gen fs).fs.out.lookup (labelled' cfg.label ["spikes", "times", "npy"]) =
      some (fresh (v.times.map Row.q)) ∧
    (convertFS cfg v gen fs).fs.out.lookup (labelled' cfg.label ["spikes", "samples", "npy"]) =
      some (fresh (v.samples.map Row.z)) :=
  Lemmas.export_times_samples cfg v gen fs h

/-- THE ID TABLES: for a conversion into an empty output directory, `spikes.clusters[.label].npy` and
`spikes.templates[.label].npy` — copied from `spike_clusters.npy` / `spike_templates.npy` (squeezed when stored as
`(n,1)`), relabelled, then cast to uint16 by `compress_spikes_dtypes` — hold exactly the rows of the source file
when every id is below 65536 (the bound in the property's quantifier; a larger id wraps modulo 2^16 in the model
as in the code).  The two globs of `compress_spikes_dtypes` match no other file of the output directory. -/
theorem export_ids (cfg : Cfg) (v : View) (gen : Nat → String) (src : FDir) (h : Convertible cfg ⟨src, []⟩)
    (attr : String) (srcName : Name)
    (hattr : (attr = "clusters" ∧ srcName = ["spike_clusters", "npy"]) ∨
             (attr = "templates" ∧ srcName = ["spike_templates", "npy"]))
    (e : Entry) (he : src.lookup srcName = some e)
    (hrows : ∀ r ∈ e.rows, ∃ z, r = Row.z z ∧ 0 ≤ z ∧ z < 65536) :
    ∃ e', (convertFS cfg v gen ⟨src, []⟩).fs.out.lookup (labelled' cfg.label ["spikes", attr, "npy"]) = some e' ∧
      e'.rows = e.rows :=
  Lemmas.export_ids cfg v gen src h attr srcName hattr e he hrows

/-- THE VIEW OF A SOURCE GIVEN IN SAMPLES HAS ITS TIMES IN SECONDS, AND THESE ARE WHAT IS EXPORTED.  The view the
loader builds from `spike_times.npy` is `viewOfFile rate (.inSamples s) rest` (samples and times both come out of
`_load_spike_samples`).  The first two conjuncts only UNFOLD that definition (`samples = s`,
`times = timesOf rate s = s / rate`; both hold by `rfl` — they record what the model says, their tie to the real loader
is the correspondence run of C04/C13 on sources given in samples, not this theorem).  The content is in the other three:
the conversion of that view leaves exactly these in `spikes.samples[.label].npy` and `spikes.times[.label].npy`, and every
exported time multiplied by the sampling rate is the exported sample.  `0 < rate`: the sampling rate of params.py is a
positive number (a zero rate makes the real division produce inf/nan with a RuntimeWarning; a negative one would
turn non-decreasing samples into DEcreasing times, which the loader's monotonicity assertion rejects). -/
theorem source_in_samples_exports_seconds (cfg : Cfg) (rate : Rat) (s : List Int) (rest : View) (gen : Nat → String)
    (fs : FS) (h : Convertible cfg fs) (hr : 0 < rate) :
    (viewOfFile rate (.inSamples s) rest).samples = s ∧
    (viewOfFile rate (.inSamples s) rest).times = timesOf rate s ∧
    (convertFS cfg (viewOfFile rate (.inSamples s) rest) gen fs).fs.out.lookup
        (labelled' cfg.label ["spikes", "times", "npy"]) = some (fresh ((timesOf rate s).map Row.q)) ∧
    (convertFS cfg (viewOfFile rate (.inSamples s) rest) gen fs).fs.out.lookup
        (labelled' cfg.label ["spikes", "samples", "npy"]) = some (fresh (s.map Row.z)) ∧
    ∀ (i : Nat) (_ : i < s.length), (timesOf rate s).getD i 0 * rate = (s.getD i 0 : Int) :=
  Lemmas.source_in_samples_exports_seconds cfg rate s rest gen fs h hr

/-- … and for a source given in SECONDS the exported times are the file's values verbatim (not recomputed). -/
theorem source_in_seconds_exports_verbatim (cfg : Cfg) (rate : Rat) (t : List Rat) (s : Option (List Int)) (rest : View)
    (gen : Nat → String) (fs : FS) (h : Convertible cfg fs) :
    (convertFS cfg (viewOfFile rate (.inSeconds t s) rest) gen fs).fs.out.lookup
        (labelled' cfg.label ["spikes", "times", "npy"]) = some (fresh (t.map Row.q)) :=
  Lemmas.source_in_seconds_exports_verbatim cfg rate t s rest gen fs h

/-- LOADING THE OUTPUT DIRECTORY OF THE CONVERSION.  `project I out` is the WHOLE output directory of `convertFS` as the
loader model of C04 sees it (every file kept: names joined by dots, rows turned into shaped arrays; `I` says what the
rows of quantities owned by C09/C14 hold and how a time in seconds is written as a cell).  `I` is WELL-FORMED (`hI`: a
row holds as many cells as its trailing dimensions say — an `I` with empty rows would "load" a channel map of shape
`[n]` without data) and reads row `i` of `channels.rawInd` as the one cell that `make_channel_objects` writes there
(`hraw`: `C14.exportRawInd` of the view's channel map and probe labels, alf.py:222-243).  For every convertible source
directory (`Convertible`, conversion into an empty target), label, configuration, identifier generator and view that
satisfies what the loader asserts (`ViewOK`, non-decreasing spike times — as cells: `hmono`), with at least two spikes (a
first dimension of 1 is squeezed away by the loader), whose `spike_clusters.npy` / `spike_templates.npy` hold the view's
ids (they are what the view was loaded from) below 65536 (the quantifier's bound), C04's `load` on the projected output
SUCCEEDS and shows: the view's spike times (seconds, verbatim), samples, spike clusters and spike templates; as CHANNEL
MAP the 1-D vector `C14.exportRawInd v.channelMap v.channelProbes` (the view's channel map re-expressed per probe; for a
single probe it is the view's channel map itself by `C14.rawInd_inverts_merge`); as channel
positions the source's `channel_positions.npy` (read exactly as the loader reads it in the source: `atleast 2 ∘ squeeze ∘
scrub`); as amplitudes, templates and template channels the FILES the conversion computed (`spikes.amps`,
`templates.waveforms`, `templates.waveformsChannels`, as arrays of `I`-cells: their VALUES are C09/C14's and are not
interpreted here — for these three the theorem says which file is found and how it is reshaped, no more).  None of the
other files of the output (up to 22: `clusters.*`, `spikes.depths`, `templates.amps`, `channels.probes/labels`,
`params.py`, `_kilosort_whitening.matrix.npy`, `_phy_spikes_subset.*`, `drift*`, `cluster_KSLabel.tsv`) is picked up by
any of these searches, for ANY label (`Lemmas.noOther_spec`: the literal prefix of every loader pattern departs from the
stem of every other possible output name; `Lemmas.S_inj`: the names on disk are pairwise different).
The driver's `Interp` (`Driver/C13.lean: drvInterp`) meets `hI` and `hraw`, and the harness compares the channel map of
this loader model with the channel map of the REAL reload of the REAL output directory. -/
theorem convert_output_loads (inv : C04.Arr → C04.Arr) (I : Interp) (cfg : Cfg) (v : View) (gen : Nat → String) (src : FDir)
    (h : Convertible cfg ⟨src, []⟩) (hv : ViewOK v) (h2 : 2 ≤ v.samples.length)
    (hmono : C04.monotone ((v.times.map I.encQ).map C04.Cell.num) = true)
    (hI : ∀ w i, (I.cells w i).length = (I.trail w).prod)
    (hraw : ∀ i, i < v.channelProbes.length →
      I.cells "rawInd" i = [.num ((C14.exportRawInd v.channelMap v.channelProbes).getD i 0)])
    (esc est epos : Entry)
    (hsc : src.lookup ["spike_clusters", "npy"] = some esc)
    (hscr : esc.rows = (v.spikeClusters.map Int.ofNat).map Row.z)
    (hst : src.lookup ["spike_templates", "npy"] = some est)
    (hstr : est.rows = (v.spikeTemplates.map Int.ofNat).map Row.z)
    (hpos : src.lookup ["channel_positions", "npy"] = some epos)
    (hidc : ∀ c ∈ v.spikeClusters, c < 65536) (hidt : ∀ c ∈ v.spikeTemplates, c < 65536) :
    ∃ lv d', C04.load inv (project I (convertFS cfg v gen ⟨src, []⟩).fs.out) = .ok (lv, d') ∧
      lv.times = .stored (vec (v.times.map I.encQ)) ∧
      lv.samples = .file (vec v.samples) ∧
      lv.spikeClusters = vec (v.spikeClusters.map Int.ofNat) ∧
      lv.spikeTemplates = vec (v.spikeTemplates.map Int.ofNat) ∧
      lv.amplitudes = some (C04.squeeze (C04.scrub (arrOf I (fresh (spikeAmps v))))) ∧
      lv.channelMap = vec (C14.exportRawInd v.channelMap v.channelProbes) ∧
      lv.channelPositions = C04.atleast 2 (C04.squeeze (C04.scrub (arrOf I epos))) ∧
      lv.templates = some (C04.zeroNanTemplates (C04.atleast 3 (C04.squeeze
        (arrOf I (fresh (tokRows "templates.waveforms" v.nTemplates)))))) ∧
      lv.templateCols = some (C04.squeeze (C04.scrub
        (arrOf I (fresh (tokRows "templates.waveformsChannels" v.nTemplates))))) :=
  Lemmas.convert_output_loads inv I cfg v gen src h hv h2 hmono hI hraw esc est epos hsc hscr hst hstr hpos hidc hidt

/-! Non-vacuity: a curated 3-spike source with a temporary file and raw data, label `p0`. -/
def exView : View :=
  { rate := 30000, samples := [0, 15000, 45000], times := [0, 1/2, 3/2], spikeClusters := [0, 2, 2], spikeTemplates := [0, 1, 1],
    amplitudes := [1, 2, 3], nTemplates := 2, channelMap := [0, 1], channelProbes := [0, 0], featRows := some 2 }
def exSrc : FDir :=
  [ (["params", "py"], ⟨"h0", [], false⟩), (["spike_clusters", "npy"], ⟨"h1", [.z 0, .z 2, .z 2], true⟩),
    (["spike_templates", "npy"], ⟨"h2", [.z 0, .z 1, .z 1], false⟩),
    (["channel_positions", "npy"], ⟨"h3", tokRows "pos" 2, false⟩), (["temp_wh", "dat"], ⟨"h4", [], false⟩) ]
def exCfg : Cfg := { sameDir := false, force := false, label := "p0", hasTraces := true }
def exGen (k : Nat) : String := s!"id{k}"

example : ViewOK exView := by simp [ViewOK, exView]
-- features for 2 of the 3 spikes: `get_depths()` gives nothing, spikes.depths are the cluster depths of the 3 spikes
example : getDepthsRows exView = none ∧
    spikesDepths exView (tokRows "clusters.depths" 3) = [.tok "clusters.depths" 0, .tok "clusters.depths" 2, .tok "clusters.depths" 2] := by
  decide
example : spikesDepths { exView with featRows := some 3 } (tokRows "clusters.depths" 3) = tokRows "get_depths" 3 := by decide
example : SrcOK exView exSrc := by
  intro r hr ho e he
  simp only [fileRenames, List.mem_cons, List.not_mem_nil, or_false] at hr
  rcases hr with h | h | h | h | h | h | h | h | h | h | h | h | h | h | h | h <;> subst h <;>
    first
    | (exact absurd ho (by decide))
    | (simp [exSrc, FDir.lookup] at he; done)
    | (simp [exSrc, FDir.lookup] at he; subst he; decide +kernel)
example : RowsOK exView [] := by intro f hf; cases hf
example : GenDistinct exGen 3 := by
  intro i j hi hj
  have : ∀ i, i < 3 → i = 0 ∨ i = 1 ∨ i = 2 := by omega
  rcases this i hi with rfl | rfl | rfl <;> rcases this j hj with rfl | rfl | rfl <;> decide
example : Convertible exCfg ⟨exSrc, []⟩ := by simp [Convertible, exCfg, exSrc, FDir.has]; decide
example : (convertFS exCfg exView exGen ⟨exSrc, []⟩).err = none := by decide +kernel
example : (convertFS exCfg exView exGen ⟨exSrc, []⟩).fs.src.keys =
    [["params", "py"], ["spike_clusters", "npy"], ["spike_templates", "npy"], ["channel_positions", "npy"],
     ["_phy_spikes_subset", "spikes", "npy"], ["_phy_spikes_subset", "channels", "npy"],
     ["_phy_spikes_subset", "waveforms", "npy"]] := by decide +kernel
example : nClusters exView = 3 := by decide +kernel
example : ((convertFS exCfg exView exGen ⟨exSrc, []⟩).fs.out.filter (fun f => isObj f.1)).map
      (fun f => (".".intercalate f.1, firstDim f.1 f.2)) =
    [("clusters.channels.p0.npy", 3), ("clusters.peakToTrough.p0.npy", 3), ("clusters.uuids.p0.csv", 3),
     ("channels.rawInd.p0.npy", 2), ("spikes.times.p0.npy", 3), ("spikes.samples.p0.npy", 3),
     ("spikes.amps.p0.npy", 3), ("templates.amps.p0.npy", 2), ("templates.waveforms.p0.npy", 2),
     ("templates.waveformsChannels.p0.npy", 2), ("clusters.waveforms.p0.npy", 3),
     ("clusters.waveformsChannels.p0.npy", 3), ("clusters.amps.p0.npy", 3), ("spikes.depths.p0.npy", 3),
     ("clusters.depths.p0.npy", 3), ("spikes.clusters.p0.npy", 3), ("spikes.templates.p0.npy", 3),
     ("channels.localCoordinates.p0.npy", 2)] := by decide +kernel
example : ((convertFS exCfg exView exGen ⟨exSrc, []⟩).fs.out.lookup ["spikes", "clusters", "p0", "npy"]).map (·.tag) =
    some "u16:squeeze:h1" := by decide +kernel
example : ((convertFS exCfg exView exGen ⟨exSrc, []⟩).fs.out.lookup ["spikes", "clusters", "p0", "npy"]).map (·.rows) =
    some [.z 0, .z 2, .z 2] := by decide +kernel
example : wrap16 (.z 65537) = .z 1 := by decide
example : timesOf 30000 [0, 15000, 45000] = [0, 1/2, 3/2] := by decide +kernel
example : loadSpikeSamples 4 (.inSeconds [1/16, 3/8, 5/8, 7/8] none) = ([0, 2, 2, 4], [1/16, 3/8, 5/8, 7/8]) := by
  decide +kernel
example : uuidOKb 2 ["uuids", "a", "b"] = true ∧ uuidOKb 2 ["uuids", "a", "a"] = false := by decide
/-- times are written as cells in half seconds; positions have two columns -/
def exI : Interp :=
  { encQ := fun q => (q * 2).floor, cells := fun w i => if w = "pos" then [.num (10 * i), .num (10 * i + 1)] else [.num i],
    trail := fun w => if w = "pos" then [2] else [] }
-- `exI` is well-formed and reads `channels.rawInd` as the raw indices of the view (hypotheses `hI`, `hraw`)
example : ∀ w i, (exI.cells w i).length = (exI.trail w).prod := by
  intro w i; by_cases h : w = "pos" <;> simp [exI, h]
example : C14.exportRawInd exView.channelMap exView.channelProbes = [0, 1] := by decide +kernel
example : ∀ i, i < exView.channelProbes.length →
    exI.cells "rawInd" i = [.num ((C14.exportRawInd exView.channelMap exView.channelProbes).getD i 0)] := by
  decide +kernel
-- two probes: the second probe's raw indices restart at 0
example : C14.exportRawInd [0, 1, 2, 3] [0, 0, 1, 1] = [0, 1, 0, 1] := by decide +kernel
example : (viewOfFile 30000 (.inSamples [0, 15000, 45000]) exView).times = exView.times := by decide +kernel
example : (0 : Rat) < exView.rate := by decide +kernel
example : C04.monotone ((exView.times.map exI.encQ).map C04.Cell.num) = true := by decide +kernel
-- the whole 22-file output directory, loaded: the loader finds the labelled files among all the others
example : (project exI (convertFS exCfg exView exGen ⟨exSrc, []⟩).fs.out).length = 22 := by decide +kernel
example : (match C04.load id (project exI (convertFS exCfg exView exGen ⟨exSrc, []⟩).fs.out) with
    | .ok (lv, _) => lv.times == .stored (vec [0, 1, 3]) && lv.samples == .file (vec [0, 15000, 45000]) &&
        lv.spikeClusters == vec [0, 2, 2] && lv.channelMap == vec [0, 1] && lv.channelPositions == ⟨[2, 2], [.num 0, .num 1, .num 10, .num 11]⟩
    | .error _ => false) = true := by decide +kernel

end PhyVerif.C13
