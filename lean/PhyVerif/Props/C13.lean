import PhyVerif.Model.C13
import PhyVerif.Lemmas.C13
/-!
# C13 — ALF export writes consistent object tables that load back to the same spikes
Only property theorems + non-vacuity examples; proofs in `Lemmas/C13.lean`.
The round trip through `load_model` and the byte-identity of the source are established by the
correspondence run (they are statements about files, composed with the loader of C04).
-/
namespace PhyVerif.C13

/-- Every object file written has, as first dimension, the number of spikes / clusters / templates
/ channels of its family — with or without a label. -/
theorem export_row_counts (src out label : String) (s : Sizes) (files : List (Name × Nat))
    (h : convert src out label s = some files) :
    ∀ f ∈ files, expectedRows s f.1 = some f.2 :=
  Lemmas.export_row_counts src out label s files h

/-- The label is inserted before the extension of every such file (and of no other part). -/
theorem label_before_extension (label : String) (stem : List String) (ext : String) :
    withLabel label (stem ++ [ext]) = stem ++ [label, ext] :=
  Lemmas.label_before_extension label stem ext

/-- With a non-empty label every object file carries it as its last-but-one part; with an empty
label names are unchanged. -/
theorem labels_applied (src out label : String) (s : Sizes) (files : List (Name × Nat))
    (h : convert src out label s = some files) :
    (label = "" → files = objectTables s) ∧
    (label ≠ "" → ∀ f ∈ files, f.1.reverse.tail.head? = some label ∧ f.1.length = 4) :=
  Lemmas.labels_applied src out label s files h

/-- Conversion refuses to write into the source directory. -/
theorem refuses_same_dir (src label : String) (s : Sizes) : convert src src label s = none :=
  Lemmas.refuses_same_dir src label s

/-- One cluster identifier row per cluster. -/
theorem uuid_rows (src out label : String) (s : Sizes) (files : List (Name × Nat))
    (h : convert src out label s = some files) (n : Name) (k : Nat) (hm : (n, k) ∈ files)
    (hu : n.take 2 = ["clusters", "uuids"]) : k = s.nClusters :=
  Lemmas.uuid_rows src out label s files h n k hm hu

/-! Non-vacuity -/
example : withLabel "probe00" ["spikes", "times", "npy"] = ["spikes", "times", "probe00", "npy"] := by decide
example : (convert "a" "b" "p0" ⟨5, 3, 2, 4⟩).map (·.length) = some 18 := by decide

end PhyVerif.C13
