import PhyVerif.Model.C15
import PhyVerif.Spec.C15
import PhyVerif.Lemmas.C15
import PhyVerif.Model.C15b
import PhyVerif.Spec.C15b
import PhyVerif.Lemmas.C15b
import PhyVerif.Spec.C07
import PhyVerif.Model.Fl
import PhyVerif.Lemmas.Fl
import PhyVerif.Model.C15c
import PhyVerif.Spec.C15c
import PhyVerif.Lemmas.C15c
import PhyVerif.Lemmas.C15d
/-!
# C15 — correlograms count exactly the spike pairs in each lag bin
Only property theorems + non-vacuity examples; proofs in `Lemmas/C15.lean`.
-/
namespace PhyVerif.C15

/-- Core: for non-decreasing samples and a positive bin, the number of increments the shift loop
(shrinking mask, early exit) performs at (i, j, k) equals the number of pairs a < b with a in
cluster i, b in cluster j, floor((t_b - t_a)/bin) = k ≤ half.  Unbounded in the number of
spikes, for every labelling. -/
theorem ccg_eq_paircount (x : Inp) (hs : Sorted x) (hb : 0 < x.bin) (i j : Nat) (k : Int) :
    (ccg x).count (i, j, k) = pairCount x i j k :=
  Lemmas.ccg_eq_paircount x hs hb i j k

/-- List level, caller's cluster order (any order, ids without spikes allowed): the returned
one-sided array is exactly the pair-count array. -/
theorem correlograms_eq_spec (t : List Int) (sc : List Int) (ids : List Nat) (bin : Int) (half : Nat)
    (hsorted : t.Pairwise (· ≤ ·)) (hb : 0 < bin) (hlen : sc.length = t.length)
    (hdom : InDom sc ids) :
    correlograms t sc ids bin half = some (specCcg t sc ids bin half) :=
  Lemmas.correlograms_eq_spec t sc ids bin half hsorted hb hlen hdom

/-- symmetrised array has 2*half+1 bins -/
theorem sym_shape (c : List (List (List Nat))) (nc h : Nat) (hc : Shape3 c nc (h + 1)) :
    Shape3 (symmetrize c) nc (2 * h + 1) :=
  Lemmas.sym_shape c nc h hc

/-- positive lags reproduce the one-sided counts -/
theorem sym_positive (c : List (List (List Nat))) (nc h : Nat) (hc : Shape3 c nc (h + 1))
    (i j k : Nat) (hi : i < nc) (hj : j < nc) (hk1 : 1 ≤ k) (hk : k ≤ h) :
    get3 (symmetrize c) i j (h + k) = get3 c i j k :=
  Lemmas.sym_positive c nc h hc i j k hi hj hk1 hk

/-- the centre bin is the larger of the two one-sided zero-lag counts -/
theorem sym_centre (c : List (List (List Nat))) (nc h : Nat) (hc : Shape3 c nc (h + 1))
    (i j : Nat) (hi : i < nc) (hj : j < nc) :
    get3 (symmetrize c) i j h = max (get3 c i j 0) (get3 c j i 0) :=
  Lemmas.sym_centre c nc h hc i j hi hj

/-- C[i,j,k] = C[j,i,-k] (bin index h+k ↔ h-k) -/
theorem sym_reflect (c : List (List (List Nat))) (nc h : Nat) (hc : Shape3 c nc (h + 1))
    (i j k : Nat) (hi : i < nc) (hj : j < nc) (hk : k ≤ h) :
    get3 (symmetrize c) i j (h + k) = get3 (symmetrize c) j i (h - k) :=
  Lemmas.sym_reflect c nc h hc i j k hi hj hk

/-- firing-rate normaliser (integer part): outer product of per-cluster spike counts in the
caller's order, zero rows/columns for ids without spikes -/
theorem firing_outer (sc : List Int) (ids : List Nat) (hdom : InDom sc ids) :
    firingCounts sc ids = some (specFiring sc ids) :=
  Lemmas.firing_outer sc ids hdom

/-! Non-vacuity -/
example : correlograms [0, 0, 1, 3, 4] [7, 2, 7, 2, 7] [7, 5, 2] 2 1 =
    some (specCcg [0, 0, 1, 3, 4] [7, 2, 7, 2, 7] [7, 5, 2] 2 1) := by decide
example : specCcg [0, 0, 1, 3, 4] [7, 2, 7, 2, 7] [7, 5, 2] 2 1 =
    [[[1, 1], [0, 0], [1, 2]], [[0, 0], [0, 0], [0, 0]], [[2, 0], [0, 0], [0, 1]]] := by decide
example : InDom [7, 2, 7, 2, 7] [7, 5, 2] := by unfold InDom; decide
example : symmetrize [[[1, 2], [1, 1]], [[2, 0], [0, 1]]] =
    [[[2, 1, 2], [0, 2, 1]], [[1, 2, 0], [1, 0, 1]]] := by decide


/-! ## Second part (`Model/C15b.lean`): rational inputs, the helpers, the firing-rate factor, `cluster_ids=None` -/

/-- THE FIRING-RATE NORMALISER, with its factor: for distinct caller ids containing every spike's cluster and a
positive bin, `firing_rate` returns, at (i, j), `#spikes(ids[i]) · #spikes(ids[j]) · bin / duration` — the outer
product of the per-cluster spike counts times bin/duration (a duration of 0 or None counts as 1: `duration or 1.`).
`bin ≤ 0` makes the real code fail its `assert bin_size > 0` (model: `none`). -/
theorem firing_rate_eq (sc : List Int) (ids : List Nat) (bin : Rat) (dur : Option Rat)
    (hdom : InDom sc ids) (hb : 0 < bin) :
    firingRate sc (some ids) bin dur = some (specFiringRate sc ids bin dur) :=
  Lemmas.firing_rate_eq sc ids bin dur hdom hb

/-- … zero for empty clusters: the whole row and the whole column of an id without spikes vanish. -/
theorem firing_zero_of_empty (sc : List Int) (ids : List Nat) (bin : Rat) (dur : Option Rat)
    (i : Nat) (hi : i < ids.length) (he : Int.ofNat (ids.getD i 0) ∉ sc) (j : Nat) (hj : j < ids.length) :
    ((specFiringRate sc ids bin dur).getD i []).getD j 0 = 0 ∧
    ((specFiringRate sc ids bin dur).getD j []).getD i 0 = 0 :=
  Lemmas.firing_zero_of_empty sc ids bin dur i hi he j hj

/-- … the same about what `firing_rate` RETURNS (the model of the code, not only the specification): for distinct caller
ids containing every label and a positive bin, the call succeeds and the row and the column of an id without spikes are
zero -/
theorem firing_zero_of_empty_model (sc : List Int) (ids : List Nat) (bin : Rat) (dur : Option Rat)
    (hdom : InDom sc ids) (hb : 0 < bin)
    (i : Nat) (hi : i < ids.length) (he : Int.ofNat (ids.getD i 0) ∉ sc) (j : Nat) (hj : j < ids.length) :
    ∃ m, firingRate sc (some ids) bin dur = some m ∧ (m.getD i []).getD j 0 = 0 ∧ (m.getD j []).getD i 0 = 0 :=
  Lemmas.firing_zero_of_empty_model sc ids bin dur hdom hb i hi he j hj

/-- `cluster_ids=None`: the ids are `_unique(spike_clusters)` — strictly increasing, exactly the labels in use —
and for non-negative labels they are in the domain of every theorem above.  (A negative label, e.g. -1 for
"unclustered", is dropped by `_unique` and then makes `correlograms` raise ValueError in `ravel_multi_index` and
`firing_rate` raise ValueError in `bincount`: observed on the real code, outside the quantifier.) -/
theorem default_ids (sc : List Int) :
    idsOr sc none = Np.unique sc ∧ C07.IsSortedSetOf (Np.unique sc) (fun v => Int.ofNat v ∈ sc) ∧
    ((∀ c ∈ sc, 0 ≤ c) → InDom sc (Np.unique sc)) :=
  ⟨rfl, C07.Lemmas.unique_spec sc, Lemmas.unique_inDom sc⟩

/-- … so the firing rate with `cluster_ids=None` is the normaliser over the sorted distinct labels -/
theorem firing_rate_default_ids (sc : List Int) (bin : Rat) (dur : Option Rat) (h : ∀ c ∈ sc, 0 ≤ c) (hb : 0 < bin) :
    firingRate sc none bin dur = some (specFiringRate sc (Np.unique sc) bin dur) :=
  Lemmas.firing_rate_eq sc (Np.unique sc) bin dur (Lemmas.unique_inDom sc h) hb

/-- `_increment(arr, indices)` with every index inside the array adds to each cell the number of times its
index occurs (repeated indices count).  An index beyond the array makes the real helper raise ValueError
(model: `none`), except the broadcasting corner `_increment([], [0]) = []`. -/
theorem increment_spec (arr idx : List Nat) (h : ∀ i ∈ idx, i < arr.length) :
    ∃ r, increment arr idx = some r ∧ r.length = arr.length ∧
      ∀ p, r.getD p 0 = arr.getD p 0 + idx.count p :=
  Lemmas.increment_spec arr idx h

/-- `_diff_shifted(arr, steps)` for `steps ≤ len(arr)` (in the loop `1 ≤ steps < len`): entry a is
`arr[a+steps] - arr[a]`.  For `steps > len` the real helper raises a broadcast ValueError or returns an empty
array depending on the lengths (observed; model: `none`). -/
theorem diffShifted_spec (arr : List Int) (s : Nat) (hs : s ≤ arr.length) :
    ∃ d, diffShifted arr s = some d ∧ d.length = arr.length - s ∧
      ∀ a, a < arr.length - s → d.getD a 0 = arr.getD (a + s) 0 - arr.getD a 0 :=
  Lemmas.diffShifted_spec arr s hs

/-- `_create_correlograms_array(n, winsize_bins)`: zeros of shape `(n, n, winsize_bins // 2 + 1)` -/
theorem createArray_shape (nc : Nat) (w : Int) :
    Shape3 (createArray nc w) nc ((w / 2).toNat + 1) ∧ ∀ i j k, get3 (createArray nc w) i j k = 0 :=
  Lemmas.createArray_shape nc w

/-- WINDOW → NUMBER OF BINS.  For bin and window inside the clipping interval `[1e-5, 1e5]` s (outside, the
real code silently replaces them by the bound: e.g. rate 1 MHz, bin 2 µs, window 10 µs gives ONE bin of 10
samples — observed), `winsize_bins = 2·⌊window / (2·bin)⌋ + 1`: odd, at least 1, and the half window is
`⌊window / (2·bin)⌋` bins. -/
theorem winsize_spec (window bin : Rat) (hb1 : clipLo ≤ bin) (hb2 : bin ≤ clipHi)
    (hw1 : clipLo ≤ window) (hw2 : window ≤ clipHi) :
    0 ≤ ((1 / 2 : Rat) * window / bin).floor ∧
    winsizeBins window bin = 2 * ((1 / 2 : Rat) * window / bin).floor + 1 ∧
    halfOf window bin = ((1 / 2 : Rat) * window / bin).floor.toNat ∧
    winsizeBins window bin = 2 * (halfOf window bin : Int) + 1 :=
  Lemmas.winsize_spec window bin hb1 hb2 hw1 hw2

/-- THE COUNT ARRAY.  The loop as the code runs it — zero array from `_create_correlograms_array`, at every shift
`ravel_multi_index` of the selected (row cluster, column cluster, lag) triples and `_increment` into the flat
array — never raises on in-domain inputs and returns exactly the array `correlograms` of `Model/C15.lean` reads off
its event list (hence, by `correlograms_eq_spec`, the pair counts). -/
theorem correlogramsArr_eq (t : List Int) (sc : List Int) (ids : List Nat) (bin : Int) (half : Nat) (w : Int)
    (hw : (w / 2).toNat = half) (hsorted : t.Pairwise (· ≤ ·)) (hb : 0 < bin) (hlen : sc.length = t.length)
    (hdom : InDom sc ids) :
    correlogramsArr t sc ids bin w = correlograms t sc ids bin half :=
  Lemmas.correlogramsArr_eq t sc ids bin half w hw hsorted hb hlen hdom

/-- THE PROPERTY IN ITS OWN UNITS.  Spike times in seconds (rationals), non-decreasing; sampling rate, bin and
window such that the sample grid and the time axis agree (`GridOK`: rate > 0, bin and window within [1e-5, 1e5] s,
every `time·rate` and `rate·bin` a whole number ≥ 1 for the bin); any labelling, any duplicate-free caller list
containing the labels in use.  Then the whole call — float→sample conversions, bin size, number of bins, relabelling,
shift loop on the count array, optional symmetrisation — returns, at (i, j, k), the number of pairs a before b with
a in `ids[i]`, b in `ids[j]` and `⌊(t_b − t_a) / bin⌋ = k`, for k up to the half window `⌊window/(2·bin)⌋`
(symmetrised as `sym_*` describe when `symmetrize=True`).
Outside `GridOK`: a non-integer `rate·bin` is truncated by the code (`int(rate*bin)`), e.g. rate 1 kHz, bin 2.5 ms,
samples 0,3,5,9 give `[0,2,2]` — the counts for a 2-sample bin, not `⌊Δt/2.5 ms⌋ = [1,2,2]` (observed);
a non-integer `time·rate` is truncated toward zero; bin/window outside [1e-5, 1e5] s are clipped. -/
theorem correlogramsQ_eq (times : List Rat) (sc : List Int) (ids : List Nat) (rate bin window : Rat)
    (T : List Int) (B : Int) (g : GridOK times rate bin window T B)
    (hsorted : times.Pairwise (· ≤ ·)) (hlen : sc.length = times.length) (hdom : InDom sc ids) (sym : Bool) :
    correlogramsQ times sc (some ids) rate bin window sym =
      some (if sym then symmetrize (specSeconds times sc ids bin (halfOf window bin))
            else specSeconds times sc ids bin (halfOf window bin)) :=
  Lemmas.correlogramsQ_eq times sc ids rate bin window T B g hsorted hlen hdom sym

/-- … and with `cluster_ids=None` (non-negative labels) the same over the sorted distinct labels -/
theorem correlogramsQ_default_ids (times : List Rat) (sc : List Int) (rate bin window : Rat)
    (T : List Int) (B : Int) (g : GridOK times rate bin window T B)
    (hsorted : times.Pairwise (· ≤ ·)) (hlen : sc.length = times.length) (h : ∀ c ∈ sc, 0 ≤ c) (sym : Bool) :
    correlogramsQ times sc none rate bin window sym =
      some (if sym then symmetrize (specSeconds times sc (Np.unique sc) bin (halfOf window bin))
            else specSeconds times sc (Np.unique sc) bin (halfOf window bin)) :=
  Lemmas.correlogramsQ_eq times sc (Np.unique sc) rate bin window T B g hsorted hlen (Lemmas.unique_inDom sc h) sym

/-! Non-vacuity -/
example : firingRate [7, 2, 7] (some [7, 5, 2]) (1/2) (some 3) =
    some [[2/3, 0, 1/3], [0, 0, 0], [1/3, 0, 1/6]] := by decide +kernel
example : firingRate [7, 2, 7] none (1/2) (some 0) = some [[1/2, 1], [1, 2]] := by decide +kernel
example : increment [0, 0, 0, 0, 0] [0, 4, 4] = some [1, 0, 0, 0, 2] ∧ increment [0, 0, 0] [0, 4] = none := by decide
example : diffShifted [1, 4, 9] 1 = some [3, 5] ∧ diffShifted [1, 4, 9] 4 = none := by decide
example : winsizeBins (1/80) (1/400) = 5 ∧ halfOf (1/80) (1/400) = 2 ∧ binsizeOf 1000 (1/400) = 2 := by decide +kernel
/-- the audit's example of a non-integer `rate·bin`: the model reproduces the code's `[0, 2, 2]` -/
example : correlogramsQ [0, 3/1000, 5/1000, 9/1000] [0, 0, 0, 0] none 1000 (1/400) (1/80) false =
    some [[[0, 2, 2]]] := by decide +kernel
example : correlogramsQ [0, 0, 1/4, 3/4, 1] [7, 2, 7, 2, 7] (some [7, 5, 2]) 4 (1/2) (3/2) false =
    some (specSeconds [0, 0, 1/4, 3/4, 1] [7, 2, 7, 2, 7] [7, 5, 2] (1/2) 1) := by decide +kernel
example : GridOK [0, 0, 1/4, 3/4, 1] 4 (1/2) (3/2) [0, 0, 1, 3, 4] 2 where
  rate_pos := by decide +kernel
  bin_lo := by decide +kernel
  bin_hi := by decide +kernel
  win_lo := by decide +kernel
  win_hi := by decide +kernel
  len := rfl
  onGrid := by
    intro a ha
    have : a = 0 ∨ a = 1 ∨ a = 2 ∨ a = 3 ∨ a = 4 := by simp at ha; omega
    rcases this with rfl | rfl | rfl | rfl | rfl <;> decide +kernel
  binGrid := by decide +kernel
  binPos := by decide
example : specSeconds [0, 0, 1/4, 3/4, 1] [7, 2, 7, 2, 7] [7, 5, 2] (1/2) 1 =
    [[[1, 1], [0, 0], [1, 2]], [[0, 0], [0, 0], [0, 0]], [[2, 0], [0, 0], [0, 1]]] := by decide +kernel

/-! ## Third part (`Model/C15c.lean`): the float → integer conversions as the float unit computes them -/

/-- THE WHOLE CALL ON DOUBLES.  Spike times, rate, bin and window are doubles (read as the rationals they denote);
every float operation of `correlograms` is the exact operation followed by IEEE-754 binary64 rounding
(`Fl.roundDouble`): `samples = trunc(fl(t·rate))`, `binsize = trunc(fl(rate·clip(bin)))`,
`winsize = 2·trunc(fl(fl(.5·clip(window))/clip(bin)))+1`.  For a positive rate, non-decreasing times, any labelling
and any duplicate-free caller list containing the labels in use, and a bin of at least one sample, the call
returns exactly the SAMPLE-LEVEL pair counts for THOSE integers: entry (i, j, k) = number of pairs a before b with
a in `ids[i]`, b in `ids[j]`, `⌊(s_b − s_a) / binsize⌋ = k`, k up to `winsize // 2` (symmetrised as `sym_*`
describe).  No exactness hypothesis: decimal bins/windows (0.1 s / 2 s gives 21 bins because `fl(1.0/0.1) = 10`
although the exact quotient of the two doubles is below 10), non-grid spike times, any rate.
The statement is about the MODEL and holds for all inputs (`roundDouble` is a total, monotone function): it carries no
`FlDom` hypothesis (an unused one was dropped).  `FlDom` (every product/quotient zero or in the normal range of binary64,
rounded products below 2^63) is the domain on which `roundDouble` IS the hardware's result (`roundDouble_binary64`) and
`astype(int64)` is defined (`samplesOfFl_int64`); the correspondence run judges the real code only there.
Outside `FlDom`, observed on the real code: times `[0, 1e300]` at rate `1e10` — the product is `inf`, `astype(int64)`
yields INT64_MIN with a RuntimeWarning and `ravel_multi_index` raises ValueError; times `[0, 1e-320, 3e-320]` at 1 kHz —
subnormal products, all samples 0 (here the same as the model, not in general).
The real code rejects (AssertionError): rate ≤ 0, decreasing times, a bin below one sample
(`correlogramsFl_rejects`); times and labels of different lengths. -/
theorem correlogramsFl_eq_spec (times : List Rat) (sc : List Int) (ids : List Nat) (rate bin window : Rat) (sym : Bool)
    (hr : 0 < rate) (hsorted : times.Pairwise (· ≤ ·)) (hlen : sc.length = times.length) (hdom : InDom sc ids)
    (hb : 1 ≤ binsizeOfFl rate bin) :
    correlogramsFl times sc (some ids) rate bin window sym =
      some (if sym then symmetrize (specCcg (samplesOfFl rate times) sc ids (binsizeOfFl rate bin) (halfOfFl window bin))
            else specCcg (samplesOfFl rate times) sc ids (binsizeOfFl rate bin) (halfOfFl window bin)) :=
  Lemmas.correlogramsFl_eq_spec times sc ids rate bin window sym hr hsorted hlen hdom hb

/-- … with `cluster_ids=None` (non-negative labels): the same over the sorted distinct labels -/
theorem correlogramsFl_default_ids (times : List Rat) (sc : List Int) (rate bin window : Rat) (sym : Bool)
    (hr : 0 < rate) (hsorted : times.Pairwise (· ≤ ·)) (hlen : sc.length = times.length) (h : ∀ c ∈ sc, 0 ≤ c)
    (hb : 1 ≤ binsizeOfFl rate bin) :
    correlogramsFl times sc none rate bin window sym =
      some (if sym then symmetrize (specCcg (samplesOfFl rate times) sc (Np.unique sc) (binsizeOfFl rate bin) (halfOfFl window bin))
            else specCcg (samplesOfFl rate times) sc (Np.unique sc) (binsizeOfFl rate bin) (halfOfFl window bin)) :=
  Lemmas.correlogramsFl_eq_spec times sc (Np.unique sc) rate bin window sym hr hsorted hlen (Lemmas.unique_inDom sc h) hb

/-- what the driver executes: the float products once (`prodsFl`), truncated to the samples, then
`correlogramsOfInts` — the same value as `correlogramsFl` -/
theorem correlogramsFl_as_run (times : List Rat) (sc : List Int) (ids : Option (List Nat)) (rate bin window : Rat)
    (sym : Bool) :
    samplesOfFl rate times = (prodsFl rate times).map truncInt ∧
    correlogramsFl times sc ids rate bin window sym =
      correlogramsOfInts ((prodsFl rate times).map truncInt) (binsizeOfFl rate bin) (winsizeBinsFl window bin)
        times sc ids rate sym :=
  Lemmas.correlogramsFl_as_run times sc ids rate bin window sym

/-- a bin shorter than one sample (after the float product and truncation) fails `assert binsize >= 1` -/
theorem correlogramsFl_rejects (times : List Rat) (sc : List Int) (ids : Option (List Nat)) (rate bin window : Rat)
    (sym : Bool) (hb : binsizeOfFl rate bin < 1) : correlogramsFl times sc ids rate bin window sym = none :=
  Lemmas.correlogramsFl_rejects times sc ids rate bin window sym hb

/-- the spike samples keep the order of the spike times (rounding and truncation are monotone), one per spike -/
theorem samplesOfFl_sorted (rate : Rat) (times : List Rat) (hr : 0 < rate) (hs : times.Pairwise (· ≤ ·)) :
    (samplesOfFl rate times).Pairwise (· ≤ ·) ∧ (samplesOfFl rate times).length = times.length :=
  ⟨Lemmas.samplesOfFl_sorted rate times hr hs, Lemmas.samplesOfFl_length rate times⟩

/-- on `FlDom` every spike sample fits `int64` (`astype(np.int64)` is defined: the float it converts is below 2^63 in
magnitude); this is what the `2^63` clause of `FlDom` is for -/
theorem samplesOfFl_int64 (times : List Rat) (rate bin window : Rat) (h : FlDom times rate bin window) :
    ∀ s ∈ samplesOfFl rate times, -2 ^ 63 < s ∧ s < 2 ^ 63 :=
  Lemmas.samplesOfFl_int64 times rate bin window h

/-- the number of bins is odd and at least 1 for EVERY window and bin (both are clipped to [1e-5, 1e5] s first):
`winsize_bins = 2·half + 1` with `half = trunc(fl(fl(.5·w)/b)) ≥ 0` — the two asserts after ccg.py:131 never fail -/
theorem winsizeFl_spec (window bin : Rat) :
    0 ≤ truncInt (halfQuotFl window bin) ∧
    winsizeBinsFl window bin = 2 * (halfOfFl window bin : Int) + 1 ∧
    (halfOfFl window bin : Int) = truncInt (halfQuotFl window bin) :=
  Lemmas.winsizeFl_spec window bin

/-- WHERE ROUNDING CHANGES NOTHING.  On the sample grid (`GridOK`) with sample numbers and bin below 2^53, a window
that is a double and `.5·window/bin` a 53-bit number (`FlExact`) every float operation is exact: the integers of
the float model are those of the exact-rational model `Model/C15b.lean` … -/
theorem fl_eq_exact (times : List Rat) (rate bin window : Rat) (T : List Int) (B : Int)
    (g : GridOK times rate bin window T B) (x : FlExact bin window T B) :
    samplesOfFl rate times = samplesOf rate times ∧ binsizeOfFl rate bin = binsizeOf rate bin ∧
    winsizeBinsFl window bin = winsizeBins window bin :=
  Lemmas.fl_eq_exact times rate bin window T B g x

/-- … the two models of the whole call coincide … -/
theorem correlogramsFl_eq_Q (times : List Rat) (sc : List Int) (ids : Option (List Nat)) (rate bin window : Rat)
    (T : List Int) (B : Int) (g : GridOK times rate bin window T B) (x : FlExact bin window T B) (sym : Bool) :
    correlogramsFl times sc ids rate bin window sym = correlogramsQ times sc ids rate bin window sym :=
  Lemmas.correlogramsFl_eq_Q times sc ids rate bin window T B g x sym

/-- … and THE PROPERTY IN ITS OWN UNITS (`correlogramsQ_eq`) holds of the float model: pair counts by
`⌊(t_b − t_a)/bin⌋` in seconds, up to the half window `⌊window/(2·bin)⌋`. -/
theorem correlogramsFl_seconds (times : List Rat) (sc : List Int) (ids : List Nat) (rate bin window : Rat)
    (T : List Int) (B : Int) (g : GridOK times rate bin window T B) (x : FlExact bin window T B)
    (hsorted : times.Pairwise (· ≤ ·)) (hlen : sc.length = times.length) (hdom : InDom sc ids) (sym : Bool) :
    correlogramsFl times sc (some ids) rate bin window sym =
      some (if sym then symmetrize (specSeconds times sc ids bin (halfOf window bin))
            else specSeconds times sc ids bin (halfOf window bin)) :=
  Lemmas.correlogramsFl_seconds times sc ids rate bin window T B g x hsorted hlen hdom sym

/-! Non-vacuity.  `d01` = the double 0.1, `d005` = 0.05, `d0001` = 0.001 as exact rationals. -/
/-- bin 0.1 s, window 2 s: the exact quotient of the doubles is below 10 (19 bins), the float quotient is 10
(21 bins: what the code returns) -/
example : winsizeBinsFl 2 (3602879701896397 / 36028797018963968) = 21 ∧
    winsizeBins 2 (3602879701896397 / 36028797018963968) = 19 := by decide +kernel
/-- rate 30 kHz, bin 1 ms: `fl(30000 · 0.001) = 30`; window 0.5 s: 501 bins; a non-grid spike time -/
example : binsizeOfFl 30000 (1152921504606847 / 1152921504606846976) = 30 ∧
    winsizeBinsFl (1 / 2) (1152921504606847 / 1152921504606846976) = 501 ∧
    samplesOfFl 30000 [3602879701896397 / 36028797018963968, 1 / 3] = [3000, 10000] := by decide +kernel
example : FlDom [0, 3602879701896397 / 36028797018963968, 1 / 4] 10 (3602879701896397 / 36028797018963968) 2 := by
  decide +kernel
example : correlogramsFl [0, 3602879701896397 / 36028797018963968, 1 / 4, 11 / 10] [0, 0, 0, 0] none 10
    (3602879701896397 / 36028797018963968) (1 / 2) false = some [[[0, 2, 1]]] := by decide +kernel
example : samplesOfFl 10 [0, 3602879701896397 / 36028797018963968, 1 / 4, 11 / 10] = [0, 1, 2, 11] ∧
    binsizeOfFl 10 (3602879701896397 / 36028797018963968) = 1 ∧
    halfOfFl (1 / 2) (3602879701896397 / 36028797018963968) = 2 := by decide +kernel
example : FlExact (1/2) (3/2) [0, 0, 1, 3, 4] 2 where
  samplesFit := by
    intro a ha
    have : a = 0 ∨ a = 1 ∨ a = 2 ∨ a = 3 ∨ a = 4 := by simp at ha; omega
    rcases this with rfl | rfl | rfl | rfl | rfl <;> decide
  binFit := by decide
  windowDouble := ⟨3, -1, by decide, by decide +kernel⟩
  quotDouble := ⟨3, -1, by decide, by decide +kernel⟩
/-- on that input (GridOK and FlExact both hold, see above) the float model returns the seconds-level pair counts -/
example : correlogramsFl [0, 0, 1/4, 3/4, 1] [7, 2, 7, 2, 7] (some [7, 5, 2]) 4 (1/2) (3/2) false =
    some (specSeconds [0, 0, 1/4, 3/4, 1] [7, 2, 7, 2, 7] [7, 5, 2] (1/2) 1) := by decide +kernel

/-! ## Fourth part: the STATEMENT's counts for a bin that is not a whole number of samples (open known finding), the
`int32` cells of the count array

The statement counts by `⌊(t_b − t_a) / bin⌋` with the CALLER's bin, and the quantifier puts no condition on the bin.
The code converts the bin to whole samples first (`binsize = int(sample_rate * bin_size)`, ccg.py:126).  When
`rate · bin` is whole the two agree — that is `correlogramsQ_eq` above (`GridOK.binGrid`).  When it is not, the code
returns the statement's counts for ANOTHER bin, `⌊rate · bin⌋ / rate` (`correlogramsQ_truncates`), while the number of
bins is still derived from the caller's bin; the `example`s below exhibit the disagreement on the audit's input
(1 kHz, bin 2.5 ms, samples 0, 3, 5, 9: code `[0, 2, 2]`, statement `[1, 2, 2]`).  The correspondence run evaluates
`stmtSeconds` (= `specSeconds`, `stmtSeconds_eq`) and reports a real output that differs from it and equals the model
of the code as the open known finding `bin_truncated_to_whole_samples`.
Half window: the statement names "the half-window" and "2*half+1 bins" without saying how `half` comes from the window
size; `half` is taken to be the code's `winsize_bins // 2` (`halfOf` / `halfOfFl`, `= ⌊window / (2·bin)⌋` for exact
arithmetic, `winsize_spec`). -/

/-- the array the driver evaluates (one floor per spike pair) is the statement's array `specSeconds`, for ALL inputs -/
theorem stmtSeconds_eq (times : List Rat) (sc : List Int) (ids : List Nat) (bin : Rat) (half : Nat) :
    stmtSeconds times sc ids bin half = specSeconds times sc ids bin half :=
  Lemmas.stmtSeconds_eq times sc ids bin half

/-- CHANGE OF UNITS.  The statement's counts do not depend on the unit of time: multiplying every spike time and the bin
by the same non-zero factor leaves them unchanged.  With spike times on the sample grid (`time · rate = T`, whole) the
statement in seconds with bin `bin` IS the statement on the sample numbers with the bin `rate · bin` samples — whole or
not (this is the array the correspondence run compares the real output with when `rate · bin` is fractional) … -/
theorem specSeconds_units (times : List Rat) (sc : List Int) (ids : List Nat) (rate bin : Rat) (half : Nat)
    (hr : 0 < rate) :
    specSeconds (times.map (· * rate)) sc ids (rate * bin) half = specSeconds times sc ids bin half ∧
    ∀ T : List Int, T.length = times.length →
      (∀ a, a < times.length → times.getD a 0 * rate = ((T.getD a 0 : Int) : Rat)) →
      specSeconds times sc ids bin half = specSeconds (T.map fun (z : Int) => (z : Rat)) sc ids (rate * bin) half :=
  ⟨Lemmas.specSeconds_scale times sc ids rate bin half (ne_of_gt hr),
   fun T hlen h => Lemmas.specSeconds_onGrid times sc ids rate bin T half hr hlen h⟩

/-- … and for a bin of a WHOLE number `B ≥ 1` of samples it is the sample-level pair count `specCcg` (integer floor
division), the array every theorem of the first three parts is about -/
theorem specSeconds_whole (T : List Int) (sc : List Int) (ids : List Nat) (B : Int) (half : Nat) (hB : 0 < B) :
    specSeconds (T.map fun (z : Int) => (z : Rat)) sc ids (B : Rat) half = specCcg T sc ids B half :=
  Lemmas.specSeconds_whole T sc ids B half hB

/-- WHAT THE CODE COUNTS FOR ANY BIN (`GridOK` without its clause on the bin: `TimesOK`).  Spike times on the sample
grid, bin and window inside the clipping interval, `rate · bin ≥ 1` but NOT necessarily whole: `binsize = ⌊rate · bin⌋`
and the call returns the statement's counts for the bin `⌊rate · bin⌋ / rate` seconds — not for `bin` — up to the half
window `⌊window / (2·bin)⌋` of the caller's bin.  When `rate · bin` is whole, `⌊rate · bin⌋ / rate = bin` and this is
`correlogramsQ_eq`: the model of the code and the statement agree.  Otherwise they agree only on the inputs where no
spike pair has `⌊Δ / ⌊q⌋⌋ ≠ ⌊Δ / q⌋` (Δ the lag in samples, q = rate · bin); the `example` below is one where they
do not.  The real code behaves like the model there (observed: `[0, 2, 2]`), i.e. it violates the statement: open known
finding `bin_truncated_to_whole_samples`. -/
theorem correlogramsQ_truncates (times : List Rat) (sc : List Int) (ids : List Nat) (rate bin window : Rat)
    (T : List Int) (g : TimesOK times rate bin window T)
    (hsorted : times.Pairwise (· ≤ ·)) (hlen : sc.length = times.length) (hdom : InDom sc ids) (sym : Bool) :
    binsizeOf rate bin = (rate * bin).floor ∧
    correlogramsQ times sc (some ids) rate bin window sym =
      some (if sym then symmetrize (specSeconds times sc ids (((rate * bin).floor : Rat) / rate) (halfOf window bin))
            else specSeconds times sc ids (((rate * bin).floor : Rat) / rate) (halfOf window bin)) :=
  Lemmas.correlogramsQ_truncates times sc ids rate bin window T g hsorted hlen hdom sym

/-- THE SAME ON DOUBLES (the model the correspondence run executes).  Whatever the float product `rate · bin`
(`binProdFl`) is, the float model counts with the bin `int(rate · bin)` = `truncInt (binProdFl rate bin)` samples: it
returns the statement's counts ON THE SPIKE SAMPLES for that whole bin.  The correspondence run compares the real output
with `specSeconds` on the float products for the bin `binProdFl rate bin` itself when that is not whole. -/
theorem correlogramsFl_truncates (times : List Rat) (sc : List Int) (ids : List Nat) (rate bin window : Rat) (sym : Bool)
    (hr : 0 < rate) (hsorted : times.Pairwise (· ≤ ·)) (hlen : sc.length = times.length) (hdom : InDom sc ids)
    (hb : 1 ≤ binsizeOfFl rate bin) :
    binsizeOfFl rate bin = truncInt (binProdFl rate bin) ∧
    correlogramsFl times sc (some ids) rate bin window sym =
      some (if sym then symmetrize (specSeconds ((samplesOfFl rate times).map fun (z : Int) => (z : Rat)) sc ids
                                      ((binsizeOfFl rate bin : Int) : Rat) (halfOfFl window bin))
            else specSeconds ((samplesOfFl rate times).map fun (z : Int) => (z : Rat)) sc ids
                   ((binsizeOfFl rate bin : Int) : Rat) (halfOfFl window bin)) :=
  Lemmas.correlogramsFl_truncates times sc ids rate bin window sym hr hsorted hlen hdom hb

/-- THE `int32` CELLS.  The code's count array is `int32` (ccg.py:35-36), the model's counts are unbounded naturals.
A cell counts spike pairs, so it is at most `n·(n−1)/2`: for at most 65 536 spikes every count of the model is below
`2^31` and fits the code's cell, whatever the times and labels.  (65 537 equal times of one cluster already give
2 147 516 416 ≥ 2^31; observed on the real code: 70 000 equal times return −1 845 002 296 without a warning.  The
correspondence run generates at most 400 spikes; `correlogramsArr_eq` itself needs no bound because the model has no
overflow.) -/
theorem correlogramsArr_int32 (t : List Int) (sc : List Int) (ids : List Nat) (bin : Int) (half : Nat) (w : Int)
    (hw : (w / 2).toNat = half) (hsorted : t.Pairwise (· ≤ ·)) (hb : 0 < bin) (hlen : sc.length = t.length)
    (hdom : InDom sc ids) (hn : t.length ≤ 65536) :
    ∃ c, correlogramsArr t sc ids bin w = some c ∧ ∀ i j k, get3 c i j k < 2 ^ 31 :=
  Lemmas.correlogramsArr_int32 t sc ids bin half w hw hsorted hb hlen hdom hn

/-! Non-vacuity / the finding.  Rate 1 kHz, bin 2.5 ms = 1/400 s, window 12.5 ms = 1/80 s (half window 2 bins), spikes at
samples 0, 3, 5, 9 of one cluster. -/
/-- the statement: lags 3, 5, 9, 2, 6, 4 samples over 2.5 samples → bins 1, 2, 3, 0, 2, 1 → `[1, 2, 2]` -/
example : specSeconds [0, 3/1000, 5/1000, 9/1000] [0, 0, 0, 0] [0] (1/400) 2 = [[[1, 2, 2]]] ∧
    stmtSeconds [0, 3/1000, 5/1000, 9/1000] [0, 0, 0, 0] [0] (1/400) 2 = [[[1, 2, 2]]] := by decide +kernel
/-- the model of the code (and the real code): the counts for a 2-sample bin → `[0, 2, 2]`: they DISAGREE -/
example : correlogramsQ [0, 3/1000, 5/1000, 9/1000] [0, 0, 0, 0] (some [0]) 1000 (1/400) (1/80) false =
      some (specSeconds [0, 3/1000, 5/1000, 9/1000] [0, 0, 0, 0] [0] (2/1000) 2) ∧
    specSeconds [0, 3/1000, 5/1000, 9/1000] [0, 0, 0, 0] [0] (2/1000) 2 = [[[0, 2, 2]]] ∧
    correlogramsQ [0, 3/1000, 5/1000, 9/1000] [0, 0, 0, 0] (some [0]) 1000 (1/400) (1/80) false ≠
      some (specSeconds [0, 3/1000, 5/1000, 9/1000] [0, 0, 0, 0] [0] (1/400) (halfOf (1/80) (1/400))) := by
  decide +kernel
/-- the input is in the domain of `correlogramsQ_truncates` (`⌊1000 · 1/400⌋ = 2`, `2 / 1000` s) and outside `GridOK`
(`rate · bin = 5/2` is no integer) -/
example : TimesOK [0, 3/1000, 5/1000, 9/1000] 1000 (1/400) (1/80) [0, 3, 5, 9] where
  rate_pos := by decide +kernel
  bin_lo := by decide +kernel
  bin_hi := by decide +kernel
  win_lo := by decide +kernel
  win_hi := by decide +kernel
  len := rfl
  onGrid := by
    intro a ha
    have : a = 0 ∨ a = 1 ∨ a = 2 ∨ a = 3 := by simp at ha; omega
    rcases this with rfl | rfl | rfl | rfl <;> decide +kernel
  binPos := by decide +kernel
example : ((1000 : Rat) * (1/400)).floor = 2 ∧ ((2 : Int) : Rat) / 1000 = 2/1000 ∧
    ¬ ∃ B : Int, (1000 : Rat) * (1/400) = (B : Rat) := by
  refine ⟨by decide +kernel, by decide +kernel, ?_⟩
  rintro ⟨B, h⟩
  have h2 : ((1000 : Rat) * (1/400)).den = ((B : Int) : Rat).den := by rw [h]
  rw [Rat.den_intCast] at h2
  revert h2
  decide +kernel
/-- change of units on that input: seconds with a 1/400 s bin = sample numbers with a 5/2-sample bin -/
example : specSeconds ([0, 3, 5, 9].map fun (z : Int) => (z : Rat)) [0, 0, 0, 0] [0] (5/2) 2 = [[[1, 2, 2]]] := by
  decide +kernel
/-- the same input as doubles (0.003, 0.005, 0.009, bin 0.0025, window 0.0125 as the rationals they denote): the float
product `1000 · 0.0025` is exactly 5/2, the float model returns `[0, 2, 2]`, the statement on the doubles `[1, 2, 2]` -/
example : binProdFl 1000 (5764607523034235 / 2305843009213693952) = 5/2 ∧
    binsizeOfFl 1000 (5764607523034235 / 2305843009213693952) = 2 ∧
    correlogramsFl [0, 3458764513820541 / 1152921504606846976, 5764607523034235 / 1152921504606846976,
        5188146770730811 / 576460752303423488] [0, 0, 0, 0] (some [0]) 1000
        (5764607523034235 / 2305843009213693952) (7205759403792794 / 576460752303423488) false = some [[[0, 2, 2]]] ∧
    stmtSeconds [0, 3458764513820541 / 1152921504606846976, 5764607523034235 / 1152921504606846976,
        5188146770730811 / 576460752303423488] [0, 0, 0, 0] [0] (5764607523034235 / 2305843009213693952) 2 =
      [[[1, 2, 2]]] := by decide +kernel
example : firingRate [7, 2, 7] (some [7, 5, 2]) (1/2) (some 3) = some [[2/3, 0, 1/3], [0, 0, 0], [1/3, 0, 1/6]] ∧
    Int.ofNat ([7, 5, 2].getD 1 0) ∉ [7, 2, 7] := by decide +kernel
/-- 65 536 spikes: at most 2 147 450 880 pairs, below 2^31 = 2 147 483 648; 65 537: 2 147 516 416 -/
example : 65536 * 65535 / 2 < 2 ^ 31 ∧ ¬ 65537 * 65536 / 2 < 2 ^ 31 := by decide
/-- `FlDom` at its `2^63` edge (rate 1024): the product `2^62` is inside; `2^63` is outside, and so is `2^63 − 1`, which is
below `2^63` but ROUNDS to it (the sample would not fit `int64`) -/
example : FlDom [0, 1/4, 4503599627370496] 1024 (1/2) (3/2) ∧
    samplesOfFl 1024 [0, 1/4, 4503599627370496] = [0, 256, 4611686018427387904] ∧
    ¬ FlDom [0, 9007199254740992] 1024 (1/2) (3/2) ∧
    ¬ FlDom [0, 9223372036854775807 / 1024] 1024 (1/2) (3/2) ∧
    samplesOfFl 1024 [9223372036854775807 / 1024] = [9223372036854775808] := by decide +kernel

end PhyVerif.C15

/-! ## IEEE-754 binary64 rounding (`Model/Fl.lean`), shared with C16 — tied to the float unit by the
correspondence stream `fl` of this property's check -/
namespace PhyVerif.Fl

/-- REPRESENTABLE: the result is zero (exactly for `q = 0`) or `± m · 2^e` with `2^52 ≤ m < 2^53` -/
theorem roundDouble_representable (q : Rat) :
    (q = 0 ∧ roundDouble q = 0) ∨ (q ≠ 0 ∧ Normal53 (roundDouble q)) :=
  Lemmas.roundDouble_representable q

/-- BINARY64: for `q = 0` or `2^-1022 ≤ |q| < 2^1024 − 2^970` (`InRange`) the exponent stays inside the format:
the result is zero or a normal double (no overflow, no subnormal).  Outside `InRange` the hardware returns a
subnormal (less precision) or `±inf`; `roundDouble` does not model that. -/
theorem roundDouble_binary64 (q : Rat) (h : InRange q) :
    (q = 0 ∧ roundDouble q = 0) ∨ (q ≠ 0 ∧ NormalBinary64 (roundDouble q)) :=
  Lemmas.roundDouble_binary64 q h

/-- HALF AN ULP: `|roundDouble q − q| ≤ 2^(e−1)` where `2^e` is the unit in the last place of `q`'s binade,
`2^(e+52) ≤ |q| < 2^(e+53)` -/
theorem roundDouble_half_ulp (q : Rat) (hq : q ≠ 0) :
    absR (roundDouble q - q) ≤ pow2 (ulpExp q - 1) ∧
    pow2 (ulpExp q + 52) ≤ absR q ∧ absR q < pow2 (ulpExp q + 53) :=
  ⟨Lemmas.roundDouble_half_ulp q hq, Lemmas.ulpExp_spec q hq⟩

/-- … hence a relative error of at most `2^-53`, for every `q` -/
theorem roundDouble_rel (q : Rat) : absR (roundDouble q - q) ≤ pow2 (-53) * absR q :=
  Lemmas.roundDouble_rel q

/-- NEAREST: no number with at most 53 significant bits (any exponent) is closer to `q`.  Every finite binary64
number, normal or subnormal, is such a number (`IsDouble`), and on `InRange` the result is itself a normal double
(`roundDouble_binary64`): it is then A nearest double. -/
theorem roundDouble_nearest (q r : Rat) (hr : IsDouble r) : absR (roundDouble q - q) ≤ absR (r - q) :=
  Lemmas.roundDouble_nearest q r hr

/-- TIES TO EVEN: if another 53-bit number is exactly as close, the result is the one with the even significand -/
theorem roundDouble_tie_even (q r : Rat) (hr : IsDouble r) (hne : r ≠ roundDouble q)
    (hd : absR (r - q) = absR (roundDouble q - q)) :
    ∃ (m e : Int), 2 ^ 52 ≤ m ∧ m < 2 ^ 53 ∧ m % 2 = 0 ∧ absR (roundDouble q) = (m : Rat) * pow2 e :=
  Lemmas.roundDouble_tie_even q r hr hne hd

/-- MONOTONE -/
theorem roundDouble_mono (p q : Rat) (h : p ≤ q) : roundDouble p ≤ roundDouble q :=
  Lemmas.roundDouble_mono p q h

/-- IDENTITY on the 53-bit numbers, hence IDEMPOTENT; the results are 53-bit numbers -/
theorem roundDouble_id (x : Rat) (h : IsDouble x) : roundDouble x = x :=
  Lemmas.roundDouble_of_isDouble x h

theorem roundDouble_idem (q : Rat) : roundDouble (roundDouble q) = roundDouble q ∧ IsDouble (roundDouble q) :=
  ⟨Lemmas.roundDouble_idem q, Lemmas.roundDouble_isDouble q⟩

/-- ODD SYMMETRY -/
theorem roundDouble_neg (q : Rat) : roundDouble (-q) = -roundDouble q :=
  Lemmas.roundDouble_neg q

/-- integers up to 2^53 in magnitude are not rounded; halving a double is exact -/
theorem roundDouble_exact_cases (z : Int) (h : z.natAbs ≤ 2 ^ 53) (x : Rat) (hx : IsDouble x) :
    roundDouble (z : Rat) = z ∧ roundDouble (1 / 2 * x) = 1 / 2 * x :=
  ⟨Lemmas.roundDouble_intCast z h, Lemmas.roundDouble_half x hx⟩

/-- the executable test used by the driver decides `IsDouble` -/
theorem isDoubleB_iff (x : Rat) : isDoubleB x = true ↔ IsDouble x :=
  Lemmas.isDoubleB_iff x

/-! Non-vacuity: 0.1, a tie resolved to the even neighbour (2^53 + 1 → 2^53, 2^53 + 3 → 2^53 + 4), an integer
beyond 2^53, a negative number, the range predicate. -/
example : roundDouble (1 / 10) = 3602879701896397 / 36028797018963968 := by decide +kernel
/-- 0.1 = 7205759403792794 · 2^-56: a normal double -/
example : NormalBinary64 (roundDouble (1 / 10)) :=
  ⟨7205759403792794, -56, by decide, by decide, by decide, by decide, by decide +kernel⟩
example : ulpExp (1 / 10) = -56 ∧ absR (roundDouble (1 / 10) - 1 / 10) ≤ pow2 (-57) := by decide +kernel
example : roundDouble (1 / 3) ≤ roundDouble (1 / 3 + 1 / 1000000000000000000) ∧
    roundDouble (roundDouble (1 / 3)) = roundDouble (1 / 3) ∧ roundDouble (-(1 / 3)) = -roundDouble (1 / 3) := by
  decide +kernel
example : roundDouble 9007199254740993 = 9007199254740992 ∧ roundDouble 9007199254740995 = 9007199254740996 ∧
    roundDouble (-9007199254740995) = -9007199254740996 := by decide +kernel
example : IsDouble (9007199254740994 : Rat) := ⟨4503599627370497, 1, by decide, by decide +kernel⟩
example : absR ((9007199254740994 : Rat) - 9007199254740993) = absR (roundDouble 9007199254740993 - 9007199254740993) := by
  decide +kernel
example : InRange (1 / 10) ∧ ¬ InRange (pow2 (-1023)) ∧ ¬ InRange (pow2 1024 - pow2 970) ∧ InRange 0 := by
  decide +kernel
example : roundDouble (1 / 2 + 1 / 18014398509481984) = 1 / 2 := by decide +kernel

end PhyVerif.Fl
