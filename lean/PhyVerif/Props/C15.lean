import PhyVerif.Model.C15
import PhyVerif.Spec.C15
import PhyVerif.Lemmas.C15
/-!
# C15 — correlograms count exactly the spike pairs in each lag bin
Only property theorems + non-vacuity examples; proofs in `Lemmas/C15.lean`.
-/
namespace PhyVerif.C15

/-- Core: for non-decreasing samples and a positive bin, the number of increments the shift loop
(shrinking mask, early exit) performs at (i, j, k) equals the number of pairs a < b with a in
cluster i, b in cluster j, floor((t_b - t_a)/bin) = k ≤ half.  Unbounded in the number of
spikes, for every labelling. -/
theorem ccg_eq_paircount (x : Inp) (hs : Sorted x) (hb : 0 < x.bin) (i j : Nat) (k : Int) :
    (ccg x).count (i, j, k) = pairCount x i j k :=
  Lemmas.ccg_eq_paircount x hs hb i j k

/-- List level, caller's cluster order (any order, ids without spikes allowed): the returned
one-sided array is exactly the pair-count array. -/
theorem correlograms_eq_spec (t : List Int) (sc : List Int) (ids : List Nat) (bin : Int) (half : Nat)
    (hsorted : t.Pairwise (· ≤ ·)) (hb : 0 < bin) (hlen : sc.length = t.length)
    (hdom : InDom sc ids) :
    correlograms t sc ids bin half = some (specCcg t sc ids bin half) :=
  Lemmas.correlograms_eq_spec t sc ids bin half hsorted hb hlen hdom

/-- symmetrised array has 2*half+1 bins -/
theorem sym_shape (c : List (List (List Nat))) (nc h : Nat) (hc : Shape3 c nc (h + 1)) :
    Shape3 (symmetrize c) nc (2 * h + 1) :=
  Lemmas.sym_shape c nc h hc

/-- positive lags reproduce the one-sided counts -/
theorem sym_positive (c : List (List (List Nat))) (nc h : Nat) (hc : Shape3 c nc (h + 1))
    (i j k : Nat) (hi : i < nc) (hj : j < nc) (hk1 : 1 ≤ k) (hk : k ≤ h) :
    get3 (symmetrize c) i j (h + k) = get3 c i j k :=
  Lemmas.sym_positive c nc h hc i j k hi hj hk1 hk

/-- the centre bin is the larger of the two one-sided zero-lag counts -/
theorem sym_centre (c : List (List (List Nat))) (nc h : Nat) (hc : Shape3 c nc (h + 1))
    (i j : Nat) (hi : i < nc) (hj : j < nc) :
    get3 (symmetrize c) i j h = max (get3 c i j 0) (get3 c j i 0) :=
  Lemmas.sym_centre c nc h hc i j hi hj

/-- C[i,j,k] = C[j,i,-k] (bin index h+k ↔ h-k) -/
theorem sym_reflect (c : List (List (List Nat))) (nc h : Nat) (hc : Shape3 c nc (h + 1))
    (i j k : Nat) (hi : i < nc) (hj : j < nc) (hk : k ≤ h) :
    get3 (symmetrize c) i j (h + k) = get3 (symmetrize c) j i (h - k) :=
  Lemmas.sym_reflect c nc h hc i j k hi hj hk

/-- firing-rate normaliser (integer part): outer product of per-cluster spike counts in the
caller's order, zero rows/columns for ids without spikes -/
theorem firing_outer (sc : List Int) (ids : List Nat) (hdom : InDom sc ids) :
    firingCounts sc ids = some (specFiring sc ids) :=
  Lemmas.firing_outer sc ids hdom

/-! Non-vacuity -/
example : correlograms [0, 0, 1, 3, 4] [7, 2, 7, 2, 7] [7, 5, 2] 2 1 =
    some (specCcg [0, 0, 1, 3, 4] [7, 2, 7, 2, 7] [7, 5, 2] 2 1) := by decide
example : specCcg [0, 0, 1, 3, 4] [7, 2, 7, 2, 7] [7, 5, 2] 2 1 =
    [[[1, 1], [0, 0], [1, 2]], [[0, 0], [0, 0], [0, 0]], [[2, 0], [0, 0], [0, 1]]] := by decide
example : InDom [7, 2, 7, 2, 7] [7, 5, 2] := by unfold InDom; decide
example : symmetrize [[[1, 2], [1, 1]], [[2, 0], [0, 1]]] =
    [[[2, 1, 2], [0, 2, 1]], [[1, 2, 0], [1, 0, 1]]] := by decide

end PhyVerif.C15
