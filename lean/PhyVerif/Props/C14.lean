import PhyVerif.Model.C14
import PhyVerif.Spec.C14
import PhyVerif.Lemmas.C14
/-!
# C14 — exported ALF values equal the physical quantities they name
Only property theorems + non-vacuity examples; proofs in `Lemmas/C14.lean`.
(The amplitude / rescaling / duration / feature-depth formulas are the C09 theorems; here: the
composition with the merge of C12, the listed channels, and the column/depth bookkeeping.)
-/
namespace PhyVerif.C14
open PhyVerif PhyVerif.C09 PhyVerif.C12

/-- Composition theorem: exporting the raw channel indices of a dataset merged from ANY number of
probes gives back each probe's original channel map — for ANY non-empty channel maps (arbitrary
naturals, gaps and duplicates allowed; not only permutations).  An empty map followed by a
non-empty one breaks it (`[[], [0]]` exports `[1]`). -/
theorem rawInd_inverts_merge (maps : List (List Nat)) (h : ∀ m ∈ maps, m ≠ []) :
    exportRawInd (mergeChannelMaps maps) (channelProbes maps) = (maps.flatten).map Int.ofNat :=
  Lemmas.rawInd_inverts_merge maps h

/-- Listed channels: nearest channels on the same probe as the peak channel, peak first. -/
theorem nearest_ok (pos : List (Rat × Rat)) (probes : List Nat) (peak ncw : Nat)
    (hp : peak < pos.length) :
    nearestOK pos probes peak ncw (nearestSameProbe pos probes peak ncw) = true :=
  Lemmas.nearest_ok pos probes peak ncw hp

/-- Exported waveforms are the (unwhitened, amplitude-rescaled) waveforms on the listed channels. -/
theorem waveforms_eq (wfs : List Mat) (inds : List (List Nat))
    (t s j : Nat)
    (hj : j < (inds.getD t []).length) :
    (((exportWaveforms wfs inds).getD t []).getD s []).getD j 0 =
      ((wfs.getD t []).getD s []).getD ((inds.getD t []).getD j 0) 0 :=
  Lemmas.waveforms_eq wfs inds t s j hj

/-- Cluster depths are the depth of the cluster's peak channel, NaN for ids without spikes; without
features a spike's depth is its cluster's depth. -/
theorem cluster_depth_eq (ys : List Rat) (peaks nanIdx : List Nat) (c : Nat) (hc : c < peaks.length) :
    (clusterDepths ys peaks nanIdx).getD c none =
      if nanIdx.contains c then none else some (ys.getD (peaks.getD c 0) 0) :=
  Lemmas.cluster_depth_eq ys peaks nanIdx c hc

/-! Non-vacuity -/
example : exportRawInd (mergeChannelMaps [[2, 0, 3, 1], [1, 0], [0, 2, 1]]) (channelProbes [[2, 0, 3, 1], [1, 0], [0, 2, 1]])
    = [2, 0, 3, 1, 1, 0, 0, 2, 1] := by decide
example : nearestSameProbe [(0, 0), (0, 20), (10, 10), (0, 40), (5, 5)] [0, 0, 1, 0, 1] 1 4 = [1, 0, 3, 2] := by
  decide +kernel
example : nearestOK [(0, 0), (0, 20), (10, 10), (0, 40), (5, 5)] [0, 0, 1, 0, 1] 1 4 [1, 3, 0, 4] = true := by
  decide +kernel     -- equal distances: either order is accepted; the other-probe tail is free

end PhyVerif.C14
