import PhyVerif.Model.C14
import PhyVerif.Spec.C14
import PhyVerif.Lemmas.C14
import PhyVerif.Lemmas.C14b
import PhyVerif.Lemmas.C14c
import PhyVerif.Lemmas.C14d
import PhyVerif.Lemmas.C14e
/-!
# C14 — exported ALF values equal the physical quantities they name
Only property theorems + non-vacuity examples; proofs in `Lemmas/C14.lean`.
(The amplitude / rescaling / duration / feature-depth formulas are the C09 theorems; here: the
composition with the merge of C12, the listed channels, and the column/depth bookkeeping.)
-/
namespace PhyVerif.C14
open PhyVerif PhyVerif.C09 PhyVerif.C12

/-- Composition theorem: exporting the raw channel indices of a dataset merged from ANY number of
probes gives back each probe's original channel map — for ANY non-empty channel maps (arbitrary
naturals, gaps and duplicates allowed; not only permutations).  An empty map followed by a
non-empty one breaks it (`[[], [0]]` exports `[1]`). -/
theorem rawInd_inverts_merge (maps : List (List Nat)) (h : ∀ m ∈ maps, m ≠ []) :
    exportRawInd (mergeChannelMaps maps) (channelProbes maps) = (maps.flatten).map Int.ofNat :=
  Lemmas.rawInd_inverts_merge maps h

/-- "Raw channel indices are RE-EXPRESSED PER PROBE", for ANY probe table with one label per channel (single dataset
or merged; labels arbitrary naturals, not necessarily 0-based or contiguous; the real loader refuses a
`channel_probe.npy` whose length is not the number of channels: `assert self.channel_probes.shape == (nc,)`,
model.py:404): entry `i` of `channels.rawInd` is the raw index of
channel `i` itself when `i` lies on the first probe (smallest label in use), and otherwise the raw index MINUS (largest
raw index of the previous probe + 1), the previous probe being the largest label in use below the channel's
(`perProbeRawInd`, Spec/C14).  No ordering hypothesis: this is what `make_channel_objects` computes on every table. -/
theorem rawInd_per_probe (cm probes : List Nat) (hlen : probes.length = cm.length) :
    exportRawInd cm probes = perProbeRawInd cm probes :=
  Lemmas.rawInd_per_probe cm probes hlen

/-- … "the largest raw index of probe `q`" IS the raw index of one of the channels labelled `q`, and no channel
labelled `q` has a larger one (for a label in use; `probeMaxRaw` is not a default there). -/
theorem probeMaxRaw_spec (cm probes : List Nat) (hlen : probes.length = cm.length) (q : Nat) (hq : q ∈ probes) :
    (∃ j, j < cm.length ∧ probes.getD j 0 = q ∧ cm.getD j 0 = probeMaxRaw cm probes q) ∧
    ∀ j, j < cm.length → probes.getD j 0 = q → cm.getD j 0 ≤ probeMaxRaw cm probes q :=
  Lemmas.probeMaxRaw_spec cm probes hlen q hq

/-- On every probe table whose labels follow the channel map (a channel with a smaller label has a strictly smaller raw
index, `probesOrdered`), EVERY exported raw index is ≥ 0 — for all channel maps and probe tables, not checked at run
time. -/
theorem rawInd_nonneg_of_ordered (cm probes : List Nat) (hlen : probes.length = cm.length)
    (ho : probesOrdered cm probes = true) : ∀ x ∈ exportRawInd cm probes, 0 ≤ x :=
  Lemmas.rawInd_nonneg_of_ordered cm probes hlen ho

/-- … and ONLY there: a table that is not in channel-map order exports a negative raw index (the open finding
`pf_c14f`; the audit's `[0,1,2,3]`, probes `[1,1,0,0]` below). -/
theorem rawInd_nonneg_iff_ordered (cm probes : List Nat) (hlen : probes.length = cm.length) :
    (∀ x ∈ exportRawInd cm probes, 0 ≤ x) ↔ probesOrdered cm probes = true :=
  ⟨Lemmas.ordered_of_rawInd_nonneg cm probes hlen, Lemmas.rawInd_nonneg_of_ordered cm probes hlen⟩

/-- The tie to `rawInd_inverts_merge`: the table a merge of non-empty channel maps produces IS in channel-map order
(blocks labelled 0..k-1 on strictly increasing raw ranges), so the two theorems above speak about every merged dataset,
and on it the per-probe re-expression `perProbeRawInd` is each probe's original channel map. -/
theorem merged_probes_ordered (maps : List (List Nat)) (h : ∀ m ∈ maps, m ≠ []) :
    probesOrdered (mergeChannelMaps maps) (channelProbes maps) = true ∧
    perProbeRawInd (mergeChannelMaps maps) (channelProbes maps) = (maps.flatten).map Int.ofNat := by
  have hlen : (channelProbes maps).length = (mergeChannelMaps maps).length := by
    rw [Lemmas.probes_length, Lemmas.merge_length]
  refine ⟨(rawInd_nonneg_iff_ordered _ _ hlen).1 ?_, ?_⟩
  · rw [rawInd_inverts_merge maps h]
    intro x hx
    obtain ⟨a, _, rfl⟩ := List.mem_map.1 hx
    exact Int.natCast_nonneg a
  · rw [← rawInd_per_probe _ _ hlen, rawInd_inverts_merge maps h]

-- `hpr`: the domain (one probe label per channel); the proof does not need it
set_option linter.unusedVariables false in
/-- Listed channels: nearest channels on the same probe as the peak channel, peak first.  WHICH channel `peak` is:
`listed_channels_of_waveform` below.  `hp`, `hpr`: the peak is a channel and every channel has a probe label (no
position / label is read as a default). -/
theorem nearest_ok (pos : List (Rat × Rat)) (probes : List Nat) (peak ncw : Nat)
    (hp : peak < pos.length) (hpr : probes.length = pos.length) :
    nearestOK pos probes peak ncw (nearestSameProbe pos probes peak ncw) = true :=
  Lemmas.nearest_ok pos probes peak ncw hp

/-- … where "the peak channel" of template / cluster `t` is THE peak channel (first channel of largest peak-to-peak,
C09 `IsPeakChannel`) of the STORED waveform `wfs[t]` — `model.templates_channels` / `model.clusters_channels`
(`_channels`, model.py:1289-1299, on `sparse_templates.data` / `sparse_clusters.data`, i.e. the WHITENED template), the
source the property's anchors name — and the listed row is row `t` of the EXPORTED table `exportListedChannels` (the
model of `templates.waveformsChannels` / `clusters.waveformsChannels`, one row per template / cluster), not a row
computed beside the export.  `hpos`, `hpr`: one position and one probe label per channel of the waveform (model.py:404;
no position / label is read as a default).  The statement does not say "of the exported waveform", and under a whitening
matrix that is far from a multiple of the identity the two differ (`wmi = diag(1, 8)`, stored template
`[[2, 1], [-2, -1], [0, 0]]`: listed channels `[0, 1]`, depth of channel 0, while the exported unwhitened waveform
`[[2, 8], [-2, -8], [0, 0]]` and `templates.amps` peak on channel 1).  Reading adopted here: the model's own peak
channel, as for C09; `clusters.channels`, `clusters.depths` and `clusters.peakToTrough` use the same channel. -/
theorem listed_channels_of_waveform (wfs : List Mat) (pos : List (Rat × Rat)) (probes : List Nat)
    (ncw t ns nc : Nat) (ht : t < wfs.length) (hrect : Rect (wfs.getD t []) ns nc) (hns : 0 < ns) (hnc : 0 < nc)
    (hpos : pos.length = nc) (hpr : probes.length = pos.length) :
    IsPeakChannel (wfs.getD t []) nc ((peakChannels wfs).getD t 0) ∧
    nearestOK pos probes ((peakChannels wfs).getD t 0) ncw
      ((exportListedChannels wfs pos probes ncw).getD t []) = true ∧
    (exportListedChannels wfs pos probes ncw).length = wfs.length :=
  Lemmas.listed_channels_of_waveform wfs pos probes ncw t ns nc ht hrect hns hnc hpos hpr

-- `ht hs hc`: the domain; the equation holds without them (both sides would then read defaults)
set_option linter.unusedVariables false in
/-- Exported waveforms are the (unwhitened, amplitude-rescaled) waveforms on the listed channels: column `j` of the
exported block is column `inds[t][j]` of the waveform.  Hypotheses = the real domain (`t` an id with a waveform and a row
of listed channels, `s` a sample of it, the listed channel a channel of the waveform — the real gather raises
`IndexError` otherwise): under them no `getD` on either side reads a default. -/
theorem waveforms_eq (wfs : List Mat) (inds : List (List Nat))
    (t s j : Nat) (ht : t < wfs.length)
    (hj : j < (inds.getD t []).length) (hs : s < (wfs.getD t []).length)
    (hc : (inds.getD t []).getD j 0 < ((wfs.getD t []).getD s []).length) :
    (((exportWaveforms wfs inds).getD t []).getD s []).getD j 0 =
      ((wfs.getD t []).getD s []).getD ((inds.getD t []).getD j 0) 0 :=
  Lemmas.waveforms_eq wfs inds t s j hj

/-- Membership in the blanked list, by unfolding `spikelessIds` (a `filter` over `range n`): the ids `clusters.depths`
blanks are exactly the ids below the number of clusters that NO SPIKE is assigned to — the list is computed from the
spike assignment, not handed in.  (Definitional; formerly `spikeless_ids_spec`.) -/
theorem mem_spikelessIds (n : Nat) (sc : List Nat) (c : Nat) :
    c ∈ spikelessIds n sc ↔ c < n ∧ c ∉ sc :=
  Lemmas.mem_spikelessIds n sc c

/-- … and for a CURATED dataset (`hcur`: the cluster assignment differs from the template assignment; then `n_clusters`
= highest id + 1, C13 `cluster_count_rule`) with at least one spike (`hne`: the loader takes the maximum of the ids)
that list IS the model's `nan_idx` (`modelNanIdx`, model.py:418-428: C08 `nanIdx` of the merge map, characterised by
C08 `nanIdx_spec`): the composition with C08.  Both hypotheses are needed for the sentence to be true of
`model.nan_idx`: for an UN-curated dataset `model.nan_idx` is `[]` (model.py:425) whatever the templates without
spikes (`st = sc = [0,2,2,0]`: ids without spikes `[1]`, `modelNanIdx = []`) — `make_depths` must not (and, repaired,
does not) take its list from there; for no spike at all the left side would be `[0]`. -/
theorem blanked_ids_eq_nanIdx (st sc : List Nat) (hlen : st.length = sc.length) (hcur : sc ≠ st) (hne : sc ≠ []) :
    spikelessIds (sc.foldl max 0 + 1) sc = modelNanIdx st sc :=
  Lemmas.blanked_ids_eq_nanIdx st sc hlen hcur hne

set_option linter.unusedVariables false in
/-- Cluster depths are the depth of the cluster's peak channel, NaN EXACTLY for the ids without spikes (curated or
not); one entry per cluster.  `peaks` is the exported `clusters.channels` table (`make_depths` reads it back), `sc`
the spike assignment.  `hp`: EVERY peak channel is a channel — `channel_positions[cluster_channels, 1]` (alf.py:228) is
one batch gather and raises `IndexError` as soon as ONE entry is out of range (`ys = [10, 20]`, `peaks = [1, 7]`: no
file, while the model's `getD` gives `[some 20, some 0]`), so under `hp` every depth is a stored coordinate, not a
default.  `hsc`: every spike's cluster id is below the number of clusters (`n_clusters` = highest id + 1 or the number
of templates; without features `clusters_depths[spike_clusters]`, alf.py:238, raises otherwise and neither file is
written).  The proof uses neither. -/
theorem cluster_depth_eq (ys : List Rat) (peaks sc : List Nat)
    (hp : ∀ c, c < peaks.length → peaks.getD c 0 < ys.length) (hsc : ∀ s ∈ sc, s < peaks.length)
    (c : Nat) (hc : c < peaks.length) :
    (exportClusterDepths ys peaks sc).getD c none =
      (if c ∈ sc then some (ys.getD (peaks.getD c 0) 0) else none) ∧
    (exportClusterDepths ys peaks sc).length = peaks.length :=
  ⟨Lemmas.export_cluster_depth_eq ys peaks sc c hc, Lemmas.exportClusterDepths_length ys peaks sc⟩

/-! ## Second part: unit factor, exported waveforms of the RETURNED templates, spike depths without features,
durations in milliseconds (model additions at the end of `Model/C14.lean`, proofs in `Lemmas/C14b.lean`; the
amplitude chain, the peak channel and the duration are the C09 models/theorems — this is the composition). -/

/-- "Exported spike, template and cluster amplitudes carry the unit factor", ENTRY BY ENTRY ON THE STORED ARRAYS — one
statement per exported amplitude file, with `P(W) = listMax (chAmps (W · wmi))` the largest channel peak-to-peak of the
UNWHITENED stored waveform `W`:
* `spikes.amps[i] = amplitudes[i] · P(templates[spike_templates[i]]) · f`;
* `templates.amps[t] = mean(amplitudes over the spikes of template t) · P(templates[t]) · f`, NaN EXACTLY when no
  spike carries template `t`;
* `clusters.amps[c] = mean(amplitudes over the spikes of cluster c) · P(cluster_waveforms[c]) · f`, NaN EXACTLY when no
  spike is assigned to cluster `c`;
and the three files have one entry per spike / template / cluster.  Composition of C09 `spikeAmpUnit_eq` and
`ampsVUnit_eq_mean` (a member spike of `t` has template `t`, so the peak-to-peak factors out of the mean).
Hypotheses = the real domain, in front of the WHOLE conjunction: one stored amplitude per spike (`ValueError`
otherwise), EVERY spike id below the number of waveforms, for both calls (`hsT`, `hsC`: `get_amplitudes_true` indexes
`templates_amps_au[spikes]` as one batch, model.py:1146, and raises `IndexError` as soon as ONE id is out of range —
one waveform and spike ids `[0, 5]`: no file at all, while the model's `getD` would still give `templates.amps = [2]`).
The proofs of the templates / clusters / length conjuncts do not use them. -/
theorem amp_files_entries (dT dC : Data) (f : Rat) (indsT indsC : List (List Nat))
    (haT : dT.amplitudes.length = dT.spikes.length) (haC : dC.amplitudes.length = dC.spikes.length)
    (hsT : ∀ s ∈ dT.spikes, s < dT.wfsW.length) (hsC : ∀ s ∈ dC.spikes, s < dC.wfsW.length) :
    (∀ i, i < dT.spikes.length →
      (exportAmpFiles dT dC f indsT indsC).spikesAmps.getD i 0 =
        dT.amplitudes.getD i 0 * listMax (chAmps (matMul (dT.wfsW.getD (dT.spikes.getD i 0) []) dT.wmi)) * f) ∧
    (∀ t, t < dT.wfsW.length →
      (exportAmpFiles dT dC f indsT indsC).templatesAmps.getD t none =
        (meanOver dT.spikes dT.amplitudes t).map
          (· * (listMax (chAmps (matMul (dT.wfsW.getD t []) dT.wmi)) * f)) ∧
      ((exportAmpFiles dT dC f indsT indsC).templatesAmps.getD t none = none ↔ t ∉ dT.spikes)) ∧
    (∀ c, c < dC.wfsW.length →
      (exportAmpFiles dT dC f indsT indsC).clustersAmps.getD c none =
        (meanOver dC.spikes dC.amplitudes c).map
          (· * (listMax (chAmps (matMul (dC.wfsW.getD c []) dC.wmi)) * f)) ∧
      ((exportAmpFiles dT dC f indsT indsC).clustersAmps.getD c none = none ↔ c ∉ dC.spikes)) ∧
    (exportAmpFiles dT dC f indsT indsC).spikesAmps.length = dT.spikes.length ∧
    (exportAmpFiles dT dC f indsT indsC).templatesAmps.length = dT.wfsW.length ∧
    (exportAmpFiles dT dC f indsT indsC).clustersAmps.length = dC.wfsW.length :=
  Lemmas.amp_files_entries dT dC f indsT indsC haT haC hsT hsC

/-- What the driver evaluates is the export model, BY `rfl`: the op `amp_files` runs `exportAmpFilesOnce`
(`templates_amps_au` and the unwhitened waveforms `let`-bound once, in the order of model.py:1139-1146; needed for
recordings of tens of thousands of spikes), which unfolds to `exportAmpFiles` definitionally.  This is bookkeeping about
the two Lean definitions (no content about the real code): it only transfers the theorems about `exportAmpFiles` to
the values the driver prints. -/
theorem amp_files_once_eq (dT dC : Data) (f : Rat) (indsT indsC : List (List Nat)) :
    exportAmpFilesOnce dT dC f indsT indsC = exportAmpFiles dT dC f indsT indsC :=
  exportAmpFilesOnce_eq dT dC f indsT indsC

/-- Complement (homogeneity, also for the two WAVEFORM files): every file written with `ampfactor = f` is, entry by
entry, the file written with `ampfactor = 1` times `f` (NaN stays NaN).  By itself this only restates the last step of
`amplitudesTrue`; the content of the amplitude files is `amp_files_entries` above, that of the waveform files
`exported_waveform_rescaled` below.  No hypothesis: any data, any factor, any listed-channel tables. -/
theorem amps_carry_factor (dT dC : Data) (f : Rat) (indsT indsC : List (List Nat)) :
    let e := exportAmpFiles dT dC f indsT indsC
    let e1 := exportAmpFiles dT dC 1 indsT indsC
    e.spikesAmps = e1.spikesAmps.map (· * f) ∧
    e.templatesAmps = e1.templatesAmps.map (fun o => o.map (· * f)) ∧
    e.clustersAmps = e1.clustersAmps.map (fun o => o.map (· * f)) ∧
    e.templatesWaveforms = e1.templatesWaveforms.map (fun o => o.map fun W => scaleMat W f) ∧
    e.clustersWaveforms = e1.clustersWaveforms.map (fun o => o.map fun W => scaleMat W f) :=
  Lemmas.amps_carry_factor dT dC f indsT indsC

/-- `spikes.amps[i]` = stored amplitude × largest channel peak-to-peak of the spike's unwhitened template × unit
factor (C09 `spikeAmpUnit_eq`; hypotheses as there: the real export raises `IndexError` for a spike whose template id
is not below the number of templates). -/
theorem spike_amps_eq (dT dC : Data) (f : Rat) (indsT indsC : List (List Nat)) (i : Nat)
    (hi : i < dT.spikes.length) (ha : dT.amplitudes.length = dT.spikes.length)
    (hs : dT.spikes.getD i 0 < dT.wfsW.length) :
    (exportAmpFiles dT dC f indsT indsC).spikesAmps.getD i 0 =
      dT.amplitudes.getD i 0 *
        listMax (chAmps (matMul (dT.wfsW.getD (dT.spikes.getD i 0) []) dT.wmi)) * f :=
  Lemmas.spike_amps_eq dT dC f indsT indsC i hi ha hs

/-- `templates.amps[t]` / `clusters.amps[c]` = mean of the exported (unit-carrying) spike amplitudes over the member
spikes of the template / cluster, NaN for ids without spikes; for clusters the spike amplitudes are those computed
with the cluster waveforms (`use='clusters'`), which the export does not write.  `hsT`, `hsC`: every spike id is below
the number of waveforms (the real call raises `IndexError` otherwise, as for `amp_files_entries`; not used by the proof). -/
theorem template_cluster_amps_eq_mean (dT dC : Data) (f : Rat) (indsT indsC : List (List Nat))
    (haT : dT.amplitudes.length = dT.spikes.length) (haC : dC.amplitudes.length = dC.spikes.length)
    (hsT : ∀ s ∈ dT.spikes, s < dT.wfsW.length) (hsC : ∀ s ∈ dC.spikes, s < dC.wfsW.length) :
    (∀ t, t < dT.wfsW.length →
      (exportAmpFiles dT dC f indsT indsC).templatesAmps.getD t none =
        meanOver dT.spikes (exportAmpFiles dT dC f indsT indsC).spikesAmps t) ∧
    (∀ c, c < dC.wfsW.length →
      (exportAmpFiles dT dC f indsT indsC).clustersAmps.getD c none =
        meanOver dC.spikes (spikeAmpsUnit dC f) c) ∧
    (exportAmpFiles dT dC f indsT indsC).templatesAmps.length = dT.wfsW.length ∧
    (exportAmpFiles dT dC f indsT indsC).clustersAmps.length = dC.wfsW.length :=
  Lemmas.template_cluster_amps_eq_mean dT dC f indsT indsC haT haC hsT hsC

set_option linter.unusedVariables false in
/-- Exported waveforms ARE the unwhitened, amplitude-rescaled (unit-carrying) waveforms on the listed channels: for
an id `t` with spikes (returned amplitude `v`), non-flat, rectangular `(ns, nc)`, amplitudes and factor ≥ 0, the
exported block `E` has `ns` rows and `E[s][j] = U[s][inds[t][j]] · v / au` with `U` the unwhitened waveform and `au`
its arbitrary-unit amplitude — and the full returned waveform `W` has `v` as its peak amplitude.  `hin`: every listed
channel is a channel of the waveform (the real gather raises `IndexError` otherwise; `nearest_ok` shows the export's own
rows satisfy it), so no entry on the right is a `getD` default. -/
theorem exported_waveform_rescaled (d : Data) (f : Rat) (inds : List (List Nat))
    (hnn : ∀ a ∈ d.amplitudes, 0 ≤ a) (hf : 0 ≤ f) (t : Nat) (ht : t < d.wfsW.length)
    (hti : t < inds.length) (v : Rat) (hv : (ampsVUnit d f).getD t none = some v)
    (hau : 0 < (ampsAu d).getD t 0) (ns nc : Nat) (hns : 0 < ns) (hnc : 0 < nc)
    (hrect : Rect ((unwhitened d).getD t []) ns nc) (hin : ∀ c ∈ inds.getD t [], c < nc) :
    ∃ W E, (rescaledUnit d f).getD t none = some W ∧ IsPeakAmp W nc v ∧
      (exportWaveformsOpt (rescaledUnit d f) inds).getD t none = some E ∧ E.length = ns ∧
      ∀ s j, s < ns → j < (inds.getD t []).length →
        entry E s j = entry ((unwhitened d).getD t []) s ((inds.getD t []).getD j 0) *
          (v / (ampsAu d).getD t 0) :=
  Lemmas.exported_waveform_rescaled d f inds hnn hf t ht hti v hv hau ns nc hns hnc hrect

/-- … and the block of an id WITHOUT spikes (NaN amplitude) is NaN. -/
theorem exported_waveform_nan (d : Data) (f : Rat) (inds : List (List Nat)) (t : Nat) (ht : t < d.wfsW.length)
    (hv : (ampsVUnit d f).getD t none = none) :
    (exportWaveformsOpt (rescaledUnit d f) inds).getD t none = none :=
  Lemmas.exported_waveform_nan d f inds t ht hv

set_option linter.unusedVariables false in
/-- "or the cluster depth when no features exist": whenever `get_depths()` gives nothing — no feature file, or
features stored for a SUBSET of the spikes (`pc_feature_spike_ids.npy`, model.py:1106) — a spike's depth is the depth
(y) of its cluster's peak channel, and it is NEVER NaN (the spike's own cluster has a spike); one entry per spike.
Hypotheses = the domain of the two BATCH gathers of `make_depths`, for ALL entries (one out-of-range entry anywhere
raises `IndexError` and nothing is written): `hp` every cluster's peak channel is a channel (alf.py:228), `hsc` every
spike's cluster id is below the number of clusters (alf.py:238).  Outside `hsc` the model's `getD` would give NaN
(`exportSpikeDepths none [10,20] [1,0] [0,9] [0,9] = [some 20, none]`): excluded here, the real export raises there. -/
theorem spike_depth_eq (fe : Option Feats) (ys : List Rat) (peaks st sc : List Nat)
    (hno : ∀ f, fe = some f → f.feat0.length ≠ st.length)
    (hp : ∀ c, c < peaks.length → peaks.getD c 0 < ys.length) (hsc : ∀ s ∈ sc, s < peaks.length)
    (i : Nat) (hi : i < sc.length) :
    (exportSpikeDepths fe ys peaks st sc).getD i none = some (ys.getD (peaks.getD (sc.getD i 0) 0) 0) ∧
    (exportSpikeDepths fe ys peaks st sc).length = sc.length :=
  ⟨Lemmas.export_spike_depth_eq fe ys peaks st sc ((Lemmas.getDepths_none_iff fe ys st).2 hno) i hi
    (hsc _ (Lemmas.getD_mem_self sc i hi)),
   Lemmas.exportSpikeDepths_length_fallback fe ys peaks st sc ((Lemmas.getDepths_none_iff fe ys st).2 hno)⟩

set_option linter.unusedVariables false in
/-- "spike depths are feature-weighted channel depths", as explicit finite sums: with a feature row for every spike,
`nloc` local channels per spike / template, the exported depth of spike `i` is
`Σ_{k<nloc} y_k · w_k / Σ_{k<nloc} w_k` with `w_k = max(features[i, k, 0], 0)²` and `y_k` the depth (y) of channel
`cols[spike_templates[i], k]` — NaN when no weight is positive; one entry per spike (composition of the export with
C09 `depth_direct`).  Hypotheses = the domain of the BATCH gathers of `get_depths` (model.py:1129-1134), for EVERY
spike, not only spike `i` (one spike whose template has no feature-channel row raises `IndexError` for the whole batch:
features `[[1,1],[1,1]]`, `cols = [[0,1]]`, `spike_templates = [0, 4]` — nothing is returned, while the model's `getD`
gives `[some 15, some 0]`): `hf` the feature array is `(n_spikes, nloc)`, `hst` every spike's template has a row of
feature channels, `hc` that row has `nloc` entries (broadcast `ValueError` otherwise), `hb` all of them are channels.
Under them no read on the right is a default and no sum is truncated.  The proof needs them at `i` only. -/
theorem spike_depth_features_eq (f : Feats) (ys : List Rat) (peaks st sc : List Nat) (nloc : Nat)
    (hl : f.feat0.length = st.length)
    (hf : ∀ i, i < st.length → (f.feat0.getD i []).length = nloc)
    (hst : ∀ i, i < st.length → st.getD i 0 < f.cols.length)
    (hc : ∀ i, i < st.length → (f.cols.getD (st.getD i 0) []).length = nloc)
    (hb : ∀ i, i < st.length → ∀ c ∈ f.cols.getD (st.getD i 0) [], c < ys.length)
    (i : Nat) (hi : i < st.length) :
    (exportSpikeDepths (some f) ys peaks st sc).getD i none =
      (let w := fun k => max ((f.feat0.getD i []).getD k 0) 0 * max ((f.feat0.getD i []).getD k 0) 0
       let y := fun k => ys.getD ((f.cols.getD (st.getD i 0) []).getD k 0) 0
       if sumTo nloc w = 0 then none else some (sumTo nloc (fun k => y k * w k) / sumTo nloc w)) ∧
    (exportSpikeDepths (some f) ys peaks st sc).length = st.length :=
  Lemmas.spike_depth_features_eq f ys peaks st sc nloc hl hf hst hc hb i hi

-- `hr`: the domain (a sampling rate); the equation does not need it
set_option linter.unusedVariables false in
/-- `clusters.peakToTrough[c]` in MILLISECONDS: `(iM − im) · 1000 / rate` for THE peak channel `p` of the cluster
waveform and THE first arg-max `iM` / arg-min `im` along time on it (direct formula of C09 `duration_ms_spec`; objects
exist by C09 `duration_objects_exist`); one entry per cluster.  NaN exactly for the ids without spikes of a CURATED
dataset (`model.nan_idx`, the C08 model, composed through C08 `nanIdx_spec`; their cluster waveform is all zero).  When
nothing was curated every template — also one without spikes — has the duration of its own waveform: the statement
attaches its NaN clause to depths, and upstream `test_alf.py::test_creator` pins a number there.  `hn`: a curated
dataset has one cluster per id up to the highest (C13 `cluster_count_rule`). -/
theorem peakToTrough_eq (wfs : List Mat) (rate : Rat) (hr : 0 < rate) (st sc : List Nat)
    (hlen : st.length = sc.length) (hn : sc ≠ st → wfs.length = sc.foldl max 0 + 1) (ns nc : Nat)
    (hns : 0 < ns) (hnc : 0 < nc) (hrect : ∀ W ∈ wfs, Rect W ns nc) (c : Nat) (hc : c < wfs.length)
    (p iM im : Nat) (hp : IsPeakChannel (wfs.getD c []) nc p) (hM : IsFirstMax (chan (wfs.getD c []) p) iM)
    (hm : IsFirstMin (chan (wfs.getD c []) p) im) :
    (exportDurations wfs rate st sc).getD c none =
      (if sc ≠ st ∧ c ∉ sc then none else some ((((iM : Int) - (im : Int) : Int) : Rat) * 1000 / rate)) ∧
    (exportDurations wfs rate st sc).length = wfs.length :=
  ⟨Lemmas.durations_eq wfs rate st sc hlen hn ns nc hns hnc hrect c hc p iM im hp hM hm,
   Lemmas.exportDurations_length wfs rate st sc⟩

/-- "Peak channel FIRST", literally: when no other channel sits at the peak channel's position (the loader replaces
non-distinct positions, model.py:390-393, so every exported dataset satisfies this) and at least one channel is
listed, EVERY row the acceptance predicate `nearestOK` admits — in particular the real export's row, whatever the
tie-breaking of its unstable `argsort` — starts with the peak channel itself.  With two co-located channels the clause
is not determined: positions `[(0,0),(0,0)]`, peak 1 admits the row `[0, 1]`. -/
theorem nearestOK_peak_first (pos : List (Rat × Rat)) (probes : List Nat) (peak ncw : Nat) (row : List Nat)
    (hp : peak < pos.length) (hn : 0 < ncw)
    (hd : ∀ c, c < pos.length → c ≠ peak → pos.getD c (0, 0) ≠ pos.getD peak (0, 0))
    (h : nearestOK pos probes peak ncw row = true) : row.head? = some peak :=
  Lemmas.nearestOK_peak_first pos probes peak ncw row hp hn hd h

/-- … and so does the model's row. -/
theorem nearest_peak_first (pos : List (Rat × Rat)) (probes : List Nat) (peak ncw : Nat)
    (hp : peak < pos.length) (hn : 0 < ncw)
    (hd : ∀ c, c < pos.length → c ≠ peak → pos.getD c (0, 0) ≠ pos.getD peak (0, 0)) :
    (nearestSameProbe pos probes peak ncw).head? = some peak :=
  Lemmas.nearest_peak_first pos probes peak ncw hp hn hd

/-! Non-vacuity -/
example : (nearestSameProbe [(0, 0), (0, 20), (10, 10), (0, 40), (5, 5)] [0, 0, 1, 0, 1] 1 4).head? = some 1 :=
  nearest_peak_first _ _ 1 4 (by decide) (by decide) (by decide +kernel)
example : nearestOK [(0, 0), (0, 0)] [0, 0] 1 2 [0, 1] = true := by decide +kernel   -- co-located: not determined
-- the audit's whitened template: peak channel 0 on the stored waveform, listed channels [0, 1]
example : nearestSameProbe [(0, 0), (0, 20)] [0, 0] ((peakChannels [[[2, 1], [-2, -1], [0, 0]]]).getD 0 0) 2 = [0, 1] := by
  decide +kernel
example : IsPeakChannel ([[[2, 1], [-2, -1], [0, 0]]].getD 0 []) 2 ((peakChannels [[[2, 1], [-2, -1], [0, 0]]]).getD 0 0) :=
  (listed_channels_of_waveform [[[2, 1], [-2, -1], [0, 0]]] [(0, 0), (0, 20)] [0, 0] 2 0 3 2 (by decide)
    ⟨by decide, by decide⟩ (by decide) (by decide) (by decide) (by decide)).1
-- the exported table for two waveforms on a two-probe layout: one row per waveform, each on its peak's probe first
example : exportListedChannels [[[2, 1, 0], [-2, -1, 0]], [[0, 1, 5], [0, 0, -5]]] [(0, 0), (0, 20), (10, 10)] [0, 0, 1] 2 =
    [[0, 1], [2, 0]] := by decide +kernel
section Instances
def exT : Data := ⟨[[[1, 0], [-1, 2]], [[0, 3], [0, -3]], [[5, 5], [1, 1]]], [[2, 0], [0, 1/2]], [1, 2, 1/2], [0, 0, 1]⟩
def exC : Data := ⟨[[[1, 0], [-1, 2]], [[0, 3], [0, -3]]], [[2, 0], [0, 1/2]], [1, 2, 1/2], [1, 0, 1]⟩

/-- the five files for factor 5/2 (template 2 has no spikes: NaN amplitude, NaN waveform; channels listed in reverse
order for template 1) -/
example : exportAmpFiles exT exC (5/2) [[0, 1], [1, 0], [0, 1]] [[1], [1]] =
    { spikesAmps := [10, 20, 15/4], templatesAmps := [some 15, some (15/4), none],
      templatesWaveforms := [some [[15/2, 0], [-15/2, 15/4]], some [[15/8, 0], [-15/8, 0]], none],
      clustersAmps := [some 20, some (45/8)], clustersWaveforms := [some [[0], [5]], some [[45/16], [-45/16]]] } := by
  decide +kernel
-- the driver's evaluation order gives the same five files (computed independently here, then `amp_files_once_eq`)
example : (exportAmpFilesOnce exT exC (5/2) [[0, 1], [1, 0], [0, 1]] [[1], [1]]).templatesAmps = [some 15, some (15/4), none] := by
  decide +kernel
example : exportAmpFilesOnce exT exC (5/2) [[0, 1], [1, 0], [0, 1]] [[1], [1]] =
    exportAmpFiles exT exC (5/2) [[0, 1], [1, 0], [0, 1]] [[1], [1]] := amp_files_once_eq _ _ _ _ _
example : (exportAmpFiles exT exC (5/2) [] []).spikesAmps = (exportAmpFiles exT exC 1 [] []).spikesAmps.map (· * (5/2)) :=
  (amps_carry_factor exT exC (5/2) [] []).1
example : (exportAmpFiles exT exC (5/2) [] []).spikesAmps.getD 1 0 = 2 * 4 * (5/2) := by
  have h := spike_amps_eq exT exC (5/2) [] [] 1 (by decide) (by decide) (by decide)
  rwa [show listMax (chAmps (matMul (exT.wfsW.getD (exT.spikes.getD 1 0) []) exT.wmi)) = 4 by decide +kernel,
    show exT.amplitudes.getD 1 0 = 2 by decide +kernel] at h
-- templates.amps[0]: spikes 0 and 1 (stored amplitudes 1 and 2, mean 3/2), unwhitened peak-to-peak 4, factor 5/2;
-- template 2 has no spike: NaN
example : (exportAmpFiles exT exC (5/2) [] []).templatesAmps.getD 0 none = some (3/2 * (4 * (5/2))) := by
  rw [((amp_files_entries exT exC (5/2) [] [] (by decide) (by decide) (by decide) (by decide)).2.1 0 (by decide)).1]; decide +kernel
example : (exportAmpFiles exT exC (5/2) [] []).templatesAmps.getD 2 none = none :=
  ((amp_files_entries exT exC (5/2) [] [] (by decide) (by decide) (by decide) (by decide)).2.1 2 (by decide)).2.2 (by decide)
example : (exportAmpFiles exT exC (5/2) [] []).clustersAmps.getD 1 none =
    (meanOver exC.spikes exC.amplitudes 1).map (· * (listMax (chAmps (matMul (exC.wfsW.getD 1 []) exC.wmi)) * (5/2))) :=
  ((amp_files_entries exT exC (5/2) [] [] (by decide) (by decide) (by decide) (by decide)).2.2.1 1 (by decide)).1
example : (exportAmpFiles exT exC (5/2) [] []).clustersAmps.getD 1 none = meanOver exC.spikes (spikeAmpsUnit exC (5/2)) 1 :=
  (template_cluster_amps_eq_mean exT exC (5/2) [] [] (by decide) (by decide) (by decide) (by decide)).2.1 1 (by decide)
example : ∃ W E, (rescaledUnit exT (5/2)).getD 1 none = some W ∧ IsPeakAmp W 2 (15/4) ∧
    (exportWaveformsOpt (rescaledUnit exT (5/2)) [[0, 1], [1, 0], [0, 1]]).getD 1 none = some E ∧ E.length = 2 ∧
    ∀ s j, s < 2 → j < ([[0, 1], [1, 0], [0, 1]].getD 1 []).length →
      entry E s j = entry ((unwhitened exT).getD 1 []) s (([[0, 1], [1, 0], [0, 1]].getD 1 []).getD j 0) *
        (15/4 / (ampsAu exT).getD 1 0) :=
  exported_waveform_rescaled exT (5/2) [[0, 1], [1, 0], [0, 1]] (by decide +kernel) (by decide +kernel) 1 (by decide)
    (by decide) (15/4) (by decide +kernel) (by decide +kernel) 2 2 (by decide) (by decide) (by decide +kernel) (by decide)
example : (exportWaveformsOpt (rescaledUnit exT (5/2)) [[0, 1], [1, 0], [0, 1]]).getD 2 none = none :=
  exported_waveform_nan exT (5/2) _ 2 (by decide) (by decide +kernel)
-- an UN-CURATED assignment whose template 1 has no spike: id 1 is blanked (before the repair it was not)
example : spikelessIds 3 [0, 2, 2, 0] = [1] := by decide
example : exportClusterDepths [10, 20, 40] [2, 0, 1] [0, 2, 2, 0] = [some 40, none, some 20] := by decide +kernel
example : (exportClusterDepths [10, 20, 40] [2, 0, 1] [0, 2, 2, 0]).getD 1 none = none := by
  rw [(cluster_depth_eq [10, 20, 40] [2, 0, 1] [0, 2, 2, 0] (by decide) (by decide) 1 (by decide)).1]; decide
example : spikelessIds ([4, 0, 4, 2, 2, 4].foldl max 0 + 1) [4, 0, 4, 2, 2, 4] = [1, 3] := by
  rw [blanked_ids_eq_nanIdx [0, 0, 1, 2, 2, 1] [4, 0, 4, 2, 2, 4] (by decide) (by decide) (by decide)]; decide
-- outside `hcur` the two lists differ: nothing curated, template 1 without spikes
example : spikelessIds ([0, 2, 2, 0].foldl max 0 + 1) [0, 2, 2, 0] = [1] ∧ modelNanIdx [0, 2, 2, 0] [0, 2, 2, 0] = [] := by decide
-- no features / features for 2 of 4 spikes: the cluster depth, never NaN
example : exportSpikeDepths none [10, 20, 40] [2, 0, 1] [0, 2, 2, 0] [0, 2, 2, 0] =
    [some 40, some 20, some 20, some 40] := by decide +kernel
example : exportSpikeDepths (some ⟨[[1, 2], [0, 1]], [[0, 1], [0, 1], [0, 1]]⟩) [10, 20, 40] [2, 0, 1] [0, 2, 2, 0]
    [0, 2, 2, 0] = [some 40, some 20, some 20, some 40] := by decide +kernel
example : (exportSpikeDepths (some ⟨[[1, 2], [0, 1]], [[0, 1], [0, 1], [0, 1]]⟩) [10, 20, 40] [2, 0, 1] [0, 2, 2, 0]
    [0, 2, 2, 0]).getD 1 none = some 20 := by
  rw [(spike_depth_eq (some ⟨[[1, 2], [0, 1]], [[0, 1], [0, 1], [0, 1]]⟩) [10, 20, 40] [2, 0, 1] [0, 2, 2, 0]
    [0, 2, 2, 0] (by intro f hf; cases hf; decide) (by decide) (by decide) 1 (by decide)).1]; decide +kernel
-- features for every spike: the feature-weighted depths (spike 1: weights 0 and 1 -> depth of channel 1; spike 2: no
-- positive weight -> NaN)
example : exportSpikeDepths (some ⟨[[1, 1], [-1, 1], [-1, 0]], [[0, 1], [0, 1], [1, 2]]⟩) [10, 20, 40] [2, 0, 1] [0, 2, 1]
    [0, 2, 1] = [some 15, some 40, none] := by decide +kernel
example : (exportSpikeDepths (some ⟨[[1, 1], [-1, 1], [-1, 0]], [[0, 1], [0, 1], [1, 2]]⟩) [10, 20, 40] [2, 0, 1] [0, 2, 1]
    [0, 2, 1]).getD 1 none = some 40 := by
  rw [(spike_depth_features_eq ⟨[[1, 1], [-1, 1], [-1, 0]], [[0, 1], [0, 1], [1, 2]]⟩ [10, 20, 40] [2, 0, 1] [0, 2, 1]
    [0, 2, 1] 2 (by decide) (by decide) (by decide) (by decide) (by decide) 1 (by decide)).1]
  decide +kernel
-- curated (ids 0..2, id 1 without spikes): NaN; nothing curated (template 2 without spikes): the template's own duration
example : exportDurations [[[1, 0, 4], [-1, 2, 0], [3, 1, 2]], [[0, 0, 0], [0, 0, 0], [0, 0, 0]],
    [[0, 0, 1], [0, 5, 0], [0, -1, 0]]] 30000 [0, 0, 1] [0, 2, 2] = [some (1/30), none, some (-1/30)] := by
  have h : modelNanIdx [0, 0, 1] [0, 2, 2] = [1] := by decide
  unfold exportDurations; rw [h]; decide +kernel
example : exportDurations [[[1, 0, 4], [-1, 2, 0], [3, 1, 2]], [[0, 0, 1], [0, 5, 0], [0, -1, 0]],
    [[0, 1, 0], [0, 0, 0], [0, -1, 0]]] 30000 [0, 1, 1] [0, 1, 1] = [some (1/30), some (-1/30), some (-1/15)] := by
  have h : modelNanIdx [0, 1, 1] [0, 1, 1] = [] := by decide
  unfold exportDurations; rw [h]; decide +kernel
example : (exportDurations [[[1, 0, 4], [-1, 2, 0], [3, 1, 2]]] 30000 [0, 0] [0, 0]).getD 0 none =
    some (((((2 : Nat) : Int) - ((1 : Nat) : Int) : Int) : Rat) * 1000 / 30000) := by
  have hp : IsPeakChannel ([[[1, 0, 4], [-1, 2, 0], [3, 1, 2]]].getD 0 []) 3 0 := by
    have h := (C09.Lemmas.peakChannels_spec [[[1, 0, 4], [-1, 2, 0], [3, 1, 2]]] 0 3 3 (by decide) ⟨by decide, by decide⟩
      (by decide) (by decide)).1
    rwa [show (peakChannels [[[1, 0, 4], [-1, 2, 0], [3, 1, 2]]]).getD 0 0 = 0 by decide +kernel] at h
  have hM : IsFirstMax (chan ([[[1, 0, 4], [-1, 2, 0], [3, 1, 2]]].getD 0 []) 0) 2 := by unfold IsFirstMax; decide +kernel
  have hm : IsFirstMin (chan ([[[1, 0, 4], [-1, 2, 0], [3, 1, 2]]].getD 0 []) 0) 1 := by unfold IsFirstMin; decide +kernel
  rw [(peakToTrough_eq _ 30000 (by decide +kernel) [0, 0] [0, 0] (by decide) (by decide) 3 3 (by decide) (by decide)
    (by decide) 0 (by decide) 0 2 1 hp hM hm).1]
  decide +kernel
end Instances

-- a SINGLE dataset whose probe labels are not in channel-map order: negative raw indices (open finding, see
-- known_findings.json) — the converse of `rawInd_nonneg_of_ordered` on the audit's table; in channel-map order:
-- per-probe indices, none negative
example : probesOrdered [0, 1, 2, 3] [1, 1, 0, 0] = false ∧ exportRawInd [0, 1, 2, 3] [1, 1, 0, 0] = [-4, -3, 2, 3] := by decide
example : ¬ ∀ x ∈ exportRawInd [0, 1, 2, 3] [1, 1, 0, 0], 0 ≤ x :=
  fun h => absurd ((rawInd_nonneg_iff_ordered [0, 1, 2, 3] [1, 1, 0, 0] rfl).1 h) (by decide)
example : probesOrdered [3, 0, 5, 4] [0, 0, 1, 1] = true ∧ exportRawInd [3, 0, 5, 4] [0, 0, 1, 1] = [3, 0, 1, 0] := by decide
example : ∀ x ∈ exportRawInd [3, 0, 5, 4] [0, 0, 1, 1], 0 ≤ x :=
  rawInd_nonneg_of_ordered [3, 0, 5, 4] [0, 0, 1, 1] rfl (by decide)
-- two channels of DIFFERENT probes with the same raw index: not ordered (strict), and indeed -1
example : probesOrdered [0, 0] [0, 1] = false ∧ exportRawInd [0, 0] [0, 1] = [0, -1] := by decide
-- labels 5 < 7 < 9 (not 0-based, interleaved, out of map order): entry = raw − (largest raw of the previous label + 1)
example : perProbeRawInd [10, 3, 7, 0, 12, 5] [7, 5, 9, 5, 7, 9] = [10 - 4, 3, 7 - 13, 0, 12 - 4, 5 - 13] := by decide
example : exportRawInd [10, 3, 7, 0, 12, 5] [7, 5, 9, 5, 7, 9] = [6, 3, -6, 0, 8, -8] := by
  rw [rawInd_per_probe [10, 3, 7, 0, 12, 5] [7, 5, 9, 5, 7, 9] rfl]; decide
example : probeMaxRaw [10, 3, 7, 0, 12, 5] [7, 5, 9, 5, 7, 9] 7 = 12 ∧
    ∃ j, j < 6 ∧ [7, 5, 9, 5, 7, 9].getD j 0 = 7 ∧ [10, 3, 7, 0, 12, 5].getD j 0 = 12 := ⟨by decide, 4, by decide⟩
example : probesOrdered (mergeChannelMaps [[2, 0, 3, 1], [1, 0], [0, 2, 1]]) (channelProbes [[2, 0, 3, 1], [1, 0], [0, 2, 1]]) = true :=
  (merged_probes_ordered [[2, 0, 3, 1], [1, 0], [0, 2, 1]] (by decide)).1
-- waveform gather inside its domain
example : (((exportWaveforms [[[1, 2, 3], [4, 5, 6]]] [[2, 0]]).getD 0 []).getD 1 []).getD 0 0 = 6 := by
  rw [waveforms_eq [[[1, 2, 3], [4, 5, 6]]] [[2, 0]] 0 1 0 (by decide) (by decide) (by decide) (by decide)]; decide
example : nearestOK [(0, 0), (0, 20), (10, 10)] [0, 0, 1] 1 2 (nearestSameProbe [(0, 0), (0, 20), (10, 10)] [0, 0, 1] 1 2) = true :=
  nearest_ok _ _ 1 2 (by decide) (by decide)
example : exportRawInd (mergeChannelMaps [[2, 0, 3, 1], [1, 0], [0, 2, 1]]) (channelProbes [[2, 0, 3, 1], [1, 0], [0, 2, 1]])
    = [2, 0, 3, 1, 1, 0, 0, 2, 1] := by decide
example : nearestSameProbe [(0, 0), (0, 20), (10, 10), (0, 40), (5, 5)] [0, 0, 1, 0, 1] 1 4 = [1, 0, 3, 2] := by
  decide +kernel
example : nearestOK [(0, 0), (0, 20), (10, 10), (0, 40), (5, 5)] [0, 0, 1, 0, 1] 1 4 [1, 3, 0, 4] = true := by
  decide +kernel     -- equal distances: either order is accepted; the other-probe tail is free

end PhyVerif.C14
