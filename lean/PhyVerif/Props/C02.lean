import PhyVerif.Model.C02
import PhyVerif.Spec.C01
import PhyVerif.Lemmas.C02
/-!
# C02 — lazy reader expressions commute with eager evaluation; deriving never aliases
Only property theorems + non-vacuity examples; proofs in `Lemmas/C02.lean`.
-/
namespace PhyVerif.C02
open PhyVerif PhyVerif.C01

/-- Indexing a reader that carries any list of deferred operations (any element-wise functions,
any channel selections, in any order) equals applying the same operations to the fully loaded
concatenated array and then indexing it — for every layout and every in-domain row index.
Parametric in what each operator computes, hence independent of dtype, promotion and rounding. -/
theorem eval_eq_eager {β : Type} (h : Heap β) (parts : List (List (List β))) (r : Nat) (it : Item)
    (hd : InDom parts.flatten.length it) :
    eval h parts r it = npRows (applyOps (h.getD r []) parts.flatten) it :=
  Lemmas.eval_eq_eager h parts r it hd

/-- same with a trailing channel selector `reader[item, cols]` -/
theorem evalCols_eq_eager {β : Type} (h : Heap β) (parts : List (List (List β))) (r : Nat)
    (it : Item) (c : ColSel) (hr : r < h.length) (hd : InDom parts.flatten.length it) :
    evalCols h parts r it c =
      npRows (applyOps (h.getD r [] ++ [.cols c]) parts.flatten) it :=
  Lemmas.evalCols_eq_eager h parts r it c hr hd

/-- deferred operations commute with row selection (the core algebraic fact) -/
theorem applyOps_commutes_rows {β : Type} (ops : List (Op β)) (A : List (List β)) (it : Item) :
    (npRows A it).map (applyOps ops) = npRows (applyOps ops A) it :=
  Lemmas.applyOps_commutes_rows ops A it

/-- Deriving is closed and gives the clone exactly the parent's operations plus the new one … -/
theorem derive_ops {β : Type} (h : Heap β) (r : Nat) (op : Op β) (hr : r < h.length) :
    (derive h r op).1.getD (derive h r op).2 [] = h.getD r [] ++ [op] :=
  Lemmas.derive_ops h r op hr

/-- … and never changes the operations (hence the value of any evaluation) of the reader it was
derived from or of any other existing reader. -/
theorem derive_preserves_others {β : Type} (h : Heap β) (r : Nat) (op : Op β) (r' : Nat)
    (hr' : r' < h.length) :
    (derive h r op).1.getD r' [] = h.getD r' [] :=
  Lemmas.derive_preserves_others h r op r' hr'

/-- Any derivation history (parents, children, siblings, grandchildren, in any order) leaves
every previously existing reader untouched. -/
theorem derivations_preserve {β : Type} (h : Heap β) (ds : List (Nat × Op β)) (r' : Nat)
    (hr' : r' < h.length) :
    (runDerivations h ds).getD r' [] = h.getD r' [] :=
  Lemmas.derivations_preserve h ds r' hr'

/-! Non-vacuity: cells are (id, trace of applied operator tokens) -/
example :
    let parts : List (List (List (Nat × List Nat))) := [[[(0, []), (1, [])]], [[(2, []), (3, [])], [(4, []), (5, [])]]]
    let tag (t : Nat) : Op (Nat × List Nat) := .elem fun c => (c.1, c.2 ++ [t])
    let h0 : Heap (Nat × List Nat) := [[]]
    let d1 := derive h0 0 (tag 7)              -- child = parent op 7
    let d2 := derive d1.1 d1.2 (.cols (.idx [1, 0]))
    let d3 := derive d2.1 0 (tag 9)            -- sibling of d1 derived later from the parent
    eval d3.1 parts d2.2 (.slice (some 1) none) = some [[(3, [7]), (2, [7])], [(5, [7]), (4, [7])]] ∧
    eval d3.1 parts 0 (.int 0) = some [[(0, []), (1, [])]] ∧
    eval d3.1 parts d3.2 (.int (-1)) = some [[(4, [9]), (5, [9])]] := by decide

end PhyVerif.C02
