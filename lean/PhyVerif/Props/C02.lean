import PhyVerif.Model.C02
import PhyVerif.Spec.C01
import PhyVerif.Lemmas.C02
import PhyVerif.Lemmas.C02b
import PhyVerif.Lemmas.C02c
/-!
# C02 — lazy reader expressions commute with eager evaluation; deriving never aliases
Only property theorems + non-vacuity examples; proofs in `Lemmas/C02.lean`.
-/
namespace PhyVerif.C02
open PhyVerif PhyVerif.C01

/-! Reachability. A reader of the real code always HAS an `_ops` list (`__init__`, traces.py:187-188; `_append_op`
gives every clone its own, traces.py:240-245): it is an address `r < h.length` of the heap it was derived in. Every
theorem below whose conclusion speaks of the operations of a reader is stated for such an address and reads them as
`h[r]` — never through `List.getD … []`, whose default would answer a dangling address with "no operations" (an
object the real code cannot produce). Where the conclusion does not depend on it (the SOURCE of a derivation in
`derive_preserves_others` / `derivations_preserve`: existing readers are untouched whatever is derived, from
whatever address) the hypothesis is not stated; the histories of the real code satisfy it anyway. -/

/-- Indexing a reader that carries any list of deferred operations (any element-wise functions,
any channel selections, in any order) equals applying the same operations to the fully loaded
concatenated array and then indexing it — for every layout and every in-domain row index.
Parametric in what each operator computes, hence independent of dtype, promotion and rounding. -/
theorem eval_eq_eager {β : Type} (h : Heap β) (parts : List (List (List β))) (r : Nat) (it : Item)
    (hr : r < h.length) (hd : InDom parts.flatten.length it) :
    eval h parts r it = npRows (applyOps h[r] parts.flatten) it :=
  Lemmas.eval_eq_eager_at h parts r it hr hd

/-- same with a trailing channel selector `reader[item, cols]` -/
theorem evalCols_eq_eager {β : Type} (h : Heap β) (parts : List (List (List β))) (r : Nat)
    (it : Item) (c : ColSel) (hr : r < h.length) (hd : InDom parts.flatten.length it) :
    evalCols h parts r it c = npRows (applyOps (h[r] ++ [.cols c]) parts.flatten) it :=
  Lemmas.evalCols_eq_eager_at h parts r it c hr hd

/-- deferred operations commute with row selection (the core algebraic fact) -/
theorem applyOps_commutes_rows {β : Type} (ops : List (Op β)) (A : List (List β)) (it : Item) :
    (npRows A it).map (applyOps ops) = npRows (applyOps ops A) it :=
  Lemmas.applyOps_commutes_rows ops A it

/-- Deriving is closed — the clone's address is a live address of the new heap — and gives the clone exactly the
parent's operations plus the new one … -/
theorem derive_ops {β : Type} (h : Heap β) (r : Nat) (op : Op β) (hr : r < h.length) :
    (derive h r op).1[(derive h r op).2]? = some (h[r] ++ [op]) :=
  Lemmas.derive_ops_at h r op hr

/-- … and never changes the operations (hence the value of any evaluation) of the reader it was
derived from or of any other existing reader. -/
theorem derive_preserves_others {β : Type} (h : Heap β) (r : Nat) (op : Op β) (r' : Nat)
    (hr' : r' < h.length) :
    (derive h r op).1[r']? = some h[r'] :=
  Lemmas.derive_preserves_others_at h r op r' hr'

/-- Any derivation history (parents, children, siblings, grandchildren, in any order) leaves
every previously existing reader untouched … -/
theorem derivations_preserve {β : Type} (h : Heap β) (ds : List (Nat × Op β)) (r' : Nat)
    (hr' : r' < h.length) :
    (runDerivations h ds)[r']? = some h[r'] :=
  Lemmas.derivations_preserve_at h ds r' hr'

/-- … so what it RETURNS is the same before and after, for every index expression (with or without a channel
selector; in or out of the domain of `eval_eq_eager`). -/
theorem derivations_preserve_returns {β : Type} (h : Heap β) (ds : List (Nat × Op β))
    (parts : List (List (List β))) (r' : Nat) (hr' : r' < h.length) (it : Item) :
    eval (runDerivations h ds) parts r' it = eval h parts r' it ∧
    ∀ c, evalCols (runDerivations h ds) parts r' it c = evalCols h parts r' it c :=
  ⟨Lemmas.derivations_preserve_eval h ds parts r' hr' it,
   fun c => Lemmas.derivations_preserve_evalCols h ds parts r' hr' it c⟩

/-! ### `_append_op` statement by statement, with Python's object semantics (Model/C02b)

List objects live in a store by address, a reader object holds the address of its `_ops` list; `copy.copy` shares
the address, `list(…)` allocates, `.append` mutates in place. -/

/-- After `clone = copy.copy(self); clone._ops = list(self._ops); clone._ops.append(op)` the clone carries the
parent's operations plus the new one, every reader object that existed before carries exactly what it carried
(parent, siblings, anything else), and the store stays well formed (so the statement applies again: by induction
every derivation history leaves every existing reader untouched). -/
theorem appendOp_statements (β : Type) (s : Store β) (hwf : s.WF) (self : Nat) (op : Op β)
    (hs : self < s.readers.length) :
    let s' := run s (appendOpProgram s self op)
    s'.opsOf s.readers.length = s.opsOf self ++ [op] ∧
    (∀ rd, rd < s.readers.length → s'.opsOf rd = s.opsOf rd) ∧ s'.WF :=
  ⟨Lemmas.appendOp_clone_ops s self op hs, fun rd hr => Lemmas.appendOp_frame s hwf self op hs rd hr,
   Lemmas.appendOp_wf s hwf self op hs⟩

/-- Refinement: seen reader by reader (`Store.abs`), the three statements ARE the abstract `derive` the theorems
above talk about. -/
theorem appendOp_refines_derive (β : Type) (s : Store β) (hwf : s.WF) (self : Nat) (op : Op β)
    (hs : self < s.readers.length) :
    (run s (appendOpProgram s self op)).abs = (derive s.abs self op).1 :=
  Lemmas.appendOp_refines_derive s hwf self op hs

/-- The model can express the regression the NOTE in the code warns about and tells it apart from the real method:
without the fresh list the PARENT ends up carrying the new operation too. -/
theorem aliasing_variant_changes_parent (β : Type) (s : Store β) (hwf : s.WF) (self : Nat) (op : Op β)
    (hs : self < s.readers.length) :
    (run s (aliasingVariant s self op)).opsOf self = s.opsOf self ++ [op] :=
  Lemmas.aliasing_variant_changes_parent s hwf self op hs

/-! ### The block `__getitem__` hands out, and what the caller does to it (Model/C02c)

Array objects live in a memory by address; the storage the readers read from is its first `np` objects (one per part).
`np ≤ m.arrays.length` says that these objects exist (a reader of the real code has its parts). -/

/-- The block handed out by a reader that exists (`hr`: its operation list is at a live address, so `h[r]`, not a
default) over a storage whose `np` parts exist (`hnp`; then `m.parts np` really has `np` parts) holds exactly what
`eval` says (so `eval_eq_eager` speaks about it), its address is the first free one — in particular NOT the address
of a part (`np ≤ a`) —, exactly one object was allocated, and every object that existed, the storage among them, is as
it was.
What this is and is not: the "new object" half holds BY CONSTRUCTION of the model's `getitem` (it appends the block to
the memory, mirroring the unconditional `np.vstack` of traces.py:246-252); the theorem records that construction so
that `scribble_preserves_returns` can use it, it does not by itself show that the real `__getitem__` allocates. That is
the job of the correspondence: the harness overwrites, in place, blocks the real readers hand out and compares every
later evaluation with the model's (`getitemNoCopy` is the variant a non-allocating rewrite would correspond to, and the
example below tells the two apart). Outside the hypotheses: an address `r ≥ h.length` is no reader (the model's `getD`
would read an empty operation list), `np > m.arrays.length` is a reader with missing parts — neither exists in the real
code. -/
theorem getitem_block_fresh {β : Type} (h : Heap β) (m : Mem β) (np : Nat) (hnp : np ≤ m.arrays.length) (r : Nat)
    (hr : r < h.length) (it : Item) :
    (getitem m np h[r] it).map (fun p => p.1.block p.2) = eval h (m.parts np) r it ∧
    (m.parts np).length = np ∧
    ∀ m' a, getitem m np h[r] it = some (m', a) →
      a = m.arrays.length ∧ np ≤ a ∧ m'.arrays.length = a + 1 ∧
      m'.arrays.take m.arrays.length = m.arrays ∧ m'.parts np = m.parts np :=
  Lemmas.getitem_block_fresh h m np hnp r hr it

/-- Whatever the caller writes, in place, into a block it was handed (by any reader of the family, for any index
expression), the storage is as it was: `(scribble m' a f).parts np = m.parts np` is the whole content (it needs `hnp`:
the block's address `m.arrays.length` lies outside the first `np` objects). The second conjunct is that equation
rewritten under `eval` / `evalCols` (a corollary by congruence, spelled out because it is the property's wording): EVERY
reader - the one indexed, its parent, its siblings, readers derived later (any heap `h'`) - returns afterwards what it
returned before, for every index expression, with or without a channel selector. -/
theorem scribble_preserves_returns {β : Type} (m : Mem β) (np : Nat) (hnp : np ≤ m.arrays.length)
    (ops : List (Op β)) (it : Item) (m' : Mem β) (a : Nat) (hg : getitem m np ops it = some (m', a))
    (f : List (List β) → List (List β)) :
    (scribble m' a f).parts np = m.parts np ∧
    ∀ (h' : Heap β) (r' : Nat) (it' : Item),
      eval h' ((scribble m' a f).parts np) r' it' = eval h' (m.parts np) r' it' ∧
      ∀ c, evalCols h' ((scribble m' a f).parts np) r' it' c = evalCols h' (m.parts np) r' it' c :=
  ⟨Lemmas.scribble_parts m np hnp ops it m' a hg f, fun h' r' it' => by
    rw [Lemmas.scribble_parts m np hnp ops it m' a hg f]; exact ⟨rfl, fun _ => rfl⟩⟩

/-- the hypotheses of `getitem_block_fresh` on a two-part recording with a derived reader (address 1, one operation):
the parts exist, the reader exists, the block of `reader[1:3]` is object 2 = `m.arrays.length`, beyond the 2 parts -/
example :
    let m : Mem Nat := ⟨[[[1, 2]], [[3, 4], [5, 6]]]⟩
    let h : Heap Nat := (derive [[]] 0 (.cols (.idx [1, 0]))).1
    2 ≤ m.arrays.length ∧ h.length = 2 ∧ (m.parts 2).length = 2 ∧
    (getitem m 2 (h.getD 1 []) (.slice (some 1) (some 3))).map (fun p => (p.2, p.1.arrays.length, p.1.block p.2)) =
      some (2, 3, [[4, 3], [6, 5]]) ∧
    eval h (m.parts 2) 1 (.slice (some 1) (some 3)) = some [[4, 3], [6, 5]] ∧
    -- outside `hnp` (3 parts claimed, 2 objects): `parts` silently has 2 parts
    (m.parts 3).length = 2 := by
  refine ⟨by decide, by decide, by decide, by decide, by decide, by decide⟩

/-- a two-part recording: the block of `reader[1:3]` (rows of both parts) is object 2; zeroing it changes nothing the
parent returns; and the model can express the rewrite that skips `np.vstack` for one part and tells it apart: there
the parent returns the caller's zeros -/
example :
    let m : Mem Nat := ⟨[[[1, 2]], [[3, 4], [5, 6]]]⟩
    let zero : List (List Nat) → List (List Nat) := fun b => b.map fun r => r.map fun _ => 0
    (getitem m 2 [] (.slice (some 1) (some 3))).map (fun p => (p.2, p.1.block p.2)) = some (2, [[3, 4], [5, 6]]) ∧
    ((getitem m 2 [] (.slice (some 1) (some 3))).map fun p =>
        eval [[]] ((scribble p.1 p.2 zero).parts 2) 0 (.slice none none)) = some (some [[1, 2], [3, 4], [5, 6]]) ∧
    (let m1 : Mem Nat := ⟨[[[3, 4], [5, 6]]]⟩
     ((getitem m1 1 [] (.slice none none)).map fun p =>
        eval [[]] ((scribble p.1 p.2 zero).parts 1) 0 (.int 1)) = some (some [[5, 6]]) ∧
     ((getitemNoCopy m1 1 [] (.slice none none)).map fun p =>
        eval [[]] ((scribble p.1 p.2 zero).parts 1) 0 (.int 1)) = some (some [[0, 0]])) := by
  refine ⟨by decide, by decide, by decide, by decide⟩

/-! Non-vacuity: cells are (id, trace of applied operator tokens) -/
example :
    let parts : List (List (List (Nat × List Nat))) := [[[(0, []), (1, [])]], [[(2, []), (3, [])], [(4, []), (5, [])]]]
    let tag (t : Nat) : Op (Nat × List Nat) := .elem fun c => (c.1, c.2 ++ [t])
    let h0 : Heap (Nat × List Nat) := [[]]
    let d1 := derive h0 0 (tag 7)              -- child = parent op 7
    let d2 := derive d1.1 d1.2 (.cols (.idx [1, 0]))
    let d3 := derive d2.1 0 (tag 9)            -- sibling of d1 derived later from the parent
    eval d3.1 parts d2.2 (.slice (some 1) none) = some [[(3, [7]), (2, [7])], [(5, [7]), (4, [7])]] ∧
    eval d3.1 parts 0 (.int 0) = some [[(0, []), (1, [])]] ∧
    eval d3.1 parts d3.2 (.int (-1)) = some [[(4, [9]), (5, [9])]] := by decide

/-- every address used above is live (the reachability hypothesis) and the clone of a derivation is the next address;
the parent answers the same after the three derivations, with a channel selector too -/
example :
    let parts : List (List (List (Nat × List Nat))) := [[[(0, []), (1, [])]], [[(2, []), (3, [])], [(4, []), (5, [])]]]
    let tag (t : Nat) : Op (Nat × List Nat) := .elem fun c => (c.1, c.2 ++ [t])
    let h0 : Heap (Nat × List Nat) := [[]]
    let ds := [(0, tag 7), (1, .cols (.idx [1, 0])), (0, tag 9)]
    let h3 := runDerivations h0 ds
    h3 = (derive (derive (derive h0 0 (tag 7)).1 1 (.cols (.idx [1, 0]))).1 0 (tag 9)).1 ∧
    h3.length = 4 ∧ (derive h0 0 (tag 7)).2 = 1 ∧ (h3.map List.length) = [0, 1, 2, 1] ∧
    eval h3 parts 0 (.list [0, 2]) = eval h0 parts 0 (.list [0, 2]) ∧
    eval h3 parts 0 (.list [0, 2]) = some [[(0, []), (1, [])], [(4, []), (5, [])]] ∧
    evalCols h3 parts 0 (.int 1) (.idx [1]) = some [[(3, [])]] ∧
    evalCols h3 parts 2 (.int 1) (.idx [1]) = some [[(2, [7])]] := by
  refine ⟨rfl, by decide, by decide, by decide, by decide, by decide, by decide, by decide⟩

/-- a store with one reader (no operations) meets the hypotheses; after two derivations from the same parent the
three readers carry [], [cols [1,0]], [cols [0]] -/
example :
    let s0 : Store Nat := ⟨[[]], [0]⟩
    let s1 := run s0 (appendOpProgram s0 0 (.cols (.idx [1, 0])))
    let s2 := run s1 (appendOpProgram s1 0 (.cols (.idx [0])))
    s0.readers.length = 1 ∧ (s2.abs.map List.length) = [0, 1, 1] ∧ s2.readers = [0, 1, 2] ∧
    ((run s0 (aliasingVariant s0 0 (.cols (.idx [0])))).abs.map List.length) = [1, 1] := by decide
example : (⟨[[]], [0]⟩ : Store Nat).WF := by
  intro rd hr; simp only [List.length_singleton] at hr; have : rd = 0 := by omega
  subst this; decide

end PhyVerif.C02
