import PhyVerif.Model.C03
import PhyVerif.Spec.C03
import PhyVerif.Lemmas.C03
/-!
# C03 — every route to a spike waveform yields the same zero-padded raw window
Only property theorems + non-vacuity examples; proofs in `Lemmas/C03.lean`.
-/
namespace PhyVerif.C03
open PhyVerif PhyVerif.C16

variable {α : Type} [Zero α]

/-- Direct extraction: for every recording, every spike inside it, every window length (odd or
even, also longer than the recording) and every channel list with or without −1 entries, the
extracted waveform is exactly the zero-padded window. -/
theorem extract_eq_window (A : List (List α)) (nch : Nat) (s : Int)
    (hs0 : 0 ≤ s) (hs : s < A.length) (n : Nat) (ch : List Int) (hch : ChOK nch ch) :
    extractWaveform A s n ch = window A s n ch :=
  Lemmas.extract_eq_window A nch s hs0 hs n ch hch

/-- Chunk-by-chunk iteration: whenever the reader's chunk intervals tile `[0, dur)` in order
(the C16 theorems) and the spikes are sorted, the concatenated batches are exactly one window per
spike, in spike order, each spike once — wherever spikes fall relative to chunk boundaries. -/
theorem iter_concat_eq_map (A : List (List α)) (ivs : List (Nat × Nat))
    (hT : intervalsTile A.length ivs = true) (spikes : List Int) (chans : List (List Int))
    (hsorted : spikes.Pairwise (· ≤ ·))
    (hb : ∀ s ∈ spikes, 0 ≤ s ∧ s < A.length) (n : Nat) :
    (iterWaveforms A ivs spikes chans n).flatten =
      (spikes.zip chans).map fun sc => extractWaveform A sc.1 n sc.2 :=
  Lemmas.iter_concat_eq_map A ivs hT spikes chans hsorted hb n

/-- Export: the written file loads as an array of the declared shape
`(n_spikes, n, n_channels_loc)` holding the windows times the unit factor, in spike order. -/
theorem export_loads_windows (scale : α → α) (A : List (List α)) (nch : Nat)
    (ivs : List (Nat × Nat)) (hT : intervalsTile A.length ivs = true) (spikes : List Int)
    (chans : List (List Int)) (hlen : chans.length = spikes.length)
    (hsorted : spikes.Pairwise (· ≤ ·)) (hb : ∀ s ∈ spikes, 0 ≤ s ∧ s < A.length) (n : Nat)
    (nloc : Nat) (hch : ∀ c ∈ chans, c.length = nloc ∧ ChOK nch c) :
    npLoad (exportWaveforms scale A ivs spikes chans n nloc) =
      some ((spikes.zip chans).map fun sc => (window A sc.1 n sc.2).map fun row => row.map scale) :=
  Lemmas.export_loads_windows scale A nch ivs hT spikes chans hlen hsorted hb n nloc hch

/-- Store lookup: for any query (any order, any subset of stored spikes), on every query channel
that the store holds for that spike the result is the stored window column, i.e. the raw window
on that channel; channels the store does not hold for the spike come back as zeros.
(Domain notes, both outside the generators: the query channels are distinct and the stored spike
ids are distinct — with a repeated query channel or id the real lookup fills only the LAST
occurrence, where this model fills every one; the hypotheses below make that restriction explicit
although the proof does not need them.) -/
theorem lookup_eq_window (st : Store α) (A : List (List α)) (samples : List Int) (n : Nat)
    (hl1 : st.spikeChannels.length = st.spikeIds.length) (hl2 : st.waveforms.length = st.spikeIds.length)
    (hstore : ∀ p, p < st.spikeIds.length →
      st.waveforms.getD p [] = window A (samples.getD p 0) n (st.spikeChannels.getD p []))
    (query : List Nat) (hq : ∀ q ∈ query, q ∈ st.spikeIds) (chq : List Nat)
    (_hchq : chq.Nodup) (_hids : st.spikeIds.Nodup) :
    getSpikeWaveforms st query chq n = some (query.map fun q =>
      let p := st.spikeIds.idxOf q
      (List.range n).map fun r => chq.map fun (c : Nat) =>
        if (st.spikeChannels.getD p []).contains (Int.ofNat c)
        then ((window A (samples.getD p 0) n [Int.ofNat c]).getD r []).getD 0 0 else 0) :=
  Lemmas.lookup_eq_window st A samples n hl1 hl2 hstore query hq chq

/-! Non-vacuity (cells are integers) -/
example : extractWaveform [[1, 2], [3, 4], [5, 6]] 1 8 [1, -1, 0] =
    [[0,0,0],[0,0,0],[0,0,0],[2,0,1],[4,0,3],[6,0,5],[0,0,0],[0,0,0]] := by decide
example : window [[1, 2], [3, 4], [5, 6]] 1 8 [1, -1, 0] =
    [[0,0,0],[0,0,0],[0,0,0],[2,0,1],[4,0,3],[6,0,5],[0,0,0],[0,0,0]] := by decide
example : (iterWaveforms [[1], [2], [3], [4], [5]] [(0, 2), (2, 2), (2, 5)] [0, 2, 4] [[0], [0], [0]] 3).flatten
    = [[[0], [1], [2]], [[2], [3], [4]], [[4], [5], [0]]] := by decide
example : intervalsTile 5 [(0, 2), (2, 2), (2, 5)] = true := by decide

end PhyVerif.C03
