import PhyVerif.Model.C03
import PhyVerif.Spec.C03
import PhyVerif.Lemmas.C03
import PhyVerif.Lemmas.C03b
import PhyVerif.Lemmas.C03c
/-!
# C03 — every route to a spike waveform yields the same zero-padded raw window
Only property theorems + non-vacuity examples; proofs in `Lemmas/C03.lean`.
-/
namespace PhyVerif.C03
open PhyVerif PhyVerif.C16

variable {α : Type} [Zero α]

/-- Direct extraction: for every rectangular recording with `nch` channels, every spike inside it, every window
length (odd or even, also longer than the recording) and every channel list with or without −1 entries, the
extracted waveform is exactly the zero-padded window. (Domain: `Rect A nch` is what makes `ChOK nch ch` say "a valid
channel of THIS recording"; the proof does not use it because both sides read an absent cell as `0`, where the
real code raises IndexError for a channel ≥ nch and is outside the property. A spike sample outside `[0, dur)` is
outside the quantifier as well: the real code raises AssertionError (the stacked window has the wrong height).
`_hn`: the real code asserts `nsw > 0` (traces.py:598, 621); for `n = 0` both sides are the empty window.
Sample and window length are mathematical integers: the real code converts both with `int(…)` before the window
bounds are computed, whatever NumPy integer type (signed or unsigned, any width) the caller passes.) -/
theorem extract_eq_window (A : List (List α)) (nch : Nat) (_hrect : Rect A nch) (s : Int)
    (hs0 : 0 ≤ s) (hs : s < A.length) (n : Nat) (_hn : 0 < n) (ch : List Int) (hch : ChOK nch ch) :
    extractWaveform A s n ch = window A s n ch :=
  Lemmas.extract_eq_window A nch s hs0 hs n ch hch

/-- Chunk-by-chunk iteration: whenever the reader's chunk intervals tile `[0, dur)` in order
(the C16 theorems) and the spikes are sorted, the concatenated batches are exactly one window per
spike, in spike order, each spike once — wherever spikes fall relative to chunk boundaries. -/
theorem iter_concat_eq_map (A : List (List α)) (ivs : List (Nat × Nat))
    (hT : intervalsTile A.length ivs = true) (spikes : List Int) (chans : List (List Int))
    (_hlen : chans.length = spikes.length)     -- `assert spike_samples.shape[0] == spike_channels.shape[0]`
    (hsorted : spikes.Pairwise (· ≤ ·))
    (hb : ∀ s ∈ spikes, 0 ≤ s ∧ s < A.length) (n : Nat) :
    (iterWaveforms A ivs spikes chans n).flatten =
      (spikes.zip chans).map fun sc => extractWaveform A sc.1 n sc.2 :=
  Lemmas.iter_concat_eq_map A ivs hT spikes chans hsorted hb n

/-- Export: the written file loads as an array of the declared shape
`(n_spikes, n, n_channels_loc)` holding the windows times the unit factor, in spike order. -/
theorem export_loads_windows (scale : α → α) (A : List (List α)) (nch : Nat)
    (ivs : List (Nat × Nat)) (hT : intervalsTile A.length ivs = true) (spikes : List Int)
    (chans : List (List Int)) (hlen : chans.length = spikes.length)
    (hsorted : spikes.Pairwise (· ≤ ·)) (hb : ∀ s ∈ spikes, 0 ≤ s ∧ s < A.length) (n : Nat)
    (nloc : Nat) (hch : ∀ c ∈ chans, c.length = nloc ∧ ChOK nch c) :
    npLoad (exportWaveforms scale A ivs spikes chans n nloc) =
      some ((spikes.zip chans).map fun sc => (window A sc.1 n sc.2).map fun row => row.map scale) :=
  Lemmas.export_loads_windows scale A nch ivs hT spikes chans hlen hsorted hb n nloc hch

/-- Store lookup: for any query (any order, any subset of stored spikes), on every query channel
that the store holds for that spike the result is the stored window column, i.e. the raw window
on that channel; channels the store does not hold for the spike come back as zeros.
(Domain notes, both outside the generators: the query channels are distinct and the stored spike
ids are distinct — with a repeated query channel or id the real lookup fills only the LAST
occurrence, where this model fills every one; the hypotheses below make that restriction explicit
although the proof does not need them.) -/
theorem lookup_eq_window (st : Store α) (A : List (List α)) (samples : List Int) (n : Nat)
    (hl1 : st.spikeChannels.length = st.spikeIds.length) (hl2 : st.waveforms.length = st.spikeIds.length)
    (hstore : ∀ p, p < st.spikeIds.length →
      st.waveforms.getD p [] = window A (samples.getD p 0) n (st.spikeChannels.getD p []))
    (query : List Nat) (hq : ∀ q ∈ query, q ∈ st.spikeIds) (chq : List Nat)
    (hn : 0 < n) (hchq : chq ≠ [])      -- the real lookup asserts `nsw > 0` and `nc > 0`
    (_hchqd : chq.Nodup) (_hids : st.spikeIds.Nodup) :
    getSpikeWaveforms st query chq n = some (query.map fun q =>
      let p := st.spikeIds.idxOf q
      (List.range n).map fun r => chq.map fun (c : Nat) =>
        if (st.spikeChannels.getD p []).contains (Int.ofNat c)
        then ((window A (samples.getD p 0) n [Int.ofNat c]).getD r []).getD 0 0 else 0) :=
  Lemmas.lookup_eq_window st A samples n hl1 hl2 hstore query hq chq hn hchq

/-- **All three routes agree** (export → store files → load → lookup, composed). For every rectangular recording,
every chunking that tiles it, every sorted vector of in-range spike samples with one channel row (−1 allowed) per
spike, every window length `n > 0` and EVERY unit factor `scale`:
1. direct extraction of every spike on its channel row is the zero-padded window;
2. the file written chunk by chunk loads as an array of the declared shape whose entry per spike is the unit
   factor times that direct extraction, in spike order;
3. the store made of the three files (`ids`, channel rows, that very file), loaded and queried for any stored
   spikes in any order on any non-empty list of query channels, returns `lookupSpec`: on every query channel the
   store holds for the spike the unit factor times the cell `wcell` of the raw window, zeros elsewhere.
(`wcell A s n i c` is by `window_eq_wcell` the cell of `window`, i.e. by 1. of the direct extraction.)
Domain: the stored ids and the query channels are distinct (a repeated one is filled only at its LAST position by
the real `_index_of`; the model fills every position; neither is generated). -/
theorem routes_agree (scale : α → α) (A : List (List α)) (nch : Nat) (_hrect : Rect A nch)
    (ivs : List (Nat × Nat)) (hT : intervalsTile A.length ivs = true) (samples : List Int)
    (chans : List (List Int)) (hlen : chans.length = samples.length)
    (hsorted : samples.Pairwise (· ≤ ·)) (hb : ∀ s ∈ samples, 0 ≤ s ∧ s < A.length) (n : Nat) (hn : 0 < n)
    (nloc : Nat) (hch : ∀ c ∈ chans, c.length = nloc ∧ ChOK nch c)
    (ids : List Nat) (hids : ids.length = samples.length) (_hidsd : ids.Nodup)
    (query : List Nat) (hq : ∀ q ∈ query, q ∈ ids) (chq : List Nat) (hchq : chq ≠ []) (_hchqd : chq.Nodup) :
    (∀ sc ∈ samples.zip chans, extractWaveform A sc.1 n sc.2 = window A sc.1 n sc.2) ∧
    npLoad (exportWaveforms scale A ivs samples chans n nloc) =
      some ((samples.zip chans).map fun sc => scaleW scale (extractWaveform A sc.1 n sc.2)) ∧
    (loadSubset ⟨ids, chans, exportWaveforms scale A ivs samples chans n nloc⟩).bind
        (fun st => getSpikeWaveforms st query chq n) =
      some (query.map fun q =>
        lookupSpec scale A (samples.getD (ids.idxOf q) 0) n (chans.getD (ids.idxOf q) []) chq) :=
  Lemmas.routes_agree scale A nch ivs hT samples chans hlen hsorted hb n hn nloc hch ids hids query hq chq hchq

/-- The subset store of `TemplateModel` (`save_spikes_subset_waveforms` → `_load_spike_waveforms` →
`get_spike_waveforms`): for every dataset with sorted in-range spike samples, one template per spike, a channel
order per template (`get_template(t).channel_ids`), every selection `sel` of spikes that is strictly increasing
(what `SpikeSelector` returns: `np.sort` of disjoint per-template picks) and every store width `nc`, the store
loaded from the written files answers every query of stored spikes with the unit factor times the raw window of
THAT spike (its own sample `spikeSamples[q]`) on the first `nc` channels of ITS template, zeros elsewhere.
(`nc = 0` is rejected by the real code, `assert nc > 0`.) -/
theorem subset_store_eq_raw (scale : α → α) (A : List (List α)) (nch : Nat) (_hrect : Rect A nch)
    (ivs : List (Nat × Nat)) (hT : intervalsTile A.length ivs = true)
    (spikeSamples : List Int) (hss : spikeSamples.Pairwise (· ≤ ·))
    (hsb : ∀ s ∈ spikeSamples, 0 ≤ s ∧ s < A.length)
    (spikeTemplates : List Nat) (hst : spikeTemplates.length = spikeSamples.length)
    (orders : List (List Int)) (hto : ∀ t ∈ spikeTemplates, t < orders.length)
    (hord : ∀ o ∈ orders, ChOK nch o)
    (sel : List Nat) (hsel : sel.Pairwise (· < ·)) (hselb : ∀ i ∈ sel, i < spikeSamples.length)
    (n : Nat) (hn : 0 < n) (nc : Nat) (_hnc : 0 < nc)
    (query : List Nat) (hq : ∀ q ∈ query, q ∈ sel) (chq : List Nat) (hchq : chq ≠ []) (_hchqd : chq.Nodup) :
    (loadSubset (saveSubset scale A ivs spikeSamples spikeTemplates orders sel n nc)).bind
        (fun st => getSpikeWaveforms st query chq n) =
      some (query.map fun q =>
        lookupSpec scale A (spikeSamples.getD q 0) n
          (templateNChannels true (orders.getD (spikeTemplates.getD q 0) []) nc) chq) :=
  Lemmas.subset_store_eq_raw scale A nch ivs hT spikeSamples hss hsb spikeTemplates hst orders hto hord
    sel hsel hselb n hn nc query hq chq hchq

/-- … and the written files always load: the store a reload sees holds exactly the selected ids, per selected
spike the first `nc` channels of its template filled up with −1, and per selected spike the unit factor times the
raw window of ITS sample on ITS channel row (all three fields, no existential). -/
theorem subset_loads (scale : α → α) (A : List (List α)) (nch : Nat) (_hrect : Rect A nch)
    (ivs : List (Nat × Nat)) (hT : intervalsTile A.length ivs = true)
    (spikeSamples : List Int) (hss : spikeSamples.Pairwise (· ≤ ·))
    (hsb : ∀ s ∈ spikeSamples, 0 ≤ s ∧ s < A.length)
    (spikeTemplates : List Nat) (hst : spikeTemplates.length = spikeSamples.length)
    (orders : List (List Int)) (hto : ∀ t ∈ spikeTemplates, t < orders.length)
    (hord : ∀ o ∈ orders, ChOK nch o)
    (sel : List Nat) (hsel : sel.Pairwise (· < ·)) (hselb : ∀ i ∈ sel, i < spikeSamples.length)
    (n : Nat) (nc : Nat) :
    loadSubset (saveSubset scale A ivs spikeSamples spikeTemplates orders sel n nc) =
      some ⟨sel, sel.map fun i =>
        templateNChannels true (orders.getD (spikeTemplates.getD i 0) []) nc,
        sel.map fun i => scaleW scale (window A (spikeSamples.getD i 0) n
          (templateNChannels true (orders.getD (spikeTemplates.getD i 0) []) nc))⟩ :=
  Lemmas.subset_loads_eq scale A nch ivs hT spikeSamples hss hsb spikeTemplates hst orders hto hord
    sel hsel hselb n nc

/-- `TemplateModel.get_waveforms`, store route: when the lookup answers, its answer is returned — and then the
three assertions of the lookup hold (every requested spike stored, `n > 0`, a query channel). -/
theorem getWaveforms_stored (st : Store α) (A : List (List α)) (spikeSamples : List Int)
    (query chq : List Nat) (n : Nat) (W : List (List (List α)))
    (h : getSpikeWaveforms st query chq n = some W) :
    getWaveformsE (some st) A spikeSamples query chq n = some W ∧ lookupAsserts st query chq n = true :=
  ⟨Lemmas.getWaveforms_stored st A spikeSamples query chq n W h, Lemmas.asserts_of_lookup st query chq n W h⟩

/-- … only AssertionError is caught (model.py:989): when the assertions hold and the lookup still raises (the
IndexError of a store whose arrays have different numbers of rows), `get_waveforms` raises too — no fallback. -/
theorem getWaveforms_propagates (st : Store α) (A : List (List α)) (spikeSamples : List Int)
    (query chq : List Nat) (n : Nat) (ha : lookupAsserts st query chq n = true)
    (h : getSpikeWaveforms st query chq n = none) :
    getWaveformsE (some st) A spikeSamples query chq n = none :=
  Lemmas.getWaveforms_propagates st A spikeSamples query chq n ha h

/-- `TemplateModel.get_waveforms`, fallback: as soon as ONE requested spike is not in the store, every requested
spike is read from the raw data and the result is exactly the zero-padded raw window on the query channels
(valid channels of the recording; in-range spike ids and samples; `n > 0`, `extract_waveforms` asserts it). -/
theorem getWaveforms_unstored (st : Store α) (A : List (List α)) (nch : Nat) (_hrect : Rect A nch)
    (spikeSamples : List Int) (query chq : List Nat) (n : Nat) (hn : 0 < n) (q : Nat) (hq : q ∈ query)
    (hns : q ∉ st.spikeIds) (hqb : ∀ q ∈ query, q < spikeSamples.length)
    (hsb : ∀ s ∈ spikeSamples, 0 ≤ s ∧ s < A.length) (hc : ∀ c ∈ chq, c < nch) :
    getWaveformsE (some st) A spikeSamples query chq n =
      some (query.map fun q => window A (spikeSamples.getD q 0) n (chq.map Int.ofNat)) :=
  Lemmas.getWaveforms_unstored st A nch spikeSamples query chq n hn q hq hns hqb hsb hc

/-- `TemplateModel.get_waveforms` without a store: the raw-data route. -/
theorem getWaveforms_raw (A : List (List α)) (nch : Nat) (_hrect : Rect A nch) (spikeSamples : List Int)
    (query chq : List Nat) (n : Nat) (hn : 0 < n) (hqb : ∀ q ∈ query, q < spikeSamples.length)
    (hsb : ∀ s ∈ spikeSamples, 0 ≤ s ∧ s < A.length) (hc : ∀ c ∈ chq, c < nch) :
    getWaveformsE none A spikeSamples query chq n =
      some (query.map fun q => window A (spikeSamples.getD q 0) n (chq.map Int.ofNat)) :=
  Lemmas.getWaveforms_raw A nch spikeSamples query chq n hn hqb hsb hc

/-- **`save_spikes_subset_waveforms`, then `get_waveforms`** (what the correspondence op `subset` compares, both
branches in one statement): on the model's own reloaded store, a request for spikes that were ALL selected is
answered by the store — the unit factor times the raw window of each spike on the first `nc` channels of its
template, zeros on the other query channels —, a request naming ONE spike that was not selected is answered from
the raw data for every spike (unscaled windows on the query channels). Queries in any order, with repetitions. -/
theorem getWaveforms_after_save (scale : α → α) (A : List (List α)) (nch : Nat) (_hrect : Rect A nch)
    (ivs : List (Nat × Nat)) (hT : intervalsTile A.length ivs = true)
    (spikeSamples : List Int) (hss : spikeSamples.Pairwise (· ≤ ·))
    (hsb : ∀ s ∈ spikeSamples, 0 ≤ s ∧ s < A.length)
    (spikeTemplates : List Nat) (hst : spikeTemplates.length = spikeSamples.length)
    (orders : List (List Int)) (hto : ∀ t ∈ spikeTemplates, t < orders.length)
    (hord : ∀ o ∈ orders, ChOK nch o)
    (sel : List Nat) (hsel : sel.Pairwise (· < ·)) (hselb : ∀ i ∈ sel, i < spikeSamples.length)
    (n : Nat) (hn : 0 < n) (nc : Nat) (_hnc : 0 < nc)
    (query : List Nat) (hqb : ∀ q ∈ query, q < spikeSamples.length)
    (chq : List Nat) (hchq : chq ≠ []) (_hchqd : chq.Nodup) (hc : ∀ c ∈ chq, c < nch) :
    getWaveformsE (loadSubset (saveSubset scale A ivs spikeSamples spikeTemplates orders sel n nc))
        A spikeSamples query chq n =
      some (if query.all sel.contains then
          query.map fun q => lookupSpec scale A (spikeSamples.getD q 0) n
            (templateNChannels true (orders.getD (spikeTemplates.getD q 0) []) nc) chq
        else query.map fun q => window A (spikeSamples.getD q 0) n (chq.map Int.ofNat)) :=
  Lemmas.getWaveforms_after_save scale A nch ivs hT spikeSamples hss hsb spikeTemplates hst orders hto hord
    sel hsel hselb n hn nc query hqb chq hchq hc

/-! ### The window read through a reader (composition with C01) -/

/-- The rows a READER returns for `traces[lo:hi]` with `0 ≤ lo < n_samples` and `lo < hi` — `hi` MAY EXCEED the
number of samples, which C01's own domain (`InDom`: slice bounds in `[-n, n]`) does not cover —: for every backend
(in-memory array, `.npy`, 1..k flat files, compressed file), every well-formed source and every chain of deferred
channel selections `reader[:, c1][:, c2]…` (`ops`; `TemplateModel.traces` is `reader[:, channel_map]`), exactly
`rowsSlice` of the concatenated recording — the expression the C03 model reads — with the selections applied to
every row. (The reader clamps the stop bound with `min(v, n)`, traces.py:69; a start bound `< -n` is reduced modulo
`n` instead — never issued here, `lo = max(0, t0)`.) -/
theorem reader_rows_slice {β : Type} (src : C01.Source (List β)) (h : C01.SrcOK src) (r : C01.Reader (List β))
    (hr : C01.build src = some r) (lo hi : Int) (hlo0 : 0 ≤ lo) (hlo : lo < src.concat.length) (hhi : lo < hi)
    (ops : List C01.ColSel) :
    C01.getItemOps r (.slice (some lo) (some hi)) ops =
      .ok ((rowsSlice src.concat lo hi).map (C01.applyCols ops)) :=
  Lemmas.reader_rows_slice src h r hr lo hi hlo0 hlo hhi ops

/-- **Position of the spike relative to FILE and RECORDING boundaries, on readers**: the single read of
`_extract_waveform` — `traces[max(0, t0):t1]` with `t0 = s − n//2`, `t1 = s + (n − n//2)` (traces.py:603-605) — for
every spike inside the recording and every window length `n > 0`, on every reader of C01 and every column-selected
derived reader, returns `rowsSlice A (max 0 t0) t1` of the concatenation `A` of the files: the very rows
`extractWaveform A s n ch` starts from (`Model/C03.lean`), whichever files the window spans and however far it
reaches beyond the last sample. With `extract_eq_window` (on `A`, after the column selections): the window
extracted through the reader is the zero-padded raw window of the concatenated recording. -/
theorem reader_window_rows {β : Type} (src : C01.Source (List β)) (h : C01.SrcOK src) (r : C01.Reader (List β))
    (hr : C01.build src = some r) (s : Int) (hs0 : 0 ≤ s) (hs : s < src.concat.length) (n : Nat) (hn : 0 < n)
    (ops : List C01.ColSel) :
    C01.getItemOps r (.slice (some (max 0 (s - (n : Int) / 2))) (some (s + ((n : Int) - (n : Int) / 2)))) ops =
      .ok ((rowsSlice src.concat (max 0 (s - (n : Int) / 2)) (s + ((n : Int) - (n : Int) / 2))).map
        (C01.applyCols ops)) :=
  Lemmas.reader_rows_slice src h r hr _ _ (by omega) (by omega) (by omega) ops

/-! Non-vacuity (cells are integers) -/
example : extractWaveform [[1, 2], [3, 4], [5, 6]] 1 8 [1, -1, 0] =
    [[0,0,0],[0,0,0],[0,0,0],[2,0,1],[4,0,3],[6,0,5],[0,0,0],[0,0,0]] := by decide
example : window [[1, 2], [3, 4], [5, 6]] 1 8 [1, -1, 0] =
    [[0,0,0],[0,0,0],[0,0,0],[2,0,1],[4,0,3],[6,0,5],[0,0,0],[0,0,0]] := by decide
example : (iterWaveforms [[1], [2], [3], [4], [5]] [(0, 2), (2, 2), (2, 5)] [0, 2, 4] [[0], [0], [0]] 3).flatten
    = [[[0], [1], [2]], [[2], [3], [4]], [[4], [5], [0]]] := by decide
example : intervalsTile 5 [(0, 2), (2, 2), (2, 5)] = true := by decide

-- the composed route on a concrete store: two chunks, factor 2, spikes 9 and 4 stored with rows [1,-1] and [0,1],
-- queried in reverse order on channels [1, 0, 2]
example :
    (loadSubset (α := Int) ⟨[9, 4], [[1, -1], [0, 1]],
        exportWaveforms (fun x => 2 * x) [[1, 2], [3, 4], [5, 6]] [(0, 2), (2, 3)] [0, 2] [[1, -1], [0, 1]] 2 2⟩).bind
      (fun st => getSpikeWaveforms st [4, 9] [1, 0, 2] 2) =
    some [[[8, 6, 0], [12, 10, 0]], [[0, 0, 0], [4, 0, 0]]] := by decide
example : lookupSpec (fun x => 2 * x) [[1, 2], [3, 4], [5, 6]] (2 : Int) 2 [0, 1] [1, 0, 2] =
    [[8, 6, 0], [12, 10, 0]] := by decide
example : Rect (α := Int) [[1, 2], [3, 4], [5, 6]] 2 := by simp [Rect]
-- the TemplateModel subset store: 4 spikes of templates 1,0,1,0; template 1 has no third channel
example :
    (saveSubset (α := Int) (fun x => x) [[1, 2, 3], [4, 5, 6], [7, 8, 9], [10, 11, 12]] [(0, 4)]
      [0, 1, 3, 3] [1, 0, 1, 0] [[2, 0, 1], [1]] [1, 2] 2 2).channels = [[2, 0], [1, -1]] := by decide
example :
    (loadSubset (saveSubset (α := Int) (fun x => x) [[1, 2, 3], [4, 5, 6], [7, 8, 9], [10, 11, 12]] [(0, 4)]
      [0, 1, 3, 3] [1, 0, 1, 0] [[2, 0, 1], [1]] [1, 2] 2 2)).bind
      (fun st => getSpikeWaveforms st [2, 1] [1, 2] 2) =
    some [[[8, 0], [11, 0]], [[0, 3], [0, 6]]] := by decide
example : templateNChannels true [2, 0, 1] 2 = [2, 0] ∧ templateNChannels true [1] 3 = [1, -1, -1] ∧
    templateNChannels false [1] 2 = [-1, -1] ∧ subsetWidth 0 12 = 12 ∧ subsetWidth 3 12 = 12 ∧
    subsetWidth 14 12 = 14 := by decide
-- get_waveforms falls back to the raw data when a requested spike is not stored
example : getWaveformsE (α := Int) (some ⟨[1], [[0]], [[[5]]]⟩) [[1, 2], [3, 4]] [0, 1] [0, 1] [1] 1 =
    some [[[2]], [[4]]] := by decide
-- … answers from the store when all are (channel 1 is not held for spike 1: zero) …
example : getWaveformsE (α := Int) (some ⟨[1], [[0]], [[[5]]]⟩) [[1, 2], [3, 4]] [0, 1] [1] [1, 0] 1 =
    some [[[0, 5]]] := by decide
-- … and does NOT catch the IndexError of a store with fewer channel rows than ids (assertions hold, lookup raises)
example : lookupAsserts (α := Int) ⟨[1, 2], [[0]], [[[5]], [[6]]]⟩ [2] [0] 1 = true ∧
    getSpikeWaveforms (α := Int) ⟨[1, 2], [[0]], [[[5]], [[6]]]⟩ [2] [0] 1 = none ∧
    getWaveformsE (α := Int) (some ⟨[1, 2], [[0]], [[[5]], [[6]]]⟩) [[1, 2], [3, 4]] [0, 1, 1] [2] [0] 1 = none := by
  decide
-- the reloaded subset store, all three fields (spikes 1 and 2 selected, factor 2)
example :
    loadSubset (saveSubset (α := Int) (fun x => 2 * x) [[1, 2, 3], [4, 5, 6], [7, 8, 9], [10, 11, 12]] [(0, 4)]
      [0, 1, 3, 3] [1, 0, 1, 0] [[2, 0, 1], [1]] [1, 2] 2 2) =
    some ⟨[1, 2], [[2, 0], [1, -1]], [[[6, 2], [12, 8]], [[16, 0], [22, 0]]]⟩ := by decide
-- save, then get_waveforms: spike 2 then spike 1 (both selected, reverse order); spike 0 was not selected
example :
    getWaveformsE (loadSubset (saveSubset (α := Int) (fun x => 2 * x)
      [[1, 2, 3], [4, 5, 6], [7, 8, 9], [10, 11, 12]] [(0, 4)] [0, 1, 3, 3] [1, 0, 1, 0] [[2, 0, 1], [1]] [1, 2] 2 2))
      [[1, 2, 3], [4, 5, 6], [7, 8, 9], [10, 11, 12]] [0, 1, 3, 3] [2, 1] [1, 2] 2 =
    some [[[16, 0], [22, 0]], [[0, 6], [0, 12]]] ∧
    getWaveformsE (loadSubset (saveSubset (α := Int) (fun x => 2 * x)
      [[1, 2, 3], [4, 5, 6], [7, 8, 9], [10, 11, 12]] [(0, 4)] [0, 1, 3, 3] [1, 0, 1, 0] [[2, 0, 1], [1]] [1, 2] 2 2))
      [[1, 2, 3], [4, 5, 6], [7, 8, 9], [10, 11, 12]] [0, 1, 3, 3] [1, 0] [1, 2] 2 =
    some [[[2, 3], [5, 6]], [[0, 0], [2, 3]]] := by decide
-- a window that crosses the file boundary AND the end of the recording, read through the reader of two flat files
-- (rows 2 + 1, `C01.exFlat`) and through `reader[:, [1, 0]]`: spike at the last sample 2, n = 4: rows [0, 4) ∩ [0, 3)
example : (C01.build C01.exFlat).map (fun r => C01.getItemOps r (.slice (some (max 0 (2 - (4 : Int) / 2)))
      (some (2 + ((4 : Int) - (4 : Int) / 2)))) [.idx [1, 0]]) =
    some (.ok ((rowsSlice C01.exFlat.concat 0 4).map (C01.applyCols [.idx [1, 0]]))) := by decide +kernel
example : (rowsSlice C01.exFlat.concat 0 4).map (C01.applyCols [.idx [1, 0]]) = [[2, 1], [4, 3], [6, 5]] := by
  decide +kernel

end PhyVerif.C03
