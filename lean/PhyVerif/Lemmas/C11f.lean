import PhyVerif.Lemmas.C11e
/-! Inversion of the steps of the file-system merge (what a step that did not raise has read and saved). -/
namespace PhyVerif.C11.Lemmas
open PhyVerif PhyVerif.C11

/-! ### `loadEach` -/

theorem loadEach_congr {α β : Type} (f g : β → M α) (l : List β) (h : ∀ x ∈ l, f x = g x) :
    loadEach f l = loadEach g l := by
  induction l with
  | nil => rfl
  | cons x rest ih =>
    unfold loadEach
    rw [h x (by simp), ih (fun y hy => h y (by simp [hy]))]

theorem loadEach_length {α β : Type} (f : β → M α) (l : List β) (as : List α) (h : loadEach f l = .ok as) :
    as.length = l.length := by
  induction l generalizing as with
  | nil => unfold loadEach at h; cases h; rfl
  | cons x rest ih =>
    unfold loadEach at h
    split at h
    · cases h
    · split at h
      · cases h
      · rename_i as' heq
        cases h
        simp [ih as' heq]

/-- element-wise: the `i`-th result is `f` of the `i`-th directory -/
theorem loadEach_get {α β : Type} (f : β → M α) (l : List β) (as : List α) (h : loadEach f l = .ok as)
    (i : Nat) (hi : i < l.length) : ∃ a, as[i]? = some a ∧ f l[i] = .ok a := by
  induction l generalizing as i with
  | nil => simp at hi
  | cons x rest ih =>
    unfold loadEach at h
    split at h
    · cases h
    · rename_i a hfa
      split at h
      · cases h
      · rename_i as' heq
        cases h
        cases i with
        | zero => exact ⟨a, rfl, hfa⟩
        | succ i => simpa using ih as' heq i (by simpa using hi)

theorem loadEach_mem {α β : Type} (f : β → M α) (l : List β) (as : List α) (h : loadEach f l = .ok as)
    (x : β) (hx : x ∈ l) : ∃ a ∈ as, f x = .ok a := by
  obtain ⟨i, hi, rfl⟩ := List.getElem_of_mem hx
  obtain ⟨a, ha, hf⟩ := loadEach_get f l as h i hi
  exact ⟨a, List.mem_of_getElem? ha, hf⟩

/-! ### running the steps -/

theorem runSteps_ok_cons (st : FS × Reg → M (FS × Reg)) (rest : List (FS × Reg → M (FS × Reg)))
    (s s' : FS × Reg) (h : runSteps (st :: rest) s = (s', none)) :
    ∃ s1, st s = .ok s1 ∧ runSteps rest s1 = (s', none) := by
  unfold runSteps at h
  split at h
  · cases h
  · rename_i s1 heq; exact ⟨s1, heq, h⟩

theorem runSteps_ok_nil (s s' : FS × Reg) (h : runSteps [] s = (s', none)) : s' = s := by
  unfold runSteps at h; cases h; rfl

theorem saveStep_ok (out : String) (c : Compute) (s s1 : FS × Reg) (h : saveStep out c s = .ok s1) :
    ∃ ws reg, c s.1 s.2 = .ok (ws, reg) ∧ s1 = (saveAll out s.1 ws, reg) := by
  unfold saveStep at h
  split at h
  · cases h
  · rename_i ws reg heq; cases h; exact ⟨ws, reg, heq, rfl⟩

/-! ### what a step that did not raise has read and saved -/

/-- the save of one iteration of `write_misc` -/
def optWrite (fn : String) : Option (List (List Int)) → List (String × File)
  | none => []
  | some m => [(fn, .mat m)]

macro "inv_ok" d:ident h:ident : tactic =>
  `(tactic| (unfold $d at $h:ident
             try dsimp only at $h:ident
             repeat' (split at $h:ident)
             all_goals (try (cases $h:ident; done))))

variable (subdirs : List String) (fs : FS) (reg reg' : Reg) (ws : List (String × File))

theorem cParams_ok (h : cParams subdirs fs reg = .ok (ws, reg')) :
    ∃ ps p, loadEach (readParams fs "params.py") subdirs = .ok ps ∧ C12.mergeParams ps = some p ∧
      ws = [("params.py", .params p.1 p.2)] ∧ reg' = reg := by
  inv_ok cParams h
  cases h; exact ⟨_, _, by assumption, by assumption, rfl, rfl⟩

theorem cProbeDesc_ok (h : cProbeDesc subdirs fs reg = .ok (ws, reg')) :
    ws = [("probes.description.tsv", .labels subdirs)] ∧ reg' = reg := by
  unfold cProbeDesc at h; cases h; exact ⟨rfl, rfl⟩

theorem cSpikeTimes_ok (h : cSpikeTimes subdirs fs reg = .ok (ws, reg')) :
    ∃ times, loadEach (readInts fs "spike_times.npy") subdirs = .ok times ∧
      concatOK "spike_times.npy" times = .ok () ∧
      ws = [("spike_times.npy", .ints (gather times (spikeOrder times)))] ∧
      reg' = { reg with order := spikeOrder times } := by
  inv_ok cSpikeTimes h
  cases h; exact ⟨_, by assumption, by assumption, rfl, rfl⟩

theorem cAmplitudes_ok (h : cAmplitudes subdirs fs reg = .ok (ws, reg')) :
    ∃ arrays, loadEach (readInts fs "amplitudes.npy") subdirs = .ok arrays ∧
      concatOK "amplitudes.npy" arrays = .ok () ∧ arrays.flatten.length = reg.order.length ∧
      ws = [("amplitudes.npy", .ints (gather arrays reg.order))] ∧ reg' = reg := by
  inv_ok cAmplitudes h
  rename_i hne
  cases h; exact ⟨_, by assumption, by assumption, by simpa using hne, rfl, rfl⟩

theorem cSpikeTemplatesRaw_ok (h : cSpikeTemplatesRaw subdirs fs reg = .ok (ws, reg')) :
    ∃ arrays, loadEach (readNats fs "spike_templates.npy") subdirs = .ok arrays ∧
      concatOK "spike_templates.npy" arrays = .ok () ∧ arrays.flatten.length = reg.order.length ∧
      ws = [("spike_templates.npy", .nats (gather arrays reg.order))] ∧ reg' = reg := by
  inv_ok cSpikeTemplatesRaw h
  rename_i hne
  cases h; exact ⟨_, by assumption, by assumption, by simpa using hne, rfl, rfl⟩

theorem cSpikeClusters_ok (h : cSpikeClusters subdirs fs reg = .ok (ws, reg')) :
    ∃ sc st counts, loadEach (readNats fs "spike_clusters.npy") subdirs = .ok sc ∧
      loadEach (readNats fs "spike_templates.npy") subdirs = .ok st ∧
      loadEach (readTemplateCount fs) (subdirs.zip (sc.zip st)) = .ok counts ∧
      concatOK "spike_clusters.npy" sc = .ok () ∧ concatOK "spike_templates.npy" st = .ok () ∧
      (shiftIds sc).flatten.length = reg.order.length ∧
      (shiftBy st (templateOffsets st counts)).flatten.length = reg.order.length ∧
      (gather (shiftIds sc) reg.order).foldl max 0 + 1 = (clusterProbes sc).length ∧
      ws = [("spike_clusters.npy", .nats (gather (shiftIds sc) reg.order)),
            ("spike_templates.npy", .nats (gather (shiftBy st (templateOffsets st counts)) reg.order)),
            ("cluster_probes.npy", .nats (clusterProbes sc))] ∧
      reg' = { reg with clusters := sc, templateOffsets := templateOffsets st counts } := by
  inv_ok cSpikeClusters h
  rename_i h1 _ _ _ h2 h3
  cases h
  exact ⟨_, _, _, by assumption, by assumption, by assumption, by assumption, by assumption,
    by simpa using h1, by simpa using h2, by simpa using h3, rfl, rfl⟩

theorem cClusterData_ok (fn : String) (h : cClusterData subdirs fn fs reg = .ok (ws, reg')) :
    ∃ md, loadEach (readTsvOpt fs fn) subdirs = .ok md ∧
      ws = (if (mergeClusterData md reg.clusters).isEmpty then [] else [(fn, .tsv (mergeClusterData md reg.clusters))]) ∧
      reg' = reg := by
  unfold cClusterData at h
  split at h
  · cases h
  · cases h; exact ⟨_, by assumption, rfl, rfl⟩

theorem cChannelData_ok (h : cChannelData subdirs fs reg = .ok (ws, reg')) :
    ∃ maps, loadEach (readNats fs "channel_map.npy") subdirs = .ok maps ∧
      maxOK "channel_map.npy" maps = .ok () ∧
      ws = [("channel_map.npy", .nats (C12.mergeChannelMaps maps)),
            ("channel_probe.npy", .nats (C12.channelProbes maps))] ∧
      reg' = { reg with chanIndexOffsets := C12.chanIndexOffsets maps } := by
  inv_ok cChannelData h
  cases h; exact ⟨_, by assumption, by assumption, rfl, rfl⟩

theorem cChannelPositions_ok (h : cChannelPositions subdirs fs reg = .ok (ws, reg')) :
    ∃ pos, loadEach (readPos fs "channel_positions.npy") subdirs = .ok pos ∧
      maxOK "channel_positions.npy" pos = .ok () ∧
      ws = [("channel_positions.npy", .pos (C12.mergePositions pos))] ∧ reg' = reg := by
  inv_ok cChannelPositions h
  cases h; exact ⟨_, by assumption, by assumption, rfl, rfl⟩

theorem cTemplates_ok (h : cTemplates subdirs fs reg = .ok (ws, reg')) :
    ∃ ts, loadEach (readTmpl fs "templates.npy") subdirs = .ok ts ∧
      (ts.all fun t => t.all fun tm => tm.length == ((ts.headD []).headD []).length) = true ∧
      ws = [("templates.npy", .tmpl (C12.mergeTemplates ts))] ∧ reg' = reg := by
  inv_ok cTemplates h
  cases h; exact ⟨_, by assumption, by assumption, rfl, rfl⟩

theorem cPcInd_ok (h : cPcInd subdirs fs reg = .ok (ws, reg')) :
    ∃ tables, loadEach (readTable fs "pc_feature_ind.npy") subdirs = .ok tables ∧ sameWidth tables = true ∧
      ws = [("pc_feature_ind.npy", .table (C12.shiftTables tables reg.chanIndexOffsets))] ∧ reg' = reg := by
  inv_ok cPcInd h
  cases h; exact ⟨_, by assumption, by assumption, rfl, rfl⟩

theorem cTfInd_ok (h : cTfInd subdirs fs reg = .ok (ws, reg')) :
    ∃ tables, loadEach (readTable fs "template_feature_ind.npy") subdirs = .ok tables ∧ sameWidth tables = true ∧
      ws = [("template_feature_ind.npy", .table (C12.shiftTables tables reg.templateOffsets))] ∧ reg' = reg := by
  inv_ok cTfInd h
  cases h; exact ⟨_, by assumption, by assumption, rfl, rfl⟩

theorem cMisc_ok (fn : String) (h : cMisc subdirs fn fs reg = .ok (ws, reg')) :
    ∃ ms, loadEach (readMatOpt fs fn) subdirs = .ok ms ∧
      ws = optWrite fn (C12.mergeOptional ms) ∧ reg' = reg := by
  inv_ok cMisc h
  · rename_i hm; cases h; exact ⟨_, by assumption, by rw [hm]; rfl, rfl⟩
  · rename_i hm; cases h; exact ⟨_, by assumption, by rw [hm]; rfl, rfl⟩

end PhyVerif.C11.Lemmas
