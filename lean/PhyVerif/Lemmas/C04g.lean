import PhyVerif.Lemmas.C04
import PhyVerif.Lemmas.C04d
/-!
C04, follow-up lemmas: the inverse whitening matrix that is computed and written (`_compute_wmi`, model.py:743-751)
and "samples recovered by rounding" for STORED seconds.
-/
namespace PhyVerif.C04.Lemmas
open PhyVerif.C04

/-- the whitening matrix and the stored inverse the view shows, as functions of the directory after the
spike-cluster step -/
def wmOf (d1 : Dir) : Option Arr := (readFile d1 ["whitening_mat.npy"]).map fun a => atleast 2 (squeeze (scrub a))
def wmiOf (d1 : Dir) : Option Arr := (readFile d1 ["whitening_mat_inv.npy"]).map fun a => atleast 2 (squeeze (scrub a))

theorem load_wm_wmi (inv : Arr → Arr) {one : Cell} (d : Dir) (v : View) (d' : Dir) (h : load inv d one = .ok (v, d')) :
    v.wm = wmOf (d1Of d) ∧ v.wmi = wmiOf (d1Of d) := by
  simp only [load, bind, Except.bind, pure, Except.pure, throw, throwThe, MonadExceptOf.throw] at h
  repeat' first
    | (cases h; done)
    | (injection h with h; injection h with hv hd)
    | split at h
  all_goals subst hv hd
  all_goals refine ⟨by simp only [d1Of, wmOf, *], ?_⟩
  all_goals simp only [d1Of, wmiOf, *]
  all_goals (split <;> (try split) <;> simp_all)

theorem d1Of_lookup_wmi (d : Dir) : (d1Of d).lookup "whitening_mat_inv.npy" = d.lookup "whitening_mat_inv.npy" := by
  unfold d1Of
  split
  · rfl
  · split
    · split
      · rw [List.lookup_append]
        simp [List.lookup]
      · rfl
    · rfl

/-- no stored inverse: the view holds none (the inverse is computed), and the file that is written holds exactly what
`inv` returned on the whitening matrix WITH ITS DEFAULT (`np.eye(nc)`, model.py:442, `nc = channel_map.shape[0]`) -/
theorem wmi_default (inv : Arr → Arr) {one : Cell} (d : Dir) (v : View) (d' : Dir) (h : load inv d one = .ok (v, d'))
    (hn : d.lookup "whitening_mat_inv.npy" = none) :
    v.wmi = none ∧
    d'.lookup "whitening_mat_inv.npy" = some (inv (v.wm.getD (eye one (v.channelMap.shape.headD 0)))) := by
  obtain ⟨hwm, hwmi⟩ := load_wm_wmi inv d v d' h
  obtain ⟨hd, -⟩ := load_core inv d v d' h
  have h1 : readFile (d1Of d) ["whitening_mat_inv.npy"] = none := by
    rw [readFile_exact _ "whitening_mat_inv.npy" (by decide), d1Of_lookup_wmi, hn]
  have hl : (d1Of d).lookup "whitening_mat_inv.npy" = none := by rw [d1Of_lookup_wmi, hn]
  refine ⟨by rw [hwmi, wmiOf, h1]; rfl, ?_⟩
  rw [hd, hwm]
  unfold d2Of wmOf
  rw [h1]
  simp only
  split <;> simp [List.lookup_append, List.lookup, *]

/-- a stored inverse is shown as it is (at least 2-D, squeezed, scrubbed) and nothing is written for it -/
theorem wmi_stored (inv : Arr → Arr) {one : Cell} (d : Dir) (v : View) (d' : Dir) (h : load inv d one = .ok (v, d'))
    (a : Arr) (ha : d.lookup "whitening_mat_inv.npy" = some a) :
    v.wmi = some (atleast 2 (squeeze (scrub a))) := by
  obtain ⟨-, hwmi⟩ := load_wm_wmi inv d v d' h
  rw [hwmi, wmiOf, readFile_exact _ "whitening_mat_inv.npy" (by decide), d1Of_lookup_wmi, ha]
  rfl

/-- "samples recovered by rounding", on the STORED seconds: whenever the stored time `t` (any rounding of `s / rate`
to the stored precision) is less than half a sample period away from sample `s`, rounding `t · rate` gives `s` -/
theorem samples_recovered_of_stored (rate t : Rat) (s : Int)
    (h1 : (s : Rat) - 1 / 2 < t * rate) (h2 : t * rate < (s : Rat) + 1 / 2) :
    roundHalfEven (t * rate) = s := by
  apply roundHalfEven_unique
  refine ⟨⟨by grind, by grind⟩, ?_⟩
  intro h; exfalso; grind

end PhyVerif.C04.Lemmas
