import PhyVerif.Model.Fl
import Mathlib.Algebra.Order.Field.Rat
import Mathlib.Algebra.Order.Field.Power
import Mathlib.Algebra.Order.Ring.Abs
import Mathlib.Tactic.Linarith
import Mathlib.Tactic.Ring
import Mathlib.Tactic.FieldSimp
import Mathlib.Tactic.NormNum
import Mathlib.Tactic.Positivity
/-! Proofs about `Model/Fl.lean` (binary64 rounding on rationals).  Statements are repeated in `Props/C15.lean`. -/
namespace PhyVerif.Fl.Lemmas
open PhyVerif.Fl

/-! ### powers of two -/

theorem pow2_eq (e : Int) : pow2 e = (2 : ℚ) ^ e := rfl

theorem pow2_pos (e : Int) : 0 < pow2 e := by
  rw [pow2_eq]; positivity

theorem pow2_ne (e : Int) : pow2 e ≠ 0 := ne_of_gt (pow2_pos e)

theorem pow2_add (a b : Int) : pow2 (a + b) = pow2 a * pow2 b := by
  simp only [pow2_eq]; exact zpow_add₀ (by norm_num) a b

theorem pow2_sub (a b : Int) : pow2 (a - b) = pow2 a / pow2 b := by
  simp only [pow2_eq]; exact zpow_sub₀ (by norm_num) a b

theorem pow2_zero : pow2 0 = 1 := by simp [pow2_eq]

theorem pow2_one : pow2 1 = 2 := by simp [pow2_eq]

theorem pow2_succ (a : Int) : pow2 (a + 1) = 2 * pow2 a := by
  rw [pow2_add, pow2_one]; ring

theorem pow2_pred (a : Int) : pow2 (a - 1) = pow2 a / 2 := by
  rw [pow2_sub, pow2_one]

theorem pow2_le_iff (a b : Int) : pow2 a ≤ pow2 b ↔ a ≤ b := by
  simp only [pow2_eq]; exact zpow_le_zpow_iff_right₀ (by norm_num)

theorem pow2_lt_iff (a b : Int) : pow2 a < pow2 b ↔ a < b := by
  simp only [pow2_eq]; exact zpow_lt_zpow_iff_right₀ (by norm_num)

theorem pow2_natCast (n : Nat) : pow2 (n : Int) = ((2 ^ n : Nat) : ℚ) := by
  simp [pow2_eq]

/-- `2^n` for a natural `n`, as the cast of an integer -/
theorem pow2_intCast (n : Nat) : pow2 (n : Int) = (((2 : Int) ^ n : Int) : ℚ) := by
  simp [pow2_eq]

theorem pow2_52 : pow2 52 = (((2 : Int) ^ 52 : Int) : ℚ) := pow2_intCast 52
theorem pow2_53 : pow2 53 = (((2 : Int) ^ 53 : Int) : ℚ) := pow2_intCast 53
theorem pow2_53_eq : pow2 53 = 2 * pow2 52 := by rw [← pow2_succ]; rfl

/-! ### absolute value -/

theorem absR_eq (x : ℚ) : absR x = |x| := by
  unfold absR
  split
  · rw [abs_of_nonneg]; assumption
  · rw [abs_of_neg]; linarith

theorem absR_neg (x : ℚ) : absR (-x) = absR x := by simp [absR_eq]

theorem absR_of_pos (x : ℚ) (h : 0 < x) : absR x = x := by rw [absR_eq, abs_of_pos h]

theorem absR_pos (x : ℚ) (h : x ≠ 0) : 0 < absR x := by rw [absR_eq]; exact abs_pos.mpr h

/-! ### round half to even -/

theorem floor_le' (x : ℚ) : ((Rat.floor x : Int) : ℚ) ≤ x := (Rat.le_floor_iff).1 (le_refl _)

theorem lt_floor_add_one' (x : ℚ) : x < ((Rat.floor x : Int) : ℚ) + 1 := by
  have := (Rat.floor_lt_iff (a := x) (x := Rat.floor x + 1)).1 (by omega)
  push_cast at this
  exact this

theorem rne_cases (x : ℚ) :
    (rne x = Rat.floor x ∧ x - (Rat.floor x : ℚ) < 1 / 2) ∨
    (rne x = Rat.floor x + 1 ∧ 1 / 2 < x - (Rat.floor x : ℚ)) ∨
    (x - (Rat.floor x : ℚ) = 1 / 2 ∧ rne x % 2 = 0 ∧ (rne x = Rat.floor x ∨ rne x = Rat.floor x + 1)) := by
  unfold rne
  simp only []
  split
  · left; exact ⟨rfl, by assumption⟩
  · split
    · right; left; exact ⟨rfl, by assumption⟩
    · right; right
      rename_i h1 h2
      have : x - (Rat.floor x : ℚ) = 1 / 2 := by linarith [not_lt.1 h1, not_lt.1 h2]
      refine ⟨this, ?_⟩
      split
      · exact ⟨by assumption, Or.inl rfl⟩
      · rename_i h3
        exact ⟨by omega, Or.inr rfl⟩

/-- `|rne x - x| ≤ 1/2` -/
theorem rne_bounds (x : ℚ) : x - 1 / 2 ≤ (rne x : ℚ) ∧ (rne x : ℚ) ≤ x + 1 / 2 := by
  have h1 := floor_le' x
  have h2 := lt_floor_add_one' x
  rcases rne_cases x with ⟨h, hr⟩ | ⟨h, hr⟩ | ⟨hr, _, h | h⟩ <;> rw [h] <;> push_cast <;> constructor <;> linarith

theorem rne_intCast (z : Int) : rne (z : ℚ) = z := by
  have hf : Rat.floor (z : ℚ) = z := Rat.floor_intCast z
  rcases rne_cases (z : ℚ) with ⟨h, _⟩ | ⟨_, hr⟩ | ⟨hr, _⟩
  · rw [h, hf]
  · rw [hf] at hr; norm_num at hr
  · rw [hf] at hr; norm_num at hr

theorem rne_mono (x y : ℚ) (h : x ≤ y) : rne x ≤ rne y := by
  by_contra hc
  have hc' : rne y + 1 ≤ rne x := by omega
  have hq : ((rne y + 1 : Int) : ℚ) ≤ (rne x : ℚ) := by exact_mod_cast hc'
  push_cast at hq
  have bx := rne_bounds x
  have bY := rne_bounds y
  have : x = y := by linarith [bx.1, bx.2, bY.1, bY.2]
  rw [this] at hc
  exact hc (le_refl _)

/-- an integer is never closer to `x` than `rne x` -/
theorem rne_nearest (x : ℚ) (k : Int) : |(rne x : ℚ) - x| ≤ |(k : ℚ) - x| := by
  have b := rne_bounds x
  have h1 : |(rne x : ℚ) - x| ≤ 1 / 2 := by rw [abs_le]; constructor <;> linarith [b.1, b.2]
  by_cases hk : k = rne x
  · rw [hk]
  · rcases lt_or_gt_of_ne hk with hlt | hgt
    · have : ((k + 1 : Int) : ℚ) ≤ (rne x : ℚ) := by exact_mod_cast (by omega : k + 1 ≤ rne x)
      push_cast at this
      have h2 : (1 : ℚ) / 2 ≤ |(k : ℚ) - x| := by
        rw [le_abs]; right; linarith [b.1, b.2]
      linarith
    · have : ((rne x + 1 : Int) : ℚ) ≤ (k : ℚ) := by exact_mod_cast (by omega : rne x + 1 ≤ k)
      push_cast at this
      have h2 : (1 : ℚ) / 2 ≤ |(k : ℚ) - x| := by
        rw [le_abs]; left; linarith [b.1, b.2]
      linarith

/-- two different integers at the same distance: `x` is half-way and `rne x` is the even one -/
theorem rne_tie_even (x : ℚ) (k : Int) (hk : k ≠ rne x) (hd : |(k : ℚ) - x| = |(rne x : ℚ) - x|) :
    rne x % 2 = 0 := by
  have b := rne_bounds x
  have h1 := floor_le' x
  have h2 := lt_floor_add_one' x
  rcases rne_cases x with ⟨h, hr⟩ | ⟨h, hr⟩ | ⟨_, he, _⟩
  · exfalso
    -- rne x = floor, distance < 1/2, any other integer is at distance > 1/2
    have hd1 : |(rne x : ℚ) - x| < 1 / 2 := by rw [h, abs_lt]; constructor <;> linarith
    rcases lt_or_gt_of_ne hk with hlt | hgt
    · have : ((k + 1 : Int) : ℚ) ≤ (rne x : ℚ) := by exact_mod_cast (by omega : k + 1 ≤ rne x)
      push_cast at this
      have : (1 : ℚ) / 2 ≤ |(k : ℚ) - x| := by rw [le_abs]; right; rw [h] at this; linarith
      linarith
    · have : ((rne x + 1 : Int) : ℚ) ≤ (k : ℚ) := by exact_mod_cast (by omega : rne x + 1 ≤ k)
      push_cast at this
      have : (1 : ℚ) / 2 < |(k : ℚ) - x| := by rw [lt_abs]; left; rw [h] at this; linarith
      linarith
  · exfalso
    have hd1 : |(rne x : ℚ) - x| < 1 / 2 := by rw [h, abs_lt]; push_cast; constructor <;> linarith
    rcases lt_or_gt_of_ne hk with hlt | hgt
    · have : ((k + 1 : Int) : ℚ) ≤ (rne x : ℚ) := by exact_mod_cast (by omega : k + 1 ≤ rne x)
      rw [h] at this
      push_cast at this
      have : (1 : ℚ) / 2 < |(k : ℚ) - x| := by rw [lt_abs]; right; linarith
      linarith
    · have : ((rne x + 1 : Int) : ℚ) ≤ (k : ℚ) := by exact_mod_cast (by omega : rne x + 1 ≤ k)
      rw [h] at this
      push_cast at this
      have : (1 : ℚ) / 2 ≤ |(k : ℚ) - x| := by rw [le_abs]; left; linarith
      linarith
  · exact he

/-! ### `⌊log₂ q⌋` and the exponent of the last place -/

theorem ilog2_spec (q : ℚ) (hq : 0 < q) : pow2 (ilog2 q) ≤ q ∧ q < pow2 (ilog2 q + 1) := by
  have hn : 0 < q.num := Rat.num_pos.mpr hq
  have hn' : q.num.toNat ≠ 0 := by omega
  have hd' : q.den ≠ 0 := q.den_nz
  have hN : ((q.num.toNat : Nat) : ℚ) = (q.num : ℚ) := by
    have : ((q.num.toNat : Nat) : Int) = q.num := by omega
    exact_mod_cast this
  have hqe : q = ((q.num.toNat : Nat) : ℚ) / ((q.den : Nat) : ℚ) := by
    rw [hN]; exact (Rat.num_div_den q).symm
  have hDpos : (0 : ℚ) < ((q.den : Nat) : ℚ) := by exact_mod_cast q.den_pos
  have hNpos : (0 : ℚ) < ((q.num.toNat : Nat) : ℚ) := by rw [hN]; exact_mod_cast hn
  have a1 : pow2 (q.num.toNat.log2 : Nat) ≤ ((q.num.toNat : Nat) : ℚ) := by
    rw [pow2_natCast]; exact_mod_cast Nat.log2_self_le hn'
  have a2 : ((q.num.toNat : Nat) : ℚ) < 2 * pow2 (q.num.toNat.log2 : Nat) := by
    rw [← pow2_succ]
    have : pow2 ((q.num.toNat.log2 : Nat) + 1) = pow2 ((q.num.toNat.log2 + 1 : Nat) : Int) := by push_cast; rfl
    rw [this, pow2_natCast]; exact_mod_cast Nat.lt_log2_self
  have b1 : pow2 (q.den.log2 : Nat) ≤ ((q.den : Nat) : ℚ) := by
    rw [pow2_natCast]; exact_mod_cast Nat.log2_self_le hd'
  have b2 : ((q.den : Nat) : ℚ) < 2 * pow2 (q.den.log2 : Nat) := by
    rw [← pow2_succ]
    have : pow2 ((q.den.log2 : Nat) + 1) = pow2 ((q.den.log2 + 1 : Nat) : Int) := by push_cast; rfl
    rw [this, pow2_natCast]; exact_mod_cast Nat.lt_log2_self
  unfold ilog2
  simp only []
  generalize ((q.num.toNat : Nat) : ℚ) = N at *
  generalize ((q.den : Nat) : ℚ) = D at *
  generalize ((q.num.toNat.log2 : Nat) : Int) = a at *
  generalize ((q.den.log2 : Nat) : Int) = b at *
  have hA := pow2_pos a
  have hB := pow2_pos b
  -- the two general bounds
  have up : N / D < pow2 (a - b + 1) := by
    rw [pow2_succ, pow2_sub, ← mul_div_assoc, div_lt_div_iff₀ hDpos hB]
    nlinarith
  have lo : pow2 (a - b - 1) < N / D := by
    rw [pow2_pred, pow2_sub, div_div, div_lt_div_iff₀ (by positivity) hDpos]
    nlinarith
  rw [← hqe] at up lo
  split
  · rename_i h
    exact ⟨h, up⟩
  · rename_i h
    refine ⟨le_of_lt lo, ?_⟩
    rw [show a - b - 1 + 1 = a - b by ring]
    exact not_le.1 h

/-- the exponent is determined by the binade -/
theorem ilog2_unique (q : ℚ) (hq : 0 < q) (e : Int) (h1 : pow2 e ≤ q) (h2 : q < pow2 (e + 1)) : ilog2 q = e := by
  obtain ⟨s1, s2⟩ := ilog2_spec q hq
  have c1 : ilog2 q < e + 1 := (pow2_lt_iff _ _).1 (lt_of_le_of_lt s1 h2)
  have c2 : e < ilog2 q + 1 := (pow2_lt_iff _ _).1 (lt_of_le_of_lt h1 s2)
  omega

theorem expOf_spec (q : ℚ) (hq : 0 < q) : pow2 (expOf q + 52) ≤ q ∧ q < pow2 (expOf q + 53) := by
  obtain ⟨s1, s2⟩ := ilog2_spec q hq
  unfold expOf
  rw [show ilog2 q - 52 + 52 = ilog2 q by ring, show ilog2 q - 52 + 53 = ilog2 q + 1 by ring]
  exact ⟨s1, s2⟩

theorem expOf_unique (q : ℚ) (hq : 0 < q) (e : Int) (h1 : pow2 (e + 52) ≤ q) (h2 : q < pow2 (e + 53)) :
    expOf q = e := by
  unfold expOf
  rw [ilog2_unique q hq (e + 52) h1 (by rw [show e + 52 + 1 = e + 53 by ring]; exact h2)]
  ring

theorem expOf_mono (p q : ℚ) (hp : 0 < p) (h : p ≤ q) : expOf p ≤ expOf q := by
  obtain ⟨s1, _⟩ := expOf_spec p hp
  obtain ⟨_, t2⟩ := expOf_spec q (lt_of_lt_of_le hp h)
  have : expOf p + 52 < expOf q + 53 := (pow2_lt_iff _ _).1 (lt_of_le_of_lt (le_trans s1 h) t2)
  omega

/-- the scaled significand `q / 2^e` lies in `[2^52, 2^53)` -/
theorem scaled_bounds (q : ℚ) (hq : 0 < q) :
    pow2 52 ≤ q / pow2 (expOf q) ∧ q / pow2 (expOf q) < pow2 53 := by
  obtain ⟨s1, s2⟩ := expOf_spec q hq
  have hp := pow2_pos (expOf q)
  rw [pow2_add] at s1 s2
  constructor
  · rw [le_div_iff₀ hp]; linarith
  · rw [div_lt_iff₀ hp]; linarith

/-- … so the rounded significand lies in `[2^52, 2^53]` -/
theorem sig_bounds (q : ℚ) (hq : 0 < q) :
    (2 : Int) ^ 52 ≤ rne (q / pow2 (expOf q)) ∧ rne (q / pow2 (expOf q)) ≤ (2 : Int) ^ 53 := by
  obtain ⟨s1, s2⟩ := scaled_bounds q hq
  constructor
  · have := rne_mono _ _ s1
    rw [pow2_52, rne_intCast] at this
    exact this
  · have := rne_mono _ _ (le_of_lt s2)
    rw [pow2_53, rne_intCast] at this
    exact this

/-! ### rounding of a positive rational -/

theorem roundPos_eq (q : ℚ) : roundPos q = (rne (q / pow2 (expOf q)) : ℚ) * pow2 (expOf q) := rfl

theorem scaled_mul (q : ℚ) (e : Int) : q / pow2 e * pow2 e = q := by
  field_simp [pow2_ne e]

/-- distance to a grid point, in units of the last place -/
theorem grid_dist (q : ℚ) (e : Int) (k : Int) :
    |(k : ℚ) * pow2 e - q| = |(k : ℚ) - q / pow2 e| * pow2 e := by
  have hp := pow2_pos e
  rw [← abs_of_pos hp, ← abs_mul, abs_of_pos hp]
  congr 1
  rw [sub_mul, scaled_mul]

theorem roundPos_half_ulp (q : ℚ) : |roundPos q - q| ≤ pow2 (expOf q - 1) := by
  rw [roundPos_eq, grid_dist, pow2_pred]
  have b := rne_bounds (q / pow2 (expOf q))
  have h1 : |(rne (q / pow2 (expOf q)) : ℚ) - q / pow2 (expOf q)| ≤ 1 / 2 := by
    rw [abs_le]; constructor <;> linarith [b.1, b.2]
  have hp := pow2_pos (expOf q)
  nlinarith

theorem roundPos_bounds (q : ℚ) (hq : 0 < q) :
    pow2 (expOf q + 52) ≤ roundPos q ∧ roundPos q ≤ pow2 (expOf q + 53) := by
  obtain ⟨s1, s2⟩ := sig_bounds q hq
  have hp := pow2_pos (expOf q)
  have c1 : ((2 : Int) ^ 52 : Int) ≤ rne (q / pow2 (expOf q)) := s1
  have c2 : rne (q / pow2 (expOf q)) ≤ ((2 : Int) ^ 53 : Int) := s2
  have d1 : pow2 52 ≤ (rne (q / pow2 (expOf q)) : ℚ) := by
    rw [pow2_52]; exact_mod_cast c1
  have d2 : (rne (q / pow2 (expOf q)) : ℚ) ≤ pow2 53 := by
    rw [pow2_53]; exact_mod_cast c2
  rw [roundPos_eq, add_comm (expOf q) 52, add_comm (expOf q) 53, pow2_add, pow2_add]
  constructor <;> nlinarith

theorem roundPos_pos (q : ℚ) (hq : 0 < q) : 0 < roundPos q :=
  lt_of_lt_of_le (pow2_pos _) (roundPos_bounds q hq).1

/-- the result in normalised form; `even = true` additionally promises an even significand when the rounded
significand `rne (q / 2^e)` is even -/
theorem roundPos_normal (q : ℚ) (hq : 0 < q) :
    ∃ (m e : Int), 2 ^ 52 ≤ m ∧ m < 2 ^ 53 ∧ roundPos q = (m : ℚ) * pow2 e ∧
      (rne (q / pow2 (expOf q)) % 2 = 0 → m % 2 = 0) ∧
      (e = expOf q ∨ (e = expOf q + 1 ∧ rne (q / pow2 (expOf q)) = 2 ^ 53)) := by
  obtain ⟨s1, s2⟩ := sig_bounds q hq
  by_cases h : rne (q / pow2 (expOf q)) < 2 ^ 53
  · exact ⟨_, expOf q, s1, h, rfl, fun h => h, Or.inl rfl⟩
  · have hm : rne (q / pow2 (expOf q)) = 2 ^ 53 := by omega
    refine ⟨2 ^ 52, expOf q + 1, by norm_num, by norm_num, ?_, fun _ => by norm_num, Or.inr ⟨rfl, hm⟩⟩
    rw [roundPos_eq, hm, pow2_succ]
    push_cast
    ring

theorem isDouble_neg (r : ℚ) (h : IsDouble r) : IsDouble (-r) := by
  obtain ⟨k, e, hk, rfl⟩ := h
  exact ⟨-k, e, by simpa using hk, by push_cast; ring⟩

/-- a double is either a multiple of the last place of `q`'s binade, or strictly further from `q` than the
rounded value -/
theorem on_grid_or_further (q : ℚ) (hq : 0 < q) (r : ℚ) (hr : IsDouble r) :
    (∃ k : Int, r = (k : ℚ) * pow2 (expOf q)) ∨ |roundPos q - q| < |r - q| := by
  obtain ⟨k, e', hk, rfl⟩ := hr
  obtain ⟨s1, s2⟩ := expOf_spec q hq
  have hu := roundPos_half_ulp q
  have hpe := pow2_pos (expOf q)
  have hpe' := pow2_pos e'
  have hlt : pow2 (expOf q - 1) < pow2 (expOf q + 52) := (pow2_lt_iff _ _).2 (by omega)
  by_cases hk0 : k ≤ 0
  · right
    have : (k : ℚ) * pow2 e' ≤ 0 := by
      have : (k : ℚ) ≤ 0 := by exact_mod_cast hk0
      nlinarith
    rw [abs_of_nonpos (by linarith : (k : ℚ) * pow2 e' - q ≤ 0)]
    linarith
  · have hkpos : 0 < k := by omega
    by_cases he : expOf q ≤ e'
    · left
      refine ⟨k * 2 ^ (e' - expOf q).toNat, ?_⟩
      have : pow2 e' = pow2 (((e' - expOf q).toNat : Nat) : Int) * pow2 (expOf q) := by
        rw [← pow2_add]; congr 1; omega
      rw [this, pow2_intCast]
      push_cast
      ring
    · have hk53 : (k : ℚ) ≤ pow2 53 := by
        rw [pow2_53]
        have : k ≤ 2 ^ 53 := by omega
        exact_mod_cast this
      have hrle : (k : ℚ) * pow2 e' ≤ pow2 (expOf q + 52) := by
        calc (k : ℚ) * pow2 e' ≤ pow2 53 * pow2 e' := by nlinarith
          _ = pow2 (53 + e') := (pow2_add _ _).symm
          _ ≤ pow2 (expOf q + 52) := (pow2_le_iff _ _).2 (by omega)
      have hg : pow2 (expOf q + 52) = (((2 : Int) ^ 52 : Int) : ℚ) * pow2 (expOf q) := by
        rw [add_comm, pow2_add, pow2_52]
      rcases eq_or_lt_of_le hrle with heq | hlt'
      · left; exact ⟨2 ^ 52, by rw [heq, hg]⟩
      · right
        have hn : |roundPos q - q| ≤ |pow2 (expOf q + 52) - q| := by
          rw [hg, roundPos_eq, grid_dist, grid_dist]
          exact mul_le_mul_of_nonneg_right (rne_nearest _ _) (le_of_lt hpe)
        rw [abs_of_nonpos (by linarith : pow2 (expOf q + 52) - q ≤ 0)] at hn
        rw [abs_of_nonpos (by linarith : (k : ℚ) * pow2 e' - q ≤ 0)]
        linarith

theorem roundPos_nearest (q : ℚ) (hq : 0 < q) (r : ℚ) (hr : IsDouble r) : |roundPos q - q| ≤ |r - q| := by
  rcases on_grid_or_further q hq r hr with ⟨k, rfl⟩ | h
  · rw [roundPos_eq, grid_dist, grid_dist]
    exact mul_le_mul_of_nonneg_right (rne_nearest _ _) (le_of_lt (pow2_pos _))
  · exact le_of_lt h

theorem roundPos_tie (q : ℚ) (hq : 0 < q) (r : ℚ) (hr : IsDouble r) (hne : r ≠ roundPos q)
    (hd : |r - q| = |roundPos q - q|) : rne (q / pow2 (expOf q)) % 2 = 0 := by
  rcases on_grid_or_further q hq r hr with ⟨k, rfl⟩ | h
  · have hp := pow2_pos (expOf q)
    apply rne_tie_even _ k
    · intro hk; apply hne; rw [roundPos_eq, hk]
    · rw [roundPos_eq, grid_dist, grid_dist] at hd
      exact mul_right_cancel₀ (ne_of_gt hp) hd
  · rw [hd] at h; exact absurd h (lt_irrefl _)

theorem roundPos_mono (p q : ℚ) (hp : 0 < p) (h : p ≤ q) : roundPos p ≤ roundPos q := by
  have hq : 0 < q := lt_of_lt_of_le hp h
  have he := expOf_mono p q hp h
  rcases eq_or_lt_of_le he with heq | hlt
  · rw [roundPos_eq, roundPos_eq, heq]
    have hpw := pow2_pos (expOf q)
    have : rne (p / pow2 (expOf q)) ≤ rne (q / pow2 (expOf q)) :=
      rne_mono _ _ (div_le_div_of_nonneg_right h (le_of_lt hpw))
    have : (rne (p / pow2 (expOf q)) : ℚ) ≤ (rne (q / pow2 (expOf q)) : ℚ) := by exact_mod_cast this
    nlinarith
  · calc roundPos p ≤ pow2 (expOf p + 53) := (roundPos_bounds p hp).2
      _ ≤ pow2 (expOf q + 52) := (pow2_le_iff _ _).2 (by omega)
      _ ≤ roundPos q := (roundPos_bounds q hq).1

/-- identity on the positive doubles -/
theorem roundPos_id (k e : Int) (hk0 : 0 < k) (hk : k ≤ 2 ^ 53) : roundPos ((k : ℚ) * pow2 e) = (k : ℚ) * pow2 e := by
  have hkq : (0 : ℚ) < (k : ℚ) := by exact_mod_cast hk0
  have hq : 0 < (k : ℚ) * pow2 e := mul_pos hkq (pow2_pos e)
  obtain ⟨s1, _⟩ := expOf_spec _ hq
  have hk53 : (k : ℚ) ≤ pow2 53 := by
    rw [pow2_53]; exact_mod_cast hk
  have hpe := pow2_pos e
  have hle : pow2 (expOf ((k : ℚ) * pow2 e) + 52) ≤ pow2 (53 + e) := by
    rw [pow2_add 53 e]; exact le_trans s1 (by nlinarith)
  have hE : expOf ((k : ℚ) * pow2 e) ≤ e + 1 := by
    have := (pow2_le_iff _ _).1 hle; omega
  generalize hE' : expOf ((k : ℚ) * pow2 e) = E at *
  rw [roundPos_eq, hE']
  by_cases h : E ≤ e
  · have hsplit : pow2 e = pow2 (((e - E).toNat : Nat) : Int) * pow2 E := by
      rw [← pow2_add]; congr 1; omega
    have : (k : ℚ) * pow2 e / pow2 E = ((k * 2 ^ (e - E).toNat : Int) : ℚ) := by
      rw [hsplit, pow2_intCast]; field_simp [pow2_ne E]; push_cast; ring
    rw [this, rne_intCast, hsplit, pow2_intCast]
    push_cast; ring
  · have hEe : E = e + 1 := by omega
    subst hEe
    -- then k = 2^53
    have h2 : pow2 (e + 1 + 52) = pow2 53 * pow2 e := by rw [← pow2_add]; congr 1; ring
    rw [h2] at s1
    have hk' : (k : ℚ) = pow2 53 := by
      apply le_antisymm hk53
      exact le_of_mul_le_mul_right s1 hpe
    have : (k : ℚ) * pow2 e / pow2 (e + 1) = (((2 : Int) ^ 52 : Int) : ℚ) := by
      rw [hk', pow2_succ, ← pow2_52, pow2_53_eq]
      field_simp [pow2_ne e]
    rw [this, rne_intCast, hk', pow2_succ, ← pow2_52, pow2_53_eq]
    ring

/-! ### `roundDouble` -/

theorem roundDouble_zero : roundDouble 0 = 0 := by simp [roundDouble]

theorem roundDouble_of_pos (q : ℚ) (h : 0 < q) : roundDouble q = roundPos q := by
  unfold roundDouble; rw [if_neg (ne_of_gt h), if_pos h]

theorem roundDouble_of_neg (q : ℚ) (h : q < 0) : roundDouble q = -roundPos (-q) := by
  unfold roundDouble; rw [if_neg (ne_of_lt h), if_neg (not_lt.2 (le_of_lt h))]

/-- odd symmetry -/
theorem roundDouble_neg (q : ℚ) : roundDouble (-q) = -roundDouble q := by
  rcases lt_trichotomy q 0 with h | h | h
  · rw [roundDouble_of_neg q h, roundDouble_of_pos (-q) (by linarith)]; ring
  · subst h; simp [roundDouble_zero]
  · rw [roundDouble_of_pos q h, roundDouble_of_neg (-q) (by linarith), neg_neg]

theorem roundDouble_pos (q : ℚ) (h : 0 < q) : 0 < roundDouble q := by
  rw [roundDouble_of_pos q h]; exact roundPos_pos q h

theorem roundDouble_neg_of_neg (q : ℚ) (h : q < 0) : roundDouble q < 0 := by
  rw [roundDouble_of_neg q h]; have := roundPos_pos (-q) (by linarith); linarith

theorem roundDouble_eq_zero_iff (q : ℚ) : roundDouble q = 0 ↔ q = 0 := by
  constructor
  · intro h
    rcases lt_trichotomy q 0 with h' | h' | h'
    · have := roundDouble_neg_of_neg q h'; linarith
    · exact h'
    · have := roundDouble_pos q h'; linarith
  · rintro rfl; exact roundDouble_zero

theorem roundDouble_nonneg (q : ℚ) (h : 0 ≤ q) : 0 ≤ roundDouble q := by
  rcases eq_or_lt_of_le h with h' | h'
  · rw [← h', roundDouble_zero]
  · exact le_of_lt (roundDouble_pos q h')

theorem absR_roundDouble (q : ℚ) (hq : q ≠ 0) : absR (roundDouble q) = roundPos (absR q) := by
  rcases lt_or_gt_of_ne hq with h | h
  · rw [roundDouble_of_neg q h, absR_neg, absR_of_pos _ (roundPos_pos _ (by linarith)), absR_eq,
      abs_of_neg h]
  · rw [roundDouble_of_pos q h, absR_of_pos _ (roundPos_pos _ h), absR_of_pos _ h]

/-- distance to `q`, reduced to the positive case -/
theorem dist_roundDouble (q : ℚ) (hq : q ≠ 0) : |roundDouble q - q| = |roundPos (absR q) - absR q| := by
  rcases lt_or_gt_of_ne hq with h | h
  · rw [roundDouble_of_neg q h, absR_eq, abs_of_neg h, ← abs_neg]; congr 1; ring
  · rw [roundDouble_of_pos q h, absR_of_pos _ h]

/-- REPRESENTABLE: the result is zero (only for `q = 0`) or `± m · 2^e` with `2^52 ≤ m < 2^53` -/
theorem roundDouble_representable (q : ℚ) : (q = 0 ∧ roundDouble q = 0) ∨ (q ≠ 0 ∧ Normal53 (roundDouble q)) := by
  by_cases hq : q = 0
  · left; exact ⟨hq, by rw [hq, roundDouble_zero]⟩
  · right
    refine ⟨hq, ?_⟩
    obtain ⟨m, e, h1, h2, h3, _⟩ := roundPos_normal (absR q) (absR_pos q hq)
    exact ⟨m, e, h1, h2, by rw [absR_roundDouble q hq, h3]⟩

/-- HALF AN ULP: `|roundDouble q - q| ≤ 2^(e-1)`, `2^e` the unit in the last place of `q`'s binade -/
theorem roundDouble_half_ulp (q : ℚ) (hq : q ≠ 0) : absR (roundDouble q - q) ≤ pow2 (ulpExp q - 1) := by
  rw [absR_eq, dist_roundDouble q hq]; exact roundPos_half_ulp (absR q)

/-- … and the last place is relative: `2^(e+52) ≤ |q| < 2^(e+53)` -/
theorem ulpExp_spec (q : ℚ) (hq : q ≠ 0) : pow2 (ulpExp q + 52) ≤ absR q ∧ absR q < pow2 (ulpExp q + 53) :=
  expOf_spec (absR q) (absR_pos q hq)

/-- relative form: `|roundDouble q - q| ≤ 2^-53 · |q|` -/
theorem roundDouble_rel (q : ℚ) : absR (roundDouble q - q) ≤ pow2 (-53) * absR q := by
  by_cases hq : q = 0
  · subst hq; simp [roundDouble_zero, absR]
  · have h1 := roundDouble_half_ulp q hq
    have h2 := (ulpExp_spec q hq).1
    have : pow2 (ulpExp q - 1) = pow2 (-53) * pow2 (ulpExp q + 52) := by rw [← pow2_add]; congr 1; ring
    rw [this] at h1
    have := pow2_pos (-53)
    nlinarith

/-- NEAREST: no number with 53 significant bits is closer to `q` -/
theorem roundDouble_nearest (q r : ℚ) (hr : IsDouble r) : absR (roundDouble q - q) ≤ absR (r - q) := by
  rw [absR_eq, absR_eq]
  rcases lt_trichotomy q 0 with h | h | h
  · rw [roundDouble_of_neg q h]
    have := roundPos_nearest (-q) (by linarith) (-r) (isDouble_neg r hr)
    rw [← abs_neg, ← abs_neg (r - q)]
    convert this using 2 <;> ring
  · subst h; simp [roundDouble_zero]
  · rw [roundDouble_of_pos q h]; exact roundPos_nearest q h r hr

/-- TIES TO EVEN: when another 53-bit number is exactly as close, the result has an even significand -/
theorem roundDouble_tie_even (q r : ℚ) (hr : IsDouble r) (hne : r ≠ roundDouble q)
    (hd : absR (r - q) = absR (roundDouble q - q)) :
    ∃ (m e : Int), 2 ^ 52 ≤ m ∧ m < 2 ^ 53 ∧ m % 2 = 0 ∧ absR (roundDouble q) = (m : ℚ) * pow2 e := by
  rw [absR_eq, absR_eq] at hd
  have hq : q ≠ 0 := by
    rintro rfl
    rw [roundDouble_zero] at hne hd
    simp at hd
    exact hne hd
  have key : rne (absR q / pow2 (expOf (absR q))) % 2 = 0 := by
    rcases lt_or_gt_of_ne hq with h | h
    · rw [absR_eq, abs_of_neg h]
      apply roundPos_tie (-q) (by linarith) (-r) (isDouble_neg r hr)
      · intro hh; apply hne; rw [roundDouble_of_neg q h, ← hh]; ring
      · rw [roundDouble_of_neg q h] at hd
        rw [← abs_neg, ← abs_neg (roundPos (-q) - -q)]
        convert hd using 2 <;> ring
    · rw [absR_of_pos q h]
      apply roundPos_tie q h r hr
      · rw [← roundDouble_of_pos q h]; exact hne
      · rw [← roundDouble_of_pos q h]; exact hd
  obtain ⟨m, e, h1, h2, h3, h4, _⟩ := roundPos_normal (absR q) (absR_pos q hq)
  exact ⟨m, e, h1, h2, h4 key, by rw [absR_roundDouble q hq, h3]⟩

/-- MONOTONE -/
theorem roundDouble_mono (p q : ℚ) (h : p ≤ q) : roundDouble p ≤ roundDouble q := by
  rcases lt_trichotomy p 0 with hp | hp | hp
  · rcases lt_trichotomy q 0 with hq | hq | hq
    · rw [roundDouble_of_neg p hp, roundDouble_of_neg q hq]
      have := roundPos_mono (-q) (-p) (by linarith) (by linarith)
      linarith
    · subst hq; rw [roundDouble_zero]; exact le_of_lt (roundDouble_neg_of_neg p hp)
    · exact le_trans (le_of_lt (roundDouble_neg_of_neg p hp)) (le_of_lt (roundDouble_pos q hq))
  · subst hp; rw [roundDouble_zero]; exact roundDouble_nonneg q h
  · rw [roundDouble_of_pos p hp, roundDouble_of_pos q (lt_of_lt_of_le hp h)]
    exact roundPos_mono p q hp h

/-- IDENTITY on the numbers with 53 significant bits -/
theorem roundDouble_of_isDouble (x : ℚ) (h : IsDouble x) : roundDouble x = x := by
  obtain ⟨k, e, hk, rfl⟩ := h
  have hpe := pow2_pos e
  rcases lt_trichotomy k 0 with h | h | h
  · have hkq : (k : ℚ) < 0 := by exact_mod_cast h
    rw [roundDouble_of_neg _ (by nlinarith)]
    have := roundPos_id (-k) e (by omega) (by omega)
    push_cast at this
    rw [show -((k : ℚ) * pow2 e) = -(k : ℚ) * pow2 e by ring, this]; ring
  · subst h; simp [roundDouble_zero]
  · have hkq : (0 : ℚ) < (k : ℚ) := by exact_mod_cast h
    rw [roundDouble_of_pos _ (by nlinarith)]
    exact roundPos_id k e h (by omega)

theorem normal53_isDouble (x : ℚ) (h : Normal53 x) : IsDouble x := by
  obtain ⟨m, e, h1, h2, h3⟩ := h
  rw [absR_eq] at h3
  rcases abs_cases x with ⟨ha, _⟩ | ⟨ha, _⟩
  · exact ⟨m, e, by omega, by rw [← h3, ha]⟩
  · exact ⟨-m, e, by omega, by push_cast; rw [neg_mul, ← h3, ha]; ring⟩

theorem roundDouble_isDouble (q : ℚ) : IsDouble (roundDouble q) := by
  rcases roundDouble_representable q with ⟨_, h⟩ | ⟨_, h⟩
  · rw [h]; exact ⟨0, 0, by simp, by simp⟩
  · exact normal53_isDouble _ h

/-- IDEMPOTENT -/
theorem roundDouble_idem (q : ℚ) : roundDouble (roundDouble q) = roundDouble q :=
  roundDouble_of_isDouble _ (roundDouble_isDouble q)

theorem isDoubleB_iff (x : ℚ) : isDoubleB x = true ↔ IsDouble x := by
  unfold isDoubleB
  rw [beq_iff_eq]
  constructor
  · intro h; rw [← h]; exact roundDouble_isDouble x
  · exact roundDouble_of_isDouble x

theorem isDouble_intCast (z : Int) (h : z.natAbs ≤ 2 ^ 53) : IsDouble (z : ℚ) :=
  ⟨z, 0, h, by rw [pow2_zero, mul_one]⟩

/-- integers up to `2^53` in magnitude are doubles -/
theorem roundDouble_intCast (z : Int) (h : z.natAbs ≤ 2 ^ 53) : roundDouble (z : ℚ) = z :=
  roundDouble_of_isDouble _ (isDouble_intCast z h)

theorem isDouble_mul_pow2 (x : ℚ) (j : Int) (h : IsDouble x) : IsDouble (x * pow2 j) := by
  obtain ⟨k, e, hk, rfl⟩ := h
  exact ⟨k, e + j, hk, by rw [pow2_add]; ring⟩

/-- halving is exact (no underflow in this model) -/
theorem roundDouble_half (x : ℚ) (h : IsDouble x) : roundDouble (1 / 2 * x) = 1 / 2 * x := by
  apply roundDouble_of_isDouble
  have := isDouble_mul_pow2 x (-1) h
  rw [show pow2 (-1) = 1 / 2 by simp [pow2_eq]] at this
  rw [mul_comm]; exact this

/-- BINARY64: on `InRange` the result is zero or a NORMAL double (exponent within the format: no overflow, no
subnormal) -/
theorem roundDouble_binary64 (q : ℚ) (h : InRange q) :
    (q = 0 ∧ roundDouble q = 0) ∨ (q ≠ 0 ∧ NormalBinary64 (roundDouble q)) := by
  by_cases hq : q = 0
  · left; exact ⟨hq, by rw [hq, roundDouble_zero]⟩
  · right
    refine ⟨hq, ?_⟩
    rcases h with h | ⟨hlo, hhi⟩
    · exact absurd h hq
    · have ha := absR_pos q hq
      obtain ⟨s1, s2⟩ := expOf_spec (absR q) ha
      have e1 : -1074 ≤ expOf (absR q) := by
        have := (pow2_lt_iff _ _).1 (lt_of_le_of_lt hlo s2); omega
      have hp970 := pow2_pos 970
      have e2 : expOf (absR q) ≤ 971 := by
        have := (pow2_lt_iff _ _).1 (lt_of_le_of_lt s1 (by linarith : absR q < pow2 1024)); omega
      obtain ⟨m, e, h1, h2, h3, _, h5⟩ := roundPos_normal (absR q) ha
      refine ⟨m, e, h1, h2, ?_, ?_, by rw [absR_roundDouble q hq, h3]⟩
      · rcases h5 with h5 | ⟨h5, _⟩ <;> omega
      · rcases h5 with h5 | ⟨h5, h6⟩
        · omega
        · by_contra hc
          have hE : expOf (absR q) = 971 := by omega
          rw [hE] at h6
          have b := (rne_bounds (absR q / pow2 971)).2
          rw [h6] at b
          have hp := pow2_pos 971
          have hy : absR q / pow2 971 < pow2 53 - 1 / 2 := by
            rw [div_lt_iff₀ hp]
            have a1 : pow2 53 * pow2 971 = pow2 1024 := by rw [← pow2_add]; rfl
            have a2 : pow2 971 = 2 * pow2 970 := by rw [← pow2_succ]; rfl
            nlinarith
          rw [pow2_53] at hy
          push_cast at b hy
          linarith

end PhyVerif.Fl.Lemmas
