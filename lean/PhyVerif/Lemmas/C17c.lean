import PhyVerif.Lemmas.C17b
/-! C17: only the ORDER of spike times and chunk bounds enters the selection (`Inp.mapTimes`). -/
namespace PhyVerif.C17.Lemmas
open PhyVerif PhyVerif.C17

theorem le_iff_of_strict (f : Int → Int) (hf : ∀ a b, a < b → f a < f b) (a b : Int) : f a ≤ f b ↔ a ≤ b := by
  constructor
  · intro h
    exact Int.not_lt.mp (fun hc => by have := hf b a hc; omega)
  · intro h
    rcases Int.lt_or_eq_of_le h with h | h
    · exact Int.le_of_lt (hf a b h)
    · rw [h]; exact Int.le_refl _

theorem ssRight_map (f : Int → Int) (hf : ∀ a b, a < b → f a < f b) (b : List Int) (t : Int) :
    Np.ssRight (b.map f) (f t) = Np.ssRight b t := by
  unfold Np.ssRight
  rw [List.countP_map]
  apply List.countP_congr
  intro a _
  simp [le_iff_of_strict f hf]

theorem chunksKept_map (f : Int → Int) (bounds : List Int) (nKept : Nat) :
    chunksKept (bounds.map f) nKept = (chunksKept bounds nKept).map f := by
  unfold chunksKept
  rw [List.length_map, List.map_flatMap]
  congr 1
  funext i
  rw [← List.map_drop, ← List.map_take]

theorem mem_spikesOf_lt (clusters : List Nat) (c i : Nat) (h : i ∈ spikesOf clusters c) : i < clusters.length := by
  unfold spikesOf at h
  rw [List.mem_filter, List.mem_range] at h
  exact h.1

theorem eligible_mapTimes (f : Int → Int) (hf : ∀ a b, a < b → f a < f b) (x : Inp)
    (hd : x.times.length = x.clusters.length) (c : Nat) : eligible (x.mapTimes f) c = eligible x c := by
  have key : (spikesOf x.clusters c).filter
        (fun i => timeInChunks (chunksKept (x.bounds.map f) x.nKept) ((x.times.map f).getD i 0)) =
      (spikesOf x.clusters c).filter (fun i => timeInChunks (chunksKept x.bounds x.nKept) (x.times.getD i 0)) := by
    apply List.filter_congr
    intro i hi
    have hlt : i < x.times.length := by rw [hd]; exact mem_spikesOf_lt _ _ _ hi
    have h1 : (x.times.map f).getD i 0 = f (x.times.getD i 0) := by
      rw [List.getD_eq_getElem?_getD, List.getD_eq_getElem?_getD, List.getElem?_map, List.getElem?_eq_getElem hlt]
      rfl
    unfold timeInChunks
    rw [h1, chunksKept_map, ssRight_map f hf]
  unfold eligible Inp.mapTimes
  simp only []
  rw [key]

theorem selectWith_mapTimes (choose : List Nat → Nat → List Nat) (f : Int → Int) (hf : ∀ a b, a < b → f a < f b)
    (x : Inp) (hd : x.times.length = x.clusters.length) : selectWith choose (x.mapTimes f) = selectWith choose x := by
  have hc : ∀ c, selectCluster choose (x.mapTimes f) c = selectCluster choose x c := by
    intro c
    unfold selectCluster
    rw [eligible_mapTimes f hf x hd c]
    rfl
  have hfun : selectCluster choose (x.mapTimes f) = selectCluster choose x := funext hc
  unfold selectWith
  have : (x.mapTimes f).req = x.req := rfl
  rw [this, hfun]

end PhyVerif.C17.Lemmas
