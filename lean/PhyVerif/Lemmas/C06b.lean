import PhyVerif.Model.C06b
import PhyVerif.Spec.C06b
import PhyVerif.Lemmas.C06
/-! Further proofs for C06: shapes, order independence at the `get_features` level, the PCA route.
Statements: `Props/C06.lean`. -/
namespace PhyVerif.C06.Lemmas
open PhyVerif PhyVerif.C06

variable {β : Type}

/-! ## shapes -/

theorem scatterRow_length (zero : β) (chans : List Nat) (d : List β) (c : List Int) :
    (scatterRow zero chans d c).length = chans.length := by
  show (List.take chans.length (scatter (fun p : Int × β => locOf chans p.1) (fun p => p.2) (c.zip d)
      (List.replicate (chans.length + 1) zero))).length = _
  rw [List.length_take, scatter_length, List.length_replicate]
  omega

theorem fromSparse_lengths (zero : β) (data : List (List β)) (cols : List (List Int)) (chans : List Nat)
    (out : List (List β)) (ho : fromSparse zero data cols chans = some out) :
    data.length = cols.length := by
  unfold fromSparse at ho
  split at ho
  · cases ho
  · split at ho
    · cases ho
    · rename_i h
      simpa using h

theorem fromSparse_shape (zero : β) (data : List (List β)) (cols : List (List Int)) (chans : List Nat)
    (out : List (List β)) (ho : fromSparse zero data cols chans = some out) :
    out.length = data.length ∧ ∀ r ∈ out, r.length = chans.length := by
  have hl := fromSparse_lengths zero data cols chans out ho
  obtain ⟨_, rfl⟩ := fromSparse_eq_some zero data cols chans out ho
  refine ⟨by rw [List.length_map, List.length_zip, hl]; omega, ?_⟩
  intro r hr
  obtain ⟨p, _, rfl⟩ := List.mem_map.1 hr
  exact scatterRow_length zero chans p.1 p.2

theorem mapM_some_length {α γ : Type} (f : α → Option γ) :
    ∀ (l : List α) (out : List γ), l.mapM f = some out → out.length = l.length
  | [], out, h => by
    simp only [List.mapM_nil, Option.pure_def, Option.some.injEq] at h
    subst h; rfl
  | a :: l, out, h => by
    rw [List.mapM_cons] at h
    cases hfa : f a with
    | none => rw [hfa] at h; cases h
    | some b =>
      rw [hfa] at h
      cases hl : l.mapM f with
      | none => rw [hl] at h; cases h
      | some bs =>
        rw [hl] at h
        simp only [Option.bind_eq_bind, Option.bind_some, Option.pure_def, Option.some.injEq] at h
        subst h
        simp [mapM_some_length f l bs hl]

theorem gatherRows_length (nan : β) (sf : Sparse β) (nloc : Nat) (spikeIds : List Nat)
    (feats : List (List β)) (h : gatherRows nan sf nloc spikeIds = some feats) :
    feats.length = spikeIds.length := by
  obtain ⟨data, cols, rows⟩ := sf
  cases rows with
  | none => exact mapM_some_length _ _ _ h
  | some rows =>
    simp only [gatherRows, Option.bind_eq_bind, Option.pure_def] at h
    cases h1 : Np.indexOf ((intersect1d spikeIds rows).map Int.ofNat) rows with
    | none => rw [h1] at h; cases h
    | some rel =>
      rw [h1] at h
      cases h2 : Np.indexOf ((intersect1d spikeIds rows).map Int.ofNat) spikeIds with
      | none => rw [h2] at h; cases h
      | some o =>
        rw [h2] at h
        simp only [Option.bind_some, Option.some.injEq] at h
        subst h
        exact (scatter_length (fun p : Int × Int => p.1.toNat) (fun p => data.getD p.2.toNat [])
          (o.zip rel) _).trans (by simp)

/-- unfolding a successful `get_features` -/
theorem getFeatures_eq_some (zero nan : β) (sf : Sparse β) (nloc : Nat) (spikeTemplates : List Nat)
    (spikeIds chans : List Nat) (out : List (List β))
    (h : getFeatures zero nan sf nloc spikeTemplates spikeIds chans = some out) :
    ∃ feats cols, gatherRows nan sf nloc spikeIds = some feats ∧
      colsFor sf nloc spikeTemplates spikeIds = some cols ∧ fromSparse zero feats cols chans = some out := by
  unfold getFeatures at h
  cases h1 : gatherRows nan sf nloc spikeIds with
  | none => rw [h1] at h; cases h
  | some feats =>
    cases h2 : colsFor sf nloc spikeTemplates spikeIds with
    | none => rw [h1, h2] at h; cases h
    | some cols =>
      rw [h1, h2] at h
      exact ⟨feats, cols, rfl, rfl, h⟩

theorem getFeatures_shape (zero nan : β) (sf : Sparse β) (nloc : Nat) (spikeTemplates : List Nat)
    (spikeIds chans : List Nat) (out : List (List β))
    (h : getFeatures zero nan sf nloc spikeTemplates spikeIds chans = some out) :
    out.length = spikeIds.length ∧ ∀ r ∈ out, r.length = chans.length := by
  obtain ⟨feats, cols, h1, _, h3⟩ := getFeatures_eq_some zero nan sf nloc spikeTemplates spikeIds chans out h
  obtain ⟨hl, hw⟩ := fromSparse_shape zero feats cols chans out h3
  exact ⟨hl.trans (gatherRows_length nan sf nloc spikeIds feats h1), hw⟩

theorem getFeatures_order_independent (zero nan : β) (sf : Sparse β) (nloc : Nat)
    (spikeTemplates : List Nat) (spikeIds chans chans' : List Nat) (out out' : List (List β))
    (ho : getFeatures zero nan sf nloc spikeTemplates spikeIds chans = some out)
    (ho' : getFeatures zero nan sf nloc spikeTemplates spikeIds chans' = some out')
    (i j j' : Nat) (hj : j < chans.length) (hj' : j' < chans'.length)
    (heq : chans[j]'hj = chans'[j']'hj') :
    (out.getD i []).getD j zero = (out'.getD i []).getD j' zero := by
  obtain ⟨feats, cols, h1, h2, h3⟩ := getFeatures_eq_some zero nan sf nloc spikeTemplates spikeIds chans out ho
  obtain ⟨feats', cols', h1', h2', h3'⟩ :=
    getFeatures_eq_some zero nan sf nloc spikeTemplates spikeIds chans' out' ho'
  rw [h1] at h1'; rw [h2] at h2'
  cases h1'; cases h2'
  exact fromSparse_order_independent zero feats cols chans chans' out out' h3 h3' i j j' hj hj' heq

/-! ## the PCA route -/

/-! ### `_index_of` with a padded lookup -/

/-- the cell `tmp[i]` addresses in a list of length `L` (`L` itself = out of range, no cell) -/
def wrapIdx (L : Nat) (i : Int) : Nat :=
  if 0 ≤ i then i.toNat else if (-i).toNat ≤ L then L - (-i).toNat else L

theorem pySet_eq_set {α : Type} (l : List α) (i : Int) (v : α) :
    pySet l i v = l.set (wrapIdx l.length i) v := by
  unfold pySet wrapIdx
  split
  · rfl
  · split
    · rfl
    · rw [List.set_eq_of_length_le (Nat.le_refl _)]

theorem pySet_length {α : Type} (l : List α) (i : Int) (v : α) : (pySet l i v).length = l.length := by
  rw [pySet_eq_set, List.length_set]

theorem tableFold_eq_scatter (L : Nat) : ∀ (s : List (Int × Nat)) (t : List Int), t.length = L →
    s.foldl (fun t (p : Int × Nat) => pySet t p.1 (p.2 : Int)) t =
      scatter (fun p : Int × Nat => wrapIdx L p.1) (fun p => (p.2 : Int)) s t
  | [], _, _ => rfl
  | p :: s, t, ht => by
    rw [List.foldl_cons, scatter_cons, pySet_eq_set, ht]
    exact tableFold_eq_scatter L s _ (by rw [List.length_set]; exact ht)

theorem le_foldl_maxI : ∀ (l : List Int) (a : Int), a ≤ l.foldl max a ∧ ∀ v ∈ l, v ≤ l.foldl max a
  | [], a => by simp
  | b :: l, a => by
    rw [List.foldl_cons]
    obtain ⟨h1, h2⟩ := le_foldl_maxI l (max a b)
    refine ⟨by omega, ?_⟩
    intro v hv
    rcases List.mem_cons.mp hv with rfl | hv'
    · omega
    · exact h2 v hv'

/-- positions of a value that passes the filter are unique when the filtered list is duplicate-free -/
theorem idx_unique_of_filter_nodup {α : Type} [DecidableEq α] (p : α → Bool) (v : α) (hv : p v = true) :
    ∀ (l : List α) (i j : Nat), (l.filter p).Nodup → l[i]? = some v → l[j]? = some v → i = j
  | [], i, _, _, hi, _ => by simp at hi
  | x :: xs, i, j, hnd, hi, hj => by
    have hsub : (xs.filter p).Nodup := by
      by_cases hx : p x = true
      · rw [List.filter_cons_of_pos hx, List.nodup_cons] at hnd; exact hnd.2
      · rw [List.filter_cons_of_neg hx] at hnd; exact hnd
    cases i with
    | zero =>
      cases j with
      | zero => rfl
      | succ j =>
        exfalso
        simp only [List.getElem?_cons_zero, Option.some.injEq] at hi
        subst hi
        rw [List.getElem?_cons_succ] at hj
        rw [List.filter_cons_of_pos hv, List.nodup_cons] at hnd
        exact hnd.1 (List.mem_filter.2 ⟨List.mem_of_getElem? hj, hv⟩)
    | succ i =>
      cases j with
      | zero =>
        exfalso
        simp only [List.getElem?_cons_zero, Option.some.injEq] at hj
        subst hj
        rw [List.getElem?_cons_succ] at hi
        rw [List.filter_cons_of_pos hv, List.nodup_cons] at hnd
        exact hnd.1 (List.mem_filter.2 ⟨List.mem_of_getElem? hi, hv⟩)
      | succ j =>
        rw [List.getElem?_cons_succ] at hi hj
        rw [idx_unique_of_filter_nodup p v hv xs i j hsub hi hj]

/-- the padded `_index_of` table sends every real (non-negative) entry of the row to its position -/
theorem indexTableI_get (ind : List Int) (hok : RowOK ind) (n : Nat) (hn : Int.ofNat n ∈ ind) :
    (indexTableI ind)[n]? = some ((ind.idxOf (Int.ofNat n) : Nat) : Int) := by
  obtain ⟨hge, hnd⟩ := hok
  -- the maximum and the table size
  obtain ⟨x, xs, rfl⟩ : ∃ x xs, ind = x :: xs := by
    cases ind with
    | nil => cases hn
    | cons x xs => exact ⟨x, xs, rfl⟩
  have hmax : ∀ v ∈ x :: xs, v ≤ xs.foldl max x := by
    intro v hv
    obtain ⟨h1, h2⟩ := le_foldl_maxI xs x
    rcases List.mem_cons.mp hv with rfl | hv'
    · exact h1
    · exact h2 v hv'
  have hnmax : (n : Int) ≤ xs.foldl max x := hmax _ hn
  generalize hmx : xs.foldl max x = mx at hmax hnmax
  let L := (mx + 1).toNat + 1
  have hL : L = mx.toNat + 2 := by simp only [L]; omega
  have ht0 : (pySet (List.replicate ((mx + 1).toNat + 1) (0 : Int)) (-1) (-1)).length = L := by
    rw [pySet_length, List.length_replicate]
  have hunf : indexTableI (x :: xs) =
      scatter (fun p : Int × Nat => wrapIdx L p.1) (fun p => (p.2 : Int)) (x :: xs).zipIdx
        (pySet (List.replicate ((mx + 1).toNat + 1) (0 : Int)) (-1) (-1)) := by
    unfold indexTableI
    simp only [hmx]
    exact tableFold_eq_scatter L _ _ ht0
  rw [hunf]
  have hidx : (x :: xs).idxOf (Int.ofNat n) < (x :: xs).length := List.idxOf_lt_length_iff.mpr hn
  have h2 : (x :: xs)[(x :: xs).idxOf (Int.ofNat n)]? = some (Int.ofNat n) := by
    rw [List.getElem?_eq_getElem hidx, List.getElem_idxOf hidx]
  apply scatter_get_of_written
  · refine ⟨(Int.ofNat n, (x :: xs).idxOf (Int.ofNat n)), ?_, ?_⟩
    · rw [List.mem_zipIdx_iff_getElem?]
      simpa using h2
    · simp [wrapIdx]
  · rintro ⟨v, p⟩ hp hpos
    rw [List.mem_zipIdx_iff_getElem?] at hp
    simp only [wrapIdx] at hpos
    by_cases hv0 : 0 ≤ v
    · rw [if_pos hv0] at hpos
      have hvn : v = Int.ofNat n := by simp only [Int.ofNat_eq_natCast]; omega
      subst hvn
      have := idx_unique_of_filter_nodup (fun z : Int => decide (0 ≤ z)) (Int.ofNat n) (by simp)
        (x :: xs) p _ hnd hp h2
      simp only [this]
    · exfalso
      have hvm : v ∈ x :: xs := List.mem_of_getElem? hp
      have := hge v hvm
      have hv1 : v = -1 := by omega
      subst hv1
      rw [if_neg (by omega)] at hpos
      have h1 : (-(-1 : Int)).toNat = 1 := by decide
      rw [h1, if_pos (by omega)] at hpos
      omega
  · rw [ht0]; omega

theorem indexOfI_eq (ind : List Int) (hok : RowOK ind) (common : List Nat)
    (h : ∀ c ∈ common, Int.ofNat c ∈ ind) :
    indexOfI (common.map Int.ofNat) ind =
      some ((common.map Int.ofNat).map fun c => ((ind.idxOf c : Nat) : Int)) := by
  unfold indexOfI
  apply PhyVerif.Np.Lemmas.mapM_option_eq_some
  intro c hc
  obtain ⟨n, hn, rfl⟩ := List.mem_map.1 hc
  unfold Np.pyGet?
  rw [if_pos (by simp)]
  simpa using indexTableI_get ind hok n (h n hn)

/-! ### one spike of `get_spike_waveforms` -/

theorem mem_intersect1dI (a : List Nat) (b : List Int) (v : Nat) :
    v ∈ intersect1dI a b ↔ v ∈ a ∧ Int.ofNat v ∈ b := by
  unfold intersect1dI
  rw [(PhyVerif.C07.Lemmas.unique_spec _).2 v]
  simp only [List.mem_map, List.mem_filter, List.contains_eq_mem, decide_eq_true_eq]
  constructor
  · rintro ⟨w, h, e⟩
    have : w = v := Int.ofNat.inj e
    exact this ▸ h
  · intro h
    exact ⟨v, h, rfl⟩

/-- the restricted row: stored sample where the channel row lists the channel, zero elsewhere -/
def restrictedRow (chans : List Nat) (ind : List Int) (wrow : List Rat) : List Rat :=
  chans.map fun c => if ind.contains (Int.ofNat c) then wrow.getD (ind.idxOf (Int.ofNat c)) 0 else 0

theorem scatter_row_eq (chans : List Nat) (hc : chans.Nodup) (ind : List Int) (wrow : List Rat)
    (common : List Nat) (hcm : ∀ v, v ∈ common ↔ v ∈ chans ∧ Int.ofNat v ∈ ind) :
    scatter (fun c : Nat => chans.idxOf c) (fun c => wrow.getD (ind.idxOf (Int.ofNat c)) 0) common
      (List.replicate chans.length (0 : Rat)) = restrictedRow chans ind wrow := by
  apply List.ext_getElem?
  intro j
  unfold restrictedRow
  rw [List.getElem?_map]
  by_cases hj : j < chans.length
  · rw [List.getElem?_eq_getElem hj, Option.map_some]
    by_cases hin : Int.ofNat chans[j] ∈ ind
    · rw [if_pos (by simpa using hin)]
      apply scatter_get_of_written
      · exact ⟨chans[j], (hcm _).2 ⟨List.getElem_mem hj, hin⟩, hc.idxOf_getElem j hj⟩
      · intro a ha hp
        have ham := ((hcm a).1 ha).1
        have := List.getElem_idxOf (List.idxOf_lt_length_iff.mpr ham)
        simp only [hp] at this
        rw [this]
      · simpa using hj
    · rw [if_neg (by simpa using hin), scatter_get_of_not_written]
      · simp [hj]
      · intro a ha hp
        have ham := (hcm a).1 ha
        have := List.getElem_idxOf (List.idxOf_lt_length_iff.mpr ham.1)
        simp only [hp] at this
        exact hin (this ▸ ham.2)
  · rw [List.getElem?_eq_none (by rw [scatter_length, List.length_replicate]; omega),
      List.getElem?_eq_none (by omega)]
    rfl

theorem spikeWaveform_eq (nsw : Nat) (chans : List Nat) (hc : chans.Nodup) (ind : List Int)
    (hok : RowOK ind) (w : Wav) :
    spikeWaveform nsw chans ind w =
      some ((List.range nsw).map fun t => restrictedRow chans ind (w.getD t [])) := by
  have hcm := mem_intersect1dI chans ind
  have h0 := PhyVerif.Np.Lemmas.indexOf_eq ((intersect1dI chans ind).map Int.ofNat) chans hc
    (by
      intro c hcc
      obtain ⟨v, hv, rfl⟩ := List.mem_map.mp hcc
      exact ⟨by simp, by simpa using ((hcm v).mp hv).1⟩)
  have h1 := indexOfI_eq ind hok (intersect1dI chans ind) (fun c hcc => ((hcm c).1 hcc).2)
  simp only [spikeWaveform, h0, h1, Option.bind_eq_bind, Option.bind_some, Option.pure_def,
    Option.some.injEq]
  apply List.map_congr_left
  intro t _
  simp only [List.map_map, List.zip_map', List.foldl_map]
  exact scatter_row_eq chans hc ind (w.getD t []) (intersect1dI chans ind) hcm

/-! ### all requested stored spikes -/

theorem storedWave_eq (sw : WStore) (nsw : Nat) (chans : List Nat) (q : Nat) :
    storedWave sw nsw chans q = (List.range nsw).map fun t =>
      restrictedRow chans (sw.channels.getD (sw.spikeIds.idxOf q) [])
        ((sw.waveforms.getD (sw.spikeIds.idxOf q) []).getD t []) := rfl

theorem getSpikeWaveforms_eq (sw : WStore) (nsw : Nat) (hsw : WStoreOK sw nsw) (hnsw : 0 < nsw)
    (ex chans : List Nat) (hex : ∀ q ∈ ex, q ∈ sw.spikeIds) (hc : chans.Nodup) (hne : chans ≠ []) :
    getSpikeWaveforms sw nsw ex chans = some (ex.map (storedWave sw nsw chans)) := by
  obtain ⟨hnd, hcl, hwl, hrow, _⟩ := hsw
  unfold getSpikeWaveforms
  have hall : (ex.all fun q => sw.spikeIds.contains q) = true := by
    rw [List.all_eq_true]; intro q hq; simpa using hex q hq
  have h2 : (nsw == 0 || chans.isEmpty) = false := by
    cases chans with
    | nil => exact absurd rfl hne
    | cons a t =>
      have : (nsw == 0) = false := by simp; omega
      simp [this]
  have hrel := PhyVerif.Np.Lemmas.indexOf_eq (ex.map Int.ofNat) sw.spikeIds hnd
    (by
      intro c hcc
      obtain ⟨v, hv, rfl⟩ := List.mem_map.mp hcc
      exact ⟨by simp, by simpa using hex v hv⟩)
  rw [hall, h2]
  simp only [Bool.not_true, Bool.false_eq_true, if_false, hrel, Option.bind_eq_bind, Option.bind_some,
    List.map_map]
  rw [PhyVerif.Np.Lemmas.mapM_option_eq_some _
    (fun sid : Int => (List.range nsw).map fun t =>
      restrictedRow chans (sw.channels.getD sid.toNat []) ((sw.waveforms.getD sid.toNat []).getD t []))]
  · rw [List.map_map]
    congr 1
  · intro sid hsid
    obtain ⟨q, hq, rfl⟩ := List.mem_map.1 hsid
    have hlt : sw.spikeIds.idxOf q < sw.spikeIds.length := List.idxOf_lt_length_iff.mpr (hex q hq)
    have hlc : sw.spikeIds.idxOf q < sw.channels.length := hcl ▸ hlt
    have hlw : sw.spikeIds.idxOf q < sw.waveforms.length := hwl ▸ hlt
    simp only [Function.comp_def, Int.ofNat_eq_natCast, Int.toNat_natCast,
      List.getElem?_eq_getElem hlc, List.getElem?_eq_getElem hlw, Option.bind_some,
      List.getD_eq_getElem?_getD, Option.getD_some]
    have := spikeWaveform_eq nsw chans hc sw.channels[sw.spikeIds.idxOf q]
      (hrow _ (List.getElem_mem hlc)) sw.waveforms[sw.spikeIds.idxOf q]
    simp only [List.getD_eq_getElem?_getD] at this
    exact this


/-! ### projection and placement -/

/-- the `(nc, 3)` feature block of one spike -/
def featOf (sw : WStore) (nsw : Nat) (chans : List Nat) (pcs : List Wav) (q : Nat) : List (List Rat) :=
  (List.range chans.length).map fun k => pcs.map fun pc =>
    ((List.range nsw).map fun j =>
      (pc.getD j []).getD k 0 * ((storedWave sw nsw chans q).getD j []).getD k 0).sum

theorem projectPcs_eq (sw : WStore) (nsw : Nat) (chans ex : List Nat) (pcs : List Wav) :
    projectPcs nsw chans.length (ex.map (storedWave sw nsw chans)) pcs =
      ex.map (featOf sw nsw chans pcs) := by
  unfold projectPcs
  rw [List.map_map]
  rfl

theorem getD_map_range' {α : Type} (f : Nat → α) (n i : Nat) (d : α) (h : i < n) :
    ((List.range n).map f).getD i d = f i := by
  rw [List.getD_eq_getElem?_getD, List.getElem?_map, List.getElem?_range h]
  rfl

theorem storedWave_entry (sw : WStore) (nsw : Nat) (chans : List Nat) (q t j : Nat) (ht : t < nsw)
    (hj : j < chans.length) :
    ((storedWave sw nsw chans q).getD t []).getD j 0 = storedSample sw q t (chans[j]'hj) := by
  unfold storedWave
  rw [getD_map_range' _ _ _ _ ht, List.getD_eq_getElem?_getD, List.getElem?_map,
    List.getElem?_eq_getElem hj]
  rfl

theorem getD_map_lt' {α γ : Type} (f : α → γ) (l : List α) (k : Nat) (d : γ) (hk : k < l.length) :
    (l.map f).getD k d = f (l[k]'hk) := by
  rw [List.getD_eq_getElem?_getD, List.getElem?_map, List.getElem?_eq_getElem hk]
  rfl

theorem featOf_entry (sw : WStore) (nsw : Nat) (chans : List Nat) (pcs : List Wav) (q j k : Nat)
    (hj : j < chans.length) (hk : k < pcs.length) :
    ((featOf sw nsw chans pcs q).getD j []).getD k 0 = projection sw nsw pcs q (chans[j]'hj) j k := by
  unfold featOf projection
  rw [getD_map_range' _ _ _ _ hj, getD_map_lt' _ _ _ _ hk]
  congr 1
  apply List.map_congr_left
  intro t ht
  rw [storedWave_entry sw nsw chans q t j (List.mem_range.1 ht) hj, List.getD_eq_getElem?_getD (l := pcs),
    List.getElem?_eq_getElem hk]
  rfl

theorem featOf_shape (sw : WStore) (nsw : Nat) (chans : List Nat) (pcs : List Wav) (q : Nat) :
    (featOf sw nsw chans pcs q).length = chans.length ∧
      ∀ r ∈ featOf sw nsw chans pcs q, r.length = pcs.length := by
  unfold featOf
  refine ⟨by simp, ?_⟩
  intro r hr
  obtain ⟨k, _, rfl⟩ := List.mem_map.1 hr
  simp

theorem getFeaturesPca_eq (pcsOf : List Wav → List Wav) (sw : WStore) (nsw : Nat)
    (hsw : WStoreOK sw nsw) (hnsw : 0 < nsw) (spikeIds chans : List Nat) (hs : spikeIds.Nodup)
    (hc : chans.Nodup) (hne : chans ≠ [])
    (hpcs : (pcsOf (pcaBlock sw nsw spikeIds chans)).length = 3) :
    getFeaturesPca pcsOf sw nsw spikeIds chans =
      some (scatter (fun q : Nat => spikeIds.idxOf q)
        (featOf sw nsw chans (pcsOf (pcaBlock sw nsw spikeIds chans)))
        (intersect1d spikeIds sw.spikeIds)
        (List.replicate spikeIds.length (List.replicate chans.length (List.replicate 3 (0 : Rat))))) := by
  have hmem := mem_intersect1d spikeIds sw.spikeIds
  unfold getFeaturesPca
  simp only []
  split
  · rename_i he
    rw [List.isEmpty_iff.1 he]
    rfl
  · have hwv := getSpikeWaveforms_eq sw nsw hsw hnsw (intersect1d spikeIds sw.spikeIds) chans
      (fun q hq => ((hmem q).1 hq).2) hc hne
    have hout := PhyVerif.Np.Lemmas.indexOf_eq ((intersect1d spikeIds sw.spikeIds).map Int.ofNat)
      spikeIds hs
      (by
        intro c hcc
        obtain ⟨v, hv, rfl⟩ := List.mem_map.mp hcc
        exact ⟨by simp, by simpa using ((hmem v).mp hv).1⟩)
    have hcf : computeFeatures pcsOf nsw chans.length
        ((intersect1d spikeIds sw.spikeIds).map (storedWave sw nsw chans)) =
        some ((intersect1d spikeIds sw.spikeIds).map
          (featOf sw nsw chans (pcsOf (pcaBlock sw nsw spikeIds chans)))) := by
      unfold computeFeatures
      simp only []
      have : pcsOf ((intersect1d spikeIds sw.spikeIds).map (storedWave sw nsw chans)) =
          pcsOf (pcaBlock sw nsw spikeIds chans) := rfl
      rw [this, hpcs, projectPcs_eq]
      rfl
    simp only [hwv, hcf, hout, Option.bind_eq_bind, Option.bind_some, Option.pure_def, Option.some.injEq]
    simp only [List.map_map, List.zip_map', List.foldl_map]
    rfl

theorem getFeaturesPca_spec (pcsOf : List Wav → List Wav) (sw : WStore) (nsw : Nat)
    (hsw : WStoreOK sw nsw) (hnsw : 0 < nsw) (spikeIds chans : List Nat) (hs : spikeIds.Nodup)
    (hc : chans.Nodup) (hne : chans ≠ [])
    (hpcs : (pcsOf (pcaBlock sw nsw spikeIds chans)).length = 3) :
    ∃ out, getFeaturesPca pcsOf sw nsw spikeIds chans = some out ∧ out.length = spikeIds.length ∧
      ∀ i (hi : i < spikeIds.length),
        (out.getD i []).length = chans.length ∧ (∀ r ∈ out.getD i [], r.length = 3) ∧
        ∀ j (hj : j < chans.length) k, k < 3 →
          ((out.getD i []).getD j []).getD k 0 =
            if spikeIds[i] ∈ sw.spikeIds then
              projection sw nsw (pcsOf (pcaBlock sw nsw spikeIds chans)) spikeIds[i] (chans[j]'hj) j k
            else 0 := by
  have hmem := mem_intersect1d spikeIds sw.spikeIds
  refine ⟨_, getFeaturesPca_eq pcsOf sw nsw hsw hnsw spikeIds chans hs hc hne hpcs, ?_, ?_⟩
  · rw [scatter_length, List.length_replicate]
  · intro i hi
    generalize hP : pcsOf (pcaBlock sw nsw spikeIds chans) = pcs at hpcs
    have hget : (scatter (fun q : Nat => spikeIds.idxOf q) (featOf sw nsw chans pcs)
        (intersect1d spikeIds sw.spikeIds)
        (List.replicate spikeIds.length (List.replicate chans.length (List.replicate 3 (0 : Rat))))).getD i [] =
        if spikeIds[i] ∈ sw.spikeIds then featOf sw nsw chans pcs spikeIds[i]
        else List.replicate chans.length (List.replicate 3 (0 : Rat)) := by
      rw [List.getD_eq_getElem?_getD]
      by_cases hq : spikeIds[i] ∈ sw.spikeIds
      · rw [if_pos hq, scatter_get_of_written (y := featOf sw nsw chans pcs spikeIds[i])]
        · rfl
        · exact ⟨spikeIds[i], (hmem _).mpr ⟨List.getElem_mem hi, hq⟩, hs.idxOf_getElem i hi⟩
        · intro v hv hp
          have hvm := ((hmem v).mp hv).1
          have := List.getElem_idxOf (List.idxOf_lt_length_iff.mpr hvm)
          simp only [hp] at this
          rw [this]
        · simpa using hi
      · rw [if_neg hq, scatter_get_of_not_written]
        · simp [hi]
        · intro v hv hp
          have hvm := (hmem v).mp hv
          have := List.getElem_idxOf (List.idxOf_lt_length_iff.mpr hvm.1)
          simp only [hp] at this
          exact hq (this ▸ hvm.2)
    rw [hget]
    by_cases hq : spikeIds[i] ∈ sw.spikeIds
    · simp only [if_pos hq]
      obtain ⟨h1, h2⟩ := featOf_shape sw nsw chans pcs spikeIds[i]
      refine ⟨h1, fun r hr => (h2 r hr).trans hpcs, ?_⟩
      intro j hj k hk
      exact featOf_entry sw nsw chans pcs spikeIds[i] j k hj (by omega)
    · simp only [if_neg hq]
      refine ⟨by simp, ?_, ?_⟩
      · intro r hr
        rw [List.eq_of_mem_replicate hr]; simp
      · intro j hj k hk
        have e1 : (List.replicate chans.length (List.replicate 3 (0 : Rat))).getD j [] =
            List.replicate 3 (0 : Rat) := by
          rw [List.getD_eq_getElem?_getD, List.getElem?_replicate, if_pos hj]; rfl
        rw [e1, List.getD_eq_getElem?_getD, List.getElem?_replicate, if_pos hk]
        rfl


end PhyVerif.C06.Lemmas
