import PhyVerif.Model.C18c
import PhyVerif.Spec.C18c
import PhyVerif.Lemmas.C18
/-! `int()` / `float()` / `'%.nf'`: what the written number texts read back as (C18). -/
namespace PhyVerif.C18.Lemmas
open PhyVerif PhyVerif.C18

/-! ### characters -/

theorem isWs_false_of_isDigit {c : Char} (h : c.isDigit = true) : isWs c = false := by
  unfold isWs
  simp only [Bool.or_eq_false_iff, beq_eq_false_iff_ne]
  refine ⟨⟨⟨⟨⟨?_, ?_⟩, ?_⟩, ?_⟩, ?_⟩, ?_⟩ <;> (rintro rfl; exact absurd h (by decide))

theorem ne_of_isDigit {c x : Char} (h : c.isDigit = true) (hx : x.isDigit = false) : c ≠ x := by
  rintro rfl; rw [h] at hx; exact absurd hx (by decide)

theorem toLower_of_isDigit {c : Char} (h : c.isDigit = true) : c.toLower = c := by
  simp only [Char.isDigit, Bool.and_eq_true, decide_eq_true_eq] at h
  unfold Char.toLower
  have : ¬ (c.val ≥ 65 ∧ c.val ≤ 90) := by
    intro ⟨h1, _⟩
    have h2 := h.2
    simp only [UInt32.le_iff_toNat_le, ge_iff_le] at h1 h2
    have e1 : (65 : UInt32).toNat = 65 := rfl
    have e2 : ('9' : Char).val.toNat = 57 := rfl
    omega
  simp [this]

theorem digitChar_isDigit : ∀ d, d < 10 → (Nat.digitChar d).isDigit = true := by decide

theorem digitChar_val : ∀ d, d < 10 → (Nat.digitChar d).toNat - '0'.toNat = d := by decide

/-! ### whitespace stripping -/

theorem dropWhile_isWs_of_head {c : Char} {cs : Str} (h : isWs c = false) :
    (c :: cs).dropWhile isWs = c :: cs := by
  simp [h]

/-- a string that starts and ends with a non-blank character is left alone -/
theorem stripWs_eq (a z : Char) (mid : Str) (s : Str) (hs : s = a :: mid ∨ s = [a]) (ha : isWs a = false)
    (hz : isWs z = false) (hl : s.getLast? = some z) : stripWs s = s := by
  unfold stripWs
  have h1 : s.dropWhile isWs = s := by
    rcases hs with rfl | rfl <;> exact dropWhile_isWs_of_head ha
  rw [h1]
  have h2 : s.reverse.head? = some z := by rw [List.head?_reverse]; exact hl
  cases hr : s.reverse with
  | nil => rw [hr] at h2; simp at h2
  | cons y ys =>
    rw [hr] at h2
    have : y = z := by simpa using h2
    subst this
    rw [dropWhile_isWs_of_head hz, ← hr, List.reverse_reverse]

/-! ### digit strings -/

theorem underscoresOK_plain : ∀ (s : Str) (prev : Char), prev ≠ '_' → (∀ c ∈ s, c ≠ '_') →
    underscoresOK prev s = true
  | [], prev, hp, _ => by simp [underscoresOK, hp]
  | c :: s, prev, hp, h => by
    have hc := h c List.mem_cons_self
    have ih := underscoresOK_plain s c hc (fun x hx => h x (List.mem_cons_of_mem _ hx))
    simp [underscoresOK, hc, hp, ih]

theorem dropUnderscores_plain (s : Str) (h : ∀ c ∈ s, c ≠ '_') : dropUnderscores s = s := by
  unfold dropUnderscores
  rw [List.filter_eq_self]
  intro c hc
  simpa using h c hc

theorem not_underscore_of_isDigit {c : Char} (h : c.isDigit = true) : c ≠ '_' :=
  ne_of_isDigit h (by decide)

theorem takeSign_of_digit {c : Char} {cs : Str} (h : c.isDigit = true) : takeSign (c :: cs) = (false, c :: cs) := by
  have h1 : c ≠ '-' := ne_of_isDigit h (by decide)
  have h2 : c ≠ '+' := ne_of_isDigit h (by decide)
  unfold takeSign
  split
  · rename_i heq; injection heq with heq _; exact absurd heq h1
  · rename_i heq; injection heq with heq _; exact absurd heq h2
  · rfl

/-- `int()` on a (possibly negated) plain digit string -/
theorem parseIntLit_digits (neg : Bool) (c : Char) (cs : Str) (hall : (c :: cs).all Char.isDigit = true) :
    parseIntLit ((if neg then ['-'] else []) ++ c :: cs) =
      some (if neg then -((parseNat (c :: cs) : Nat) : Int) else ((parseNat (c :: cs) : Nat) : Int)) := by
  have hc : c.isDigit = true := by simp at hall; exact hall.1
  have hmem : ∀ x ∈ c :: cs, x.isDigit = true := by simpa [List.all_eq_true] using hall
  have hnu : ∀ x ∈ c :: cs, x ≠ '_' := fun x hx => not_underscore_of_isDigit (hmem x hx)
  -- the last character is a digit
  obtain ⟨z, hz⟩ : ∃ z, (c :: cs).getLast? = some z := by
    cases h : (c :: cs).getLast? with
    | none => simp at h
    | some z => exact ⟨z, rfl⟩
  have hzd : z.isDigit = true := hmem z (List.mem_of_getLast? hz)
  have hstrip : stripWs ((if neg then ['-'] else []) ++ c :: cs) = (if neg then ['-'] else []) ++ c :: cs := by
    cases neg
    · exact stripWs_eq c z cs _ (Or.inl rfl) (isWs_false_of_isDigit hc) (isWs_false_of_isDigit hzd) hz
    · refine stripWs_eq '-' z (c :: cs) _ (Or.inl rfl) (by decide) (isWs_false_of_isDigit hzd) ?_
      simpa [List.getLast?_cons_cons] using hz
  have hsign : takeSign ((if neg then ['-'] else []) ++ c :: cs) = (neg, c :: cs) := by
    cases neg
    · exact takeSign_of_digit hc
    · rfl
  unfold parseIntLit
  rw [hstrip, hsign]
  have hall' : (c :: cs).all (fun x => x.isDigit || x == '_') = true := by
    rw [List.all_eq_true]; intro x hx; simp [hmem x hx]
  simp only [List.isEmpty_cons, Bool.false_eq_true, if_false, hall',
    underscoresOK_plain (c :: cs) 'x' (by decide) hnu, Bool.and_self, if_true, dropUnderscores_plain _ hnu]

/-- `int(str(i)) = i` for the model's `int()` -/
theorem parseIntLit_intToStr (i : Int) : parseIntLit (intToStr i).toList = some i := by
  unfold intToStr
  rw [Int.toString_eq_repr, Int.repr_eq_if]
  split
  · rename_i hi
    obtain ⟨c, cs, h, _, hall, hp⟩ := natRepr_ok i.toNat
    have := parseIntLit_digits false c cs hall
    simp only [Bool.false_eq_true, if_false, List.nil_append] at this
    rw [h, this, hp]
    simp [Int.toNat_of_nonneg hi]
  · rename_i hi
    obtain ⟨c, cs, h, _, hall, hp⟩ := natRepr_ok (-i).toNat
    have := parseIntLit_digits true c cs hall
    simp only [if_true] at this
    rw [String.toList_append, h]
    show parseIntLit (['-'] ++ c :: cs) = some i
    rw [this, hp]
    congr 1
    omega

theorem intToStr_toList (i : Int) : ∃ (neg : Bool) (c : Char) (cs : Str),
    (intToStr i).toList = (if neg then ['-'] else []) ++ c :: cs ∧ (c :: cs).all Char.isDigit = true := by
  unfold intToStr
  rw [Int.toString_eq_repr, Int.repr_eq_if]
  split
  · obtain ⟨c, cs, h, _, hall, _⟩ := natRepr_ok i.toNat
    exact ⟨false, c, cs, by simpa using h, hall⟩
  · obtain ⟨c, cs, h, _, hall, _⟩ := natRepr_ok (-i).toNat
    exact ⟨true, c, cs, by rw [String.toList_append, h]; rfl, hall⟩

/-! ### the Unicode transformation is the identity on what the writers produce (ASCII) -/

theorem toNat_lt_of_isDigit {c : Char} (h : c.isDigit = true) : c.toNat < 128 := by
  simp only [Char.isDigit, Bool.and_eq_true, decide_eq_true_eq] at h
  have h2 := h.2
  simp only [UInt32.le_iff_toNat_le] at h2
  have e2 : ('9' : Char).val.toNat = 57 := rfl
  have : c.toNat = c.val.toNat := rfl
  omega

theorem pyNorm_ascii : ∀ (s : Str), (∀ c ∈ s, c.toNat < 128) → pyNorm s = s
  | [], _ => rfl
  | c :: cs, h => by
    have hc := h c List.mem_cons_self
    have ih := pyNorm_ascii cs (fun x hx => h x (List.mem_cons_of_mem _ hx))
    unfold pyNorm at ih ⊢
    simp [List.map_cons, normChar, hc, ih]

theorem ascii_of_digits_sign (neg : Bool) (ds : Str) (h : ∀ x ∈ ds, x.isDigit = true ∨ x = '.') :
    ∀ c ∈ (if neg then ['-'] else []) ++ ds, c.toNat < 128 := by
  intro c hc
  have : c = '-' ∨ c ∈ ds := by
    cases neg <;> simp at hc
    · exact Or.inr hc
    · exact hc
  rcases this with rfl | hc
  · decide
  · rcases h c hc with h | rfl
    · exact toNat_lt_of_isDigit h
    · decide

theorem pyNorm_intToStr (i : Int) : pyNorm (intToStr i).toList = (intToStr i).toList := by
  obtain ⟨neg, c, cs, hl, hall⟩ := intToStr_toList i
  rw [hl]
  exact pyNorm_ascii _ (ascii_of_digits_sign neg (c :: cs) (fun x hx => Or.inl (by
    rw [List.all_eq_true] at hall; exact hall x hx)))

theorem tryMakeNumber_intToStr (i : Int) : tryMakeNumber (intToStr i) = .int i := by
  simp [tryMakeNumber, pyNorm_intToStr, parseIntLit_intToStr]

theorem intToStr_ne_empty (i : Int) : intToStr i ≠ "" := by
  intro h
  obtain ⟨neg, c, cs, hl, _⟩ := intToStr_toList i
  rw [h] at hl
  cases neg <;> simp at hl

theorem noBreak_of_digits_sign (neg : Bool) (ds : Str) (h : ∀ x ∈ ds, x.isDigit = true ∨ x = '.') :
    NoBreak ((if neg then ['-'] else []) ++ ds) := by
  intro c hc
  have : c = '-' ∨ c ∈ ds := by
    cases neg <;> simp at hc
    · exact Or.inr hc
    · exact hc
  rcases this with rfl | hc
  · exact ⟨by decide, by decide⟩
  · rcases h c hc with h | rfl
    · exact ⟨ne_of_isDigit h (by decide), ne_of_isDigit h (by decide)⟩
    · exact ⟨by decide, by decide⟩

theorem noBreak_intToStr (i : Int) : NoBreak (intToStr i).toList := by
  obtain ⟨neg, c, cs, hl, hall⟩ := intToStr_toList i
  rw [hl]
  exact noBreak_of_digits_sign neg (c :: cs) (fun x hx => Or.inl (by
    rw [List.all_eq_true] at hall; exact hall x hx))

/-! ### `'%.nf' % x` read back by `int()` / `float()` -/

theorem takeWhile_append_stop {p : Char → Bool} : ∀ (a : Str) (y : Char) (r : Str), (∀ x ∈ a, p x = true) →
    p y = false → (a ++ y :: r).takeWhile p = a ∧ (a ++ y :: r).dropWhile p = y :: r
  | [], y, r, _, hy => by simp [List.takeWhile_cons, List.dropWhile_cons, hy]
  | c :: a, y, r, h, hy => by
    have hc := h c List.mem_cons_self
    have ih := takeWhile_append_stop a y r (fun x hx => h x (List.mem_cons_of_mem _ hx)) hy
    simp [List.takeWhile_cons, List.dropWhile_cons, hc, ih.1, ih.2]

theorem takeWhile_all' {p : Char → Bool} : ∀ (a : Str), (∀ x ∈ a, p x = true) →
    a.takeWhile p = a ∧ a.dropWhile p = []
  | [], _ => by simp
  | c :: a, h => by
    have hc := h c List.mem_cons_self
    have ih := takeWhile_all' a (fun x hx => h x (List.mem_cons_of_mem _ hx))
    simp [List.takeWhile_cons, List.dropWhile_cons, hc, ih.1, ih.2]

theorem fracDigits_length : ∀ (n b : Nat), (fracDigits n b).length = n
  | 0, _ => rfl
  | n + 1, b => by simp [fracDigits, fracDigits_length n]

theorem fracDigits_isDigit : ∀ (n b : Nat), ∀ x ∈ fracDigits n b, x.isDigit = true
  | 0, _ => by simp [fracDigits]
  | n + 1, b => by
    intro x hx
    simp only [fracDigits, List.mem_append, List.mem_singleton] at hx
    rcases hx with hx | rfl
    · exact fracDigits_isDigit n _ x hx
    · exact digitChar_isDigit _ (Nat.mod_lt _ (by decide))

/-- reading the zero-padded digits after some accumulated value -/
theorem foldl_fracDigits : ∀ (n b acc : Nat),
    (fracDigits n b).foldl (fun acc c => acc * 10 + (c.toNat - '0'.toNat)) acc = acc * 10 ^ n + b % 10 ^ n
  | 0, b, acc => by simp [fracDigits, Nat.mod_one]
  | n + 1, b, acc => by
    simp only [fracDigits, List.foldl_append, List.foldl_cons, List.foldl_nil]
    rw [foldl_fracDigits n (b / 10) acc, digitChar_val _ (Nat.mod_lt _ (by decide))]
    have h : b % (10 * 10 ^ n) = b % 10 + 10 * (b / 10 % 10 ^ n) := Nat.mod_mul
    rw [Nat.pow_succ, Nat.mul_comm (10 ^ n) 10, h]
    rw [Nat.add_mul, Nat.mul_assoc, Nat.mul_comm (10 ^ n) 10]
    omega

theorem parseNat_append_fracDigits (a : Str) (n b : Nat) :
    parseNat (a ++ fracDigits n b) = parseNat a * 10 ^ n + b % 10 ^ n := by
  unfold parseNat
  rw [List.foldl_append, foldl_fracDigits]

/-- the unsigned part of `'%.nf' % x` (n ≥ 1): integer digits, a point, n digits -/
def fixedBody (n : Nat) (x : Dbl) : Str :=
  Nat.toDigits 10 (scaled n x / 10 ^ n) ++ '.' :: fracDigits n (scaled n x % 10 ^ n)

theorem fmtFixed_eq (n : Nat) (hn : n ≠ 0) (x : Dbl) :
    fmtFixed n x = (if x.neg then ['-'] else []) ++ fixedBody n x := by
  simp [fmtFixed, fixedBody, hn]

theorem toDigits_cons (a : Nat) : ∃ c cs, Nat.toDigits 10 a = c :: cs ∧ (∀ y ∈ c :: cs, y.isDigit = true) := by
  cases h : Nat.toDigits 10 a with
  | nil => exact absurd h Nat.toDigits_ne_nil
  | cons c cs =>
    refine ⟨c, cs, rfl, ?_⟩
    have := all_isDigit_toDigits a
    rw [h, List.all_eq_true] at this
    exact this

/-- common part: the text starts with '-' or a digit and ends with a digit, so nothing is stripped and
the sign is split off -/
theorem strip_and_sign (neg : Bool) (c : Char) (cs : Str) (hc : c.isDigit = true) (z : Char)
    (hz : (c :: cs).getLast? = some z) (hzd : z.isDigit = true) :
    stripWs ((if neg then ['-'] else []) ++ c :: cs) = (if neg then ['-'] else []) ++ c :: cs ∧
    takeSign ((if neg then ['-'] else []) ++ c :: cs) = (neg, c :: cs) := by
  constructor
  · cases neg
    · exact stripWs_eq c z cs _ (Or.inl rfl) (isWs_false_of_isDigit hc) (isWs_false_of_isDigit hzd) hz
    · refine stripWs_eq '-' z (c :: cs) _ (Or.inl rfl) (by decide) (isWs_false_of_isDigit hzd) ?_
      simpa [List.getLast?_cons_cons] using hz
  · cases neg
    · exact takeSign_of_digit hc
    · rfl

theorem fixedBody_shape (n : Nat) (hn : n ≠ 0) (x : Dbl) :
    ∃ c cs z, fixedBody n x = c :: cs ∧ c.isDigit = true ∧ (c :: cs).getLast? = some z ∧ z.isDigit = true ∧
      (∀ y ∈ c :: cs, y.isDigit = true ∨ y = '.') := by
  obtain ⟨c, ip, hip, hipd⟩ := toDigits_cons (scaled n x / 10 ^ n)
  obtain ⟨k, rfl⟩ : ∃ k, n = k + 1 := ⟨n - 1, by omega⟩
  refine ⟨c, ip ++ '.' :: fracDigits (k + 1) (scaled (k + 1) x % 10 ^ (k + 1)),
    Nat.digitChar (scaled (k + 1) x % 10 ^ (k + 1) % 10), ?_, hipd c List.mem_cons_self, ?_,
    digitChar_isDigit _ (Nat.mod_lt _ (by decide)), ?_⟩
  · simp [fixedBody, hip]
  · rw [← List.cons_append, fracDigits]
    rw [show (c :: ip) ++ '.' :: (fracDigits k (scaled (k + 1) x % 10 ^ (k + 1) / 10) ++
        [Nat.digitChar (scaled (k + 1) x % 10 ^ (k + 1) % 10)]) =
        ((c :: ip) ++ '.' :: fracDigits k (scaled (k + 1) x % 10 ^ (k + 1) / 10)) ++
        [Nat.digitChar (scaled (k + 1) x % 10 ^ (k + 1) % 10)] by simp]
    exact List.getLast?_concat
  · intro y hy
    rw [← List.cons_append, List.mem_append] at hy
    rcases hy with hy | hy
    · exact Or.inl (hipd y hy)
    · rcases List.mem_cons.mp hy with hy | hy
      · exact Or.inr hy
      · exact Or.inl (fracDigits_isDigit _ _ y hy)

theorem noBreak_fmtFixed (n : Nat) (hn : n ≠ 0) (x : Dbl) : NoBreak (fmtFixed n x) := by
  rw [fmtFixed_eq n hn]
  obtain ⟨c, cs, z, hb, _, _, _, hall⟩ := fixedBody_shape n hn x
  rw [hb]
  exact noBreak_of_digits_sign x.neg (c :: cs) hall

theorem fmtFixed_ne_nil (n : Nat) (hn : n ≠ 0) (x : Dbl) : fmtFixed n x ≠ [] := by
  rw [fmtFixed_eq n hn]
  obtain ⟨c, cs, z, hb, _⟩ := fixedBody_shape n hn x
  rw [hb]; cases x.neg <;> simp

/-- a fixed-point text is not an integer literal (it contains the point) -/
theorem parseIntLit_fmtFixed (n : Nat) (hn : n ≠ 0) (x : Dbl) : parseIntLit (fmtFixed n x) = none := by
  rw [fmtFixed_eq n hn]
  obtain ⟨c, cs, z, hb, hc, hz, hzd, hall⟩ := fixedBody_shape n hn x
  obtain ⟨h1, h2⟩ := strip_and_sign x.neg c cs hc z hz hzd
  have hdot : '.' ∈ c :: cs := by rw [← hb]; simp [fixedBody]
  have hfalse : (c :: cs).all (fun y => y.isDigit || y == '_') = false := by
    rw [List.all_eq_false]
    exact ⟨'.', hdot, by decide⟩
  unfold parseIntLit
  rw [hb, h1, h2]
  simp [hfalse]

/-- … it is a float literal: sign, the digits read as one number, n digits after the point -/
theorem parseFloatLit_fmtFixed (n : Nat) (hn : n ≠ 0) (x : Dbl) :
    parseFloatLit (fmtFixed n x) = some (.float x.neg (scaled n x) (-(n : Int))) := by
  rw [fmtFixed_eq n hn]
  obtain ⟨c, cs, z, hb, hc, hz, hzd, hall⟩ := fixedBody_shape n hn x
  obtain ⟨h1, h2⟩ := strip_and_sign x.neg c cs hc z hz hzd
  have hnu : ∀ y ∈ (if x.neg then ['-'] else []) ++ c :: cs, y ≠ '_' := by
    intro y hy
    have : y = '-' ∨ y ∈ c :: cs := by
      cases hneg : x.neg <;> rw [hneg] at hy
      · exact Or.inr (by simpa using hy)
      · simp only [if_true, List.cons_append, List.nil_append] at hy
        rcases List.mem_cons.mp hy with hy | hy
        · exact Or.inl hy
        · exact Or.inr hy
    rcases this with rfl | hy
    · decide
    · rcases hall y hy with h | rfl
      · exact not_underscore_of_isDigit h
      · decide
  -- the decimal part
  have hdec : parseDecimal (c :: cs) = some (scaled n x, -(n : Int)) := by
    rw [← hb]
    unfold fixedBody
    obtain ⟨c', ip, hip, hipd⟩ := toDigits_cons (scaled n x / 10 ^ n)
    have hfd := fracDigits_isDigit n (scaled n x % 10 ^ n)
    obtain ⟨t1, t2⟩ := takeWhile_append_stop (p := Char.isDigit) (Nat.toDigits 10 (scaled n x / 10 ^ n)) '.'
      (fracDigits n (scaled n x % 10 ^ n)) (by rw [hip]; exact hipd) (by decide)
    obtain ⟨t3, t4⟩ := takeWhile_all' (p := Char.isDigit) (fracDigits n (scaled n x % 10 ^ n)) hfd
    unfold parseDecimal
    simp only [t1, t2, t3, t4]
    have hne : (Nat.toDigits 10 (scaled n x / 10 ^ n)).isEmpty = false := by rw [hip]; rfl
    simp only [hne, Bool.false_and, Bool.false_eq_true, if_false]
    rw [parseNat_append_fracDigits, parseNat_toDigits, fracDigits_length, Nat.mod_mod, Nat.div_add_mod']
  have hci : (c.toLower == 'i') = false := by
    rw [toLower_of_isDigit hc]; exact beq_eq_false_iff_ne.mpr (ne_of_isDigit hc (by decide))
  have hcn : (c.toLower == 'n') = false := by
    rw [toLower_of_isDigit hc]; exact beq_eq_false_iff_ne.mpr (ne_of_isDigit hc (by decide))
  unfold parseFloatLit
  rw [hb, h1]
  simp only [underscoresOK_plain _ 'x' (by decide) hnu, Bool.not_true, Bool.false_eq_true, if_false,
    dropUnderscores_plain _ hnu, h2, hdec]
  have e1 : ((c :: cs).map Char.toLower == "inf".toList) = false := by
    show (c.toLower :: cs.map Char.toLower == 'i' :: ['n', 'f']) = false
    rw [List.cons_beq_cons, hci]; rfl
  have e2 : ((c :: cs).map Char.toLower == "infinity".toList) = false := by
    show (c.toLower :: cs.map Char.toLower == 'i' :: ['n', 'f', 'i', 'n', 'i', 't', 'y']) = false
    rw [List.cons_beq_cons, hci]; rfl
  have e3 : ((c :: cs).map Char.toLower == "nan".toList) = false := by
    show (c.toLower :: cs.map Char.toLower == 'n' :: ['a', 'n']) = false
    rw [List.cons_beq_cons, hcn]; rfl
  simp only [e1, e2, e3, Bool.or_false, Bool.false_eq_true, if_false]

/-- `_try_make_number('%.nf' % x)` is the float written: the decimal nearest to x with n digits -/
theorem pyNorm_fmtFixed (n : Nat) (hn : n ≠ 0) (x : Dbl) : pyNorm (fmtFixed n x) = fmtFixed n x := by
  rw [fmtFixed_eq n hn]
  obtain ⟨c, cs, z, hb, _, _, _, hall⟩ := fixedBody_shape n hn x
  rw [hb]
  exact pyNorm_ascii _ (ascii_of_digits_sign x.neg (c :: cs) hall)

theorem tryMakeNumber_fmtFixed (n : Nat) (hn : n ≠ 0) (x : Dbl) :
    tryMakeNumber (String.ofList (fmtFixed n x)) = .float x.neg (scaled n x) (-(n : Int)) := by
  simp [tryMakeNumber, String.toList_ofList, pyNorm_fmtFixed n hn, parseIntLit_fmtFixed n hn, parseFloatLit_fmtFixed n hn]

/-- "to the written precision": the written decimal is within half a unit of the last digit of |x|
(x = ±m·2^e; exact for e ≥ 0; for e < 0 the distance |r·2^q − m·10^n| is at most 2^q / 2, q = −e) -/
theorem roundDiv_close (a b : Nat) (hb : 0 < b) :
    2 * (roundDiv a b * b) ≤ 2 * a + b ∧ 2 * a ≤ 2 * (roundDiv a b * b) + b := by
  unfold roundDiv
  have h1 := Nat.div_add_mod a b
  have h2 := Nat.mod_lt a hb
  have h3 : a / b * b = b * (a / b) := Nat.mul_comm _ _
  generalize a / b = q at *
  generalize a % b = r at *
  by_cases hc : (2 * r > b || (2 * r == b && q % 2 == 1)) = true
  · rw [if_pos hc]
    rw [Nat.add_mul, Nat.one_mul, h3]
    simp only [Bool.or_eq_true, decide_eq_true_eq, Bool.and_eq_true, beq_iff_eq] at hc
    omega
  · rw [if_neg hc]
    rw [h3]
    simp only [Bool.or_eq_true, decide_eq_true_eq, Bool.and_eq_true, beq_iff_eq, not_or, not_and] at hc
    omega

end PhyVerif.C18.Lemmas
