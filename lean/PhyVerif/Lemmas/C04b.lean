import PhyVerif.Model.C04
import PhyVerif.Model.C04b
import PhyVerif.Lemmas.C04
/-! Layout independence of the loader model. -/
namespace PhyVerif.C04.Lemmas
open PhyVerif PhyVerif.C04

/-- when every file matching one of the patterns is called `k` (and `k` does match one of them),
`_find_path` answers `k` exactly when `k` is present -/
theorem findPath_eq_of_unique (D : Dir) (pats : List String) (k : String)
    (h : ∀ m ∈ D.map (·.1), ∀ p ∈ pats, globMatch p m = true → m = k)
    (hk : ∃ p ∈ pats, globMatch p k = true) :
    findPath D pats = (D.lookup k).map fun _ => k := by
  cases hf : findPath D pats with
  | some f =>
    obtain ⟨i, hi, h1, h2, -⟩ := findPath_first_match D pats f hf
    have hfk : f = k := h f h2 _ (List.getElem_mem hi) h1
    subst hfk
    cases hl : D.lookup f with
    | some a => rfl
    | none =>
      rw [List.lookup_eq_none_iff] at hl
      obtain ⟨x, hx, rfl⟩ := List.mem_map.1 h2
      have := hl x hx
      simp at this
  | none =>
    obtain ⟨p, hp, hpk⟩ := hk
    have hnm : k ∉ D.map (·.1) := by
      intro hm
      have := findPath_none D pats hf p hp k hm
      rw [hpk] at this
      cases this
    rw [lookup_none_of_not_mem D k hnm]
    rfl

theorem readFile_eq_of_unique (D : Dir) (pats : List String) (k : String)
    (h : ∀ m ∈ D.map (·.1), ∀ p ∈ pats, globMatch p m = true → m = k)
    (hk : ∃ p ∈ pats, globMatch p k = true) :
    readFile D pats = D.lookup k := by
  unfold readFile
  rw [findPath_eq_of_unique D pats k h hk]
  cases hl : D.lookup k with
  | none => rfl
  | some a => simpa using hl

theorem lookup_append_of_not_mem (d x : Dir) (k : String) (hx : k ∉ x.map (·.1)) :
    (d ++ x).lookup k = d.lookup k := by
  rw [List.lookup_append, lookup_none_of_not_mem x k hx, Option.or_none]

theorem lookup_map_alfName (d : Dir) (k : String) (hks : ∀ n ∈ d.map (·.1), n ∈ ksNames)
    (hinj : ∀ m ∈ ksNames, alfName m = alfName k → m = k) :
    (d.map fun na => (alfName na.1, na.2)).lookup (alfName k) = d.lookup k := by
  induction d with
  | nil => rfl
  | cons a d ih =>
    have ha : a.1 ∈ ksNames := hks a.1 (by simp)
    have ih' := ih (fun n hn => hks n (by simp only [List.map_cons, List.mem_cons]; exact .inr hn))
    obtain ⟨n, v⟩ := a
    simp only [List.map_cons, List.lookup_cons]
    by_cases e : k = n
    · subst e; simp
    · have e' : alfName k ≠ alfName n := fun h' => e (hinj n ha h'.symm).symm
      have b1 : (k == n) = false := by simpa using e
      have b2 : (alfName k == alfName n) = false := by simpa using e'
      rw [b1, b2]
      exact ih'

/-- the file names that can occur in the ALF-renamed directory -/
def alfNames : List String := "spikes.times.npy" :: ksNames.map alfName

theorem toALF_names (d : Dir) (t : Arr) (hks : ∀ n ∈ d.map (·.1), n ∈ ksNames) :
    ∀ m ∈ (toALF d t).map (·.1), m ∈ alfNames := by
  intro m hm
  simp only [toALF, List.map_cons, List.map_map, List.mem_cons, List.mem_map, Function.comp] at hm
  rcases hm with rfl | ⟨a, ha, rfl⟩
  · simp [alfNames]
  · simp only [alfNames, List.mem_cons, List.mem_map]
    exact .inr ⟨a.1, hks a.1 (List.mem_map.2 ⟨a, ha, rfl⟩), rfl⟩

theorem lookup_toALF (d : Dir) (t : Arr) (x : Dir) (k : String) (hks : ∀ n ∈ d.map (·.1), n ∈ ksNames)
    (hinj : ∀ m ∈ ksNames, alfName m = alfName k → m = k)
    (hne : ("spikes.times.npy" == alfName k) = false)
    (hx : alfName k ∉ x.map (·.1)) :
    (toALF d t ++ x).lookup (alfName k) = d.lookup k := by
  rw [lookup_append_of_not_mem _ _ _ hx]
  simp only [toALF, List.lookup_cons]
  have : (alfName k == "spikes.times.npy") = false := by
    rw [Bool.eq_false_iff] at hne ⊢
    intro h'; apply hne; simp at h' ⊢; exact h'.symm
  rw [this]
  exact lookup_map_alfName d k hks hinj

/-- reading attribute `k` from the KiloSort-named directory (plus created files `x`) -/
theorem read_ks (d x : Dir) (xs pats : List String) (k : String) (hks : ∀ n ∈ d.map (·.1), n ∈ ksNames)
    (hx : ∀ m ∈ x.map (·.1), m ∈ xs)
    (hdec : ∀ m ∈ ksNames ++ xs, ∀ p ∈ pats, globMatch p m = true → m = k)
    (hk : ∃ p ∈ pats, globMatch p k = true) (hkx : k ∉ xs) :
    readFile (d ++ x) pats = d.lookup k := by
  rw [readFile_eq_of_unique (d ++ x) pats k _ hk, lookup_append_of_not_mem _ _ _ (fun hm => hkx (hx k hm))]
  intro m hm
  apply hdec
  simp only [List.map_append, List.mem_append] at hm ⊢
  exact hm.imp (hks m) (hx m)

/-- reading attribute `k` from the ALF-named directory (plus created files `x`) -/
theorem read_alf (d : Dir) (t : Arr) (x : Dir) (xs pats : List String) (k : String)
    (hks : ∀ n ∈ d.map (·.1), n ∈ ksNames) (hx : ∀ m ∈ x.map (·.1), m ∈ xs)
    (hdec : ∀ m ∈ alfNames ++ xs, ∀ p ∈ pats, globMatch p m = true → m = alfName k)
    (hk : ∃ p ∈ pats, globMatch p (alfName k) = true) (hkx : alfName k ∉ xs)
    (hinj : ∀ m ∈ ksNames, alfName m = alfName k → m = k)
    (hne : ("spikes.times.npy" == alfName k) = false) :
    readFile (toALF d t ++ x) pats = d.lookup k := by
  rw [readFile_eq_of_unique (toALF d t ++ x) pats (alfName k) _ hk,
    lookup_toALF d t x k hks hinj hne (fun hm => hkx (hx _ hm))]
  intro m hm
  apply hdec
  simp only [List.map_append, List.mem_append] at hm ⊢
  exact hm.imp (toALF_names d t hks m) (hx m)

theorem scrub_of_allNum (s : Arr) (h : allNum s = true) : scrub s = s := by
  obtain ⟨sh, data⟩ := s
  simp only [allNum, List.all_eq_true] at h
  simp only [scrub, Arr.mk.injEq, true_and]
  conv => rhs; rw [← List.map_id data]
  apply List.map_congr_left
  intro c hc
  have := h c hc
  cases c <;> simp_all

theorem read_ks0 (d : Dir) (pats : List String) (k : String) (hks : ∀ n ∈ d.map (·.1), n ∈ ksNames)
    (hdec : ∀ m ∈ ksNames ++ [], ∀ p ∈ pats, globMatch p m = true → m = k)
    (hk : ∃ p ∈ pats, globMatch p k = true) :
    readFile d pats = d.lookup k := by
  simpa using read_ks d [] [] pats k hks (by simp) hdec hk (by simp)

theorem read_alf0 (d : Dir) (t : Arr) (pats : List String) (k : String)
    (hks : ∀ n ∈ d.map (·.1), n ∈ ksNames)
    (hdec : ∀ m ∈ alfNames ++ [], ∀ p ∈ pats, globMatch p m = true → m = alfName k)
    (hk : ∃ p ∈ pats, globMatch p (alfName k) = true)
    (hinj : ∀ m ∈ ksNames, alfName m = alfName k → m = k)
    (hne : ("spikes.times.npy" == alfName k) = false) :
    readFile (toALF d t) pats = d.lookup k := by
  simpa using read_alf d t [] [] pats k hks (by simp) hdec hk (by simp) hinj hne

theorem find_ks0 (d : Dir) (pats : List String) (k : String) (hks : ∀ n ∈ d.map (·.1), n ∈ ksNames)
    (hdec : ∀ m ∈ ksNames, ∀ p ∈ pats, globMatch p m = true → m = k)
    (hk : ∃ p ∈ pats, globMatch p k = true) :
    findPath d pats = (d.lookup k).map fun _ => k :=
  findPath_eq_of_unique d pats k (fun m hm => hdec m (hks m hm)) hk

theorem find_alf0 (d : Dir) (t : Arr) (pats : List String) (k : String)
    (hks : ∀ n ∈ d.map (·.1), n ∈ ksNames)
    (hdec : ∀ m ∈ alfNames, ∀ p ∈ pats, globMatch p m = true → m = alfName k)
    (hk : ∃ p ∈ pats, globMatch p (alfName k) = true)
    (hinj : ∀ m ∈ ksNames, alfName m = alfName k → m = k)
    (hne : ("spikes.times.npy" == alfName k) = false) :
    findPath (toALF d t) pats = (d.lookup k).map fun _ => alfName k := by
  rw [findPath_eq_of_unique (toALF d t) pats (alfName k) (fun m hm => hdec m (toALF_names d t hks m hm)) hk]
  have := lookup_toALF d t [] k hks hinj hne (by simp)
  rw [List.append_nil] at this
  rw [this]

theorem lookup_toALF0 (d : Dir) (t : Arr) (k : String) (hks : ∀ n ∈ d.map (·.1), n ∈ ksNames)
    (hinj : ∀ m ∈ ksNames, alfName m = alfName k → m = k)
    (hne : ("spikes.times.npy" == alfName k) = false) :
    (toALF d t).lookup (alfName k) = d.lookup k := by
  simpa using lookup_toALF d t [] k hks hinj hne (by simp)

/-- the reads after the spike-cluster step, KiloSort layout -/
theorem stage2_ks (d x : Dir) (hks : ∀ n ∈ d.map (·.1), n ∈ ksNames)
    (hx : ∀ m ∈ x.map (·.1), m ∈ ["spike_clusters.npy"]) :
    readFile (d ++ x) ["channel_map.npy", "channels.rawInd*.npy"] = d.lookup "channel_map.npy" ∧
    readFile (d ++ x) ["channel_positions.npy", "channels.localCoordinates*.npy"] = d.lookup "channel_positions.npy" ∧
    readFile (d ++ x) ["channel_shanks.npy", "channels.shanks*.npy"] = d.lookup "channel_shanks.npy" ∧
    readFile (d ++ x) ["channel_probe.npy", "channels.probes*.npy"] = d.lookup "channel_probe.npy" ∧
    readFile (d ++ x) ["templates.npy", "templates.waveforms.npy", "templates.waveforms.*.npy"] = d.lookup "templates.npy" ∧
    readFile (d ++ x) ["template_ind.npy", "templates.waveformsChannels*.npy"] = d.lookup "template_ind.npy" ∧
    readFile (d ++ x) ["whitening_mat.npy"] = d.lookup "whitening_mat.npy" ∧
    readFile (d ++ x) ["whitening_mat_inv.npy"] = d.lookup "whitening_mat_inv.npy" :=
  ⟨
    read_ks d x _ ["channel_map.npy", "channels.rawInd*.npy"] "channel_map.npy" hks hx (by decide) (by decide) (by decide),
    read_ks d x _ ["channel_positions.npy", "channels.localCoordinates*.npy"] "channel_positions.npy" hks hx (by decide) (by decide) (by decide),
    read_ks d x _ ["channel_shanks.npy", "channels.shanks*.npy"] "channel_shanks.npy" hks hx (by decide) (by decide) (by decide),
    read_ks d x _ ["channel_probe.npy", "channels.probes*.npy"] "channel_probe.npy" hks hx (by decide) (by decide) (by decide),
    read_ks d x _ ["templates.npy", "templates.waveforms.npy", "templates.waveforms.*.npy"] "templates.npy" hks hx (by decide) (by decide) (by decide),
    read_ks d x _ ["template_ind.npy", "templates.waveformsChannels*.npy"] "template_ind.npy" hks hx (by decide) (by decide) (by decide),
    read_ks d x _ ["whitening_mat.npy"] "whitening_mat.npy" hks hx (by decide) (by decide) (by decide),
    read_ks d x _ ["whitening_mat_inv.npy"] "whitening_mat_inv.npy" hks hx (by decide) (by decide) (by decide)⟩

/-- the reads after the spike-cluster step, ALF layout -/
theorem stage2_alf (d : Dir) (t : Arr) (x : Dir) (hks : ∀ n ∈ d.map (·.1), n ∈ ksNames)
    (hx : ∀ m ∈ x.map (·.1), m ∈ ["spike_clusters.npy"]) :
    readFile (toALF d t ++ x) ["channel_map.npy", "channels.rawInd*.npy"] = d.lookup "channel_map.npy" ∧
    readFile (toALF d t ++ x) ["channel_positions.npy", "channels.localCoordinates*.npy"] = d.lookup "channel_positions.npy" ∧
    readFile (toALF d t ++ x) ["channel_shanks.npy", "channels.shanks*.npy"] = d.lookup "channel_shanks.npy" ∧
    readFile (toALF d t ++ x) ["channel_probe.npy", "channels.probes*.npy"] = d.lookup "channel_probe.npy" ∧
    readFile (toALF d t ++ x) ["templates.npy", "templates.waveforms.npy", "templates.waveforms.*.npy"] = d.lookup "templates.npy" ∧
    readFile (toALF d t ++ x) ["template_ind.npy", "templates.waveformsChannels*.npy"] = d.lookup "template_ind.npy" ∧
    readFile (toALF d t ++ x) ["whitening_mat.npy"] = d.lookup "whitening_mat.npy" ∧
    readFile (toALF d t ++ x) ["whitening_mat_inv.npy"] = d.lookup "whitening_mat_inv.npy" :=
  ⟨
    read_alf d t x _ ["channel_map.npy", "channels.rawInd*.npy"] "channel_map.npy" hks hx (by decide) (by decide) (by decide) (by decide) (by decide),
    read_alf d t x _ ["channel_positions.npy", "channels.localCoordinates*.npy"] "channel_positions.npy" hks hx (by decide) (by decide) (by decide) (by decide) (by decide),
    read_alf d t x _ ["channel_shanks.npy", "channels.shanks*.npy"] "channel_shanks.npy" hks hx (by decide) (by decide) (by decide) (by decide) (by decide),
    read_alf d t x _ ["channel_probe.npy", "channels.probes*.npy"] "channel_probe.npy" hks hx (by decide) (by decide) (by decide) (by decide) (by decide),
    read_alf d t x _ ["templates.npy", "templates.waveforms.npy", "templates.waveforms.*.npy"] "templates.npy" hks hx (by decide) (by decide) (by decide) (by decide) (by decide),
    read_alf d t x _ ["template_ind.npy", "templates.waveformsChannels*.npy"] "template_ind.npy" hks hx (by decide) (by decide) (by decide) (by decide) (by decide),
    read_alf d t x _ ["whitening_mat.npy"] "whitening_mat.npy" hks hx (by decide) (by decide) (by decide) (by decide) (by decide),
    read_alf d t x _ ["whitening_mat_inv.npy"] "whitening_mat_inv.npy" hks hx (by decide) (by decide) (by decide) (by decide) (by decide)⟩

theorem stage3_ks (d x : Dir) (hks : ∀ n ∈ d.map (·.1), n ∈ ksNames)
    (hx : ∀ m ∈ x.map (·.1), m ∈ ["spike_clusters.npy", "whitening_mat_inv.npy"]) :
    readFile (d ++ x) ["similar_templates.npy"] = d.lookup "similar_templates.npy" :=
  read_ks d x _ _ _ hks hx (by decide) (by decide) (by decide)

theorem stage3_alf (d : Dir) (t : Arr) (x : Dir) (hks : ∀ n ∈ d.map (·.1), n ∈ ksNames)
    (hx : ∀ m ∈ x.map (·.1), m ∈ ["spike_clusters.npy", "whitening_mat_inv.npy"]) :
    readFile (toALF d t ++ x) ["similar_templates.npy"] = d.lookup "similar_templates.npy" :=
  read_alf d t x _ _ "similar_templates.npy" hks hx (by decide) (by decide) (by decide) (by decide) (by decide)

set_option hygiene false in
/-- the part of the proof after the spike-cluster step; `x` = files created so far -/
local macro "c04b_tail " x:term : tactic => `(tactic| (
  obtain ⟨e1, e2, e3, e4, e5, e6, e7, e8⟩ := stage2_ks d $x hks (by simp)
  obtain ⟨f1, f2, f3, f4, f5, f6, f7, f8⟩ := stage2_alf d t $x hks (by simp)
  have g1 := stage3_ks d $x hks (by simp)
  have g2 := stage3_alf d t $x hks (by simp)
  have g3 : ∀ y, readFile (d ++ ($x ++ [("whitening_mat_inv.npy", y)])) ["similar_templates.npy"] = _ :=
    fun y => stage3_ks d _ hks (by simp)
  have g4 : ∀ y, readFile (toALF d t ++ ($x ++ [("whitening_mat_inv.npy", y)])) ["similar_templates.npy"] = _ :=
    fun y => stage3_alf d t _ hks (by simp)
  simp only [List.append_nil, List.nil_append, List.cons_append] at e1 e2 e3 e4 e5 e6 e7 e8 f1 f2 f3 f4 f5 f6 f7 f8 g1 g2 g3 g4
  simp only [e1, e2, e3, e4, e5, e6, e7, e8] at h
  simp only [f1, f2, f3, f4, f5, f6, f7, f8]
  cases hcm : d.lookup "channel_map.npy" with
  | none => simp only [hcm] at h; cases h
  | some cm =>
  cases hpos : d.lookup "channel_positions.npy" with
  | none => simp only [hcm, hpos] at h; cases h
  | some pos =>
  simp only [hcm, hpos] at h ⊢
  cases hwmi : d.lookup "whitening_mat_inv.npy" with
  | some wi =>
    simp only [hwmi, g1] at h
    simp only [hwmi, g2]
    cases h
    exact ⟨_, _, rfl, by repeat' constructor⟩
  | none =>
    cases hwm : d.lookup "whitening_mat.npy" with
    | some w =>
      simp only [hwmi, hwm, Option.map_some, List.append_assoc, List.cons_append, List.nil_append, g3] at h
      simp only [hwmi, hwm, Option.map_some, List.append_assoc, List.cons_append, List.nil_append, g4]
      cases h
      exact ⟨_, _, rfl, by repeat' constructor⟩
    | none =>
      simp only [hwmi, hwm, Option.map_none, List.append_assoc, List.cons_append, List.nil_append, g3] at h
      simp only [hwmi, hwm, Option.map_none, List.append_assoc, List.cons_append, List.nil_append, g4]
      cases h
      exact ⟨_, _, rfl, by repeat' constructor⟩))

theorem load_layout_independent (inv : Arr → Arr) {one : Cell} (d : Dir) (t : Arr)
    (hks : ∀ n ∈ d.map (·.1), n ∈ ksNames)
    (ht : monotone (scrub t).data = true)
    (v : View) (d' : Dir) (h : load inv d one = .ok (v, d')) :
    ∃ v' d'', load inv (toALF d t) one = .ok (v', d'') ∧
      v'.times = .stored (squeeze (scrub t)) ∧ v'.samples = v.samples ∧
      v'.amplitudes = v.amplitudes ∧ v'.spikeTemplates = v.spikeTemplates ∧
      v'.spikeClusters = v.spikeClusters ∧ v'.channelMap = v.channelMap ∧
      v'.channelPositions = v.channelPositions ∧ v'.channelShanks = v.channelShanks ∧
      v'.channelProbes = v.channelProbes ∧ v'.templates = v.templates ∧
      v'.templateCols = v.templateCols ∧ v'.wm = v.wm ∧ v'.wmi = v.wmi ∧ v'.similar = v.similar := by
  -- stage 1: reads on the original directories
  have k1 : readFile d ["spikes.times*.npy"] = none := by
    rw [read_ks0 d _ "spikes.times.npy" hks (by decide) (by decide)]
    exact lookup_none_of_not_mem d _ (fun hm => by have := hks _ hm; revert this; decide)
  have k2 := read_ks0 d ["amplitudes.npy", "spikes.amps*.npy"] "amplitudes.npy" hks (by decide) (by decide)
  have k3 := read_ks0 d ["spike_templates.npy", "spikes.templates*.npy"] "spike_templates.npy" hks (by decide) (by decide)
  have k4 := find_ks0 d ["spike_clusters.npy", "spikes.clusters*.npy"] "spike_clusters.npy" hks (by decide) (by decide)
  have k5 := find_ks0 d ["spike_templates.npy", "spikes.templates*.npy"] "spike_templates.npy" hks (by decide) (by decide)
  -- no conflict of cluster files in either layout: `d` has no ALF name, `toALF d t` no KiloSort name
  have k6 : findPath d ["spikes.clusters*.npy"] = none := by
    rw [find_ks0 d _ "spikes.clusters.npy" hks (by decide) (by decide),
      lookup_none_of_not_mem d _ (fun hm => by have := hks _ hm; revert this; decide)]
    rfl
  have a8 : findPath (toALF d t) ["spike_clusters.npy"] = none := by
    rw [findPath_eq_of_unique (toALF d t) _ "spike_clusters.npy"
      (fun m hm => (by decide : ∀ m ∈ alfNames, ∀ p ∈ ["spike_clusters.npy"], globMatch p m = true → m = "spike_clusters.npy") m
        (toALF_names d t hks m hm)) (by decide),
      lookup_none_of_not_mem _ _ (fun hm => by have := toALF_names d t hks _ hm; revert this; decide)]
    rfl
  have a0 : (toALF d t).lookup "spike_times.npy" = none :=
    lookup_none_of_not_mem _ _ (fun hm => by have := toALF_names d t hks _ hm; revert this; decide)
  have a1 : readFile (toALF d t) ["spikes.times*.npy"] = some t := by
    rw [readFile_eq_of_unique (toALF d t) _ "spikes.times.npy"
      (fun m hm => (by decide : ∀ m ∈ alfNames, ∀ p ∈ ["spikes.times*.npy"], globMatch p m = true → m = "spikes.times.npy") m
        (toALF_names d t hks m hm)) (by decide)]
    simp [toALF]
  have a1' := read_alf0 d t ["spikes.samples*.npy"] "spike_times.npy" hks (by decide) (by decide) (by decide) (by decide)
  have a2 := read_alf0 d t ["amplitudes.npy", "spikes.amps*.npy"] "amplitudes.npy" hks (by decide) (by decide) (by decide) (by decide)
  have a3 := read_alf0 d t ["spike_templates.npy", "spikes.templates*.npy"] "spike_templates.npy" hks (by decide) (by decide) (by decide) (by decide)
  have a4 := find_alf0 d t ["spike_clusters.npy", "spikes.clusters*.npy"] "spike_clusters.npy" hks (by decide) (by decide) (by decide) (by decide)
  have a5 := find_alf0 d t ["spike_templates.npy", "spikes.templates*.npy"] "spike_templates.npy" hks (by decide) (by decide) (by decide) (by decide)
  have a6 := lookup_toALF0 d t "spike_clusters.npy" hks (by decide) (by decide)
  have a7 := lookup_toALF0 d t "spike_templates.npy" hks (by decide) (by decide)
  simp only [load, bind, Except.bind, pure, Except.pure, throw, throwThe, MonadExceptOf.throw, k1, k2, k3, k4, k5, k6,
    Option.isSome_none, Bool.and_false, Bool.false_eq_true, if_false] at h
  simp only [load, bind, Except.bind, pure, Except.pure, throw, throwThe, MonadExceptOf.throw, a0, a1, a1', a2, a3, a4, a5, a8,
    Option.isSome_none, Bool.false_and, Bool.false_eq_true, if_false]
  cases hst : d.lookup "spike_times.npy" with
  | none => simp only [hst] at h; cases h
  | some s =>
  simp only [hst] at h
  simp only [ht, Bool.not_true, Bool.false_eq_true, if_false]
  cases hm : monotone (scrub s).data with
  | false => simp [hm] at h
  | true =>
  simp only [hm, Bool.not_true, Bool.false_eq_true, if_false] at h
  cases htm : d.lookup "spike_templates.npy" with
  | none => simp only [htm] at h; cases h
  | some st =>
  cases hsc : d.lookup "spike_clusters.npy" with
  | some c =>
    simp only [htm, hsc, Option.map_some] at h
    simp only [hsc, Option.map_some, a6]
    c04b_tail []
  | none =>
    simp only [htm, hsc, Option.map_some, Option.map_none] at h
    simp only [htm, Option.map_some, Option.map_none, a7]
    c04b_tail [("spike_clusters.npy", st)]

end PhyVerif.C04.Lemmas
