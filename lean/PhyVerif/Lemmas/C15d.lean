import PhyVerif.Lemmas.C15c
/-!
Proofs for the fourth part of C15: the STATEMENT's own counts (`specSeconds`, bin a rational number of seconds) against
what the code counts when `rate · bin` is not a whole number of samples (it truncates the bin), the change of units
between seconds and samples, the `int32` cells of the count array, the `int64` samples.  Statements: `Props/C15.lean`.
-/
namespace PhyVerif.C15.Lemmas
open PhyVerif PhyVerif.C15 PhyVerif.Fl PhyVerif.Fl.Lemmas

/-! ### the statement's counts, one floor per pair -/

theorem count_map_eq_length_filter {α β : Type} [BEq β] (f : α → β) (l : List α) (e : β) :
    (l.map f).count e = (l.filter fun p => f p == e).length := by
  rw [List.count_eq_countP, List.countP_map, List.countP_eq_length_filter]
  rfl

theorem stmtSeconds_eq (times : List ℚ) (sc : List Int) (ids : List Nat) (bin : ℚ) (half : Nat) :
    stmtSeconds times sc ids bin half = specSeconds times sc ids bin half := by
  unfold stmtSeconds specSeconds stmtEvents
  apply List.map_congr_left
  intro i _
  apply List.map_congr_left
  intro j _
  apply List.map_congr_left
  intro k _
  rw [count_map_eq_length_filter]
  apply congrArg
  apply List.filter_congr
  intro p _
  rw [Bool.eq_iff_iff]
  simp only [Bool.and_eq_true, beq_iff_eq, Prod.mk.injEq]
  tauto

/-! ### change of units: seconds ↔ samples -/

theorem getD_map_mul (times : List ℚ) (r : ℚ) (a : Nat) :
    (times.map (· * r)).getD a 0 = times.getD a 0 * r := by
  simp only [List.getD_eq_getElem?_getD, List.getElem?_map]
  cases times[a]? <;> simp

theorem specSeconds_scale (times : List ℚ) (sc : List Int) (ids : List Nat) (r bin : ℚ) (half : Nat) (hr : r ≠ 0) :
    specSeconds (times.map (· * r)) sc ids (r * bin) half = specSeconds times sc ids bin half := by
  unfold specSeconds
  apply List.map_congr_left
  intro i _
  apply List.map_congr_left
  intro j _
  apply List.map_congr_left
  intro k _
  rw [List.length_map]
  apply congrArg
  apply List.filter_congr
  intro p _
  rw [getD_map_mul, getD_map_mul, ← sub_mul, mul_comm r bin, mul_div_mul_right _ _ hr]

theorem map_mul_onGrid (times : List ℚ) (rate : ℚ) (T : List Int) (hlen : T.length = times.length)
    (h : ∀ a, a < times.length → times.getD a 0 * rate = ((T.getD a 0 : Int) : ℚ)) :
    times.map (· * rate) = T.map fun (z : Int) => (z : ℚ) := by
  apply List.ext_getElem
  · simp [hlen]
  · intro a h1 h2
    simp only [List.length_map] at h1 h2
    have e := h a h1
    simp only [List.getD_eq_getElem?_getD, List.getElem?_eq_getElem h1, List.getElem?_eq_getElem h2,
      Option.getD_some] at e
    simp only [List.getElem_map, e]

theorem specSeconds_onGrid (times : List ℚ) (sc : List Int) (ids : List Nat) (rate bin : ℚ) (T : List Int) (half : Nat)
    (hr : 0 < rate) (hlen : T.length = times.length)
    (h : ∀ a, a < times.length → times.getD a 0 * rate = ((T.getD a 0 : Int) : ℚ)) :
    specSeconds times sc ids bin half = specSeconds (T.map fun (z : Int) => (z : ℚ)) sc ids (rate * bin) half := by
  rw [← map_mul_onGrid times rate T hlen h, specSeconds_scale _ _ _ _ _ _ (ne_of_gt hr)]

theorem getD_map_cast (T : List Int) (a : Nat) : (T.map fun (z : Int) => (z : ℚ)).getD a 0 = ((T.getD a 0 : Int) : ℚ) := by
  simp only [List.getD_eq_getElem?_getD, List.getElem?_map]
  cases T[a]? <;> simp

theorem specSeconds_whole (T : List Int) (sc : List Int) (ids : List Nat) (B : Int) (half : Nat) (hB : 0 < B) :
    specSeconds (T.map fun (z : Int) => (z : ℚ)) sc ids (B : ℚ) half = specCcg T sc ids B half := by
  unfold specSeconds specCcg
  apply List.map_congr_left
  intro i _
  apply List.map_congr_left
  intro j _
  apply List.map_congr_left
  intro k _
  rw [List.length_map]
  apply congrArg
  apply List.filter_congr
  intro p _
  rw [getD_map_cast, getD_map_cast, ← Int.cast_sub, floor_intdiv _ _ hB]

/-! ### what the code counts when `rate · bin` is not whole -/

theorem binsizeOf_floor (rate bin : ℚ) (hr : 0 < rate) (h1 : clipLo ≤ bin) (h2 : bin ≤ clipHi) :
    binsizeOf rate bin = (rate * bin).floor := by
  unfold binsizeOf
  have hb : 0 < bin := lt_of_lt_of_le clipLo_pos h1
  rw [clip_id _ _ _ h1 h2, truncInt_nonneg _ (le_of_lt (mul_pos hr hb))]

theorem correlogramsQ_truncates (times : List ℚ) (sc : List Int) (ids : List Nat) (rate bin window : ℚ)
    (T : List Int) (g : TimesOK times rate bin window T)
    (hsorted : times.Pairwise (· ≤ ·)) (hlen : sc.length = times.length) (hdom : InDom sc ids) (sym : Bool) :
    binsizeOf rate bin = (rate * bin).floor ∧
    correlogramsQ times sc (some ids) rate bin window sym =
      some (if sym then symmetrize (specSeconds times sc ids (((rate * bin).floor : ℚ) / rate) (halfOf window bin))
            else specSeconds times sc ids (((rate * bin).floor : ℚ) / rate) (halfOf window bin)) := by
  have hbs := binsizeOf_floor rate bin g.rate_pos g.bin_lo g.bin_hi
  refine ⟨hbs, ?_⟩
  have hT := samples_sorted times rate T g.rate_pos g.len g.onGrid hsorted
  have hB : 0 < (rate * bin).floor := by have := g.binPos; omega
  have hr0 : rate ≠ 0 := ne_of_gt g.rate_pos
  unfold correlogramsQ
  rw [if_neg (by simp [g.rate_pos]), if_neg (by simp [zip_tail_of_pairwise times hsorted]),
    if_neg (by simp [hlen]), hbs, if_neg (by omega), samplesOf_onGrid rate times T g.len g.onGrid]
  simp only [idsOr]
  rw [correlogramsArr_eq T sc ids _ (halfOf window bin) (winsizeBins window bin) rfl hT hB (by rw [hlen, g.len]) hdom,
    correlograms_eq_spec T sc ids _ (halfOf window bin) hT hB (by rw [hlen, g.len]) hdom,
    ← specSeconds_whole T sc ids _ _ hB,
    specSeconds_onGrid times sc ids rate (((rate * bin).floor : ℚ) / rate) T _ g.rate_pos g.len g.onGrid,
    mul_div_cancel₀ _ hr0]

/-! ### the `int32` cells of the count array -/

theorem pairs_length (n : Nat) : (pairs n).length * 2 = n * (n - 1) := by
  induction n with
  | zero => rfl
  | succ n ih =>
    have : pairs (n + 1) = pairs n ++ (List.range n).map fun a => (a, n) := by
      simp [pairs, List.range_succ, List.flatMap_append]
    rw [this, List.length_append, List.length_map, List.length_range, Nat.add_mul, ih]
    cases n with
    | zero => rfl
    | succ m => simp only [Nat.add_sub_cancel]; ring

theorem get3_specCcg_le (t : List Int) (sc : List Int) (ids : List Nat) (bin : Int) (half : Nat) (i j k : Nat) :
    get3 (specCcg t sc ids bin half) i j k ≤ (pairs t.length).length := by
  unfold get3 specCcg
  simp only [List.getD_eq_getElem?_getD, List.getElem?_map]
  rcases hi : (List.range ids.length)[i]? with _ | i' <;> simp only [Option.map_none, Option.map_some, Option.getD_none,
    Option.getD_some, List.getElem?_nil, List.getElem?_map, Nat.zero_le]
  rcases hj : (List.range ids.length)[j]? with _ | j' <;> simp only [Option.map_none, Option.map_some, Option.getD_none,
    Option.getD_some, List.getElem?_nil, List.getElem?_map, Nat.zero_le]
  rcases hk : (List.range (half + 1))[k]? with _ | k' <;> simp only [Option.map_none, Option.map_some, Option.getD_none,
    Option.getD_some, Nat.zero_le]
  exact List.length_filter_le _ _

theorem correlogramsArr_int32 (t : List Int) (sc : List Int) (ids : List Nat) (bin : Int) (half : Nat) (w : Int)
    (hw : (w / 2).toNat = half) (hsorted : t.Pairwise (· ≤ ·)) (hb : 0 < bin) (hlen : sc.length = t.length)
    (hdom : InDom sc ids) (hn : t.length ≤ 65536) :
    ∃ c, correlogramsArr t sc ids bin w = some c ∧ ∀ i j k, get3 c i j k < 2 ^ 31 := by
  refine ⟨specCcg t sc ids bin half, ?_, ?_⟩
  · rw [correlogramsArr_eq t sc ids bin half w hw hsorted hb hlen hdom,
      correlograms_eq_spec t sc ids bin half hsorted hb hlen hdom]
  · intro i j k
    have h1 := get3_specCcg_le t sc ids bin half i j k
    have h2 := pairs_length t.length
    have h3 : t.length * (t.length - 1) ≤ 65536 * 65535 := Nat.mul_le_mul hn (by omega)
    omega

/-! ### the `int64` samples -/

theorem pow2_63 : pow2 63 = ((2 ^ 63 : Int) : ℚ) := by
  unfold pow2; norm_num

theorem truncInt_int64 (x : ℚ) (h : absR x < pow2 63) : -2 ^ 63 < truncInt x ∧ truncInt x < 2 ^ 63 := by
  rw [absR_eq, pow2_63] at h
  unfold truncInt
  split
  · rename_i h0
    rw [abs_of_nonneg h0] at h
    have h1 : ((x.floor : Int) : ℚ) < ((2 ^ 63 : Int) : ℚ) := lt_of_le_of_lt (floor_le' x) h
    have h2 := floor_nonneg x h0
    rw [Int.cast_lt] at h1
    omega
  · rename_i h0
    have h0' : x < 0 := not_le.mp h0
    rw [abs_of_neg h0'] at h
    have h1 : (((-x).floor : Int) : ℚ) < ((2 ^ 63 : Int) : ℚ) := lt_of_le_of_lt (floor_le' (-x)) h
    have h2 := floor_nonneg (-x) (by linarith)
    rw [Int.cast_lt] at h1
    omega

theorem samplesOfFl_int64 (times : List ℚ) (rate bin window : ℚ) (h : FlDom times rate bin window) :
    ∀ s ∈ samplesOfFl rate times, -2 ^ 63 < s ∧ s < 2 ^ 63 := by
  intro s hs
  unfold samplesOfFl at hs
  obtain ⟨t, ht, rfl⟩ := List.mem_map.mp hs
  exact truncInt_int64 _ (h.1 t ht).2

/-! ### the float model: what it counts, in the statement's terms -/

theorem correlogramsFl_truncates (times : List ℚ) (sc : List Int) (ids : List Nat) (rate bin window : ℚ) (sym : Bool)
    (hr : 0 < rate) (hsorted : times.Pairwise (· ≤ ·)) (hlen : sc.length = times.length) (hdom : InDom sc ids)
    (hb : 1 ≤ binsizeOfFl rate bin) :
    binsizeOfFl rate bin = truncInt (binProdFl rate bin) ∧
    correlogramsFl times sc (some ids) rate bin window sym =
      some (if sym then symmetrize (specSeconds ((samplesOfFl rate times).map fun (z : Int) => (z : ℚ)) sc ids
                                      ((binsizeOfFl rate bin : Int) : ℚ) (halfOfFl window bin))
            else specSeconds ((samplesOfFl rate times).map fun (z : Int) => (z : ℚ)) sc ids
                   ((binsizeOfFl rate bin : Int) : ℚ) (halfOfFl window bin)) := by
  refine ⟨rfl, ?_⟩
  rw [correlogramsFl_eq_spec times sc ids rate bin window sym hr hsorted hlen hdom hb,
    specSeconds_whole _ sc ids _ _ (by omega)]

theorem firing_zero_of_empty_model (sc : List Int) (ids : List Nat) (bin : ℚ) (dur : Option ℚ)
    (hdom : InDom sc ids) (hb : 0 < bin)
    (i : Nat) (hi : i < ids.length) (he : Int.ofNat (ids.getD i 0) ∉ sc) (j : Nat) (hj : j < ids.length) :
    ∃ m, firingRate sc (some ids) bin dur = some m ∧ (m.getD i []).getD j 0 = 0 ∧ (m.getD j []).getD i 0 = 0 :=
  ⟨_, firing_rate_eq sc ids bin dur hdom hb, firing_zero_of_empty sc ids bin dur i hi he j hj⟩

end PhyVerif.C15.Lemmas
