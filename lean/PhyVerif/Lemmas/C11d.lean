import PhyVerif.Model.C11
import PhyVerif.Spec.C11
import PhyVerif.Lemmas.C11
import PhyVerif.Lemmas.C11c
/-! Proofs for the later C11 theorems: size of the per-cluster probe table, its coverage. -/
namespace PhyVerif.C11.Lemmas
open PhyVerif PhyVerif.C11

/-! ### `foldl max` -/

theorem foldl_max_init (l : List Nat) : ∀ c : Nat, l.foldl max c = max c (l.foldl max 0) := by
  induction l with
  | nil => intro c; simp
  | cons b l ih =>
    intro c
    rw [List.foldl_cons, List.foldl_cons, ih (max c b), ih (max 0 b)]
    omega

theorem foldl_max_append (a b : List Nat) :
    (a ++ b).foldl max 0 = max (a.foldl max 0) (b.foldl max 0) := by
  rw [List.foldl_append, foldl_max_init b]

theorem foldl_max_map_add (a : List Nat) (off : Nat) :
    ∀ c : Nat, (a.map (· + off)).foldl max (c + off) = a.foldl max c + off := by
  induction a with
  | nil => intro c; rfl
  | cons x t ih =>
    intro c
    rw [List.map_cons, List.foldl_cons, List.foldl_cons, show max (c + off) (x + off) = max c x + off by omega]
    exact ih _

theorem foldl_max_shift (a : List Nat) (off : Nat) (hne : a ≠ []) :
    (a.map (· + off)).foldl max 0 = a.foldl max 0 + off := by
  cases a with
  | nil => exact absurd rfl hne
  | cons x t =>
    rw [List.map_cons, List.foldl_cons, List.foldl_cons, show max 0 (x + off) = x + off by omega,
      show max 0 x = x by omega]
    exact foldl_max_map_add t off x

theorem foldl_max_perm {l l' : List Nat} (p : l.Perm l') : l.foldl max 0 = l'.foldl max 0 :=
  p.foldl_eq' (fun x _ y _ z => by omega) 0

/-! ### gathering is a permutation -/

theorem gather_perm {α : Type} (times : List (List Int)) (arrays : List (List α))
    (h : arrays.flatten.length = times.flatten.length) :
    (gather arrays (spikeOrder times)).Perm arrays.flatten := by
  have hp := (spikeOrder_perm times).filterMap (arrays.flatten[·]?)
  rw [← h, range_filterMap_getElem?] at hp
  exact hp

/-! ### the probe table has one entry per merged cluster id -/

/-- number of merged cluster ids: every probe takes `max(spike_clusters) + 1` ids (merge.py:147,157) -/
def idCounts (ids : List (List Nat)) : List Nat := ids.map fun a => a.foldl max 0 + 1

theorem clusterProbesFrom_length (ids : List (List Nat)) :
    ∀ j, (clusterProbesFrom j ids).length = (idCounts ids).sum := by
  induction ids with
  | nil => intro j; rfl
  | cons a rest ih =>
    intro j
    rw [clusterProbesFrom_cons, List.length_append, List.length_replicate, ih]
    simp [idCounts]

theorem clusterProbes_length_sum (ids : List (List Nat)) :
    (clusterProbes ids).length = (idCounts ids).sum := by
  have := clusterProbesFrom_length ids 0
  simpa [clusterProbesFrom, clusterProbes] using this

/-- shifted id arrays with a starting offset -/
def shiftIdsFrom (off : Nat) (ids : List (List Nat)) : List (List Nat) :=
  (ids.zip (idOffsetsFrom off ids)).map fun p => p.1.map (· + p.2)

theorem shiftIdsFrom_cons (off : Nat) (a : List Nat) (rest : List (List Nat)) :
    shiftIdsFrom off (a :: rest) = a.map (· + off) :: shiftIdsFrom (off + a.foldl max 0 + 1) rest := by
  simp [shiftIdsFrom, idOffsetsFrom]

/-- with a spike in every probe, the largest shifted id is the last id of the merged numbering -/
theorem shiftIdsFrom_max (ids : List (List Nat)) (hne : ∀ a ∈ ids, a ≠ []) (h0 : ids ≠ []) :
    ∀ off, (shiftIdsFrom off ids).flatten.foldl max 0 + 1 = off + (idCounts ids).sum := by
  induction ids with
  | nil => exact absurd rfl h0
  | cons a rest ih =>
    intro off
    have ha : a ≠ [] := hne a (by simp)
    rw [shiftIdsFrom_cons, List.flatten_cons, foldl_max_append, foldl_max_shift a off ha]
    cases hr : rest with
    | nil => simp [shiftIdsFrom, idCounts]; omega
    | cons b rest' =>
      have := ih (fun x hx => hne x (by simp [hx])) (by simp [hr]) (off + a.foldl max 0 + 1)
      rw [hr] at this
      simp only [idCounts, List.map_cons, List.sum_cons] at this ⊢
      omega

theorem clusterProbes_length (times : List (List Int)) (ids : List (List Nat))
    (hlen : ids.flatten.length = times.flatten.length) (hne : NonEmpty ids) (h0 : ids ≠ []) :
    (clusterProbes ids).length = (mergedIds times ids).foldl max 0 + 1 ∧
    (clusterProbes ids).length = (ids.map fun a => a.foldl max 0 + 1).sum := by
  have hsum := clusterProbes_length_sum ids
  refine ⟨?_, hsum⟩
  have hl : (shiftIds ids).flatten.length = times.flatten.length := by
    rw [shiftIds_flatten_length]; exact hlen
  have hp := gather_perm times (shiftIds ids) hl
  have hmax := shiftIdsFrom_max ids hne h0 0
  unfold mergedIds
  rw [foldl_max_perm hp, hsum]
  have : shiftIds ids = shiftIdsFrom 0 ids := rfl
  rw [this]; omega

/-! ### coverage: every row of the table belongs to exactly one probe's id range -/

theorem clusterProbesFrom_cover (ids : List (List Nat)) :
    ∀ (off K : Nat), off ≤ K → K < off + (idCounts ids).sum →
      ∃ k c, k < ids.length ∧ c ≤ (ids.getD k []).foldl max 0 ∧ K = c + (idOffsetsFrom off ids).getD k 0 := by
  induction ids with
  | nil => intro off K h1 h2; simp [idCounts] at h2; omega
  | cons a rest ih =>
    intro off K h1 h2
    simp only [idCounts, List.map_cons, List.sum_cons] at h2
    rcases Nat.lt_or_ge K (off + a.foldl max 0 + 1) with h | h
    · exact ⟨0, K - off, by simp, by simp; omega, by simp [idOffsetsFrom]; omega⟩
    · obtain ⟨k, c, hk, hc, hK⟩ := ih (off + a.foldl max 0 + 1) K h (by simp only [idCounts]; omega)
      exact ⟨k + 1, c, by simpa using hk, by simpa using hc, by simpa [idOffsetsFrom] using hK⟩

theorem clusterProbes_cover (ids : List (List Nat)) (K : Nat) (hK : K < (clusterProbes ids).length) :
    ∃ k c, k < ids.length ∧ c ≤ (ids.getD k []).foldl max 0 ∧ K = c + (idOffsets ids).getD k 0 ∧
      (clusterProbes ids).getD K ids.length = k := by
  rw [clusterProbes_length_sum] at hK
  obtain ⟨k, c, hk, hc, hKe⟩ := clusterProbesFrom_cover ids 0 K (Nat.zero_le _) (by omega)
  refine ⟨k, c, hk, hc, hKe, ?_⟩
  rw [hKe]
  exact clusterProbes_ok ids k hk c hc

end PhyVerif.C11.Lemmas
