import PhyVerif.Model.C13
import PhyVerif.Model.C13b
/-! Helper lemmas and full proofs for C13. Statements: `Props/C13.lean`. -/
namespace PhyVerif.C13.Lemmas
open PhyVerif PhyVerif.C13

theorem withLabel3 (label a b c : String) : withLabel label [a, b, c] = [a, b, label, c] := by
  simp [withLabel]

/-- the labelled tables, written out -/
theorem renameAll_objectTables (label : String) (hl : label ≠ "") (s : Sizes) :
    renameAll label (objectTables s) =
      (objectTables s).map fun f => (withLabel label f.1, f.2) := by
  simp [renameAll, hl, objectTables, isObjectFile]

theorem convert_some (src out label : String) (s : Sizes) (files : List (Name × Nat))
    (h : convert src out label s = some files) : files = renameAll label (objectTables s) := by
  unfold convert at h
  split at h
  · cases h
  · cases h; rfl

theorem export_row_counts (src out label : String) (s : Sizes) (files : List (Name × Nat))
    (h : convert src out label s = some files) :
    ∀ f ∈ files, expectedRows s f.1 = some f.2 := by
  have hf := convert_some src out label s files h
  subst hf
  by_cases hl : label = ""
  · intro f hf
    simp [renameAll, hl, objectTables] at hf
    rcases hf with hf | hf | hf | hf | hf | hf | hf | hf | hf | hf | hf | hf | hf | hf | hf | hf | hf | hf <;>
      subst hf <;> simp [expectedRows]
  · rw [renameAll_objectTables label hl]
    intro f hf
    simp [objectTables, withLabel3] at hf
    rcases hf with hf | hf | hf | hf | hf | hf | hf | hf | hf | hf | hf | hf | hf | hf | hf | hf | hf | hf <;>
      subst hf <;> simp [expectedRows]

theorem label_before_extension (label : String) (stem : List String) (ext : String) :
    withLabel label (stem ++ [ext]) = stem ++ [label, ext] := by
  simp [withLabel, List.reverse_append]

theorem labels_applied (src out label : String) (s : Sizes) (files : List (Name × Nat))
    (h : convert src out label s = some files) :
    (label = "" → files = objectTables s) ∧
    (label ≠ "" → ∀ f ∈ files, f.1.reverse.tail.head? = some label ∧ f.1.length = 4) := by
  have hf := convert_some src out label s files h
  subst hf
  constructor
  · intro hl
    simp [renameAll, hl]
  · intro hl
    rw [renameAll_objectTables label hl]
    intro f hf
    simp [objectTables, withLabel3] at hf
    rcases hf with hf | hf | hf | hf | hf | hf | hf | hf | hf | hf | hf | hf | hf | hf | hf | hf | hf | hf <;>
      subst hf <;> simp

theorem refuses_same_dir (src label : String) (s : Sizes) : convert src src label s = none := by
  simp [convert]

theorem uuid_rows (src out label : String) (s : Sizes) (files : List (Name × Nat))
    (h : convert src out label s = some files) (n : Name) (k : Nat) (hm : (n, k) ∈ files)
    (hu : n.take 2 = ["clusters", "uuids"]) : k = s.nClusters := by
  have hf := convert_some src out label s files h
  subst hf
  by_cases hl : label = ""
  · simp [renameAll, hl, objectTables] at hm
    rcases hm with hm | hm | hm | hm | hm | hm | hm | hm | hm | hm | hm | hm | hm | hm | hm | hm | hm | hm <;>
      obtain ⟨rfl, rfl⟩ := hm <;> first | rfl | (exfalso; revert hu; decide)
  · rw [renameAll_objectTables label hl] at hm
    simp [objectTables, withLabel3] at hm
    rcases hm with hm | hm | hm | hm | hm | hm | hm | hm | hm | hm | hm | hm | hm | hm | hm | hm | hm | hm <;>
      obtain ⟨rfl, rfl⟩ := hm <;> first | rfl | (exfalso; revert hu; simp)

/-! ### Round trip through the loader model (C04) -/
section Reload
open PhyVerif.C04

/-- the characters a label puts between a stem and `.npy` -/
def mid (label : String) : List Char := if label = "" then [] else '.' :: label.toList

theorem labelled_toList (label stem : String) :
    (labelled label stem).toList = stem.toList ++ (mid label ++ ['.', 'n', 'p', 'y']) := by
  unfold labelled mid
  split <;> simp [String.toList_append]

/-- two character lists differ at a position both have -/
def mismatch : List Char → List Char → Bool
  | a :: as, b :: bs => a != b || mismatch as bs
  | _, _ => false

theorem not_prefix_of_mismatch : ∀ (p st rest : List Char), mismatch p st = true →
    p.isPrefixOf (st ++ rest) = false
  | [], _, _, h => by simp [mismatch] at h
  | _ :: _, [], _, h => by simp [mismatch] at h
  | a :: as, b :: bs, rest, h => by
    simp only [mismatch, Bool.or_eq_true, bne_iff_ne, ne_eq] at h
    simp only [List.cons_append, List.isPrefixOf, Bool.and_eq_false_iff, beq_eq_false_iff_ne, ne_eq]
    rcases h with h | h
    · exact Or.inl h
    · exact Or.inr (not_prefix_of_mismatch as bs rest h)

theorem globMatch_false_of_not_prefix (pat name : String)
    (h : (splitStar pat.toList).1.isPrefixOf name.toList = false) : globMatch pat name = false := by
  unfold globMatch
  rcases hs : splitStar pat.toList with ⟨pre, _ | suf⟩
  · rw [hs] at h
    simp only [beq_eq_false_iff_ne, ne_eq]
    intro heq
    rw [heq] at h
    have h2 : name.toList.isPrefixOf name.toList = true :=
      List.isPrefixOf_iff_prefix.mpr (List.prefix_refl _)
    rw [h2] at h
    cases h
  · rw [hs] at h
    simp only [h, Bool.false_and]

theorem globMatch_true_of_parts (pat name : String) (pre m suf : List Char)
    (hs : splitStar pat.toList = (pre, some suf)) (hn : name.toList = pre ++ (m ++ suf)) :
    globMatch pat name = true := by
  unfold globMatch
  simp only [hs, hn]
  have h1 : pre.isPrefixOf (pre ++ (m ++ suf)) = true :=
    List.isPrefixOf_iff_prefix.mpr (List.prefix_append _ _)
  have h2 : suf.isSuffixOf (pre ++ (m ++ suf)) = true := by
    rw [← List.append_assoc]
    exact List.isSuffixOf_iff_suffix.mpr (List.suffix_append _ _)
  rw [h1, h2]
  simp only [List.length_append, Bool.and_self, Bool.true_and, decide_eq_true_eq]
  omega

theorem gm_lab_false (pat label stem : String)
    (h : mismatch (splitStar pat.toList).1 stem.toList = true) :
    globMatch pat (labelled label stem) = false := by
  apply globMatch_false_of_not_prefix
  rw [labelled_toList]
  exact not_prefix_of_mismatch _ _ _ h

theorem gm_lab_true (pat label stem : String)
    (h : splitStar pat.toList = (stem.toList, some ['.', 'n', 'p', 'y'])) :
    globMatch pat (labelled label stem) = true :=
  globMatch_true_of_parts pat _ _ (mid label) _ h (labelled_toList label stem)

theorem ne_of_mismatch (a st rest : List Char) (h : mismatch a st = true) : a ≠ st ++ rest := by
  intro heq
  have := not_prefix_of_mismatch a st rest h
  rw [← heq] at this
  have h2 : a.isPrefixOf a = true := List.isPrefixOf_iff_prefix.mpr (List.prefix_refl _)
  rw [h2] at this
  cases this

theorem lit_beq_labelled (lit label stem : String) (h : mismatch lit.toList stem.toList = true) :
    (lit == labelled label stem) = false := by
  simp only [beq_eq_false_iff_ne, ne_eq]
  intro heq
  have := congrArg String.toList heq
  rw [labelled_toList] at this
  exact ne_of_mismatch _ _ _ h this

theorem labelled_beq_labelled (label s1 s2 : String) (h : mismatch s1.toList s2.toList = true) :
    (labelled label s1 == labelled label s2) = false := by
  simp only [beq_eq_false_iff_ne, ne_eq]
  intro heq
  have := congrArg String.toList heq
  rw [labelled_toList, labelled_toList] at this
  have h2 := not_prefix_of_mismatch _ _ (mid label ++ ['.', 'n', 'p', 'y']) h
  rw [← this] at h2
  have h3 : ∀ l r : List Char, l.isPrefixOf (l ++ r) = true := fun l r =>
    List.isPrefixOf_iff_prefix.mpr (List.prefix_append _ _)
  rw [h3] at h2
  cases h2

/-- every labelled name continues with a dot after its stem -/
theorem labelled_toList_dot (label stem : String) :
    ∃ rest, (labelled label stem).toList = (stem.toList ++ ['.']) ++ rest := by
  rw [labelled_toList]
  unfold mid
  split
  · exact ⟨['n', 'p', 'y'], by simp⟩
  · exact ⟨label.toList ++ ['.', 'n', 'p', 'y'], by simp⟩

theorem labelled_beq_labelled_dot (label s1 s2 : String)
    (h : mismatch s1.toList (s2.toList ++ ['.']) = true) :
    (labelled label s1 == labelled label s2) = false := by
  simp only [beq_eq_false_iff_ne, ne_eq]
  intro heq
  have := congrArg String.toList heq
  obtain ⟨rest, hr⟩ := labelled_toList_dot label s2
  rw [labelled_toList, hr] at this
  have h2 := not_prefix_of_mismatch _ _ rest h
  rw [← this] at h2
  have h3 : ∀ l r : List Char, l.isPrefixOf (l ++ r) = true := fun l r =>
    List.isPrefixOf_iff_prefix.mpr (List.prefix_append _ _)
  rw [h3] at h2
  cases h2

theorem lookup_spike_times (label : String) (s : Source) :
    (exportDir label s).lookup "spike_times.npy" = none := by
  simp (disch := decide) [exportDir, List.lookup_cons, lit_beq_labelled]

theorem read_times (label : String) (s : Source) :
    readFile (exportDir label s) ["spikes.times*.npy"] = some (vec s.times) := by
  simp (disch := decide) [readFile, findPath, exportDir, List.find?_cons, gm_lab_true]

theorem read_samples (label : String) (s : Source) :
    readFile (exportDir label s) ["spikes.samples*.npy"] = some (vec s.samples) := by
  simp (disch := decide) [readFile, findPath, exportDir, List.find?_cons, List.lookup_cons,
    gm_lab_false, gm_lab_true, labelled_beq_labelled]

theorem read_amps (label : String) (s : Source) :
    readFile (exportDir label s) ["amplitudes.npy", "spikes.amps*.npy"] = some (vec s.amps) := by
  simp (disch := decide) [readFile, findPath, exportDir, List.find?_cons, List.lookup_cons,
    gm_lab_false, gm_lab_true, labelled_beq_labelled]

theorem read_templates (label : String) (s : Source) :
    readFile (exportDir label s) ["spike_templates.npy", "spikes.templates*.npy"] =
      some (vec s.templates) := by
  simp (disch := decide) [readFile, findPath, exportDir, List.find?_cons, List.lookup_cons,
    gm_lab_false, gm_lab_true, labelled_beq_labelled]

theorem find_clusters (label : String) (s : Source) :
    findPath (exportDir label s) ["spike_clusters.npy", "spikes.clusters*.npy"] =
      some (labelled label "spikes.clusters") := by
  simp (disch := decide) [findPath, exportDir, List.find?_cons, gm_lab_false, gm_lab_true]

/-- the export directory holds no KiloSort-named cluster file, so the two-file refusal does not fire -/
theorem find_ks_clusters (label : String) (s : Source) :
    findPath (exportDir label s) ["spike_clusters.npy"] = none := by
  simp (disch := decide) [findPath, exportDir, List.find?_cons, gm_lab_false]

theorem lookup_clusters (label : String) (s : Source) :
    (exportDir label s).lookup (labelled label "spikes.clusters") = some (vec s.clusters) := by
  simp (disch := decide) [exportDir, List.lookup_cons, labelled_beq_labelled]

theorem read_channel_map (label : String) (s : Source) :
    readFile (exportDir label s) ["channel_map.npy", "channels.rawInd*.npy"] =
      some (vec s.channelMap) := by
  simp (disch := decide) [readFile, findPath, exportDir, List.find?_cons, List.lookup_cons,
    gm_lab_false, gm_lab_true, labelled_beq_labelled]

theorem read_positions (label : String) (s : Source) :
    readFile (exportDir label s) ["channel_positions.npy", "channels.localCoordinates*.npy"] =
      some ⟨[s.channelMap.length, 2], s.positions.map Cell.num⟩ := by
  simp (disch := decide) [readFile, findPath, exportDir, List.find?_cons, List.lookup_cons,
    gm_lab_false, gm_lab_true, labelled_beq_labelled]

theorem scrub_num (sh : List Nat) (l : List Int) :
    scrub ⟨sh, l.map Cell.num⟩ = ⟨sh, l.map Cell.num⟩ := by
  simp [scrub]

theorem scrub_vec (l : List Int) : scrub (vec l) = vec l := scrub_num _ l

theorem squeeze_vec (l : List Int) (h : l.length ≠ 1) : squeeze (vec l) = vec l := by
  simp [squeeze, vec, h]

theorem reload_eq_source (inv : Arr → Arr) (label : String) (s : Source) (h : SourceOK s) :
    ∃ v d', load inv (exportDir label s) = .ok (v, d') ∧
      v.times = .stored (vec s.times) ∧ v.samples = .file (vec s.samples) ∧
      v.spikeClusters = vec s.clusters ∧ v.spikeTemplates = vec s.templates ∧
      v.amplitudes = some (vec s.amps) ∧ v.channelMap = vec s.channelMap ∧
      v.channelPositions = ⟨[s.channelMap.length, 2], s.positions.map Cell.num⟩ := by
  obtain ⟨h1, h2, h3, h4, h5, h6, h8⟩ := h
  unfold load
  have e1 : squeeze (vec s.times) = vec s.times := squeeze_vec _ (by omega)
  have e2 : squeeze (vec s.samples) = vec s.samples := squeeze_vec _ (by omega)
  have e3 : squeeze (vec s.clusters) = vec s.clusters := squeeze_vec _ (by omega)
  have e4 : squeeze (vec s.templates) = vec s.templates := squeeze_vec _ (by omega)
  have e5 : squeeze (vec s.amps) = vec s.amps := squeeze_vec _ (by omega)
  have e6 : squeeze (vec s.channelMap) = vec s.channelMap := squeeze_vec _ (by omega)
  have e7 : squeeze ⟨[s.channelMap.length, 2], s.positions.map Cell.num⟩ =
      ⟨[s.channelMap.length, 2], s.positions.map Cell.num⟩ := by
    have : s.channelMap.length ≠ 1 := by omega
    simp [squeeze, this]
  have e8 : monotone (vec s.times).data = true := h8
  have e9 : atleast 1 (vec s.channelMap) = vec s.channelMap := rfl
  have e10 : atleast 2 (⟨[s.channelMap.length, 2], s.positions.map Cell.num⟩ : Arr) =
      ⟨[s.channelMap.length, 2], s.positions.map Cell.num⟩ := rfl
  simp only [lookup_spike_times, read_times, read_samples, read_amps, read_templates, find_clusters,
    find_ks_clusters, Option.isSome_none, Bool.false_and, lookup_clusters, read_channel_map, read_positions, scrub_vec, scrub_num, pure_bind, e1, e2, e3,
    e4, e5, e6, e7, e8, e9, e10, Bool.not_true, Bool.false_eq_true, if_false, Option.map_some]
  exact ⟨_, _, rfl, rfl, rfl, rfl, rfl, rfl, rfl, rfl⟩

/-- a pattern whose literal prefix departs from `stem.` matches no labelled `stem` file -/
theorem gm_lab_dot_false (pat label stem : String)
    (h : mismatch (splitStar pat.toList).1 (stem.toList ++ ['.']) = true) :
    globMatch pat (labelled label stem) = false := by
  apply globMatch_false_of_not_prefix
  obtain ⟨rest, hr⟩ := labelled_toList_dot label stem
  rw [hr]
  exact not_prefix_of_mismatch _ _ _ h

/-- a star-free pattern matches no name of another length -/
theorem globMatch_false_of_length (pat name : String) (pre : List Char)
    (hs : splitStar pat.toList = (pre, none)) (hl : pre.length ≠ name.toList.length) :
    globMatch pat name = false := by
  unfold globMatch
  simp only [hs, beq_eq_false_iff_ne, ne_eq]
  intro heq
  exact hl (congrArg List.length heq)

theorem label_toList_ne_nil (label : String) (hl : label ≠ "") : label.toList ≠ [] := by
  intro h
  apply hl
  apply String.ext
  simpa using h

theorem gm_exact_labelled_false (label : String) (hl : label ≠ "") :
    globMatch "templates.waveforms.npy" (labelled label "templates.waveforms") = false := by
  apply globMatch_false_of_length _ _ "templates.waveforms.npy".toList (by decide)
  rw [labelled_toList]
  have := List.length_pos_iff.mpr (label_toList_ne_nil label hl)
  simp only [mid, hl, if_false, List.length_append, List.length_cons]
  have e1 : "templates.waveforms.npy".toList.length = 23 := by decide
  have e2 : "templates.waveforms".toList.length = 19 := by decide
  rw [e1, e2]
  simp only [List.length_nil]
  omega

theorem gm_dotted_labelled_true (label : String) (hl : label ≠ "") :
    globMatch "templates.waveforms.*.npy" (labelled label "templates.waveforms") = true := by
  apply globMatch_true_of_parts _ _ "templates.waveforms.".toList label.toList ['.', 'n', 'p', 'y']
    (by decide)
  rw [labelled_toList]
  simp only [mid, hl, if_false]
  have e : "templates.waveforms.".toList = "templates.waveforms".toList ++ ['.'] := by decide
  rw [e]
  simp

theorem read_waveforms (label : String) (s : Source) :
    readFile (exportDir label s)
      ["templates.npy", "templates.waveforms.npy", "templates.waveforms.*.npy"] =
      some s.waveforms := by
  by_cases hl : label = ""
  · subst hl
    have hm : globMatch "templates.waveforms.npy" (labelled "" "templates.waveforms") = true := by
      decide
    simp (disch := decide) [readFile, findPath, exportDir, List.find?_cons, List.lookup_cons,
      gm_lab_false, hm, labelled_beq_labelled]
  · simp (disch := decide) [readFile, findPath, exportDir, List.find?_cons, List.lookup_cons,
      gm_lab_false, gm_exact_labelled_false label hl,
      gm_dotted_labelled_true label hl, labelled_beq_labelled]

theorem read_waveform_channels (label : String) (s : Source) :
    readFile (exportDir label s) ["template_ind.npy", "templates.waveformsChannels*.npy"] =
      some s.waveformChannels := by
  simp (disch := decide) [readFile, findPath, exportDir, List.find?_cons, List.lookup_cons,
    gm_lab_false, gm_lab_dot_false, gm_lab_true, labelled_beq_labelled, labelled_beq_labelled_dot]

theorem read_wm (label : String) (s : Source) :
    readFile (exportDir label s) ["whitening_mat.npy"] = none := by
  simp (disch := decide) [readFile, findPath, exportDir, List.find?_cons, gm_lab_false]

theorem read_wmi (label : String) (s : Source) :
    readFile (exportDir label s) ["whitening_mat_inv.npy"] = none := by
  simp (disch := decide) [readFile, findPath, exportDir, List.find?_cons, gm_lab_false]

theorem reload_templates (inv : Arr → Arr) (label : String) (s : Source) (h : SourceOK s) :
    ∃ v d', load inv (exportDir label s) = .ok (v, d') ∧
      v.templates = some (zeroNanTemplates (atleast 3 (squeeze s.waveforms))) ∧
      v.templateCols = some (squeeze (scrub s.waveformChannels)) := by
  obtain ⟨h1, h2, h3, h4, h5, h6, h8⟩ := h
  unfold load
  have e1 : squeeze (vec s.times) = vec s.times := squeeze_vec _ (by omega)
  have e2 : squeeze (vec s.samples) = vec s.samples := squeeze_vec _ (by omega)
  have e3 : squeeze (vec s.clusters) = vec s.clusters := squeeze_vec _ (by omega)
  have e4 : squeeze (vec s.templates) = vec s.templates := squeeze_vec _ (by omega)
  have e5 : squeeze (vec s.amps) = vec s.amps := squeeze_vec _ (by omega)
  have e6 : squeeze (vec s.channelMap) = vec s.channelMap := squeeze_vec _ (by omega)
  have e8 : monotone (vec s.times).data = true := h8
  simp only [lookup_spike_times, read_times, read_samples, read_amps, read_templates, find_clusters,
    find_ks_clusters, Option.isSome_none, Bool.false_and, lookup_clusters, read_channel_map, read_positions, read_waveforms, read_waveform_channels,
    read_wm, read_wmi, scrub_vec, scrub_num, pure_bind, e1, e2, e3,
    e4, e5, e6, e8, Bool.not_true, Bool.false_eq_true, if_false, Option.map_some, Option.map_none]
  exact ⟨_, _, rfl, rfl, rfl⟩

end Reload

end PhyVerif.C13.Lemmas
