import PhyVerif.Model.C13
/-! Helper lemmas and full proofs for C13. Statements: `Props/C13.lean`. -/
namespace PhyVerif.C13.Lemmas
open PhyVerif PhyVerif.C13

theorem withLabel3 (label a b c : String) : withLabel label [a, b, c] = [a, b, label, c] := by
  simp [withLabel]

/-- the labelled tables, written out -/
theorem renameAll_objectTables (label : String) (hl : label ≠ "") (s : Sizes) :
    renameAll label (objectTables s) =
      (objectTables s).map fun f => (withLabel label f.1, f.2) := by
  simp [renameAll, hl, objectTables, isObjectFile]

theorem convert_some (src out label : String) (s : Sizes) (files : List (Name × Nat))
    (h : convert src out label s = some files) : files = renameAll label (objectTables s) := by
  unfold convert at h
  split at h
  · cases h
  · cases h; rfl

theorem export_row_counts (src out label : String) (s : Sizes) (files : List (Name × Nat))
    (h : convert src out label s = some files) :
    ∀ f ∈ files, expectedRows s f.1 = some f.2 := by
  have hf := convert_some src out label s files h
  subst hf
  by_cases hl : label = ""
  · intro f hf
    simp [renameAll, hl, objectTables] at hf
    rcases hf with hf | hf | hf | hf | hf | hf | hf | hf | hf | hf | hf | hf | hf | hf | hf | hf | hf | hf <;>
      subst hf <;> simp [expectedRows]
  · rw [renameAll_objectTables label hl]
    intro f hf
    simp [objectTables, withLabel3] at hf
    rcases hf with hf | hf | hf | hf | hf | hf | hf | hf | hf | hf | hf | hf | hf | hf | hf | hf | hf | hf <;>
      subst hf <;> simp [expectedRows]

theorem label_before_extension (label : String) (stem : List String) (ext : String) :
    withLabel label (stem ++ [ext]) = stem ++ [label, ext] := by
  simp [withLabel, List.reverse_append]

theorem labels_applied (src out label : String) (s : Sizes) (files : List (Name × Nat))
    (h : convert src out label s = some files) :
    (label = "" → files = objectTables s) ∧
    (label ≠ "" → ∀ f ∈ files, f.1.reverse.tail.head? = some label ∧ f.1.length = 4) := by
  have hf := convert_some src out label s files h
  subst hf
  constructor
  · intro hl
    simp [renameAll, hl]
  · intro hl
    rw [renameAll_objectTables label hl]
    intro f hf
    simp [objectTables, withLabel3] at hf
    rcases hf with hf | hf | hf | hf | hf | hf | hf | hf | hf | hf | hf | hf | hf | hf | hf | hf | hf | hf <;>
      subst hf <;> simp

theorem refuses_same_dir (src label : String) (s : Sizes) : convert src src label s = none := by
  simp [convert]

theorem uuid_rows (src out label : String) (s : Sizes) (files : List (Name × Nat))
    (h : convert src out label s = some files) (n : Name) (k : Nat) (hm : (n, k) ∈ files)
    (hu : n.take 2 = ["clusters", "uuids"]) : k = s.nClusters := by
  have hf := convert_some src out label s files h
  subst hf
  by_cases hl : label = ""
  · simp [renameAll, hl, objectTables] at hm
    rcases hm with hm | hm | hm | hm | hm | hm | hm | hm | hm | hm | hm | hm | hm | hm | hm | hm | hm | hm <;>
      obtain ⟨rfl, rfl⟩ := hm <;> first | rfl | (exfalso; revert hu; decide)
  · rw [renameAll_objectTables label hl] at hm
    simp [objectTables, withLabel3] at hm
    rcases hm with hm | hm | hm | hm | hm | hm | hm | hm | hm | hm | hm | hm | hm | hm | hm | hm | hm | hm <;>
      obtain ⟨rfl, rfl⟩ := hm <;> first | rfl | (exfalso; revert hu; simp)

end PhyVerif.C13.Lemmas
