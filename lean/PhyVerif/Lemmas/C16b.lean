import PhyVerif.Model.C01
import PhyVerif.Spec.C01
import PhyVerif.Lemmas.C01
import PhyVerif.Model.C16
import PhyVerif.Model.C16b
import PhyVerif.Spec.C16
import PhyVerif.Lemmas.C16
/-! Composition of the reader model (C01) with its chunk iterator (C16). -/
namespace PhyVerif.C16.Lemmas
open PhyVerif PhyVerif.C01

/-- `reader[a:b]` for `0 ≤ a < b ≤ n` is rows `a .. b-1` of the concatenated recording -/
theorem getRows_slice_nat {α : Type} (parts : List (List α)) (a b : Nat) (hab : a < b)
    (hb : b ≤ parts.flatten.length) :
    getRows parts (.slice (some (Int.ofNat a)) (some (Int.ofNat b))) =
      some ((parts.flatten.drop a).take (b - a)) := by
  have hidx : Np.sliceIdx parts.flatten.length (some (Int.ofNat a)) (some (Int.ofNat b)) 1 =
      List.range' a (b - a) := by
    rw [C01.Lemmas.sliceIdx_one]
    have h1 : C01.Lemmas.npStart (parts.flatten.length : Nat) (some (Int.ofNat a)) = (a : Int) := by
      simp only [C01.Lemmas.npStart, Int.ofNat_eq_natCast]
      rw [if_neg (by omega)]; omega
    have h2 : C01.Lemmas.npStop (parts.flatten.length : Nat) (some (Int.ofNat b)) = (b : Int) := by
      simp only [C01.Lemmas.npStop, Int.ofNat_eq_natCast]
      rw [if_neg (by omega)]; omega
    rw [h1, h2]
    congr 1; omega
  have hd : InDom parts.flatten.length (.slice (some (Int.ofNat a)) (some (Int.ofNat b))) := by
    refine ⟨?_, ?_, ?_⟩
    · intro s hs
      simp only [Option.some.injEq, Int.ofNat_eq_natCast] at hs
      omega
    · intro e he
      simp only [Option.some.injEq, Int.ofNat_eq_natCast] at he
      omega
    · rw [hidx]
      intro h
      have := congrArg List.length h
      simp only [List.length_range', List.length_nil] at this
      omega
  rw [C01.Lemmas.getRows_eq_concat' parts _ hd]
  unfold npRows
  simp only []
  rw [hidx, C01.Lemmas.take_range']

/-- consecutive slices along a strictly increasing chain `a = b0 < b1 < … < bk = n ≤ |A|` stack
to `A[a:n]` -/
theorem chain_read {α : Type} (A : List α) (f : Nat × Nat → Option (List α))
    (hf : ∀ a b, a < b → b ≤ A.length → f (a, b) = some ((A.drop a).take (b - a))) :
    ∀ (l : List Nat) (a n : Nat), l.head? = some a → l.getLast? = some n →
      strictInc l = true → n ≤ A.length →
      a ≤ n ∧ ((l.zip l.tail).mapM f).map List.flatten = some ((A.drop a).take (n - a)) := by
  intro l
  induction l with
  | nil => intro a n h; simp at h
  | cons x t ih =>
    intro a n h0 hl hs hn
    simp only [List.head?_cons, Option.some.injEq] at h0
    subst h0
    cases t with
    | nil =>
      simp only [List.getLast?_singleton, Option.some.injEq] at hl
      subst hl
      simp
    | cons y t' =>
      simp only [strictInc, Bool.and_eq_true, decide_eq_true_eq] at hs
      rw [List.getLast?_cons_cons] at hl
      obtain ⟨hyn, hrest⟩ := ih y n rfl hl hs.2 hn
      refine ⟨by omega, ?_⟩
      simp only [List.tail_cons, List.zip_cons_cons, List.mapM_cons]
      rw [hf x y hs.1 (by omega)]
      simp only [List.tail_cons] at hrest
      cases hm : List.mapM f ((y :: t').zip t') with
      | none => rw [hm] at hrest; simp at hrest
      | some pieces =>
        rw [hm] at hrest
        simp only [Option.map_some, Option.some.injEq] at hrest
        simp only [Option.pure_def, Option.bind_eq_bind, Option.bind_some, Option.map_some,
          List.flatten_cons, hrest, Option.some.injEq]
        have e1 : n - x = (y - x) + (n - y) := by omega
        have e2 : List.drop y A = List.drop (y - x) (List.drop x A) := by
          rw [List.drop_drop]; congr 1; omega
        rw [e1, List.take_add, e2]

theorem read_by_chunks_eq_concat {α : Type} (parts : List (List α)) (cs : Nat) (hcs : 0 < cs) :
    readByChunks parts cs = some parts.flatten := by
  cases hparts : parts with
  | nil => rfl
  | cons p ps =>
    rw [← hparts]
    have hne : parts.map List.length ≠ [] := by rw [hparts]; simp
    have h := getChunkBounds_ok (parts.map List.length) cs hcs hne
    simp only [boundsOK, Bool.and_eq_true, beq_iff_eq] at h
    obtain ⟨⟨⟨⟨h0, hl⟩, hs⟩, _⟩, _⟩ := h
    have hlen : (parts.map List.length).sum = parts.flatten.length := by
      rw [List.length_flatten]
    rw [hlen] at hl
    have := (chain_read parts.flatten
      (fun ab => getRows parts (.slice (some (Int.ofNat ab.1)) (some (Int.ofNat ab.2))))
      (fun a b hab hb => getRows_slice_nat parts a b hab hb)
      _ 0 _ h0 hl hs (Nat.le_refl _)).2
    unfold readByChunks iterChunksBase
    rw [this, Nat.sub_zero, List.drop_zero, List.take_length]

end PhyVerif.C16.Lemmas
