import PhyVerif.Model.C15c
import PhyVerif.Spec.C15c
import PhyVerif.Lemmas.C15b
import PhyVerif.Lemmas.Fl
/-! Proofs for the float part of C15 (`Model/C15c.lean`). Statements: `Props/C15.lean`. -/
namespace PhyVerif.C15.Lemmas
open PhyVerif PhyVerif.C15 PhyVerif.Fl PhyVerif.Fl.Lemmas

/-! ### truncation -/

theorem floor_mono (p q : ℚ) (h : p ≤ q) : Rat.floor p ≤ Rat.floor q :=
  Rat.le_floor_iff.2 (le_trans (floor_le' p) h)

theorem floor_nonneg (q : ℚ) (h : 0 ≤ q) : 0 ≤ Rat.floor q :=
  Rat.le_floor_iff.2 (by simpa using h)

theorem truncInt_mono (p q : ℚ) (h : p ≤ q) : truncInt p ≤ truncInt q := by
  unfold truncInt
  split <;> split
  · exact floor_mono p q h
  · rename_i h1 h2; exact absurd (le_trans h1 h) h2
  · rename_i h1 h2
    have := floor_nonneg (-p) (by linarith [not_le.1 h1])
    have := floor_nonneg q h2
    omega
  · have := floor_mono (-q) (-p) (by linarith)
    omega

theorem truncInt_nonneg' (q : ℚ) (h : 0 ≤ q) : 0 ≤ truncInt q := by
  rw [truncInt_nonneg q h]; exact floor_nonneg q h

/-! ### the Fl integers -/

theorem samplesOfFl_sorted (rate : ℚ) (times : List ℚ) (hr : 0 < rate) (hs : times.Pairwise (· ≤ ·)) :
    (samplesOfFl rate times).Pairwise (· ≤ ·) := by
  unfold samplesOfFl
  rw [List.pairwise_map]
  exact hs.imp fun {a b} hab =>
    truncInt_mono _ _ (roundDouble_mono _ _ (mul_le_mul_of_nonneg_right hab (le_of_lt hr)))

theorem samplesOfFl_length (rate : ℚ) (times : List ℚ) : (samplesOfFl rate times).length = times.length := by
  simp [samplesOfFl]

theorem clip_ge_lo (x : ℚ) : clipLo ≤ clip x clipLo clipHi := by
  have h0 : clipLo ≤ clipHi := by unfold clipLo clipHi; norm_num
  unfold clip
  split
  · exact le_refl _
  · split
    · exact h0
    · rename_i h _; exact not_lt.1 h

theorem clip_pos (x : ℚ) : 0 < clip x clipLo clipHi := lt_of_lt_of_le clipLo_pos (clip_ge_lo x)

theorem halfQuotFl_pos (window bin : ℚ) : 0 < halfQuotFl window bin := by
  unfold halfQuotFl
  apply roundDouble_pos
  apply div_pos _ (clip_pos bin)
  apply roundDouble_pos
  have := clip_pos window
  linarith

/-- the number of bins is odd and at least 1 whatever the window and the bin -/
theorem winsizeFl_spec (window bin : ℚ) :
    0 ≤ truncInt (halfQuotFl window bin) ∧
    winsizeBinsFl window bin = 2 * (halfOfFl window bin : Int) + 1 ∧
    (halfOfFl window bin : Int) = truncInt (halfQuotFl window bin) := by
  have h := truncInt_nonneg' _ (le_of_lt (halfQuotFl_pos window bin))
  refine ⟨h, ?_, ?_⟩ <;> (unfold halfOfFl winsizeBinsFl; omega)

/-! ### the whole call -/

theorem correlogramsFl_eq_spec (times : List ℚ) (sc : List Int) (ids : List Nat) (rate bin window : ℚ) (sym : Bool)
    (hr : 0 < rate) (hsorted : times.Pairwise (· ≤ ·)) (hlen : sc.length = times.length) (hdom : InDom sc ids)
    (hb : 1 ≤ binsizeOfFl rate bin) :
    correlogramsFl times sc (some ids) rate bin window sym =
      some (if sym then symmetrize (specCcg (samplesOfFl rate times) sc ids (binsizeOfFl rate bin) (halfOfFl window bin))
            else specCcg (samplesOfFl rate times) sc ids (binsizeOfFl rate bin) (halfOfFl window bin)) := by
  have hT := samplesOfFl_sorted rate times hr hsorted
  have hl : sc.length = (samplesOfFl rate times).length := by rw [samplesOfFl_length, hlen]
  unfold correlogramsFl correlogramsOfInts
  rw [if_neg (by simp [hr]), if_neg (by simp [zip_tail_of_pairwise times hsorted]),
    if_neg (by simp [hlen]), if_neg (by omega)]
  simp only [idsOr]
  rw [correlogramsArr_eq _ sc ids _ (halfOfFl window bin) (winsizeBinsFl window bin) rfl hT (by omega) hl hdom,
    correlograms_eq_spec _ sc ids _ (halfOfFl window bin) hT (by omega) hl hdom]

theorem correlogramsFl_rejects (times : List ℚ) (sc : List Int) (ids : Option (List Nat)) (rate bin window : ℚ)
    (sym : Bool) (hb : binsizeOfFl rate bin < 1) : correlogramsFl times sc ids rate bin window sym = none := by
  unfold correlogramsFl correlogramsOfInts
  rw [if_pos hb]
  repeat' split
  all_goals rfl

theorem samplesOfFl_eq_prods (rate : ℚ) (times : List ℚ) :
    samplesOfFl rate times = (prodsFl rate times).map truncInt := by
  simp [samplesOfFl, prodsFl, List.map_map, Function.comp_def]

/-! ### where rounding changes nothing -/

theorem samplesOfFl_onGrid (rate : ℚ) (times : List ℚ) (T : List Int) (hlen : T.length = times.length)
    (h : ∀ a, a < times.length → times.getD a 0 * rate = ((T.getD a 0 : Int) : ℚ))
    (hfit : ∀ a, a < T.length → (T.getD a 0).natAbs ≤ 2 ^ 53) :
    samplesOfFl rate times = T := by
  apply List.ext_getElem
  · simp [samplesOfFl, hlen]
  · intro a h1 h2
    simp only [samplesOfFl, List.length_map] at h1
    have e := h a h1
    have f := hfit a h2
    simp only [List.getD_eq_getElem?_getD, List.getElem?_eq_getElem h1, List.getElem?_eq_getElem h2,
      Option.getD_some] at e f
    simp only [samplesOfFl, List.getElem_map, e, roundDouble_intCast _ f, truncInt_intCast]

theorem fl_eq_exact (times : List ℚ) (rate bin window : ℚ) (T : List Int) (B : Int)
    (g : GridOK times rate bin window T B) (x : FlExact bin window T B) :
    samplesOfFl rate times = samplesOf rate times ∧ binsizeOfFl rate bin = binsizeOf rate bin ∧
    winsizeBinsFl window bin = winsizeBins window bin := by
  refine ⟨?_, ?_, ?_⟩
  · rw [samplesOfFl_onGrid rate times T g.len g.onGrid x.samplesFit, samplesOf_onGrid rate times T g.len g.onGrid]
  · unfold binsizeOfFl binsizeOf
    rw [clip_id _ _ _ g.bin_lo g.bin_hi, g.binGrid, roundDouble_intCast _ x.binFit]
  · unfold winsizeBinsFl winsizeBins halfQuotFl
    rw [clip_id _ _ _ g.bin_lo g.bin_hi, clip_id _ _ _ g.win_lo g.win_hi, roundDouble_half _ x.windowDouble,
      roundDouble_of_isDouble _ x.quotDouble]

theorem correlogramsFl_eq_Q (times : List ℚ) (sc : List Int) (ids : Option (List Nat)) (rate bin window : ℚ)
    (T : List Int) (B : Int) (g : GridOK times rate bin window T B) (x : FlExact bin window T B) (sym : Bool) :
    correlogramsFl times sc ids rate bin window sym = correlogramsQ times sc ids rate bin window sym := by
  obtain ⟨h1, h2, h3⟩ := fl_eq_exact times rate bin window T B g x
  unfold correlogramsFl correlogramsOfInts correlogramsQ
  rw [h1, h2, h3]
  rfl

theorem correlogramsFl_seconds (times : List ℚ) (sc : List Int) (ids : List Nat) (rate bin window : ℚ)
    (T : List Int) (B : Int) (g : GridOK times rate bin window T B) (x : FlExact bin window T B)
    (hsorted : times.Pairwise (· ≤ ·)) (hlen : sc.length = times.length) (hdom : InDom sc ids) (sym : Bool) :
    correlogramsFl times sc (some ids) rate bin window sym =
      some (if sym then symmetrize (specSeconds times sc ids bin (halfOf window bin))
            else specSeconds times sc ids bin (halfOf window bin)) :=
  (correlogramsFl_eq_Q times sc (some ids) rate bin window T B g x sym).trans
    (correlogramsQ_eq times sc ids rate bin window T B g hsorted hlen hdom sym)

theorem correlogramsFl_as_run (times : List ℚ) (sc : List Int) (ids : Option (List Nat)) (rate bin window : ℚ)
    (sym : Bool) :
    samplesOfFl rate times = (prodsFl rate times).map truncInt ∧
    correlogramsFl times sc ids rate bin window sym =
      correlogramsOfInts ((prodsFl rate times).map truncInt) (binsizeOfFl rate bin) (winsizeBinsFl window bin)
        times sc ids rate sym :=
  ⟨samplesOfFl_eq_prods rate times, by rw [← samplesOfFl_eq_prods]; rfl⟩

end PhyVerif.C15.Lemmas
