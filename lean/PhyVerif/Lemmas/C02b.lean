import PhyVerif.Model.C02b
import PhyVerif.Lemmas.C02
/-! Proofs about the statement-level model of `_append_op`. Core Lean only. -/
namespace PhyVerif.C02.Lemmas
open PhyVerif PhyVerif.C02

variable {β : Type}

theorem addr_lt (s : Store β) (h : s.WF) (rd : Nat) (hr : rd < s.readers.length) : s.addr rd < s.lists.length :=
  h rd hr

/-- state after the three statements, computed -/
theorem run_appendOp (s : Store β) (self : Nat) (op : Op β) (hs : self < s.readers.length) :
    run s (appendOpProgram s self op) =
      { lists := (s.lists ++ [s.opsOf self]).set s.lists.length (s.opsOf self ++ [op]),
        readers := (s.readers ++ [s.addr self]).set s.readers.length s.lists.length } := by
  simp [run, appendOpProgram, exec, Store.opsOf, Store.addr, List.getD_eq_getElem?_getD,
    List.getElem?_append_left hs]

/-- the clone carries the parent's operations plus the new one -/
theorem appendOp_clone_ops (s : Store β) (self : Nat) (op : Op β) (hs : self < s.readers.length) :
    (run s (appendOpProgram s self op)).opsOf s.readers.length = s.opsOf self ++ [op] := by
  rw [run_appendOp s self op hs]
  simp [Store.opsOf, Store.addr, List.getD_eq_getElem?_getD]

/-- every existing reader carries what it carried before (the frame) -/
theorem appendOp_frame (s : Store β) (hwf : s.WF) (self : Nat) (op : Op β) (hs : self < s.readers.length)
    (rd : Nat) (hr : rd < s.readers.length) :
    (run s (appendOpProgram s self op)).opsOf rd = s.opsOf rd := by
  rw [run_appendOp s self op hs]
  have ha := hwf rd hr
  simp only [Store.opsOf, Store.addr] at ha ⊢
  have h1 : ((s.readers ++ [s.readers.getD self 0]).set s.readers.length s.lists.length).getD rd 0 = s.readers.getD rd 0 := by
    simp only [List.getD_eq_getElem?_getD, List.getElem?_set]
    have : s.readers.length ≠ rd := by omega
    simp [this, List.getElem?_append_left hr]
  rw [h1]
  simp only [List.getD_eq_getElem?_getD, List.getElem?_set]
  have : s.lists.length ≠ s.readers.getD rd 0 := by
    simp only [List.getD_eq_getElem?_getD] at ha ⊢; omega
  simp only [List.getD_eq_getElem?_getD] at this ha
  simp [this, List.getElem?_append_left ha]

theorem appendOp_wf (s : Store β) (hwf : s.WF) (self : Nat) (op : Op β) (hs : self < s.readers.length) :
    (run s (appendOpProgram s self op)).WF := by
  rw [run_appendOp s self op hs]
  intro rd hr
  simp only [Store.addr, List.length_set, List.length_append, List.length_singleton] at hr ⊢
  simp only [List.getD_eq_getElem?_getD, List.getElem?_set]
  by_cases h : s.readers.length = rd
  · subst h; simp
  · have hr' : rd < s.readers.length := by omega
    have := hwf rd hr'
    simp only [Store.addr, List.getD_eq_getElem?_getD] at this
    simp [h, List.getElem?_append_left hr']
    omega

/-- refinement: seen reader by reader, the three statements are `Model/C02.derive` -/
theorem appendOp_refines_derive (s : Store β) (hwf : s.WF) (self : Nat) (op : Op β) (hs : self < s.readers.length) :
    (run s (appendOpProgram s self op)).abs = (derive s.abs self op).1 := by
  have hlen : (run s (appendOpProgram s self op)).readers.length = s.readers.length + 1 := by
    rw [run_appendOp s self op hs]; simp
  unfold Store.abs
  rw [hlen, List.range_succ, List.map_append, List.map_singleton, appendOp_clone_ops s self op hs]
  have hfr : (List.range s.readers.length).map (run s (appendOpProgram s self op)).opsOf =
      (List.range s.readers.length).map s.opsOf := by
    apply List.map_congr_left
    intro rd hrd
    exact appendOp_frame s hwf self op hs rd (List.mem_range.mp hrd)
  rw [hfr]
  unfold derive
  simp only [List.length_map, List.length_range]
  have hg : ((List.range s.readers.length).map s.opsOf).getD self [] = s.opsOf self := by
    simp [List.getD_eq_getElem?_getD, hs]
  rw [hg]
  apply List.ext_getElem?
  intro i
  simp only [List.getElem?_set, List.length_append, List.length_map, List.length_range, List.length_singleton]
  by_cases hi : s.readers.length = i
  · subst hi
    simp [List.getD_eq_getElem?_getD]
  · simp only [hi, if_false]
    by_cases hlt : i < s.readers.length
    · have h1 : i < ((List.range s.readers.length).map s.opsOf).length := by simpa using hlt
      rw [List.getElem?_append_left h1, List.getElem?_append_left h1]
    · have h1 : ((List.range s.readers.length).map s.opsOf ++ [s.opsOf self ++ [op]]).length ≤ i := by
        simp; omega
      have h2 : ((List.range s.readers.length).map s.opsOf ++ [s.opsOf self]).length ≤ i := by
        simp; omega
      rw [List.getElem?_eq_none h1, List.getElem?_eq_none h2]

/-- The variant that skips the fresh list changes what the PARENT carries: the regression is expressible and is
told apart from the real method. -/
theorem aliasing_variant_changes_parent (s : Store β) (hwf : s.WF) (self : Nat) (op : Op β)
    (hs : self < s.readers.length) :
    (run s (aliasingVariant s self op)).opsOf self = s.opsOf self ++ [op] := by
  have ha := hwf self hs
  simp only [run, aliasingVariant, List.foldl_cons, List.foldl_nil, exec, Store.opsOf, Store.addr] at ha ⊢
  have h1 : (s.readers ++ [s.readers.getD self 0]).getD s.readers.length 0 = s.readers.getD self 0 := by
    simp [List.getD_eq_getElem?_getD]
  have h2 : (s.readers ++ [s.readers.getD self 0]).getD self 0 = s.readers.getD self 0 := by
    simp [List.getD_eq_getElem?_getD, List.getElem?_append_left hs]
  simp only [h1, h2]
  simp only [List.getD_eq_getElem?_getD] at ha ⊢
  simp [ha]

end PhyVerif.C02.Lemmas
