import PhyVerif.Lemmas.C11h
/-! A merge that returns: inputs read, domain facts, contents of the output directory. -/
namespace PhyVerif.C11.Lemmas
open PhyVerif PhyVerif.C11

theorem merge_ok (fs : FS) (subdirs : List String) (out : String) (fs' : FS) (reg' : Reg)
    (h : merge fs subdirs out = ((fs', reg'), none)) (hout : out ∉ subdirs) :
    ∃ I, Loaded fs subdirs I ∧ InDomain subdirs I ∧
      ((∀ n, fs.read (out, n) = none) → ∀ name, fs'.read (out, name) = expectedOut subdirs I name) := by
  unfold merge at h
  split at h
  · cases h
  rename_i hne
  simp only [computes, tsvNames, miscNames, List.map_cons, List.map_nil, List.cons_append, List.nil_append] at h
  obtain ⟨s1, e1, h⟩ := runSteps_ok_cons _ _ _ _ h
  obtain ⟨s2, e2, h⟩ := runSteps_ok_cons _ _ _ _ h
  obtain ⟨s3, e3, h⟩ := runSteps_ok_cons _ _ _ _ h
  obtain ⟨s4, e4, h⟩ := runSteps_ok_cons _ _ _ _ h
  obtain ⟨s5, e5, h⟩ := runSteps_ok_cons _ _ _ _ h
  obtain ⟨s6, e6, h⟩ := runSteps_ok_cons _ _ _ _ h
  obtain ⟨s7, e7, h⟩ := runSteps_ok_cons _ _ _ _ h
  obtain ⟨s8, e8, h⟩ := runSteps_ok_cons _ _ _ _ h
  obtain ⟨s9, e9, h⟩ := runSteps_ok_cons _ _ _ _ h
  obtain ⟨s10, e10, h⟩ := runSteps_ok_cons _ _ _ _ h
  obtain ⟨s11, e11, h⟩ := runSteps_ok_cons _ _ _ _ h
  obtain ⟨s12, e12, h⟩ := runSteps_ok_cons _ _ _ _ h
  obtain ⟨s13, e13, h⟩ := runSteps_ok_cons _ _ _ _ h
  obtain ⟨s14, e14, h⟩ := runSteps_ok_cons _ _ _ _ h
  obtain ⟨s15, e15, h⟩ := runSteps_ok_cons _ _ _ _ h
  obtain ⟨s16, e16, h⟩ := runSteps_ok_cons _ _ _ _ h
  obtain ⟨s17, e17, h⟩ := runSteps_ok_cons _ _ _ _ h
  obtain ⟨s18, e18, h⟩ := runSteps_ok_cons _ _ _ _ h
  have hfin := runSteps_ok_nil _ _ h
  obtain ⟨w1, c1, i1, o1⟩ := step_facts out _ _ _ e1
  obtain ⟨w2, c2, i2, o2⟩ := step_facts out _ _ _ e2
  obtain ⟨w3, c3, i3, o3⟩ := step_facts out _ _ _ e3
  obtain ⟨w4, c4, i4, o4⟩ := step_facts out _ _ _ e4
  obtain ⟨w5, c5, i5, o5⟩ := step_facts out _ _ _ e5
  obtain ⟨w6, c6, i6, o6⟩ := step_facts out _ _ _ e6
  obtain ⟨w7, c7, i7, o7⟩ := step_facts out _ _ _ e7
  obtain ⟨w8, c8, i8, o8⟩ := step_facts out _ _ _ e8
  obtain ⟨w9, c9, i9, o9⟩ := step_facts out _ _ _ e9
  obtain ⟨w10, c10, i10, o10⟩ := step_facts out _ _ _ e10
  obtain ⟨w11, c11, i11, o11⟩ := step_facts out _ _ _ e11
  obtain ⟨w12, c12, i12, o12⟩ := step_facts out _ _ _ e12
  obtain ⟨w13, c13, i13, o13⟩ := step_facts out _ _ _ e13
  obtain ⟨w14, c14, i14, o14⟩ := step_facts out _ _ _ e14
  obtain ⟨w15, c15, i15, o15⟩ := step_facts out _ _ _ e15
  obtain ⟨w16, c16, i16, o16⟩ := step_facts out _ _ _ e16
  obtain ⟨w17, c17, i17, o17⟩ := step_facts out _ _ _ e17
  obtain ⟨w18, c18, i18, o18⟩ := step_facts out _ _ _ e18
  clear e1 e2 e3 e4 e5 e6 e7 e8 e9 e10 e11 e12 e13 e14 e15 e16 e17 e18 h
  -- reads outside the output directory never change
  have j1 : ∀ d n, d ≠ out → s1.1.read (d, n) = fs.read (d, n) := i1
  have j2 : ∀ d n, d ≠ out → s2.1.read (d, n) = fs.read (d, n) := fun d n hd => (i2 d n hd).trans (j1 d n hd)
  have j3 : ∀ d n, d ≠ out → s3.1.read (d, n) = fs.read (d, n) := fun d n hd => (i3 d n hd).trans (j2 d n hd)
  have j4 : ∀ d n, d ≠ out → s4.1.read (d, n) = fs.read (d, n) := fun d n hd => (i4 d n hd).trans (j3 d n hd)
  have j5 : ∀ d n, d ≠ out → s5.1.read (d, n) = fs.read (d, n) := fun d n hd => (i5 d n hd).trans (j4 d n hd)
  have j6 : ∀ d n, d ≠ out → s6.1.read (d, n) = fs.read (d, n) := fun d n hd => (i6 d n hd).trans (j5 d n hd)
  have j7 : ∀ d n, d ≠ out → s7.1.read (d, n) = fs.read (d, n) := fun d n hd => (i7 d n hd).trans (j6 d n hd)
  have j8 : ∀ d n, d ≠ out → s8.1.read (d, n) = fs.read (d, n) := fun d n hd => (i8 d n hd).trans (j7 d n hd)
  have j9 : ∀ d n, d ≠ out → s9.1.read (d, n) = fs.read (d, n) := fun d n hd => (i9 d n hd).trans (j8 d n hd)
  have j10 : ∀ d n, d ≠ out → s10.1.read (d, n) = fs.read (d, n) := fun d n hd => (i10 d n hd).trans (j9 d n hd)
  have j11 : ∀ d n, d ≠ out → s11.1.read (d, n) = fs.read (d, n) := fun d n hd => (i11 d n hd).trans (j10 d n hd)
  have j12 : ∀ d n, d ≠ out → s12.1.read (d, n) = fs.read (d, n) := fun d n hd => (i12 d n hd).trans (j11 d n hd)
  have j13 : ∀ d n, d ≠ out → s13.1.read (d, n) = fs.read (d, n) := fun d n hd => (i13 d n hd).trans (j12 d n hd)
  have j14 : ∀ d n, d ≠ out → s14.1.read (d, n) = fs.read (d, n) := fun d n hd => (i14 d n hd).trans (j13 d n hd)
  have j15 : ∀ d n, d ≠ out → s15.1.read (d, n) = fs.read (d, n) := fun d n hd => (i15 d n hd).trans (j14 d n hd)
  have j16 : ∀ d n, d ≠ out → s16.1.read (d, n) = fs.read (d, n) := fun d n hd => (i16 d n hd).trans (j15 d n hd)
  clear i1 i2 i3 i4 i5 i6 i7 i8 i9 i10 i11 i12 i13 i14 i15 i16 i17 i18
  -- what each step has read (on the original file system) and saved
  obtain ⟨ps, p, l1, m1, rfl, r1⟩ := cParams_ok _ _ _ _ _ c1
  obtain ⟨rfl, r2⟩ := cProbeDesc_ok _ _ _ _ _ c2
  obtain ⟨times, l3, k3, rfl, r3⟩ := cSpikeTimes_ok _ _ _ _ _ c3
  obtain ⟨amps, l4, k4, n4, rfl, r4⟩ := cAmplitudes_ok _ _ _ _ _ c4
  obtain ⟨st0, l5, k5, n5, rfl, r5⟩ := cSpikeTemplatesRaw_ok _ _ _ _ _ c5
  obtain ⟨sc, st, counts, l6a, l6b, l6c, k6a, k6b, n6a, n6b, a6, rfl, r6⟩ := cSpikeClusters_ok _ _ _ _ _ c6
  obtain ⟨md1, l7, rfl, r7⟩ := cClusterData_ok _ _ _ _ _ _ c7
  obtain ⟨md2, l8, rfl, r8⟩ := cClusterData_ok _ _ _ _ _ _ c8
  obtain ⟨md3, l9, rfl, r9⟩ := cClusterData_ok _ _ _ _ _ _ c9
  obtain ⟨maps, l10, k10, rfl, r10⟩ := cChannelData_ok _ _ _ _ _ c10
  obtain ⟨pos, l11, k11, rfl, r11⟩ := cChannelPositions_ok _ _ _ _ _ c11
  obtain ⟨ts, l12, k12, rfl, r12⟩ := cTemplates_ok _ _ _ _ _ c12
  obtain ⟨pcs, l13, k13, rfl, r13⟩ := cPcInd_ok _ _ _ _ _ c13
  obtain ⟨tfs, l14, k14, rfl, r14⟩ := cTfInd_ok _ _ _ _ _ c14
  obtain ⟨ms1, l15, rfl, r15⟩ := cMisc_ok _ _ _ _ _ _ c15
  obtain ⟨ms2, l16, rfl, r16⟩ := cMisc_ok _ _ _ _ _ _ c16
  obtain ⟨ms3, l17, rfl, r17⟩ := cMisc_ok _ _ _ _ _ _ c17
  clear c1 c2 c3 c4 c5 c6 c7 c8 c9 c10 c11 c12 c13 c14 c15 c16 c17
  simp only [] at l1
  rw [loadInts_congr s2.1 fs subdirs out hout j2] at l3
  rw [loadInts_congr s3.1 fs subdirs out hout j3] at l4
  rw [loadNats_congr s4.1 fs subdirs out hout j4] at l5
  rw [loadNats_congr s5.1 fs subdirs out hout j5] at l6a l6b
  rw [loadCount_congr s5.1 fs subdirs out hout j5] at l6c
  rw [loadTsvOpt_congr s6.1 fs subdirs out hout j6] at l7
  rw [loadTsvOpt_congr s7.1 fs subdirs out hout j7] at l8
  rw [loadTsvOpt_congr s8.1 fs subdirs out hout j8] at l9
  rw [loadNats_congr s9.1 fs subdirs out hout j9] at l10
  rw [loadPos_congr s10.1 fs subdirs out hout j10] at l11
  rw [loadTmpl_congr s11.1 fs subdirs out hout j11] at l12
  rw [loadTable_congr s12.1 fs subdirs out hout j12] at l13
  rw [loadTable_congr s13.1 fs subdirs out hout j13] at l14
  rw [loadMatOpt_congr s14.1 fs subdirs out hout j14] at l15
  rw [loadMatOpt_congr s15.1 fs subdirs out hout j15] at l16
  rw [loadMatOpt_congr s16.1 fs subdirs out hout j16] at l17
  -- the spike templates are read twice from the same file
  have hst : st0 = st := by rw [l5] at l6b; cases l6b; rfl
  subst hst
  -- registers
  have q3 : s3.2.order = spikeOrder times := by rw [r3]
  have q4 : s4.2.order = spikeOrder times := by rw [r4, q3]
  have q5 : s5.2.order = spikeOrder times := by rw [r5, q4]
  have q6 : s6.2.clusters = sc ∧ s6.2.templateOffsets = templateOffsets st0 counts := by rw [r6]; exact ⟨rfl, rfl⟩
  have q7 : s7.2 = s6.2 := r7
  have q8 : s8.2 = s6.2 := r8.trans q7
  have q9 : s9.2 = s6.2 := r9.trans q8
  have q10 : s10.2.templateOffsets = templateOffsets st0 counts ∧ s10.2.chanIndexOffsets = C12.chanIndexOffsets maps := by
    rw [r10, q9]; exact ⟨q6.2, rfl⟩
  have q12 : s12.2 = s10.2 := r12.trans r11
  have q13 : s13.2 = s10.2 := r13.trans q12
  rw [q3] at n4
  rw [q4] at n5
  rw [q5] at n6a n6b a6
  -- template counts
  have hcnt := counts_eq fs subdirs sc st0 counts ts (loadEach_length _ _ _ l6a) (loadEach_length _ _ _ l5) l6c l12
  obtain ⟨hcounts, hnesc, hnest⟩ := hcnt
  refine ⟨{ params := ps, times := times, amps := amps, templates := st0, clusters := sc,
            tsvAmplitude := md1, tsvContamPct := md2, tsvKSLabel := md3,
            maps := maps, positions := pos, tmpl := ts, pcInd := pcs, tfInd := tfs,
            similar := ms1, whitening := ms2, whiteningInv := ms3 }, ?_, ?_, ?_⟩
  · exact ⟨l1, l3, l4, l5, l6a, l7, l8, l9, l10, l11, l12, l13, l14, l15, l16, l17⟩
  · refine ⟨by simpa using hne, hnesc, hnest, maxOK_ok _ _ k10, maxOK_ok _ _ k11, concatOK_ok _ _ k3,
      concatOK_ok _ _ k4, concatOK_ok _ _ k5, concatOK_ok _ _ k6a, ?_, ?_, ?_, ?_, k13, k14⟩
    · rw [n4, spikeOrder_length]
    · rw [n5, spikeOrder_length]
    · rw [← shiftIds_flatten_length, n6a, spikeOrder_length]
    · exact k12
  · -- contents of the output directory
    intro hempty
    have hread : ∀ n, fs'.read (out, n) = s18.1.read (out, n) := by
      intro n; rw [show fs' = s18.1 from congrArg Prod.fst hfin]
    have hwmi : s17.1.read (out, "whitening_mat_inv.npy") = (C12.mergeOptional ms3).map File.mat := by
      rw [o17, o16, o15, o14, o13, o12, o11, o10, o9, o8, o7, o6, o5, o4, o3, o2, o1, hempty]
      simp [lastW_ite, lastW_opt, lastW_cons, lastW_nil]
    have hwm : s17.1.read (out, "whitening_mat.npy") = (C12.mergeOptional ms2).map File.mat := by
      rw [o17, o16, o15, o14, o13, o12, o11, o10, o9, o8, o7, o6, o5, o4, o3, o2, o1, hempty]
      simp [lastW_ite, lastW_opt, lastW_cons, lastW_nil]
    unfold cLoadModel at c18
    rw [hwmi, hwm] at c18
    intro name
    rw [hread, o18, o17, o16, o15, o14, o13, o12, o11, o10, o9, o8, o7, o6, o5, o4, o3, o2, o1, hempty]
    have hw18 : w18 = invWrite (C12.mergeOptional ms3) (C12.mergeOptional ms2) := by
      cases h3 : C12.mergeOptional ms3 <;> cases h2 : C12.mergeOptional ms2 <;>
        simp only [h3, h2, Option.map] at c18 <;> injection c18 with c18 <;>
        exact (congrArg Prod.fst c18).symm
    subst hw18
    clear c18 hwmi hwm
    simp only [q6, q10, q13, q12, q8, q7, q3, q4, q5, hcounts]
    exact chain_eval subdirs ⟨ps, times, amps, st0, sc, md1, md2, md3, maps, pos, ts, pcs, tfs, ms1, ms2, ms3⟩ p m1 name

/-- a probe without spikes (or with exactly one) makes the merge raise -/
theorem merge_raises_of_few_spikes (fs : FS) (subdirs : List String) (out : String) (hout : out ∉ subdirs)
    (d : String) (hd : d ∈ subdirs) (v : List Nat) (hv : fs.read (d, "spike_clusters.npy") = some (.nats v))
    (hfew : v.length ≤ 1) : (merge fs subdirs out).2 ≠ none := by
  intro hnone
  obtain ⟨I, hL, hD, _⟩ := merge_ok fs subdirs out (merge fs subdirs out).1.1 (merge fs subdirs out).1.2
    (by rw [← hnone]) hout
  obtain ⟨a, ha, hr⟩ := loadEach_mem _ _ _ hL.2.2.2.2.1 d hd
  unfold readNats at hr
  rw [hv] at hr
  cases hr
  have h0 := hD.2.1 v ha
  have h1 := hD.2.2.2.2.2.2.2.2.1 v ha
  cases v with
  | nil => exact h0 rfl
  | cons x t => cases t with
    | nil => exact h1 rfl
    | cons y t => simp at hfew

/-- index tables of different row widths make the merge raise -/
theorem merge_raises_of_ragged_tables (fs : FS) (subdirs : List String) (out : String) (hout : out ∉ subdirs)
    (name : String) (hname : name = "pc_feature_ind.npy" ∨ name = "template_feature_ind.npy")
    (tables : List (List (List Nat))) (hl : loadEach (readTable fs name) subdirs = .ok tables)
    (_hne : ∀ t ∈ tables, t ≠ [])
    (hr : sameWidth tables = false) : (merge fs subdirs out).2 ≠ none := by
  intro hnone
  obtain ⟨I, hL, hD, _⟩ := merge_ok fs subdirs out (merge fs subdirs out).1.1 (merge fs subdirs out).1.2
    (by rw [← hnone]) hout
  obtain ⟨_, _, _, _, _, _, _, _, _, _, _, l13, l14, _, _, _⟩ := hL
  obtain ⟨_, _, _, _, _, _, _, _, _, _, _, _, _, k13, k14⟩ := hD
  rcases hname with rfl | rfl
  · rw [hl] at l13; cases l13; rw [hr] at k13; cases k13
  · rw [hl] at l14; cases l14; rw [hr] at k14; cases k14

end PhyVerif.C11.Lemmas
