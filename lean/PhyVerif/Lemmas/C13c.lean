import PhyVerif.Model.C13c
import PhyVerif.Spec.C13c
import PhyVerif.Lemmas.C13
import PhyVerif.Model.C08
/-! Proofs for the directory-level model of the ALF export (`Model/C13c.lean`). Statements: `Props/C13.lean`. -/
namespace PhyVerif.C13.Lemmas
open PhyVerif PhyVerif.C13

/-! ### finite maps -/

theorem mem_write {d : FDir} {n : Name} {e : Entry} {f : Name × Entry} :
    f ∈ d.write n e ↔ (f ∈ d ∧ f.1 ≠ n) ∨ f = (n, e) := by
  simp [FDir.write, List.mem_filter]

theorem has_eq_true {d : FDir} {n : Name} : d.has n = true ↔ ∃ e, (n, e) ∈ d := by
  simp only [FDir.has, List.any_eq_true, beq_iff_eq]
  constructor
  · rintro ⟨f, hf, rfl⟩; exact ⟨f.2, hf⟩
  · rintro ⟨e, he⟩; exact ⟨(n, e), he, rfl⟩

theorem has_write (d : FDir) (n k : Name) (e : Entry) :
    (d.write n e).has k = (k == n || d.has k) := by
  rw [Bool.eq_iff_iff]
  simp only [has_eq_true, Bool.or_eq_true, beq_iff_eq]
  constructor
  · rintro ⟨e', he'⟩
    rcases mem_write.mp he' with ⟨h1, _⟩ | h1
    · exact Or.inr ⟨e', h1⟩
    · exact Or.inl (by cases h1; rfl)
  · rintro (rfl | ⟨e', he'⟩)
    · exact ⟨e, mem_write.mpr (Or.inr rfl)⟩
    · by_cases hk : k = n
      · subst hk; exact ⟨e, mem_write.mpr (Or.inr rfl)⟩
      · exact ⟨e', mem_write.mpr (Or.inl ⟨he', hk⟩)⟩

theorem lookup_isSome (d : FDir) (n : Name) : (d.lookup n).isSome = d.has n := by
  induction d with
  | nil => rfl
  | cons x d ih =>
    simp only [FDir.lookup, FDir.has, List.find?_cons, List.any_cons] at ih ⊢
    cases h : x.1 == n <;> simp [ih]

theorem lookup_mem {d : FDir} {n : Name} {e : Entry} (h : d.lookup n = some e) : (n, e) ∈ d := by
  simp only [FDir.lookup, Option.map_eq_some_iff] at h
  obtain ⟨f, hf, rfl⟩ := h
  have h1 := List.find?_some hf
  have h2 := List.mem_of_find?_eq_some hf
  simp only [beq_iff_eq] at h1
  cases f; simp_all

theorem lookup_none_of_not_has {d : FDir} {n : Name} (h : d.has n = false) : d.lookup n = none := by
  have := lookup_isSome d n
  rw [h] at this
  cases hl : d.lookup n <;> simp_all

theorem lookup_filter_ne (d : FDir) (n k : Name) (h : k ≠ n) :
    FDir.lookup (d.filter (fun f => f.1 != n)) k = d.lookup k := by
  induction d with
  | nil => rfl
  | cons x d ih =>
    unfold FDir.lookup at ih ⊢
    rw [List.filter_cons]
    by_cases hx : x.1 = n
    · have h1 : (x.1 != n) = false := by simp [hx]
      have h2 : (x.1 == k) = false := by rw [hx]; simp [Ne.symm h]
      rw [h1]; simp only [Bool.false_eq_true, ↓reduceIte]
      rw [List.find?_cons, h2]; exact ih
    · have h1 : (x.1 != n) = true := by simp [hx]
      rw [h1]; simp only [↓reduceIte]
      rw [List.find?_cons, List.find?_cons]
      cases hk : x.1 == k
      · exact ih
      · rfl

theorem lookup_write_ne (d : FDir) (n k : Name) (e : Entry) (h : k ≠ n) :
    (d.write n e).lookup k = d.lookup k := by
  have hf := lookup_filter_ne d n k h
  simp only [FDir.lookup, FDir.write, List.find?_append] at hf ⊢
  cases hq : List.find? (fun f => f.1 == k) (List.filter (fun f => f.1 != n) d) with
  | some x => simp [← hf, hq]
  | none =>
    rw [hq] at hf
    have : (n == k) = false := by simp [Ne.symm h]
    simp [← hf, List.find?_cons, this]

theorem lookup_remove_ne (d : FDir) (n k : Name) (h : k ≠ n) : (d.remove n).lookup k = d.lookup k :=
  lookup_filter_ne d n k h

theorem lookup_remove_self (d : FDir) (n : Name) : (d.remove n).lookup n = none := by
  apply lookup_none_of_not_has
  simp [FDir.has, FDir.remove, List.any_filter]

theorem has_remove_self (d : FDir) (n : Name) : (d.remove n).has n = false := by
  simp [FDir.has, FDir.remove, List.any_filter]

theorem keys_write_nodup {d : FDir} (n : Name) (e : Entry) (h : d.keys.Nodup) : (d.write n e).keys.Nodup := by
  simp only [FDir.keys, FDir.write, List.map_append, List.map_cons, List.map_nil] at h ⊢
  rw [List.nodup_append]
  refine ⟨?_, by simp, ?_⟩
  · exact List.Nodup.sublist (List.Sublist.map _ List.filter_sublist) h
  · intro a ha b hb
    simp only [List.mem_map, List.mem_filter, bne_iff_ne, ne_eq] at ha
    simp only [List.mem_singleton] at hb
    obtain ⟨f, ⟨_, hf⟩, rfl⟩ := ha
    subst hb
    exact hf

theorem lookup_of_mem_nodup {d : FDir} (h : d.keys.Nodup) {n : Name} {e : Entry} (hm : (n, e) ∈ d) :
    d.lookup n = some e := by
  induction d with
  | nil => cases hm
  | cons x d ih =>
    simp only [FDir.keys, List.map_cons, List.nodup_cons] at h
    rcases List.mem_cons.mp hm with h1 | h1
    · subst h1; simp [FDir.lookup, List.find?_cons]
    · have hx : (x.1 == n) = false := by
        simp only [beq_eq_false_iff_ne, ne_eq]
        intro hxn
        exact h.1 (by rw [hxn]; exact List.mem_map.mpr ⟨(n, e), h1, rfl⟩)
      have := ih h.2 h1
      simp only [FDir.lookup, List.find?_cons, hx] at this ⊢
      exact this

/-! ### the source side: frame -/

theorem lookup_saveSubset (b : Bool) (src : FDir) (n : Name) (hn : n ∉ subsetFiles) :
    (saveSubset b src).lookup n = src.lookup n := by
  unfold saveSubset
  cases b
  · rfl
  · simp only [subsetFiles, List.mem_cons, List.not_mem_nil, or_false, not_or] at hn
    simp only [↓reduceIte, subsetFiles, List.foldl_cons, List.foldl_nil]
    rw [lookup_write_ne _ _ _ _ hn.2.2, lookup_write_ne _ _ _ _ hn.2.1, lookup_write_ne _ _ _ _ hn.1]

theorem has_saveSubset_true (src : FDir) (n : Name) (hn : n ∈ subsetFiles) :
    (saveSubset true src).has n = true := by
  simp only [subsetFiles, List.mem_cons, List.not_mem_nil, or_false] at hn
  simp only [saveSubset, ↓reduceIte, subsetFiles, List.foldl_cons, List.foldl_nil, has_write]
  rcases hn with rfl | rfl | rfl <;> simp

/-- the source directory when `convert` returns or raises -/
theorem convertFS_src (cfg : Cfg) (v : View) (gen : Nat → String) (fs : FS) :
    (convertFS cfg v gen fs).fs.src =
      if cfg.sameDir then fs.src
      else if (convertFS cfg v gen fs).err = some .noClusterChannels then saveSubset cfg.hasTraces fs.src
      else rmFiles (saveSubset cfg.hasTraces fs.src) := by
  unfold convertFS
  by_cases hs : cfg.sameDir = true
  · simp [hs]
  · simp only [hs, Bool.false_eq_true, ↓reduceIte]
    cases h1 : makeDepths v (makeTemplateAndSpikesObjects v (makeChannelObjects v (makeClusterObjects v gen fs.src fs.out))) with
    | none => simp
    | some out =>
      by_cases hb : labelBad cfg.label = true
      · simp [hb]
      · cases h2 : compressSpikesDtypes (renameWithLabel cfg.label (copyFiles cfg.force (rmFiles (saveSubset cfg.hasTraces fs.src)) out)) with
        | none => simp [hb, h2]
        | some o => simp [hb, h2]

theorem export_frame (cfg : Cfg) (v : View) (gen : Nat → String) (fs : FS) :
    (∀ n, n ∉ subsetFiles → n ≠ ["temp_wh", "dat"] →
        (convertFS cfg v gen fs).fs.src.lookup n = fs.src.lookup n) ∧
    ((convertFS cfg v gen fs).err = none → (convertFS cfg v gen fs).fs.src.has ["temp_wh", "dat"] = false) ∧
    (cfg.hasTraces = false → ∀ n, n ≠ ["temp_wh", "dat"] →
        (convertFS cfg v gen fs).fs.src.lookup n = fs.src.lookup n) ∧
    (cfg.hasTraces = true → cfg.sameDir = false → ∀ n ∈ subsetFiles, (convertFS cfg v gen fs).fs.src.has n = true) := by
  have hsrc := convertFS_src cfg v gen fs
  refine ⟨?_, ?_, ?_, ?_⟩
  · intro n hn ht
    rw [hsrc]
    split
    · rfl
    · split
      · exact lookup_saveSubset _ _ _ hn
      · rw [rmFiles, lookup_remove_ne _ _ _ ht]; exact lookup_saveSubset _ _ _ hn
  · intro he
    rw [hsrc]
    have h1 : cfg.sameDir = false := by
      cases h : cfg.sameDir
      · rfl
      · simp [convertFS, h] at he
    simp only [h1, Bool.false_eq_true, ↓reduceIte, he, reduceCtorEq]
    exact has_remove_self _ _
  · intro hT n ht
    rw [hsrc, hT]
    have hss : saveSubset false fs.src = fs.src := rfl
    split
    · rfl
    · split
      · rw [hss]
      · rw [rmFiles, lookup_remove_ne _ _ _ ht, hss]
  · intro hT hS n hn
    rw [hsrc, hT, hS]
    simp only [Bool.false_eq_true, ↓reduceIte]
    split
    · exact has_saveSubset_true _ _ hn
    · have hne : n ≠ ["temp_wh", "dat"] := by
        simp only [subsetFiles, List.mem_cons, List.not_mem_nil, or_false] at hn
        rcases hn with rfl | rfl | rfl <;> decide
      have h2 := has_saveSubset_true fs.src n hn
      rw [← lookup_isSome] at h2 ⊢
      rw [rmFiles, lookup_remove_ne _ _ _ hne]; exact h2

theorem refusal_frame (cfg : Cfg) (v : View) (gen : Nat → String) (fs : FS) (h : cfg.sameDir = true) :
    convertFS cfg v gen fs = ⟨fs, some .sameDir⟩ := by
  simp [convertFS, h]


/-! ### the output side: first dimensions -/

theorem tokRows_length (w : String) (n : Nat) : (tokRows w n).length = n := by simp [tokRows]

theorem rowsOK_write {v : View} {d : FDir} (n : Name) (e : Entry) (h : RowsOK v d)
    (hn : isObj n = true → expectedRows (sizesOf v) n = some (firstDim n e)) : RowsOK v (d.write n e) := by
  intro f hf ho
  rcases mem_write.mp hf with ⟨h1, _⟩ | h1
  · exact h f h1 ho
  · subst h1; exact hn ho

theorem rowsOK_makeClusterObjects (v : View) (gen : Nat → String) (src out : FDir) (h : RowsOK v out) :
    RowsOK v (makeClusterObjects v gen src out) := by
  unfold makeClusterObjects
  refine rowsOK_write _ _ (rowsOK_write _ _ ?_ ?_) ?_
  · have hcc : RowsOK v (if src.has ["clusters", "channels", "npy"] = true then out
        else out.write ["clusters", "channels", "npy"] (fresh (clustersChannels v))) := by
      split
      · exact h
      · exact rowsOK_write _ _ h (by intro _; simp [expectedRows, sizesOf, firstDim, fresh, clustersChannels, tokRows_length])
    split
    · exact hcc
    · exact rowsOK_write _ _ hcc (by intro _; simp [expectedRows, sizesOf, firstDim, fresh, tokRows_length])
  · intro _; simp [expectedRows, sizesOf, firstDim, fresh, camps, clustersChannels, tokRows_length]
  · intro _; simp [expectedRows, sizesOf, firstDim, fresh, uuidColumn, camps, clustersChannels, tokRows_length]

theorem rowsOK_makeChannelObjects (v : View) (out : FDir) (hv : ViewOK v) (h : RowsOK v out) :
    RowsOK v (makeChannelObjects v out) := by
  unfold makeChannelObjects
  exact rowsOK_write _ _ h (by intro _; simp [expectedRows, sizesOf, firstDim, fresh, tokRows_length, hv.2.2.2.2])

theorem spikeAmps_length (v : View) (hv : ViewOK v) : (spikeAmps v).length = v.samples.length := by
  simp [spikeAmps, hv.2.2.1, hv.2.2.2.1]

theorem rowsOK_makeTemplateAndSpikesObjects (v : View) (out : FDir) (hv : ViewOK v) (h : RowsOK v out) :
    RowsOK v (makeTemplateAndSpikesObjects v out) := by
  unfold makeTemplateAndSpikesObjects
  refine rowsOK_write _ _ (rowsOK_write _ _ (rowsOK_write _ _ (rowsOK_write _ _ (rowsOK_write _ _
    (rowsOK_write _ _ (rowsOK_write _ _ (rowsOK_write _ _ (rowsOK_write _ _ h ?_) ?_) ?_) ?_) ?_) ?_) ?_) ?_) ?_
  all_goals intro _
  all_goals simp [expectedRows, sizesOf, firstDim, fresh, tokRows_length, hv.1, spikeAmps_length v hv]

theorem spikesDepths_length (v : View) (hv : ViewOK v) (cd : List Row) :
    (spikesDepths v cd).length = v.samples.length := by
  unfold spikesDepths getDepthsRows
  cases v.featRows with
  | none => simp [hv.2.1]
  | some n =>
    by_cases h : n = v.times.length
    · simp [h, tokRows_length, hv.1]
    · simp [h, hv.2.1]

theorem rowsOK_makeDepths (v : View) (out out' : FDir) (hv : ViewOK v) (h : RowsOK v out)
    (hd : makeDepths v out = some out') : RowsOK v out' := by
  unfold makeDepths at hd
  cases hc : out.lookup ["clusters", "channels", "npy"] with
  | none => simp [hc] at hd
  | some cc =>
    simp only [hc, Option.some.injEq] at hd
    subst hd
    have hcc := h _ (lookup_mem hc) (by simp [isObj])
    simp only [expectedRows, sizesOf, firstDim, Option.some.injEq] at hcc
    have hcc' : cc.rows.length = nClusters v := by
      have : (["clusters", "channels", "npy"].getLast? == some "csv") = false := by decide
      simp only [this, Bool.false_eq_true, ↓reduceIte] at hcc
      exact hcc.symm
    refine rowsOK_write _ _ (rowsOK_write _ _ h ?_) ?_
    · intro _; simp [expectedRows, sizesOf, firstDim, fresh, spikesDepths_length v hv]
    · intro _; simp [expectedRows, sizesOf, firstDim, fresh, clustersDepths, hcc']

theorem fileRenames_not_csv : ∀ r ∈ fileRenames, (r.2.1.getLast? == some "csv") = false := by
  simp [fileRenames]

theorem rowsOK_copyOne (v : View) (force : Bool) (src out : FDir) (r : Name × Name × Bool)
    (hr : r ∈ fileRenames) (hs : SrcOK v src) (h : RowsOK v out) : RowsOK v (copyOne force src out r) := by
  unfold copyOne
  cases hl : src.lookup r.1 with
  | none => exact h
  | some e =>
    have hcsv := fileRenames_not_csv r hr
    have he : isObj r.2.1 = true → expectedRows (sizesOf v) r.2.1 = some (firstDim r.2.1 e) := by
      intro ho; simp only [firstDim, hcsv, Bool.false_eq_true, ↓reduceIte]; exact hs r hr ho e hl
    have he' : isObj r.2.1 = true → expectedRows (sizesOf v) r.2.1 = some (firstDim r.2.1 (squeezed e)) := by
      intro ho; simp only [firstDim, hcsv, Bool.false_eq_true, ↓reduceIte, squeezed]; exact hs r hr ho e hl
    simp only []
    have h1 : RowsOK v (if (out.has r.2.1 && !force) = true then out else out.write r.2.1 e) := by
      split
      · exact h
      · exact rowsOK_write _ _ h he
    split
    · exact rowsOK_write _ _ h1 he'
    · exact h1

theorem rowsOK_foldl_copy (v : View) (force : Bool) (src : FDir) (hs : SrcOK v src) :
    ∀ (l : List (Name × Name × Bool)) (out : FDir), (∀ r ∈ l, r ∈ fileRenames) → RowsOK v out →
      RowsOK v (l.foldl (copyOne force src) out) := by
  intro l
  induction l with
  | nil => intro out _ h; exact h
  | cons r l ih =>
    intro out hl h
    rw [List.foldl_cons]
    exact ih _ (fun r' hr' => hl r' (List.mem_cons_of_mem _ hr'))
      (rowsOK_copyOne v force src out r (hl r (List.mem_cons_self)) hs h)

theorem rowsOK_copyFiles (v : View) (force : Bool) (src out : FDir) (hs : SrcOK v src) (h : RowsOK v out) :
    RowsOK v (copyFiles force src out) :=
  rowsOK_foldl_copy v force src hs fileRenames out (fun _ hr => hr) h

/-- the label goes in front of the last part: the object name and the extension stay -/
theorem withLabel_cons2 (label a b : String) (rest : List String) :
    ∃ mid, withLabel label (a :: b :: rest) = a :: mid ∧ mid ≠ [] ∧
      (a :: mid).getLast? = (a :: b :: rest).getLast? ∧ mid.length = rest.length + 2 := by
  rcases List.eq_nil_or_concat (b :: rest) with h | ⟨init, ext, h⟩
  · cases h
  · rw [List.concat_eq_append] at h
    refine ⟨init ++ [label, ext], ?_, by simp, ?_, ?_⟩
    · have : a :: b :: rest = (a :: init) ++ [ext] := by rw [h]; rfl
      rw [this, label_before_extension]; rfl
    · rw [h]
      have e1 : a :: (init ++ [label, ext]) = (a :: init ++ [label]) ++ [ext] := by simp
      have e2 : a :: (init ++ [ext]) = (a :: init) ++ [ext] := by simp
      rw [e1, e2, List.getLast?_concat, List.getLast?_concat]
    · have := congrArg List.length h
      simp only [List.length_cons, List.length_append, List.length_nil] at this ⊢
      omega

theorem isObj_cons2 {n : Name} (h : isObj n = true) : ∃ a b rest, n = a :: b :: rest := by
  match n, h with
  | a :: b :: rest, _ => exact ⟨a, b, rest, rfl⟩

theorem relabel_props (label : String) (n : Name) (h : isObj n = true) (s : Sizes) :
    isObj (relabel label n) = true ∧ expectedRows s (relabel label n) = expectedRows s n ∧
      (relabel label n).getLast? = n.getLast? := by
  obtain ⟨a, b, rest, rfl⟩ := isObj_cons2 h
  obtain ⟨mid, hm, hne, hlast, _⟩ := withLabel_cons2 label a b rest
  simp only [relabel, h, ↓reduceIte, hm]
  obtain ⟨m0, mrest, rfl⟩ : ∃ m0 mrest, mid = m0 :: mrest := by
    cases mid with
    | nil => exact absurd rfl hne
    | cons m0 mrest => exact ⟨m0, mrest, rfl⟩
  refine ⟨?_, ?_, hlast⟩
  · simpa [isObj] using h
  · simp only [isObj, Bool.or_eq_true, beq_iff_eq] at h
    rcases h with ((h | h) | h) | h <;> subst h <;> rfl

theorem relabel_of_not_obj (label : String) (n : Name) (h : isObj n = false) : relabel label n = n := by
  simp [relabel, h]

theorem isObj_relabel (label : String) (n : Name) : isObj (relabel label n) = isObj n := by
  cases h : isObj n
  · rw [relabel_of_not_obj label n h, h]
  · exact (relabel_props label n h ⟨0, 0, 0, 0⟩).1

theorem rowsOK_rename (v : View) (label : String) (out : FDir) (h : RowsOK v out) :
    RowsOK v (renameWithLabel label out) := by
  unfold renameWithLabel
  split
  · exact h
  · intro f hf ho
    obtain ⟨f0, hf0, rfl⟩ := List.mem_map.mp hf
    simp only at ho ⊢
    rw [isObj_relabel] at ho
    obtain ⟨_, h2, h3⟩ := relabel_props label f0.1 ho (sizesOf v)
    rw [h2]
    have := h f0 hf0 ho
    simp only [firstDim, h3] at this ⊢
    exact this

theorem mapFirst_mem (p : Name → Bool) (g : Entry → Entry) :
    ∀ (d d' : FDir), mapFirst p g d = some d' →
      ∀ x' ∈ d', ∃ x ∈ d, x'.1 = x.1 ∧ (x'.2 = x.2 ∨ x'.2 = g x.2) := by
  intro d
  induction d with
  | nil => intro d' h; simp [mapFirst] at h
  | cons y rest ih =>
    intro d' h x' hx'
    unfold mapFirst at h
    split at h
    · simp only [Option.some.injEq] at h
      subst h
      rcases List.mem_cons.mp hx' with h1 | h1
      · exact ⟨y, List.mem_cons_self, by rw [h1], Or.inr (by rw [h1])⟩
      · exact ⟨x', List.mem_cons_of_mem _ h1, rfl, Or.inl rfl⟩
    · cases hr : mapFirst p g rest with
      | none => simp [hr] at h
      | some r =>
        simp only [hr, Option.map_some, Option.some.injEq] at h
        subst h
        rcases List.mem_cons.mp hx' with h1 | h1
        · exact ⟨y, List.mem_cons_self, by rw [h1], Or.inl (by rw [h1])⟩
        · obtain ⟨x, hx, h2⟩ := ih r hr x' h1
          exact ⟨x, List.mem_cons_of_mem _ hx, h2⟩

theorem rowsOK_mapFirst (v : View) (p : Name → Bool) (d d' : FDir) (h : RowsOK v d)
    (hm : mapFirst p u16 d = some d') : RowsOK v d' := by
  intro x' hx' ho
  obtain ⟨x, hx, h1, h2⟩ := mapFirst_mem p u16 d d' hm x' hx'
  have hx0 := h x hx (by rw [← h1]; exact ho)
  rw [h1]
  rcases h2 with h2 | h2
  · rw [h2]; exact hx0
  · rw [h2]; simpa [firstDim, u16] using hx0

theorem rowsOK_compress (v : View) (d d' : FDir) (h : RowsOK v d)
    (hm : compressSpikesDtypes d = some d') : RowsOK v d' := by
  unfold compressSpikesDtypes at hm
  cases h1 : mapFirst (matchesSpikes "templates") u16 d with
  | none => simp [h1] at hm
  | some d1 =>
    simp only [h1, Option.bind_some] at hm
    exact rowsOK_mapFirst v _ d1 d' (rowsOK_mapFirst v _ d d1 h h1) hm

/-- `SrcOK` survives the two changes the conversion makes to the source directory -/
theorem srcOK_transfer (v : View) (b : Bool) (src : FDir) (h : SrcOK v src) :
    SrcOK v (rmFiles (saveSubset b src)) := by
  intro r hr ho e he
  have hn : r.1 ∉ subsetFiles ∧ r.1 ≠ ["temp_wh", "dat"] := by
    revert ho
    simp only [fileRenames, List.mem_cons, List.not_mem_nil, or_false] at hr
    rcases hr with h | h | h | h | h | h | h | h | h | h | h | h | h | h | h | h <;> subst h <;> decide
  rw [rmFiles, lookup_remove_ne _ _ _ hn.2, lookup_saveSubset _ _ _ hn.1] at he
  exact h r hr ho e he

theorem export_first_dims (cfg : Cfg) (v : View) (gen : Nat → String) (fs : FS)
    (hv : ViewOK v) (hs : SrcOK v fs.src) (ho : RowsOK v fs.out) :
    RowsOK v (convertFS cfg v gen fs).fs.out := by
  unfold convertFS
  by_cases hsd : cfg.sameDir = true
  · simp only [hsd, ↓reduceIte]; exact ho
  · simp only [hsd, Bool.false_eq_true, ↓reduceIte]
    have h3 : RowsOK v (makeTemplateAndSpikesObjects v (makeChannelObjects v (makeClusterObjects v gen fs.src fs.out))) :=
      rowsOK_makeTemplateAndSpikesObjects v _ hv (rowsOK_makeChannelObjects v _ hv (rowsOK_makeClusterObjects v gen _ _ ho))
    cases h1 : makeDepths v (makeTemplateAndSpikesObjects v (makeChannelObjects v (makeClusterObjects v gen fs.src fs.out))) with
    | none => exact h3
    | some out =>
      have h4 := rowsOK_makeDepths v _ out hv h3 h1
      have h5c := rowsOK_copyFiles v cfg.force (rmFiles (saveSubset cfg.hasTraces fs.src)) out (srcOK_transfer v _ _ hs) h4
      have h5 := rowsOK_rename v cfg.label _ h5c
      by_cases hb : labelBad cfg.label = true
      · simp only [hb, ↓reduceIte]; exact h5c
      · simp only [hb, Bool.false_eq_true, ↓reduceIte]
        cases h2 : compressSpikesDtypes (renameWithLabel cfg.label (copyFiles cfg.force (rmFiles (saveSubset cfg.hasTraces fs.src)) out)) with
        | none => simp only [h2]; exact h5
        | some o => simp only [h2]; exact rowsOK_compress v _ o h5 h2


/-! ### lookups through the pipeline -/

theorem lookup_write_self (d : FDir) (n : Name) (e : Entry) : (d.write n e).lookup n = some e := by
  have h1 : List.find? (fun f => f.1 == n) (List.filter (fun f => f.1 != n) d) = none := by
    rw [List.find?_eq_none]
    intro x hx
    simp only [List.mem_filter, bne_iff_ne, ne_eq] at hx
    simp [hx.2]
  simp [FDir.lookup, FDir.write, List.find?_append, h1]

theorem lookup_copyOne_ne (force : Bool) (src out : FDir) (r : Name × Name × Bool) (k : Name)
    (h : k ≠ r.2.1) : (copyOne force src out r).lookup k = out.lookup k := by
  unfold copyOne
  cases src.lookup r.1 with
  | none => rfl
  | some e =>
    simp only []
    have h1 : FDir.lookup (if (out.has r.2.1 && !force) = true then out else out.write r.2.1 e) k = out.lookup k := by
      split
      · rfl
      · exact lookup_write_ne _ _ _ _ h
    split
    · rw [lookup_write_ne _ _ _ _ h]; exact h1
    · exact h1

theorem lookup_foldl_copy_ne (force : Bool) (src : FDir) (k : Name) :
    ∀ (l : List (Name × Name × Bool)) (out : FDir), (∀ r ∈ l, k ≠ r.2.1) →
      (l.foldl (copyOne force src) out).lookup k = out.lookup k := by
  intro l
  induction l with
  | nil => intro out _; rfl
  | cons r l ih =>
    intro out hl
    rw [List.foldl_cons, ih _ (fun r' hr' => hl r' (List.mem_cons_of_mem _ hr')),
      lookup_copyOne_ne _ _ _ _ _ (hl r List.mem_cons_self)]

theorem withLabel_inj (label : String) (a b : Name) (ha : a ≠ []) (hb : b ≠ [])
    (h : withLabel label a = withLabel label b) : a = b := by
  rcases List.eq_nil_or_concat a with h1 | ⟨ia, ea, h1⟩
  · exact absurd h1 ha
  rcases List.eq_nil_or_concat b with h2 | ⟨ib, eb, h2⟩
  · exact absurd h2 hb
  rw [List.concat_eq_append] at h1 h2
  subst h1 h2
  rw [label_before_extension, label_before_extension] at h
  have := List.append_inj' h (by simp)
  obtain ⟨h3, h4⟩ := this
  simp only [List.cons.injEq, and_true] at h4
  rw [h3, h4.2]

theorem relabel_inj (label : String) (a b : Name) (h : relabel label a = relabel label b) : a = b := by
  cases ha : isObj a <;> cases hb : isObj b
  · rwa [relabel_of_not_obj _ _ ha, relabel_of_not_obj _ _ hb] at h
  · have := isObj_relabel label b
    rw [← h, relabel_of_not_obj _ _ ha, ha, hb] at this
    cases this
  · have := isObj_relabel label a
    rw [h, relabel_of_not_obj _ _ hb, ha, hb] at this
    cases this
  · simp only [relabel, ha, hb, ↓reduceIte] at h
    obtain ⟨a1, a2, ar, rfl⟩ := isObj_cons2 ha
    obtain ⟨b1, b2, br, rfl⟩ := isObj_cons2 hb
    exact withLabel_inj label _ _ (by simp) (by simp) h

theorem lookup_mapKeys (g : Name → Name) (hg : ∀ a b, g a = g b → a = b) (d : FDir) (k : Name) :
    FDir.lookup (d.map fun f => (g f.1, f.2)) (g k) = d.lookup k := by
  induction d with
  | nil => rfl
  | cons x d ih =>
    unfold FDir.lookup at ih ⊢
    rw [List.map_cons, List.find?_cons, List.find?_cons]
    have : ((g x.1, x.2).1 == g k) = (x.1 == k) := by
      rw [Bool.eq_iff_iff]; simp only [beq_iff_eq]
      exact ⟨fun h => hg _ _ h, fun h => by rw [h]⟩
    rw [this]
    cases x.1 == k
    · exact ih
    · rfl

theorem lookup_rename (label : String) (d : FDir) (k : Name) :
    (renameWithLabel label d).lookup (labelled' label k) = d.lookup k := by
  unfold renameWithLabel labelled'
  split
  · rfl
  · exact lookup_mapKeys (relabel label) (relabel_inj label) d k

theorem lookup_mapFirst_ne (p : Name → Bool) (g : Entry → Entry) (k : Name) (hk : p k = false) :
    ∀ (d d' : FDir), mapFirst p g d = some d' → d'.lookup k = d.lookup k := by
  intro d
  induction d with
  | nil => intro d' h; simp [mapFirst] at h
  | cons y rest ih =>
    intro d' h
    unfold mapFirst at h
    split at h
    · rename_i hp
      simp only [Option.some.injEq] at h
      subst h
      have : (y.1 == k) = false := by
        simp only [beq_eq_false_iff_ne, ne_eq]; intro hyk; rw [hyk, hk] at hp; cases hp
      simp [FDir.lookup, List.find?_cons, this]
    · cases hr : mapFirst p g rest with
      | none => simp [hr] at h
      | some r =>
        simp only [hr, Option.map_some, Option.some.injEq] at h
        subst h
        have := ih r hr
        unfold FDir.lookup at this ⊢
        rw [List.find?_cons, List.find?_cons]
        cases y.1 == k
        · exact this
        · rfl

theorem mapFirst_keys (p : Name → Bool) (g : Entry → Entry) :
    ∀ (d d' : FDir), mapFirst p g d = some d' → d'.keys = d.keys := by
  intro d
  induction d with
  | nil => intro d' h; simp [mapFirst] at h
  | cons y rest ih =>
    intro d' h
    unfold mapFirst at h
    split at h
    · simp only [Option.some.injEq] at h
      subst h; rfl
    · cases hr : mapFirst p g rest with
      | none => simp [hr] at h
      | some r =>
        simp only [hr, Option.map_some, Option.some.injEq] at h
        subst h
        simp only [FDir.keys, List.map_cons, List.cons.injEq, true_and]
        exact ih r hr

theorem has_eq_keys_any (x : FDir) (k : Name) : x.has k = x.keys.any (· == k) := by
  simp [FDir.has, FDir.keys, List.any_map, Function.comp_def]

theorem has_of_keys {d d' : FDir} (h : d'.keys = d.keys) (k : Name) : d'.has k = d.has k := by
  rw [has_eq_keys_any, has_eq_keys_any, h]

theorem mapFirst_some_of_has (p : Name → Bool) (g : Entry → Entry) (k : Name) (hk : p k = true) :
    ∀ d : FDir, d.has k = true → ∃ d', mapFirst p g d = some d' := by
  intro d
  induction d with
  | nil => intro h; simp [FDir.has] at h
  | cons y rest ih =>
    intro h
    unfold mapFirst
    by_cases hp : p y.1 = true
    · simp [hp]
    · simp only [hp, Bool.false_eq_true, ↓reduceIte]
      have hyk : (y.1 == k) = false := by
        simp only [beq_eq_false_iff_ne, ne_eq]; intro hyk; rw [hyk] at hp; exact hp hk
      have : FDir.has rest k = true := by
        simpa [FDir.has, List.any_cons, hyk] using h
      obtain ⟨d', hd'⟩ := ih this
      exact ⟨y :: d', by simp [hd']⟩

theorem has_write_mono {d : FDir} {k : Name} (n : Name) (e : Entry) (h : d.has k = true) :
    (d.write n e).has k = true := by
  rw [has_write, h]; simp

theorem has_copyOne_mono (force : Bool) (src out : FDir) (r : Name × Name × Bool) (k : Name)
    (h : out.has k = true) : (copyOne force src out r).has k = true := by
  unfold copyOne
  cases src.lookup r.1 with
  | none => exact h
  | some e =>
    simp only []
    have h1 : FDir.has (if (out.has r.2.1 && !force) = true then out else out.write r.2.1 e) k = true := by
      split
      · exact h
      · exact has_write_mono _ _ h
    split
    · exact has_write_mono _ _ h1
    · exact h1

theorem has_copyOne_target (force : Bool) (src out : FDir) (r : Name × Name × Bool) (e : Entry)
    (he : src.lookup r.1 = some e) : (copyOne force src out r).has r.2.1 = true := by
  unfold copyOne
  simp only [he]
  have h1 : FDir.has (if (out.has r.2.1 && !force) = true then out else out.write r.2.1 e) r.2.1 = true := by
    split
    · rename_i h; simp only [Bool.and_eq_true] at h; exact h.1
    · rw [has_write]; simp
  split
  · exact has_write_mono _ _ h1
  · exact h1

theorem has_foldl_copy_mono (force : Bool) (src : FDir) (k : Name) :
    ∀ (l : List (Name × Name × Bool)) (out : FDir), out.has k = true →
      (l.foldl (copyOne force src) out).has k = true := by
  intro l
  induction l with
  | nil => intro out h; exact h
  | cons r l ih => intro out h; rw [List.foldl_cons]; exact ih _ (has_copyOne_mono _ _ _ _ _ h)

theorem has_foldl_copy_target (force : Bool) (src : FDir) (r : Name × Name × Bool) (e : Entry)
    (he : src.lookup r.1 = some e) :
    ∀ (l : List (Name × Name × Bool)) (out : FDir), r ∈ l →
      (l.foldl (copyOne force src) out).has r.2.1 = true := by
  intro l
  induction l with
  | nil => intro out h; cases h
  | cons r' l ih =>
    intro out h
    rw [List.foldl_cons]
    rcases List.mem_cons.mp h with h1 | h1
    · subst h1
      exact has_foldl_copy_mono _ _ _ _ _ (has_copyOne_target _ _ _ _ e he)
    · exact ih _ h1

theorem has_rename (label : String) (d : FDir) (k : Name) (h : d.has k = true) :
    (renameWithLabel label d).has (labelled' label k) = true := by
  rw [← lookup_isSome, lookup_rename, lookup_isSome]; exact h


/-! ### a successful conversion, decomposed -/

/-- the output directory after the first three steps -/
def out3 (v : View) (gen : Nat → String) (fs : FS) : FDir :=
  makeTemplateAndSpikesObjects v (makeChannelObjects v (makeClusterObjects v gen fs.src fs.out))

def src' (cfg : Cfg) (fs : FS) : FDir := rmFiles (saveSubset cfg.hasTraces fs.src)

theorem lookup_src' (cfg : Cfg) (fs : FS) (n : Name) (h1 : n ∉ subsetFiles) (h2 : n ≠ ["temp_wh", "dat"]) :
    (src' cfg fs).lookup n = fs.src.lookup n := by
  rw [src', rmFiles, lookup_remove_ne _ _ _ h2, lookup_saveSubset _ _ _ h1]

theorem has_src' (cfg : Cfg) (fs : FS) (n : Name) (h1 : n ∉ subsetFiles) (h2 : n ≠ ["temp_wh", "dat"]) :
    (src' cfg fs).has n = fs.src.has n := by
  rw [← lookup_isSome, ← lookup_isSome, lookup_src' cfg fs n h1 h2]

theorem has_out3_cc (v : View) (gen : Nat → String) (fs : FS)
    (h : fs.src.has ["clusters", "channels", "npy"] = false) :
    (out3 v gen fs).has ["clusters", "channels", "npy"] = true := by
  simp only [out3, makeTemplateAndSpikesObjects, makeChannelObjects, makeClusterObjects, has_write, h]
  split <;> simp [has_write]

theorem matches_templates (label : String) :
    matchesSpikes "templates" (labelled' label ["spikes", "templates", "npy"]) = true := by
  unfold labelled'
  split
  · decide
  · have : relabel label ["spikes", "templates", "npy"] = ["spikes", "templates", label, "npy"] := by
      simp [relabel, isObj, withLabel3]
    rw [this]
    simp only [matchesSpikes, beq_self_eq_true, List.isEmpty_cons, Bool.not_false, Bool.and_self, Bool.true_and,
      List.getLast?_cons_cons, List.getLast?_singleton, Option.getD_some]
    decide

theorem matches_clusters (label : String) :
    matchesSpikes "clusters" (labelled' label ["spikes", "clusters", "npy"]) = true := by
  unfold labelled'
  split
  · decide
  · have : relabel label ["spikes", "clusters", "npy"] = ["spikes", "clusters", label, "npy"] := by
      simp [relabel, isObj, withLabel3]
    rw [this]
    simp only [matchesSpikes, beq_self_eq_true, List.isEmpty_cons, Bool.not_false, Bool.and_self, Bool.true_and,
      List.getLast?_cons_cons, List.getLast?_singleton, Option.getD_some]
    decide

theorem convertFS_ok (cfg : Cfg) (v : View) (gen : Nat → String) (fs : FS) (h : Convertible cfg fs) :
    ∃ out4 o, makeDepths v (out3 v gen fs) = some out4 ∧
      compressSpikesDtypes (renameWithLabel cfg.label (copyFiles cfg.force (src' cfg fs) out4)) = some o ∧
      (renameWithLabel cfg.label (copyFiles cfg.force (src' cfg fs) out4)).keys = o.keys ∧
      convertFS cfg v gen fs = ⟨⟨src' cfg fs, o⟩, none⟩ := by
  obtain ⟨hsd, hlb, hcc, _, hsc, hst, _⟩ := h
  have hcc3 := has_out3_cc v gen fs hcc
  obtain ⟨out4, h4⟩ : ∃ out4, makeDepths v (out3 v gen fs) = some out4 := by
    unfold makeDepths
    cases hl : (out3 v gen fs).lookup ["clusters", "channels", "npy"] with
    | none =>
      have := lookup_isSome (out3 v gen fs) ["clusters", "channels", "npy"]
      rw [hl, hcc3] at this; cases this
    | some cc => exact ⟨_, rfl⟩
  -- the two id files are copied, relabelled, and found by the globs
  have hcopy : ∀ (r : Name × Name × Bool), r ∈ fileRenames → r.1 ∉ subsetFiles → r.1 ≠ ["temp_wh", "dat"] →
      fs.src.has r.1 = true →
      (renameWithLabel cfg.label (copyFiles cfg.force (src' cfg fs) out4)).has (labelled' cfg.label r.2.1) = true := by
    intro r hr h1 h2 hh
    apply has_rename
    rw [← has_src' cfg fs r.1 h1 h2, ← lookup_isSome] at hh
    cases hl : (src' cfg fs).lookup r.1 with
    | none => rw [hl] at hh; cases hh
    | some e => exact has_foldl_copy_target _ _ r e hl fileRenames out4 hr
  have ht := hcopy (["spike_templates", "npy"], ["spikes", "templates", "npy"], true)
    (by simp [fileRenames]) (by decide) (by decide) hst
  have hc := hcopy (["spike_clusters", "npy"], ["spikes", "clusters", "npy"], true)
    (by simp [fileRenames]) (by decide) (by decide) hsc
  obtain ⟨d1, hd1⟩ := mapFirst_some_of_has (matchesSpikes "templates") u16 _ (matches_templates cfg.label) _ ht
  have hk1 := mapFirst_keys _ _ _ _ hd1
  have hc1 : d1.has (labelled' cfg.label ["spikes", "clusters", "npy"]) = true := by
    rw [has_of_keys hk1]; exact hc
  obtain ⟨o, ho⟩ := mapFirst_some_of_has (matchesSpikes "clusters") u16 _ (matches_clusters cfg.label) _ hc1
  have hk2 := mapFirst_keys _ _ _ _ ho
  have hcomp : compressSpikesDtypes (renameWithLabel cfg.label (copyFiles cfg.force (src' cfg fs) out4)) = some o := by
    simp [compressSpikesDtypes, hd1, ho]
  refine ⟨out4, o, h4, hcomp, by rw [hk2, hk1], ?_⟩
  unfold out3 at h4
  unfold src' at hcomp
  simp [convertFS, hsd, hlb, h4, hcomp, src']

theorem export_succeeds (cfg : Cfg) (v : View) (gen : Nat → String) (fs : FS) (h : Convertible cfg fs) :
    (convertFS cfg v gen fs).err = none := by
  obtain ⟨_, _, _, _, _, h4⟩ := convertFS_ok cfg v gen fs h
  rw [h4]

/-- a file present after the first three steps, which no later step writes, is found unchanged under its
labelled name — unless it is one of the two id tables the last step converts -/
theorem lookup_final (cfg : Cfg) (v : View) (gen : Nat → String) (fs : FS) (h : Convertible cfg fs) (k : Name)
    (hk1 : k ≠ ["spikes", "depths", "npy"]) (hk2 : k ≠ ["clusters", "depths", "npy"])
    (hk3 : ∀ r ∈ fileRenames, k ≠ r.2.1)
    (hk4 : matchesSpikes "templates" (labelled' cfg.label k) = false)
    (hk5 : matchesSpikes "clusters" (labelled' cfg.label k) = false) :
    (convertFS cfg v gen fs).fs.out.lookup (labelled' cfg.label k) = (out3 v gen fs).lookup k := by
  obtain ⟨out4, o, h4, hcomp, _, hres⟩ := convertFS_ok cfg v gen fs h
  rw [hres]
  simp only []
  unfold compressSpikesDtypes at hcomp
  cases hd1 : mapFirst (matchesSpikes "templates") u16 (renameWithLabel cfg.label (copyFiles cfg.force (src' cfg fs) out4)) with
  | none => simp [hd1] at hcomp
  | some d1 =>
    simp only [hd1, Option.bind_some] at hcomp
    rw [lookup_mapFirst_ne _ _ _ hk5 _ _ hcomp, lookup_mapFirst_ne _ _ _ hk4 _ _ hd1, lookup_rename,
      copyFiles, lookup_foldl_copy_ne _ _ _ _ _ hk3]
    unfold makeDepths at h4
    cases hl : (out3 v gen fs).lookup ["clusters", "channels", "npy"] with
    | none => simp [hl] at h4
    | some cc =>
      simp only [hl, Option.some.injEq] at h4
      subst h4
      rw [lookup_write_ne _ _ _ _ hk2, lookup_write_ne _ _ _ _ hk1]

/-- a file present after the fifth step (make_depths) is still there, under its labelled name, at the end -/
theorem has_final (cfg : Cfg) (v : View) (gen : Nat → String) (fs : FS) (h : Convertible cfg fs) (k : Name)
    (out4 : FDir) (h4 : makeDepths v (out3 v gen fs) = some out4)
    (hk : (copyFiles cfg.force (src' cfg fs) out4).has k = true) :
    (convertFS cfg v gen fs).fs.out.has (labelled' cfg.label k) = true := by
  obtain ⟨out4', o, h4', _, hkeys, hres⟩ := convertFS_ok cfg v gen fs h
  rw [h4] at h4'
  cases h4'
  rw [hres]
  simp only []
  rw [has_of_keys hkeys.symm]
  exact has_rename _ _ _ hk


/-! ### contents: times, samples, identifiers -/

theorem times_in_seconds (rate : Rat) (samples : List Int) (hr : rate ≠ 0) :
    (timesOf rate samples).length = samples.length ∧
    ∀ (i : Nat) (h : i < samples.length),
      (timesOf rate samples).getD i 0 * rate = (samples.getD i 0 : Int) := by
  refine ⟨by simp [timesOf], ?_⟩
  intro i h
  simp only [timesOf, List.getD_eq_getElem?_getD, List.getElem?_map, List.getElem?_eq_getElem h,
    Option.map_some, Option.getD_some]
  exact Rat.div_mul_cancel hr

theorem not_matches_of_second (attr : String) (label : String) (a b c : String)
    (ha : (b == attr) = false) (ho : isObj [a, b, c] = true) :
    matchesSpikes attr (labelled' label [a, b, c]) = false := by
  unfold labelled'
  split
  · unfold matchesSpikes
    split
    · rename_i heq; simp only [List.cons.injEq] at heq; obtain ⟨_, rfl, _⟩ := heq; simp [ha]
    · rfl
  · have : relabel label [a, b, c] = [a, b, label, c] := by simp [relabel, ho, withLabel3]
    rw [this]
    unfold matchesSpikes
    split
    · rename_i heq; simp only [List.cons.injEq] at heq; obtain ⟨_, rfl, _⟩ := heq; simp [ha]
    · rfl

theorem not_matches_of_first (attr : String) (label : String) (a b c : String)
    (ha : a ≠ "spikes") : matchesSpikes attr (labelled' label [a, b, c]) = false := by
  have h1 : ∀ rest, matchesSpikes attr (a :: rest) = false := by
    intro rest
    unfold matchesSpikes
    split
    · rename_i heq; simp only [List.cons.injEq] at heq; exact absurd heq.1 ha
    · rfl
  unfold labelled'
  split
  · exact h1 _
  · by_cases ho : isObj [a, b, c] = true
    · have : relabel label [a, b, c] = [a, b, label, c] := by simp [relabel, ho, withLabel3]
      rw [this]; exact h1 _
    · simp only [Bool.not_eq_true] at ho
      rw [relabel_of_not_obj _ _ ho]; exact h1 _

theorem export_times_samples (cfg : Cfg) (v : View) (gen : Nat → String) (fs : FS) (h : Convertible cfg fs) :
    (convertFS cfg v gen fs).fs.out.lookup (labelled' cfg.label ["spikes", "times", "npy"]) =
      some (fresh (v.times.map Row.q)) ∧
    (convertFS cfg v gen fs).fs.out.lookup (labelled' cfg.label ["spikes", "samples", "npy"]) =
      some (fresh (v.samples.map Row.z)) := by
  constructor
  · rw [lookup_final cfg v gen fs h _ (by decide) (by decide) (by simp [fileRenames])
      (not_matches_of_second _ _ _ _ _ (by decide) (by decide))
      (not_matches_of_second _ _ _ _ _ (by decide) (by decide))]
    simp only [out3, makeTemplateAndSpikesObjects]
    repeat rw [lookup_write_ne _ _ _ _ (by decide)]
    exact lookup_write_self _ _ _
  · rw [lookup_final cfg v gen fs h _ (by decide) (by decide) (by simp [fileRenames])
      (not_matches_of_second _ _ _ _ _ (by decide) (by decide))
      (not_matches_of_second _ _ _ _ _ (by decide) (by decide))]
    simp only [out3, makeTemplateAndSpikesObjects]
    repeat rw [lookup_write_ne _ _ _ _ (by decide)]
    exact lookup_write_self _ _ _

theorem nodupB_iff (l : List String) : nodupB l = true ↔ l.Nodup := by
  induction l with
  | nil => simp [nodupB]
  | cons x xs ih => simp [nodupB, ih, List.nodup_cons]

theorem uuidOKb_iff (n : Nat) (lines : List String) : uuidOKb n lines = true ↔ UuidOK n lines := by
  cases lines with
  | nil => simp [uuidOKb, UuidOK]
  | cons h ids => simp [uuidOKb, UuidOK, nodupB_iff, and_assoc]

theorem uuid_lines_ok (gen : Nat → String) (n : Nat) (hg : GenDistinct gen n) :
    UuidOK n ("uuids" :: (List.range n).map gen) := by
  refine ⟨rfl, by simp, ?_⟩
  simp only [List.tail_cons]
  unfold List.Nodup
  rw [List.pairwise_map]
  have hr : (List.range n).Pairwise (· ≠ ·) := List.nodup_range
  refine hr.imp_of_mem ?_
  intro i j hi hj hij hgen
  exact hij (hg i j (List.mem_range.mp hi) (List.mem_range.mp hj) hgen)

theorem uuidColumn_eq (gen : Nat → String) (n : Nat) :
    uuidColumn gen n = ("uuids" :: (List.range n).map gen).map Row.s := by
  simp [uuidColumn]

theorem camps_length (v : View) : (camps v).length = nClusters v := by
  simp [camps, clustersChannels, tokRows_length]

theorem export_uuids (cfg : Cfg) (v : View) (gen : Nat → String) (fs : FS) (h : Convertible cfg fs)
    (hg : GenDistinct gen (nClusters v)) :
    ∃ lines, (convertFS cfg v gen fs).fs.out.lookup (labelled' cfg.label ["clusters", "uuids", "csv"]) =
        some (fresh (lines.map Row.s)) ∧ UuidOK (nClusters v) lines := by
  refine ⟨"uuids" :: (List.range (nClusters v)).map gen, ?_, uuid_lines_ok gen _ hg⟩
  rw [lookup_final cfg v gen fs h _ (by decide) (by decide) (by simp [fileRenames])
    (not_matches_of_first _ _ _ _ _ (by decide)) (not_matches_of_first _ _ _ _ _ (by decide))]
  simp only [out3, makeTemplateAndSpikesObjects, makeChannelObjects, makeClusterObjects]
  repeat rw [lookup_write_ne _ _ _ _ (by decide)]
  rw [lookup_write_self, camps_length, uuidColumn_eq]

/-! ### the table of `Model/C13.lean` is what the directory-level model writes -/

theorem has_out4 (v : View) (gen : Nat → String) (fs : FS) (out4 : FDir)
    (h4 : makeDepths v (out3 v gen fs) = some out4) (k : Name) :
    out4.has k = (k == ["clusters", "depths", "npy"] || (k == ["spikes", "depths", "npy"] || (out3 v gen fs).has k)) := by
  unfold makeDepths at h4
  cases hl : (out3 v gen fs).lookup ["clusters", "channels", "npy"] with
  | none => simp [hl] at h4
  | some cc =>
    simp only [hl, Option.some.injEq] at h4
    subst h4
    rw [has_write, has_write]

theorem table_in_copy (cfg : Cfg) (v : View) (gen : Nat → String) (fs : FS) (h : Convertible cfg fs)
    (out4 : FDir) (h4 : makeDepths v (out3 v gen fs) = some out4) :
    ∀ g ∈ objectTables (sizesOf v), (copyFiles cfg.force (src' cfg fs) out4).has g.1 = true := by
  obtain ⟨_, _, hcc, hpt, hsc, hst, hcp⟩ := h
  have hcopy : ∀ (r : Name × Name × Bool), r ∈ fileRenames → r.1 ∉ subsetFiles → r.1 ≠ ["temp_wh", "dat"] →
      fs.src.has r.1 = true → (copyFiles cfg.force (src' cfg fs) out4).has r.2.1 = true := by
    intro r hr h1 h2 hh
    rw [← has_src' cfg fs r.1 h1 h2, ← lookup_isSome] at hh
    cases hl : (src' cfg fs).lookup r.1 with
    | none => rw [hl] at hh; cases hh
    | some e => exact has_foldl_copy_target _ _ r e hl fileRenames out4 hr
  have hcomp : ∀ k, out4.has k = true → (copyFiles cfg.force (src' cfg fs) out4).has k = true :=
    fun k hk => has_foldl_copy_mono _ _ _ _ _ hk
  intro g hg
  simp only [objectTables, List.mem_cons, List.not_mem_nil, or_false] at hg
  rcases hg with hg | hg | hg | hg | hg | hg | hg | hg | hg | hg | hg | hg | hg | hg | hg | hg | hg | hg <;> subst hg
  all_goals first
    | (apply hcomp
       rw [has_out4 v gen fs out4 h4]
       simp [out3, makeTemplateAndSpikesObjects, makeChannelObjects, makeClusterObjects, has_write, hcc, hpt]
       done)
    | exact hcopy (["channel_positions", "npy"], ["channels", "localCoordinates", "npy"], false)
        (by simp [fileRenames]) (by decide) (by decide) hcp
    | exact hcopy (["spike_clusters", "npy"], ["spikes", "clusters", "npy"], true)
        (by simp [fileRenames]) (by decide) (by decide) hsc
    | exact hcopy (["spike_templates", "npy"], ["spikes", "templates", "npy"], true)
        (by simp [fileRenames]) (by decide) (by decide) hst

theorem export_table_written (cfg : Cfg) (v : View) (gen : Nat → String) (fs : FS) (hc : Convertible cfg fs)
    (hv : ViewOK v) (hs : SrcOK v fs.src) (ho : RowsOK v fs.out) (src out : String)
    (files : List (Name × Nat)) (h : convert src out cfg.label (sizesOf v) = some files) :
    ∀ f ∈ files, ∃ e, (f.1, e) ∈ (convertFS cfg v gen fs).fs.out ∧ firstDim f.1 e = f.2 := by
  intro f hf
  have hold := export_row_counts src out cfg.label (sizesOf v) files h f hf
  have hfiles := convert_some src out cfg.label (sizesOf v) files h
  obtain ⟨out4, _, h4, _, _, _⟩ := convertFS_ok cfg v gen fs hc
  -- f is the labelled version of a table row g
  have hg : ∃ g ∈ objectTables (sizesOf v), f = (labelled' cfg.label g.1, g.2) := by
    subst hfiles
    by_cases hl : cfg.label = ""
    · simp only [renameAll, hl, ↓reduceIte] at hf
      exact ⟨f, hf, by simp [labelled', hl]⟩
    · rw [renameAll_objectTables cfg.label hl] at hf
      obtain ⟨g, hg, rfl⟩ := List.mem_map.mp hf
      refine ⟨g, hg, ?_⟩
      have hobj : isObj g.1 = true := by
        simp only [objectTables, List.mem_cons, List.not_mem_nil, or_false] at hg
        rcases hg with hg | hg | hg | hg | hg | hg | hg | hg | hg | hg | hg | hg | hg | hg | hg | hg | hg | hg <;>
          subst hg <;> rfl
      simp [labelled', hl, relabel, hobj]
  obtain ⟨g, hg, rfl⟩ := hg
  have hobj : isObj g.1 = true := by
    simp only [objectTables, List.mem_cons, List.not_mem_nil, or_false] at hg
    rcases hg with hg | hg | hg | hg | hg | hg | hg | hg | hg | hg | hg | hg | hg | hg | hg | hg | hg | hg <;>
      subst hg <;> rfl
  have hhas := has_final cfg v gen fs hc g.1 out4 h4 (table_in_copy cfg v gen fs hc out4 h4 g hg)
  obtain ⟨e, he⟩ := has_eq_true.mp hhas
  refine ⟨e, he, ?_⟩
  have hobj' : isObj (labelled' cfg.label g.1) = true := by
    unfold labelled'; split
    · exact hobj
    · rw [isObj_relabel]; exact hobj
  have hnew := export_first_dims cfg v gen fs hv hs ho _ he hobj'
  simp only at hold hnew
  rw [hold] at hnew
  exact (Option.some.inj hnew).symm


/-! ### the frame clause, decided -/

theorem exempt_false {n : Name} (h : exempt n = false) : n ∉ subsetFiles ∧ n ≠ ["temp_wh", "dat"] := by
  simp only [exempt, Bool.or_eq_false_iff, beq_eq_false_iff_ne, ne_eq, List.contains_eq_mem,
    decide_eq_false_iff_not] at h
  exact ⟨h.2, h.1⟩

theorem export_frame_decided (cfg : Cfg) (v : View) (gen : Nat → String) (fs : FS) (hn : fs.src.keys.Nodup)
    (he : (convertFS cfg v gen fs).err = none) :
    frameOKb fs.src (convertFS cfg v gen fs).fs.src = true := by
  obtain ⟨h1, h2, _, _⟩ := export_frame cfg v gen fs
  simp only [frameOKb, Bool.and_eq_true, List.all_eq_true, Bool.or_eq_true, Bool.not_eq_true']
  refine ⟨⟨?_, ?_⟩, h2 he⟩
  · intro f hf
    cases hx : exempt f.1
    · right
      obtain ⟨ha, hb⟩ := exempt_false hx
      rw [h1 f.1 ha hb, lookup_of_mem_nodup hn (show (f.1, f.2) ∈ fs.src from hf)]
      simp
    · left; rfl
  · intro f hf
    cases hx : exempt f.1
    · right
      obtain ⟨ha, hb⟩ := exempt_false hx
      have : (convertFS cfg v gen fs).fs.src.has f.1 = true := has_eq_true.mpr ⟨f.2, hf⟩
      rw [← lookup_isSome, h1 f.1 ha hb, lookup_isSome] at this
      exact this
    · left; rfl

theorem nClusters_eq_loadClusters (v : View) (W : List C09.Mat) (chans : List (List Nat)) (ns nc : Nat)
    (hW : W.length = v.nTemplates) :
    nClusters v = (C08.loadClusters W chans v.spikeTemplates v.spikeClusters ns nc).2 := by
  unfold nClusters C08.loadClusters
  by_cases h : v.spikeClusters = v.spikeTemplates
  · simp [h, hW]
  · simp [h]


/-! ### the two layouts of the spike times -/

theorem roundHalfEven_spec (q : Rat) :
    ((roundHalfEven q : Int) : Rat) - q ≤ 1 / 2 ∧ q - ((roundHalfEven q : Int) : Rat) ≤ 1 / 2 ∧
    (q - (q.floor : Rat) = 1 / 2 → roundHalfEven q % 2 = 0) := by
  have h1 := Rat.floor_le q
  have h2 := Rat.lt_floor_add_one q
  have h3 : ((q.floor + 1 : Int) : Rat) = (q.floor : Rat) + 1 := by simp [Rat.intCast_add]
  rw [h3] at h2
  unfold roundHalfEven
  simp only []
  split
  · rename_i hlt
    refine ⟨by grind, by grind, ?_⟩
    intro h; rw [h] at hlt; exact absurd hlt (Rat.lt_irrefl)
  · split
    · rename_i hlt
      rw [h3]; refine ⟨by grind, by grind, ?_⟩
      intro h; rw [h] at hlt; exact absurd hlt (Rat.lt_irrefl)
    · have he : q - (q.floor : Rat) = 1 / 2 := by grind
      split
      · refine ⟨by grind, by grind, fun _ => by assumption⟩
      · rw [h3]; refine ⟨by grind, by grind, fun _ => by omega⟩

theorem load_layouts (rate : Rat) :
    (∀ s, loadSpikeSamples rate (.inSamples s) = (s, timesOf rate s)) ∧
    (∀ t s, (loadSpikeSamples rate (.inSeconds t s)).2 = t) ∧
    (∀ t s, (loadSpikeSamples rate (.inSeconds t (some s))).1 = s) ∧
    (∀ t, (loadSpikeSamples rate (.inSeconds t none)).1 = t.map fun x => roundHalfEven (x * rate)) := by
  refine ⟨fun _ => rfl, ?_, fun _ _ => rfl, fun _ => rfl⟩
  intro t s; cases s <;> rfl


/-! ### the id tables (uint16) -/

/-- every name the conversion can put into an output directory that was empty (before labelling) -/
def computedNames : List Name :=
  [["clusters", "channels", "npy"], ["clusters", "peakToTrough", "npy"], ["clusters", "amps", "npy"],
   ["clusters", "uuids", "csv"], ["channels", "rawInd", "npy"], ["spikes", "times", "npy"],
   ["spikes", "samples", "npy"], ["spikes", "amps", "npy"], ["templates", "amps", "npy"],
   ["templates", "waveforms", "npy"], ["templates", "waveformsChannels", "npy"],
   ["clusters", "waveforms", "npy"], ["clusters", "waveformsChannels", "npy"],
   ["spikes", "depths", "npy"], ["clusters", "depths", "npy"]]

/-- every name the conversion can put into an output directory that was empty (before labelling) -/
def allNames : List Name := computedNames ++ fileRenames.map (·.2.1)

theorem keysIn_mono {S S' : List Name} {d : FDir} (h : ∀ x ∈ d, x.1 ∈ S) (hs : ∀ n ∈ S, n ∈ S') : ∀ x ∈ d, x.1 ∈ S' :=
  fun x hx => hs _ (h x hx)

def KeysIn (S : List Name) (d : FDir) : Prop := ∀ x ∈ d, x.1 ∈ S

theorem keysIn_write {S : List Name} {d : FDir} (n : Name) (e : Entry) (h : KeysIn S d) (hn : n ∈ S) :
    KeysIn S (d.write n e) := by
  intro x hx
  rcases mem_write.mp hx with ⟨h1, _⟩ | h1
  · exact h x h1
  · subst h1; exact hn

theorem keysIn_out3 (v : View) (gen : Nat → String) (src : FDir) :
    KeysIn computedNames (out3 v gen ⟨src, []⟩) := by
  have h0 : KeysIn computedNames [] := fun x hx => by cases hx
  unfold out3 makeTemplateAndSpikesObjects makeChannelObjects makeClusterObjects
  simp only []
  repeat (first | apply keysIn_write _ _ _ (by decide) | exact h0 | split)

theorem keysIn_makeDepths (v : View) (out out' : FDir) (h : KeysIn computedNames out)
    (hd : makeDepths v out = some out') : KeysIn computedNames out' := by
  unfold makeDepths at hd
  cases hc : out.lookup ["clusters", "channels", "npy"] with
  | none => simp [hc] at hd
  | some cc =>
    simp only [hc, Option.some.injEq] at hd
    subst hd
    exact keysIn_write _ _ (keysIn_write _ _ h (by decide)) (by decide)

theorem keysIn_copyOne (force : Bool) (src out : FDir) (r : Name × Name × Bool) (hr : r ∈ fileRenames)
    (h : KeysIn allNames out) : KeysIn allNames (copyOne force src out r) := by
  have hn : r.2.1 ∈ allNames := by
    unfold allNames
    exact List.mem_append_right _ (List.mem_map.mpr ⟨r, hr, rfl⟩)
  unfold copyOne
  cases src.lookup r.1 with
  | none => exact h
  | some e =>
    simp only []
    have h1 : KeysIn allNames (if (out.has r.2.1 && !force) = true then out else out.write r.2.1 e) := by
      split
      · exact h
      · exact keysIn_write _ _ h hn
    split
    · exact keysIn_write _ _ h1 hn
    · exact h1

theorem keysIn_foldl_copy (force : Bool) (src : FDir) :
    ∀ (l : List (Name × Name × Bool)) (out : FDir), (∀ r ∈ l, r ∈ fileRenames) → KeysIn allNames out →
      KeysIn allNames (l.foldl (copyOne force src) out) := by
  intro l
  induction l with
  | nil => intro out _ h; exact h
  | cons r l ih =>
    intro out hl h
    rw [List.foldl_cons]
    exact ih _ (fun r' hr' => hl r' (List.mem_cons_of_mem _ hr')) (keysIn_copyOne force src out r (hl r List.mem_cons_self) h)

theorem labelled_head (label a : String) (rest : List String) :
    ∃ rest', labelled' label (a :: rest) = a :: rest' := by
  unfold labelled'
  split
  · exact ⟨rest, rfl⟩
  · cases h : isObj (a :: rest)
    · rw [relabel_of_not_obj _ _ h]; exact ⟨rest, rfl⟩
    · obtain ⟨a', b, r, hab⟩ := isObj_cons2 h
      simp only [List.cons.injEq] at hab
      obtain ⟨rfl, rfl⟩ := hab
      obtain ⟨mid, hm, _⟩ := withLabel_cons2 label a b r
      exact ⟨mid, by simp [relabel, h, hm]⟩

theorem not_matches_head (attr label a : String) (rest : List String) (ha : a ≠ "spikes") :
    matchesSpikes attr (labelled' label (a :: rest)) = false := by
  obtain ⟨rest', h⟩ := labelled_head label a rest
  rw [h]
  unfold matchesSpikes
  split
  · rename_i heq; simp only [List.cons.injEq] at heq; exact absurd heq.1 ha
  · rfl

theorem only_match (attr : String) (hattr : attr = "clusters" ∨ attr = "templates") (label : String) :
    ∀ k ∈ allNames, matchesSpikes attr (labelled' label k) = true → k = ["spikes", attr, "npy"] := by
  intro k hk
  simp only [allNames, computedNames, fileRenames, List.map_cons, List.map_nil, List.cons_append, List.nil_append,
    List.mem_cons, List.not_mem_nil, or_false] at hk
  rcases hattr with rfl | rfl <;>
  rcases hk with h | h | h | h | h | h | h | h | h | h | h | h | h | h | h | h | h | h | h | h | h | h | h | h | h | h | h | h | h | h | h <;>
    subst h <;> intro hm <;>
    first
    | rfl
    | (rw [not_matches_head _ _ _ _ (by decide)] at hm; cases hm)
    | (rw [not_matches_of_second _ _ _ _ _ (by decide) (by decide)] at hm; cases hm)

theorem lookup_mapFirst_unique (p : Name → Bool) (g : Entry → Entry) (k0 : Name) (hk0 : p k0 = true) :
    ∀ (d d' : FDir), (∀ x ∈ d, p x.1 = true → x.1 = k0) → mapFirst p g d = some d' →
      d'.lookup k0 = (d.lookup k0).map g := by
  intro d
  induction d with
  | nil => intro d' _ h; simp [mapFirst] at h
  | cons y rest ih =>
    intro d' hu h
    unfold mapFirst at h
    split at h
    · rename_i hp
      simp only [Option.some.injEq] at h
      subst h
      have hy : y.1 = k0 := hu y List.mem_cons_self hp
      simp [FDir.lookup, hy]
    · rename_i hp
      cases hr : mapFirst p g rest with
      | none => simp [hr] at h
      | some r =>
        simp only [hr, Option.map_some, Option.some.injEq] at h
        subst h
        have hyk : (y.1 == k0) = false := by
          simp only [beq_eq_false_iff_ne, ne_eq]; intro hyk; rw [hyk] at hp; exact hp hk0
        have := ih r (fun x hx => hu x (List.mem_cons_of_mem _ hx)) hr
        simp only [FDir.lookup, List.find?_cons, hyk] at this ⊢
        exact this

theorem u16_rows_id (rows : List Row) (h : ∀ r ∈ rows, ∃ z, r = Row.z z ∧ 0 ≤ z ∧ z < 65536) :
    rows.map wrap16 = rows := by
  induction rows with
  | nil => rfl
  | cons r rows ih =>
    obtain ⟨z, rfl, h0, h1⟩ := h r List.mem_cons_self
    rw [List.map_cons, ih (fun r' hr' => h r' (List.mem_cons_of_mem _ hr'))]
    simp only [wrap16, List.cons.injEq, Row.z.injEq, and_true]
    omega

/-- the copy of one source file into an output directory that does not hold its target yet -/
theorem lookup_copy_target (force : Bool) (src out : FDir) (pre post : List (Name × Name × Bool))
    (r : Name × Name × Bool) (hsplit : fileRenames = pre ++ r :: post)
    (hpre : ∀ r' ∈ pre, r.2.1 ≠ r'.2.1) (hpost : ∀ r' ∈ post, r.2.1 ≠ r'.2.1)
    (hno : out.has r.2.1 = false) (e : Entry) (he : src.lookup r.1 = some e) :
    ∃ e', (copyFiles force src out).lookup r.2.1 = some e' ∧ e'.rows = e.rows := by
  unfold copyFiles
  rw [hsplit, List.foldl_append, List.foldl_cons, lookup_foldl_copy_ne _ _ _ post _ hpost]
  have hno' : (List.foldl (copyOne force src) out pre).has r.2.1 = false := by
    rw [← lookup_isSome, lookup_foldl_copy_ne _ _ _ pre _ hpre, lookup_isSome]; exact hno
  generalize List.foldl (copyOne force src) out pre = o1 at hno'
  unfold copyOne
  simp only [he, hno', Bool.false_and, Bool.false_eq_true, ↓reduceIte]
  split
  · exact ⟨_, lookup_write_self _ _ _, rfl⟩
  · exact ⟨_, lookup_write_self _ _ _, rfl⟩

theorem has_out4_empty (v : View) (gen : Nat → String) (src out4 : FDir)
    (h4 : makeDepths v (out3 v gen ⟨src, []⟩) = some out4) (k : Name) (hk : k ∉ computedNames) :
    out4.has k = false := by
  cases hh : out4.has k
  · rfl
  · obtain ⟨e, he⟩ := has_eq_true.mp hh
    exact absurd (keysIn_makeDepths v _ out4 (keysIn_out3 v gen src) h4 _ he) hk

theorem keysIn_rename (label : String) (d : FDir) (h : KeysIn allNames d) :
    ∀ x ∈ renameWithLabel label d, ∃ k ∈ allNames, x.1 = labelled' label k := by
  intro x hx
  unfold renameWithLabel at hx
  unfold labelled'
  split at hx
  · rename_i hl; exact ⟨x.1, h x hx, by simp [hl]⟩
  · rename_i hl
    obtain ⟨x0, hx0, rfl⟩ := List.mem_map.mp hx
    exact ⟨x0.1, h x0 hx0, by simp [hl]⟩

/-- the exported id tables: for a conversion into an EMPTY output directory, the `spikes.clusters` /
`spikes.templates` file holds the rows of the source file when every id is below 65536 -/
theorem export_ids (cfg : Cfg) (v : View) (gen : Nat → String) (src : FDir) (h : Convertible cfg ⟨src, []⟩)
    (attr : String) (srcName : Name)
    (hattr : (attr = "clusters" ∧ srcName = ["spike_clusters", "npy"]) ∨
             (attr = "templates" ∧ srcName = ["spike_templates", "npy"]))
    (e : Entry) (he : src.lookup srcName = some e)
    (hrows : ∀ r ∈ e.rows, ∃ z, r = Row.z z ∧ 0 ≤ z ∧ z < 65536) :
    ∃ e', (convertFS cfg v gen ⟨src, []⟩).fs.out.lookup (labelled' cfg.label ["spikes", attr, "npy"]) = some e' ∧
      e'.rows = e.rows := by
  obtain ⟨out4, o, h4, hcomp, _, hres⟩ := convertFS_ok cfg v gen ⟨src, []⟩ h
  rw [hres]
  simp only []
  -- keys of the directory the globs run on
  have hk4 : KeysIn allNames out4 :=
    keysIn_mono (keysIn_makeDepths v _ out4 (keysIn_out3 v gen src) h4) (fun n hn => List.mem_append_left _ hn)
  have hk5 := keysIn_rename cfg.label _
    (keysIn_foldl_copy cfg.force (src' cfg ⟨src, []⟩) fileRenames out4 (fun _ hr => hr) hk4)
  have hU : ∀ (a : String), (a = "clusters" ∨ a = "templates") →
      ∀ x ∈ renameWithLabel cfg.label (copyFiles cfg.force (src' cfg ⟨src, []⟩) out4),
        matchesSpikes a x.1 = true → x.1 = labelled' cfg.label ["spikes", a, "npy"] := by
    intro a ha x hx hm
    obtain ⟨k, hk, hxk⟩ := hk5 x hx
    rw [hxk] at hm ⊢
    rw [only_match a ha cfg.label k hk hm]
  -- the copied file before the globs
  have hsrc : (src' cfg ⟨src, []⟩).lookup srcName = some e := by
    rw [lookup_src' cfg ⟨src, []⟩ srcName (by rcases hattr with ⟨_, rfl⟩ | ⟨_, rfl⟩ <;> decide)
      (by rcases hattr with ⟨_, rfl⟩ | ⟨_, rfl⟩ <;> decide)]
    exact he
  have hcopy : ∃ e1, (renameWithLabel cfg.label (copyFiles cfg.force (src' cfg ⟨src, []⟩) out4)).lookup
      (labelled' cfg.label ["spikes", attr, "npy"]) = some e1 ∧ e1.rows = e.rows := by
    rw [lookup_rename]
    rcases hattr with ⟨rfl, rfl⟩ | ⟨rfl, rfl⟩
    · exact lookup_copy_target cfg.force _ out4 (fileRenames.take 2) (fileRenames.drop 3)
        (["spike_clusters", "npy"], ["spikes", "clusters", "npy"], true) rfl (by decide) (by decide)
        (has_out4_empty v gen src out4 h4 _ (by decide)) e hsrc
    · exact lookup_copy_target cfg.force _ out4 (fileRenames.take 3) (fileRenames.drop 4)
        (["spike_templates", "npy"], ["spikes", "templates", "npy"], true) rfl (by decide) (by decide)
        (has_out4_empty v gen src out4 h4 _ (by decide)) e hsrc
  obtain ⟨e1, he1, he1rows⟩ := hcopy
  have hr1 : (u16 e1).rows = e.rows := by
    simp only [u16, he1rows]; exact u16_rows_id _ hrows
  -- the two globs
  unfold compressSpikesDtypes at hcomp
  cases hd1 : mapFirst (matchesSpikes "templates") u16
      (renameWithLabel cfg.label (copyFiles cfg.force (src' cfg ⟨src, []⟩) out4)) with
  | none => simp [hd1] at hcomp
  | some d1 =>
    simp only [hd1, Option.bind_some] at hcomp
    have hU1 : ∀ x ∈ d1, matchesSpikes "clusters" x.1 = true → x.1 = labelled' cfg.label ["spikes", "clusters", "npy"] := by
      intro x hx hm
      obtain ⟨x0, hx0, h1, _⟩ := mapFirst_mem _ _ _ _ hd1 x hx
      rw [h1] at hm ⊢
      exact hU "clusters" (Or.inl rfl) x0 hx0 hm
    rcases hattr with ⟨rfl, _⟩ | ⟨rfl, _⟩
    · rw [lookup_mapFirst_unique _ u16 _ (matches_clusters cfg.label) _ _ hU1 hcomp,
        lookup_mapFirst_ne _ _ _ (not_matches_of_second _ _ _ _ _ (by decide) (by decide)) _ _ hd1, he1]
      exact ⟨u16 e1, rfl, hr1⟩
    · rw [lookup_mapFirst_ne _ _ _ (not_matches_of_second _ _ _ _ _ (by decide) (by decide)) _ _ hcomp,
        lookup_mapFirst_unique _ u16 _ (matches_templates cfg.label) _ _ (hU "templates" (Or.inr rfl)) hd1, he1]
      exact ⟨u16 e1, rfl, hr1⟩

end PhyVerif.C13.Lemmas
