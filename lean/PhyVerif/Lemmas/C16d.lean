import PhyVerif.Model.C16d
import PhyVerif.Lemmas.C16c
import PhyVerif.Lemmas.Fl
/-! Proofs for the chunk length computed by the float unit (`Model/C16d.lean`).  Statements: `Props/C16.lean`. -/
namespace PhyVerif.C16.Lemmas
open PhyVerif.C16 PhyVerif.Fl PhyVerif.Fl.Lemmas

theorem pyRound_pos_iff (x : ℚ) : 0 < pyRound x ↔ 1 / 2 < x := by
  obtain ⟨b1, b2⟩ := pyRound_bounds x
  constructor
  · intro hpos
    have h1 : ((1 : Int) : ℚ) ≤ (pyRound x : ℚ) := by exact_mod_cast hpos
    push_cast at h1
    rcases lt_or_eq_of_le (show (1 : ℚ) / 2 ≤ x by linarith) with h | h
    · exact h
    · exfalso
      obtain ⟨he, hk⟩ := pyRound_tie x 0 (by rw [← h]; norm_num)
      omega
  · intro h
    have : ((0 : Int) : ℚ) < (pyRound x : ℚ) := by push_cast; linarith
    exact_mod_cast this

theorem pyRound_close_Fl (x : ℚ) :
    x - 1 / 2 - pow2 (-53) * absR x ≤ (pyRound (roundDouble x) : ℚ) ∧
    (pyRound (roundDouble x) : ℚ) ≤ x + 1 / 2 + pow2 (-53) * absR x := by
  obtain ⟨b1, b2⟩ := pyRound_bounds (roundDouble x)
  have h := roundDouble_rel x
  rw [absR_eq, abs_le] at h
  constructor <;> linarith [h.1, h.2]

theorem pyRound_close_Fl_ulp (x : ℚ) (hx : x ≠ 0) :
    x - 1 / 2 - pow2 (ulpExp x - 1) ≤ (pyRound (roundDouble x) : ℚ) ∧
    (pyRound (roundDouble x) : ℚ) ≤ x + 1 / 2 + pow2 (ulpExp x - 1) := by
  obtain ⟨b1, b2⟩ := pyRound_bounds (roundDouble x)
  have h := roundDouble_half_ulp x hx
  rw [absR_eq, abs_le] at h
  constructor <;> linarith [h.1, h.2]

theorem pyRound_Fl_unique (x : ℚ) (m : Int) (h1 : x - 1 / 2 + pow2 (-53) * absR x < m)
    (h2 : (m : ℚ) < x + 1 / 2 - pow2 (-53) * absR x) : pyRound (roundDouble x) = m := by
  have h := roundDouble_rel x
  rw [absR_eq (roundDouble x - x), abs_le] at h
  apply pyRound_unique <;> linarith [h.1, h.2]

/-- `|chunkSizeFl rate - 600·rate| ≤ 1/2 + half an ulp of the product` -/
theorem chunkSizeFl_close (rate : ℚ) (hr : rate ≠ 0) :
    600 * rate - 1 / 2 - pow2 (ulpExp (600 * rate) - 1) ≤ (chunkSizeFl rate : ℚ) ∧
    (chunkSizeFl rate : ℚ) ≤ 600 * rate + 1 / 2 + pow2 (ulpExp (600 * rate) - 1) :=
  pyRound_close_Fl_ulp (600 * rate) (by intro h; apply hr; linarith)

/-- the same in relative form, for every rate: half an ulp is at most `2^-53 · |600·rate|` -/
theorem chunkSizeFl_close_rel (rate : ℚ) :
    600 * rate - 1 / 2 - pow2 (-53) * absR (600 * rate) ≤ (chunkSizeFl rate : ℚ) ∧
    (chunkSizeFl rate : ℚ) ≤ 600 * rate + 1 / 2 + pow2 (-53) * absR (600 * rate) :=
  pyRound_close_Fl (600 * rate)

/-- when the product is a double nothing is rounded: the exact-rational model is the code -/
theorem chunkSizeFl_eq_chunkSize (rate : ℚ) (h : IsDouble (600 * rate)) : chunkSizeFl rate = chunkSize rate := by
  unfold chunkSizeFl chunkSize defaultChunkDuration
  rw [roundDouble_of_isDouble _ h]

/-- an integer closer than `1/2 - 2^-53·|600·rate|` to the exact product is the chunk length -/
theorem chunkSizeFl_unique (rate : ℚ) (m : Int)
    (h1 : 600 * rate - 1 / 2 + pow2 (-53) * absR (600 * rate) < m)
    (h2 : (m : ℚ) < 600 * rate + 1 / 2 - pow2 (-53) * absR (600 * rate)) : chunkSizeFl rate = m :=
  pyRound_Fl_unique (600 * rate) m h1 h2

/-- … in particular the two models agree away from the ties -/
theorem chunkSizeFl_eq_of_far (rate : ℚ) (m : Int)
    (h1 : 600 * rate - 1 / 2 + pow2 (-53) * absR (600 * rate) < m)
    (h2 : (m : ℚ) < 600 * rate + 1 / 2 - pow2 (-53) * absR (600 * rate)) : chunkSizeFl rate = chunkSize rate := by
  have hp : 0 ≤ pow2 (-53) * absR (600 * rate) := by
    rw [absR_eq]; exact mul_nonneg (le_of_lt (pow2_pos _)) (abs_nonneg _)
  rw [chunkSizeFl_unique rate m h1 h2, chunkSize_unique rate m (by linarith) (by linarith)]

theorem mtsChunkSizeFl_eq (cd rate : ℚ) (h : IsDouble (cd * rate)) : mtsChunkSizeFl cd rate = mtsChunkSize cd rate := by
  unfold mtsChunkSizeFl mtsChunkSize
  rw [roundDouble_of_isDouble _ h]

theorem mtsChunkSizeFl_close (cd rate : ℚ) :
    cd * rate - 1 / 2 - pow2 (-53) * absR (cd * rate) ≤ (mtsChunkSizeFl cd rate : ℚ) ∧
    (mtsChunkSizeFl cd rate : ℚ) ≤ cd * rate + 1 / 2 + pow2 (-53) * absR (cd * rate) :=
  pyRound_close_Fl (cd * rate)

/-- the constructors' `assert chunk_size > 0` passes iff the rounded product exceeds 1/2 … -/
theorem chunkSizeFl_pos_iff (rate : ℚ) : 0 < chunkSizeFl rate ↔ 1 / 2 < roundDouble (600 * rate) :=
  pyRound_pos_iff _

theorem roundDouble_tie_half : roundDouble (1 / 2 + 1 / 18014398509481984) = 1 / 2 := by decide +kernel

theorem roundDouble_above_half : roundDouble (1 / 2 + 1 / 9007199254740992) = 1 / 2 + 1 / 9007199254740992 := by
  decide +kernel

/-- … i.e. iff the exact product exceeds `1/2 + 2^-54` (the double after 1/2 is `1/2 + 2^-53`; the mid-point
rounds to the even neighbour 1/2, then `round(0.5) = 0`) -/
theorem chunkSizeFl_pos_iff_rate (rate : ℚ) :
    0 < chunkSizeFl rate ↔ 1 / 2 + 1 / 18014398509481984 < 600 * rate := by
  rw [chunkSizeFl_pos_iff]
  constructor
  · intro h
    by_contra hc
    have := roundDouble_mono _ _ (not_lt.1 hc)
    rw [roundDouble_tie_half] at this
    linarith
  · intro h
    -- the product is above the mid-point, so it rounds to a double other than 1/2 that is ≥ 1/2
    have h1 : (1 : ℚ) / 2 ≤ roundDouble (600 * rate) := by
      have := roundDouble_mono (1 / 2) (600 * rate) (by linarith)
      rwa [roundDouble_of_isDouble _ ⟨1, -1, by norm_num, by simp [pow2_eq]⟩] at this
    rcases lt_or_eq_of_le h1 with h2 | h2
    · exact h2
    · exfalso
      -- 1/2 + 2^-53 is a double strictly closer to the product than 1/2
      have hd : IsDouble (1 / 2 + 1 / 9007199254740992 : ℚ) := by
        rw [← roundDouble_above_half]; exact roundDouble_isDouble _
      have := roundDouble_nearest (600 * rate) _ hd
      rw [← h2, absR_eq, absR_eq] at this
      rw [abs_of_neg (by linarith : (1 : ℚ) / 2 - 600 * rate < 0)] at this
      rcases abs_cases ((1 : ℚ) / 2 + 1 / 9007199254740992 - 600 * rate) with ⟨ha, _⟩ | ⟨ha, _⟩ <;>
        rw [ha] at this <;> linarith

theorem readerChunkBoundsFl_ok (sizes : List Nat) (rate : ℚ) (hne : sizes ≠ []) (hr : 0 < chunkSizeFl rate) :
    ∃ cb, readerChunkBoundsFl sizes rate = some cb ∧
      boundsOK sizes (chunkSizeFl rate).toNat cb = true := by
  refine ⟨getChunkBounds sizes (chunkSizeFl rate).toNat, ?_, getChunkBounds_ok sizes _ (by omega) hne⟩
  unfold readerChunkBoundsFl
  simp only []
  rw [if_neg (by omega)]

theorem readerChunkBoundsFl_none (sizes : List Nat) (rate : ℚ) (hr : chunkSizeFl rate ≤ 0) :
    readerChunkBoundsFl sizes rate = none := by
  unfold readerChunkBoundsFl
  simp only []
  rw [if_pos hr]

theorem readerChunkBoundsFl_eq (sizes : List Nat) (rate : ℚ) (h : IsDouble (600 * rate)) :
    readerChunkBoundsFl sizes rate = readerChunkBounds sizes rate := by
  unfold readerChunkBoundsFl readerChunkBounds
  rw [chunkSizeFl_eq_chunkSize rate h]

end PhyVerif.C16.Lemmas
