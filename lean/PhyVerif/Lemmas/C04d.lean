import PhyVerif.Model.C04c
import PhyVerif.Spec.C04
/-! `np.round` (half to even) over the rationals: specification, uniqueness, recovery of samples. -/
namespace PhyVerif.C04.Lemmas
open PhyVerif PhyVerif.C04

theorem roundHalfEven_spec (q : Rat) : IsRoundHalfEven q (roundHalfEven q) := by
  have h1 := Rat.floor_le q
  have h2 := Rat.lt_floor_add_one q
  rw [Rat.intCast_add] at h2
  unfold IsRoundHalfEven roundHalfEven
  simp only
  split
  · next h => 
    refine ⟨⟨by grind, by grind⟩, ?_⟩
    intro h'; exfalso; grind
  · next h =>
    split
    · next h3 =>
      rw [Rat.intCast_add]
      refine ⟨⟨by grind, by grind⟩, ?_⟩
      intro h'; exfalso; grind
    · next h3 =>
      split
      · next h4 => exact ⟨⟨by grind, by grind⟩, fun _ => h4⟩
      · next h4 =>
        rw [Rat.intCast_add]
        exact ⟨⟨by grind, by grind⟩, fun _ => by omega⟩


theorem isRoundHalfEven_unique (q : Rat) (z w : Int) (hz : IsRoundHalfEven q z) (hw : IsRoundHalfEven q w) :
    z = w := by
  obtain ⟨⟨z1, z2⟩, z3⟩ := hz
  obtain ⟨⟨w1, w2⟩, w3⟩ := hw
  have a1 : (z : Rat) ≤ ((w + 1 : Int) : Rat) := by rw [Rat.intCast_add]; grind
  have a2 : (w : Rat) ≤ ((z + 1 : Int) : Rat) := by rw [Rat.intCast_add]; grind
  rw [Rat.intCast_le_intCast] at a1 a2
  rcases (by omega : z = w ∨ z = w + 1 ∨ w = z + 1) with h | h | h
  · exact h
  · exfalso
    have e : (z : Rat) = (w : Rat) + 1 := by rw [h, Rat.intCast_add]; rfl
    have hz' := z3 (.inr (by grind))
    have hw' := w3 (.inl (by grind))
    omega
  · exfalso
    have e : (w : Rat) = (z : Rat) + 1 := by rw [h, Rat.intCast_add]; rfl
    have hz' := z3 (.inl (by grind))
    have hw' := w3 (.inr (by grind))
    omega

theorem roundHalfEven_unique (q : Rat) (z : Int) (hz : IsRoundHalfEven q z) : roundHalfEven q = z :=
  isRoundHalfEven_unique q _ _ (roundHalfEven_spec q) hz

/-- an integer rounds to itself -/
theorem roundHalfEven_intCast (z : Int) : roundHalfEven (z : Rat) = z := by
  apply roundHalfEven_unique
  refine ⟨⟨by grind, by grind⟩, ?_⟩
  intro h; exfalso; grind

/-- samples are recovered from the seconds `s / rate` by rounding -/
theorem samples_recovered (rate : Rat) (hr : 0 < rate) (s : Int) :
    roundHalfEven ((s : Rat) / rate * rate) = s := by
  rw [Rat.div_mul_cancel (by grind)]
  exact roundHalfEven_intCast s

end PhyVerif.C04.Lemmas

