import PhyVerif.Lemmas.C18c
import PhyVerif.Lemmas.C18n
/-! Whole table files written then read (C18): `write_tsv`/`read_tsv`, `_write_tsv_simple`/`_read_tsv_simple`. -/
namespace PhyVerif.C18.Lemmas
open PhyVerif PhyVerif.C18

/-! ### cell level, with an expected read-back value per cell -/

theorem lookup_map_snd {γ δ : Type} (g : γ → δ) (f : String) :
    ∀ (r : List (String × γ)), (r.map fun fc => (fc.1, g fc.2)).lookup f = (r.lookup f).map g
  | [] => rfl
  | (k, v) :: t => by
    simp only [List.map_cons, List.lookup_cons]
    cases f == k
    · exact lookup_map_snd g f t
    · rfl

theorem line_roundtrip_obs {γ δ : Type} (D : γ → Prop) (render : γ → String) (parse : String → δ) (obs : γ → δ)
    (hrt : ∀ c, D c → parse (render c) = obs c) (hne : ∀ c, D c → render c ≠ "")
    (r : List (String × γ)) (hD : ∀ fc ∈ r, D fc.2) (fields : List String) :
    (((fields.zip (fields.map fun f => renderOpt render (r.lookup f))).filter
        fun p => p.2 != "").map fun p => (p.1, parse p.2)) =
      fields.filterMap fun f => ((r.map fun fc => (fc.1, obs fc.2)).lookup f).map fun c => (f, c) := by
  induction fields with
  | nil => simp
  | cons f fs ih =>
    simp only [List.map_cons, List.zip_cons_cons, List.filterMap_cons, lookup_map_snd]
    cases hl : r.lookup f with
    | none => simpa [List.filter_cons, renderOpt, lookup_map_snd] using ih
    | some c =>
      have hc : D c := hD (f, c) (mem_of_lookup_eq_some hl)
      simpa [List.filter_cons, renderOpt, hne c hc, hrt c hc, lookup_map_snd] using ih

theorem tsv_roundtrip_obs {γ δ : Type} (D : γ → Prop) (render : γ → String) (parse : String → δ) (obs : γ → δ)
    (hrt : ∀ c, D c → parse (render c) = obs c) (hne : ∀ c, D c → render c ≠ "")
    (rows : List (List (String × γ))) (first : Option String) (hD : ∀ r ∈ rows, ∀ fc ∈ r, D fc.2)
    (file : List String × List (List String)) (hw : writeTsv render rows first = some file) :
    readTsv parse file = expectedRows file.1 (obsRows obs rows) := by
  rw [writeTsv_eq] at hw
  split at hw
  · exact absurd hw (by simp)
  · have hfile := (Option.some.inj hw).symm
    subst hfile
    simp only [readTsv, expectedRows, obsRows, List.map_map]
    apply List.map_congr_left
    intro r hr
    exact line_roundtrip_obs D render parse obs hrt hne r (hD r hr) (header rows first)

/-! ### file level -/

theorem delim_props (isTsv : Bool) :
    delimOf isTsv ≠ '"' ∧ delimOf isTsv ≠ '\r' ∧ delimOf isTsv ≠ '\n' := by
  cases isTsv <;> exact ⟨by decide, by decide, by decide⟩

theorem map_ofList_toList (l : List String) : (l.map String.toList).map String.ofList = l := by
  simp [List.map_map, Function.comp_def, String.ofList_toList]

theorem two_of_distinct {α : Type} {a b : α} : ∀ {l : List α}, a ≠ b → a ∈ l → b ∈ l → ∃ x y t, l = x :: y :: t
  | [], _, h, _ => by simp at h
  | [x], hab, ha, hb => by
    simp only [List.mem_singleton] at ha hb
    exact absurd (ha.trans hb.symm) hab
  | x :: y :: t, _, _, _ => ⟨x, y, t, rfl⟩

theorem mem_fieldsOf_of_mem_header {γ : Type} (rows : List (List (String × γ))) (first : Option String)
    (f : String) (h : f ∈ header rows first) : f ∈ fieldsOf rows := by
  rw [(header_perm rows first).mem_iff, List.mem_eraseDups] at h
  exact h

theorem mem_header_of_mem_fieldsOf {γ : Type} (rows : List (List (String × γ))) (first : Option String)
    (f : String) (h : f ∈ fieldsOf rows) : f ∈ header rows first := by
  rw [(header_perm rows first).mem_iff, List.mem_eraseDups]
  exact h

theorem mem_fieldsOf {γ : Type} {rows : List (List (String × γ))} {f : String} (h : f ∈ fieldsOf rows) :
    ∃ r ∈ rows, ∃ fc ∈ r, fc.1 = f := by
  unfold fieldsOf at h
  obtain ⟨r, hr, hf⟩ := List.mem_flatMap.mp h
  obtain ⟨fc, hfc, rfl⟩ := List.mem_map.mp hf
  exact ⟨r, hr, fc, hfc, rfl⟩

/-- the delimiter `read_tsv` finds by looking for a tab in the first line -/
theorem sniff_written (isTsv : Bool) (hdr : List Str) (rest : List Str)
    (htsv : isTsv = true → ∃ x y t, hdr = x :: y :: t)
    (hcsv : isTsv = false → ∀ f ∈ hdr, '\t' ∉ f) :
    sniff (csvRow (delimOf isTsv) hdr :: rest) = delimOf isTsv := by
  unfold sniff
  cases isTsv with
  | true =>
    obtain ⟨x, y, t, rfl⟩ := htsv rfl
    have hne : (x :: y :: t) ≠ [[]] := by simp
    have : '\t' ∈ csvRow (delimOf true) (x :: y :: t) := by
      unfold csvRow; rw [if_neg hne]; exact delim_mem_joinFields '\t' x y t
    show (if (csvRow (delimOf true) (x :: y :: t)).contains '\t' = true then '\t' else ',') = delimOf true
    rw [if_pos (List.contains_iff_mem.mpr this)]; rfl
  | false =>
    have : '\t' ∉ csvRow (delimOf false) hdr := by
      intro h
      rcases mem_csvRow h with ⟨f, hf, hc⟩ | h | h
      · exact hcsv rfl f hf hc
      · exact absurd h (by decide)
      · exact absurd h (by decide)
    have hc : (csvRow (delimOf false) hdr).contains '\t' = false := by
      cases hcc : (csvRow (delimOf false) hdr).contains '\t' with
      | false => rfl
      | true => exact absurd (List.contains_iff_mem.mp hcc) this
    show (if (csvRow (delimOf false) hdr).contains '\t' = true then '\t' else ',') = delimOf false
    rw [hc]; rfl

/-- records (first one = header) written by the csv writer and read back by sniffing + csv reader -/
theorem records_roundtrip (isTsv : Bool) (hdr : List Str) (body : List (List Str))
    (hnb : ∀ r ∈ hdr :: body, ∀ f ∈ r, NoBreak f)
    (htsv : isTsv = true → ∃ x y t, hdr = x :: y :: t)
    (hcsv : isTsv = false → ∀ f ∈ hdr, '\t' ∉ f) :
    (fileLines (csvWrite (delimOf isTsv) (hdr :: body))).map
        (csvParseLine (sniff (fileLines (csvWrite (delimOf isTsv) (hdr :: body))))) = hdr :: body := by
  obtain ⟨hq, hr, hn⟩ := delim_props isTsv
  have hl : fileLines (csvWrite (delimOf isTsv) (hdr :: body)) = (hdr :: body).map (csvRow (delimOf isTsv)) := by
    unfold csvWrite
    have : ((hdr :: body).flatMap fun r => csvRow (delimOf isTsv) r ++ ['\r', '\n']) =
        (((hdr :: body).map (csvRow (delimOf isTsv))).flatMap fun l => l ++ ['\r', '\n']) := by
      simp [List.flatMap_map]
    rw [this, fileLines_roundtrip _ (by
      intro l hl
      obtain ⟨r, hr', rfl⟩ := List.mem_map.mp hl
      exact noBreak_csvRow _ ⟨hr, hn⟩ r (hnb r hr'))]
  rw [hl, List.map_cons, sniff_written isTsv hdr _ htsv hcsv, ← List.map_cons, List.map_map]
  conv => rhs; rw [← List.map_id (hdr :: body)]
  apply List.map_congr_left
  intro r _
  exact csv_line_roundtrip _ hq r

theorem noBreak_nil : NoBreak ([] : Str) := by intro c hc; simp at hc

/-- `write_tsv` then `read_tsv`, on the text of the file, for any renderer/parser pair -/
theorem table_file_roundtrip {γ δ : Type} (isTsv : Bool) (D : γ → Prop) (render : γ → String)
    (parse : String → δ) (obs : γ → δ)
    (hrt : ∀ c, D c → parse (render c) = obs c) (hne : ∀ c, D c → render c ≠ "")
    (hnb : ∀ c, D c → NoBreak (render c).toList)
    (rows : List (List (String × γ))) (first : Option String) (hD : ∀ r ∈ rows, ∀ fc ∈ r, D fc.2)
    (hnames : ∀ f ∈ fieldsOf rows, NoBreak f.toList)
    (htsv : isTsv = true → TwoColumns rows)
    (hcsv : isTsv = false → ∀ f ∈ fieldsOf rows, '\t' ∉ f.toList)
    (text : Str) (hw : writeTsvFile isTsv render rows first = some text) :
    ∃ file, writeTsv render rows first = some file ∧
      readTsvFile parse text = some (expectedRows file.1 (obsRows obs rows)) := by
  unfold writeTsvFile at hw
  cases hfile : writeTsv render rows first with
  | none => rw [hfile] at hw; simp at hw
  | some file =>
    rw [hfile] at hw
    have htext : text = csvWrite (delimOf isTsv) ((file.1 :: file.2).map fun r => r.map String.toList) :=
      (Option.some.inj hw).symm
    refine ⟨file, rfl, ?_⟩
    have hspec := tsv_roundtrip_obs D render parse obs hrt hne rows first hD file hfile
    -- the shape of the written file
    have hfile' := hfile
    rw [writeTsv_eq] at hfile'
    split at hfile'
    · exact absurd hfile' (by simp)
    have hf := (Option.some.inj hfile').symm
    have hf1 : file.1 = header rows first := by rw [hf]
    have hf2 : file.2 = rows.map fun r => (header rows first).map fun f => renderOpt render (r.lookup f) := by
      rw [hf]
    -- no line break anywhere
    have hnb' : ∀ r ∈ (file.1.map String.toList) :: file.2.map (fun r => r.map String.toList), ∀ f ∈ r, NoBreak f := by
      intro r hr f hfr
      rcases List.mem_cons.mp hr with rfl | hr
      · obtain ⟨name, hname, rfl⟩ := List.mem_map.mp hfr
        rw [hf1] at hname
        exact hnames name (mem_fieldsOf_of_mem_header rows first name hname)
      · obtain ⟨line, hline, rfl⟩ := List.mem_map.mp hr
        obtain ⟨cell, hcell, rfl⟩ := List.mem_map.mp hfr
        rw [hf2] at hline
        obtain ⟨row, hrow, rfl⟩ := List.mem_map.mp hline
        obtain ⟨name, _, rfl⟩ := List.mem_map.mp hcell
        cases hl : row.lookup name with
        | none => simpa [renderOpt] using noBreak_nil
        | some c =>
          simp only [renderOpt]
          exact hnb c (hD row hrow (name, c) (mem_of_lookup_eq_some hl))
    have htsv' : isTsv = true → ∃ x y t, file.1.map String.toList = x :: y :: t := by
      intro h
      obtain ⟨f1, f2, hne12, h1, h2⟩ := htsv h
      obtain ⟨x, y, t, hxy⟩ := two_of_distinct hne12 (mem_header_of_mem_fieldsOf rows first f1 h1)
        (mem_header_of_mem_fieldsOf rows first f2 h2)
      rw [hf1, hxy]
      exact ⟨_, _, _, rfl⟩
    have hcsv' : isTsv = false → ∀ f ∈ file.1.map String.toList, '\t' ∉ f := by
      intro h f hfm
      obtain ⟨name, hname, rfl⟩ := List.mem_map.mp hfm
      rw [hf1] at hname
      exact hcsv h name (mem_fieldsOf_of_mem_header rows first name hname)
    have hrec := records_roundtrip isTsv (file.1.map String.toList) (file.2.map fun r => r.map String.toList)
      hnb' htsv' hcsv'
    unfold readTsvFile
    rw [htext, List.map_cons]
    simp only [hrec]
    rw [map_ofList_toList]
    have : (file.2.map fun r => r.map String.toList).map (fun r => r.map String.ofList) = file.2 := by
      rw [List.map_map]
      conv => rhs; rw [← List.map_id file.2]
      apply List.map_congr_left
      intro r _
      exact map_ofList_toList r
    rw [this, hspec]

/-! ### the cells `write_tsv` really writes -/

theorem renderW_ok (n : Nat) (hn : n ≠ 0) (c : WCell) (hc : WCellOK c) :
    tryMakeNumber (renderW n c) = obsW n c ∧ renderW n c ≠ "" ∧ NoBreak (renderW n c).toList := by
  cases c with
  | int i => exact ⟨tryMakeNumber_intToStr i, intToStr_ne_empty i, noBreak_intToStr i⟩
  | float x =>
    refine ⟨tryMakeNumber_fmtFixed n hn x, ?_, ?_⟩
    · intro h
      have := congrArg String.toList h
      simp only [renderW, String.toList_ofList] at this
      exact fmtFixed_ne_nil n hn x this
    · simpa [renderW, String.toList_ofList] using noBreak_fmtFixed n hn x
  | text s => exact ⟨hc.1.2, hc.1.1, hc.2⟩

theorem cluster_table_roundtrip (isTsv : Bool) (n : Nat) (hn : n ≠ 0) (rows : List (List (String × WCell)))
    (first : Option String) (hD : ∀ r ∈ rows, ∀ fc ∈ r, WCellOK fc.2)
    (hnames : ∀ f ∈ fieldsOf rows, NoBreak f.toList)
    (htsv : isTsv = true → TwoColumns rows)
    (hcsv : isTsv = false → ∀ f ∈ fieldsOf rows, '\t' ∉ f.toList)
    (text : Str) (hw : writeTsvFile isTsv (renderW n) rows first = some text) :
    ∃ file, writeTsv (renderW n) rows first = some file ∧
      readTsvFile tryMakeNumber text = some (expectedRows file.1 (obsRows (obsW n) rows)) :=
  table_file_roundtrip isTsv WCellOK (renderW n) tryMakeNumber (obsW n)
    (fun c hc => (renderW_ok n hn c hc).1) (fun c hc => (renderW_ok n hn c hc).2.1)
    (fun c hc => (renderW_ok n hn c hc).2.2) rows first hD hnames htsv hcsv text hw

/-- "float (to the written precision)": the decimal that is written (and read back) for x = ±m·2^e is
exact when x is an integer multiple of a power of two ≥ 1, and otherwise within half a unit of the last
written digit: | r·2^q − m·10^n | ≤ 2^q / 2 with r = scaled n x, q = −e -/
theorem written_precision (n : Nat) (x : Dbl) :
    (0 ≤ x.e → scaled n x = x.m * 10 ^ n * 2 ^ x.e.toNat) ∧
    (x.e < 0 →
      2 * (scaled n x * 2 ^ (-x.e).toNat) ≤ 2 * (x.m * 10 ^ n) + 2 ^ (-x.e).toNat ∧
      2 * (x.m * 10 ^ n) ≤ 2 * (scaled n x * 2 ^ (-x.e).toNat) + 2 ^ (-x.e).toNat) := by
  constructor
  · intro h; simp [scaled, h]
  · intro h
    have hn : ¬ (x.e ≥ 0) := by omega
    simp only [scaled, hn, if_false]
    exact roundDiv_close _ _ (Nat.pow_pos (by decide))

/-! ### two-column tables -/

theorem ins_perm {α : Type} (x : Int × α) (l : List (Int × α)) : (sortById.ins x l).Perm (x :: l) := by
  induction l with
  | nil => simp [sortById.ins]
  | cons y ys ih =>
    simp only [sortById.ins]
    split
    · exact List.Perm.refl _
    · exact (List.Perm.cons y ih).trans (List.Perm.swap x y ys)

theorem sortById_perm {α : Type} (l : List (Int × α)) : (sortById l).Perm l := by
  induction l with
  | nil => simp [sortById]
  | cons x xs ih =>
    have : sortById (x :: xs) = sortById.ins x (sortById xs) := by simp [sortById]
    rw [this]
    exact (ins_perm x _).trans (List.Perm.cons x ih)

theorem mapM_all_some {α β : Type} (f : α → Option β) (g : α → β) :
    ∀ (l : List α), (∀ x ∈ l, f x = some (g x)) → l.mapM f = some (l.map g)
  | [], _ => rfl
  | x :: xs, h => by
    rw [List.mapM_cons, h x List.mem_cons_self,
      mapM_all_some f g xs (fun y hy => h y (List.mem_cons_of_mem _ hy))]
    rfl

theorem renderS_ok (v : SVal) (hv : SValOK v) :
    tryMakeNumber (renderS v) = obsS v ∧ NoBreak (renderS v).toList := by
  cases v with
  | int i => exact ⟨tryMakeNumber_intToStr i, noBreak_intToStr i⟩
  | float lit => exact ⟨rfl, hv⟩
  | text s => exact ⟨hv.1, hv.2⟩

theorem simple_table_roundtrip (isTsv : Bool) (field : String) (data : List (Int × SVal))
    (hfield : NoBreak field.toList) (hcsv : isTsv = false → '\t' ∉ field.toList)
    (hvals : ∀ p ∈ data, SValOK p.2) :
    readTsvSimple (writeTsvSimple isTsv field data) =
      some (field, (sortById data).map fun p => (p.1, obsS p.2)) := by
  have hmem : ∀ p ∈ sortById data, SValOK p.2 := fun p hp => hvals p ((sortById_perm data).mem_iff.mp hp)
  have hrec := records_roundtrip isTsv ["cluster_id".toList, field.toList]
    ((sortById data).map fun p => [(intToStr p.1).toList, (renderS p.2).toList])
    (by
      intro r hr f hf
      rcases List.mem_cons.mp hr with rfl | hr
      · simp only [List.mem_cons, List.not_mem_nil, or_false] at hf
        rcases hf with rfl | rfl
        · decide
        · exact hfield
      · obtain ⟨p, hp, rfl⟩ := List.mem_map.mp hr
        simp only [List.mem_cons, List.not_mem_nil, or_false] at hf
        rcases hf with rfl | rfl
        · exact noBreak_intToStr p.1
        · exact (renderS_ok p.2 (hmem p hp)).2)
    (fun _ => ⟨_, _, _, rfl⟩)
    (by
      intro h f hf
      simp only [List.mem_cons, List.not_mem_nil, or_false] at hf
      rcases hf with rfl | rfl
      · decide
      · exact hcsv h)
  unfold readTsvSimple writeTsvSimple
  simp only [hrec]
  -- written rows are never empty: the blank-line filter keeps them all
  rw [List.filter_eq_self.mpr (by
    intro r hr
    obtain ⟨p, _, rfl⟩ := List.mem_map.mp hr
    rfl)]
  rw [List.mapM_map]
  rw [mapM_all_some _ (fun p => (p.1, obsS p.2))]
  · simp [String.ofList_toList]
  · intro p hp
    simp only [Function.comp, parseIntLit_intToStr, String.ofList_toList, Option.map_some,
      (renderS_ok p.2 (hmem p hp)).1]

/-! ### `save_metadata` then `load_metadata` -/

theorem setKV_new (k v : Num) : ∀ (d : List (Num × Num)), k ∉ d.map (·.1) → setKV d k v = d ++ [(k, v)]
  | [], _ => rfl
  | (k', v') :: t, h => by
    have h1 : k' ≠ k := fun e => h (by simp [e])
    have h2 : k ∉ t.map (·.1) := fun e => h (by simp [e])
    simp [setKV, h1, setKV_new k v t h2]

/-- the rows `read_tsv` returns for a two-column file -/
def metaRows (field : String) (l : List (Int × SVal)) : List (List (String × Num)) :=
  l.map fun p => [("cluster_id", .int p.1), (field, obsS p.2)]

theorem foldl_metaRows (field : String) (hne : field ≠ "cluster_id") : ∀ (l : List (Int × SVal)) (d0 : List (Num × Num)),
    ((d0.map (·.1)) ++ l.map (fun p => Num.int p.1)).Nodup →
    (metaRows field l).foldl metaStep [(field, d0)] = [(field, d0 ++ l.map fun p => (Num.int p.1, obsS p.2))]
  | [], d0, _ => by simp [metaRows]
  | p :: l, d0, h => by
    have hk : Num.int p.1 ∉ d0.map (·.1) := by
      intro hm
      rw [List.nodup_append] at h
      exact h.2.2 _ hm _ (by simp) rfl
    have h' : (((d0 ++ [(Num.int p.1, obsS p.2)]).map (·.1)) ++ l.map (fun p => Num.int p.1)).Nodup := by
      simpa [List.map_append, List.append_assoc] using h
    have ih := foldl_metaRows field hne l (d0 ++ [(Num.int p.1, obsS p.2)]) h'
    have hb : (field != "cluster_id") = true := by simpa using hne
    simp only [metaRows, List.map_cons, List.foldl_cons] at ih ⊢
    simp only [metaStep, List.lookup_cons, beq_self_eq_true, List.foldl_cons, List.foldl_nil, bne_self_eq_false,
      Bool.false_eq_true, if_false, hb, if_true, setNested, setKV_new _ _ d0 hk]
    rw [ih]
    simp

theorem nodup_map_inj {α β : Type} (f : α → β) (hf : ∀ a b, f a = f b → a = b) : ∀ (l : List α), l.Nodup → (l.map f).Nodup
  | [], _ => List.nodup_nil
  | a :: t, h => by
    rw [List.nodup_cons] at h
    rw [List.map_cons, List.nodup_cons]
    refine ⟨fun hm => ?_, nodup_map_inj f hf t h.2⟩
    obtain ⟨b, hb, hfb⟩ := List.mem_map.mp hm
    exact h.1 (hf b a hfb ▸ hb)

theorem metadata_roundtrip (isTsv : Bool) (field : String) (data : List (Int × SVal))
    (hfield : NoBreak field.toList) (hcsv : isTsv = false → '\t' ∉ field.toList) (hne : field ≠ "cluster_id")
    (hvals : ∀ p ∈ data, SValOK p.2 ∧ renderS p.2 ≠ "") (hids : (data.map (·.1)).Nodup) :
    loadMetadata (writeTsvSimple isTsv field data) =
      some (if data = [] then [] else [(field, (sortById data).map fun p => (Num.int p.1, obsS p.2))]) := by
  have hperm := sortById_perm data
  have hmem : ∀ p ∈ sortById data, SValOK p.2 ∧ renderS p.2 ≠ "" := fun p hp => hvals p (hperm.mem_iff.mp hp)
  have hrec := records_roundtrip isTsv ["cluster_id".toList, field.toList]
    ((sortById data).map fun p => [(intToStr p.1).toList, (renderS p.2).toList])
    (by
      intro r hr f hf
      rcases List.mem_cons.mp hr with rfl | hr
      · simp only [List.mem_cons, List.not_mem_nil, or_false] at hf
        rcases hf with rfl | rfl
        · decide
        · exact hfield
      · obtain ⟨p, hp, rfl⟩ := List.mem_map.mp hr
        simp only [List.mem_cons, List.not_mem_nil, or_false] at hf
        rcases hf with rfl | rfl
        · exact noBreak_intToStr p.1
        · exact (renderS_ok p.2 (hmem p hp).1).2)
    (fun _ => ⟨_, _, _, rfl⟩)
    (by
      intro h f hf
      simp only [List.mem_cons, List.not_mem_nil, or_false] at hf
      rcases hf with rfl | rfl
      · decide
      · exact hcsv h)
  -- what `read_tsv` returns for this file
  have hread : readTsvFile tryMakeNumber (writeTsvSimple isTsv field data) =
      some (metaRows field (sortById data)) := by
    unfold readTsvFile writeTsvSimple
    simp only [hrec]
    simp only [readTsv, metaRows, List.map_map, List.map_cons, List.map_nil, String.ofList_toList]
    congr 1
    apply List.map_congr_left
    intro p hp
    have h1 := intToStr_ne_empty p.1
    have h2 := (hmem p hp).2
    simp [Function.comp, String.ofList_toList, List.filter_cons, h1, h2, tryMakeNumber_intToStr,
      (renderS_ok p.2 (hmem p hp).1).1]
  unfold loadMetadata
  rw [hread]
  simp only [Option.map_some]
  congr 1
  cases hs : sortById data with
  | nil =>
    have : data = [] := by
      have := hperm.length_eq; rw [hs] at this; exact List.eq_nil_of_length_eq_zero this.symm
    simp [this, metaRows]
  | cons p l =>
    have hdne : data ≠ [] := by
      intro h0; rw [h0] at hs; simp [sortById] at hs
    rw [if_neg hdne]
    have hnd : ((sortById data).map (·.1)).Nodup := (hperm.map _).nodup_iff.mpr hids
    rw [hs] at hnd
    have hnd' : (([] : List (Num × Num)).map (·.1) ++ (p :: l).map (fun p => Num.int p.1)).Nodup := by
      simp only [List.map_nil, List.nil_append]
      have : (p :: l).map (fun p => Num.int p.1) = ((p :: l).map (·.1)).map Num.int := by simp [List.map_map]
      rw [this]
      exact nodup_map_inj Num.int (fun a b h => by injection h) _ hnd
    have hb : (field != "cluster_id") = true := by simpa using hne
    have key := foldl_metaRows field hne l [(Num.int p.1, obsS p.2)] (by
      simpa [List.map_cons] using hnd')
    simp only [metaRows, List.map_cons, List.foldl_cons] at key ⊢
    simp only [metaStep, List.lookup_cons, beq_self_eq_true, List.foldl_cons, List.foldl_nil, bne_self_eq_false,
      Bool.false_eq_true, if_false, hb, if_true, setNested]
    rw [key]
    simp

end PhyVerif.C18.Lemmas
