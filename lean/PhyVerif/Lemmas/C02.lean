import PhyVerif.Model.C02
import PhyVerif.Spec.C01
import PhyVerif.Lemmas.C01
/-! Helper lemmas and full proofs for C02. Statements: `Props/C02.lean`. -/
namespace PhyVerif.C02.Lemmas
open PhyVerif PhyVerif.C01 PhyVerif.C02

/-- the per-row function of one deferred operation -/
def opRow {β : Type} : Op β → List β → List β
  | .elem f => fun row => row.map f
  | .cols c => selCols c

/-- the per-row function of a list of deferred operations -/
def rowFn {β : Type} : List (Op β) → List β → List β
  | [] => id
  | op :: ops => fun row => rowFn ops (opRow op row)

theorem applyOp_eq_map {β : Type} (op : Op β) (A : List (List β)) :
    applyOp op A = A.map (opRow op) := by
  cases op <;> rfl

theorem applyOps_eq_map {β : Type} (ops : List (Op β)) (A : List (List β)) :
    applyOps ops A = A.map (rowFn ops) := by
  induction ops generalizing A with
  | nil => simp [applyOps, rowFn]
  | cons op ops ih =>
    have : applyOps (op :: ops) A = applyOps ops (applyOp op A) := rfl
    rw [this, ih, applyOp_eq_map, List.map_map]
    rfl

theorem mapM_option_map {ι α γ : Type} (g : α → γ) (f : ι → Option α) (l : List ι) :
    (l.mapM f).map (List.map g) = l.mapM (fun i => (f i).map g) := by
  induction l with
  | nil => simp
  | cons x xs ih =>
    simp only [List.mapM_cons]
    rw [← ih]
    cases f x <;> cases List.mapM f xs <;> simp

theorem take_map {α γ : Type} (g : α → γ) (A : List α) (idx : List Nat) :
    (Np.take A idx).map g = Np.take (A.map g) idx := by
  unfold Np.take
  rw [List.map_filterMap]
  congr 1
  funext i
  simp

theorem npRows_map {α γ : Type} (g : α → γ) (A : List α) (it : Item) :
    (npRows A it).map (List.map g) = npRows (A.map g) it := by
  cases it with
  | int i =>
    simp only [npRows, List.length_map]
    split
    · simp [List.getElem?_map]
      cases A[(if i < 0 then i + (A.length : Int) else i).toNat]? <;> simp
    · simp
  | slice start stop =>
    simp only [npRows, List.length_map, Option.map_some, take_map]
  | list l =>
    simp only [npRows, List.length_map]
    rw [mapM_option_map]
    congr 1
    funext i
    split <;> simp [List.getElem?_map]

theorem applyOps_commutes_rows {β : Type} (ops : List (Op β)) (A : List (List β)) (it : Item) :
    (npRows A it).map (applyOps ops) = npRows (applyOps ops A) it := by
  have : applyOps ops = List.map (rowFn ops) := funext (applyOps_eq_map ops)
  rw [this, npRows_map]

theorem eval_eq_eager {β : Type} (h : Heap β) (parts : List (List (List β))) (r : Nat) (it : Item)
    (hd : InDom parts.flatten.length it) :
    eval h parts r it = npRows (applyOps (h.getD r []) parts.flatten) it := by
  unfold eval
  rw [PhyVerif.C01.Lemmas.getRows_eq_concat' parts it hd, applyOps_commutes_rows]

theorem derive_ops' {β : Type} (h : Heap β) (r : Nat) (op : Op β) :
    (derive h r op).1.getD (derive h r op).2 [] = h.getD r [] ++ [op] := by
  simp [derive, List.getD_eq_getElem?_getD]

/-- `getD` form (also answers a dangling address, with "no operations"); the property theorem is `evalCols_eq_eager_at` -/
theorem evalCols_eq_eager {β : Type} (h : Heap β) (parts : List (List (List β))) (r : Nat)
    (it : Item) (c : ColSel) (hd : InDom parts.flatten.length it) :
    evalCols h parts r it c =
      npRows (applyOps (h.getD r [] ++ [.cols c]) parts.flatten) it := by
  unfold evalCols
  simp only
  rw [eval_eq_eager _ parts _ it hd, derive_ops']

/-! ### Statements at the address that EXISTS (`h[r]`, not `h.getD r []`)

In the real code a reader object always carries an `_ops` list (`BaseEphysReader.__init__`, traces.py:187-188;
`_append_op` gives every clone one, traces.py:240-245): a reader is always a live address of the heap it was derived
in. The lemmas above are stated with `List.getD`, whose default `[]` also answers a dangling address ("no operations");
the property theorems are stated with `h[r]` under `r < h.length`, so that none of them holds through the default. -/

theorem getD_of_lt {β : Type} (h : Heap β) (r : Nat) (hr : r < h.length) : h.getD r [] = h[r] := by
  simp [List.getD_eq_getElem?_getD, List.getElem?_eq_getElem hr]

theorem eval_eq_eager_at {β : Type} (h : Heap β) (parts : List (List (List β))) (r : Nat) (it : Item)
    (hr : r < h.length) (hd : InDom parts.flatten.length it) :
    eval h parts r it = npRows (applyOps h[r] parts.flatten) it := by
  rw [eval_eq_eager h parts r it hd, getD_of_lt h r hr]

theorem evalCols_eq_eager_at {β : Type} (h : Heap β) (parts : List (List (List β))) (r : Nat)
    (it : Item) (c : ColSel) (hr : r < h.length) (hd : InDom parts.flatten.length it) :
    evalCols h parts r it c = npRows (applyOps (h[r] ++ [.cols c]) parts.flatten) it := by
  rw [evalCols_eq_eager h parts r it c hd, getD_of_lt h r hr]

theorem derive_length {β : Type} (h : Heap β) (r : Nat) (op : Op β) :
    (derive h r op).1.length = h.length + 1 := by
  simp [derive]

theorem derive_preserves_others {β : Type} (h : Heap β) (r : Nat) (op : Op β) (r' : Nat)
    (hr' : r' < h.length) :
    (derive h r op).1.getD r' [] = h.getD r' [] := by
  simp [derive, List.getD_eq_getElem?_getD, List.getElem?_append_left hr']

theorem derivations_preserve {β : Type} (h : Heap β) (ds : List (Nat × Op β)) (r' : Nat)
    (hr' : r' < h.length) :
    (runDerivations h ds).getD r' [] = h.getD r' [] := by
  induction ds generalizing h with
  | nil => rfl
  | cons d ds ih =>
    obtain ⟨r, op⟩ := d
    show (runDerivations (derive h r op).1 ds).getD r' [] = _
    rw [ih _ (by rw [derive_length]; omega), derive_preserves_others h r op r' hr']

/-- the clone's address is live in the new heap (closure) and holds the parent's operations plus the new one -/
theorem derive_ops_at {β : Type} (h : Heap β) (r : Nat) (op : Op β) (hr : r < h.length) :
    (derive h r op).1[(derive h r op).2]? = some (h[r] ++ [op]) := by
  have h1 := derive_ops' h r op
  have h2 : (derive h r op).2 < (derive h r op).1.length := by
    rw [derive_length]; simp [derive]
  rw [getD_of_lt _ _ h2, getD_of_lt h r hr] at h1
  rw [List.getElem?_eq_getElem h2, h1]

theorem derive_preserves_others_at {β : Type} (h : Heap β) (r : Nat) (op : Op β) (r' : Nat)
    (hr' : r' < h.length) :
    (derive h r op).1[r']? = some h[r'] := by
  have h1 := derive_preserves_others h r op r' hr'
  have h2 : r' < (derive h r op).1.length := by rw [derive_length]; omega
  rw [getD_of_lt _ _ h2, getD_of_lt h r' hr'] at h1
  rw [List.getElem?_eq_getElem h2, h1]

theorem runDerivations_length {β : Type} (h : Heap β) (ds : List (Nat × Op β)) :
    (runDerivations h ds).length = h.length + ds.length := by
  induction ds generalizing h with
  | nil => rfl
  | cons d ds ih =>
    obtain ⟨r, op⟩ := d
    show (runDerivations (derive h r op).1 ds).length = _
    rw [ih, derive_length, List.length_cons]; omega

theorem derivations_preserve_at {β : Type} (h : Heap β) (ds : List (Nat × Op β)) (r' : Nat)
    (hr' : r' < h.length) :
    (runDerivations h ds)[r']? = some h[r'] := by
  have h1 := derivations_preserve h ds r' hr'
  have h2 : r' < (runDerivations h ds).length := by rw [runDerivations_length]; omega
  rw [getD_of_lt _ _ h2, getD_of_lt h r' hr'] at h1
  rw [List.getElem?_eq_getElem h2, h1]

/-- what an existing reader RETURNS is unchanged by any derivation history: every index expression, in or out of
domain (both sides are the same function of the same operation list) -/
theorem derivations_preserve_eval {β : Type} (h : Heap β) (ds : List (Nat × Op β)) (parts : List (List (List β)))
    (r' : Nat) (hr' : r' < h.length) (it : Item) :
    eval (runDerivations h ds) parts r' it = eval h parts r' it := by
  unfold eval
  rw [derivations_preserve h ds r' hr']

theorem derivations_preserve_evalCols {β : Type} (h : Heap β) (ds : List (Nat × Op β)) (parts : List (List (List β)))
    (r' : Nat) (hr' : r' < h.length) (it : Item) (c : ColSel) :
    evalCols (runDerivations h ds) parts r' it c = evalCols h parts r' it c := by
  unfold evalCols eval
  simp only
  rw [derive_ops', derive_ops', derivations_preserve h ds r' hr']

end PhyVerif.C02.Lemmas
