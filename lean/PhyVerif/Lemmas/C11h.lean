import PhyVerif.Lemmas.C11g
import PhyVerif.Lemmas.C11c
import PhyVerif.Lemmas.C12
/-! A merge that returns leaves exactly the files of `expectedOut` in an (initially empty) output directory. -/
namespace PhyVerif.C11.Lemmas
open PhyVerif PhyVerif.C11

theorem spikeOrder_length (times : List (List Int)) : (spikeOrder times).length = times.flatten.length := by
  have := (spikeOrder_perm times).length_eq
  simpa using this

theorem lastW_nil (n : String) (init : Option File) : lastW [] n init = init := rfl

theorem lastW_cons (w : String × File) (ws : List (String × File)) (n : String) (init : Option File) :
    lastW (w :: ws) n init = lastW ws n (if n = w.1 then some w.2 else init) := rfl

theorem lastW_ite (c : Prop) [Decidable c] (fn : String) (x : File) (n : String) (init : Option File) :
    lastW (if c then [] else [(fn, x)]) n init = if c then init else if n = fn then some x else init := by
  split <;> rfl

theorem lastW_opt (o : Option (List (List Int))) (fn : String) (n : String) (init : Option File) :
    lastW (optWrite fn o) n init = if n = fn then (o.map File.mat).or init else init := by
  cases o <;> simp [optWrite, lastW]

/-- the save of the final `load_model`: the inverse whitening matrix, when the merger skipped it -/
def invWrite (o3 o2 : Option (List (List Int))) : List (String × File) :=
  match o3 with
  | some _ => []
  | none => [("whitening_mat_inv.npy", File.computedInv o2)]

theorem lastW_inv (o3 o2 : Option (List (List Int))) (n : String) (init : Option File) :
    lastW (invWrite o3 o2) n init =
      if n = "whitening_mat_inv.npy" then (if o3.isSome then init else some (File.computedInv o2)) else init := by
  cases o3 <;> simp [invWrite, lastW]

/-- all saves of a merge that returns, last save wins: the table `expectedOut` -/
theorem chain_eval (subdirs : List String) (I : Inputs) (p : Nat × Nat) (m1 : C12.mergeParams I.params = some p)
    (name : String) :
    lastW (invWrite (C12.mergeOptional I.whiteningInv) (C12.mergeOptional I.whitening)) name
    (lastW (optWrite "whitening_mat_inv.npy" (C12.mergeOptional I.whiteningInv)) name
    (lastW (optWrite "whitening_mat.npy" (C12.mergeOptional I.whitening)) name
    (lastW (optWrite "similar_templates.npy" (C12.mergeOptional I.similar)) name
    (lastW [("template_feature_ind.npy", File.table (C12.shiftTables I.tfInd
        (templateOffsets I.templates (I.tmpl.map List.length))))] name
    (lastW [("pc_feature_ind.npy", File.table (C12.shiftTables I.pcInd (C12.chanIndexOffsets I.maps)))] name
    (lastW [("templates.npy", File.tmpl (C12.mergeTemplates I.tmpl))] name
    (lastW [("channel_positions.npy", File.pos (C12.mergePositions I.positions))] name
    (lastW [("channel_map.npy", File.nats (C12.mergeChannelMaps I.maps)),
            ("channel_probe.npy", File.nats (C12.channelProbes I.maps))] name
    (lastW (if (mergeClusterData I.tsvKSLabel I.clusters).isEmpty then []
        else [("cluster_KSLabel.tsv", File.tsv (mergeClusterData I.tsvKSLabel I.clusters))]) name
    (lastW (if (mergeClusterData I.tsvContamPct I.clusters).isEmpty then []
        else [("cluster_ContamPct.tsv", File.tsv (mergeClusterData I.tsvContamPct I.clusters))]) name
    (lastW (if (mergeClusterData I.tsvAmplitude I.clusters).isEmpty then []
        else [("cluster_Amplitude.tsv", File.tsv (mergeClusterData I.tsvAmplitude I.clusters))]) name
    (lastW [("spike_clusters.npy", File.nats (gather (shiftIds I.clusters) (spikeOrder I.times))),
            ("spike_templates.npy", File.nats (gather (shiftBy I.templates
              (templateOffsets I.templates (I.tmpl.map List.length))) (spikeOrder I.times))),
            ("cluster_probes.npy", File.nats (clusterProbes I.clusters))] name
    (lastW [("spike_templates.npy", File.nats (gather I.templates (spikeOrder I.times)))] name
    (lastW [("amplitudes.npy", File.ints (gather I.amps (spikeOrder I.times)))] name
    (lastW [("spike_times.npy", File.ints (gather I.times (spikeOrder I.times)))] name
    (lastW [("probes.description.tsv", File.labels subdirs)] name
    (lastW [("params.py", File.params p.1 p.2)] name none))))))))))))))))) = expectedOut subdirs I name := by
  unfold expectedOut
  by_cases hmem : name ∈ outputNames
  · simp only [outputNames, tsvNames, miscNames, List.cons_append, List.nil_append, List.mem_cons,
      List.not_mem_nil, or_false] at hmem
    rcases hmem with rfl | rfl | rfl | rfl | rfl | rfl | rfl | rfl | rfl | rfl | rfl | rfl | rfl | rfl | rfl |
      rfl | rfl | rfl | rfl
    all_goals simp only [lastW_ite, lastW_opt, lastW_inv, lastW_cons, lastW_nil, String.reduceEq, ↓reduceIte,
      tsvNames, Inputs.tsv, List.mem_cons, List.not_mem_nil, or_false, or_true, true_or, m1, Option.map, Option.or_none,
      ite_self]
    all_goals first | rfl | (cases C12.mergeOptional I.whiteningInv <;> rfl) |
      (cases C12.mergeOptional I.whitening <;> rfl) | (cases C12.mergeOptional I.similar <;> rfl)
  · simp only [outputNames, tsvNames, miscNames, List.cons_append, List.nil_append, List.mem_cons,
      List.not_mem_nil, or_false, not_or] at hmem
    obtain ⟨h1, h2, h3, h4, h5, h6, h7, h8, h9, h10, h11, h12, h13, h14, h15, h16, h17, h18, h19⟩ := hmem
    simp only [lastW_ite, lastW_opt, lastW_inv, lastW_cons, lastW_nil, h1, h2, h3, h4, h5, h6, h7, h8, h9, h10, h11,
      h12, h13, h14, h15, h16, h17, h18, h19, ↓reduceIte, ite_self, tsvNames, List.mem_cons, List.not_mem_nil, or_self]

end PhyVerif.C11.Lemmas
