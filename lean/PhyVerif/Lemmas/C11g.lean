import PhyVerif.Lemmas.C11f
import PhyVerif.Spec.C11e
/-! A merge that returns: what it has read and what the output directory holds afterwards. -/
namespace PhyVerif.C11.Lemmas
open PhyVerif PhyVerif.C11

/-- the last contents saved under name `n` by a list of saves (`init` if none) -/
def lastW (ws : List (String × File)) (n : String) (init : Option File) : Option File :=
  ws.foldl (fun acc w => if n = w.1 then some w.2 else acc) init

theorem saveAll_read_out (out : String) (ws : List (String × File)) :
    ∀ (fs : FS) (n : String), (saveAll out fs ws).read (out, n) = lastW ws n (fs.read (out, n)) := by
  induction ws with
  | nil => intro fs n; rfl
  | cons w ws ih =>
    intro fs n
    rw [saveAll_cons, ih, read_write]
    unfold lastW
    rw [List.foldl_cons]
    by_cases h : n = w.1
    · simp [h]
    · have : (out, n) ≠ (out, w.1) := fun hc => h (Prod.mk.inj hc).2
      simp [h, this]

theorem step_facts (out : String) (c : Compute) (s s1 : FS × Reg) (h : saveStep out c s = .ok s1) :
    ∃ ws, c s.1 s.2 = .ok (ws, s1.2) ∧
      (∀ d n, d ≠ out → s1.1.read (d, n) = s.1.read (d, n)) ∧
      (∀ n, s1.1.read (out, n) = lastW ws n (s.1.read (out, n))) := by
  obtain ⟨ws, reg, hc, rfl⟩ := saveStep_ok out c s s1 h
  exact ⟨ws, hc, fun d n hd => saveAll_read_other out ws s.1 d n (Or.inl hd), fun n => saveAll_read_out out ws s.1 n⟩

/-! ### reads of directories other than the output directory -/

theorem ne_out (subdirs : List String) (out : String) (hout : out ∉ subdirs) {d : String} (hd : d ∈ subdirs) :
    d ≠ out := fun hc => hout (hc ▸ hd)

section congr
variable (fs1 fs2 : FS) (subdirs : List String) (out : String) (hout : out ∉ subdirs)
  (hsame : ∀ d n, d ≠ out → fs1.read (d, n) = fs2.read (d, n))
include hout hsame

theorem loadInts_congr (name : String) :
    loadEach (readInts fs1 name) subdirs = loadEach (readInts fs2 name) subdirs :=
  loadEach_congr _ _ _ fun d hd => by unfold readInts; rw [hsame d name (ne_out subdirs out hout hd)]

theorem loadNats_congr (name : String) :
    loadEach (readNats fs1 name) subdirs = loadEach (readNats fs2 name) subdirs :=
  loadEach_congr _ _ _ fun d hd => by unfold readNats; rw [hsame d name (ne_out subdirs out hout hd)]

theorem loadTable_congr (name : String) :
    loadEach (readTable fs1 name) subdirs = loadEach (readTable fs2 name) subdirs :=
  loadEach_congr _ _ _ fun d hd => by unfold readTable; rw [hsame d name (ne_out subdirs out hout hd)]

theorem loadPos_congr (name : String) :
    loadEach (readPos fs1 name) subdirs = loadEach (readPos fs2 name) subdirs :=
  loadEach_congr _ _ _ fun d hd => by unfold readPos; rw [hsame d name (ne_out subdirs out hout hd)]

theorem loadTmpl_congr (name : String) :
    loadEach (readTmpl fs1 name) subdirs = loadEach (readTmpl fs2 name) subdirs :=
  loadEach_congr _ _ _ fun d hd => by unfold readTmpl; rw [hsame d name (ne_out subdirs out hout hd)]

theorem loadParams_congr (name : String) :
    loadEach (readParams fs1 name) subdirs = loadEach (readParams fs2 name) subdirs :=
  loadEach_congr _ _ _ fun d hd => by unfold readParams; rw [hsame d name (ne_out subdirs out hout hd)]

theorem loadMatOpt_congr (name : String) :
    loadEach (readMatOpt fs1 name) subdirs = loadEach (readMatOpt fs2 name) subdirs :=
  loadEach_congr _ _ _ fun d hd => by unfold readMatOpt; rw [hsame d name (ne_out subdirs out hout hd)]

theorem loadTsvOpt_congr (name : String) :
    loadEach (readTsvOpt fs1 name) subdirs = loadEach (readTsvOpt fs2 name) subdirs :=
  loadEach_congr _ _ _ fun d hd => by unfold readTsvOpt; rw [hsame d name (ne_out subdirs out hout hd)]

theorem loadCount_congr (l : List (List Nat × List Nat)) :
    loadEach (readTemplateCount fs1) (subdirs.zip l) = loadEach (readTemplateCount fs2) (subdirs.zip l) :=
  loadEach_congr _ _ _ fun p hp => by
    have hd : p.1 ∈ subdirs := (List.of_mem_zip (show (p.1, p.2) ∈ subdirs.zip l from hp)).1
    unfold readTemplateCount readTmpl
    rw [hsame p.1 "templates.npy" (ne_out subdirs out hout hd)]

end congr

/-! ### the checks -/

theorem concatOK_ok {α : Type} (name : String) (arrays : List (List α)) (h : concatOK name arrays = .ok ()) :
    ∀ a ∈ arrays, a.length ≠ 1 := by
  unfold concatOK at h
  split at h
  · cases h
  · rename_i hn
    intro a ha hl
    exact hn (List.any_eq_true.mpr ⟨a, ha, by simp [hl]⟩)

theorem maxOK_ok {α : Type} (name : String) (arrays : List (List α)) (h : maxOK name arrays = .ok ()) :
    NonEmpty arrays := by
  unfold maxOK at h
  split at h
  · cases h
  · rename_i hn
    intro a ha he
    exact hn (List.any_eq_true.mpr ⟨a, ha, by simp [he]⟩)

/-- the template counts read in the loop of `write_spike_clusters` are the row counts of the `templates.npy`
files, and every probe has a spike -/
theorem counts_eq (fs : FS) (subdirs : List String) (sc st : List (List Nat)) (counts : List Nat)
    (tmpl : List (List (List (List Int))))
    (hsc : sc.length = subdirs.length) (hst : st.length = subdirs.length)
    (hc : loadEach (readTemplateCount fs) (subdirs.zip (sc.zip st)) = .ok counts)
    (ht : loadEach (readTmpl fs "templates.npy") subdirs = .ok tmpl) :
    counts = tmpl.map List.length ∧ NonEmpty sc ∧ NonEmpty st := by
  have hzl : (subdirs.zip (sc.zip st)).length = subdirs.length := by simp [hsc, hst]
  have hcl := loadEach_length _ _ _ hc
  have htl := loadEach_length _ _ _ ht
  have key : ∀ i (hi : i < subdirs.length), ∃ t, tmpl[i]? = some t ∧ counts[i]? = some t.length ∧
      sc[i]'(by omega) ≠ [] ∧ st[i]'(by omega) ≠ [] := by
    intro i hi
    obtain ⟨c, hci, hf⟩ := loadEach_get _ _ _ hc i (by omega)
    obtain ⟨t, hti, hg⟩ := loadEach_get _ _ _ ht i hi
    have hz : (subdirs.zip (sc.zip st))[i]'(by omega) = (subdirs[i], sc[i]'(by omega), st[i]'(by omega)) := by
      simp [List.getElem_zip]
    rw [hz] at hf
    unfold readTemplateCount at hf
    dsimp only at hf
    split at hf
    · cases hf
    · rename_i h1
      split at hf
      · cases hf
      · rename_i h2
        rw [hg] at hf
        dsimp only at hf
        cases hf
        exact ⟨t, hti, hci, by simpa using h1, by simpa using h2⟩
  refine ⟨?_, ?_, ?_⟩
  · apply List.ext_getElem?
    intro i
    rcases Nat.lt_or_ge i subdirs.length with hi | hi
    · obtain ⟨t, hti, hci, _⟩ := key i hi
      rw [hci, List.getElem?_map, hti]; rfl
    · rw [List.getElem?_eq_none (by omega), List.getElem?_eq_none (by simp; omega)]
  · intro a ha
    obtain ⟨i, hi, rfl⟩ := List.getElem_of_mem ha
    exact (key i (by omega)).choose_spec.2.2.1
  · intro a ha
    obtain ⟨i, hi, rfl⟩ := List.getElem_of_mem ha
    exact (key i (by omega)).choose_spec.2.2.2

end PhyVerif.C11.Lemmas
