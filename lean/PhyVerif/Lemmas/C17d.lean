import PhyVerif.Lemmas.C17
import PhyVerif.Model.C07
/-! C17, closed form of the selection: without an effective count the selector is deterministic and returns
exactly the eligible spikes of the requested clusters; with a count it returns a subset of them. -/
namespace PhyVerif.C17.Lemmas
open PhyVerif PhyVerif.C17

theorem allEligible_pairwise (x : Inp) : (allEligible x).Pairwise (· < ·) :=
  List.Pairwise.filter _ List.pairwise_lt_range

theorem mem_allEligible (x : Inp) (v : Nat) :
    v ∈ allEligible x ↔ ∃ c ∈ x.req, v ∈ eligibleSpec x c := by
  unfold allEligible eligibleSpec
  simp only [List.mem_filter, List.mem_range, Bool.and_eq_true, beq_iff_eq, List.contains_iff_mem]
  constructor
  · rintro ⟨hv, ⟨hr, hk⟩, hs⟩
    exact ⟨_, hr, hv, ⟨rfl, hk⟩, hs⟩
  · rintro ⟨c, hc, hv, ⟨he, hk⟩, hs⟩
    exact ⟨hv, ⟨he ▸ hc, hk⟩, hs⟩

theorem selectCluster_noCount (choose : List Nat → Nat → List Nat) (x : Inp) (hg : GridOK x.bounds)
    (hn : NoCount x) (c : Nat) : selectCluster choose x c = eligibleSpec x c := by
  rcases selectCluster_cases choose x hg c with he | ⟨n, hc, hn0, _, _⟩
  · exact he
  · exfalso
    unfold NoCount at hn
    rw [hc] at hn
    simp only at hn
    omega

theorem selectWith_sub_allEligible (choose : List Nat → Nat → List Nat) (hch : ChooseOK choose) (x : Inp)
    (hg : GridOK x.bounds) (v : Nat) (h : v ∈ selectWith choose x) : v ∈ allEligible x := by
  cases hne : x.req.isEmpty with
  | true =>
    unfold selectWith at h
    rw [hne] at h
    simp at h
  | false =>
    obtain ⟨c, hc, hv⟩ := ((selectWith_spec choose x hne).2 v).1 h
    exact (mem_allEligible x v).2 ⟨c, hc, mem_selectCluster choose hch x hg c v hv⟩

theorem selectWith_noCount (choose : List Nat → Nat → List Nat) (x : Inp) (hg : GridOK x.bounds)
    (hn : NoCount x) : selectWith choose x = allEligible x := by
  cases hne : x.req.isEmpty with
  | true =>
    have hr : x.req = [] := List.isEmpty_iff.mp hne
    unfold selectWith allEligible
    rw [hne, hr]
    simp
  | false =>
    obtain ⟨hpw, hmem⟩ := selectWith_spec choose x hne
    apply eq_of_pairwise_lt_of_mem_iff _ _ hpw (allEligible_pairwise x)
    intro v
    rw [hmem v, mem_allEligible x v]
    constructor
    · rintro ⟨c, hc, hv⟩; exact ⟨c, hc, selectCluster_noCount choose x hg hn c ▸ hv⟩
    · rintro ⟨c, hc, hv⟩; exact ⟨c, hc, (selectCluster_noCount choose x hg hn c).symm ▸ hv⟩

theorem allEligible_plain (x : Inp) (hc : x.subsetChunks = false) (hs : x.subset = none) :
    allEligible x = C07.spikesInClusters x.clusters x.req := by
  unfold allEligible C07.spikesInClusters
  rw [hc, hs]
  simp only [Bool.not_false, Bool.true_or, Bool.and_true]
  split
  · rename_i h
    simp only [Bool.or_eq_true, List.isEmpty_iff] at h
    rcases h with h | h
    · rw [h]; simp
    · rw [h]; simp
  · rfl

end PhyVerif.C17.Lemmas
