import PhyVerif.Model.C09c
import PhyVerif.Spec.C09c
import PhyVerif.Lemmas.C09b
import PhyVerif.Lemmas.C08
/-!
Proofs for `Model/C09c.lean`: the id space of the summaries (which arrays, how many ids, which ids are NaN),
`templates_probes`, the bare `_amplitudes` vector, durations times rate, and unwhitening as the inverse of whitening.
-/
namespace PhyVerif.C09.Lemmas
open PhyVerif PhyVerif.C09

/-! ### ids without spikes -/

theorem membersOf_nil_iff (s : List Nat) (t : Nat) : membersOf s t = [] ↔ t ∉ s := by
  rw [← List.length_eq_zero_iff, ← count_eq_members, List.count_eq_zero]

theorem meanOver_none_iff (s : List Nat) (w : List Rat) (t : Nat) : meanOver s w t = none ↔ t ∉ s := by
  rw [← membersOf_nil_iff]
  unfold meanOver
  simp only []
  by_cases h : (membersOf s t).length = 0
  · simp [List.length_eq_zero_iff.mp h]
  · have : membersOf s t ≠ [] := fun e => h (by rw [e]; rfl)
    simp [h, this]

/-- the returned per-id amplitude is NaN exactly for the ids without a spike -/
theorem ampsVUnit_none_iff (d : Data) (f : Rat) (ha : d.amplitudes.length = d.spikes.length) (t : Nat)
    (ht : t < d.wfsW.length) : (ampsVUnit d f).getD t none = none ↔ t ∉ d.spikes := by
  rw [(ampsVUnit_eq_mean d f ha t ht).1, meanOver_none_iff]

theorem rescaled_length (d : Data) : (rescaled d).length = d.wfsW.length := by
  simp [rescaled, unwhitened, ampsV, ampsAu, bincountW, bincountN]

theorem rescaledUnit_length (d : Data) (f : Rat) : (rescaledUnit d f).length = d.wfsW.length := by
  simp [rescaledUnit, rescaled_length]

/-- the returned waveform of an id without spikes is NaN everywhere (`none`) -/
theorem rescaledUnit_none (d : Data) (f : Rat) (ha : d.amplitudes.length = d.spikes.length) (t : Nat)
    (ht : t < d.wfsW.length) (hn : t ∉ d.spikes) : (rescaledUnit d f).getD t none = none := by
  have h1 : (ampsV d).getD t none = none := by
    rw [(ampsV_eq_mean d ha t ht).1, meanOver_none_iff]; exact hn
  rw [rescaledUnit_getD, rescaled_getD d t ht, h1]
  rfl

theorem getD_default {α : Type} (l : List α) (t : Nat) (a b : α) (h : t < l.length) : l.getD t a = l.getD t b := by
  simp [List.getD_eq_getElem?_getD, h]

/-! ### which arrays -/

theorem useArrays_spec (s : Stored) (cl : Bool) :
    (useArrays s cl).1.length = idCount s cl ∧ (useArrays s cl).2.2 = idCount s cl ∧
    (useArrays s cl).2.1 = assignment s cl := by
  unfold useArrays idCount assignment
  cases cl
  · simp
  · obtain ⟨h1, h2⟩ := C08.Lemmas.cluster_count_rule s.templates s.chans s.st s.sc s.ns s.nc
    by_cases h : s.sc = s.st
    · simp [h] at h1 h2 ⊢
      exact ⟨by rw [h1, h2], h2⟩
    · simp [h] at h1 h2 ⊢
      exact ⟨by rw [h1, h2], h2⟩

/-- the per-cluster case of `useArrays_spec` with the number of ids spelled out -/
theorem useArrays_clusters_spec (s : Stored) :
    (useArrays s true).1.length = (if s.sc ≠ s.st then s.sc.foldl max 0 + 1 else s.templates.length) ∧
    (useArrays s true).2.2 = (if s.sc ≠ s.st then s.sc.foldl max 0 + 1 else s.templates.length) ∧
    (useArrays s true).2.1 = s.sc ∧
    idCount s true = (if s.sc ≠ s.st then s.sc.foldl max 0 + 1 else s.templates.length) := by
  obtain ⟨h1, h2, h3⟩ := useArrays_spec s true
  have hid : idCount s true = (if s.sc ≠ s.st then s.sc.foldl max 0 + 1 else s.templates.length) := by
    simp [idCount]
  exact ⟨by rw [h1, hid], by rw [h2, hid], by rw [h3]; rfl, hid⟩

/-- on a dataset that loads (every spike's template exists) every id of the selected assignment is below the number
of ids of its space -/
theorem assignment_lt_idCount (s : Stored) (cl : Bool) (hst : ∀ t ∈ s.st, t < s.templates.length) :
    ∀ t ∈ assignment s cl, t < idCount s cl := by
  intro t ht
  unfold assignment at ht
  unfold idCount
  cases cl
  · simpa using hst t (by simpa using ht)
  · by_cases h : s.sc = s.st
    · have ht' : t ∈ s.st := by rw [← h]; simpa using ht
      simpa [h] using hst t ht'
    · have ht' : t ∈ s.sc := by simpa using ht
      have := C08.Lemmas.mem_sc_le s.sc t ht'
      simp [h]; omega

theorem amplitudesTrueUse_defined (s : Stored) (cl : Bool) (f : Rat)
    (hin : ∀ t ∈ assignment s cl, t < idCount s cl) :
    amplitudesTrueUse s cl f = some (amplitudesTrue (useData s cl) f) := by
  obtain ⟨h1, h2, h3⟩ := useArrays_spec s cl
  unfold amplitudesTrueUse
  have hall : (useArrays s cl).2.1.all (· < (useArrays s cl).2.2) = true := by
    rw [List.all_eq_true, h2, h3]
    intro t ht
    exact decide_eq_true (hin t ht)
  simp only [h1, h2] at hall ⊢
  rw [if_pos ⟨trivial, hall⟩]

/-- a spike id beyond the id space: no result (the real code raises IndexError) -/
theorem amplitudesTrueUse_none (s : Stored) (cl : Bool) (f : Rat)
    (hout : ∃ t ∈ assignment s cl, idCount s cl ≤ t) : amplitudesTrueUse s cl f = none := by
  obtain ⟨_, h2, h3⟩ := useArrays_spec s cl
  obtain ⟨t, ht, hge⟩ := hout
  unfold amplitudesTrueUse
  have hall : ¬ ((useArrays s cl).2.1.all (· < (useArrays s cl).2.2) = true) := by
    rw [List.all_eq_true, h2, h3]
    intro h
    have := of_decide_eq_true (h t ht)
    omega
  simp only []
  rw [if_neg (fun h => hall h.2)]

theorem ampsUse_spec (s : Stored) (cl : Bool) (f : Rat)
    (ha : s.amplitudes.length = (assignment s cl).length) (hin : ∀ t ∈ assignment s cl, t < idCount s cl)
    (t : Nat) (ht : t < idCount s cl) :
    ∃ sa resc av, amplitudesTrueUse s cl f = some (sa, resc, av) ∧
      sa.length = (assignment s cl).length ∧ resc.length = idCount s cl ∧ av.length = idCount s cl ∧
      av.getD t none = meanOver (assignment s cl) sa t ∧
      (av.getD t (some 0) = none ↔ t ∉ assignment s cl) ∧
      (t ∉ assignment s cl → resc.getD t (some []) = none) := by
  obtain ⟨h1, _, h3⟩ := useArrays_spec s cl
  have hw : (useData s cl).wfsW.length = idCount s cl := h1
  have hs : (useData s cl).spikes = assignment s cl := h3
  have ha' : (useData s cl).amplitudes.length = (useData s cl).spikes.length := by rw [hs]; exact ha
  have ht' : t < (useData s cl).wfsW.length := by rw [hw]; exact ht
  obtain ⟨e1, e2⟩ := ampsVUnit_eq_mean (useData s cl) f ha' t ht'
  refine ⟨spikeAmpsUnit (useData s cl) f, rescaledUnit (useData s cl) f, ampsVUnit (useData s cl) f,
    amplitudesTrueUse_defined s cl f hin, ?_, ?_, ?_, ?_, ?_, ?_⟩
  · rw [← hs]; simp [spikeAmpsUnit, spikeAmps_length _ ha']
  · rw [rescaledUnit_length, hw]
  · rw [e2, hw]
  · rw [e1, hs]
  · rw [getD_default _ t (some 0) none (by rw [e2]; exact ht'), ← hs]
    exact ampsVUnit_none_iff _ f ha' t ht'
  · intro hn
    rw [getD_default _ t (some []) none (by rw [rescaledUnit_length]; exact ht')]
    exact rescaledUnit_none _ f ha' t ht' (by rw [hs]; exact hn)

/-! ### the selected waveforms are `(ns, nc)` blocks -/

theorem loadClusters_rect (W : List Mat) (chans : List (List Nat)) (st sc : List Nat) (ns nc : Nat)
    (hst : ∀ t ∈ st, t < W.length) (hW : ∀ M ∈ W, Rect M ns nc) :
    ∀ M ∈ (C08.loadClusters W chans st sc ns nc).1, Rect M ns nc := by
  unfold C08.loadClusters
  by_cases h : sc = st
  · simpa [h] using hW
  · have hne : (sc != st) = true := by simpa using h
    rw [if_pos hne]
    intro M hM
    unfold C08.clusterWaveforms at hM
    simp only [List.mem_map, List.mem_range] at hM
    obtain ⟨c, _, rfl⟩ := hM
    split
    · refine ⟨by simp, ?_⟩
      intro row hrow
      rw [List.mem_replicate] at hrow
      rw [hrow.2]; simp
    · rename_i t heq
      have hmem : t ∈ (C08.mergeMap st sc).getD c [] := by rw [heq]; simp
      rw [(C08.Lemmas.mergeMap_getD_gen st sc c).1, List.mem_filter] at hmem
      have hts : t ∈ st := by
        have := ((PhyVerif.C07.Lemmas.unique_spec (st.map Int.ofNat)).2 t).mp hmem.1
        simpa using this
      have hlt := hst t hts
      apply hW
      rw [List.getD_eq_getElem?_getD, List.getElem?_eq_getElem hlt]
      exact List.getElem_mem hlt
    · refine ⟨by simp, ?_⟩
      intro row hrow
      simp only [List.mem_map, List.mem_range] at hrow
      obtain ⟨_, _, rfl⟩ := hrow
      simp

theorem useArrays_rect (s : Stored) (cl : Bool) (hst : ∀ t ∈ s.st, t < s.templates.length)
    (hW : ∀ M ∈ s.templates, Rect M s.ns s.nc) : ∀ M ∈ (useArrays s cl).1, Rect M s.ns s.nc := by
  unfold useArrays
  cases cl
  · simpa using hW
  · simpa using loadClusters_rect s.templates s.chans s.st s.sc s.ns s.nc hst hW

theorem duration_times_rate (x : Rat) (n : Int) (rate : Rat) (hr : 0 < rate) (h : x = (n : Rat) * 1000 / rate) :
    x * rate = (n : Rat) * 1000 := by
  rw [h]
  field_simp

/-- peak channels and durations of the selected id space: the direct formulas on its waveforms, one per id -/
theorem summariesUse_spec (s : Stored) (cl : Bool) (rate : Rat) (hr : 0 < rate)
    (hst : ∀ t ∈ s.st, t < s.templates.length)
    (hW : ∀ M ∈ s.templates, Rect M s.ns s.nc) (hns : 0 < s.ns) (hnc : 0 < s.nc) (t : Nat)
    (ht : t < idCount s cl) :
    (channelsUse s cl).length = idCount s cl ∧ (durationsUse s cl rate).length = idCount s cl ∧
    ∃ p iM im, IsPeakChannel ((useArrays s cl).1.getD t []) s.nc p ∧
      IsFirstMax (chan ((useArrays s cl).1.getD t []) p) iM ∧
      IsFirstMin (chan ((useArrays s cl).1.getD t []) p) im ∧
      (channelsUse s cl).getD t 0 = p ∧
      (durationsUse s cl rate).getD t 0 = (((iM : Int) - (im : Int) : Int) : Rat) * 1000 / rate ∧
      (durationsUse s cl rate).getD t 0 * rate = (((iM : Int) - (im : Int) : Int) : Rat) * 1000 := by
  have hlen := (useArrays_spec s cl).1
  have hrect := useArrays_rect s cl hst hW
  have ht' : t < (useArrays s cl).1.length := by rw [hlen]; exact ht
  have hWt : Rect ((useArrays s cl).1.getD t []) s.ns s.nc := by
    apply hrect
    rw [List.getD_eq_getElem?_getD, List.getElem?_eq_getElem ht']
    exact List.getElem_mem ht'
  obtain ⟨p, iM, im, hp, hM, hm⟩ := duration_objects_exist _ s.ns s.nc hWt hns hnc
  obtain ⟨c1, c2⟩ := peakChannels_spec (useArrays s cl).1 t s.ns s.nc ht' hWt hns hnc
  refine ⟨by rw [channelsUse, c2, hlen], by rw [durationsUse, waveformDurations_length, hlen],
    p, iM, im, hp, hM, hm, ?_, ?_, ?_⟩
  · exact isPeakChannel_unique _ s.nc _ _ c1 hp
  · exact duration_ms_spec _ rate s.ns s.nc hns hnc hrect t ht' p iM im hp hM hm
  · exact duration_times_rate _ _ rate hr (duration_ms_spec _ rate s.ns s.nc hns hnc hrect t ht' p iM im hp hM hm)

/-! ### `templates_probes` -/

theorem templatesProbes_spec (probes : List Int) (templates : List Mat) (t ns nc : Nat) (ht : t < templates.length)
    (hrect : Rect (templates.getD t []) ns nc) (hns : 0 < ns) (hnc : 0 < nc) (hp : probes.length = nc) :
    (templatesProbes probes templates).length = templates.length ∧
    ∃ p, IsPeakChannel (templates.getD t []) nc p ∧ p < probes.length ∧
      (templatesProbes probes templates).getD t 0 = probes.getD p 0 := by
  obtain ⟨c1, c2⟩ := peakChannels_spec templates t ns nc ht hrect hns hnc
  refine ⟨by simp [templatesProbes, c2], _, c1, by rw [hp]; exact c1.1, ?_⟩
  unfold templatesProbes
  have : t < (peakChannels templates).length := by rw [c2]; exact ht
  simp [List.getD_eq_getElem?_getD, this]

/-! ### the bare `_amplitudes` vector -/

theorem amplitudesVec_eq (ids : List Nat) (amps : List Rat) :
    amplitudesVec ids amps = (meanAmps ids amps).map (·.2) := by
  simp [amplitudesVec, meanAmps]

theorem amplitudesVec_spec (ids : List Nat) (amps : List Rat) (h : amps.length = ids.length) :
    (amplitudesVec ids amps).length = (Np.unique (ids.map Int.ofNat)).length ∧
    ∀ k, k < (Np.unique (ids.map Int.ofNat)).length →
      (Np.unique (ids.map Int.ofNat)).getD k 0 ∈ ids ∧
      0 < (membersOf ids ((Np.unique (ids.map Int.ofNat)).getD k 0)).length ∧
      (amplitudesVec ids amps).getD k 0 =
        ((membersOf ids ((Np.unique (ids.map Int.ofNat)).getD k 0)).map fun i => amps.getD i 0).sum /
          ((membersOf ids ((Np.unique (ids.map Int.ofNat)).getD k 0)).length : Nat) := by
  rw [amplitudesVec_eq, meanAmps_eq ids amps h]
  refine ⟨by simp, ?_⟩
  intro k hk
  have hmem : (Np.unique (ids.map Int.ofNat)).getD k 0 ∈ ids := by
    have h1 : (Np.unique (ids.map Int.ofNat)).getD k 0 ∈ Np.unique (ids.map Int.ofNat) := by
      rw [List.getD_eq_getElem?_getD, List.getElem?_eq_getElem hk]
      exact List.getElem_mem hk
    have := ((PhyVerif.C07.Lemmas.unique_spec (ids.map Int.ofNat)).2 _).mp h1
    simpa using this
  refine ⟨hmem, ?_, ?_⟩
  · rw [← count_eq_members]
    exact List.count_pos_iff.mpr hmem
  · simp [List.getD_eq_getElem?_getD, hk]

/-! ### duration × rate -/

/-! ### unwhitening undoes whitening -/

theorem sumTo_zero (a : Nat → Rat) : sumTo 0 a = 0 := by simp [sumTo]

theorem sumTo_succ (n : Nat) (a : Nat → Rat) : sumTo (n + 1) a = sumTo n a + a n := by
  unfold sumTo
  rw [List.range_succ, List.map_append, List.sum_append]
  simp

theorem sumTo_add (n : Nat) (a b : Nat → Rat) : sumTo n (fun k => a k + b k) = sumTo n a + sumTo n b := by
  induction n with
  | zero => simp [sumTo_zero]
  | succ n ih => rw [sumTo_succ, sumTo_succ, sumTo_succ, ih]; ring

theorem sumTo_mul_right (n : Nat) (a : Nat → Rat) (c : Rat) : sumTo n (fun k => a k * c) = sumTo n a * c := by
  induction n with
  | zero => simp [sumTo_zero]
  | succ n ih => rw [sumTo_succ, sumTo_succ, ih]; ring

theorem sumTo_mul_left (n : Nat) (a : Nat → Rat) (c : Rat) : sumTo n (fun k => c * a k) = c * sumTo n a := by
  induction n with
  | zero => simp [sumTo_zero]
  | succ n ih => rw [sumTo_succ, sumTo_succ, ih]; ring

theorem sumTo_comm (n m : Nat) (a : Nat → Nat → Rat) :
    sumTo n (fun k => sumTo m fun l => a l k) = sumTo m fun l => sumTo n fun k => a l k := by
  induction n with
  | zero => simp [sumTo_zero]; induction m with
    | zero => simp [sumTo_zero]
    | succ m ih => rw [sumTo_succ, ← ih]; simp
  | succ n ih =>
    rw [sumTo_succ, ih, ← sumTo_add]
    apply sumTo_congr
    intro l _
    rw [sumTo_succ]

theorem sumTo_indicator (n j : Nat) (hj : j < n) (a : Nat → Rat) :
    sumTo n (fun l => a l * (if l = j then 1 else 0)) = a j := by
  induction n with
  | zero => omega
  | succ n ih =>
    rw [sumTo_succ]
    by_cases h : j = n
    · subst h
      have : sumTo j (fun l => a l * (if l = j then 1 else 0)) = sumTo j fun _ => 0 := by
        apply sumTo_congr
        intro k hk
        have : k ≠ j := by omega
        simp [this]
      rw [this]
      have z : sumTo j (fun _ => (0 : Rat)) = 0 := by
        have := sumTo_mul_right j (fun _ => 0) 0
        simpa using this
      rw [z]; simp
    · have hj' : j < n := by omega
      rw [ih hj']
      have : n ≠ j := fun e => h e.symm
      simp [this]

theorem rect_row (W : Mat) (ns nc s : Nat) (h : Rect W ns nc) (hs : s < ns) : (W.getD s []).length = nc := by
  apply h.2
  have : s < W.length := by rw [h.1]; exact hs
  rw [List.getD_eq_getElem?_getD, List.getElem?_eq_getElem this]
  exact List.getElem_mem this

theorem matMul_rect (W M : Mat) (ns nc : Nat) (hW : Rect W ns nc) (hM : Rect M nc nc) (hnc : 0 < nc) :
    Rect (matMul W M) ns nc := by
  have hc : ncols M = nc := ncols_of_rect M nc nc hM hnc
  refine ⟨by simp [matMul, hW.1], ?_⟩
  intro row hrow
  simp only [matMul, List.mem_map] at hrow
  obtain ⟨_, _, rfl⟩ := hrow
  simp [hc]

/-- `(U · wm) · wmi = U` entry by entry when `wm · wmi = 1` -/
theorem unwhiten_whitened (U wm wmi : Mat) (ns nc : Nat) (hU : Rect U ns nc) (hnc : 0 < nc)
    (hinv : Unwhitens wm wmi nc) (s j : Nat) (hs : s < ns) (hj : j < nc) :
    entry (matMul (matMul U wm) wmi) s j = entry U s j := by
  obtain ⟨hwm, hwmi, hprod⟩ := hinv
  have hUw : Rect (matMul U wm) ns nc := matMul_rect U wm ns nc hU hwm hnc
  have c1 : ncols wmi = nc := ncols_of_rect wmi nc nc hwmi hnc
  have c2 : ncols wm = nc := ncols_of_rect wm nc nc hwm hnc
  rw [matMul_entry (matMul U wm) wmi s j (by rw [hUw.1]; exact hs) (by rw [c1]; exact hj)
    (by rw [rect_row _ ns nc s hUw hs, hwmi.1]), hwmi.1]
  have e : ∀ k, k < nc → entry (matMul U wm) s k * entry wmi k j =
      sumTo nc fun l => entry U s l * entry wm l k * entry wmi k j := by
    intro k hk
    rw [matMul_entry U wm s k (by rw [hU.1]; exact hs) (by rw [c2]; exact hk)
      (by rw [rect_row _ ns nc s hU hs, hwm.1]), hwm.1, ← sumTo_mul_right]
  rw [sumTo_congr nc _ _ e, sumTo_comm nc nc fun l k => entry U s l * entry wm l k * entry wmi k j]
  have e2 : ∀ l, l < nc → (sumTo nc fun k => entry U s l * entry wm l k * entry wmi k j) =
      entry U s l * (if l = j then 1 else 0) := by
    intro l hl
    rw [← hprod l hl j hj, ← sumTo_mul_left]
    apply sumTo_congr
    intro k _
    ring
  rw [sumTo_congr nc _ _ e2, sumTo_indicator nc j hj]

end PhyVerif.C09.Lemmas
