import PhyVerif.Model.C11
import PhyVerif.Spec.C11
/-! Helper lemmas and full proofs for C11. Statements: `Props/C11.lean`. -/
namespace PhyVerif.C11.Lemmas
open PhyVerif PhyVerif.C11

/-! ### stable insertion sort on (key, index) pairs -/

/-- the comparison used by `Np.argsortStable` -/
abbrev leK : Int × Nat → Int × Nat → Bool := fun a b => decide (a.1 ≤ b.1)

/-- lexicographic (key, index) order -/
def KeyIdxLt (a b : Int × Nat) : Prop := a.1 < b.1 ∨ (a.1 = b.1 ∧ a.2 < b.2)

theorem insertBy_perm {α : Type} (le : α → α → Bool) (x : α) (L : List α) :
    (Np.insertBy le x L).Perm (x :: L) := by
  induction L with
  | nil => exact List.Perm.refl _
  | cons y ys ih =>
    unfold Np.insertBy
    split
    · exact List.Perm.refl _
    · exact (ih.cons y).trans (List.Perm.swap x y ys)

theorem isort_perm {α : Type} (le : α → α → Bool) (l : List α) : (Np.isort le l).Perm l := by
  induction l with
  | nil => exact List.Perm.refl _
  | cons x xs ih =>
    unfold Np.isort
    exact (insertBy_perm le x _).trans (ih.cons x)

theorem insertBy_stable (x : Int × Nat) (L : List (Int × Nat)) (hL : L.Pairwise KeyIdxLt)
    (hx : ∀ y ∈ L, x.2 < y.2) : (Np.insertBy leK x L).Pairwise KeyIdxLt := by
  induction L with
  | nil => simp [Np.insertBy]
  | cons y ys ih =>
    rw [List.pairwise_cons] at hL
    unfold Np.insertBy
    split
    · rename_i hxy
      have hxy' : x.1 ≤ y.1 := by simpa using hxy
      refine List.pairwise_cons.2 ⟨?_, List.pairwise_cons.2 hL⟩
      intro z hz
      have hz2 : x.2 < z.2 := hx z hz
      have hz1 : x.1 ≤ z.1 := by
        rcases List.mem_cons.1 hz with rfl | hz'
        · exact hxy'
        · have := hL.1 z hz'
          unfold KeyIdxLt at this
          omega
      unfold KeyIdxLt
      omega
    · rename_i hxy
      have hxy' : ¬ x.1 ≤ y.1 := by simpa using hxy
      refine List.pairwise_cons.2 ⟨?_, ih hL.2 (fun z hz => hx z (List.mem_cons_of_mem _ hz))⟩
      intro z hz
      rcases List.mem_cons.1 ((insertBy_perm leK x ys).mem_iff.1 hz) with rfl | hz'
      · unfold KeyIdxLt; omega
      · exact hL.1 z hz'

theorem isort_stable (l : List (Int × Nat)) (hl : l.Pairwise (fun a b => a.2 < b.2)) :
    (Np.isort leK l).Pairwise KeyIdxLt := by
  induction l with
  | nil => simp [Np.isort]
  | cons x xs ih =>
    rw [List.pairwise_cons] at hl
    unfold Np.isort
    apply insertBy_stable x _ (ih hl.2)
    intro y hy
    exact hl.1 y ((isort_perm leK xs).mem_iff.1 hy)

theorem zipIdx_pairwise_snd {α : Type} (l : List α) (k : Nat) :
    (l.zipIdx k).Pairwise (fun a b => a.2 < b.2) := by
  induction l generalizing k with
  | nil => simp
  | cons x xs ih =>
    rw [List.zipIdx_cons, List.pairwise_cons]
    refine ⟨?_, ih (k + 1)⟩
    intro p hp
    have := List.mem_zipIdx (x := p.1) (i := p.2) hp
    show k < p.2
    omega

/-! ### small list facts -/

theorem filterMap_eq_map_of_mem {α β : Type} (f : α → Option β) (g : α → β) (l : List α)
    (h : ∀ a ∈ l, f a = some (g a)) : l.filterMap f = l.map g := by
  induction l with
  | nil => rfl
  | cons a as ih =>
    rw [List.filterMap_cons, h a (List.mem_cons_self), List.map_cons,
      ih (fun b hb => h b (List.mem_cons_of_mem _ hb))]

theorem range_filterMap_getElem? {α : Type} (l : List α) :
    (List.range l.length).filterMap (l[·]?) = l := by
  induction l with
  | nil => rfl
  | cons x xs ih =>
    rw [List.length_cons, List.range_succ_eq_map, List.filterMap_cons, List.filterMap_map]
    simp only [List.getElem?_cons_zero]
    exact congrArg (x :: ·) ih

/-! ### origins -/

def originsFrom {α : Type} (k : Nat) (arrays : List (List α)) : List (Nat × Nat) :=
  ((arrays.zipIdx k).map fun p => (List.range p.1.length).map fun i => (p.2, i)).flatten

theorem origins_eq {α : Type} (arrays : List (List α)) : origins arrays = originsFrom 0 arrays := rfl

theorem originsFrom_nil {α : Type} (k : Nat) : originsFrom k ([] : List (List α)) = [] := rfl

theorem originsFrom_cons {α : Type} (k : Nat) (a : List α) (rest : List (List α)) :
    originsFrom k (a :: rest) =
      (List.range a.length).map (fun i => (k, i)) ++ originsFrom (k + 1) rest := by
  simp [originsFrom, List.zipIdx_cons]

theorem originsFrom_length {α : Type} (k : Nat) (arrays : List (List α)) :
    (originsFrom k arrays).length = arrays.flatten.length := by
  induction arrays generalizing k with
  | nil => rfl
  | cons a rest ih =>
    rw [originsFrom_cons, List.flatten_cons, List.length_append, List.length_append, ih]
    simp

theorem originsFrom_fst_ge {α : Type} (k : Nat) (arrays : List (List α)) :
    ∀ o ∈ originsFrom k arrays, k ≤ o.1 := by
  induction arrays generalizing k with
  | nil => intro o ho; cases ho
  | cons a rest ih =>
    intro o ho
    rw [originsFrom_cons, List.mem_append] at ho
    rcases ho with ho | ho
    · obtain ⟨i, _, rfl⟩ := List.mem_map.1 ho
      exact Nat.le_refl _
    · have := ih (k + 1) o ho
      omega

theorem originsFrom_pairwise {α : Type} (k : Nat) (arrays : List (List α)) :
    (originsFrom k arrays).Pairwise originLt := by
  induction arrays generalizing k with
  | nil => exact List.Pairwise.nil
  | cons a rest ih =>
    rw [originsFrom_cons, List.pairwise_append]
    refine ⟨?_, ih (k + 1), ?_⟩
    · rw [List.pairwise_map]
      exact List.Pairwise.imp (fun h => Or.inr ⟨rfl, h⟩) List.pairwise_lt_range
    · intro x hx y hy
      obtain ⟨i, _, rfl⟩ := List.mem_map.1 hx
      have := originsFrom_fst_ge (k + 1) rest y hy
      exact Or.inl (by show k < y.1; omega)

theorem originsFrom_shape {α β : Type} (k : Nat) (a : List (List α)) (b : List (List β))
    (hs : SameShape a b) : originsFrom k a = originsFrom k b := by
  induction a generalizing k b with
  | nil =>
    cases b with
    | nil => rfl
    | cons y ys => have := hs.1; simp at this
  | cons x xs ih =>
    cases b with
    | nil => have := hs.1; simp at this
    | cons y ys =>
      have h0 : x.length = y.length := by simpa using hs.2 0
      have hrest : SameShape xs ys := by
        refine ⟨by simpa using hs.1, fun j => ?_⟩
        simpa using hs.2 (j + 1)
      rw [originsFrom_cons, originsFrom_cons, h0, ih (k + 1) ys hrest]

/-- concatenation position ↦ value, through the origin of that position -/
theorem flatten_getElem?_originsFrom {α : Type} (d : α) (pre suf : List (List α)) (i : Nat) :
    suf.flatten[i]? = ((originsFrom pre.length suf)[i]?).map
      (fun o => ((pre ++ suf).getD o.1 []).getD o.2 d) := by
  induction suf generalizing pre i with
  | nil => simp [originsFrom_nil]
  | cons a rest ih =>
    rw [originsFrom_cons, List.flatten_cons]
    by_cases hi : i < a.length
    · rw [List.getElem?_append_left hi, List.getElem?_append_left (by simpa using hi)]
      simp [List.getD_eq_getElem?_getD, hi]
    · have hi' : a.length ≤ i := Nat.le_of_not_lt hi
      rw [List.getElem?_append_right hi', List.getElem?_append_right (by simpa using hi')]
      have := ih (pre ++ [a]) (i - a.length)
      simp only [List.length_append, List.length_cons, List.length_nil, Nat.zero_add,
        List.append_assoc, List.cons_append, List.nil_append] at this
      simpa using this

theorem flatten_getElem?_origins {α : Type} (d : α) (arrays : List (List α)) (i : Nat) :
    arrays.flatten[i]? = ((origins arrays)[i]?).map
      (fun o => (arrays.getD o.1 []).getD o.2 d) := by
  simpa [origins_eq] using flatten_getElem?_originsFrom d [] arrays i

theorem origins_length {α : Type} (arrays : List (List α)) :
    (origins arrays).length = arrays.flatten.length := originsFrom_length 0 arrays

/-! ### the sorted list of (time, position) pairs -/

def sortedPairs (times : List (List Int)) : List (Int × Nat) :=
  Np.isort leK times.flatten.zipIdx

theorem spikeOrder_eq (times : List (List Int)) :
    spikeOrder times = (sortedPairs times).map (·.2) := rfl

theorem sortedPairs_perm (times : List (List Int)) :
    (sortedPairs times).Perm times.flatten.zipIdx := isort_perm _ _

theorem sortedPairs_get (times : List (List Int)) (p : Int × Nat) (hp : p ∈ sortedPairs times) :
    times.flatten[p.2]? = some p.1 := by
  have := (sortedPairs_perm times).mem_iff.1 hp
  exact List.mem_zipIdx_iff_getElem?.1 this

theorem sortedPairs_stable (times : List (List Int)) :
    (sortedPairs times).Pairwise KeyIdxLt :=
  isort_stable _ (zipIdx_pairwise_snd _ 0)

theorem spikeOrder_perm (times : List (List Int)) :
    (spikeOrder times).Perm (List.range times.flatten.length) := by
  rw [spikeOrder_eq]
  have := (sortedPairs_perm times).map (·.2)
  rwa [List.zipIdx_map_snd, ← List.range_eq_range'] at this

theorem mergedTimes_eq (times : List (List Int)) :
    mergedTimes times = (sortedPairs times).map (·.1) := by
  unfold mergedTimes gather
  rw [spikeOrder_eq, List.filterMap_map]
  exact filterMap_eq_map_of_mem _ _ _ (fun p hp => sortedPairs_get times p hp)

theorem sortedPairs_origin (times : List (List Int)) (p : Int × Nat) (hp : p ∈ sortedPairs times) :
    (origins times)[p.2]? = some ((origins times).getD p.2 (0, 0)) ∧
      timeOf times ((origins times).getD p.2 (0, 0)) = p.1 := by
  have h1 := sortedPairs_get times p hp
  have h2 := flatten_getElem?_origins (0 : Int) times p.2
  rw [h1] at h2
  cases ho : (origins times)[p.2]? with
  | none => rw [ho] at h2; cases h2
  | some o =>
    rw [ho] at h2
    simp only [Option.map_some, Option.some.injEq] at h2
    refine ⟨by simp [List.getD_eq_getElem?_getD, ho], ?_⟩
    simp only [List.getD_eq_getElem?_getD, ho, Option.getD_some]
    exact h2.symm

theorem mergedOrigins_eq (times : List (List Int)) :
    mergedOrigins times = (sortedPairs times).map fun p => (origins times).getD p.2 (0, 0) := by
  unfold mergedOrigins
  rw [spikeOrder_eq, List.filterMap_map]
  exact filterMap_eq_map_of_mem _ _ _ (fun p hp => (sortedPairs_origin times p hp).1)

/-! ### main theorems: spikes -/

theorem merged_perm (times : List (List Int)) :
    (mergedOrigins times).Perm (origins times) := by
  unfold mergedOrigins
  have h := (spikeOrder_perm times).filterMap ((origins times)[·]?)
  rw [← origins_length, range_filterMap_getElem?] at h
  exact h

theorem merged_sorted (times : List (List Int)) :
    (mergedTimes times).Pairwise (· ≤ ·) := by
  rw [mergedTimes_eq, List.pairwise_map]
  refine List.Pairwise.imp ?_ (sortedPairs_stable times)
  intro a b h
  unfold KeyIdxLt at h
  omega

theorem merged_keeps_time (times : List (List Int)) :
    mergedTimes times = (mergedOrigins times).map (timeOf times) := by
  rw [mergedTimes_eq, mergedOrigins_eq, List.map_map]
  apply List.map_congr_left
  intro p hp
  exact (sortedPairs_origin times p hp).2.symm

theorem merged_stable (times : List (List Int)) :
    (mergedOrigins times).Pairwise fun a b =>
      timeOf times a < timeOf times b ∨ (timeOf times a = timeOf times b ∧ originLt a b) := by
  rw [mergedOrigins_eq, List.pairwise_map]
  refine List.Pairwise.imp_of_mem ?_ (sortedPairs_stable times)
  intro a b ha hb h
  obtain ⟨ha1, ha2⟩ := sortedPairs_origin times a ha
  obtain ⟨hb1, hb2⟩ := sortedPairs_origin times b hb
  rw [ha2, hb2]
  rcases h with h | ⟨h1, h2⟩
  · exact Or.inl h
  · refine Or.inr ⟨h1, ?_⟩
    have hpw := originsFrom_pairwise 0 times
    rw [← origins_eq, List.pairwise_iff_getElem] at hpw
    have hbl : b.2 < (origins times).length := by
      rcases Nat.lt_or_ge b.2 (origins times).length with h | h
      · exact h
      · rw [List.getElem?_eq_none h] at hb1; cases hb1
    have hal : a.2 < (origins times).length := Nat.lt_trans h2 hbl
    have := hpw a.2 b.2 hal hbl h2
    simpa [List.getD_eq_getElem?_getD, List.getElem?_eq_getElem hal,
      List.getElem?_eq_getElem hbl] using this

theorem gather_by_origin {α : Type} (times : List (List Int)) (arrays : List (List α))
    (hs : SameShape times arrays) (d : α) :
    gather arrays (spikeOrder times) =
      (mergedOrigins times).map fun o => (arrays.getD o.1 []).getD o.2 d := by
  unfold gather mergedOrigins
  rw [List.map_filterMap]
  congr 1
  funext i
  rw [flatten_getElem?_origins d arrays i, origins_eq, origins_eq, originsFrom_shape 0 times arrays hs]

/-! ### id offsets -/

theorem le_foldl_max (l : List Nat) : ∀ a : Nat, a ≤ l.foldl max a ∧ ∀ v ∈ l, v ≤ l.foldl max a := by
  induction l with
  | nil => intro a; simp
  | cons b l ih =>
    intro a
    rw [List.foldl_cons]
    have h := ih (max a b)
    refine ⟨by omega, ?_⟩
    intro v hv
    rcases List.mem_cons.mp hv with h1 | h1
    · subst h1; omega
    · exact h.2 v h1

theorem idOffsetsFrom_length (off : Nat) (ids : List (List Nat)) :
    (idOffsetsFrom off ids).length = ids.length := by
  induction ids generalizing off with
  | nil => rfl
  | cons a rest ih => simp [idOffsetsFrom, ih]

/-- the shifted array of probe `k` -/
theorem shiftIds_getD (ids : List (List Nat)) (k : Nat) (hk : k < ids.length) :
    (shiftIds ids).getD k [] = (ids.getD k []).map (· + (idOffsets ids).getD k 0) := by
  have hk' : k < (idOffsets ids).length := by
    unfold idOffsets; rw [idOffsetsFrom_length]; exact hk
  have hz : (ids.zip (idOffsets ids))[k]? = some (ids[k], (idOffsets ids)[k]) := by
    rw [List.getElem?_zip_eq_some]
    exact ⟨List.getElem?_eq_getElem hk, List.getElem?_eq_getElem hk'⟩
  unfold shiftIds
  simp [List.getD_eq_getElem?_getD, List.getElem?_eq_getElem hk, List.getElem?_eq_getElem hk', hz]

/-- every later offset is at least the start offset -/
theorem idOffsetsFrom_ge (off : Nat) (ids : List (List Nat)) (l : Nat) (hl : l < ids.length) :
    off ≤ (idOffsetsFrom off ids).getD l 0 := by
  induction ids generalizing off l with
  | nil => simp at hl
  | cons a rest ih =>
    cases l with
    | zero => simp [idOffsetsFrom]
    | succ l' =>
      have := ih (off + a.foldl max 0 + 1) l' (by simpa using hl)
      simp only [idOffsetsFrom, List.getD_cons_succ]
      omega

/-- the id range of probe `k` ends before the offset of any later probe -/
theorem idOffsetsFrom_mono (off : Nat) (ids : List (List Nat)) (k l : Nat) (hkl : k < l)
    (hl : l < ids.length) :
    (idOffsetsFrom off ids).getD k 0 + (ids.getD k []).foldl max 0 + 1 ≤
      (idOffsetsFrom off ids).getD l 0 := by
  induction ids generalizing off k l with
  | nil => simp at hl
  | cons a rest ih =>
    cases l with
    | zero => omega
    | succ l' =>
      have hl' : l' < rest.length := by simpa using hl
      cases k with
      | zero =>
        simp only [idOffsetsFrom, List.getD_cons_zero, List.getD_cons_succ]
        exact idOffsetsFrom_ge _ rest l' hl'
      | succ k' =>
        simp only [idOffsetsFrom, List.getD_cons_succ]
        exact ih _ k' l' (by omega) hl'

theorem ids_shifted (ids : List (List Nat)) (k i : Nat)
    (hi : i < (ids.getD k []).length) :
    ((shiftIds ids).getD k []).getD i 0 = (ids.getD k []).getD i 0 + (idOffsets ids).getD k 0 := by
  have hk : k < ids.length := by
    rcases Nat.lt_or_ge k ids.length with h | h
    · exact h
    · rw [List.getD_eq_getElem?_getD, List.getElem?_eq_none h] at hi; simp at hi
  rw [shiftIds_getD ids k hk]
  generalize ids.getD k [] = a at hi ⊢
  generalize (idOffsets ids).getD k 0 = o
  simp [List.getD_eq_getElem?_getD, List.getElem?_eq_getElem hi]

theorem ids_disjoint (ids : List (List Nat)) (k l : Nat) (hkl : k < l) :
    ∀ a ∈ (shiftIds ids).getD k [], ∀ b ∈ (shiftIds ids).getD l [], a < b := by
  intro a ha b hb
  have hl : l < ids.length := by
    rcases Nat.lt_or_ge l ids.length with h | h
    · exact h
    · have : (shiftIds ids)[l]? = none := by
        apply List.getElem?_eq_none
        simp [shiftIds]; omega
      rw [List.getD_eq_getElem?_getD, this] at hb; simp at hb
  rw [shiftIds_getD ids k (by omega)] at ha
  rw [shiftIds_getD ids l hl] at hb
  obtain ⟨x, hx, rfl⟩ := List.mem_map.1 ha
  obtain ⟨y, _, rfl⟩ := List.mem_map.1 hb
  have h1 := (le_foldl_max (ids.getD k []) 0).2 x hx
  have h2 := idOffsetsFrom_mono 0 ids k l hkl hl
  unfold idOffsets
  show x + _ < y + _
  omega

/-! ### cluster → probe table -/

def clusterProbesFrom (j : Nat) (ids : List (List Nat)) : List Nat :=
  ((ids.zipIdx j).map fun p => List.replicate ((p.1.foldl max 0) + 1) p.2).flatten

theorem clusterProbesFrom_cons (j : Nat) (a : List Nat) (rest : List (List Nat)) :
    clusterProbesFrom j (a :: rest) =
      List.replicate (a.foldl max 0 + 1) j ++ clusterProbesFrom (j + 1) rest := by
  simp [clusterProbesFrom, List.zipIdx_cons]

theorem clusterProbesFrom_ok (ids : List (List Nat)) (pre : List Nat) (off j k c dflt : Nat)
    (hpre : pre.length = off) (hk : k < ids.length) (hc : c ≤ (ids.getD k []).foldl max 0) :
    (pre ++ clusterProbesFrom j ids).getD (c + (idOffsetsFrom off ids).getD k 0) dflt = j + k := by
  induction ids generalizing pre off j k with
  | nil => simp at hk
  | cons a rest ih =>
    rw [clusterProbesFrom_cons]
    cases k with
    | zero =>
      subst hpre
      simp only [List.getD_cons_zero] at hc
      simp only [idOffsetsFrom, List.getD_cons_zero, Nat.add_zero]
      rw [List.getD_eq_getElem?_getD, List.getElem?_append_right (by omega),
        List.getElem?_append_left (by simp; omega), Nat.add_sub_cancel,
        List.getElem?_replicate, if_pos (by omega)]
      rfl
    | succ k' =>
      simp only [List.getD_cons_succ] at hc
      simp only [idOffsetsFrom, List.getD_cons_succ]
      rw [← List.append_assoc]
      have := ih (pre ++ List.replicate (a.foldl max 0 + 1) j) (off + a.foldl max 0 + 1) (j + 1) k'
        (by simp; omega) (by simpa using hk) hc
      rw [this]; omega

theorem clusterProbes_ok (ids : List (List Nat)) (k : Nat) (hk : k < ids.length) (c : Nat)
    (hc : c ≤ (ids.getD k []).foldl max 0) :
    (clusterProbes ids).getD (c + (idOffsets ids).getD k 0) (ids.length) = k := by
  have := clusterProbesFrom_ok ids [] 0 0 k c ids.length rfl hk hc
  simpa [clusterProbesFrom, clusterProbes, idOffsets] using this

/-! ### metadata -/

theorem metadata_renumbered {β : Type} (md : List (Option (List (Nat × β)))) (offsets : List Nat)
    (k : Nat) (l : List (Nat × β)) (hk : md[k]? = some (some l)) (hlen : offsets.length = md.length)
    (c : Nat) (v : β) (hcv : (c, v) ∈ l) :
    (c + offsets.getD k 0, v) ∈ mergeMetadata md offsets := by
  have hkl : k < md.length := by
    rcases Nat.lt_or_ge k md.length with h | h
    · exact h
    · rw [List.getElem?_eq_none h] at hk; cases hk
  have hko : k < offsets.length := by omega
  unfold mergeMetadata
  rw [List.mem_flatten]
  refine ⟨l.map fun kv => (kv.1 + offsets.getD k 0, kv.2), ?_, ?_⟩
  · rw [List.mem_map]
    refine ⟨(some l, offsets.getD k 0), ?_, rfl⟩
    rw [List.mem_iff_getElem?]
    refine ⟨k, ?_⟩
    rw [List.getElem?_zip_eq_some]
    exact ⟨hk, by simp [List.getD_eq_getElem?_getD, List.getElem?_eq_getElem hko]⟩
  · rw [List.mem_map]
    exact ⟨(c, v), hcv, rfl⟩

end PhyVerif.C11.Lemmas
