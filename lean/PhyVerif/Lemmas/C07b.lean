import PhyVerif.Lemmas.C07
/-! Further lemmas for C07: the groups are increasing (exactly when the supplied spike ids are
increasing inside every cluster), and the groups of supplied ids partition the supplied ids.
Statements: `Props/C07.lean`. -/
namespace PhyVerif.C07.Lemmas
open PhyVerif PhyVerif.C07

/-- on a strictly increasing list, `Pairwise R` only has to be checked on increasing pairs -/
theorem pairwise_iff_of_lt (R : Nat → Nat → Prop) : ∀ (L : List Nat), L.Pairwise (· < ·) →
    (L.Pairwise R ↔ ∀ a ∈ L, ∀ b ∈ L, a < b → R a b)
  | [], _ => by simp
  | x :: xs, hL => by
    rw [List.pairwise_cons] at hL
    rw [List.pairwise_cons, pairwise_iff_of_lt R xs hL.2]
    constructor
    · rintro ⟨h1, h2⟩ a ha b hb hab
      rcases List.mem_cons.1 ha with rfl | ha'
      · rcases List.mem_cons.1 hb with rfl | hb'
        · omega
        · exact h1 b hb'
      · rcases List.mem_cons.1 hb with rfl | hb'
        · have := hL.1 a ha'; omega
        · exact h2 a ha' b hb' hab
    · intro h
      exact ⟨fun b hb => h x (by simp) b (List.mem_cons_of_mem _ hb) (hL.1 b hb),
        fun a ha b hb hab => h a (List.mem_cons_of_mem _ ha) b (List.mem_cons_of_mem _ hb) hab⟩

/-- the positions carrying cluster `c`, increasing -/
def positions (sc : List Nat) (c : Nat) : List Nat :=
  (List.range sc.length).filter fun i => sc.getD i 0 == c

theorem positions_pairwise (sc : List Nat) (c : Nat) : (positions sc c).Pairwise (· < ·) :=
  List.Pairwise.filter _ List.pairwise_lt_range

theorem mem_positions (sc : List Nat) (c i : Nat) :
    i ∈ positions sc c ↔ i < sc.length ∧ sc.getD i 0 = c := by
  simp [positions, List.mem_filter]

theorem members_some (sc l : List Nat) (c : Nat) :
    members sc (some l) c = (positions sc c).map fun i => l.getD i 0 := rfl

/-- a group of supplied ids is increasing exactly when the ids increase along the positions of
that cluster -/
theorem members_pairwise_iff (sc l : List Nat) (c : Nat) :
    (members sc (some l) c).Pairwise (· < ·) ↔
      ∀ i j, i < j → j < sc.length → sc.getD i 0 = c → sc.getD j 0 = c → l.getD i 0 < l.getD j 0 := by
  rw [members_some, List.pairwise_map,
    pairwise_iff_of_lt (fun i j => l.getD i 0 < l.getD j 0) _ (positions_pairwise sc c)]
  constructor
  · intro h i j hij hj hi hjc
    exact h i ((mem_positions sc c i).2 ⟨by omega, hi⟩) j ((mem_positions sc c j).2 ⟨hj, hjc⟩) hij
  · intro h i hi j hj hij
    obtain ⟨_, hic⟩ := (mem_positions sc c i).1 hi
    obtain ⟨hjl, hjc⟩ := (mem_positions sc c j).1 hj
    exact h i j hij hjl hic hjc

theorem members_none_pairwise (sc : List Nat) (c : Nat) :
    (members sc none c).Pairwise (· < ·) := by
  rw [members_none]; exact positions_pairwise sc c

theorem getD_lt_of_pairwise_lt (l : List Nat) (h : l.Pairwise (· < ·)) (i j : Nat) (hij : i < j)
    (hj : j < l.length) : l.getD i 0 < l.getD j 0 := by
  have hi : i < l.length := by omega
  rw [List.getD_eq_getElem?_getD, List.getD_eq_getElem?_getD, List.getElem?_eq_getElem hi,
    List.getElem?_eq_getElem hj]
  exact (List.pairwise_iff_getElem.1 h) i j hi hj hij

theorem mem_specGroups (sc : List Nat) (ids : Option (List Nat)) (p : Nat × List Nat) :
    p ∈ specGroups sc ids ↔ p.1 ∈ sc ∧ p.2 = members sc ids p.1 := by
  obtain ⟨_, hmem⟩ := distinctSorted_spec sc
  unfold specGroups
  rw [List.mem_map]
  constructor
  · rintro ⟨c, hc, rfl⟩; exact ⟨(hmem c).1 hc, rfl⟩
  · rintro ⟨h1, h2⟩
    exact ⟨p.1, (hmem p.1).2 h1, by rw [← h2]⟩

/-- **the groups are increasing** — always for spike indices, and for supplied spike ids exactly
when the ids increase inside every cluster -/
theorem groups_increasing_iff (w : Nat) (signed : Bool) (sc : List Nat) (ids : Option (List Nat))
    (hw : 0 < w) (hfit : FitsDtype w signed sc)
    (hids : ∀ l, ids = some l → l.length = sc.length) :
    (∀ p ∈ spikesPerCluster w signed sc ids, p.2.Pairwise (· < ·)) ↔
      ∀ l, ids = some l → ∀ i j, i < j → j < sc.length → sc.getD i 0 = sc.getD j 0 →
        l.getD i 0 < l.getD j 0 := by
  rw [groups_eq_spec w signed sc ids hw hfit hids]
  cases ids with
  | none =>
    constructor
    · intro _ l hl; cases hl
    · intro _ p hp
      rw [((mem_specGroups sc none p).1 hp).2]
      exact members_none_pairwise sc p.1
  | some l =>
    constructor
    · intro h l' hl' i j hij hj hsc
      cases hl'
      have hjm : sc.getD j 0 ∈ sc := by
        rw [List.getD_eq_getElem?_getD, List.getElem?_eq_getElem hj]; exact List.getElem_mem hj
      have := h (sc.getD j 0, members sc (some l) (sc.getD j 0))
        ((mem_specGroups sc (some l) _).2 ⟨hjm, rfl⟩)
      exact (members_pairwise_iff sc l (sc.getD j 0)).1 this i j hij hj hsc rfl
    · intro h p hp
      rw [((mem_specGroups sc (some l) p).1 hp).2, members_pairwise_iff]
      intro i j hij hj hi hjc
      exact h l rfl i j hij hj (by rw [hi, hjc])

theorem groups_increasing (w : Nat) (signed : Bool) (sc : List Nat) (ids : Option (List Nat))
    (hw : 0 < w) (hfit : FitsDtype w signed sc)
    (hids : ∀ l, ids = some l → l.length = sc.length ∧ l.Pairwise (· < ·)) :
    ∀ p ∈ spikesPerCluster w signed sc ids, p.2.Pairwise (· < ·) := by
  apply (groups_increasing_iff w signed sc ids hw hfit (fun l hl => (hids l hl).1)).2
  intro l hl i j hij hj _
  obtain ⟨hlen, hpw⟩ := hids l hl
  exact getD_lt_of_pairwise_lt l hpw i j hij (by omega)

/-- with supplied spike ids the groups partition the SUPPLIED ids -/
theorem groups_partition_ids (sc l : List Nat) (hlen : l.length = sc.length) :
    ((specGroups sc (some l)).map (·.1)).Pairwise (· < ·) ∧
    ((specGroups sc (some l)).map (·.2)).flatten.Perm l := by
  obtain ⟨hk, hp⟩ := groups_partition sc
  refine ⟨by rw [specGroups_keys] at hk ⊢; exact hk, ?_⟩
  have h1 : ((specGroups sc (some l)).map (·.2)).flatten =
      (((specGroups sc none).map (·.2)).flatten).map (fun i => l.getD i 0) := by
    unfold specGroups
    rw [List.map_map, List.map_map, List.map_flatten, List.map_map]
    congr 1
    apply List.map_congr_left
    intro c _
    show members sc (some l) c = (members sc none c).map fun i => l.getD i 0
    rw [members_none]; rfl
  have h2 : (List.range sc.length).map (fun i => l.getD i 0) = l := by
    apply List.ext_getElem
    · simp [hlen]
    · intro i h1 _
      have hi : i < l.length := by simpa [hlen] using h1
      simp [List.getD_eq_getElem?_getD, List.getElem?_eq_getElem hi]
  rw [h1]
  exact (hp.map _).trans (by rw [h2])

/-- every cluster present has at least one member: the divisor of the grouped mean is positive -/
theorem groupedSums_count_pos (arr : List Int) (sc : List Nat) :
    ∀ p ∈ groupedSums arr sc, 0 < p.2 := by
  obtain ⟨_, hmem⟩ := distinctSorted_spec sc
  intro p hp
  unfold groupedSums at hp
  obtain ⟨c, hc, rfl⟩ := List.mem_map.1 hp
  obtain ⟨i, hi, hic⟩ := List.mem_iff_getElem.1 ((hmem c).1 hc)
  apply List.length_pos_of_mem (a := i)
  simp [List.mem_filter, hi, List.getD_eq_getElem?_getD, hic]

theorem groupedMeanQ_spec (arr : List Int) (sc : List Nat) (h : arr.length = sc.length) :
    groupedMeanQ arr sc = some ((groupedSums arr sc).map fun p => (p.1 : Rat) / (p.2 : Rat)) ∧
    ∀ p ∈ groupedSums arr sc, 0 < p.2 := by
  refine ⟨?_, groupedSums_count_pos arr sc⟩
  unfold groupedMeanQ
  rw [groupedMean_spec arr sc h]
  rfl

end PhyVerif.C07.Lemmas
