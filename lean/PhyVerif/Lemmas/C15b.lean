import PhyVerif.Model.C15b
import PhyVerif.Spec.C15b
import PhyVerif.Lemmas.C15
import PhyVerif.Lemmas.C07
/-! Proofs for the second part of C15 (`Model/C15b.lean`). Statements: `Props/C15.lean`. -/
namespace PhyVerif.C15.Lemmas
open PhyVerif PhyVerif.C15

/-! ### firing rate with its factor -/

theorem firing_rate_eq (sc : List Int) (ids : List Nat) (bin : Rat) (dur : Option Rat)
    (hdom : InDom sc ids) (hb : 0 < bin) :
    firingRate sc (some ids) bin dur = some (specFiringRate sc ids bin dur) := by
  unfold firingRate
  simp only [hb, not_true_eq_false, ↓reduceIte, idsOr, firing_outer sc ids hdom, Option.some.injEq]
  simp [specFiring, specFiringRate, List.map_map, Function.comp_def]

theorem firing_zero_of_empty (sc : List Int) (ids : List Nat) (bin : Rat) (dur : Option Rat)
    (i : Nat) (hi : i < ids.length) (he : Int.ofNat (ids.getD i 0) ∉ sc) (j : Nat) (hj : j < ids.length) :
    ((specFiringRate sc ids bin dur).getD i []).getD j 0 = 0 ∧
    ((specFiringRate sc ids bin dur).getD j []).getD i 0 = 0 := by
  have h0 : sc.count (Int.ofNat (ids.getD i 0)) = 0 := List.count_eq_zero.mpr he
  have ei : ids.getD i 0 = ids[i] := by simp [List.getD_eq_getElem?_getD, hi]
  rw [ei] at h0
  simp only [Int.ofNat_eq_natCast] at h0
  simp [specFiringRate, List.getD_eq_getElem?_getD, hi, hj, h0, Rat.zero_mul, Rat.mul_zero]

/-! ### `cluster_ids=None` -/

theorem unique_inDom (sc : List Int) (h : ∀ c ∈ sc, 0 ≤ c) : InDom sc (Np.unique sc) := by
  obtain ⟨h1, h2⟩ := C07.Lemmas.unique_spec sc
  refine ⟨?_, ?_⟩
  · exact h1.imp (fun hab => Nat.ne_of_lt hab)
  · intro c hc
    refine ⟨h c hc, (h2 c.toNat).mpr ?_⟩
    have : Int.ofNat c.toNat = c := by simp only [Int.ofNat_eq_natCast]; have := h c hc; omega
    show Int.ofNat c.toNat ∈ sc
    rw [this]; exact hc

/-! ### helpers -/

theorem bincount_length_le (idx : List Nat) (n : Nat) (h : ∀ i ∈ idx, i < n) : (Np.bincount idx).length ≤ n := by
  unfold Np.bincount
  simp only [List.length_map, List.length_range, Nat.zero_max]
  split
  · omega
  · rename_i hne
    have hne' : idx ≠ [] := by intro e; simp [e] at hne
    obtain ⟨v, hv⟩ := List.exists_mem_of_ne_nil idx hne'
    have hmax : idx.foldl max 0 < n := by
      have key : ∀ (l : List Nat) (a : Nat), a < n → (∀ i ∈ l, i < n) → l.foldl max a < n := by
        intro l
        induction l with
        | nil => intro a ha _; exact ha
        | cons b l ih =>
          intro a ha hl
          rw [List.foldl_cons]
          apply ih
          · have := hl b (by simp); omega
          · intro i hi; exact hl i (by simp [hi])
      exact key idx 0 (by have := h v hv; omega) h
    omega

theorem bincount_getD (idx : List Nat) (p : Nat) : (Np.bincount idx).getD p 0 = idx.count p := by
  unfold Np.bincount
  simp only [Nat.zero_max]
  generalize hm : (if idx.isEmpty = true then 0 else idx.foldl max 0 + 1) = m
  by_cases hp : p < m
  · simp [List.getD_eq_getElem?_getD, hp]
  · have hc : idx.count p = 0 := by
      apply List.count_eq_zero.mpr
      intro hmem
      apply hp
      have hne : idx.isEmpty = false := by cases idx <;> simp_all
      simp only [hne, Bool.false_eq_true, ↓reduceIte] at hm
      have := (Np.Lemmas.le_foldl_max idx 0).2 p hmem
      omega
    rw [hc]
    simp [List.getD_eq_getElem?_getD, hp]

theorem increment_spec (arr idx : List Nat) (h : ∀ i ∈ idx, i < arr.length) :
    ∃ r, increment arr idx = some r ∧ r.length = arr.length ∧
      ∀ p, r.getD p 0 = arr.getD p 0 + idx.count p := by
  have hlen := bincount_length_le idx arr.length h
  unfold increment
  simp only [hlen, ↓reduceIte]
  refine ⟨_, rfl, ?_, ?_⟩
  · simp only [List.length_append, List.length_zipWith, List.length_take, List.length_drop]; omega
  · intro p
    rw [← bincount_getD idx p]
    generalize Np.bincount idx = bb at hlen
    by_cases hp : p < bb.length
    · have h1 : p < arr.length := by omega
      simp [List.getD_eq_getElem?_getD, List.getElem?_append, List.length_zipWith, hp, h1,
        List.getElem?_zipWith, List.getElem?_take, Nat.min_eq_left hlen]
    · have hz : bb.getD p 0 = 0 := by
        rw [List.getD_eq_getElem?_getD, List.getElem?_eq_none (by omega)]; rfl
      rw [hz]
      have hl : (List.zipWith (· + ·) (List.take bb.length arr) bb).length = bb.length := by
        simp [List.length_zipWith, List.length_take]; omega
      simp only [List.getD_eq_getElem?_getD, Nat.add_zero]
      rw [List.getElem?_append_right (by omega), hl, List.getElem?_drop]
      congr 2
      omega

theorem diffShifted_spec (arr : List Int) (s : Nat) (hs : s ≤ arr.length) :
    ∃ d, diffShifted arr s = some d ∧ d.length = arr.length - s ∧
      ∀ a, a < arr.length - s → d.getD a 0 = arr.getD (a + s) 0 - arr.getD a 0 := by
  unfold diffShifted
  simp only [hs, ↓reduceIte]
  refine ⟨_, rfl, by simp [List.length_zipWith, List.length_drop, List.length_take], ?_⟩
  intro a ha
  have h1 : a + s < arr.length := by omega
  have h2 : a < arr.length := by omega
  have h3 : s + a < arr.length := by omega
  simp [List.getD_eq_getElem?_getD, List.getElem?_zipWith, List.getElem?_drop, List.getElem?_take, ha, h1, h2,
    h3, Nat.add_comm s a]

theorem createArray_shape (nc : Nat) (w : Int) :
    Shape3 (createArray nc w) nc ((w / 2).toNat + 1) ∧
    ∀ i j k, get3 (createArray nc w) i j k = 0 := by
  refine ⟨⟨by simp [createArray], ?_⟩, ?_⟩
  · intro row hrow
    simp only [createArray, List.mem_replicate] at hrow
    obtain ⟨_, rfl⟩ := hrow
    refine ⟨by simp, ?_⟩
    intro v hv
    simp only [List.mem_replicate] at hv
    obtain ⟨_, rfl⟩ := hv
    simp
  · intro i j k
    simp only [get3, createArray, List.getD_eq_getElem?_getD, List.getElem?_replicate]
    by_cases hi : i < nc <;> by_cases hj : j < nc <;> by_cases hk : k < (w / 2).toNat + 1 <;>
      simp [hi, hj, hk, List.getElem?_replicate]


/-! ### float → integer conversions -/

theorem clipLo_pos : 0 < clipLo := by
  unfold clipLo
  rw [Rat.lt_div_iff (by decide), Rat.zero_mul]
  decide

theorem clip_id (x lo hi : Rat) (h1 : lo ≤ x) (h2 : x ≤ hi) : clip x lo hi = x := by
  unfold clip
  rw [if_neg (Rat.not_lt.mpr h1), if_neg (Rat.not_lt.mpr h2)]

theorem truncInt_nonneg (q : Rat) (h : 0 ≤ q) : truncInt q = q.floor := by simp [truncInt, h]

theorem truncInt_intCast (z : Int) : truncInt (z : Rat) = z := by
  unfold truncInt
  split
  · exact Rat.floor_intCast z
  · rw [← Rat.intCast_neg, Rat.floor_intCast]; omega

theorem floor_intdiv (z B : Int) (hB : 0 < B) : ((z : Rat) / (B : Rat)).floor = z / B := by
  have hBq : (0 : Rat) < (B : Rat) := by
    have := (Rat.intCast_lt_intCast (a := 0) (b := B)).mpr hB
    simpa using this
  apply Int.le_antisymm
  · have h1 : ((z : Rat) / (B : Rat)).floor < z / B + 1 := by
      rw [Rat.floor_lt_iff, Rat.div_lt_iff hBq, ← Rat.intCast_mul, Rat.intCast_lt_intCast]
      exact Int.lt_ediv_add_one_mul_self z hB
    omega
  · rw [Rat.le_floor_iff, ← Rat.not_lt, Rat.div_lt_iff hBq, ← Rat.intCast_mul, Rat.intCast_lt_intCast]
    have := Int.ediv_mul_le z (Int.ne_of_gt hB)
    omega

theorem samplesOf_onGrid (rate : Rat) (times : List Rat) (T : List Int) (hlen : T.length = times.length)
    (h : ∀ a, a < times.length → times.getD a 0 * rate = ((T.getD a 0 : Int) : Rat)) :
    samplesOf rate times = T := by
  apply List.ext_getElem
  · simp [samplesOf, hlen]
  · intro a h1 h2
    simp only [samplesOf, List.length_map] at h1
    have := h a h1
    simp only [List.getD_eq_getElem?_getD, List.getElem?_eq_getElem h1, List.getElem?_eq_getElem h2,
      Option.getD_some] at this
    simp only [samplesOf, List.getElem_map, this, truncInt_intCast]

theorem binsize_onGrid (rate bin : Rat) (B : Int) (h1 : clipLo ≤ bin) (h2 : bin ≤ clipHi)
    (hB : rate * bin = ((B : Int) : Rat)) : binsizeOf rate bin = B := by
  unfold binsizeOf
  rw [clip_id _ _ _ h1 h2, hB, truncInt_intCast]

theorem winsize_spec (window bin : Rat) (hb1 : clipLo ≤ bin) (hb2 : bin ≤ clipHi)
    (hw1 : clipLo ≤ window) (hw2 : window ≤ clipHi) :
    0 ≤ ((1 / 2 : Rat) * window / bin).floor ∧
    winsizeBins window bin = 2 * ((1 / 2 : Rat) * window / bin).floor + 1 ∧
    halfOf window bin = ((1 / 2 : Rat) * window / bin).floor.toNat ∧
    winsizeBins window bin = 2 * (halfOf window bin : Int) + 1 := by
  have hbp : 0 < bin := by have := clipLo_pos; grind
  have hwp : 0 < window := by have := clipLo_pos; grind
  have hq : 0 ≤ (1 / 2 : Rat) * window / bin := by
    apply Rat.le_of_lt
    rw [Rat.lt_div_iff hbp, Rat.zero_mul]
    exact Rat.mul_pos (by grind) hwp
  have hf : 0 ≤ ((1 / 2 : Rat) * window / bin).floor := by
    rw [Rat.le_floor_iff]; simpa using hq
  have hw : winsizeBins window bin = 2 * ((1 / 2 : Rat) * window / bin).floor + 1 := by
    unfold winsizeBins
    rw [clip_id _ _ _ hb1 hb2, clip_id _ _ _ hw1 hw2, truncInt_nonneg _ hq]
  refine ⟨hf, hw, ?_, ?_⟩
  · unfold halfOf; rw [hw]; congr 1; omega
  · unfold halfOf; rw [hw]; omega

/-! ### the loop on the count array -/

/-- `ravel?` without the range check -/
def ravelN (nc m : Nat) (e : Ev) : Nat := (e.1 * nc + e.2.1) * m + e.2.2.toNat

def InRange (nc m : Nat) (e : Ev) : Prop := e.1 < nc ∧ e.2.1 < nc ∧ 0 ≤ e.2.2 ∧ e.2.2 < (m : Int)

theorem ravel?_of_inRange (nc m : Nat) (e : Ev) (h : InRange nc m e) : ravel? nc m e = some (ravelN nc m e) := by
  unfold ravel? ravelN
  exact if_pos h

theorem pair_inj (a b a' b' m : Nat) (hb : b < m) (hb' : b' < m) (h : a * m + b = a' * m + b') :
    a = a' ∧ b = b' := by
  have hm : 0 < m := by omega
  have h1 := congrArg (· % m) h
  have h2 := congrArg (· / m) h
  simp only [Nat.mul_comm _ m, Nat.mul_add_mod, Nat.mul_add_div hm, Nat.mod_eq_of_lt hb, Nat.mod_eq_of_lt hb',
    Nat.div_eq_of_lt hb, Nat.div_eq_of_lt hb', Nat.add_zero] at h1 h2
  exact ⟨h2, h1⟩

theorem ravelN_inj (nc m : Nat) (e e' : Ev) (h : InRange nc m e) (h' : InRange nc m e')
    (heq : ravelN nc m e = ravelN nc m e') : e = e' := by
  obtain ⟨i, j, k⟩ := e
  obtain ⟨i', j', k'⟩ := e'
  obtain ⟨_, hj, hk0, hk⟩ := h
  obtain ⟨_, hj', hk0', hk'⟩ := h'
  simp only at hj hk0 hk hj' hk0' hk'
  unfold ravelN at heq
  simp only at heq
  obtain ⟨h1, h2⟩ := pair_inj _ _ _ _ m (by omega) (by omega) heq
  obtain ⟨h3, h4⟩ := pair_inj _ _ _ _ nc hj hj' h1
  have : k = k' := by omega
  rw [h3, h4, this]

theorem ravelN_lt (nc m : Nat) (e : Ev) (h : InRange nc m e) : ravelN nc m e < nc * nc * m := by
  obtain ⟨i, j, k⟩ := e
  obtain ⟨hi, hj, hk0, hk⟩ := h
  simp only at hi hj hk0 hk
  unfold ravelN
  simp only
  have h1 : i * nc + j < nc * nc := by
    calc i * nc + j < i * nc + nc := by omega
      _ = (i + 1) * nc := (Nat.succ_mul _ _).symm
      _ ≤ nc * nc := Nat.mul_le_mul_right nc (by omega)
  have h2 : k.toNat < m := by omega
  calc (i * nc + j) * m + k.toNat < (i * nc + j) * m + m := by omega
    _ = (i * nc + j + 1) * m := (Nat.succ_mul _ _).symm
    _ ≤ nc * nc * m := Nat.mul_le_mul_right m (by omega)

theorem count_map_ravel (nc m : Nat) (evs : List Ev) (e0 : Ev) (h : ∀ e ∈ evs, InRange nc m e)
    (h0 : InRange nc m e0) : (evs.map (ravelN nc m)).count (ravelN nc m e0) = evs.count e0 := by
  induction evs with
  | nil => rfl
  | cons e evs ih =>
    rw [List.map_cons, List.count_cons, List.count_cons, ih (fun e' he' => h e' (List.mem_cons_of_mem _ he'))]
    congr 1
    by_cases he : e = e0
    · subst he; simp
    · have : ravelN nc m e ≠ ravelN nc m e0 := fun hh => he (ravelN_inj nc m e e0 (h e List.mem_cons_self) h0 hh)
      simp [he, this]

theorem evAt_inRange (x : Inp) (nc m : Nat) (hs : Sorted x) (hb : 0 < x.bin)
    (hcl : ∀ a, a < x.n → x.cl a < nc) (hm : x.half < (m : Int)) (s : Nat) (mask : Nat → Bool) :
    ∀ e ∈ evAt x s (stepMask x s mask), InRange nc m e := by
  intro e he
  unfold evAt at he
  rw [List.mem_filterMap] at he
  obtain ⟨a, ha, hea⟩ := he
  rw [List.mem_range] at ha
  split at hea
  · rename_i hmask
    simp only [Option.some.injEq] at hea
    subst hea
    have hlt : a + s < x.n := by omega
    unfold stepMask at hmask
    simp only [hlt, ↓reduceIte, Bool.and_eq_true, decide_eq_true_eq] at hmask
    refine ⟨hcl a (by omega), hcl (a + s) hlt, ?_, ?_⟩
    rotate_left
    · show lag x a s < (m : Int)
      have := hmask.2; omega
    show 0 ≤ lag x a s
    unfold lag
    apply Int.ediv_nonneg _ (Int.le_of_lt hb)
    have := hs a (a + s) (by omega) hlt
    omega
  · cases hea

theorem loop_acc (x : Inp) : ∀ (f s : Nat) (mask : Nat → Bool) (acc : List Ev),
    loop x f s mask acc = acc ++ loop x f s mask [] := by
  intro f
  induction f with
  | zero => intro s mask acc; simp [loop]
  | succ k ih =>
    intro s mask acc
    simp only [loop]
    split
    · rw [ih (s + 1) _ (acc ++ _), ih (s + 1) _ ([] ++ _)]
      simp
    · simp

theorem loopArr_spec (x : Inp) (nc m : Nat) (hs : Sorted x) (hb : 0 < x.bin)
    (hcl : ∀ a, a < x.n → x.cl a < nc) (hm : x.half < (m : Int)) :
    ∀ (f s : Nat) (mask : Nat → Bool) (arr : List Nat), arr.length = nc * nc * m →
      ∃ arr', loopArr x nc m f s mask arr = some arr' ∧ arr'.length = arr.length ∧
        ∀ e, InRange nc m e →
          arr'.getD (ravelN nc m e) 0 = arr.getD (ravelN nc m e) 0 + (loop x f s mask []).count e := by
  intro f
  induction f with
  | zero => intro s mask arr _; exact ⟨arr, rfl, rfl, fun e _ => by simp [loop]⟩
  | succ k ih =>
    intro s mask arr hlen
    simp only [loopArr, loop]
    split
    · have hin := evAt_inRange x nc m hs hb hcl hm s mask
      rw [Np.Lemmas.mapM_option_eq_some (ravel? nc m) (ravelN nc m) _
        (fun e he => ravel?_of_inRange nc m e (hin e he))]
      simp only []
      obtain ⟨arr1, h1, h1len, h1get⟩ := increment_spec arr ((evAt x s (stepMask x s mask)).map (ravelN nc m))
        (by
          intro i hi
          obtain ⟨e, he, rfl⟩ := List.mem_map.mp hi
          rw [hlen]; exact ravelN_lt nc m e (hin e he))
      rw [h1]
      simp only []
      obtain ⟨arr', h2, h2len, h2get⟩ := ih (s + 1) (stepMask x s mask) arr1 (by rw [h1len, hlen])
      refine ⟨arr', h2, by rw [h2len, h1len], ?_⟩
      intro e he
      rw [h2get e he, h1get, loop_acc x k (s + 1) _ ([] ++ evAt x s (stepMask x s mask)), List.nil_append,
        List.count_append, count_map_ravel nc m _ e hin he]
      omega
    · exact ⟨arr, rfl, rfl, fun e _ => by simp⟩

theorem correlogramsArr_eq (t : List Int) (sc : List Int) (ids : List Nat) (bin : Int) (half : Nat) (w : Int)
    (hw : (w / 2).toNat = half) (hsorted : t.Pairwise (· ≤ ·)) (hb : 0 < bin) (hlen : sc.length = t.length)
    (hdom : InDom sc ids) :
    correlogramsArr t sc ids bin w = correlograms t sc ids bin half := by
  unfold correlogramsArr correlograms
  rw [Np.Lemmas.indexOf_eq sc ids hdom.1 hdom.2]
  simp only [Option.bind_eq_bind, Option.bind_some, Option.pure_def, hw]
  obtain ⟨x, hx⟩ : ∃ x : Inp, (⟨fun a => t.getD a 0,
      fun a => ((sc.map fun c => ((ids.idxOf c.toNat : Nat) : Int)).getD a 0).toNat,
      t.length, bin, (half : Int)⟩ : Inp) = x := ⟨_, rfl⟩
  rw [hx]
  have hxs : Sorted x := by rw [← hx]; exact sorted_of_pairwise t hsorted _ _ _
  have hxb : 0 < x.bin := by rw [← hx]; exact hb
  have hxn : x.n = t.length := by rw [← hx]
  have hxh : x.half = (half : Int) := by rw [← hx]
  have hcl : ∀ a, a < x.n → x.cl a < ids.length := by
    intro a ha
    rw [← hx] at ha ⊢
    simp only at ha ⊢
    have ha' : a < sc.length := by omega
    have e1 : (sc.map fun c => ((ids.idxOf c.toNat : Nat) : Int)).getD a 0 = ((ids.idxOf sc[a].toNat : Nat) : Int) := by
      simp [List.getD_eq_getElem?_getD, ha']
    rw [e1, Int.toNat_natCast]
    exact List.idxOf_lt_length_iff.mpr (hdom.2 _ (List.getElem_mem ha')).2
  have hzero : (createArray ids.length w).flatten.flatten = List.replicate (ids.length * ids.length * (half + 1)) 0 := by
    simp [createArray, hw, List.flatten_replicate_replicate]
  rw [hzero, ← hxn]
  obtain ⟨arr', h1, _, h1get⟩ := loopArr_spec x ids.length (half + 1) hxs hxb hcl (by rw [hxh]; omega)
    x.n 1 (fun _ => true) (List.replicate (ids.length * ids.length * (half + 1)) 0) (by simp)
  rw [h1]
  simp only [Option.bind_some, Option.some.injEq]
  unfold reshape3 countArray
  apply List.map_congr_left
  intro i hi
  apply List.map_congr_left
  intro j hj
  apply List.map_congr_left
  intro k hk
  rw [List.mem_range] at hi hj hk
  have hr : InRange ids.length (half + 1) (i, j, Int.ofNat k) := ⟨hi, hj, by simp, by simp; omega⟩
  have := h1get (i, j, Int.ofNat k) hr
  simp only [ravelN, Int.ofNat_eq_natCast, Int.toNat_natCast] at this
  rw [this]
  have hlt : (i * ids.length + j) * (half + 1) + k < ids.length * ids.length * (half + 1) := by
    have := ravelN_lt ids.length (half + 1) (i, j, Int.ofNat k) hr
    simpa [ravelN] using this
  simp [List.getD_eq_getElem?_getD, hlt, ccg]


theorem div_eq_of (a b c d : Rat) (hb : b ≠ 0) (hd : d ≠ 0) (h : a * d = c * b) : a / b = c / d := by
  grind

theorem lag_q (ta tb rate bin : Rat) (Ta Tb B : Int) (hr : 0 < rate) (hB : 1 ≤ B)
    (ha : ta * rate = (Ta : Rat)) (hb : tb * rate = (Tb : Rat)) (hbin : rate * bin = (B : Rat)) :
    (tb - ta) / bin = ((Tb - Ta : Int) : Rat) / (B : Rat) := by
  have hBq : (0 : Rat) < (B : Rat) := by
    have := (Rat.intCast_lt_intCast (a := 0) (b := B)).mpr (by omega)
    simpa using this
  have hbin0 : bin ≠ 0 := by
    intro h; rw [h, Rat.mul_zero] at hbin; rw [← hbin] at hBq; exact absurd hBq (Rat.lt_irrefl)
  apply div_eq_of _ _ _ _ hbin0 (by grind)
  rw [Rat.intCast_sub, ← ha, ← hb, ← hbin]
  grind

/-! ### the whole call, in the property's own units -/

theorem zip_tail_of_pairwise (l : List Rat) (h : l.Pairwise (· ≤ ·)) :
    (l.zip l.tail).all (fun p => decide (p.1 ≤ p.2)) = true := by
  induction l with
  | nil => rfl
  | cons a l ih =>
    cases l with
    | nil => rfl
    | cons b l' =>
      rw [List.pairwise_cons] at h
      simp only [List.tail_cons, List.zip_cons_cons, List.all_cons, Bool.and_eq_true, decide_eq_true_eq]
      exact ⟨h.1 b (by simp), by simpa using ih h.2⟩

theorem samples_sorted (times : List Rat) (rate : Rat) (T : List Int) (hr : 0 < rate) (hlen : T.length = times.length)
    (hg : ∀ a, a < times.length → times.getD a 0 * rate = ((T.getD a 0 : Int) : Rat))
    (hs : times.Pairwise (· ≤ ·)) : T.Pairwise (· ≤ ·) := by
  rw [List.pairwise_iff_getElem]
  intro i j hi hj hij
  have h1 := hg i (by omega)
  have h2 := hg j (by omega)
  have hi' : i < times.length := by omega
  have hj' : j < times.length := by omega
  simp only [List.getD_eq_getElem?_getD, List.getElem?_eq_getElem hi, List.getElem?_eq_getElem hj,
    List.getElem?_eq_getElem hi', List.getElem?_eq_getElem hj', Option.getD_some] at h1 h2
  have hle := (List.pairwise_iff_getElem.mp hs) i j hi' hj' hij
  have := Rat.mul_le_mul_of_nonneg_right hle (Rat.le_of_lt hr)
  rw [h1, h2, Rat.intCast_le_intCast] at this
  exact this

theorem specCcg_eq_specSeconds (times : List Rat) (sc : List Int) (ids : List Nat) (rate bin window : Rat)
    (T : List Int) (B : Int) (half : Nat) (g : GridOK times rate bin window T B) :
    specCcg T sc ids B half = specSeconds times sc ids bin half := by
  unfold specCcg specSeconds
  apply List.map_congr_left
  intro i _
  apply List.map_congr_left
  intro j _
  apply List.map_congr_left
  intro k _
  rw [g.len]
  apply congrArg
  apply List.filter_congr
  intro p hp
  have hp' := mem_pairs _ _ hp
  have h1 := g.onGrid p.1 (by omega)
  have h2 := g.onGrid p.2 (by omega)
  rw [lag_q _ _ rate bin _ _ B g.rate_pos g.binPos h1 h2 g.binGrid, floor_intdiv _ _ (by have := g.binPos; omega)]

theorem correlogramsQ_eq (times : List Rat) (sc : List Int) (ids : List Nat) (rate bin window : Rat)
    (T : List Int) (B : Int) (g : GridOK times rate bin window T B)
    (hsorted : times.Pairwise (· ≤ ·)) (hlen : sc.length = times.length) (hdom : InDom sc ids) (sym : Bool) :
    correlogramsQ times sc (some ids) rate bin window sym =
      some (if sym then symmetrize (specSeconds times sc ids bin (halfOf window bin))
            else specSeconds times sc ids bin (halfOf window bin)) := by
  have hT := samples_sorted times rate T g.rate_pos g.len g.onGrid hsorted
  have hB : 0 < B := by have := g.binPos; omega
  unfold correlogramsQ
  rw [if_neg (by simp [g.rate_pos]), if_neg (by simp [zip_tail_of_pairwise times hsorted]),
    if_neg (by simp [hlen]), binsize_onGrid rate bin B g.bin_lo g.bin_hi g.binGrid,
    if_neg (by omega), samplesOf_onGrid rate times T g.len g.onGrid]
  simp only [idsOr]
  rw [correlogramsArr_eq T sc ids B (halfOf window bin) (winsizeBins window bin) rfl hT hB (by rw [hlen, g.len]) hdom,
    correlograms_eq_spec T sc ids B (halfOf window bin) hT hB (by rw [hlen, g.len]) hdom,
    specCcg_eq_specSeconds times sc ids rate bin window T B _ g]

end PhyVerif.C15.Lemmas
