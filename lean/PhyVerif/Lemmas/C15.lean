import PhyVerif.Model.C15
import PhyVerif.Spec.C15
import PhyVerif.Lemmas.Np
/-! Helper lemmas and full proofs for C15. Statements of the property theorems: `Props/C15.lean`. -/
namespace PhyVerif.C15.Lemmas
open PhyVerif PhyVerif.C15

variable (x : Inp)

/-- events at shift `s` according to the specification -/
def E (s : Nat) : List Ev :=
  (List.range (x.n - s)).filterMap fun a =>
    if lag x a s ≤ x.half then some (x.cl a, x.cl (a + s), lag x a s) else none

def upTo (s : Nat) : List Ev := (List.range' 1 (s - 1)).flatMap (E x)


theorem lag_mono (hs : Sorted x) (hb : 0 < x.bin) (a s' s : Nat) (h : s' ≤ s) (hn : a + s < x.n) :
    lag x a s' ≤ lag x a s := by
  unfold lag
  apply Int.ediv_le_ediv hb
  have := hs (a + s') (a + s) (by omega) hn
  omega

def MaskInv (s : Nat) (mask : Nat → Bool) : Prop :=
  ∀ a, mask a = true ↔ ∀ s', 1 ≤ s' → s' < s → a + s' < x.n → lag x a s' ≤ x.half

theorem stepMask_inv (s : Nat) (hs1 : 1 ≤ s) (mask) (h : MaskInv x s mask) : MaskInv x (s+1) (stepMask x s mask) := by
  intro a
  unfold stepMask
  by_cases hlt : a + s < x.n
  · simp only [hlt, if_true, Bool.and_eq_true, decide_eq_true_eq]
    rw [h a]
    constructor
    · rintro ⟨h1, h2⟩ s' hs1 hs2 hs3
      by_cases he : s' = s
      · subst he; exact h2
      · exact h1 s' hs1 (by omega) hs3
    · intro hall
      exact ⟨fun s' a1 a2 a3 => hall s' a1 (by omega) a3, hall s hs1 (by omega) hlt⟩
  · simp only [hlt, if_false]
    rw [h a]
    constructor
    · intro h1 s' a1 a2 a3
      exact h1 s' a1 (by omega) a3
    · intro h1 s' a1 a2 a3
      exact h1 s' a1 (by omega) a3


theorem filterMap_congr' {α β : Type} {f g : α → Option β} :
    ∀ (l : List α), (∀ a ∈ l, f a = g a) → l.filterMap f = l.filterMap g := by
  intro l
  induction l with
  | nil => intro _; rfl
  | cons a t ih =>
    intro h
    simp only [List.filterMap_cons]
    rw [h a (by simp), ih (fun b hb => h b (by simp [hb]))]

theorem evAt_eq_E (hs : Sorted x) (hb : 0 < x.bin) (s : Nat) (hs1 : 1 ≤ s) (mask)
    (h : MaskInv x s mask) : evAt x s (stepMask x s mask) = E x s := by
  unfold evAt E
  apply filterMap_congr'
  intro a ha
  rw [List.mem_range] at ha
  have hlt : a + s < x.n := by omega
  have hiff : stepMask x s mask a = true ↔ lag x a s ≤ x.half := by
    have := stepMask_inv x s hs1 mask h a
    rw [this]
    constructor
    · intro hall; exact hall s hs1 (by omega) hlt
    · intro hle s' a1 a2 a3
      exact Int.le_trans (lag_mono x hs hb a s' s (by omega) hlt) hle
  by_cases hm : stepMask x s mask a = true
  · have := hiff.mp hm; simp [hm, this]
  · have h2 : ¬ lag x a s ≤ x.half := fun hh => hm (hiff.mpr hh)
    simp [hm, h2]

theorem E_nil_of_nomask (hs : Sorted x) (hb : 0 < x.bin) (s : Nat) (mask)
    (h : MaskInv x s mask) (hno : (List.range (x.n - s)).any mask = false) :
    ∀ s'', s ≤ s'' → E x s'' = [] := by
  intro s'' hle
  unfold E
  rw [List.filterMap_eq_nil_iff]
  intro a ha
  rw [List.mem_range] at ha
  have hma : mask a = false := by
    rw [List.any_eq_false] at hno
    have := hno a (by rw [List.mem_range]; omega)
    simpa using this
  have : ¬ (∀ s', 1 ≤ s' → s' < s → a + s' < x.n → lag x a s' ≤ x.half) := by
    intro hall; have := (h a).mpr hall; rw [hma] at this; exact Bool.noConfusion this
  have hgt : ¬ lag x a s'' ≤ x.half := by
    intro hle2
    apply this
    intro s' a1 a2 a3
    exact Int.le_trans (lag_mono x hs hb a s' s'' (by omega) (by omega)) hle2
  simp [hgt]

theorem upTo_succ (s : Nat) (hs1 : 1 ≤ s) : upTo x (s+1) = upTo x s ++ E x s := by
  unfold upTo
  have : s + 1 - 1 = (s - 1) + 1 := by omega
  rw [this, List.range'_1_concat, List.flatMap_append]
  have : 1 + (s - 1) = s := by omega
  simp [this]


theorem upTo_stable (s0 : Nat) (h1 : 1 ≤ s0) (hnil : ∀ s'', s0 ≤ s'' → E x s'' = []) :
    ∀ d, upTo x (s0 + d) = upTo x s0 := by
  intro d
  induction d with
  | zero => rfl
  | succ k ih =>
    have : s0 + (k + 1) = (s0 + k) + 1 := by omega
    rw [this, upTo_succ x (s0 + k) (by omega), ih, hnil (s0 + k) (by omega)]
    simp

theorem E_nil_of_ge (s : Nat) (h : x.n ≤ s) : E x s = [] := by
  unfold E
  have : x.n - s = 0 := by omega
  simp [this]

theorem upTo_zero : upTo x 0 = [] := by simp [upTo]
theorem upTo_one : upTo x 1 = [] := by simp [upTo]

/-- once every shift ≥ s contributes nothing, `upTo s` is already the full enumeration -/
theorem upTo_full (s : Nat) (h1 : 1 ≤ s) (hnil : ∀ s'', s ≤ s'' → E x s'' = []) :
    upTo x s = upTo x x.n := by
  by_cases hle : s ≤ x.n
  · have := upTo_stable x s h1 hnil (x.n - s)
    have e : s + (x.n - s) = x.n := by omega
    rw [e] at this; exact this.symm
  · by_cases hn : x.n = 0
    · rw [hn, upTo_zero]
      have := upTo_stable x 1 (by omega) (fun s'' _ => E_nil_of_ge x s'' (by omega)) (s - 1)
      have e : 1 + (s - 1) = s := by omega
      rw [e, upTo_one] at this; exact this
    · have := upTo_stable x x.n (by omega) (fun s'' h => E_nil_of_ge x s'' h) (s - x.n)
      have e : x.n + (s - x.n) = s := by omega
      rw [e] at this; exact this

theorem loop_eq (hs : Sorted x) (hb : 0 < x.bin) : ∀ (f s : Nat) (mask : Nat → Bool) (acc : List Ev),
    1 ≤ s → MaskInv x s mask → acc = upTo x s → x.n + 1 ≤ f + s →
    loop x f s mask acc = upTo x x.n := by
  intro f
  induction f with
  | zero =>
    intro s mask acc h1 _ hacc hf
    simp only [loop]
    rw [hacc]
    exact upTo_full x s h1 (fun s'' h => E_nil_of_ge x s'' (by omega))
  | succ k ih =>
    intro s mask acc h1 hinv hacc hf
    simp only [loop]
    split
    · apply ih (s+1) _ _ (by omega) (stepMask_inv x s h1 mask hinv)
      · rw [evAt_eq_E x hs hb s h1 mask hinv, hacc, upTo_succ x s h1]
      · omega
    · rename_i hno
      rw [hacc]
      have hno' : (List.range (x.n - s)).any mask = false := by simpa using hno
      exact upTo_full x s h1 (E_nil_of_nomask x hs hb s mask hinv hno')

theorem ccg_eq_byShift (hs : Sorted x) (hb : 0 < x.bin) : ccg x = upTo x x.n := by
  unfold ccg
  apply loop_eq x hs hb x.n 1 (fun _ => true) [] (by omega)
  · intro a; simp; intro s' a1 a2; omega
  · exact (upTo_one x).symm
  · omega


/-! ### double-sum reindexing `b = a + s` -/

theorem sum_map_add' {α : Type} (l : List α) (f g : α → Nat) :
    (l.map fun a => f a + g a).sum = (l.map f).sum + (l.map g).sum := by
  induction l with
  | nil => rfl
  | cons a l ih => simp only [List.map_cons, List.sum_cons, ih]; omega

theorem countP_eq_sum {α : Type} (p : α → Bool) (l : List α) :
    l.countP p = (l.map fun a => if p a then 1 else 0).sum := by
  induction l with
  | nil => rfl
  | cons a l ih =>
    rw [List.countP_cons, ih, List.map_cons, List.sum_cons]; omega

/-- sum over shifts `s = s'+1`, then over first indices `a` with `a + s < n` -/
def sumShift (n : Nat) (f : Nat → Nat → Nat) : Nat :=
  ((List.range n).map fun s' => ((List.range (n - (s' + 1))).map fun a => f a (a + (s' + 1))).sum).sum

/-- sum over second indices `b < n`, then over `a < b` -/
def sumPair (n : Nat) (f : Nat → Nat → Nat) : Nat :=
  ((List.range n).map fun b => ((List.range b).map fun a => f a b).sum).sum

theorem sumShift_succ (n : Nat) (f : Nat → Nat → Nat) :
    sumShift (n + 1) f =
      ((List.range n).map fun s' => f 0 (s' + 1)).sum + sumShift n (fun a b => f (a + 1) (b + 1)) := by
  unfold sumShift
  rw [List.range_succ, List.map_append, List.sum_append]
  have hlast : ([n].map fun s' =>
      ((List.range (n + 1 - (s' + 1))).map fun a => f a (a + (s' + 1))).sum).sum = 0 := by
    simp
  rw [hlast, Nat.add_zero, ← sum_map_add']
  congr 1
  apply List.map_congr_left
  intro s' hs'
  rw [List.mem_range] at hs'
  have e : n + 1 - (s' + 1) = (n - (s' + 1)) + 1 := by omega
  rw [e, List.range_succ_eq_map, List.map_cons, List.sum_cons, List.map_map, Nat.zero_add]
  congr 1
  congr 1
  apply List.map_congr_left
  intro a _
  simp only [Function.comp, Nat.succ_eq_add_one]
  congr 1
  omega

theorem sumPair_succ (n : Nat) (f : Nat → Nat → Nat) :
    sumPair (n + 1) f =
      ((List.range n).map fun b => f 0 (b + 1)).sum + sumPair n (fun a b => f (a + 1) (b + 1)) := by
  unfold sumPair
  rw [List.range_succ_eq_map, List.map_cons, List.sum_cons, List.map_map, ← sum_map_add']
  simp only [List.range_zero, List.map_nil, List.sum_nil, Nat.zero_add]
  congr 1
  apply List.map_congr_left
  intro b _
  simp only [Function.comp, Nat.succ_eq_add_one]
  rw [List.range_succ_eq_map, List.map_cons, List.sum_cons, List.map_map]
  rfl

theorem sumShift_eq_sumPair : ∀ (n : Nat) (f : Nat → Nat → Nat), sumShift n f = sumPair n f := by
  intro n
  induction n with
  | zero => intro f; rfl
  | succ n ih => intro f; rw [sumShift_succ, sumPair_succ, ih]

/-- the pair predicate of `pairCount` -/
def Q (x : Inp) (i j : Nat) (k : Int) (a b : Nat) : Bool :=
  x.cl a == i && x.cl b == j && ((x.t b - x.t a) / x.bin == k) && decide (k ≤ x.half)

theorem upTo_succ_n (x : Inp) : upTo x (x.n + 1) = upTo x x.n := by
  by_cases h : 1 ≤ x.n
  · rw [upTo_succ x x.n h, E_nil_of_ge x x.n (Nat.le_refl _), List.append_nil]
  · have : x.n = 0 := by omega
    rw [this, upTo_zero]; exact upTo_one x

theorem E_count (x : Inp) (i j : Nat) (k : Int) (s : Nat) :
    (E x s).count (i, j, k) =
      ((List.range (x.n - s)).map fun a => if Q x i j k a (a + s) then 1 else 0).sum := by
  unfold E
  rw [List.count_filterMap, countP_eq_sum]
  apply congrArg
  apply List.map_congr_left
  intro a _
  unfold Q lag
  by_cases h : (x.t (a + s) - x.t a) / x.bin ≤ x.half
  · by_cases hk : (x.t (a + s) - x.t a) / x.bin = k
    · subst hk; simp [h]
    · simp [h, hk]
  · by_cases hk : (x.t (a + s) - x.t a) / x.bin = k
    · subst hk; simp [h]
    · simp [h, hk]

theorem upTo_count (x : Inp) (i j : Nat) (k : Int) :
    (upTo x x.n).count (i, j, k) = sumShift x.n (fun a b => if Q x i j k a b then 1 else 0) := by
  rw [← upTo_succ_n]
  unfold upTo sumShift
  rw [Nat.add_sub_cancel, List.count_flatMap, List.range'_eq_map_range, List.map_map]
  apply congrArg
  apply List.map_congr_left
  intro s' _
  simp only [Function.comp]
  rw [E_count, Nat.add_comm 1 s']

theorem pairCount_eq (x : Inp) (i j : Nat) (k : Int) :
    pairCount x i j k = sumPair x.n (fun a b => if Q x i j k a b then 1 else 0) := by
  unfold pairCount pairs sumPair
  rw [← List.countP_eq_length_filter, List.countP_flatMap]
  apply congrArg
  apply List.map_congr_left
  intro b _
  simp only [Function.comp]
  rw [List.countP_map, countP_eq_sum]
  rfl

theorem ccg_eq_paircount (x : Inp) (hs : Sorted x) (hb : 0 < x.bin) (i j : Nat) (k : Int) :
    (ccg x).count (i, j, k) = pairCount x i j k := by
  rw [ccg_eq_byShift x hs hb, upTo_count, pairCount_eq, sumShift_eq_sumPair]

/-! ### list level -/
theorem idxOf_eq_iff (ids : List Nat) (hnd : ids.Nodup) (c : Int) (h0 : 0 ≤ c) (hc : c.toNat ∈ ids)
    (i : Nat) (hi : i < ids.length) :
    ids.idxOf c.toNat = i ↔ c = Int.ofNat (ids.getD i 0) := by
  have hlt : ids.idxOf c.toNat < ids.length := List.idxOf_lt_length_iff.mpr hc
  have hget : ids[ids.idxOf c.toNat] = c.toNat := List.getElem_idxOf hlt
  have hD : ids.getD i 0 = ids[i] := by simp [List.getD_eq_getElem?_getD, hi]
  rw [hD]
  constructor
  · intro h
    subst h
    rw [hget]
    simp only [Int.ofNat_eq_natCast]; omega
  · intro h
    have : c.toNat = ids[i] := by rw [h]; simp
    rw [this]
    exact hnd.idxOf_getElem i hi

theorem cl_beq (sc : List Int) (ids : List Nat) (hdom : InDom sc ids) (a : Nat) (ha : a < sc.length)
    (i : Nat) (hi : i < ids.length) :
    (((sc.map fun c => ((ids.idxOf c.toNat : Nat) : Int)).getD a 0).toNat == i) =
      (sc.getD a 0 == Int.ofNat (ids.getD i 0)) := by
  have hmem : sc[a] ∈ sc := List.getElem_mem ha
  have h := idxOf_eq_iff ids hdom.1 sc[a] (hdom.2 _ hmem).1 (hdom.2 _ hmem).2 i hi
  have e1 : (sc.map fun c => ((ids.idxOf c.toNat : Nat) : Int)).getD a 0 = ((ids.idxOf sc[a].toNat : Nat) : Int) := by
    simp [List.getD_eq_getElem?_getD, ha]
  have e2 : sc.getD a 0 = sc[a] := by simp [List.getD_eq_getElem?_getD, ha]
  rw [e1, e2, Int.toNat_natCast]
  rw [Bool.eq_iff_iff]
  simp only [beq_iff_eq]
  exact h

theorem mem_pairs (n : Nat) (p : Nat × Nat) (h : p ∈ pairs n) : p.1 < p.2 ∧ p.2 < n := by
  unfold pairs at h
  rw [List.mem_flatMap] at h
  obtain ⟨b, hb, hp⟩ := h
  rw [List.mem_map] at hp
  obtain ⟨a, ha, rfl⟩ := hp
  rw [List.mem_range] at hb ha
  exact ⟨ha, hb⟩

theorem sorted_of_pairwise (t : List Int) (h : t.Pairwise (· ≤ ·)) (cl : Nat → Nat) (bin half : Int) :
    Sorted { t := fun a => t.getD a 0, cl := cl, n := t.length, bin := bin, half := half } := by
  intro a b hab hb
  simp only at hb ⊢
  have ha : a < t.length := by omega
  have e1 : t.getD a 0 = t[a] := by simp [List.getD_eq_getElem?_getD, ha]
  have e2 : t.getD b 0 = t[b] := by simp [List.getD_eq_getElem?_getD, hb]
  rw [e1, e2]
  by_cases hEq : a = b
  · subst hEq; exact Int.le_refl _
  · exact (List.pairwise_iff_getElem.mp h) a b ha hb (by omega)

theorem correlograms_eq_spec (t : List Int) (sc : List Int) (ids : List Nat) (bin : Int) (half : Nat)
    (hsorted : t.Pairwise (· ≤ ·)) (hb : 0 < bin) (hlen : sc.length = t.length)
    (hdom : InDom sc ids) :
    correlograms t sc ids bin half = some (specCcg t sc ids bin half) := by
  unfold correlograms
  rw [Np.Lemmas.indexOf_eq sc ids hdom.1 hdom.2]
  simp only [Option.bind_eq_bind, Option.bind_some, Option.pure_def, Option.some.injEq]
  unfold countArray specCcg
  apply List.map_congr_left
  intro i hi
  apply List.map_congr_left
  intro j hj
  apply List.map_congr_left
  intro k hk
  rw [List.mem_range] at hi hj hk
  rw [ccg_eq_paircount _ (sorted_of_pairwise t hsorted _ _ _) hb]
  unfold pairCount
  simp only
  apply congrArg
  apply List.filter_congr
  intro p hp
  have hp' := mem_pairs _ _ hp
  rw [cl_beq sc ids hdom p.1 (by omega) i hi, cl_beq sc ids hdom p.2 (by omega) j hj]
  have hk' : k ≤ half := by omega
  simp [hk']


theorem count_idx (sc : List Int) (ids : List Nat) (hdom : InDom sc ids) (i : Nat) (hi : i < ids.length) :
    (sc.map fun c => ((ids.idxOf c.toNat : Nat) : Int)).count (Int.ofNat i) =
      sc.count (Int.ofNat (ids.getD i 0)) := by
  rw [List.count_eq_countP, List.count_eq_countP, List.countP_map]
  apply List.countP_congr
  intro c hc
  have h := idxOf_eq_iff ids hdom.1 c (hdom.2 c hc).1 (hdom.2 c hc).2 i hi
  simp only [Function.comp, beq_iff_eq, Int.ofNat_eq_natCast] at h ⊢
  rw [← h]
  omega

theorem firing_outer (sc : List Int) (ids : List Nat) (hdom : InDom sc ids) :
    firingCounts sc ids = some (specFiring sc ids) := by
  unfold firingCounts
  rw [Np.Lemmas.indexOf_eq sc ids hdom.1 hdom.2]
  simp only [Option.bind_eq_bind, Option.bind_some, Option.pure_def, Option.some.injEq]
  unfold specFiring
  have hbc : ((List.range ids.length).map fun (i : Nat) =>
      (sc.map fun c => ((ids.idxOf c.toNat : Nat) : Int)).count (Int.ofNat i)) =
      ids.map fun c => sc.count (Int.ofNat c) := by
    apply List.ext_getElem
    · simp
    · intro i h1 h2
      rw [List.length_map, List.length_range] at h1
      rw [List.getElem_map, List.getElem_map, List.getElem_range, count_idx sc ids hdom i h1]
      simp [List.getD_eq_getElem?_getD, h1]
  simp only [hbc]


/-! ### symmetrisation -/

def cell (c : List (List (List Nat))) (i j : Nat) : List Nat := (c.getD i []).getD j []

theorem get3_eq_cell (c : List (List (List Nat))) (i j k : Nat) : get3 c i j k = (cell c i j).getD k 0 := rfl

theorem getD_map_zipIdx {α β : Type} (l : List α) (f : α × Nat → β) (i : Nat) (d : β)
    (h : i < l.length) : (l.zipIdx.map f).getD i d = f (l[i], i) := by
  simp [List.getD_eq_getElem?_getD, h]

theorem getD_eq_getElem' {α : Type} (l : List α) (i : Nat) (d : α) (h : i < l.length) :
    l.getD i d = l[i] := by
  simp [List.getD_eq_getElem?_getD, h]

theorem mem_zipIdx_fst {α : Type} {l : List α} {p : α × Nat} (h : p ∈ l.zipIdx) :
    p.1 ∈ l ∧ p.2 < l.length ∧ l.getD p.2 p.1 = p.1 := by
  rw [List.mem_zipIdx_iff_getElem?] at h
  obtain ⟨hlt, he⟩ := List.getElem?_eq_some_iff.mp h
  refine ⟨?_, hlt, ?_⟩
  · rw [← he]; exact List.getElem_mem hlt
  · rw [getD_eq_getElem' l p.2 p.1 hlt, he]

theorem shape_row_len {c : List (List (List Nat))} {nc m : Nat} (hc : Shape3 c nc m) {i : Nat}
    (hi : i < nc) : (c.getD i []).length = nc := by
  have hi' : i < c.length := by rw [hc.1]; exact hi
  rw [getD_eq_getElem' c i [] hi']
  exact (hc.2 _ (List.getElem_mem hi')).1

theorem shape_cell_len {c : List (List (List Nat))} {nc m : Nat} (hc : Shape3 c nc m) {i j : Nat}
    (hi : i < nc) (hj : j < nc) : (cell c i j).length = m := by
  have hi' : i < c.length := by rw [hc.1]; exact hi
  have hrow := hc.2 _ (List.getElem_mem hi')
  unfold cell
  rw [getD_eq_getElem' c i [] hi']
  have hj' : j < c[i].length := by rw [hrow.1]; exact hj
  rw [getD_eq_getElem' _ j [] hj']
  exact hrow.2 _ (List.getElem_mem hj')

/-- the centre-bin update on one cell -/
def centreCell (c : List (List (List Nat))) (i j : Nat) (v : List Nat) : List Nat :=
  match v with
  | [] => []
  | v0 :: rest => max v0 (get3 c j i 0) :: rest

theorem centreCell_length (c : List (List (List Nat))) (i j : Nat) (v : List Nat) :
    (centreCell c i j v).length = v.length := by
  cases v <;> rfl

theorem symCentre_eq (c : List (List (List Nat))) :
    symCentre c = c.zipIdx.map fun p => p.1.zipIdx.map fun q => centreCell c p.2 q.2 q.1 := rfl

theorem symmetrize_eq (c : List (List (List Nat))) :
    symmetrize c = (symCentre c).zipIdx.map fun p => p.1.zipIdx.map fun q =>
      (cell (symCentre c) q.2 p.2).tail.reverse ++ q.1 := rfl

theorem symCentre_shape {c : List (List (List Nat))} {nc m : Nat} (hc : Shape3 c nc m) :
    Shape3 (symCentre c) nc m := by
  rw [symCentre_eq]
  refine ⟨by rw [List.length_map, List.length_zipIdx]; exact hc.1, ?_⟩
  intro row hrow
  obtain ⟨p, hp, rfl⟩ := List.mem_map.mp hrow
  have hp1 := hc.2 _ (mem_zipIdx_fst hp).1
  refine ⟨by rw [List.length_map, List.length_zipIdx]; exact hp1.1, ?_⟩
  intro v hv
  obtain ⟨q, hq, rfl⟩ := List.mem_map.mp hv
  rw [centreCell_length]
  exact hp1.2 _ (mem_zipIdx_fst hq).1

theorem cell_symCentre {c : List (List (List Nat))} {nc m : Nat} (hc : Shape3 c nc m) {i j : Nat}
    (hi : i < nc) (hj : j < nc) : cell (symCentre c) i j = centreCell c i j (cell c i j) := by
  have hi' : i < c.length := by rw [hc.1]; exact hi
  have hj' : j < c[i].length := by rw [(hc.2 _ (List.getElem_mem hi')).1]; exact hj
  unfold cell
  rw [symCentre_eq, getD_map_zipIdx _ _ i [] hi']
  simp only
  rw [getD_map_zipIdx _ _ j [] hj', getD_eq_getElem' c i [] hi', getD_eq_getElem' _ j [] hj']

theorem cell_symmetrize {c : List (List (List Nat))} {nc m : Nat} (hc : Shape3 c nc m) {i j : Nat}
    (hi : i < nc) (hj : j < nc) :
    cell (symmetrize c) i j = (cell (symCentre c) j i).tail.reverse ++ cell (symCentre c) i j := by
  have hc' := symCentre_shape hc
  have hi' : i < (symCentre c).length := by rw [hc'.1]; exact hi
  have hj' : j < (symCentre c)[i].length := by rw [(hc'.2 _ (List.getElem_mem hi')).1]; exact hj
  rw [symmetrize_eq]
  unfold cell
  rw [getD_map_zipIdx _ _ i [] hi']
  simp only
  rw [getD_map_zipIdx _ _ j [] hj', getD_eq_getElem' (symCentre c) i [] hi',
    getD_eq_getElem' _ j [] hj']

/-- entries of the centre-updated array -/
theorem get3_symCentre {c : List (List (List Nat))} {nc h : Nat} (hc : Shape3 c nc (h + 1)) {i j : Nat}
    (hi : i < nc) (hj : j < nc) (k : Nat) :
    get3 (symCentre c) i j k = if k = 0 then max (get3 c i j 0) (get3 c j i 0) else get3 c i j k := by
  rw [get3_eq_cell, cell_symCentre hc hi hj, get3_eq_cell c i j k, get3_eq_cell c i j 0]
  have hlen := shape_cell_len hc hi hj
  cases hv : cell c i j with
  | nil => rw [hv] at hlen; simp at hlen
  | cons v0 rest =>
    cases k with
    | zero => simp [centreCell]
    | succ k => simp [centreCell]

theorem sym_shape (c : List (List (List Nat))) (nc h : Nat) (hc : Shape3 c nc (h + 1)) :
    Shape3 (symmetrize c) nc (2 * h + 1) := by
  have hc' := symCentre_shape hc
  rw [symmetrize_eq]
  refine ⟨by rw [List.length_map, List.length_zipIdx]; exact hc'.1, ?_⟩
  intro row hrow
  obtain ⟨p, hp, rfl⟩ := List.mem_map.mp hrow
  have hp0 := mem_zipIdx_fst hp
  have hp1 := hc'.2 _ hp0.1
  refine ⟨by rw [List.length_map, List.length_zipIdx]; exact hp1.1, ?_⟩
  intro v hv
  obtain ⟨q, hq, rfl⟩ := List.mem_map.mp hv
  have hq0 := mem_zipIdx_fst hq
  have hi : p.2 < nc := by rw [← hc'.1]; exact hp0.2.1
  have hj : q.2 < nc := by rw [← hp1.1]; exact hq0.2.1
  rw [List.length_append, List.length_reverse, List.length_tail, shape_cell_len hc' hj hi,
    hp1.2 _ hq0.1]
  omega

theorem get3_symmetrize {c : List (List (List Nat))} {nc h : Nat} (hc : Shape3 c nc (h + 1)) {i j : Nat}
    (hi : i < nc) (hj : j < nc) (k : Nat) :
    get3 (symmetrize c) i j k =
      if k < h then get3 (symCentre c) j i (h - k) else get3 (symCentre c) i j (k - h) := by
  have hc' := symCentre_shape hc
  have hl1 := shape_cell_len hc' hj hi
  rw [get3_eq_cell, cell_symmetrize hc hi hj, get3_eq_cell, get3_eq_cell]
  rw [List.getD_eq_getElem?_getD, List.getD_eq_getElem?_getD, List.getD_eq_getElem?_getD,
    List.getElem?_append]
  have hlt : (cell (symCentre c) j i).tail.reverse.length = h := by
    rw [List.length_reverse, List.length_tail, hl1]; omega
  rw [hlt]
  by_cases hk : k < h
  · rw [if_pos hk, if_pos hk, List.getElem?_reverse (by rw [List.length_tail, hl1]; omega),
      List.getElem?_tail, List.length_tail, hl1]
    have : h + 1 - 1 - 1 - k + 1 = h - k := by omega
    rw [this]
  · rw [if_neg hk, if_neg hk]

theorem sym_positive (c : List (List (List Nat))) (nc h : Nat) (hc : Shape3 c nc (h + 1))
    (i j k : Nat) (hi : i < nc) (hj : j < nc) (hk1 : 1 ≤ k) (hk : k ≤ h) :
    get3 (symmetrize c) i j (h + k) = get3 c i j k := by
  have _ := hk
  rw [get3_symmetrize hc hi hj, if_neg (by omega), get3_symCentre hc hi hj, if_neg (by omega)]
  congr 1; omega

theorem sym_centre (c : List (List (List Nat))) (nc h : Nat) (hc : Shape3 c nc (h + 1))
    (i j : Nat) (hi : i < nc) (hj : j < nc) :
    get3 (symmetrize c) i j h = max (get3 c i j 0) (get3 c j i 0) := by
  rw [get3_symmetrize hc hi hj, if_neg (by omega), get3_symCentre hc hi hj, if_pos (by omega)]

theorem sym_reflect (c : List (List (List Nat))) (nc h : Nat) (hc : Shape3 c nc (h + 1))
    (i j k : Nat) (hi : i < nc) (hj : j < nc) (hk : k ≤ h) :
    get3 (symmetrize c) i j (h + k) = get3 (symmetrize c) j i (h - k) := by
  rw [get3_symmetrize hc hi hj, if_neg (by omega), get3_symmetrize hc hj hi]
  by_cases hk0 : k = 0
  · subst hk0
    rw [if_neg (by omega), Nat.add_zero, Nat.sub_zero, Nat.sub_self,
      get3_symCentre hc hi hj, get3_symCentre hc hj hi, if_pos rfl, if_pos rfl, Nat.max_comm]
  · rw [if_pos (by omega)]
    congr 1; omega

end PhyVerif.C15.Lemmas
