import PhyVerif.Model.C15
import PhyVerif.Spec.C15
/-! Helper lemmas and full proofs for C15. Statements of the property theorems: `Props/C15.lean`. -/
namespace PhyVerif.C15.Lemmas
open PhyVerif PhyVerif.C15

variable (x : Inp)

/-- events at shift `s` according to the specification -/
def E (s : Nat) : List Ev :=
  (List.range (x.n - s)).filterMap fun a =>
    if lag x a s ≤ x.half then some (x.cl a, x.cl (a + s), lag x a s) else none

def upTo (s : Nat) : List Ev := (List.range' 1 (s - 1)).flatMap (E x)


theorem lag_mono (hs : Sorted x) (hb : 0 < x.bin) (a s' s : Nat) (h : s' ≤ s) (hn : a + s < x.n) :
    lag x a s' ≤ lag x a s := by
  unfold lag
  apply Int.ediv_le_ediv hb
  have := hs (a + s') (a + s) (by omega) hn
  omega

def MaskInv (s : Nat) (mask : Nat → Bool) : Prop :=
  ∀ a, mask a = true ↔ ∀ s', 1 ≤ s' → s' < s → a + s' < x.n → lag x a s' ≤ x.half

theorem stepMask_inv (s : Nat) (hs1 : 1 ≤ s) (mask) (h : MaskInv x s mask) : MaskInv x (s+1) (stepMask x s mask) := by
  intro a
  unfold stepMask
  by_cases hlt : a + s < x.n
  · simp only [hlt, if_true, Bool.and_eq_true, decide_eq_true_eq]
    rw [h a]
    constructor
    · rintro ⟨h1, h2⟩ s' hs1 hs2 hs3
      by_cases he : s' = s
      · subst he; exact h2
      · exact h1 s' hs1 (by omega) hs3
    · intro hall
      exact ⟨fun s' a1 a2 a3 => hall s' a1 (by omega) a3, hall s hs1 (by omega) hlt⟩
  · simp only [hlt, if_false]
    rw [h a]
    constructor
    · intro h1 s' a1 a2 a3
      exact h1 s' a1 (by omega) a3
    · intro h1 s' a1 a2 a3
      exact h1 s' a1 (by omega) a3


theorem filterMap_congr' {α β : Type} {f g : α → Option β} :
    ∀ (l : List α), (∀ a ∈ l, f a = g a) → l.filterMap f = l.filterMap g := by
  intro l
  induction l with
  | nil => intro _; rfl
  | cons a t ih =>
    intro h
    simp only [List.filterMap_cons]
    rw [h a (by simp), ih (fun b hb => h b (by simp [hb]))]

theorem evAt_eq_E (hs : Sorted x) (hb : 0 < x.bin) (s : Nat) (hs1 : 1 ≤ s) (mask)
    (h : MaskInv x s mask) : evAt x s (stepMask x s mask) = E x s := by
  unfold evAt E
  apply filterMap_congr'
  intro a ha
  rw [List.mem_range] at ha
  have hlt : a + s < x.n := by omega
  have hiff : stepMask x s mask a = true ↔ lag x a s ≤ x.half := by
    have := stepMask_inv x s hs1 mask h a
    rw [this]
    constructor
    · intro hall; exact hall s hs1 (by omega) hlt
    · intro hle s' a1 a2 a3
      exact Int.le_trans (lag_mono x hs hb a s' s (by omega) hlt) hle
  by_cases hm : stepMask x s mask a = true
  · have := hiff.mp hm; simp [hm, this]
  · have h2 : ¬ lag x a s ≤ x.half := fun hh => hm (hiff.mpr hh)
    simp [hm, h2]

theorem E_nil_of_nomask (hs : Sorted x) (hb : 0 < x.bin) (s : Nat) (mask)
    (h : MaskInv x s mask) (hno : (List.range (x.n - s)).any mask = false) :
    ∀ s'', s ≤ s'' → E x s'' = [] := by
  intro s'' hle
  unfold E
  rw [List.filterMap_eq_nil_iff]
  intro a ha
  rw [List.mem_range] at ha
  have hma : mask a = false := by
    rw [List.any_eq_false] at hno
    have := hno a (by rw [List.mem_range]; omega)
    simpa using this
  have : ¬ (∀ s', 1 ≤ s' → s' < s → a + s' < x.n → lag x a s' ≤ x.half) := by
    intro hall; have := (h a).mpr hall; rw [hma] at this; exact Bool.noConfusion this
  have hgt : ¬ lag x a s'' ≤ x.half := by
    intro hle2
    apply this
    intro s' a1 a2 a3
    exact Int.le_trans (lag_mono x hs hb a s' s'' (by omega) (by omega)) hle2
  simp [hgt]

theorem upTo_succ (s : Nat) (hs1 : 1 ≤ s) : upTo x (s+1) = upTo x s ++ E x s := by
  unfold upTo
  have : s + 1 - 1 = (s - 1) + 1 := by omega
  rw [this, List.range'_1_concat, List.flatMap_append]
  have : 1 + (s - 1) = s := by omega
  simp [this]


theorem upTo_stable (s0 : Nat) (h1 : 1 ≤ s0) (hnil : ∀ s'', s0 ≤ s'' → E x s'' = []) :
    ∀ d, upTo x (s0 + d) = upTo x s0 := by
  intro d
  induction d with
  | zero => rfl
  | succ k ih =>
    have : s0 + (k + 1) = (s0 + k) + 1 := by omega
    rw [this, upTo_succ x (s0 + k) (by omega), ih, hnil (s0 + k) (by omega)]
    simp

theorem E_nil_of_ge (s : Nat) (h : x.n ≤ s) : E x s = [] := by
  unfold E
  have : x.n - s = 0 := by omega
  simp [this]

theorem upTo_zero : upTo x 0 = [] := by simp [upTo]
theorem upTo_one : upTo x 1 = [] := by simp [upTo]

/-- once every shift ≥ s contributes nothing, `upTo s` is already the full enumeration -/
theorem upTo_full (s : Nat) (h1 : 1 ≤ s) (hnil : ∀ s'', s ≤ s'' → E x s'' = []) :
    upTo x s = upTo x x.n := by
  by_cases hle : s ≤ x.n
  · have := upTo_stable x s h1 hnil (x.n - s)
    have e : s + (x.n - s) = x.n := by omega
    rw [e] at this; exact this.symm
  · by_cases hn : x.n = 0
    · rw [hn, upTo_zero]
      have := upTo_stable x 1 (by omega) (fun s'' _ => E_nil_of_ge x s'' (by omega)) (s - 1)
      have e : 1 + (s - 1) = s := by omega
      rw [e, upTo_one] at this; exact this
    · have := upTo_stable x x.n (by omega) (fun s'' h => E_nil_of_ge x s'' h) (s - x.n)
      have e : x.n + (s - x.n) = s := by omega
      rw [e] at this; exact this

theorem loop_eq (hs : Sorted x) (hb : 0 < x.bin) : ∀ (f s : Nat) (mask : Nat → Bool) (acc : List Ev),
    1 ≤ s → MaskInv x s mask → acc = upTo x s → x.n + 1 ≤ f + s →
    loop x f s mask acc = upTo x x.n := by
  intro f
  induction f with
  | zero =>
    intro s mask acc h1 _ hacc hf
    simp only [loop]
    rw [hacc]
    exact upTo_full x s h1 (fun s'' h => E_nil_of_ge x s'' (by omega))
  | succ k ih =>
    intro s mask acc h1 hinv hacc hf
    simp only [loop]
    split
    · apply ih (s+1) _ _ (by omega) (stepMask_inv x s h1 mask hinv)
      · rw [evAt_eq_E x hs hb s h1 mask hinv, hacc, upTo_succ x s h1]
      · omega
    · rename_i hno
      rw [hacc]
      have hno' : (List.range (x.n - s)).any mask = false := by simpa using hno
      exact upTo_full x s h1 (E_nil_of_nomask x hs hb s mask hinv hno')

theorem ccg_eq_byShift (hs : Sorted x) (hb : 0 < x.bin) : ccg x = upTo x x.n := by
  unfold ccg
  apply loop_eq x hs hb x.n 1 (fun _ => true) [] (by omega)
  · intro a; simp; intro s' a1 a2; omega
  · exact (upTo_one x).symm
  · omega


theorem ccg_eq_paircount (x : Inp) (hs : Sorted x) (hb : 0 < x.bin) (i j : Nat) (k : Int) :
    (ccg x).count (i, j, k) = pairCount x i j k := by
  sorry

theorem correlograms_eq_spec (t : List Int) (sc : List Int) (ids : List Nat) (bin : Int) (half : Nat)
    (hsorted : t.Pairwise (· ≤ ·)) (hb : 0 < bin) (hlen : sc.length = t.length)
    (hdom : InDom sc ids) :
    correlograms t sc ids bin half = some (specCcg t sc ids bin half) := by
  sorry

theorem sym_shape (c : List (List (List Nat))) (nc h : Nat) (hc : Shape3 c nc (h + 1)) :
    Shape3 (symmetrize c) nc (2 * h + 1) := by
  sorry

theorem sym_positive (c : List (List (List Nat))) (nc h : Nat) (hc : Shape3 c nc (h + 1))
    (i j k : Nat) (hi : i < nc) (hj : j < nc) (hk1 : 1 ≤ k) (hk : k ≤ h) :
    get3 (symmetrize c) i j (h + k) = get3 c i j k := by
  sorry

theorem sym_centre (c : List (List (List Nat))) (nc h : Nat) (hc : Shape3 c nc (h + 1))
    (i j : Nat) (hi : i < nc) (hj : j < nc) :
    get3 (symmetrize c) i j h = max (get3 c i j 0) (get3 c j i 0) := by
  sorry

theorem sym_reflect (c : List (List (List Nat))) (nc h : Nat) (hc : Shape3 c nc (h + 1))
    (i j k : Nat) (hi : i < nc) (hj : j < nc) (hk : k ≤ h) :
    get3 (symmetrize c) i j (h + k) = get3 (symmetrize c) j i (h - k) := by
  sorry

theorem firing_outer (sc : List Int) (ids : List Nat) (hdom : InDom sc ids) :
    firingCounts sc ids = some (specFiring sc ids) := by
  sorry

end PhyVerif.C15.Lemmas
