import PhyVerif.Model.C11b
import PhyVerif.Lemmas.C04
import PhyVerif.Lemmas.C11
import PhyVerif.Lemmas.C12
/-! Composition: the directory written by the merge models loads (C04 loader model). -/
namespace PhyVerif.C11.Lemmas
open PhyVerif PhyVerif.C04 PhyVerif.C11

/-! ### the loader on a directory with exactly the seven merged array files -/

/-- a directory holding exactly the seven array files the merger writes -/
def dir7 (a1 a2 a3 a4 a5 a6 a7 : Arr) : Dir :=
  [ ("spike_times.npy", a1), ("amplitudes.npy", a2), ("spike_clusters.npy", a3),
    ("spike_templates.npy", a4), ("channel_map.npy", a5), ("channel_probe.npy", a6),
    ("channel_positions.npy", a7) ]

theorem load_dir7 (inv : Arr → Arr) (a1 a2 a3 a4 a5 a6 a7 : Arr)
    (hm : monotone (scrub a1).data = true) :
    load inv (dir7 a1 a2 a3 a4 a5 a6 a7) = .ok
      ({ times := .samplesOverRate (squeeze (scrub a1)), samples := .file (squeeze (scrub a1)),
         amplitudes := some (squeeze (scrub a2)), spikeTemplates := squeeze (scrub a4),
         spikeClusters := squeeze (scrub a3), channelMap := atleast 1 (squeeze (scrub a5)),
         channelPositions := atleast 2 (squeeze (scrub a7)), channelShanks := none,
         channelProbes := some (atleast 1 (squeeze (scrub a6))), templates := none,
         templateCols := none, wm := none, wmi := none, similar := none },
       dir7 a1 a2 a3 a4 a5 a6 a7 ++
         [("whitening_mat_inv.npy", inv (eye (.num 1) ((atleast 1 (squeeze (scrub a5))).shape.headD 0)))]) := by
  simp +decide [load, dir7, readFile, findPath, List.lookup, hm, bind, Except.bind, pure, Except.pure]

/-! ### `monotone`, `scrub`, `squeeze`, `atleast` on the written arrays -/

theorem monotone_num_of_pairwise :
    ∀ l : List Int, l.Pairwise (· ≤ ·) → monotone (l.map Cell.num) = true
  | [], _ => rfl
  | [_], _ => rfl
  | a :: b :: t, h => by
    have h1 : a ≤ b := (List.pairwise_cons.1 h).1 b (by simp)
    have h2 := monotone_num_of_pairwise (b :: t) (List.pairwise_cons.1 h).2
    rw [List.map_cons] at h2
    rw [List.map_cons, List.map_cons, monotone, h2]
    simp [h1]

theorem scrub_eq_self (a : Arr) (h : ∀ c ∈ a.data, ∃ i, c = Cell.num i) : scrub a = a := by
  cases a with
  | mk s d =>
    simp only [scrub, Arr.mk.injEq, true_and]
    conv => rhs; rw [← List.map_id d]
    apply List.map_congr_left
    intro c hc
    obtain ⟨i, rfl⟩ := h c hc
    rfl

theorem squeeze_vec (n : Nat) (d : List Cell) (h : n ≠ 1) : squeeze ⟨[n], d⟩ = ⟨[n], d⟩ := by
  simp [squeeze, h]

theorem squeeze_pairs (n : Nat) (d : List Cell) (h : n ≠ 1) : squeeze ⟨[n, 2], d⟩ = ⟨[n, 2], d⟩ := by
  simp [squeeze, h]

theorem natVec_load (l : List Nat) (h : l.length ≠ 1) : squeeze (scrub (natVec l)) = natVec l := by
  rw [scrub_eq_self]
  · exact squeeze_vec _ _ h
  · intro c hc
    obtain ⟨n, -, rfl⟩ := List.mem_map.1 hc
    exact ⟨_, rfl⟩

theorem scrub_intVec (l : List Int) : scrub (intVec l) = intVec l := by
  apply scrub_eq_self
  intro c hc
  obtain ⟨n, -, rfl⟩ := List.mem_map.1 hc
  exact ⟨_, rfl⟩

theorem intVec_load (l : List Int) (h : l.length ≠ 1) : squeeze (scrub (intVec l)) = intVec l := by
  rw [scrub_intVec]
  exact squeeze_vec _ _ h

theorem posArr_load (l : List (Int × Int)) (h : l.length ≠ 1) :
    squeeze (scrub (posArr l)) = posArr l := by
  rw [scrub_eq_self]
  · exact squeeze_pairs _ _ h
  · intro c hc
    obtain ⟨r, hr, hcr⟩ := List.mem_flatten.1 hc
    obtain ⟨xy, -, rfl⟩ := List.mem_map.1 hr
    simp only [List.mem_cons, List.not_mem_nil, or_false] at hcr
    rcases hcr with rfl | rfl <;> exact ⟨_, rfl⟩

/-! ### lengths of the merged arrays -/

theorem flatten_length_of_shape {α β : Type} (a : List (List α)) (b : List (List β))
    (h : a.map List.length = b.map List.length) : a.flatten.length = b.flatten.length := by
  rw [List.length_flatten, List.length_flatten, h]

theorem length_of_shape {α β : Type} (a : List (List α)) (b : List (List β))
    (h : a.map List.length = b.map List.length) : a.length = b.length := by
  simpa using congrArg List.length h

theorem gather_length {α : Type} (times : List (List Int)) (arrays : List (List α))
    (h : arrays.flatten.length = times.flatten.length) :
    (gather arrays (spikeOrder times)).length = times.flatten.length := by
  have hp := ((spikeOrder_perm times).filterMap (arrays.flatten[·]?)).length_eq
  rw [← h, range_filterMap_getElem?] at hp
  rw [← h]
  exact hp

theorem mergedTimes_length (times : List (List Int)) :
    (mergedTimes times).length = times.flatten.length :=
  gather_length times times rfl

theorem shiftBy_flatten_length (ids : List (List Nat)) (offs : List Nat)
    (h : offs.length = ids.length) : (shiftBy ids offs).flatten.length = ids.flatten.length := by
  exact (C12.Lemmas.zipFlat_length (fun x o => x + o) ids offs h).trans List.length_flatten.symm

theorem shiftIds_flatten_length (ids : List (List Nat)) :
    (shiftIds ids).flatten.length = ids.flatten.length :=
  shiftBy_flatten_length ids (idOffsets ids) (idOffsetsFrom_length 0 ids)

theorem sizeOffsetsFrom_length' (sizes : List Nat) :
    ∀ off, (sizeOffsetsFrom off sizes).length = sizes.length := by
  induction sizes with
  | nil => intro off; rfl
  | cons s rest ih => intro off; simp [sizeOffsetsFrom, ih]

theorem templateOffsets_length (ids : List (List Nat)) (counts : List Nat)
    (h : counts.length = ids.length) : (templateOffsets ids counts).length = ids.length := by
  simp [templateOffsets, templateSizes, sizeOffsetsFrom_length', h]

theorem mergeChannelMaps_length (maps : List (List Nat)) :
    (C12.mergeChannelMaps maps).length = maps.flatten.length := by
  exact (C12.Lemmas.zipFlat_length (fun x o => x + o) maps (C12.chanOffsets maps)
    (C12.Lemmas.chanOffsetsFrom_length maps 0)).trans List.length_flatten.symm

theorem channelProbes_length (maps : List (List Nat)) :
    (C12.channelProbes maps).length = maps.flatten.length := by
  rw [C12.Lemmas.channelProbes_eq]
  exact (C12.Lemmas.zipFlat_length (fun _ o => o) maps (List.range' 0 maps.length)
    (by simp)).trans List.length_flatten.symm

theorem shiftPositionsFrom_shape (pos : List (List (Int × Int))) :
    ∀ xoff, (C12.shiftPositionsFrom xoff pos).map List.length = pos.map List.length := by
  induction pos with
  | nil => intro xoff; rfl
  | cons p rest ih => intro xoff; simp [C12.shiftPositionsFrom, ih]

theorem mergePositions_length (pos : List (List (Int × Int))) :
    (C12.mergePositions pos).length = pos.flatten.length :=
  flatten_length_of_shape _ _ (shiftPositionsFrom_shape pos 0)

/-! ### the composition -/

theorem merged_dataset_loads (inv : Arr → Arr) (p : Probes) (h : ProbesOK p) :
    ∃ v d', load inv (mergedDir p) = .ok (v, d') ∧
      v.samples = .file (intVec (mergedTimes p.times)) ∧
      v.amplitudes = some (intVec (gather p.amps (spikeOrder p.times))) ∧
      v.spikeClusters = natVec (mergedIds p.times p.clusters) ∧
      v.spikeTemplates = natVec (mergedTemplateIds p.times p.templates p.ntemplates) ∧
      v.channelMap = natVec (C12.mergeChannelMaps p.maps) ∧
      v.channelProbes = some (natVec (C12.channelProbes p.maps)) ∧
      v.channelPositions = posArr (C12.mergePositions p.positions) := by
  obtain ⟨hn, hnt, hamps, hcl, htm, hc, hpos⟩ := h
  -- lengths
  have l1 : (mergedTimes p.times).length ≠ 1 := by rw [mergedTimes_length]; omega
  have l2 : (gather p.amps (spikeOrder p.times)).length ≠ 1 := by
    rw [gather_length _ _ (flatten_length_of_shape _ _ hamps)]; omega
  have l3 : (mergedIds p.times p.clusters).length ≠ 1 := by
    unfold mergedIds
    rw [gather_length _ _ ((shiftIds_flatten_length _).trans (flatten_length_of_shape _ _ hcl))]
    omega
  have l4 : (mergedTemplateIds p.times p.templates p.ntemplates).length ≠ 1 := by
    unfold mergedTemplateIds
    rw [gather_length _ _ ((shiftBy_flatten_length _ _
      (templateOffsets_length _ _ (hnt.trans (length_of_shape _ _ htm).symm))).trans
      (flatten_length_of_shape _ _ htm))]
    omega
  have l5 : (C12.mergeChannelMaps p.maps).length ≠ 1 := by rw [mergeChannelMaps_length]; omega
  have l6 : (C12.channelProbes p.maps).length ≠ 1 := by rw [channelProbes_length]; omega
  have l7 : (C12.mergePositions p.positions).length ≠ 1 := by
    rw [mergePositions_length, flatten_length_of_shape _ _ hpos]; omega
  have e1 : squeeze (scrub (intVec (mergedTimes p.times))) = intVec (mergedTimes p.times) :=
    intVec_load _ l1
  have hm : monotone (scrub (intVec (mergedTimes p.times))).data = true := by
    rw [scrub_intVec]; exact monotone_num_of_pairwise _ (merged_sorted p.times)
  refine ⟨_, _, load_dir7 inv _ _ _ _ _ _ _ hm, ?_, ?_, ?_, ?_, ?_, ?_, ?_⟩
  · exact congrArg SampleSrc.file e1
  · exact congrArg some (intVec_load _ l2)
  · exact natVec_load _ l3
  · exact natVec_load _ l4
  · show atleast 1 (squeeze (scrub (natVec _))) = _
    rw [natVec_load _ l5]; rfl
  · show some (atleast 1 (squeeze (scrub (natVec _)))) = _
    rw [natVec_load _ l6]; rfl
  · show atleast 2 (squeeze (scrub (posArr _))) = _
    rw [posArr_load _ l7]; rfl

/-! ### per-cluster metadata of the merged directory -/

/-- the rows one probe contributes to the merged per-cluster file -/
def cdRow {β : Type} (p : (Option (List (Nat × β)) × List Nat) × Nat) : List (Nat × β) :=
  match p.1.1 with
  | none => []
  | some l => (l.filter fun kv => kv.1 ≤ p.1.2.foldl max 0).map fun kv => (kv.1 + p.2, kv.2)

theorem mergeClusterData_eq {β : Type} (md : List (Option (List (Nat × β)))) (ids : List (List Nat)) :
    mergeClusterData md ids = (((md.zip ids).zip (idOffsets ids)).map cdRow).flatten := rfl

theorem mem_cdRow {β : Type} (o : Option (List (Nat × β))) (a : List Nat) (off K : Nat) (v : β) :
    (K, v) ∈ cdRow ((o, a), off) ↔
      ∃ l c, o = some l ∧ (c, v) ∈ l ∧ c ≤ a.foldl max 0 ∧ K = c + off := by
  cases o with
  | none => simp [cdRow]
  | some l =>
    simp only [cdRow, List.mem_map, List.mem_filter, decide_eq_true_eq, Prod.mk.injEq,
      Option.some.injEq, Prod.exists]
    constructor
    · rintro ⟨c, v', ⟨hm, hc⟩, rfl, rfl⟩
      exact ⟨l, c, rfl, hm, hc, rfl⟩
    · rintro ⟨l', c, rfl, hm, hc, rfl⟩
      exact ⟨c, v, ⟨hm, hc⟩, rfl, rfl⟩

theorem cdRow_range {β : Type} (o : Option (List (Nat × β))) (a : List Nat) (off : Nat)
    (q : Nat × β) (hq : q ∈ cdRow ((o, a), off)) : off ≤ q.1 ∧ q.1 ≤ off + a.foldl max 0 := by
  obtain ⟨K, v⟩ := q
  obtain ⟨l, c, -, -, hc, rfl⟩ := (mem_cdRow o a off K v).1 hq
  exact ⟨by omega, by omega⟩

theorem cdRow_nodup {β : Type} (o : Option (List (Nat × β))) (a : List Nat) (off : Nat)
    (h : ∀ l, o = some l → (l.map (·.1)).Nodup) : ((cdRow ((o, a), off)).map (·.1)).Nodup := by
  cases o with
  | none => simp [cdRow]
  | some l =>
    have h1 : ((l.filter fun kv => kv.1 ≤ a.foldl max 0).map (·.1)).Nodup :=
      (h l rfl).sublist (List.filter_sublist.map _)
    have h2 : (cdRow ((some l, a), off)).map (·.1) =
        ((l.filter fun kv => kv.1 ≤ a.foldl max 0).map (·.1)).map (· + off) := by
      simp [cdRow, List.map_map, Function.comp_def]
    rw [h2]
    exact List.Pairwise.map (· + off) (fun x y (hxy : x ≠ y) => by show x + off ≠ y + off; omega) h1

theorem mem_mergeClusterData {β : Type} (md : List (Option (List (Nat × β)))) (ids : List (List Nat))
    (K : Nat) (v : β) :
    (K, v) ∈ mergeClusterData md ids ↔
      ∃ k l c, md[k]? = some (some l) ∧ k < ids.length ∧ (c, v) ∈ l ∧
        c ≤ (ids.getD k []).foldl max 0 ∧ K = c + (idOffsets ids).getD k 0 := by
  rw [mergeClusterData_eq]
  constructor
  · intro h
    obtain ⟨row, hrow, hK⟩ := List.mem_flatten.1 h
    obtain ⟨⟨⟨o, a⟩, off⟩, hp, rfl⟩ := List.mem_map.1 hrow
    obtain ⟨k, hk⟩ := List.mem_iff_getElem?.1 hp
    rw [List.getElem?_zip_eq_some] at hk
    obtain ⟨hk1, hk3⟩ := hk
    rw [List.getElem?_zip_eq_some] at hk1
    obtain ⟨hk1, hk2⟩ := hk1
    obtain ⟨l, c, rfl, hm, hc, rfl⟩ := (mem_cdRow o a off K v).1 hK
    have hkl : k < ids.length := by
      rcases Nat.lt_or_ge k ids.length with h | h
      · exact h
      · rw [List.getElem?_eq_none h] at hk2; cases hk2
    refine ⟨k, l, c, hk1, hkl, hm, ?_, ?_⟩
    · rw [List.getD_eq_getElem?_getD, hk2]; exact hc
    · rw [List.getD_eq_getElem?_getD, hk3]; rfl
  · rintro ⟨k, l, c, hk, hkl, hm, hc, rfl⟩
    have hko : k < (idOffsets ids).length := by
      unfold idOffsets; rw [idOffsetsFrom_length]; exact hkl
    rw [List.mem_flatten]
    refine ⟨cdRow ((some l, ids.getD k []), (idOffsets ids).getD k 0), ?_, ?_⟩
    · rw [List.mem_map]
      refine ⟨_, ?_, rfl⟩
      rw [List.mem_iff_getElem?]
      refine ⟨k, ?_⟩
      rw [List.getElem?_zip_eq_some, List.getElem?_zip_eq_some]
      refine ⟨⟨hk, ?_⟩, ?_⟩
      · simp [List.getD_eq_getElem?_getD, List.getElem?_eq_getElem hkl]
      · simp [List.getD_eq_getElem?_getD, List.getElem?_eq_getElem hko]
    · exact (mem_cdRow _ _ _ _ _).2 ⟨l, c, rfl, hm, hc, rfl⟩

/-- every key written from offset `off` on is at least `off` -/
theorem cdFrom_ge {β : Type} (md : List (Option (List (Nat × β)))) :
    ∀ (ids : List (List Nat)) (off : Nat),
      ∀ q ∈ (((md.zip ids).zip (idOffsetsFrom off ids)).map cdRow).flatten, off ≤ q.1 := by
  induction md with
  | nil => intro ids off q hq; simp at hq
  | cons o md ih =>
    intro ids off q hq
    cases ids with
    | nil => simp at hq
    | cons a ids =>
      simp only [idOffsetsFrom, List.zip_cons_cons, List.map_cons, List.flatten_cons,
        List.mem_append] at hq
      rcases hq with hq | hq
      · exact (cdRow_range o a off q hq).1
      · have := ih ids _ q hq
        omega

theorem cdFrom_nodup {β : Type} (md : List (Option (List (Nat × β))))
    (h : ∀ l, some l ∈ md → (l.map (·.1)).Nodup) :
    ∀ (ids : List (List Nat)) (off : Nat),
      (((((md.zip ids).zip (idOffsetsFrom off ids)).map cdRow).flatten).map (·.1)).Nodup := by
  induction md with
  | nil => intro ids off; simp
  | cons o md ih =>
    intro ids off
    cases ids with
    | nil => simp
    | cons a ids =>
      simp only [idOffsetsFrom, List.zip_cons_cons, List.map_cons, List.flatten_cons,
        List.map_append]
      rw [List.nodup_append]
      refine ⟨cdRow_nodup o a off (fun l hl => h l (by simp [hl])),
        ih (fun l hl => h l (List.mem_cons_of_mem _ hl)) ids _, ?_⟩
      intro x hx y hy hxy
      obtain ⟨q, hq, rfl⟩ := List.mem_map.1 hx
      obtain ⟨r, hr, rfl⟩ := List.mem_map.1 hy
      have h1 := (cdRow_range o a off q hq).2
      have h2 := cdFrom_ge md ids _ r hr
      omega

theorem metadata_points_back {β : Type} (md : List (Option (List (Nat × β)))) (ids : List (List Nat))
    (hlen : md.length = ids.length) :
    (∀ K v, (K, v) ∈ mergeClusterData md ids →
      ∃ k c l, md[k]? = some (some l) ∧ (c, v) ∈ l ∧ c ≤ (ids.getD k []).foldl max 0 ∧
        K = c + (idOffsets ids).getD k 0 ∧ (clusterProbes ids).getD K ids.length = k) ∧
    (∀ k l c v, md[k]? = some (some l) → (c, v) ∈ l → c ≤ (ids.getD k []).foldl max 0 →
      (c + (idOffsets ids).getD k 0, v) ∈ mergeClusterData md ids) ∧
    ((∀ l, some l ∈ md → (l.map (·.1)).Nodup) → ((mergeClusterData md ids).map (·.1)).Nodup) := by
  refine ⟨?_, ?_, ?_⟩
  · intro K v h
    obtain ⟨k, l, c, hk, hkl, hm, hc, rfl⟩ := (mem_mergeClusterData md ids K v).1 h
    exact ⟨k, c, l, hk, hm, hc, rfl, clusterProbes_ok ids k hkl c hc⟩
  · intro k l c v hk hm hc
    have hkl : k < ids.length := by
      rcases Nat.lt_or_ge k md.length with h | h
      · omega
      · rw [List.getElem?_eq_none h] at hk; cases hk
    exact (mem_mergeClusterData md ids _ v).2 ⟨k, l, c, hk, hkl, hm, hc, rfl⟩
  · intro h
    rw [mergeClusterData_eq]
    exact cdFrom_nodup md h ids 0

end PhyVerif.C11.Lemmas
