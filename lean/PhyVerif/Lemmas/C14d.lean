import PhyVerif.Model.C14
import PhyVerif.Spec.C14
import PhyVerif.Lemmas.C14
/-! Proofs for the raw-index clause of C14 on ARBITRARY probe tables: closed form of `exportRawInd`
(`perProbeRawInd`), no negative index exactly on the tables in channel-map order, a merged table is one.
Statements: `Props/C14.lean`. -/
namespace PhyVerif.C14.Lemmas
open PhyVerif PhyVerif.C12 PhyVerif.C14

/-- the offset in effect when the loop of `make_channel_objects` reaches label `q` -/
def offBefore (cm probes : List Nat) : Nat → List Nat → Nat → Nat
  | off, [], _ => off
  | off, p :: L, q => if q = p then off else offBefore cm probes (probeMaxRaw cm probes p + 1) L q

theorem stepFn_snd (cm probes : List Nat) (st : List Int × Nat) (p : Nat) :
    (stepFn cm probes st p).2 = probeMaxRaw cm probes p + 1 := rfl

theorem stepFn_fst_length (cm probes : List Nat) (st : List Int × Nat) (p : Nat) :
    (stepFn cm probes st p).1.length = st.1.length := by
  unfold stepFn
  simp only [setFold_length]

theorem stepFn_fst_get (cm probes : List Nat) (st : List Int × Nat) (p i : Nat) (hl : st.1.length = cm.length)
    (hi : i < cm.length) :
    (stepFn cm probes st p).1.getD i 0 =
      if probes.getD i 0 = p then (cm.getD i 0 : Int) - (st.2 : Int) else st.1.getD i 0 := by
  unfold stepFn
  simp only
  rw [setFold_get _ _ _ i (by omega)]
  have hm : i ∈ List.filter (fun i => probes.getD i 0 == p) (List.range cm.length) ↔ probes.getD i 0 = p := by
    rw [List.mem_filter, List.mem_range]
    exact ⟨fun h => beq_iff_eq.1 h.2, fun h => ⟨hi, beq_iff_eq.2 h⟩⟩
  by_cases h : probes.getD i 0 = p
  · rw [if_pos (hm.2 h), if_pos h]
  · rw [if_neg (fun x => h (hm.1 x)), if_neg h]

theorem fold_length (cm probes : List Nat) : ∀ (L : List Nat) (st : List Int × Nat),
    (L.foldl (stepFn cm probes) st).1.length = st.1.length := by
  intro L
  induction L with
  | nil => intro st; rfl
  | cons p L ih => intro st; rw [List.foldl_cons, ih, stepFn_fst_length]

theorem fold_get (cm probes : List Nat) : ∀ (L : List Nat) (st : List Int × Nat), L.Nodup →
    st.1.length = cm.length → ∀ i, i < cm.length →
      (L.foldl (stepFn cm probes) st).1.getD i 0 =
        if probes.getD i 0 ∈ L then
          (cm.getD i 0 : Int) - ((offBefore cm probes st.2 L (probes.getD i 0) : Nat) : Int)
        else st.1.getD i 0 := by
  intro L
  induction L with
  | nil => intro st _ _ i _; simp
  | cons p L ih =>
    intro st hnd hl i hi
    rw [List.nodup_cons] at hnd
    rw [List.foldl_cons, ih _ hnd.2 (by rw [stepFn_fst_length]; exact hl) i hi, stepFn_snd,
      stepFn_fst_get cm probes st p i hl hi]
    generalize probes.getD i 0 = lab
    by_cases h2 : lab ∈ L
    · have hne : lab ≠ p := fun e => hnd.1 (e ▸ h2)
      rw [if_pos h2, if_pos (List.mem_cons_of_mem _ h2), offBefore, if_neg hne]
    · by_cases h1 : lab = p
      · rw [if_neg h2, if_pos h1, if_pos (by rw [h1]; exact List.mem_cons_self), offBefore, if_pos h1]
      · rw [if_neg h2, if_neg h1, if_neg (fun hm => (List.mem_cons.1 hm).elim h1 h2)]

theorem offBefore_first (cm probes : List Nat) : ∀ (L : List Nat) (off q : Nat), L.Pairwise (· < ·) → q ∈ L →
    (∀ x ∈ L, q ≤ x) → offBefore cm probes off L q = off := by
  intro L
  cases L with
  | nil => intro off q _ hq; simp at hq
  | cons p L =>
    intro off q hs hq hmin
    rw [List.pairwise_cons] at hs
    by_cases h : q = p
    · simp [offBefore, h]
    · have hq' : q ∈ L := by simpa [h] using hq
      have := hs.1 q hq'
      have := hmin p List.mem_cons_self
      omega

theorem offBefore_prev (cm probes : List Nat) : ∀ (L : List Nat) (off q r : Nat), L.Pairwise (· < ·) → q ∈ L →
    r ∈ L → r < q → (∀ x ∈ L, x < q → x ≤ r) → offBefore cm probes off L q = probeMaxRaw cm probes r + 1 := by
  intro L
  induction L with
  | nil => intro off q r _ hq; simp at hq
  | cons p L ih =>
    intro off q r hs hq hr hrq hmax
    rw [List.pairwise_cons] at hs
    have hqp : q ≠ p := by
      intro e
      subst e
      rcases List.mem_cons.1 hr with e | hr'
      · omega
      · have := hs.1 r hr'; omega
    have hq' : q ∈ L := by simpa [hqp] using hq
    rw [offBefore, if_neg hqp]
    by_cases hrp : r = p
    · subst hrp
      -- `q` is the smallest label of the tail
      exact offBefore_first cm probes L _ q hs.2 hq' (fun x hx => by
        by_contra hlt
        have h1 := hmax x (List.mem_cons_of_mem _ hx) (by omega)
        have h2 := hs.1 x hx
        omega)
    · have hr' : r ∈ L := by simpa [hrp] using hr
      exact ih _ q r hs.2 hq' hr' hrq (fun x hx hxq => hmax x (List.mem_cons_of_mem _ hx) hxq)

theorem uniqueNat_spec (probes : List Nat) :
    (uniqueNat probes).Pairwise (· < ·) ∧ ∀ v, v ∈ uniqueNat probes ↔ v ∈ probes := by
  obtain ⟨h1, h2⟩ := C07.Lemmas.unique_spec (probes.map Int.ofNat)
  refine ⟨h1, fun v => ?_⟩
  show v ∈ Np.unique _ ↔ _
  rw [h2]
  show Int.ofNat v ∈ probes.map Int.ofNat ↔ _
  rw [List.mem_map]
  constructor
  · rintro ⟨a, ha, hav⟩
    rw [← Int.ofNat.inj hav]; exact ha
  · intro hv; exact ⟨v, hv, rfl⟩

theorem exportRawInd_length (cm probes : List Nat) : (exportRawInd cm probes).length = cm.length := by
  rw [exportRawInd_eq, fold_length]
  simp

theorem perProbeRawInd_length (cm probes : List Nat) : (perProbeRawInd cm probes).length = cm.length := by
  simp [perProbeRawInd]

theorem perProbeRawInd_getD (cm probes : List Nat) (i : Nat) (hi : i < cm.length) :
    (perProbeRawInd cm probes).getD i 0 =
      match (probes.filter (· < probes.getD i 0)).max? with
      | none => (cm.getD i 0 : Int)
      | some q => (cm.getD i 0 : Int) - ((probeMaxRaw cm probes q + 1 : Nat) : Int) := by
  unfold perProbeRawInd
  rw [List.getD_eq_getElem?_getD, List.getElem?_map, List.getElem?_range hi]
  rfl

theorem ext_getD (a b : List Int) (hl : a.length = b.length)
    (h : ∀ i, i < a.length → a.getD i 0 = b.getD i 0) : a = b := by
  apply List.ext_getElem hl
  intro i h1 h2
  have := h i h1
  rwa [List.getD_eq_getElem?_getD, List.getD_eq_getElem?_getD, List.getElem?_eq_getElem h1,
    List.getElem?_eq_getElem h2, Option.getD_some, Option.getD_some] at this

/-- closed form of `make_channel_objects` for ANY probe table with one label per channel -/
theorem rawInd_per_probe (cm probes : List Nat) (hlen : probes.length = cm.length) :
    exportRawInd cm probes = perProbeRawInd cm probes := by
  apply ext_getD _ _ (by rw [exportRawInd_length, perProbeRawInd_length])
  intro i hi
  rw [exportRawInd_length] at hi
  obtain ⟨hs, hm⟩ := uniqueNat_spec probes
  have hnd : (uniqueNat probes).Nodup := hs.imp (fun h => Nat.ne_of_lt h)
  have hmem : probes.getD i 0 ∈ probes := getD_mem probes i (by omega)
  rw [exportRawInd_eq, fold_get cm probes _ _ hnd (by simp) i hi, if_pos ((hm _).2 hmem),
    perProbeRawInd_getD cm probes i hi]
  cases hmx : (probes.filter (· < probes.getD i 0)).max? with
  | none =>
    have hnil := List.max?_eq_none_iff.1 hmx
    rw [offBefore_first cm probes _ 0 _ hs ((hm _).2 hmem) (fun x hx => by
      by_contra hlt
      have : x ∈ probes.filter (· < probes.getD i 0) :=
        List.mem_filter.2 ⟨(hm x).1 hx, by simpa using Nat.lt_of_not_le hlt⟩
      rw [hnil] at this
      simp at this)]
    simp
  | some q =>
    obtain ⟨hq, hqmax⟩ := List.max?_eq_some_iff.1 hmx
    obtain ⟨hqp, hqlt⟩ := List.mem_filter.1 hq
    have hqlt' : q < probes.getD i 0 := by simpa using hqlt
    rw [offBefore_prev cm probes _ 0 _ q hs ((hm _).2 hmem) ((hm q).2 hqp) hqlt' (fun x hx hxq =>
      hqmax x (List.mem_filter.2 ⟨(hm x).1 hx, by simpa using hxq⟩))]

/-! ### no negative index ⇔ labels in channel-map order -/

theorem probesOrdered_iff (cm probes : List Nat) :
    probesOrdered cm probes = true ↔
      ∀ a b, a < cm.length → b < cm.length → probes.getD a 0 < probes.getD b 0 → cm.getD a 0 < cm.getD b 0 := by
  unfold probesOrdered
  simp only [List.all_eq_true, List.mem_range, Bool.or_eq_true, Bool.not_eq_true', decide_eq_false_iff_not,
    decide_eq_true_eq]
  constructor
  · intro h a b ha hb hlt
    rcases h a ha b hb with h1 | h1
    · exact absurd hlt h1
    · exact h1
  · intro h a ha b hb
    by_cases hlt : probes.getD a 0 < probes.getD b 0
    · exact Or.inr (h a b ha hb hlt)
    · exact Or.inl hlt

theorem nat_foldl_max_mem : ∀ (l : List Nat) (a : Nat), l.foldl max a = a ∨ l.foldl max a ∈ l
  | [], a => Or.inl rfl
  | b :: l, a => by
    rw [List.foldl_cons]
    rcases nat_foldl_max_mem l (max a b) with h | h
    · rw [h]
      by_cases hab : a ≤ b
      · right; rw [Nat.max_eq_right hab]; simp
      · left; exact Nat.max_eq_left (by omega)
    · right; exact List.mem_cons_of_mem _ h

/-- a label in use has a channel, and its largest raw index is the raw index of one of its channels and bounds all -/
theorem probeMaxRaw_spec (cm probes : List Nat) (hlen : probes.length = cm.length) (q : Nat) (hq : q ∈ probes) :
    (∃ j, j < cm.length ∧ probes.getD j 0 = q ∧ cm.getD j 0 = probeMaxRaw cm probes q) ∧
    ∀ j, j < cm.length → probes.getD j 0 = q → cm.getD j 0 ≤ probeMaxRaw cm probes q := by
  have hub : ∀ j, j < cm.length → probes.getD j 0 = q → cm.getD j 0 ≤ probeMaxRaw cm probes q := by
    intro j hj hjq
    unfold probeMaxRaw
    apply (C12.Lemmas.nat_foldl_max _ 0).2
    exact List.mem_map.2 ⟨j, List.mem_filter.2 ⟨List.mem_range.2 hj, beq_iff_eq.2 hjq⟩, rfl⟩
  refine ⟨?_, hub⟩
  obtain ⟨j0, hj0, hj0q⟩ := List.getElem_of_mem hq
  have hj0' : j0 < cm.length := by omega
  have hj0q' : probes.getD j0 0 = q := by rw [getD_eq_getElem probes j0 hj0]; exact hj0q
  rcases nat_foldl_max_mem (((List.range cm.length).filter fun i => probes.getD i 0 == q).map fun i => cm.getD i 0) 0
    with h | h
  · refine ⟨j0, hj0', hj0q', ?_⟩
    have := hub j0 hj0' hj0q'
    unfold probeMaxRaw at this ⊢
    omega
  · obtain ⟨j, hj, hjv⟩ := List.mem_map.1 h
    obtain ⟨hj1, hj2⟩ := List.mem_filter.1 hj
    exact ⟨j, List.mem_range.1 hj1, by simpa using hj2, hjv⟩

theorem rawInd_nonneg_of_ordered (cm probes : List Nat) (hlen : probes.length = cm.length)
    (ho : probesOrdered cm probes = true) : ∀ x ∈ exportRawInd cm probes, 0 ≤ x := by
  intro x hx
  obtain ⟨i, hi, rfl⟩ := List.getElem_of_mem hx
  have hi' : i < cm.length := by rw [exportRawInd_length] at hi; exact hi
  have hg : (exportRawInd cm probes)[i] = (exportRawInd cm probes).getD i 0 := by
    rw [List.getD_eq_getElem?_getD, List.getElem?_eq_getElem hi]; rfl
  rw [hg, rawInd_per_probe cm probes hlen, perProbeRawInd_getD cm probes i hi']
  cases hmx : (probes.filter (· < probes.getD i 0)).max? with
  | none => exact Int.natCast_nonneg _
  | some q =>
    obtain ⟨hq, _⟩ := List.max?_eq_some_iff.1 hmx
    obtain ⟨hqp, hqlt⟩ := List.mem_filter.1 hq
    obtain ⟨⟨j, hj, hjq, hjv⟩, _⟩ := probeMaxRaw_spec cm probes hlen q hqp
    have := (probesOrdered_iff cm probes).1 ho j i hj hi' (by rw [hjq]; simpa using hqlt)
    show 0 ≤ (cm.getD i 0 : Int) - ((probeMaxRaw cm probes q + 1 : Nat) : Int)
    omega

theorem ordered_of_rawInd_nonneg (cm probes : List Nat) (hlen : probes.length = cm.length)
    (hnn : ∀ x ∈ exportRawInd cm probes, 0 ≤ x) : probesOrdered cm probes = true := by
  rw [probesOrdered_iff]
  -- every channel lies above the largest raw index of the previous label
  have hstep : ∀ i, i < cm.length → ∀ q, (probes.filter (· < probes.getD i 0)).max? = some q →
      probeMaxRaw cm probes q < cm.getD i 0 := by
    intro i hi q hmx
    have hil : i < (exportRawInd cm probes).length := by rw [exportRawInd_length]; exact hi
    have h0 := hnn _ (List.getElem_mem hil)
    have hg : (exportRawInd cm probes)[i] = (exportRawInd cm probes).getD i 0 := by
      rw [List.getD_eq_getElem?_getD, List.getElem?_eq_getElem hil]; rfl
    rw [hg, rawInd_per_probe cm probes hlen, perProbeRawInd_getD cm probes i hi, hmx] at h0
    have h0' : 0 ≤ (cm.getD i 0 : Int) - ((probeMaxRaw cm probes q + 1 : Nat) : Int) := h0
    omega
  intro a b ha hb
  generalize hp : probes.getD b 0 = p
  induction p using Nat.strong_induction_on generalizing b with
  | _ p ih =>
    intro hlt
    have hamem : probes.getD a 0 ∈ probes.filter (· < probes.getD b 0) :=
      List.mem_filter.2 ⟨getD_mem probes a (by omega), by rw [hp]; simpa using hlt⟩
    cases hmx : (probes.filter (· < probes.getD b 0)).max? with
    | none =>
      rw [List.max?_eq_none_iff.1 hmx] at hamem
      simp at hamem
    | some q =>
      obtain ⟨hq, hqmax⟩ := List.max?_eq_some_iff.1 hmx
      obtain ⟨hqp, hqlt⟩ := List.mem_filter.1 hq
      have hqlt' : q < p := by rw [hp] at hqlt; simpa using hqlt
      have hM := hstep b hb q hmx
      obtain ⟨⟨j, hj, hjq, hjv⟩, hub⟩ := probeMaxRaw_spec cm probes hlen q hqp
      have haq := hqmax _ hamem
      by_cases he : probes.getD a 0 = q
      · have := hub a ha he
        omega
      · have := ih q hqlt' j hj hjq (by omega)
        omega

end PhyVerif.C14.Lemmas
