import PhyVerif.Model.C01b
import PhyVerif.Spec.C01b
import PhyVerif.Lemmas.C01
import PhyVerif.Lemmas.C16
import PhyVerif.Lemmas.C16c
import PhyVerif.Lemmas.C16d
/-! Proofs for the reader objects of C01 (attributes, backend-tagged `__getitem__`).
Statements: `Props/C01.lean`. -/
namespace PhyVerif.C01.Lemmas
open PhyVerif PhyVerif.C01

/-! ### stored bounds -/

theorem partBoundsFrom_eq {α : Type} (parts : List (List α)) :
    ∀ off, C16.partBoundsFrom off (parts.map List.length) = boundsFrom off parts := by
  induction parts with
  | nil => intro off; rfl
  | cons p ps ih => intro off; simp only [List.map_cons, C16.partBoundsFrom, boundsFrom, ih]

theorem partBounds_eq {α : Type} (parts : List (List α)) :
    C16.partBounds (parts.map List.length) = bounds parts := partBoundsFrom_eq parts 0

theorem getRowsW_bounds {α : Type} (parts : List (List α)) (it : Item) :
    getRowsW (bounds parts) parts it = getRows parts it := by
  cases it <;> rfl

theorem sum_lengths {α : Type} (parts : List (List α)) :
    (parts.map List.length).sum = parts.flatten.length := by
  rw [List.length_flatten]

theorem boundsOK_last (sizes : List Nat) (cs : Nat) (b : List Nat) (h : C16.boundsOK sizes cs b = true) :
    b.getLast? = some sizes.sum := by
  simp only [C16.boundsOK, Bool.and_eq_true, beq_iff_eq] at h
  exact h.1.1.1.2

/-- an accepted rate makes the float-product chunk length positive (`C16.chunkSizeFl_pos_iff`) -/
theorem chunkSizeFl_pos {rate : Rat} (hr : RateOK rate) : 0 < C16.chunkSizeFl rate :=
  (C16.Lemmas.chunkSizeFl_pos_iff_rate rate).2 hr.1

/-- chunk bounds of a flat / array reader (chunk length from the float product) end at the total number of rows -/
theorem readerChunkBoundsFl_last (sizes : List Nat) (rate : Rat) (hne : sizes ≠ []) (hr : RateOK rate) :
    ∃ cb, C16.readerChunkBoundsFl sizes rate = some cb ∧ cb.getLast? = some sizes.sum := by
  obtain ⟨cb, hcb, hok⟩ := C16.Lemmas.readerChunkBoundsFl_ok sizes rate hne (chunkSizeFl_pos hr)
  exact ⟨cb, hcb, boundsOK_last _ _ _ hok⟩

theorem rate_pos {rate : Rat} (hr : RateOK rate) : 0 < rate := by
  have := hr.1
  by_contra hc
  have h0 : rate ≤ 0 := not_lt.1 hc
  linarith

theorem rate_ne {rate : Rat} (hr : RateOK rate) : rate ≠ 0 := ne_of_gt (rate_pos hr)

/-- what the theorems need to know about a constructed reader -/
structure Built {α : Type} (src : Source α) (r : Reader α) : Prop where
  backend : r.backend = src.backend
  nSamples : r.nSamples = some src.concat.length
  nChannels : r.nChannels = src.width
  dtype : r.dtype = src.dtype
  rate : r.rate = src.rate
  rate_ne : r.rate ≠ 0
  partBounds : r.partBounds = bounds r.store
  store : r.store.flatten = src.concat

theorem buildArray_built {α : Type} (be : Backend) (a : Arr α) (rate : Rat) (hr : RateOK rate) :
    ∃ r, buildArray be a rate = some r ∧ r.backend = be ∧ r.nSamples = some a.rows.length ∧
      r.nChannels = a.ncols ∧ r.dtype = a.dtype ∧ r.rate = rate ∧ r.partBounds = bounds r.store ∧
      r.store = [a.rows] := by
  obtain ⟨cb, hcb, hlast⟩ := readerChunkBoundsFl_last [a.rows.length] rate (by simp) hr
  have hpos := rate_pos hr
  refine ⟨{ backend := be, store := [a.rows], partBounds := [0, a.rows.length], chunkBounds := cb,
            nChannels := a.ncols, dtype := a.dtype, rate := rate }, ?_, ?_⟩
  · unfold buildArray
    rw [if_neg (Rat.not_le.2 hpos), hcb]
  · refine ⟨rfl, ?_, rfl, rfl, rfl, ?_, rfl⟩
    · simpa [Reader.nSamples] using hlast
    · simp [bounds, boundsFrom]

theorem build_built {α : Type} (src : Source α) (h : SrcOK src) : ∃ r, build src = some r ∧ Built src r := by
  cases src with
  | flat files off isz nch dtype rate =>
    obtain ⟨hne, hisz, hnch, hfs, hr⟩ := h
    have hsizes : (files.map fun f => memmapRows f.fsize off isz nch) =
        (files.map (·.rows)).map List.length := by
      rw [List.map_map]
      apply List.map_congr_left
      intro f hf
      rw [hfs f hf]
      exact memmapRows_exact off isz nch _ hisz hnch
    obtain ⟨cb, hcb, hlast⟩ := readerChunkBoundsFl_last ((files.map (·.rows)).map List.length) rate
      (by simpa using hne) hr
    refine ⟨{ backend := .flat, store := files.map (·.rows),
              partBounds := C16.partBounds ((files.map (·.rows)).map List.length),
              chunkBounds := cb, nChannels := nch, dtype := dtype, rate := rate }, ?_, ?_⟩
    · unfold build
      simp only []
      rw [if_neg (by simpa using hne), if_neg (by omega), if_neg (by
        simp only [List.any_eq_true, decide_eq_true_eq, not_exists, not_and]
        intro f hf; rw [hfs f hf]; omega), hsizes, hcb]
    · refine ⟨rfl, ?_, rfl, rfl, rfl, rate_ne hr, ?_, rfl⟩
      · simp only [Reader.nSamples, hlast, sum_lengths]; rfl
      · exact partBounds_eq _
  | array a rate =>
    obtain ⟨r, hb, h1, h2, h3, h4, h5, h6, h7⟩ := buildArray_built .array a rate h
    refine ⟨r, hb, h1, h2, h3, h4, h5, ?_, h6, ?_⟩
    · rw [h5]; exact rate_ne h
    · rw [h7]; simp [Source.concat]
  | npy paths rate =>
    obtain ⟨hlen, hr⟩ := h
    match paths, hlen with
    | [a], _ =>
      obtain ⟨r, hb, h1, h2, h3, h4, h5, h6, h7⟩ := buildArray_built .npy a rate hr
      refine ⟨r, hb, h1, ?_, h3, h4, h5, ?_, h6, ?_⟩
      · rw [h2]; simp [Source.concat]
      · rw [h5]; exact rate_ne hr
      · rw [h7]; simp [Source.concat]
  | cbin readers =>
    obtain ⟨hlen, hmd⟩ := h
    match readers, hlen, hmd with
    | [(m, d)], _, hmd =>
      obtain ⟨hl, hrate⟩ := hmd (m, d) (List.mem_singleton.2 rfl)
      simp only at hl hrate
      refine ⟨{ backend := .cbin, store := [d], partBounds := [0, d.length], chunkBounds := m.chunkBounds,
                nChannels := m.nChannels, dtype := m.dtype, rate := m.rate }, ?_, ?_⟩
      · unfold build
        simp only [hl]
      · refine ⟨rfl, ?_, rfl, rfl, rfl, hrate, ?_, ?_⟩
        · simp [Reader.nSamples, hl, Source.concat]
        · simp [bounds, boundsFrom]
        · simp [Source.concat]

/-- the constructors of flat / in-memory / npy readers reject every rate at or below the lower bound of `RateOK` -/
theorem buildArray_none {α : Type} (be : Backend) (a : Arr α) (rate : Rat)
    (h : 600 * rate ≤ 1/2 + 1/18014398509481984) : buildArray be a rate = none := by
  have hcs : C16.chunkSizeFl rate ≤ 0 := by
    have := (C16.Lemmas.chunkSizeFl_pos_iff_rate rate).not.2 (not_lt.2 h)
    omega
  unfold buildArray
  split
  · rfl
  · rw [C16.Lemmas.readerChunkBoundsFl_none _ _ hcs]

theorem build_none_of_rate {α : Type} (src : Source α) (hbe : src.backend ≠ .cbin)
    (h : 600 * src.rate ≤ 1/2 + 1/18014398509481984) : build src = none := by
  cases src with
  | flat files off isz nch dtype rate =>
    have hcs : C16.chunkSizeFl rate ≤ 0 := by
      have := (C16.Lemmas.chunkSizeFl_pos_iff_rate rate).not.2 (not_lt.2 h)
      omega
    unfold build
    simp only []
    split
    · rfl
    · split
      · rfl
      · split
        · rfl
        · rw [C16.Lemmas.readerChunkBoundsFl_none _ _ hcs]
  | array a rate => exact buildArray_none .array a rate h
  | npy paths rate =>
    match paths with
    | [a] => exact buildArray_none .npy a rate h
    | [] => rfl
    | _ :: _ :: _ => rfl
  | cbin readers => exact absurd rfl hbe

/-! ### attributes -/

theorem attrs_of_built {α : Type} (src : Source α) (r : Reader α) (b : Built src r) :
    r.backend = src.backend ∧
    r.nSamples = some src.concat.length ∧
    r.shape = some (src.concat.length, src.width) ∧
    r.nChannels = src.width ∧ r.dtype = src.dtype ∧
    r.duration = some ((src.concat.length : Rat) / src.rate) ∧
    r.partBounds = bounds r.store ∧ r.store.flatten = src.concat := by
  refine ⟨b.backend, b.nSamples, ?_, b.nChannels, b.dtype, ?_, b.partBounds, b.store⟩
  · simp [Reader.shape, b.nSamples, b.nChannels]
  · simp only [Reader.duration, b.nSamples, Option.bind_some]
    rw [if_neg b.rate_ne, b.rate]

theorem reader_attrs {α : Type} (src : Source α) (h : SrcOK src) :
    ∃ r, build src = some r ∧
      r.backend = src.backend ∧
      r.nSamples = some src.concat.length ∧
      r.shape = some (src.concat.length, src.width) ∧
      r.nChannels = src.width ∧ r.dtype = src.dtype ∧
      r.duration = some ((src.concat.length : Rat) / src.rate) ∧
      r.partBounds = bounds r.store ∧ r.store.flatten = src.concat := by
  obtain ⟨r, hr, b⟩ := build_built src h
  exact ⟨r, hr, attrs_of_built src r b⟩

/-! ### channel selection -/

/-- an index list within `[-w, w)` selects exactly one cell per entry, in the order written, negative entries
counting from the end (no entry is dropped by the `filterMap` of `selCols`) -/
theorem selCols_idx {β : Type} (l : List Int) (row : List β)
    (hl : ∀ i ∈ l, -(row.length : Int) ≤ i ∧ i < row.length) (d : β) :
    selCols (.idx l) row =
      l.map fun i => (row[(if i < 0 then i + (row.length : Int) else i).toNat]?).getD d := by
  unfold selCols
  simp only []
  induction l with
  | nil => rfl
  | cons i t ih =>
    have hi := hl i (List.mem_cons_self ..)
    have hlt : (if i < 0 then i + (row.length : Int) else i).toNat < row.length := by
      split <;> omega
    rw [List.filterMap_cons, List.getElem?_eq_getElem hlt]
    simp only [List.map_cons, List.getElem?_eq_getElem hlt, Option.getD_some]
    rw [ih (fun j hj => hl j (List.mem_cons_of_mem _ hj))]

/-! ### `__getitem__` -/

theorem listChunks_some {α : Type} (parts : List (List α)) (l : List Nat) (hne : l ≠ [])
    (hlt : ∀ x ∈ l, x < parts.flatten.length) :
    ∃ c cs, listChunks (bounds parts) l = some (c :: cs) := by
  let cid : Nat → Nat := fun x => ssRight (bounds parts) x - 1
  obtain ⟨_, hmem⟩ := C07.Lemmas.unique_spec (l.map fun x => Int.ofNat (cid x))
  have hmem' : ∀ c, c ∈ Np.unique (l.map fun x => Int.ofNat (cid x)) ↔ ∃ x ∈ l, cid x = c := by
    intro c
    rw [hmem c]
    show Int.ofNat c ∈ List.map (fun x => Int.ofNat (cid x)) l ↔ _
    rw [List.mem_map]
    constructor
    · rintro ⟨x, hx, h⟩; exact ⟨x, hx, Int.ofNat.inj h⟩
    · rintro ⟨x, hx, h⟩; exact ⟨x, hx, by rw [h]⟩
  have hall : listChunks (bounds parts) l = some ((Np.unique (l.map fun x => Int.ofNat (cid x))).map id) := by
    unfold listChunks
    apply Np.Lemmas.mapM_option_eq_some
    intro c hc
    obtain ⟨x, hx, rfl⟩ := (hmem' c).1 hc
    obtain ⟨hc, _, _⟩ := chunk_spec parts x (hlt x hx)
    simp only [cid] at hc ⊢
    rw [if_neg (by rw [bounds_length]; omega)]; rfl
  rw [List.map_id] at hall
  cases l with
  | nil => exact absurd rfl hne
  | cons x xs =>
    have hx : cid x ∈ Np.unique ((x :: xs).map fun x => Int.ofNat (cid x)) :=
      (hmem' _).2 ⟨x, List.mem_cons_self .., rfl⟩
    cases hU : Np.unique ((x :: xs).map fun x => Int.ofNat (cid x)) with
    | nil => rw [hU] at hx; exact absurd hx List.not_mem_nil
    | cons c cs => exact ⟨c, cs, by rw [hall, hU]⟩

/-- every backend, every in-domain index expression the backend offers -/
theorem getRowsB_eq {α : Type} (r : Reader α) (hb : r.partBounds = bounds r.store) (it : Item)
    (hd : InDom r.store.flatten.length it) (hoff : r.backend = .cbin → it.isList = false) :
    ∃ rows, npRows r.store.flatten it = some rows ∧ rows ≠ [] ∧ getRowsB r it = .ok rows := by
  obtain ⟨rows, hrows, hne⟩ := npRows_some r.store.flatten it hd
  refine ⟨rows, hrows, hne, ?_⟩
  have hW : getRowsW r.partBounds r.store it = some rows := by
    rw [hb, getRowsW_bounds, getRows_eq_concat' r.store it hd, hrows]
  unfold getRowsB
  cases hbe : r.backend <;> cases it <;> simp only [hW] <;>
    (have := hoff hbe; simp [Item.isList] at this)

/-- the compressed backend refuses in-domain index lists -/
theorem getRowsB_cbin_list {α : Type} (r : Reader α) (hb : r.partBounds = bounds r.store)
    (hbe : r.backend = .cbin) (l : List Int) (hd : InDom r.store.flatten.length (.list l)) :
    getRowsB r (.list l) = .refused := by
  obtain ⟨hl0, _, hl2⟩ := hd
  obtain ⟨c, cs, hc⟩ := listChunks_some r.store (l.map Int.toNat) (by simpa using hl0) (by
    intro x hx
    obtain ⟨i, hi, rfl⟩ := List.mem_map.1 hx
    have := hl2 i hi; omega)
  unfold getRowsB
  simp only [hbe]
  rw [if_neg (by simpa using hl0), if_neg (by
    simp only [List.any_eq_true, decide_eq_true_eq, not_exists, not_and]
    intro i hi; have := hl2 i hi; omega), hb, hc]

theorem getItemB_eq {β : Type} (src : Source (List β)) (h : SrcOK src) (r : Reader (List β))
    (hr : build src = some r) (it : Item) (hd : InDom src.concat.length it) (c : ColSel)
    (hoff : src.backend = .cbin → it.isList = false) :
    ∃ rows, npRows src.concat it = some rows ∧ rows ≠ [] ∧
      getItemB r it c = .ok (rows.map (selCols c)) := by
  obtain ⟨r', hr', b⟩ := build_built src h
  rw [hr] at hr'; cases hr'
  have hd' : InDom r.store.flatten.length it := by rw [b.store]; exact hd
  obtain ⟨rows, h1, h2, h3⟩ := getRowsB_eq r b.partBounds it hd' (by rw [b.backend]; exact hoff)
  refine ⟨rows, by rw [← b.store]; exact h1, h2, ?_⟩
  unfold getItemB
  rw [h3]

theorem getItemOps_eq {β : Type} (src : Source (List β)) (h : SrcOK src) (r : Reader (List β))
    (hr : build src = some r) (it : Item) (hd : InDom src.concat.length it) (ops : List ColSel)
    (hoff : src.backend = .cbin → it.isList = false) :
    ∃ rows, npRows src.concat it = some rows ∧ rows ≠ [] ∧
      getItemOps r it ops = .ok (rows.map (applyCols ops)) := by
  obtain ⟨r', hr', b⟩ := build_built src h
  rw [hr] at hr'; cases hr'
  have hd' : InDom r.store.flatten.length it := by rw [b.store]; exact hd
  obtain ⟨rows, h1, h2, h3⟩ := getRowsB_eq r b.partBounds it hd' (by rw [b.backend]; exact hoff)
  refine ⟨rows, by rw [← b.store]; exact h1, h2, ?_⟩
  unfold getItemOps
  rw [h3]

theorem getItemB_refused {β : Type} (src : Source (List β)) (h : SrcOK src) (r : Reader (List β))
    (hr : build src = some r) (hbe : src.backend = .cbin) (l : List Int)
    (hd : InDom src.concat.length (.list l)) (c : ColSel) :
    getItemB r (.list l) c = .refused := by
  obtain ⟨r', hr', b⟩ := build_built src h
  rw [hr] at hr'; cases hr'
  have hd' : InDom r.store.flatten.length (.list l) := by rw [b.store]; exact hd
  unfold getItemB
  rw [getRowsB_cbin_list r b.partBounds (by rw [b.backend]; exact hbe) l hd']

/-- never a wrong answer: whatever the backend, an answer to an in-domain index is NumPy's -/
theorem getItemB_sound {β : Type} (src : Source (List β)) (h : SrcOK src) (r : Reader (List β))
    (hr : build src = some r) (it : Item) (hd : InDom src.concat.length it) (c : ColSel)
    (v : List (List β)) (hv : getItemB r it c = .ok v) :
    ∃ rows, npRows src.concat it = some rows ∧ v = rows.map (selCols c) := by
  have key : (src.backend = .cbin → it.isList = false) →
      ∃ rows, npRows src.concat it = some rows ∧ v = rows.map (selCols c) := by
    intro hoff
    obtain ⟨rows, h1, _, h3⟩ := getItemB_eq src h r hr it hd c hoff
    rw [h3] at hv
    exact ⟨rows, h1, by cases hv; rfl⟩
  by_cases hbe : src.backend = .cbin
  · cases it with
    | list l =>
      rw [getItemB_refused src h r hr hbe l hd c] at hv
      cases hv
    | int i => exact key (fun _ => rfl)
    | slice s e => exact key (fun _ => rfl)
  · exact key (fun h => absurd h hbe)

end PhyVerif.C01.Lemmas
