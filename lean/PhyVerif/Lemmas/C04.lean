import PhyVerif.Model.C04
/-! Helper lemmas and full proofs for C04. Statements: `Props/C04.lean`. -/
namespace PhyVerif.C04.Lemmas
open PhyVerif PhyVerif.C04

theorem findPath_first_match (d : Dir) (names : List String) (f : String) (h : findPath d names = some f) :
    ∃ i, ∃ hi : i < names.length, globMatch (names[i]'hi) f = true ∧ f ∈ d.map (·.1) ∧
      ∀ j (hj : j < names.length), j < i → ∀ g ∈ d.map (·.1), globMatch (names[j]'hj) g = false := by
  sorry

theorem findPath_none (d : Dir) (names : List String) (h : findPath d names = none) :
    ∀ p ∈ names, ∀ g ∈ d.map (·.1), globMatch p g = false := by
  sorry

theorem load_frame (inv : Arr → Arr) (d : Dir) (v : View) (d' : Dir) (h : load inv d = .ok (v, d')) :
    (∀ name a, d.lookup name = some a → d'.lookup name = some a) ∧
    (∀ name ∈ d'.map (·.1), name ∈ d.map (·.1) ∨ name = "spike_clusters.npy" ∨ name = "whitening_mat_inv.npy") ∧
    (("spike_clusters.npy" ∈ d'.map (·.1) ∧ "spike_clusters.npy" ∉ d.map (·.1)) ↔
      findPath d ["spike_clusters.npy", "spikes.clusters*.npy"] = none) ∧
    (d'.length = d.length +
      (if findPath d ["spike_clusters.npy", "spikes.clusters*.npy"] = none then 1 else 0) +
      (if d.lookup "whitening_mat_inv.npy" = none then 1 else 0)) := by
  sorry

theorem load_rejects_nonmonotone (inv : Arr → Arr) (d : Dir) (s : Arr) (hs : d.lookup "spike_times.npy" = some s)
    (hm : monotone s.data = false) : load inv d = .error .nonMonotone := by
  sorry

theorem scrub_spec (a : Arr) :
    (scrub a).shape = a.shape ∧ (scrub a).data.length = a.data.length ∧
    ∀ i (hi : i < a.data.length), (scrub a).data.getD i .nan =
      (match a.data[i]'hi with | .num v => .num v | _ => .num 0) := by
  sorry

theorem clusters_default (inv : Arr → Arr) (d : Dir) (v : View) (d' : Dir) (h : load inv d = .ok (v, d'))
    (hn : findPath d ["spike_clusters.npy", "spikes.clusters*.npy"] = none) :
    v.spikeClusters = v.spikeTemplates ∧
    ∃ f, findPath d ["spike_templates.npy", "spikes.templates*.npy"] = some f ∧
      d'.lookup "spike_clusters.npy" = d.lookup f := by
  sorry

end PhyVerif.C04.Lemmas
