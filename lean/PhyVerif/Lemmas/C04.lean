import PhyVerif.Model.C04
/-! Helper lemmas and full proofs for C04. Statements: `Props/C04.lean`. -/
namespace PhyVerif.C04.Lemmas
open PhyVerif PhyVerif.C04

theorem findPath_first_match (d : Dir) (names : List String) (f : String) (h : findPath d names = some f) :
    ∃ i, ∃ hi : i < names.length, globMatch (names[i]'hi) f = true ∧ f ∈ d.map (·.1) ∧
      ∀ j (hj : j < names.length), j < i → ∀ g ∈ d.map (·.1), globMatch (names[j]'hj) g = false := by
  induction names with
  | nil => simp [findPath] at h
  | cons p rest ih =>
    simp only [findPath] at h
    split at h
    · next g hg =>
      cases h
      rw [List.head?_filter] at hg
      have h1 := List.find?_some hg
      have h2 := List.mem_of_find?_eq_some hg
      exact ⟨0, by simp, by simpa using h1, List.mem_map.2 ⟨g, h2, rfl⟩, fun j hj hlt => absurd hlt (by omega)⟩
    · next hn =>
      rw [List.head?_filter, List.find?_eq_none] at hn
      obtain ⟨i, hi, h1, h2, h3⟩ := ih h
      refine ⟨i + 1, by simpa using hi, by simpa using h1, h2, ?_⟩
      intro j hj hlt g hg
      cases j with
      | zero =>
        obtain ⟨x, hx, rfl⟩ := List.mem_map.1 hg
        simpa using hn x hx
      | succ j => simpa using h3 j (by simpa using hj) (by omega) g hg

theorem findPath_none (d : Dir) (names : List String) (h : findPath d names = none) :
    ∀ p ∈ names, ∀ g ∈ d.map (·.1), globMatch p g = false := by
  induction names with
  | nil => simp
  | cons p rest ih =>
    simp only [findPath] at h
    split at h
    · cases h
    · next hn =>
      rw [List.head?_filter, List.find?_eq_none] at hn
      intro q hq g hg
      rcases List.mem_cons.1 hq with rfl | hq
      · obtain ⟨x, hx, rfl⟩ := List.mem_map.1 hg
        simpa using hn x hx
      · exact ih h q hq g hg

theorem splitStar_nostar (l : List Char) (h : '*' ∉ l) : splitStar l = (l, none) := by
  induction l with
  | nil => rfl
  | cons c t ih =>
    have hc : c ≠ '*' := fun e => h (by simp [e])
    have ht : '*' ∉ t := fun e => h (by simp [e])
    rw [splitStar]
    · simp [ih ht]
    · exact hc

theorem globMatch_exact (p name : String) (h : '*' ∉ p.toList) : globMatch p name = true ↔ name = p := by
  simp only [globMatch, splitStar_nostar _ h, beq_iff_eq, String.toList_inj]
  exact eq_comm

theorem findPath_exact_some (d : Dir) (p f : String) (hp : '*' ∉ p.toList) (h : findPath d [p] = some f) :
    f = p ∧ p ∈ d.map (·.1) := by
  obtain ⟨i, hi, h1, h2, -⟩ := findPath_first_match d [p] f h
  have : i = 0 := by simpa using hi
  subst this
  have := (globMatch_exact p f hp).1 (by simpa using h1)
  subst this
  exact ⟨rfl, h2⟩

theorem lookup_none_of_not_mem (d : Dir) (p : String) (h : p ∉ d.map (·.1)) : d.lookup p = none := by
  rw [List.lookup_eq_none_iff]
  intro x hx
  simp only [bne_iff_ne, ne_eq]
  intro e
  exact h (List.mem_map.2 ⟨x, hx, e.symm⟩)

theorem findPath_exact_none (d : Dir) (p : String) (hp : '*' ∉ p.toList) (h : findPath d [p] = none) :
    p ∉ d.map (·.1) := by
  intro hm
  have := findPath_none d [p] h p (by simp) p hm
  rw [(globMatch_exact p p hp).2 rfl] at this
  cases this

theorem readFile_exact (d : Dir) (p : String) (hp : '*' ∉ p.toList) : readFile d [p] = d.lookup p := by
  unfold readFile
  split
  · next f hf => rw [(findPath_exact_some d p f hp hf).1]
  · next hf => exact (lookup_none_of_not_mem d p (findPath_exact_none d p hp hf)).symm


/-- the directory after the spike-cluster step -/
def d1Of (d : Dir) : Dir :=
  match findPath d ["spike_clusters.npy", "spikes.clusters*.npy"] with
  | some _ => d
  | none =>
    match findPath d ["spike_templates.npy", "spikes.templates*.npy"] with
    | some f => match d.lookup f with
      | some a => d ++ [("spike_clusters.npy", a)]
      | none => d
    | none => d

/-- the directory after the inverse-whitening step; `e` = the inverse of the identity that stands for a missing
whitening matrix (`inv (eye one nc)`) -/
def d2Of (inv : Arr → Arr) (d1 : Dir) (e : Arr) : Dir :=
  (match readFile d1 ["whitening_mat_inv.npy"] with
    | some a => (some (atleast 2 (squeeze (scrub a))), d1)
    | none =>
      match (readFile d1 ["whitening_mat.npy"]).map fun a => atleast 2 (squeeze (scrub a)) with
      | some w => ((none : Option Arr), d1 ++ [("whitening_mat_inv.npy", inv w)])
      | none => (none, d1 ++ [("whitening_mat_inv.npy", e)])).2

theorem load_core (inv : Arr → Arr) {one : Cell} (d : Dir) (v : View) (d' : Dir) (h : load inv d one = .ok (v, d')) :
    d' = d2Of inv (d1Of d) (inv (eye one (v.channelMap.shape.headD 0))) ∧
    (findPath d ["spike_clusters.npy", "spikes.clusters*.npy"] = none →
      ∃ f a, findPath d ["spike_templates.npy", "spikes.templates*.npy"] = some f ∧ d.lookup f = some a ∧
        v.spikeClusters = squeeze (scrub a) ∧ v.spikeTemplates = squeeze (scrub a)) := by
  simp only [load, bind, Except.bind, pure, Except.pure, throw, throwThe, MonadExceptOf.throw] at h
  repeat' first
    | (cases h; done)
    | (injection h with h; injection h with hv hd)
    | split at h
  all_goals subst hv hd
  all_goals refine ⟨by simp only [d1Of, d2Of, *]; rfl, fun hn => ?_⟩
  all_goals first
    | (have hc := ‹findPath d ["spike_clusters.npy", "spikes.clusters*.npy"] = some _›
       rw [hn] at hc; cases hc; done)
    | (have h1 := ‹readFile d ["spike_templates.npy", "spikes.templates*.npy"] = some _›
       have h2 := ‹findPath d ["spike_templates.npy", "spikes.templates*.npy"] = some _›
       simp only [readFile, h2] at h1
       refine ⟨_, _, h2, h1, ?_, rfl⟩
       simp_all)


theorem d2Of_eq (inv : Arr → Arr) (d1 : Dir) (e : Arr) :
    ∃ w, d2Of inv d1 e = d1 ++
      (if d1.lookup "whitening_mat_inv.npy" = none then [("whitening_mat_inv.npy", w)] else []) := by
  unfold d2Of
  rw [readFile_exact d1 "whitening_mat_inv.npy" (by decide)]
  split
  · next a ha => exact ⟨⟨[], []⟩, by simp [ha]⟩
  · next hn =>
    split
    · next w _ => exact ⟨inv w, by simp [hn]⟩
    · exact ⟨e, by simp [hn]⟩

theorem sc_not_mem (d : Dir) (hn : findPath d ["spike_clusters.npy", "spikes.clusters*.npy"] = none) :
    "spike_clusters.npy" ∉ d.map (·.1) := by
  intro hm
  have := findPath_none d _ hn "spike_clusters.npy" (by simp) _ hm
  rw [(globMatch_exact "spike_clusters.npy" "spike_clusters.npy" (by decide)).2 rfl] at this
  cases this

/-- shape of the directory returned by a successful load -/
theorem load_dir (inv : Arr → Arr) {one : Cell} (d : Dir) (v : View) (d' : Dir) (h : load inv d one = .ok (v, d')) :
    ∃ a w, d' = d ++
        (if findPath d ["spike_clusters.npy", "spikes.clusters*.npy"] = none then [("spike_clusters.npy", a)] else []) ++
        (if d.lookup "whitening_mat_inv.npy" = none then [("whitening_mat_inv.npy", w)] else []) ∧
      (findPath d ["spike_clusters.npy", "spikes.clusters*.npy"] = none →
        ∃ f, findPath d ["spike_templates.npy", "spikes.templates*.npy"] = some f ∧ d.lookup f = some a ∧
          v.spikeClusters = squeeze (scrub a) ∧ v.spikeTemplates = squeeze (scrub a)) := by
  obtain ⟨hd, hc⟩ := load_core inv d v d' h
  obtain ⟨w, hw⟩ := d2Of_eq inv (d1Of d) (inv (eye one (v.channelMap.shape.headD 0)))
  by_cases hn : findPath d ["spike_clusters.npy", "spikes.clusters*.npy"] = none
  · obtain ⟨f, a, hf, ha, hsc, hst⟩ := hc hn
    have h1 : d1Of d = d ++ [("spike_clusters.npy", a)] := by simp only [d1Of, hn, hf, ha]
    refine ⟨a, w, ?_, fun _ => ⟨f, hf, ha, hsc, hst⟩⟩
    rw [hd, hw, h1, List.lookup_append]
    have : List.lookup "whitening_mat_inv.npy" [("spike_clusters.npy", a)] = none := by
      simp [List.lookup]
    rw [this, Option.or_none]
    simp [hn]
  · have h1 : d1Of d = d := by
      unfold d1Of
      split
      · rfl
      · next h0 => exact absurd h0 hn
    refine ⟨⟨[], []⟩, w, ?_, fun h0 => absurd h0 hn⟩
    rw [hd, hw, h1]
    simp [hn]

theorem load_frame (inv : Arr → Arr) {one : Cell} (d : Dir) (v : View) (d' : Dir) (h : load inv d one = .ok (v, d')) :
    (∀ name a, d.lookup name = some a → d'.lookup name = some a) ∧
    (∀ name ∈ d'.map (·.1), name ∈ d.map (·.1) ∨ name = "spike_clusters.npy" ∨ name = "whitening_mat_inv.npy") ∧
    (("spike_clusters.npy" ∈ d'.map (·.1) ∧ "spike_clusters.npy" ∉ d.map (·.1)) ↔
      findPath d ["spike_clusters.npy", "spikes.clusters*.npy"] = none) ∧
    (d'.length = d.length +
      (if findPath d ["spike_clusters.npy", "spikes.clusters*.npy"] = none then 1 else 0) +
      (if d.lookup "whitening_mat_inv.npy" = none then 1 else 0)) := by
  obtain ⟨a, w, hd, -⟩ := load_dir inv d v d' h
  subst hd
  refine ⟨?_, ?_, ?_, ?_⟩
  · intro name x hx
    simp [List.lookup_append, hx]
  · intro name hname
    simp only [List.map_append, List.mem_append] at hname
    rcases hname with (hname | hname) | hname
    · exact .inl hname
    · split at hname
      · simp at hname; exact .inr (.inl hname)
      · simp at hname
    · split at hname
      · simp at hname; exact .inr (.inr hname)
      · simp at hname
  · constructor
    · rintro ⟨hm, hnm⟩
      apply Classical.byContradiction
      intro hn
      simp only [List.map_append, List.mem_append, hn, if_false, List.map_nil, List.not_mem_nil, or_false] at hm
      rcases hm with hm | hm
      · exact hnm hm
      · split at hm
        · simp at hm
        · simp at hm
    · intro hn
      exact ⟨by simp [hn], sc_not_mem d hn⟩
  · simp only [List.length_append]
    split <;> split <;> simp

theorem load_rejects_nonmonotone (inv : Arr → Arr) {one : Cell} (d : Dir) (s : Arr) (hs : d.lookup "spike_times.npy" = some s)
    (hm : monotone (scrub s).data = false) : load inv d one = .error .nonMonotone := by
  simp only [load, bind, Except.bind, pure, Except.pure, throw, throwThe, MonadExceptOf.throw, hs]
  simp [hm]

theorem load_rejects_two_cluster_files (inv : Arr → Arr) {one : Cell} (d : Dir)
    (h1 : (findPath d ["spike_clusters.npy"]).isSome) (h2 : (findPath d ["spikes.clusters*.npy"]).isSome)
    (v : View) (d' : Dir) : load inv d one ≠ .ok (v, d') := by
  intro h
  simp only [load, bind, Except.bind, pure, Except.pure, throw, throwThe, MonadExceptOf.throw, h1, h2,
    Bool.and_self, if_true] at h
  repeat' first
    | (cases h; done)
    | split at h

theorem scrub_spec (a : Arr) :
    (scrub a).shape = a.shape ∧ (scrub a).data.length = a.data.length ∧
    ∀ i (hi : i < a.data.length), (scrub a).data.getD i .nan =
      (match a.data[i]'hi with | .num v => .num v | _ => .num 0) := by
  refine ⟨rfl, by simp [scrub], ?_⟩
  intro i hi
  simp only [scrub, List.getD_eq_getElem?_getD, List.getElem?_map, List.getElem?_eq_getElem hi, Option.map_some,
    Option.getD_some]
  cases a.data[i] <;> rfl

theorem clusters_default (inv : Arr → Arr) {one : Cell} (d : Dir) (v : View) (d' : Dir) (h : load inv d one = .ok (v, d'))
    (hn : findPath d ["spike_clusters.npy", "spikes.clusters*.npy"] = none) :
    v.spikeClusters = v.spikeTemplates ∧
    ∃ f, findPath d ["spike_templates.npy", "spikes.templates*.npy"] = some f ∧
      d'.lookup "spike_clusters.npy" = d.lookup f := by
  obtain ⟨a, w, hd, hc⟩ := load_dir inv d v d' h
  obtain ⟨f, hf, ha, hsc, hst⟩ := hc hn
  refine ⟨hsc.trans hst.symm, f, hf, ?_⟩
  have hl : d.lookup "spike_clusters.npy" = none := lookup_none_of_not_mem d _ (sc_not_mem d hn)
  rw [hd, ha]
  simp [List.lookup_append, hl, hn, List.lookup]

end PhyVerif.C04.Lemmas
