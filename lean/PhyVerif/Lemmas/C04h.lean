import PhyVerif.Model.C04h
import PhyVerif.Lemmas.C04
import PhyVerif.Lemmas.C04g
import PhyVerif.Lemmas.C04e
import PhyVerif.Lemmas.C04f
import PhyVerif.Model.C04f
import PhyVerif.Lemmas.C07
/-! C04: the loader with the directory in every outcome (`loadAny`), derived ids, entry-level helper lemmas. -/
namespace PhyVerif.C04.Lemmas
open PhyVerif PhyVerif.C04

theorem timesOf_cases (d : Dir) (ti : TimeSrc) (sa : SampleSrc) (tc : List Cell) (h : timesOf d = some (ti, sa, tc)) :
    (∃ s, d.lookup "spike_times.npy" = some s ∧ ti = .samplesOverRate (squeeze (scrub s)) ∧
      sa = .file (squeeze (scrub s)) ∧ tc = (scrub s).data) ∨
    (d.lookup "spike_times.npy" = none ∧ ∃ t, readFile d ["spikes.times*.npy"] = some t ∧
      ti = .stored (squeeze (scrub t)) ∧ tc = (scrub t).data ∧
      ((∃ s, readFile d ["spikes.samples*.npy"] = some s ∧ sa = .file (squeeze (scrub s))) ∨
       (readFile d ["spikes.samples*.npy"] = none ∧ sa = .roundedTimes (squeeze (scrub t))))) := by
  unfold timesOf at h
  split at h
  · next s hs => simp at h; exact .inl ⟨s, hs, by simp [h]⟩
  · next hs =>
    split at h
    · cases h
    · next t ht =>
      split at h
      · next s hss => simp at h; exact .inr ⟨hs, t, ht, by simp [h], by simp [h], .inl ⟨s, hss, by simp [h]⟩⟩
      · next hss => simp at h; exact .inr ⟨hs, t, ht, by simp [h], by simp [h], .inr ⟨hss, by simp [h]⟩⟩

theorem clustersOf_cases (d : Dir) (sc : Arr) (d1 : Dir) (h : clustersOf d = .ok (sc, d1)) :
    (∃ f a, findPath d ["spike_clusters.npy", "spikes.clusters*.npy"] = some f ∧ d.lookup f = some a ∧
      sc = squeeze (scrub a) ∧ d1 = d) ∨
    (findPath d ["spike_clusters.npy", "spikes.clusters*.npy"] = none ∧
      ∃ f a, findPath d ["spike_templates.npy", "spikes.templates*.npy"] = some f ∧ d.lookup f = some a ∧
        sc = squeeze (scrub a) ∧ d1 = d ++ [("spike_clusters.npy", a)]) := by
  unfold clustersOf at h
  split at h
  · next f hf =>
    split at h
    · next a ha => simp at h; exact .inl ⟨f, a, hf, ha, h.1.symm, h.2.symm⟩
    · cases h
  · next hf =>
    split at h
    · next f hf2 =>
      split at h
      · next a ha => simp at h; exact .inr ⟨hf, f, a, hf2, ha, h.1.symm, h.2.symm⟩
      · cases h
    · cases h

/-- a successful `loadAny` is a successful `load` with the same view and directory, and has at least one spike -/
theorem loadAny_ok (inv : Arr → Arr) {one : Cell} (bad : List String) (d : Dir) (v : View) (d' : Dir)
    (h : loadAny inv bad d one = (.ok v, d')) : load inv d one = .ok (v, d') ∧ v.spikeTemplates.data ≠ [] := by
  unfold loadAny at h
  split at h
  · cases h
  next ti sa tc htimes =>
  split at h
  · cases h
  next hmono =>
  dsimp only at h
  split at h
  · cases h
  next a0 ha0 =>
  split at h
  · cases h
  next hne =>
  split at h
  · cases h
  next hbad0 =>
  split at h
  · cases h
  next hconf =>
  split at h
  · cases h
  next sc d1 hcl =>
  split at h
  · cases h
  next a1 ha1 =>
  split at h
  · cases h
  next hbad1 =>
  split at h
  · cases h
  next a2 ha2 =>
  split at h
  · cases h
  next hbad2 =>
  simp only [Prod.mk.injEq, Except.ok.injEq] at h
  obtain ⟨hv, hd⟩ := h
  subst hv hd
  refine ⟨?_, by simpa using hne⟩
  have hmono' : monotone tc = true := by simpa using hmono
  have hconf' : ((findPath d ["spike_clusters.npy"]).isSome && (findPath d ["spikes.clusters*.npy"]).isSome) = false := by
    simpa using hconf
  rcases timesOf_cases d ti sa tc htimes with ⟨s, k1, rfl, rfl, rfl⟩ | ⟨k1, t, k2, rfl, rfl, ⟨s, k3, rfl⟩ | ⟨k3, rfl⟩⟩ <;>
  rcases clustersOf_cases d sc d1 hcl with ⟨f, a, k4, k5, rfl, rfl⟩ | ⟨k4, f, a, k5, k6, rfl, rfl⟩ <;>
  cases hwmi : readFile _ ["whitening_mat_inv.npy"] <;>
  cases hwm : readFile _ ["whitening_mat.npy"] <;>
  simp only [load, bind, Except.bind, pure, Except.pure, throw, throwThe, MonadExceptOf.throw, *,
    Bool.not_true, Bool.false_eq_true, if_false, Option.map_some, Option.map_none] <;>
  first | rfl | simp_all

/-- what a load can have added to the directory, whatever its outcome -/
def Added (d d' : Dir) : Prop :=
  ∃ e1 e2, d' = d ++ e1 ++ e2 ∧
    (e1 = [] ∨ (findPath d ["spike_clusters.npy", "spikes.clusters*.npy"] = none ∧
      ∃ f a, findPath d ["spike_templates.npy", "spikes.templates*.npy"] = some f ∧ d.lookup f = some a ∧
        e1 = [("spike_clusters.npy", a)])) ∧
    (e2 = [] ∨ (d.lookup "whitening_mat_inv.npy" = none ∧ ∃ w, e2 = [("whitening_mat_inv.npy", w)]))

theorem added_refl (d : Dir) : Added d d := ⟨[], [], by simp, .inl rfl, .inl rfl⟩

theorem added_d1 (d : Dir) (sc : Arr) (d1 : Dir) (h : clustersOf d = .ok (sc, d1)) :
    ∃ e1, d1 = d ++ e1 ∧
    (e1 = [] ∨ (findPath d ["spike_clusters.npy", "spikes.clusters*.npy"] = none ∧
      ∃ f a, findPath d ["spike_templates.npy", "spikes.templates*.npy"] = some f ∧ d.lookup f = some a ∧
        e1 = [("spike_clusters.npy", a)])) := by
  rcases clustersOf_cases d sc d1 h with ⟨f, a, k4, k5, rfl, rfl⟩ | ⟨k4, f, a, k5, k6, rfl, rfl⟩
  · exact ⟨[], by simp, .inl rfl⟩
  · exact ⟨_, rfl, .inr ⟨k4, f, a, k5, k6, rfl⟩⟩

theorem lookup_wmi_append (d : Dir) (e1 : Dir)
    (h : e1 = [] ∨ ∃ a, e1 = [("spike_clusters.npy", a)]) :
    (d ++ e1).lookup "whitening_mat_inv.npy" = d.lookup "whitening_mat_inv.npy" := by
  rcases h with rfl | ⟨a, rfl⟩
  · simp
  · rw [List.lookup_append]; simp [List.lookup]

/-- the directory after ANY outcome of the load is the original one plus, at the end, possibly the cluster copy (only
when no cluster file existed; a copy of the winning spike-template file) and possibly an inverse whitening matrix (only
when none existed) -/
theorem loadAny_added (inv : Arr → Arr) {one : Cell} (bad : List String) (d : Dir) : Added d (loadAny inv bad d one).2 := by
  unfold loadAny
  split
  · exact added_refl d
  split
  · exact added_refl d
  dsimp only
  split
  · exact added_refl d
  split
  · exact added_refl d
  split
  · exact added_refl d
  split
  · exact added_refl d
  split
  · exact added_refl d
  next sc d1 hcl =>
  obtain ⟨e1, rfl, he1⟩ := added_d1 d sc d1 hcl
  have hd1 : Added d (d ++ e1) := ⟨e1, [], by simp, he1, .inl rfl⟩
  split
  · exact hd1
  split
  · exact hd1
  split
  · exact hd1
  split
  · exact hd1
  have hw : (d ++ e1).lookup "whitening_mat_inv.npy" = d.lookup "whitening_mat_inv.npy" :=
    lookup_wmi_append d e1 (by
      rcases he1 with h | ⟨-, f, a, -, -, h⟩
      · exact .inl h
      · exact .inr ⟨a, h⟩)
  rw [readFile_exact _ "whitening_mat_inv.npy" (by decide), hw]
  cases hl : d.lookup "whitening_mat_inv.npy" with
  | some a => exact hd1
  | none =>
    dsimp only
    split
    · exact ⟨e1, _, rfl, he1, .inr ⟨hl, _, rfl⟩⟩
    · exact ⟨e1, _, rfl, he1, .inr ⟨hl, _, rfl⟩⟩

theorem frame_of_added (d d' : Dir) (h : Added d d') :
    (∀ name a, d.lookup name = some a → d'.lookup name = some a) ∧
    (∀ name ∈ d'.map (·.1), name ∈ d.map (·.1) ∨ name = "spike_clusters.npy" ∨ name = "whitening_mat_inv.npy") ∧
    ("spike_clusters.npy" ∉ d.map (·.1) → "spike_clusters.npy" ∈ d'.map (·.1) →
      findPath d ["spike_clusters.npy", "spikes.clusters*.npy"] = none ∧
      ∃ f, findPath d ["spike_templates.npy", "spikes.templates*.npy"] = some f ∧
        d'.lookup "spike_clusters.npy" = d.lookup f) ∧
    ("whitening_mat_inv.npy" ∉ d.map (·.1) ∨ d'.lookup "whitening_mat_inv.npy" = d.lookup "whitening_mat_inv.npy") ∧
    d'.length ≤ d.length +
      (if findPath d ["spike_clusters.npy", "spikes.clusters*.npy"] = none then 1 else 0) +
      (if d.lookup "whitening_mat_inv.npy" = none then 1 else 0) := by
  obtain ⟨e1, e2, rfl, he1, he2⟩ := h
  refine ⟨?_, ?_, ?_, ?_, ?_⟩
  · intro name x hx
    simp [List.lookup_append, hx]
  · intro name hname
    simp only [List.map_append, List.mem_append] at hname
    rcases hname with (hname | hname) | hname
    · exact .inl hname
    · rcases he1 with rfl | ⟨-, f, a, -, -, rfl⟩
      · simp at hname
      · simp at hname; exact .inr (.inl hname)
    · rcases he2 with rfl | ⟨-, w, rfl⟩
      · simp at hname
      · simp at hname; exact .inr (.inr hname)
  · intro hnm hm
    have hl : d.lookup "spike_clusters.npy" = none := lookup_none_of_not_mem d _ hnm
    rcases he1 with rfl | ⟨hn, f, a, hf, ha, rfl⟩
    · exfalso
      simp only [List.append_nil, List.map_append, List.mem_append] at hm
      rcases hm with hm | hm
      · exact hnm hm
      · rcases he2 with rfl | ⟨-, w, rfl⟩ <;> simp at hm
    · refine ⟨hn, f, hf, ?_⟩
      rw [ha]
      simp [List.lookup_append, hl, List.lookup]
  · by_cases hm : "whitening_mat_inv.npy" ∈ d.map (·.1)
    · right
      obtain ⟨⟨n, x⟩, hx, hnx⟩ := List.mem_map.1 hm
      cases hl : d.lookup "whitening_mat_inv.npy" with
      | none =>
        rw [List.lookup_eq_none_iff] at hl
        have := hl (n, x) hx
        simp at hnx
        simp [hnx] at this
      | some y => simp [List.lookup_append, hl]
    · exact .inl hm
  · simp only [List.length_append]
    rcases he1 with rfl | ⟨hn, f, a, -, -, rfl⟩ <;> rcases he2 with rfl | ⟨hw, w, rfl⟩ <;> simp [*] <;> split <;> omega

theorem loadAny_early_unchanged (inv : Arr → Arr) {one : Cell} (bad : List String) (d : Dir) (e : AnyErr)
    (h : (loadAny inv bad d one).1 = .error e) (he : e.early = true) : (loadAny inv bad d one).2 = d := by
  generalize hr : loadAny inv bad d one = r at h ⊢
  unfold loadAny at hr
  dsimp only at hr
  repeat' first
    | (subst hr
       first
         | rfl
         | (simp only [Except.error.injEq] at h; subst h; exact absurd he (by decide))
         | (cases h; done))
    | split at hr

/-! ### derived ids -/

theorem uniqueIds_spec (a : Arr) :
    C07.IsSortedSetOf (uniqueIds a) (fun v => ∃ c ∈ a.data, cellInt c = (v : Int)) := by
  obtain ⟨h1, h2⟩ := C07.Lemmas.unique_spec (a.data.map cellInt)
  refine ⟨h1, fun v => ?_⟩
  rw [uniqueIds, h2 v]
  simp [List.mem_map]

/-- on non-negative cells `uniqueIds` is `np.unique`, over the integers -/
theorem uniqueIds_idSet (a : Arr) (hnn : ∀ c ∈ a.data, 0 ≤ cellInt c) : IsIdSetOf (uniqueIds a) a.data := by
  obtain ⟨h1, h2⟩ := uniqueIds_spec a
  refine ⟨h1, fun z => ⟨?_, ?_⟩⟩
  · rintro ⟨v, hv, rfl⟩
    exact (h2 v).1 hv
  · rintro ⟨c, hc, rfl⟩
    have h0 := hnn c hc
    refine ⟨(cellInt c).toNat, (h2 _).2 ⟨c, hc, ?_⟩, ?_⟩ <;> omega

theorem loadFull_ids {β : Type} (inv : Arr → Arr) (rate : Rat) (tden ncd : Nat) (one : Cell)
    (raw : Option (List (List (List β)))) (d : Dir) (fv : FullView β) (d' : Dir)
    (h : loadFull inv rate tden ncd one raw d = .ok (fv, d'))
    (hnn : ∀ c ∈ fv.base.spikeTemplates.data ++ fv.base.spikeClusters.data ++ fv.channelProbes.data, 0 ≤ cellInt c) :
    IsIdSetOf fv.base.templateIds fv.base.spikeTemplates.data ∧
    IsIdSetOf fv.base.clusterIds fv.base.spikeClusters.data ∧
    fv.channelProbes = fv.base.channelProbes.getD (zerosVec (fv.base.channelMap.shape.headD 0)) ∧
    IsIdSetOf fv.probes fv.channelProbes.data := by
  obtain ⟨-, -, -, hnc, -, -, -, -, -, -, hp, -⟩ := loadFull_nf inv rate tden ncd one raw d fv d' h
  rw [hnc] at hp
  exact ⟨uniqueIds_idSet _ fun c hc => hnn c (by simp [hc]), uniqueIds_idSet _ fun c hc => hnn c (by simp [hc]), hp,
    uniqueIds_idSet _ fun c hc => hnn c (by simp [hc])⟩

/-! ### the inverse whitening matrix with its default -/

theorem loadFull_wmi_eq {β : Type} (inv : Arr → Arr) (rate : Rat) (tden ncd : Nat) (one : Cell)
    (raw : Option (List (List (List β)))) (d : Dir) (fv : FullView β) (d' : Dir)
    (h : loadFull inv rate tden ncd one raw d = .ok (fv, d')) :
    fv.wmi = fv.base.wmi.getD (inv (fv.base.wm.getD (eye one (fv.base.channelMap.shape.headD 0)))) := by
  unfold loadFull at h
  simp only [bind, Except.bind, pure, Except.pure, throw, throwThe, MonadExceptOf.throw] at h
  cases hl : load inv d one with
  | error e => simp [hl] at h
  | ok r =>
    obtain ⟨v, dd⟩ := r
    simp only [hl] at h
    split at h
    · cases h
    · split at h
      · cases h
      split at h
      · cases h
      · injection h with h
        injection h with h1 h2
        subst h1 h2
        rfl

/-- the inverse whitening matrix of a loaded model: the stored file (at least 2-D, squeezed, scrubbed), or — no file —
what `inv` returned on the whitening matrix the model shows (the stored one or the identity), which is also what the
loader wrote to `whitening_mat_inv.npy` -/
theorem loadFull_wmi {β : Type} (inv : Arr → Arr) (rate : Rat) (tden ncd : Nat) (one : Cell)
    (raw : Option (List (List (List β)))) (d : Dir) (fv : FullView β) (d' : Dir)
    (h : loadFull inv rate tden ncd one raw d = .ok (fv, d')) :
    (∀ a, d.lookup "whitening_mat_inv.npy" = some a →
      fv.wmi = atleast 2 (squeeze (scrub a)) ∧ d'.lookup "whitening_mat_inv.npy" = some a) ∧
    (d.lookup "whitening_mat_inv.npy" = none →
      fv.wmi = inv fv.wm ∧ d'.lookup "whitening_mat_inv.npy" = some (inv fv.wm)) := by
  have he := loadFull_wmi_eq inv rate tden ncd one raw d fv d' h
  obtain ⟨hb, -, -, hnc, -, -, -, -, -, -, -, hwm, -⟩ := loadFull_nf inv rate tden ncd one raw d fv d' h
  rw [hnc] at hwm
  rw [← hwm] at he
  refine ⟨fun a ha => ?_, fun hn => ?_⟩
  · rw [he, wmi_stored inv d fv.base d' hb a ha]
    exact ⟨rfl, (load_frame inv d fv.base d' hb).1 _ a ha⟩
  · obtain ⟨h1, h2⟩ := wmi_default inv d fv.base d' hb hn
    rw [← hwm] at h2
    rw [he, h1]
    exact ⟨rfl, h2⟩

/-! ### duration without raw data -/

theorem loadFull_duration_last {β : Type} (inv : Arr → Arr) (rate : Rat) (tden ncd : Nat) (one : Cell)
    (d : Dir) (fv : FullView β) (d' : Dir)
    (h : loadFull inv rate tden ncd one none d = .ok (fv, d')) (hne : fv.spikeTimes ≠ []) :
    fv.duration = fv.spikeTimes.getLast hne := by
  have := (loadFull_duration inv rate tden ncd one none d fv d' h).2 rfl
  rw [this.2, List.getLast?_eq_some_getLast hne]
  rfl

theorem loadAny_nonempty_times {β : Type} (inv : Arr → Arr) (bad : List String) (rate : Rat) (tden ncd : Nat) (one : Cell)
    (raw : Option (List (List (List β)))) (d : Dir) (fv : FullView β) (d' : Dir)
    (h : loadFull inv rate tden ncd one raw d = .ok (fv, d'))
    (hany : loadAny inv bad d one = (.ok fv.base, d'))
    (hwf : fv.base.times.arr.data.length = fv.base.spikeTemplates.data.length) : fv.spikeTimes ≠ [] := by
  have hne := (loadAny_ok inv bad d fv.base d' hany).2
  obtain ⟨-, -, -, -, -, -, -, ht, -⟩ := loadFull_nf inv rate tden ncd one raw d fv d' h
  intro h0
  have hl : fv.spikeTimes.length = fv.base.times.arr.data.length := by
    rw [ht]
    cases fv.base.times <;> simp [timesVal, TimeSrc.arr]
  rw [h0, hwf] at hl
  exact hne (List.length_eq_zero_iff.1 hl.symm)

/-! ### entry-level characterisations of the helpers on the right-hand sides of `load_values` -/

theorem atleast_data (k : Nat) (a : Arr) : (atleast k a).data = a.data := by
  unfold atleast
  split <;> rfl

theorem atleast_shape (k : Nat) (a : Arr) :
    ((atleast k a).shape.filter (· != 1) = a.shape.filter (· != 1)) ∧
    (k ≤ a.shape.length → atleast k a = a) ∧
    (a.shape = [] → (atleast 1 a).shape = [1] ∧ (atleast 2 a).shape = [1, 1] ∧ (atleast 3 a).shape = [1, 1, 1]) ∧
    (∀ n, a.shape = [n] → (atleast 2 a).shape = [1, n] ∧ (atleast 3 a).shape = [1, n, 1]) ∧
    (∀ m n, a.shape = [m, n] → (atleast 3 a).shape = [m, n, 1]) := by
  refine ⟨?_, ?_, ?_, ?_, ?_⟩
  · unfold atleast
    split <;> simp_all [List.filter]
  · intro hk
    unfold atleast
    split <;> simp_all
  · intro hk
    simp [atleast, hk]
  · intro n hn
    simp [atleast, hn]
  · intro m n hn
    simp [atleast, hn]

theorem colsFix_spec (a : Arr) :
    (colsFix a).data = a.data ∧ (∀ n, a.shape = [n] → (colsFix a).shape = [n, 1]) ∧
    (a.shape.length = 2 → colsFix a = a) ∧ (colsFix a).shape.filter (· != 1) = a.shape.filter (· != 1) := by
  refine ⟨?_, ?_, ?_, ?_⟩
  · unfold colsFix; split <;> rfl
  · intro n hn; simp [colsFix, hn]
  · intro h2; unfold colsFix; split <;> simp_all
  · unfold colsFix; split <;> simp_all [List.filter]

theorem featCols_spec (c : Arr) :
    (featCols c).data = c.data ∧
    (∀ nt nloc, c.shape = [nt, nloc] → nt ≠ 1 → nloc ≠ 1 → featCols c = c) ∧
    (∀ nt, nt ≠ 1 → (c.shape = [nt] ∨ c.shape = [nt, 1]) → (featCols c).shape = [nt, 1]) := by
  refine ⟨?_, ?_, ?_⟩
  · unfold featCols addAxis squeeze; dsimp only; split <;> rfl
  · intro nt nloc hs h1 h2
    have : squeeze c = c := by
      cases c; simp only [squeeze] at *; simp_all
    simp [featCols, this, hs]
  · intro nt h1 hs
    rcases hs with hs | hs <;> simp [featCols, squeeze, addAxis, hs, h1]

theorem block_getElem? (l : List Cell) (sz t j : Nat) (hj : j < sz) :
    ((l.drop (t * sz)).take sz)[j]? = l[t * sz + j]? := by
  rw [List.getElem?_take_of_lt hj, List.getElem?_drop]

theorem block_length (l : List Cell) (sz nt t : Nat) (hl : l.length = nt * sz) (ht : t < nt) :
    ((l.drop (t * sz)).take sz).length = sz := by
  rw [List.length_take, List.length_drop, hl]
  have := Nat.mul_le_mul_right sz (by omega : t + 1 ≤ nt)
  rw [Nat.succ_mul] at this
  omega

/-- `data[empty] = 0` by entries: cell `j` of template `t` is 0 when EVERY cell of that template is NaN, and the stored
cell otherwise (a template with one finite cell keeps its NaNs) -/
theorem zeroNanTemplates_spec (a : Arr) (nt ns nc : Nat) (hs : a.shape = [nt, ns, nc])
    (hl : a.data.length = nt * (ns * nc)) :
    (zeroNanTemplates a).shape = a.shape ∧
    ∀ t j, t < nt → j < ns * nc →
      (zeroNanTemplates a).data[t * (ns * nc) + j]? =
        if (∀ j', j' < ns * nc → a.data[t * (ns * nc) + j']? = some Cell.nan) then some (.num 0)
        else a.data[t * (ns * nc) + j]? := by
  unfold zeroNanTemplates
  rw [hs]
  refine ⟨rfl, ?_⟩
  intro t j ht hj
  simp only
  generalize hsz : ns * nc = sz at *
  have hb : ∀ b ∈ ((List.range nt).map fun t => (a.data.drop (t * sz)).take sz).map
      (fun b => if (sz != 0 && b.all (· == Cell.nan)) = true then b.map (fun _ => Cell.num 0) else b), b.length = sz := by
    intro b hb
    simp only [List.map_map, List.mem_map, List.mem_range, Function.comp] at hb
    obtain ⟨t', ht', rfl⟩ := hb
    have hbl := block_length a.data sz nt t' hl ht'
    split
    · rw [List.length_map]; exact hbl
    · exact hbl
  rw [flatten_uniform_getElem? sz _ hb t j hj]
  simp only [List.getElem?_map, List.getElem?_range ht, Option.map_some, Option.bind_some]
  have hlen := block_length a.data sz nt t hl ht
  have hall : (((a.data.drop (t * sz)).take sz).all (· == Cell.nan)) = true ↔
      ∀ j', j' < sz → a.data[t * sz + j']? = some Cell.nan := by
    rw [List.all_eq_true]
    constructor
    · intro h j' hj'
      rw [← block_getElem? a.data sz t j' hj']
      have hlt : j' < ((a.data.drop (t * sz)).take sz).length := by rw [hlen]; exact hj'
      rw [List.getElem?_eq_getElem hlt]
      have := h _ (List.getElem_mem hlt)
      simpa using this
    · intro h x hx
      obtain ⟨j', hj', rfl⟩ := List.getElem_of_mem hx
      have := h j' (by rw [hlen] at hj'; exact hj')
      rw [← block_getElem? a.data sz t j' (by rw [hlen] at hj'; exact hj'), List.getElem?_eq_getElem hj'] at this
      simpa using this
  have hsz0 : (sz != 0) = true := by simp; omega
  by_cases hc : ∀ j', j' < sz → a.data[t * sz + j']? = some Cell.nan
  · rw [if_pos hc, if_pos (by rw [hsz0, hall.2 hc]; rfl)]
    rw [List.getElem?_map, List.getElem?_eq_getElem (by rw [hlen]; exact hj)]
    rfl
  · rw [if_neg hc, if_neg (by rw [hsz0, Bool.true_and]; intro h; exact hc (hall.1 h))]
    exact block_getElem? a.data sz t j hj
